/-
  C02 — Formatting a go.mod/go.work file preserves its meaning and is idempotent.
  Property theorems only; helper lemmas live in ModVerif/Proofs/Modfile*.lean.
  The three main statements (format_parse_syntax, format_idempotent, format_preserves_directives)
  are not yet proved: their full statements and the staged plan are in lean/PENDING.md.
-/
import ModVerif.Model.Modfile.Work
import ModVerif.Proofs.ModfilePrint
namespace ModVerif.Props.C02
open ModVerif ModVerif.Modfile

/-- Stage (iv) of the plan, final step of `Format`: the output never ends in a blank line — it is not
    a lone newline and does not end with two newlines.  (This is what makes the second `Format` of
    `format_idempotent` leave the end of the file alone.) -/
theorem format_no_trailing_blank_line (f : FileSyntax) :
    format f ≠ [10] ∧ ∀ pre, format f ≠ pre ++ [10, 10] := by
  have h := Proofs.ModfilePrint.trimTrailingBlank_not_blank (Printer.file {} f).bufRev
  unfold format
  generalize trimTrailingBlank (Printer.file {} f).bufRev = b at h
  constructor
  · intro hb
    have : b = [10] := by
      have := congrArg List.reverse hb
      simpa using this
    rw [this] at h
    exact h (by simp [Proofs.ModfilePrint.EndsBlankRev])
  · intro pre hb
    have : b = 10 :: 10 :: pre.reverse := by
      have := congrArg List.reverse hb
      simpa using this
    rw [this] at h
    exact h (by simp [Proofs.ModfilePrint.EndsBlankRev])

/-- The final trimming of `Format` is idempotent: applying it to an already trimmed buffer changes
    nothing. -/
theorem format_final_trim_idempotent (b : Bytes) :
    trimTrailingBlank (trimTrailingBlank b) = trimTrailingBlank b :=
  Proofs.ModfilePrint.trimTrailingBlank_idem b

/-- `printer.trim` is idempotent (used before every newline and before every comment line). -/
theorem printer_trim_idempotent (p : Printer) : p.trim.trim = p.trim :=
  Proofs.ModfilePrint.trim_idem p

/-- Non-vacuity of clause 1 and 2 on a file with every layout feature (comments before / suffix /
    inside a block / before `)`, a blank line, quoting, CRLF): it is accepted; its formatted output
    parses again to the same statement tokens; formatting that again gives the same bytes. -/
example :
    let x := B "// doc\r\nmodule  \"example.com/m\" // c\n\nrequire (\n\ta.b/c v1.0.0 // indirect\n\n\t// why\n\td.e/f   v1.2.3\n\t// tail\n)\n"
    (match parse (B "go.mod") x with
     | .ok t => (match parse (B "go.mod") (format t) with
                 | .ok t' => decide (format t' = format t ∧
                                     t'.allLines.map (·.token) = t.allLines.map (·.token))
                 | .error _ => false)
     | .error _ => false) = true := by decide +kernel

/-- Non-vacuity of clause 3 (directive values survive formatting), without and with the stub fixer, on
    a file whose arguments get re-quoted and whose versions get canonicalised / fixed. -/
example :
    let x := B "module \"example.com/m\"\nrequire \"a.b/c\" v1\nreplace a.b/c => \"./x y\"\nretract [v1.0.0, v1.1]\n"
    (match parseToFile (B "go.mod") x (some fixStub) true with
     | .ok f => (match parseToFile (B "go.mod") (format f.syn) (some fixStub) true with
                 | .ok g => decide (g.require.map (·.mod) = f.require.map (·.mod) ∧
                                    g.replace.map (fun r => (r.old, r.new)) = f.replace.map (fun r => (r.old, r.new)) ∧
                                    g.retract.map (·.interval) = f.retract.map (·.interval) ∧
                                    f.retract.map (·.interval) = [{ low := B "v1.0.0", high := B "v1.1.0" }])
                 | .error _ => false)
     | .error _ => false) = true := by decide +kernel

end ModVerif.Props.C02
