/-
  C02 — Formatting a go.mod/go.work file preserves its meaning and is idempotent.
  Property theorems only; helper lemmas live in ModVerif/Proofs/Modfile*.lean (the C02 development is
  ModVerif/Proofs/ModfileFmt*.lean).
  Status: stages 1–2 of DESIGN §6 C02 are proved for every input (lex_emits_TokOK, relex_one, tokens_relex,
  autoQuote_single_token, unquote_quote, parseString_autoQuote); clauses 1 and 2 are proved for every accepted
  input whose tree satisfies `EolCount` — end-of-line comments included, at most one per node
  (format_parse_syntax_partial2, format_idempotent_partial2; the `_partial` versions are the special case
  without end-of-line comments); clause 3 is proved under the same condition, `// indirect` markers included
  (format_preserves_directives_partial2 and its go.work twin; nil fixer or idempotent non-empty fixer, no
  retract with a fixer); `EolCount` holds for every accepted input in which no token spans two source lines
  (eolCount_of_single_line_tokens; `NoMultiLineToken x`, a decidable condition on the input bytes, implied by
  "no backslash directly followed by a newline"), which gives the three clauses under that SOURCE condition
  (format_parse_syntax_src, format_idempotent_src, format_preserves_directives_src and its go.work twin);
  every input the STRICT parsers (`Parse`, `ParseWork`) accept satisfies that source condition
  (strict_noMultiLineToken, strict_noMultiLineToken_work), so for strictly accepted inputs the three clauses hold
  without it (format_parse_syntax_strict, format_idempotent_strict, format_preserves_directives_strict and the
  go.work twins);
  the idempotence clause is FALSE in general
  (C02_violated_format_not_idempotent, eol_single_comment_not_sufficient).  What remains is listed in
  lean/PENDING.md.
-/
import ModVerif.Model.Modfile.Work
import ModVerif.Proofs.ModfilePrint
import ModVerif.Proofs.ModfileFmtConserve
import ModVerif.Proofs.ModfileFmtDir6
import ModVerif.Proofs.ModfileFmtWork4
import ModVerif.Proofs.ModfileFmtQuoteUnquote
import ModVerif.Proofs.ModfileEolWork
import ModVerif.Proofs.ModfileSrcDir
import ModVerif.Proofs.ModfileSrcBytes
import ModVerif.Proofs.ModfileFmtCom
import ModVerif.Proofs.ModfileStrictTokDir
import ModVerif.Proofs.ModfileFmtRet2
import ModVerif.Proofs.ModfileFmtRet3b
import ModVerif.Proofs.ModfileFmtRet4d
namespace ModVerif.Props.C02
open ModVerif ModVerif.Modfile

/-- Stage (iv) of the plan, final step of `Format`: the output never ends in a blank line — it is not
    a lone newline and does not end with two newlines.  (This is what makes the second `Format` of
    `format_idempotent` leave the end of the file alone.) -/
theorem format_no_trailing_blank_line (f : FileSyntax) :
    format f ≠ [10] ∧ ∀ pre, format f ≠ pre ++ [10, 10] := by
  have h := Proofs.ModfilePrint.trimTrailingBlank_not_blank (Printer.file {} f).bufRev
  unfold format
  generalize trimTrailingBlank (Printer.file {} f).bufRev = b at h
  constructor
  · intro hb
    have : b = [10] := by
      have := congrArg List.reverse hb
      simpa using this
    rw [this] at h
    exact h (by simp [Proofs.ModfilePrint.EndsBlankRev])
  · intro pre hb
    have : b = 10 :: 10 :: pre.reverse := by
      have := congrArg List.reverse hb
      simpa using this
    rw [this] at h
    exact h (by simp [Proofs.ModfilePrint.EndsBlankRev])

/-- The final trimming of `Format` is idempotent: applying it to an already trimmed buffer changes
    nothing. -/
theorem format_final_trim_idempotent (b : Bytes) :
    trimTrailingBlank (trimTrailingBlank b) = trimTrailingBlank b :=
  Proofs.ModfilePrint.trimTrailingBlank_idem b

/-- `printer.trim` is idempotent (used before every newline and before every comment line). -/
theorem printer_trim_idempotent (p : Printer) : p.trim.trim = p.trim :=
  Proofs.ModfilePrint.trim_idem p

/-- Non-vacuity of clause 1 and 2 on a file with every layout feature (comments before / suffix /
    inside a block / before `)`, a blank line, quoting, CRLF): it is accepted; its formatted output
    parses again to the same statement tokens; formatting that again gives the same bytes. -/
example :
    let x := B "// doc\r\nmodule  \"example.com/m\" // c\n\nrequire (\n\ta.b/c v1.0.0 // indirect\n\n\t// why\n\td.e/f   v1.2.3\n\t// tail\n)\n"
    (match parse (B "go.mod") x with
     | .ok t => (match parse (B "go.mod") (format t) with
                 | .ok t' => decide (format t' = format t ∧
                                     t'.allLines.map (·.token) = t.allLines.map (·.token))
                 | .error _ => false)
     | .error _ => false) = true := by decide +kernel

/-- Non-vacuity of clause 3 (directive values survive formatting), without and with the stub fixer, on
    a file whose arguments get re-quoted and whose versions get canonicalised / fixed. -/
example :
    let x := B "module \"example.com/m\"\nrequire \"a.b/c\" v1\nreplace a.b/c => \"./x y\"\nretract [v1.0.0, v1.1]\n"
    (match parseToFile (B "go.mod") x (some fixStub) true with
     | .ok f => (match parseToFile (B "go.mod") (format f.syn) (some fixStub) true with
                 | .ok g => decide (g.require.map (·.mod) = f.require.map (·.mod) ∧
                                    g.replace.map (fun r => (r.old, r.new)) = f.replace.map (fun r => (r.old, r.new)) ∧
                                    g.retract.map (·.interval) = f.retract.map (·.interval) ∧
                                    f.retract.map (·.interval) = [{ low := B "v1.0.0", high := B "v1.1.0" }])
                 | .error _ => false)
     | .error _ => false) = true := by decide +kernel

/-! ### Stage 1 — tokens (DESIGN §6 C02 (i)–(iii)) -/

open Proofs.ModfileFmtLex Proofs.ModfileFmtLine Proofs.ModfileFmtTok in
/-- ★ `lex_emits_TokOK` (stage (i)): whatever `readToken` delivers is the end of the input, a newline, a
    comment text (`//…` without newline), or a line token that is `TokOK` for the delivered kind: one
    punctuation byte; a quoted string closed by its quote (a backslash escapes the next rune in `"…"`); or a
    non-empty identifier all of whose runes are `isIdent`, with no `//` or `/*` at a rune boundary and not
    starting with a quote. -/
theorem lex_emits_TokOK (i i' : Input) (h : readToken i = .ok i') : LexOK i'.token.kind i'.token.text :=
  lex_emits_LexOK i i' h

example : (match readToken (newInput (B "require (")) with
    | .ok i' => decide (i'.token.text = B "require" ∧ i'.token.kind = .ident)
    | .error _ => false) = true := by decide +kernel

open Proofs.ModfileFmtLex Proofs.ModfileFmtLine Proofs.ModfileFmtTok in
/-- ★ `relex_one` (stage (ii)): a `TokOK` token, preceded by blanks (space, tab, CR) and followed by the end
    of the input, a blank, a newline or a punctuation byte (no condition after a punctuation token), is
    lexed by `readToken` as itself — same kind, same text — and exactly the blanks and the token are
    consumed; no comment is recorded. -/
theorem relex_one {k : TokKind} {t : Bytes} (hk : TokOK k t) (ws rest : Bytes)
    (hws : ∀ b ∈ ws, isBlank b = true) (hrest : DelimStart rest ∨ ∃ c, k = .punct c)
    (i : Input) (hi : i.remaining = ws ++ (t ++ rest)) :
    ∃ i', readToken i = .ok i' ∧ i'.token.kind = k ∧ i'.token.text = t ∧ i'.remaining = rest ∧
      i'.consumedRev = (ws ++ t).reverse ++ i.consumedRev ∧
      i'.commentsRev = i.commentsRev ∧ i'.nextId = i.nextId :=
  Proofs.ModfileFmtLex.relex_one hk ws rest hws hrest i hi

/-- non-vacuity: the punctuation token `(` after a blank, followed by anything -/
example : ∃ i', readToken (newInput (B " (x")) = .ok i' ∧ i'.token.text = [40] ∧ i'.remaining = B "x" := by
  obtain ⟨i', h1, _, h3, h4, _⟩ := relex_one (Proofs.ModfileFmtLex.TokOK.punct 40 (by decide)) [32] (B "x")
    (by decide) (Or.inr ⟨40, rfl⟩) (newInput (B " (x")) (by decide +kernel)
  exact ⟨i', h1, h3, h4⟩

open Proofs.ModfileFmtLex Proofs.ModfileFmtLine Proofs.ModfileFmtTok in
/-- ★ `tokens_relex` (stage (iii)): the bytes `Printer.tokens` writes for a non-empty list of line tokens
    (every text `TokOK` for the kind it determines), followed by a delimiter — in `Format`'s output a
    newline or ` (` —, are lexed by `ts.length` calls of `readToken` into exactly the same texts with the
    kinds the texts determine, and exactly the printed bytes are consumed.  (The separator is empty only
    next to punctuation, which is why adjacent tokens never fuse.) -/
theorem tokens_relex (ts : List Bytes) (hts : ∀ t ∈ ts, TokText t) (hne : ts ≠ [])
    (rest : Bytes) (hrest : DelimStart rest) (i : Input)
    (hi : i.remaining = (Printer.tokens {} ts).bufRev.reverse ++ rest) :
    ∃ i', lexN ts.length i = .ok (ts.map tk, i') ∧ i'.remaining = rest :=
  Proofs.ModfileFmtLine.tokens_relex {} ts hts hne rest hrest i (by simpa using hi)

/-- non-vacuity: `retract [v1.0.0, v1.1.0]` is printed as `retract [v1.0.0, v1.1.0]` and lexes back to its
    six tokens -/
example :
    let ts := [B "retract", B "[", B "v1.0.0", B ",", B "v1.1.0", B "]"]
    (decide ((Printer.tokens {} ts).bufRev.reverse = B "retract [v1.0.0, v1.1.0]") &&
    (match Proofs.ModfileFmtLine.lexN 6 (newInput (B "retract [v1.0.0, v1.1.0]\n")) with
     | .ok (l, i') => decide (l.map (·.2) = ts ∧ i'.remaining = B "\n")
     | .error _ => false)) = true := by decide +kernel

/-! ### Stage 2 — arguments print as one token -/

open Proofs.ModfileFmtLex in
/-- ★ `autoQuote_single_token`: whatever string the directive layer stores through `AutoQuote` is one
    `TokOK` token: unquoted it is an identifier (or, for a lone bracket/comma, that punctuation token);
    otherwise `strconv.Quote` produces a well-formed `"…"` string token. -/
theorem autoQuote_single_token (s : Bytes) : ∃ k, TokOK k (autoQuote s) :=
  Proofs.ModfileFmtQuote.autoQuote_single_token s

open Proofs.ModfileFmtLex in
/-- unquoted arguments other than a lone bracket or comma are identifier tokens -/
theorem autoQuote_unquoted_ident {s : Bytes} (h : mustQuote s = false) (hp : ∀ c ∈ punctBytes, s ≠ [c]) :
    TokOK .ident s :=
  Proofs.ModfileFmtQuote.autoQuote_unquoted_ident h hp

example : mustQuote (B "example.com/m") = false ∧ ∀ c ∈ Proofs.ModfileFmtLex.punctBytes, B "example.com/m" ≠ [c] := by
  decide +kernel

/-- `strconv.Unquote` inverts `strconv.Quote` on every byte string (valid UTF-8 or not). -/
theorem unquote_quote (s : Bytes) : Quote.unquote (Quote.quote s) = some s :=
  Proofs.ModfileFmtQuote.unquote_quote s

/-- ★ `parseString` reads the token `AutoQuote` wrote back to the same value and leaves the token alone —
    the step that makes directive values survive formatting. -/
theorem parseString_autoQuote (s : Bytes) : parseString (autoQuote s) = some (s, autoQuote s) :=
  Proofs.ModfileFmtQuote.parseString_autoQuote s

/-- `parseString` is idempotent on the token it rewrites. -/
theorem parseString_idem {tok v tok' : Bytes} (h : parseString tok = some (v, tok')) :
    parseString tok' = some (v, tok') :=
  Proofs.ModfileFmtQuote.parseString_idem h

example : parseString (B "\"a b\"") = some (B "a b", B "\"a b\"") := by decide +kernel

/-- the `IsPrint`/`IsSpace` table fact stage 2 rests on, by kernel evaluation over the 711-interval table -/
theorem isPrint_not_space : ∀ r, UnicodePrint.isPrint r = true → UnicodePrint.isSpace r = true → r = 32 :=
  Proofs.ModfileFmtQuote.isPrint_not_space

/-! ### Stage 3 — comments: `TrimSpace` algebra and whole-line / end-of-line classification -/

/-- `TrimSpace` is idempotent (every byte string), so printing a comment twice prints the same text. -/
theorem trimSpace_idem (s : Bytes) : GoStrings.trimSpace (GoStrings.trimSpace s) = GoStrings.trimSpace s :=
  Proofs.ModfileFmtTrim.trimSpace_idem s

open Proofs.ModfileFmtLex in
/-- a printed comment is still a `//` text without newline, is a prefix of the original, and does not end in
    a blank, CR or newline — so it is lexed back as exactly itself -/
theorem trimSpace_comment {c : Bytes} (h : CommentOK c) :
    (∃ e, c = GoStrings.trimSpace c ++ e ∧ CommentOK (GoStrings.trimSpace c)) ∧
    ∀ b, (GoStrings.trimSpace c).getLast? = some b → b ≠ 32 ∧ b ≠ 9 ∧ b ≠ 13 ∧ b ≠ 10 :=
  ⟨Proofs.ModfileFmtTrim.trimSpace_comment h, Proofs.ModfileFmtTrim.trimSpace_comment_last h⟩

example : Proofs.ModfileFmtLex.CommentOK (B "// x \t") := by
  constructor <;> decide +kernel

open Proofs.ModfileFmtClass in
/-- ★ classification on the source side: `readToken` preserves the line-prefix invariant; after a line
    token the current line is `Used`; from a `Used` state a comment is never delivered as a whole-line
    comment token (it is an end-of-line comment). -/
theorem comment_classification (j i : Input) (h : readToken j = .ok i) (hj : Inv j) :
    Inv i ∧ (Used j → i.token.kind ≠ .comment) ∧ (∀ t, Proofs.ModfileFmtLex.TokOK i.token.kind t → Used i) :=
  readToken_class j i h hj

example (data : Bytes) : Proofs.ModfileFmtClass.Inv (newInput data) := Proofs.ModfileFmtClass.inv_newInput data

/-! ### Stage 3/4 — line → block → file, for inputs without end-of-line comments -/

open Proofs.ModfileFmtTree in
/-- ★ the shape of every parsed statement list (any input): token texts are `TokOK`, a top-level line does
    not end in `(` or `( )` in scanning position, no block line starts with `)`, blank-line placeholders obey
    the parser's rule, whole-line comments are `//` texts, and the parser populates no `suffix`/`after`
    list. -/
theorem parseFile_wellShaped (data : Bytes) (stmts : List Expr) (i : Input) (h : parseFile data = .ok (stmts, i)) :
    WFStmts stmts :=
  Proofs.ModfileFmtEmits.parseFile_wf data stmts i h

open Proofs.ModfileFmtTree Proofs.ModfileFmtRender in
/-- ★ what `Format` prints for a well-shaped tree without header comments, as a pure function of the tree
    (`rStmts`: comment lines, token lines, `verb (`, tab-indented block lines, `)`, one blank line between
    statements): the printer's `trim` / `newline` / margin / blank-line-suppression machinery computes
    exactly that. -/
theorem format_eq_render (f : FileSyntax) (hwf : WFStmts f.stmts) (hc : f.comments.before = []) :
    format f = rStmts f.stmts :=
  format_eq_rStmts f hwf hc

open Proofs.ModfileFmtMain Proofs.ModfileFmtConserve in
/-- conservation of end-of-line comments by `assignComments` (part of stage (vi)): if no `suffix` list of
    the parsed tree is populated and no comment was left over for the file header (`NoEol t`), then the lexer
    recorded no end-of-line comment. -/
theorem noEol_source (name x : Bytes) (t : FileSyntax) (h : parse name x = .ok t) (hno : NoEol t) :
    eolComments x = [] :=
  eolComments_nil_of_noEol name x t h hno

open Proofs.ModfileFmtTree Proofs.ModfileFmtConserve in
/-- ★ `format_parse_syntax_partial` — `format_parse_syntax` for every accepted input WHOSE TREE HAS NO
    END-OF-LINE COMMENT (`NoEol t`: no `suffix` list populated, no comment left over for the file header;
    whole-line comments, comment blocks, blank lines in blocks, blocks, the three `(` special cases, quoted
    strings, CRLF, invalid UTF-8 in identifiers are all covered).  The formatted output parses again, and the
    new tree is the old one up to positions and line identities with every comment text replaced by its
    `TrimSpace` — the same statements, tokens and comment texts, in the same places — and again has no
    end-of-line comment.  What is missing for the full statement: end-of-line comments, whose re-attachment
    by `assignComments` depends on token positions (line numbers and byte offsets in the formatted text),
    which the proof does not track yet. -/
theorem format_parse_syntax_partial (name x : Bytes) (t : FileSyntax) (h : parse name x = .ok t)
    (hno : NoEol t) : ∃ t', parse name (format t) = .ok t' ∧ eraseFile t' = normFile t ∧ NoEol t' :=
  format_parse_syntax_noEol name x t h hno

open Proofs.ModfileFmtConserve in
/-- ★ `format_idempotent_partial` — `format_idempotent` under the same hypothesis.  Without a hypothesis that
    excludes displaced end-of-line comments the statement is FALSE: see `C02_violated_format_not_idempotent`
    below (a quoted string containing backslash-newline followed by an end-of-line comment).  `NoEol t`
    excludes that witness because it has end-of-line comments; strings with backslash-newline but without
    end-of-line comments are covered by this theorem. -/
theorem format_idempotent_partial (name x : Bytes) (t t' : FileSyntax) (h : parse name x = .ok t)
    (hno : NoEol t) (h' : parse name (format t) = .ok t') : format t' = format t :=
  format_idempotent_noEol name x t t' h hno h'

/-- non-vacuity of the hypotheses of the theorems above: an accepted file with whole-line comments, a
    comment block, a block with a blank line and comments before a line and before `)`, a quoted argument
    and CRLF — whose tree has no end-of-line comment -/
example :
    let x := B "// doc\r\nmodule  \"example.com/m\"\n\n// block\n\nrequire (\n\ta.b/c v1.0.0\n\n\t// why\n\td.e/f   v1.2.3\n\t// tail\n)\n"
    (match parse (B "go.mod") x with
     | .ok t => decide (t.comments.before = [] ∧ t.stmts.all fun s => match s with
         | .commentBlock c => c.comments.suffix.isEmpty
         | .line l => l.comments.suffix.isEmpty
         | .lineBlock b => b.comments.suffix.isEmpty && b.lparen.comments.suffix.isEmpty &&
             b.lines.all (·.comments.suffix.isEmpty) && b.rparen.comments.suffix.isEmpty
         | _ => false)
     | .error _ => false) = true := by decide +kernel

/-! ### Clause 3 — directive values survive formatting (strict go.mod, no end-of-line comments) -/

open Proofs.ModfileFmtDir in
/-- one strict `File.add` step: if it reports no error and its result is well-formed, then the rewritten
    arguments are line tokens other than parentheses, the state before the step was well-formed, and the
    step can be replayed on the REWRITTEN arguments — from any state with the same directive values, for any
    line without end-of-line comment — with the same rewritten arguments and the same values again (the
    rewritten tokens are fixpoints of `parseString` / `parseVersion` / `parseVersionInterval` /
    `parseReplace`). -/
theorem add_step_fixpoint (st st1 : AddState) (block : Option Comments) (l : Line) (verb : Bytes)
    (args args1 : List Bytes) (fix : Option Fixer)
    (h : File.add st block l verb args fix true = (st1, args1)) (he : st1.errsRev = [])
    (hfix : FixOK fix) (hne : FixNE fix) (hl : l.comments.suffix = []) (hwf : WellFormed st1.file)
    (horig : ∀ t ∈ args, Proofs.ModfileFmtLine.TokText t) :
    StepOK st st1 verb args1 fix ∧ WellFormed st.file ∧ ArgsTok args1 ∧ args1 ≠ [] :=
  add_step st st1 block l verb args args1 fix h he hfix hne hl hwf horig

open Proofs.ModfileFmtDir Proofs.ModfileFmtMain in
/-- ★ `format_preserves_directives_partial` (strict go.mod) — clause 3 of the property for inputs IN WHICH
    THE LEXER RECORDS NO END-OF-LINE COMMENT (`eolComments x = []`, equivalently `NoEol` of the parsed tree,
    see `noEol_source`): if the strict parser accepts `x` as a well-formed file `f` (every path non-empty and
    not a lone bracket/comma, every version a valid semantic version), then it accepts `Format(f.Syntax)`,
    and the directive values (module path, go, toolchain, godebug, require with indirect flag, exclude,
    replace, retract intervals, tool) are identical — without a version fixer, or with a fixer that is
    idempotent on its image and never returns the empty string, provided the file has no `retract` directive
    in that case (then the deferred `fixRetract` pass, which rewrites the tree by line identity, is not
    involved).  `Module.Deprecated` and `Retract.Rationale` are derived from comments, not from the
    directive's arguments, and are not among the values compared.  Missing for the full statement:
    end-of-line comments (as for clauses 1 and 2; in particular `// indirect`), `fixRetract` with a fixer,
    and `parseWork`. -/
theorem format_preserves_directives_partial (name x : Bytes) (fix : Option Fixer) (f : Modfile.File)
    (h : parseToFile name x fix true = .ok f) (hno : eolComments x = []) (hwf : WellFormed f)
    (hfix : FixOK fix) (hne : FixNE fix) (hret : fix ≠ none → f.retract = []) :
    ∃ f', parseToFile name (format f.syn) fix true = .ok f' ∧ values f' = values f :=
  format_preserves_directives_noeol name x fix f h hno hwf hfix hne hret

open Proofs.ModfileFmtDir Proofs.ModfileFmtWork Proofs.ModfileFmtMain in
/-- ★ `format_preserves_directives_partial` for go.work (`ParseWork`): the same statement — inputs without
    end-of-line comments, well-formed file (every `use` and `replace` path non-empty and not a lone
    bracket/comma, replace versions valid when present), no fixer or a fixer idempotent on its image that never
    returns the empty string; values = go / toolchain / godebug / use paths / replace pairs. -/
theorem format_preserves_directives_work_partial (name x : Bytes) (fix : Option Fixer) (f : WorkFile)
    (h : parseWork name x fix = .ok f) (hno : eolComments x = []) (hwf : WorkWellFormed f)
    (hfix : FixOK fix) (hne : FixNE fix) :
    ∃ f', parseWork name (format f.syn) fix = .ok f' ∧ workValues f' = workValues f :=
  format_preserves_directives_work name x fix f h hno hwf hfix hne

/-- non-vacuity for go.work -/
example :
    let x := B "go 1.21\ntoolchain go1.21.0\ngodebug a=b\nuse (\n\t\"./x y\"\n\t\"./z\"\n\t./w\n)\nreplace a.b/c v1.2 => \"../c\"\n"
    (match parseWork (B "go.work") x none with
     | .ok f => Proofs.ModfileFmtWork.workWellFormedB f
     | .error _ => false) = true ∧ Proofs.ModfileFmtMain.eolComments x = [] := by decide +kernel

/-- non-vacuity (no fixer): a file with every kind of directive, re-quoted arguments, non-canonical
    versions and a retraction is accepted as a well-formed file, without end-of-line comments -/
example :
    let x := B "module \"example.com/m\"\ngo 1.21\ntoolchain go1.21.0\ngodebug a=b\nrequire \"a.b/c\" v1\nexclude a.b/c v1.2\nreplace a.b/c => \"./x y\"\nretract [v1.0.0, v1.1]\ntool a.b/c/cmd\n"
    (match parseToFile (B "go.mod") x none true with
     | .ok f => Proofs.ModfileFmtDir.wellFormedB f
     | .error _ => false) = true ∧ Proofs.ModfileFmtMain.eolComments x = [] := by decide +kernel

/-- a fixer that satisfies the hypotheses: canonicalise valid versions, reject everything else -/
def canonFix : Fixer := fun _ v => if Semver.isValid v then .ok (Semver.canonicalVersion v) else .error .plain

/-- non-vacuity (with a fixer): `canonFix` is idempotent on its image and never returns the empty string; a
    file is accepted with it as a well-formed file without retraction and without end-of-line comments -/
example : Proofs.ModfileFmtDir.FixOK (some canonFix) ∧ Proofs.ModfileFmtDir.FixNE (some canonFix) ∧
    (let x := B "module example.com/m\nrequire a.b/c v1\nreplace a.b/c v1 => d.e/f v2.0\n"
     (match parseToFile (B "go.mod") x (some canonFix) true with
      | .ok f => Proofs.ModfileFmtDir.wellFormedB f && f.retract.isEmpty
      | .error _ => false) = true ∧ Proofs.ModfileFmtMain.eolComments x = []) := by
  refine ⟨Or.inr ⟨canonFix, rfl, ?_⟩, ?_, by decide +kernel⟩
  · intro p v w h
    unfold canonFix at h ⊢
    split at h
    · rename_i hv
      simp only [Except.ok.injEq] at h
      subst h
      simp [Proofs.ModfileFmtFix.canonicalVersion_valid hv, Proofs.ModfileFmtFix.canonicalVersion_idem]
    · cases h
  · intro fx hfx p v h
    simp only [Option.some.injEq] at hfx
    subst hfx
    unfold canonFix at h
    split at h
    · rename_i hv
      simp only [Except.ok.injEq] at h
      exact (Proofs.ModfileFmtFix.canonicalVersion_ne_nil_iff v).2 hv h
    · cases h

/-! ### A violation of the idempotence clause (finding) -/

/-- An accepted input on which `Format` is NOT idempotent: the second line holds a quoted string with a
    backslash-newline (the lexer accepts any rune after a backslash, including a newline), so the line spans
    two source lines and `assignComments` cannot attach `// c2` to it; the comment moves to the first line,
    which now has two end-of-line comments.  `Format` prints the second one on a line of its own directly
    below; on re-parsing it is a whole-line comment followed by a blank line, i.e. a comment block, and the
    next `Format` separates it from the first line by a blank line. -/
def c02IdemInput : Bytes := B "a b // c1\nx \"p\\\nq\" // c2\n"

/-- `C02` clause 2 ("formatting that output again changes nothing") fails for `c02IdemInput`: the syntax
    parser accepts it, the formatted output parses again, and formatting that tree gives different bytes
    (`a b // c1␤// c2␤␤x …` versus `a b // c1␤␤// c2␤␤x …`).  The real `modfile.Format` behaves identically
    (checked with `ParseLax`/`Format` of the pinned tree).  Consequently the full `format_idempotent` is
    false; `format_idempotent_partial` above is the proved fragment. -/
theorem C02_violated_format_not_idempotent :
    ∃ t t', parse (B "go.mod") c02IdemInput = .ok t ∧ parse (B "go.mod") (format t) = .ok t' ∧
      format t' ≠ format t ∧
      format t = B "a b // c1\n// c2\n\nx \"p\\\nq\"\n" ∧
      format t' = B "a b // c1\n\n// c2\n\nx \"p\\\nq\"\n" := by
  have h : (match parse (B "go.mod") c02IdemInput with
      | .ok t => (match parse (B "go.mod") (format t) with
          | .ok t' => decide (format t' ≠ format t ∧
              format t = B "a b // c1\n// c2\n\nx \"p\\\nq\"\n" ∧
              format t' = B "a b // c1\n\n// c2\n\nx \"p\\\nq\"\n")
          | .error _ => false)
      | .error _ => false) = true := by decide +kernel
  cases h1 : parse (B "go.mod") c02IdemInput with
  | error e => rw [h1] at h; cases h
  | ok t =>
    rw [h1] at h
    simp only at h
    cases h2 : parse (B "go.mod") (format t) with
    | error e => rw [h2] at h; cases h
    | ok t' =>
      rw [h2] at h
      simp only at h
      have := of_decide_eq_true h
      exact ⟨t, t', rfl, h2, this⟩

/-! ### End-of-line comments (`// indirect`, …): the suffix-comment stage of clauses 1 and 2

  Helper files `Proofs/ModfileEol*.lean`.  Stages: (i) the printer with its pending-comment queue computes a
  pure render function; (ii) a printed line with its end-of-line comment lexes back to its tokens followed by
  an END-OF-LINE comment token (classification preserved); (iii) the re-parse of the formatted text yields a
  statement list in which every position is explicit and ordered as printed; (iv) the second
  `assignComments` re-attaches every comment to the node it was printed after; then the two clauses under
  the hypothesis `EolCount`.  `EolCount t` (a decidable counting condition on the parsed tree `t`): no line, `(`
  or `)` carries more than one end-of-line comment (a block and its `)` share one slot), a comment block
  carries none, and none is left over for the file header.  It holds unless some quoted token contains an
  escaped newline — the one input shape on which clause 2 is FALSE (`C02_violated_format_not_idempotent`
  below, and `eol_single_comment_not_sufficient`).  (`EolOK` = `EolCount` plus "a line that carries an
  end-of-line comment has no newline byte inside its tokens", which every parsed tree satisfies:
  `commented_line_one_source_line`.) -/

open Proofs.ModfileEol in
/-- ★ stage (i) `format_eq_render_eol`: what `Format` prints for a well-shaped tree with end-of-line comments
    (at most one per node, none on a comment block) and without header comments, as a pure function of the tree
    (`rStmtsE` = `rStmts` with ` //comment` appended to a line, to `verb (` and to `)`): the printer's
    pending-comment queue (`Printer.comment`, filled by `queueSuffix`, flushed by `newline`) computes exactly
    that. -/
theorem format_eq_render_eol (f : FileSyntax) (hwf : EWFStmts f.stmts) (hc : f.comments.before = []) :
    format f = rStmtsE f.stmts :=
  format_eq_rStmtsE f hwf hc

open Proofs.ModfileEol Proofs.ModfileFmtLex Proofs.ModfileFmtLine in
/-- ★ stage (ii) `relex_line_eol`: a printed token line followed by its end — a newline, or ` //comment` and
    a newline (`sufB cs R`) — lexes (from any state whose consumed/remaining split is the text `D`) to the
    records of its tokens followed by the newline token resp. an END-OF-LINE comment token carrying the trimmed
    text (`sufT`): the whole-line / end-of-line classification of the printed comment is preserved, the
    comment is recorded with the position where its text starts, and every token record carries its start and
    end position `pa D r` (= where the suffix `r` of `D` begins). -/
theorem relex_line_eol {D : Bytes} (ws : Bytes) (hws : ∀ b ∈ ws, isBlank b = true) (ts : List Bytes) (hne : ts ≠ [])
    (hts : ∀ t ∈ ts, TokText t) (cs : List Comment) (hcs : SufOK cs) {R : Bytes} {S : List Token}
    (hS : LexesToE D .bol R S) (m : Mode) :
    LexesToE D m (ws ++ (tokStr ts [] ++ sufB cs R)) (tokStrT D ts (sufB cs R) ++ sufT D cs R :: S) :=
  lexesE_tokline ws hws ts hne hts cs hcs hS m

open Proofs.ModfileEol in
/-- ★ stage (iii): the formatted text of a well-shaped tree is `stmtsB f.stmts`; parsing it gives (before
    comment assignment, up to line identities) the statement list `eStmts`, in which every position is
    `pa D r` for an explicit suffix `r` of the formatted text `D` — so byte offsets are ordered as printed and
    line numbers differ by the newlines in between — and the lexer records exactly the printed end-of-line
    comments `stmtsC`, each with the position where its text starts. -/
theorem reparse_positions (f : FileSyntax) (hwf : EWFStmts f.stmts) (hc : f.comments.before = []) :
    format f = stmtsB f.stmts ∧
    ∃ out i', parseFile (format f) = .ok (out, i') ∧ out.map zidE = eStmts (format f) f.stmts ∧
      i'.commentsRev.reverse = stmtsC (format f) f.stmts :=
  parseFile_rendered f hwf hc

open Proofs.ModfileEol in
/-- ★ stage (iv) `assign_reattach`: on that statement list and those comments, the backwards post-order walk
    of `assignComments` (`end.byte ≤ c.start.byte`, nodes with `start.line ≠ end.line` skipped) gives every
    line, `(` and `)` the comment that was printed after it (`aStmts`) and leaves none for the file header.
    `NlOK`: a line that carries an end-of-line comment has no newline byte inside its tokens. -/
theorem assign_reattach {D : Bytes} (name : Bytes) (ss : List Expr) (hwf : EWFStmts ss) (hnl : ∀ s ∈ ss, NlOK s)
    (hD : D = stmtsB ss) :
    assignComments { name := name, stmts := eStmts D ss } (stmtsC D ss) =
      { name := name, comments := {}, stmts := aStmts D ss } :=
  Proofs.ModfileEol.assign_reattach name ss hwf hnl hD

open Proofs.ModfileEol in
/-- In every parsed tree, a line that carries an end-of-line comment has no newline byte inside its tokens:
    `assignComments` gives a comment only to a node with `start.line = end.line`, and a parsed line ends at
    least as many source lines below its start as its tokens contain newline bytes
    (`Proofs.ModfileEol.parseFile_ln`, from the C20 position facts).  Hence `EolOK` = `EolCount` for parsed
    trees (`Proofs.ModfileEol.eolOK_of_count`). -/
theorem commented_line_one_source_line {name x : Bytes} {t : FileSyntax} (h : parse name x = .ok t) :
    ∀ s ∈ t.stmts, NlOK s :=
  parse_nlOK h

open Proofs.ModfileEol Proofs.ModfileFmtTree in
/-- ★ `format_parse_syntax_partial2` — `format_parse_syntax` for every accepted input whose tree satisfies the
    counting condition `EolCount` (strictly weaker than `NoEol`, see `eolCount_of_noEol`; end-of-line comments
    on lines, after `verb (` and after `)` are covered, in particular `// indirect`).  The formatted output
    parses again; the new tree is the old one in normal form — positions and line identities erased, every
    comment text replaced by its `TrimSpace`, the comment of a one-line block `x ( ) // c` moved from the block
    to its `)` (the only change of attachment side under `EolCount`) — and satisfies `EolCount` again.
    `format_parse_syntax_reading` spells the equation out as "same statements, same tokens, same comment texts
    in the same order".
    Why a hypothesis: without it the statement is false — in `C02_violated_format_not_idempotent` the re-parsed
    tree has an additional comment block.  `EolCount` is not the weakest possible hypothesis: several comments
    on one line INSIDE a block or after `verb (`, and comments left over for the file header, also survive (with
    a change of attachment side), see lean/PENDING.md. -/
theorem format_parse_syntax_partial2 (name x : Bytes) (t : FileSyntax) (h : parse name x = .ok t) (hok : EolCount t) :
    ∃ t', parse name (format t) = .ok t' ∧ eraseFile t' = normFileE t ∧ EolCount t' :=
  format_parse_syntax_count name x t h hok

open Proofs.ModfileEol Proofs.ModfileFmtTree in
/-- the conclusion of `format_parse_syntax_partial2` in the words of the property: same name, same statements
    (kind, header / line tokens, in order), same comment texts modulo `TrimSpace` in the same printing order -/
theorem format_parse_syntax_reading {t t' : FileSyntax} (h : eraseFile t' = normFileE t) :
    t'.name = t.name ∧ t'.stmts.map tokShape = t.stmts.map tokShape ∧
      fileTexts t' = (fileTexts t).map GoStrings.trimSpace :=
  same_syntax_of_normal_form h

open Proofs.ModfileEol in
/-- ★ `format_idempotent_partial2` — `format_idempotent` for every accepted input whose tree satisfies
    `EolCount`.  Without such a hypothesis the statement is FALSE (`C02_violated_format_not_idempotent`); "no
    node carries more than one end-of-line comment" alone is not enough either
    (`eol_single_comment_not_sufficient`: the comment of a two-line line moves to a preceding comment block). -/
theorem format_idempotent_partial2 (name x : Bytes) (t t' : FileSyntax) (h : parse name x = .ok t) (hok : EolCount t)
    (h' : parse name (format t) = .ok t') : format t' = format t :=
  format_idempotent_count name x t t' h hok h'

open Proofs.ModfileEol Proofs.ModfileFmtConserve in
/-- `NoEol` (the hypothesis of the `_partial` theorems) implies `EolCount` -/
theorem eolCount_of_noEol {t : FileSyntax} (h : NoEol t) : EolCount t :=
  eolCount_of_ok (Proofs.ModfileEol.eolOK_of_noEol h)

/-- non-vacuity of `EolCount`: an accepted file with end-of-line comments on a top-level line, on block lines
    (`// indirect`), after `verb (`, after `)` and after a one-line block, plus whole-line comments, a blank line
    in a block, quoting and CRLF, satisfies it (`eolCountB` is the decidable form, `eolCountB_sound`) -/
example :
    let x := B "// doc\r\nmodule  \"example.com/m\" // c\n\nrequire ( // lp\n\ta.b/c v1.0.0 // indirect\n\n\t// why\n\td.e/f   v1.2.3\n\t// tail\n) // end\nx ( ) // e\n"
    (match parse (B "go.mod") x with
     | .ok t => Proofs.ModfileEol.eolCountB t
     | .error _ => false) = true := by decide +kernel

/-- … and both clauses on that file, by evaluation: the formatted output parses to a tree with the same
    comment texts (trimmed) in the same order, and formats to the same bytes -/
example :
    let x := B "// doc\r\nmodule  \"example.com/m\" // c\n\nrequire ( // lp\n\ta.b/c v1.0.0 // indirect\n\n\t// why\n\td.e/f   v1.2.3\n\t// tail\n) // end\nx ( ) // e\n"
    (match parse (B "go.mod") x with
     | .ok t => (match parse (B "go.mod") (format t) with
                 | .ok t' => decide (format t' = format t ∧
                     Proofs.ModfileEol.fileTexts t' = (Proofs.ModfileEol.fileTexts t).map GoStrings.trimSpace)
                 | .error _ => false)
     | .error _ => false) = true := by decide +kernel

/-- non-vacuity of the hypotheses of stages (i)–(iv) (`EWFStmts`, `NlOK`, no header comment) is
    `Proofs.ModfileEol.parse_ewf`: every accepted input whose tree satisfies `EolCount` has them -/
example (name x : Bytes) (t : FileSyntax) (h : parse name x = .ok t) (hok : Proofs.ModfileEol.EolCount t) :
    Proofs.ModfileEol.EWFStmts t.stmts ∧ (∀ s ∈ t.stmts, Proofs.ModfileEol.NlOK s) ∧ t.comments = {} ∧ t.name = name :=
  Proofs.ModfileEol.parse_ewf h (Proofs.ModfileEol.eolOK_of_count h hok)

/-- The hypothesis "no node carries more than one end-of-line comment" alone does NOT make `Format` idempotent
    (second manifestation of the known finding `C02_violated_format_not_idempotent`, same cause): here the
    two-line line `x "a\⏎b"` is skipped by `assignComments` and its comment `// c1` becomes the (only) suffix
    comment of the preceding comment block; `Format` prints it as ` // c1` on its own line, the re-parse makes
    it a whole-line comment of `x`, and the next `Format` prints `// c1` without the blank.  This is why `EolCount`
    requires comment blocks to carry no end-of-line comment. -/
theorem eol_single_comment_not_sufficient :
    ∃ t t', parse (B "go.mod") (B "// hello\n\nx \"a\\\nb\" // c1\n") = .ok t ∧
      parse (B "go.mod") (format t) = .ok t' ∧ format t' ≠ format t ∧
      format t = B "// hello\n // c1\nx \"a\\\nb\"\n" ∧ format t' = B "// hello\n// c1\nx \"a\\\nb\"\n" ∧
      (∀ s ∈ t.stmts, Proofs.ModfileFmtConserve.sufCount s ≤ 1) := by
  have h : (match parse (B "go.mod") (B "// hello\n\nx \"a\\\nb\" // c1\n") with
      | .ok t => (match parse (B "go.mod") (format t) with
          | .ok t' => decide (format t' ≠ format t ∧
              format t = B "// hello\n // c1\nx \"a\\\nb\"\n" ∧ format t' = B "// hello\n// c1\nx \"a\\\nb\"\n" ∧
              (∀ s ∈ t.stmts, Proofs.ModfileFmtConserve.sufCount s ≤ 1))
          | .error _ => false)
      | .error _ => false) = true := by decide +kernel
  cases h1 : parse (B "go.mod") (B "// hello\n\nx \"a\\\nb\" // c1\n") with
  | error e => rw [h1] at h; cases h
  | ok t =>
    rw [h1] at h
    simp only at h
    cases h2 : parse (B "go.mod") (format t) with
    | error e => rw [h2] at h; cases h
    | ok t' =>
      rw [h2] at h
      simp only at h
      have := of_decide_eq_true h
      exact ⟨t, t', rfl, h2, this⟩

/-! ### Clause 3 with end-of-line comments (`// indirect`) -/

open Proofs.ModfileEol in
/-- `File.add` looks at a line (and at the block comments) only through its position (error messages), its
    identity, `isIndirect` (for `require`) and the deprecation / rationale texts: from the same state, two lines
    with the same `isIndirect` give the same directive values, the same number of errors and the same rewritten
    arguments. -/
theorem add_line_independent (st : AddState) (b b' : Option Comments) (l l' : Line) (verb : Bytes) (args : List Bytes)
    (fix : Option Fixer) (strict : Bool)
    (hind : (verb == B "require") = true → isIndirect l = isIndirect l') :
    obs (File.add st b l verb args fix strict) = obs (File.add st b' l' verb args fix strict) :=
  add_obs st b b' l l' verb args fix strict hind

open Proofs.ModfileEol Proofs.ModfileFmtLex in
/-- the `// indirect` marker survives formatting: `isIndirect` sees only the first end-of-line comment, and only
    modulo `TrimSpace` of its text (`strings.Fields` ignores the trailing white space `TrimSpace` removes) -/
theorem isIndirect_trimmed (l l' : Line) (c : Comment) (r r' : List Comment) (hc : CommentOK c.token)
    (h : l.comments.suffix = c :: r) (h' : l'.comments.suffix = { c with token := GoStrings.trimSpace c.token } :: r') :
    isIndirect l' = isIndirect l :=
  isIndirect_trim l l' c r r' hc h h'

open Proofs.ModfileFmtDir Proofs.ModfileEol in
/-- ★ `format_preserves_directives_partial2` (strict go.mod) — clause 3 for inputs WITH end-of-line comments, in
    particular `// indirect`: if the strict parser accepts `x` as a well-formed file `f` whose syntax tree
    satisfies the counting condition `EolCount` (no line, `(` or `)` with more than one end-of-line comment, none
    on a comment block, none left over for the header), then it accepts `Format(f.Syntax)`, and the directive
    values — module path, go, toolchain, godebug, require WITH THE INDIRECT FLAG, exclude, replace, retract
    intervals, tool — are identical; without a version fixer, or with a fixer that is idempotent on its image
    and never returns the empty string, provided the file has no `retract` directive in that case.  Still
    missing for the full statement: `fixRetract` with a fixer and fixers that return the empty string (see
    lean/PENDING.md); `Module.Deprecated` / `Retract.Rationale` are added by `format_preserves_directives_partial3`
    below. -/
theorem format_preserves_directives_partial2 (name x : Bytes) (fix : Option Fixer) (f : Modfile.File)
    (h : parseToFile name x fix true = .ok f) (hc : EolCount f.syn) (hwf : WellFormed f)
    (hfix : FixOK fix) (hne : FixNE fix) (hret : fix ≠ none → f.retract = []) :
    ∃ f', parseToFile name (format f.syn) fix true = .ok f' ∧ values f' = values f :=
  format_preserves_directives_eol name x fix f h hc hwf hfix hne hret

open Proofs.ModfileFmtDir Proofs.ModfileFmtWork Proofs.ModfileEol in
/-- ★ `format_preserves_directives_work_partial2` (go.work) — the same for `ParseWork`: inputs with end-of-line
    comments whose syntax tree satisfies `EolCount`. -/
theorem format_preserves_directives_work_partial2 (name x : Bytes) (fix : Option Fixer) (f : WorkFile)
    (h : parseWork name x fix = .ok f) (hc : EolCount f.syn) (hwf : WorkWellFormed f)
    (hfix : FixOK fix) (hne : FixNE fix) :
    ∃ f', parseWork name (format f.syn) fix = .ok f' ∧ workValues f' = workValues f :=
  format_preserves_directives_work_eol name x fix f h hc hwf hfix hne

/-- non-vacuity (go.mod, no fixer): a file with `// indirect` markers inside a block and on a top-level line, and
    other end-of-line comments, is accepted as a well-formed file whose syntax tree satisfies `EolCount`; the
    indirect flags are `[true, false, true]` -/
example :
    let x := B "module \"example.com/m\" // mod\ngo 1.21\nrequire (\n\t\"a.b/c\" v1 // indirect\n\td.e/f v1.2.3\n)\nrequire g.h/i v2.0.0+incompatible // indirect; why\nreplace a.b/c => \"./x y\" // r\n"
    (match parseToFile (B "go.mod") x none true with
     | .ok f => Proofs.ModfileFmtDir.wellFormedB f && Proofs.ModfileEol.eolCountB f.syn &&
         decide (f.require.map (·.indirect) = [true, false, true])
     | .error _ => false) = true := by decide +kernel

/-- non-vacuity (go.work) -/
example :
    let x := B "go 1.21 // g\nuse (\n\t\"./x y\" // first\n\t./z\n) // done\nreplace a.b/c v1.2 => \"../c\" // r\n"
    (match parseWork (B "go.work") x none with
     | .ok f => Proofs.ModfileFmtWork.workWellFormedB f && Proofs.ModfileEol.eolCountB f.syn
     | .error _ => false) = true := by decide +kernel

/-! ### The three clauses under a condition on the SOURCE text: no token spans two source lines

  Helper files `Proofs/ModfileSrc*.lean`.  `NoMultiLineToken x`: every token the lexer of read.go delivers on
  `x`, other than the newline token itself, has no newline byte in its text (`tokensOf x` is the token stream:
  `readToken` iterated from `newInput x` up to the end-of-input token or the first lexical error).  Only a
  double-quoted string with a backslash-newline inside can violate it — the input shape of the known finding
  `C02_violated_format_not_idempotent`.  The condition is decidable, and implied by the byte-level condition
  `NoBackslashNewline x` (`x` does not contain the two bytes `\` `⏎` in sequence).

  `eolCount_of_single_line_tokens`: under it the tree condition `EolCount` of the `_partial2` theorems holds for
  every accepted input.  Proof: two passes over the five parser loops for the lexer states the parser reaches
  (`Reach`).  (1) `Proofs.ModfileSrc.parseFile_oneLine`: every line starts and ends on the same source line (a
  line token without newline ends on the line on which it starts, and only blanks separate it from the next
  token).  (2) `Proofs.ModfileSrc.parseFile_own`: the pass tracks `commentsRev` (it grows by the record of the
  pending token iff that token is an end-of-line comment token) and byte bounds; an end-of-line comment token is
  never the first token of a source line, so it directly follows the last token of exactly one line / `(` / `)`,
  whose end is the largest node end ≤ the comment's start and which is a one-line node by (1); the backwards
  post-order walk of `assignComments` therefore gives it to that node and to no other
  (`Proofs.ModfileEol.assignSuffix_take` / `assignSuffix_none` through `Slot` / `StmtOwn`). -/

open Proofs.ModfileSrc Proofs.ModfileEol in
/-- ★ `eolCount_of_single_line_tokens`: for every accepted input in which no token spans two source lines, the
    parsed tree satisfies the counting condition `EolCount` — no line, `(` or `)` carries more than one
    end-of-line comment (a block and its `)` share one slot), a comment block carries none, none is left over
    for the file header. -/
theorem eolCount_of_single_line_tokens {name x : Bytes} {t : FileSyntax} (h : parse name x = .ok t)
    (hN : NoMultiLineToken x) : EolCount t :=
  Proofs.ModfileSrc.eolCount_of_single_line_tokens h hN

open Proofs.ModfileSrc in
/-- a byte-level sufficient condition: an input that nowhere contains a backslash immediately followed by a
    newline has no token that spans two source lines (a newline byte inside a token other than the newline
    token can only be the escaped rune after a backslash in a double-quoted string) -/
theorem noMultiLineToken_of_noBackslashNewline {x : Bytes} (h : NoBackslashNewline x) : NoMultiLineToken x :=
  Proofs.ModfileSrc.noMultiLineToken_of_noBackslashNewline h

open Proofs.ModfileSrc Proofs.ModfileEol Proofs.ModfileFmtTree in
/-- ★ `format_parse_syntax_src` — `format_parse_syntax` for EVERY accepted input in which no token spans two
    source lines (`NoMultiLineToken x`, a decidable condition on the input bytes; end-of-line comments, `// indirect`
    markers, comment blocks, blank lines, blocks, CRLF all allowed): the formatted output parses again, and the
    new tree is the old one in normal form — positions and line identities erased, every comment text replaced
    by its `TrimSpace`, the comment of a one-line block `x ( ) // c` moved from the block to its `)` — i.e. same
    statements, same tokens, same comment texts in the same order (`format_parse_syntax_reading`).  Without the
    hypothesis the statement is false (`C02_violated_format_not_idempotent`). -/
theorem format_parse_syntax_src (name x : Bytes) (t : FileSyntax) (h : parse name x = .ok t)
    (hN : NoMultiLineToken x) :
    ∃ t', parse name (format t) = .ok t' ∧ eraseFile t' = normFileE t ∧ EolCount t' :=
  Proofs.ModfileSrc.format_parse_syntax_src name x t h hN

open Proofs.ModfileSrc in
/-- ★ `format_idempotent_src` — `format_idempotent` for EVERY accepted input in which no token spans two source
    lines: formatting the re-parsed formatted output gives the same bytes.  The two inputs on which the clause
    fails (`C02_violated_format_not_idempotent`, `eol_single_comment_not_sufficient`) both contain a quoted
    string with a backslash-newline, see the examples below. -/
theorem format_idempotent_src (name x : Bytes) (t t' : FileSyntax) (h : parse name x = .ok t)
    (hN : NoMultiLineToken x) (h' : parse name (format t) = .ok t') : format t' = format t :=
  Proofs.ModfileSrc.format_idempotent_src name x t t' h hN h'

open Proofs.ModfileFmtDir Proofs.ModfileSrc in
/-- ★ `format_preserves_directives_src` (strict go.mod) — clause 3 for every input in which no token spans two
    source lines: if the strict parser accepts `x` as a well-formed file `f`, it accepts `Format(f.Syntax)`, and
    the directive values — module path, go, toolchain, godebug, require WITH THE INDIRECT FLAG, exclude, replace,
    retract intervals, tool — are identical; fixer restrictions as in `format_preserves_directives_partial2`. -/
theorem format_preserves_directives_src (name x : Bytes) (fix : Option Fixer) (f : Modfile.File)
    (h : parseToFile name x fix true = .ok f) (hN : NoMultiLineToken x) (hwf : WellFormed f)
    (hfix : FixOK fix) (hne : FixNE fix) (hret : fix ≠ none → f.retract = []) :
    ∃ f', parseToFile name (format f.syn) fix true = .ok f' ∧ values f' = values f :=
  Proofs.ModfileSrc.format_preserves_directives_src name x fix f h hN hwf hfix hne hret

open Proofs.ModfileFmtDir Proofs.ModfileFmtWork Proofs.ModfileSrc in
/-- ★ `format_preserves_directives_work_src` (go.work) — the same for `ParseWork`. -/
theorem format_preserves_directives_work_src (name x : Bytes) (fix : Option Fixer) (f : WorkFile)
    (h : parseWork name x fix = .ok f) (hN : NoMultiLineToken x) (hwf : WorkWellFormed f)
    (hfix : FixOK fix) (hne : FixNE fix) :
    ∃ f', parseWork name (format f.syn) fix = .ok f' ∧ workValues f' = workValues f :=
  Proofs.ModfileSrc.format_preserves_directives_work_src name x fix f h hN hwf hfix hne

/-- non-vacuity of `eolCount_of_single_line_tokens`, `format_parse_syntax_src`, `format_idempotent_src`: a file with
    end-of-line comments on a top-level line, on block lines (`// indirect`), after `verb (`, after `)` and after a
    one-line block, whole-line comments, a blank line in a block, quoted strings (with an escape, but no escaped
    newline) and CRLF is accepted and satisfies `NoMultiLineToken` — and even the byte-level condition -/
example :
    let x := B "// doc\r\nmodule  \"example.com/m\" // c\n\nrequire ( // lp\n\ta.b/c v1.0.0 // indirect\n\n\t// why\n\t\"d.e/f\\x41\"   v1.2.3 // indirect\n\t// tail\n) // end\nx ( ) // e\n"
    (∃ t, parse (B "go.mod") x = .ok t) ∧ Proofs.ModfileSrc.NoMultiLineToken x ∧
      Proofs.ModfileSrc.NoBackslashNewline x := by
  refine ⟨?_, by decide +kernel, by decide +kernel⟩
  have h : (match parse (B "go.mod") (B "// doc\r\nmodule  \"example.com/m\" // c\n\nrequire ( // lp\n\ta.b/c v1.0.0 // indirect\n\n\t// why\n\t\"d.e/f\\x41\"   v1.2.3 // indirect\n\t// tail\n) // end\nx ( ) // e\n") with
      | .ok _ => true
      | .error _ => false) = true := by decide +kernel
  cases hp : parse (B "go.mod") (B "// doc\r\nmodule  \"example.com/m\" // c\n\nrequire ( // lp\n\ta.b/c v1.0.0 // indirect\n\n\t// why\n\t\"d.e/f\\x41\"   v1.2.3 // indirect\n\t// tail\n) // end\nx ( ) // e\n") with
  | ok t => exact ⟨t, rfl⟩
  | error e => rw [hp] at h; cases h

/-- the hypothesis is not vacuous in the other direction either: the two inputs on which `Format` is not
    idempotent violate `NoMultiLineToken` (their quoted string `"p\⏎q"` spans two source lines) -/
example :
    ¬ Proofs.ModfileSrc.NoMultiLineToken (B "a b // c1\nx \"p\\\nq\" // c2\n") ∧
    ¬ Proofs.ModfileSrc.NoMultiLineToken (B "// hello\n\nx \"a\\\nb\" // c1\n") := by
  exact ⟨by decide +kernel, by decide +kernel⟩

/-- `NoMultiLineToken` is weaker than the byte-level condition: a backslash at the end of a `//` comment is
    harmless -/
example :
    let x := B "a b // c1 \\\nx y // c2\n"
    Proofs.ModfileSrc.NoMultiLineToken x ∧ ¬ Proofs.ModfileSrc.NoBackslashNewline x := by
  exact ⟨by decide +kernel, by decide +kernel⟩

/-- non-vacuity of `format_preserves_directives_src` (go.mod, no fixer): a file with `// indirect` markers inside
    a block and on a top-level line and other end-of-line comments is accepted as a well-formed file (indirect
    flags `[true, false, true]`) and satisfies `NoMultiLineToken` -/
example :
    let x := B "module \"example.com/m\" // mod\ngo 1.21\nrequire (\n\t\"a.b/c\" v1 // indirect\n\td.e/f v1.2.3\n)\nrequire g.h/i v2.0.0+incompatible // indirect; why\nreplace a.b/c => \"./x y\" // r\n"
    (match parseToFile (B "go.mod") x none true with
     | .ok f => Proofs.ModfileFmtDir.wellFormedB f && decide (f.require.map (·.indirect) = [true, false, true])
     | .error _ => false) = true ∧ Proofs.ModfileSrc.NoMultiLineToken x := by
  exact ⟨by decide +kernel, by decide +kernel⟩

/-- non-vacuity of `format_preserves_directives_work_src` (go.work) -/
example :
    let x := B "go 1.21 // g\nuse (\n\t\"./x y\" // first\n\t./z\n) // done\nreplace a.b/c v1.2 => \"../c\" // r\n"
    (match parseWork (B "go.work") x none with
     | .ok f => Proofs.ModfileFmtWork.workWellFormedB f
     | .error _ => false) = true ∧ Proofs.ModfileSrc.NoMultiLineToken x := by
  exact ⟨by decide +kernel, by decide +kernel⟩

/-! ### Clause 3 with the comment-derived values `Module.Deprecated` and `Retract.Rationale`

  Helper files `Proofs/ModfileFmtCom{Trim,Block,}.lean`.  `File.add` reads the two values from the comments of the
  directive's line — or, for a block line without comments of its own, of the enclosing block
  (`parseDirectiveComment`: `len(comments.Before) == 0 && len(comments.Suffix) == 0`) — as
  `TrimSpace(TrimPrefix(c, "//"))` of every `Before` / `Suffix` comment that starts with `//` (blank-line
  placeholders are skipped), joined by newlines; `parseDeprecation` applies `deprecatedRE` to that text.
  The re-parse of the formatted text is the original tree up to positions with every comment text trimmed and the
  end-of-line comment of a block NODE moved to its `)` (`format_parse_syntax_partial2`).  Hence: the texts agree
  (`directive_comment_text_trimmed`), placeholders stay placeholders and list lengths are kept, so the line-vs-block
  choice is the same, and the moved comment belongs to a block without lines (`block_comment_no_lines`, a
  first-parse fact).  No counter-example exists under the hypotheses of `format_preserves_directives_partial2`: in
  particular a blank-line placeholder as the only `Before` entry of a retract line inside a commented block gives
  the empty rationale in BOTH parses, because the printer writes the blank line (example below; the real
  `modfile.Parse` / `modfile.Format` agree). -/

open Proofs.ModfileFmtLex in
/-- for a `//` comment text `c` (no newline): `TrimSpace(TrimPrefix(TrimSpace(c), "//")) = TrimSpace(TrimPrefix(c, "//"))`
    — `parseDirectiveComment` extracts the same text from the comment and from the trimmed comment the printer writes;
    for every byte string after the slashes, ill-formed UTF-8 and non-ASCII white space included -/
theorem directive_comment_text_trimmed {c : Bytes} (h : CommentOK c) :
    GoStrings.trimSpace ((GoStrings.trimSpace c).drop 2) = GoStrings.trimSpace (c.drop 2) :=
  Proofs.ModfileFmtCom.directiveText_trim h

/-- `TrimSpace (x ++ e) = TrimSpace x` when `e` is a concatenation of well-formed encodings of white-space runes —
    for every byte string `x` -/
theorem trimSpace_append_spaceSeq (x e : Bytes) (he : Proofs.ModfileFmtTrim.SpaceSeq e) :
    GoStrings.trimSpace (x ++ e) = GoStrings.trimSpace x :=
  Proofs.ModfileFmtCom.trimSpace_append_spaceSeq x e he

example : Proofs.ModfileFmtLex.CommentOK (B "//  Deprecated: x \t\r") := by
  exact ⟨by decide +kernel, by decide +kernel⟩

example : Proofs.ModfileFmtTrim.SpaceSeq [32, 0xC2, 0xA0, 0xE3, 0x80, 0x80] :=
  .cons [32] _ 32 (by decide) (by decide) (.cons [0xC2, 0xA0] _ 0xA0 (by decide) (by decide)
    (.cons [0xE3, 0x80, 0x80] [] 0x3000 (by decide) (by decide) .nil))

/-- first-parse fact: in every parsed tree a block whose NODE carries an end-of-line comment has no lines (it is the
    one-line block `x ( ) // c`; a block built by `parseLineBlock` starts on an earlier source line than its `)`, and
    `assignComments` skips nodes that span several lines) — so the comments `parseDirectiveComment` reads from the
    enclosing block of a line are all `Before` comments -/
theorem block_comment_no_lines {name x : Bytes} {t : FileSyntax} (h : parse name x = .ok t) :
    ∀ b, Expr.lineBlock b ∈ t.stmts → b.comments.suffix ≠ [] → b.lines = [] :=
  fun b hb => Proofs.ModfileFmtCom.parse_blockSuf h (Expr.lineBlock b) hb

example : (match parse (B "go.mod") (B "retract ( ) // c\n") with
    | .ok t => t.stmts.any (fun s => match s with
        | .lineBlock b => !b.comments.suffix.isEmpty && b.lines.isEmpty
        | _ => false)
    | .error _ => false) = true := by decide +kernel

open Proofs.ModfileFmtCom in
/-- one strict `File.add` step that reports no error changes the comment-derived values exactly by `comStep`:
    `module` sets the deprecation text to `parseDeprecation block line.comments`, `retract` appends
    `parseDirectiveComment block line.comments`, every other verb leaves both alone -/
theorem add_step_comments (st : AddState) (block : Option Comments) (l : Line) (verb : Bytes) (args : List Bytes)
    (fix : Option Fixer) (he : (File.add st block l verb args fix true).1.errsRev = []) :
    comVals (File.add st block l verb args fix true).1.file = comStep block l verb (comVals st.file) :=
  add_com st block l verb args fix he

example : (File.add {} none { token := [B "retract", B "v1.0.0"], comments := { suffix := [{ token := B "// why " }] } }
    (B "retract") [B "v1.0.0"] none true).1.errsRev = [] := by decide +kernel

open Proofs.ModfileFmtDir Proofs.ModfileEol in
/-- ★ `format_preserves_directives_partial3` (strict go.mod) — clause 3 INCLUDING the values derived from comments:
    if the strict parser accepts `x` as a well-formed file `f` whose syntax tree satisfies the counting condition
    `EolCount`, then it accepts `Format(f.Syntax)`, the directive values — module path, go, toolchain, godebug,
    require with the indirect flag, exclude, replace, retract intervals, tool — are identical, AND so are
    `Module.Deprecated` and the `Retract.Rationale` of every retraction (equality, no weaker relation is needed);
    hypotheses exactly those of `format_preserves_directives_partial2`.  Still missing for the full statement:
    `fixRetract` with a fixer and fixers that return the empty string (see lean/PENDING.md). -/
theorem format_preserves_directives_partial3 (name x : Bytes) (fix : Option Fixer) (f : Modfile.File)
    (h : parseToFile name x fix true = .ok f) (hc : EolCount f.syn) (hwf : WellFormed f)
    (hfix : FixOK fix) (hne : FixNE fix) (hret : fix ≠ none → f.retract = []) :
    ∃ f', parseToFile name (format f.syn) fix true = .ok f' ∧ values f' = values f ∧
      f'.module.map (·.deprecated) = f.module.map (·.deprecated) ∧
      f'.retract.map (·.rationale) = f.retract.map (·.rationale) := by
  obtain ⟨f', h1, h2, h3⟩ := Proofs.ModfileFmtCom.format_preserves_directives_com name x fix f h hc hwf hfix hne hret
  exact ⟨f', h1, h2, congrArg Proofs.ModfileFmtCom.ComVals.deprecated h3,
    congrArg Proofs.ModfileFmtCom.ComVals.rationale h3⟩

open Proofs.ModfileFmtDir Proofs.ModfileSrc in
/-- ★ `format_preserves_directives_src3` — the same under the condition on the SOURCE text (no token spans two source
    lines) instead of `EolCount` -/
theorem format_preserves_directives_src3 (name x : Bytes) (fix : Option Fixer) (f : Modfile.File)
    (h : parseToFile name x fix true = .ok f) (hN : NoMultiLineToken x) (hwf : WellFormed f)
    (hfix : FixOK fix) (hne : FixNE fix) (hret : fix ≠ none → f.retract = []) :
    ∃ f', parseToFile name (format f.syn) fix true = .ok f' ∧ values f' = values f ∧
      f'.module.map (·.deprecated) = f.module.map (·.deprecated) ∧
      f'.retract.map (·.rationale) = f.retract.map (·.rationale) :=
  format_preserves_directives_partial3 name x fix f h
    (Proofs.ModfileSrc.eolCount_syn_of_parseToFile name x fix f h hret hN) hwf hfix hne hret

/-- non-vacuity (no fixer, CRLF line ends): a go.mod with a `// Deprecated:` comment above the module directive
    (which also carries an end-of-line comment), a commented retract block with a line that has its own end-of-line
    rationale (trailing blanks), a line with a whole-line rationale, a line whose only `Before` entry is a blank-line
    PLACEHOLDER (own comment list not empty, so the block comment is NOT used: rationale empty), a line without
    comments (block rationale), and a top-level retract — is accepted as a well-formed file satisfying `EolCount`
    and `NoMultiLineToken`; the comment-derived values are as stated, and the strict parse of the formatted text
    has the same ones (the conclusion of the theorem, evaluated).  The real `modfile.Parse` gives the same values
    before and after `modfile.Format`. -/
example :
    let x := B "// Deprecated: use example.com/n instead. \r\nmodule example.com/m // mod\r\n\r\ngo 1.21\r\n\r\n// block rationale \t\r\nretract (\r\n\tv1.0.0 // line rationale\t \r\n\t// before\r\n\tv1.1.0\r\n\r\n\t[v1.2.0, v1.3.0]\r\n\tv1.4.0\r\n)\r\nretract v1.5.0 //top\r\n"
    (match parseToFile (B "go.mod") x none true with
     | .ok f => Proofs.ModfileFmtDir.wellFormedB f && Proofs.ModfileEol.eolCountB f.syn &&
         decide (f.module.map (·.deprecated) = some (B "use example.com/n instead.\nmod")) &&
         decide (f.retract.map (·.rationale) = [B "line rationale", B "before", [], B "block rationale", B "top"]) &&
         (match parseToFile (B "go.mod") (format f.syn) none true with
          | .ok f' => decide (f'.module.map (·.deprecated) = f.module.map (·.deprecated)) &&
              decide (f'.retract.map (·.rationale) = f.retract.map (·.rationale))
          | .error _ => false)
     | .error _ => false) = true ∧ Proofs.ModfileSrc.NoMultiLineToken x := by
  exact ⟨by decide +kernel, by decide +kernel⟩

/-! ### Strictly accepted inputs: the source condition is automatic

  Helper files `Proofs/ModfileStrictTok{Lex,Dir}.lean`.  The STRICT directive layer never accepts a token that spans
  two source lines: every argument position of every verb is matched against a pattern whose matches do not start
  with a double quote (`GoVersionRE`, `ToolchainRE`, the godebug key=value test, the fixed tokens `=>` `[` `,` `]`) or
  goes through `parseString` (directly or inside `parseVersion`), which hands a token starting with `"` to
  `strconv.Unquote`, and `Unquote` rejects a newline byte; left-over tokens, unknown verbs and unknown blocks are
  errors in strict mode; verbs and block headers are fixed words.  A token the lexer delivers that does not start
  with `"` cannot contain a newline (identifiers, punctuation, `//` texts and back-quoted strings never do).  A
  backward pass over the five parser loops transfers this from the tokens of the tree to every token of the source
  (`Proofs.ModfileStrictTok.parse_noMultiLineToken`).  Hence the hypothesis `NoMultiLineToken x` of the `_src`
  theorems holds for every input `Parse` / `ParseWork` accepts, and the inputs on which clause 2 fails
  (`C02_violated_format_not_idempotent`) are confined to what only the syntax layer / `ParseLax` accepts. -/

open Proofs.ModfileSrc in
/-- ★ `strict_noMultiLineToken`: an input the STRICT go.mod parser accepts — with any version fixer, the fixer only
    sees values `parseString` returned — has no token that spans two source lines. -/
theorem strict_noMultiLineToken (name x : Bytes) (fix : Option Fixer) (f : Modfile.File)
    (h : parseToFile name x fix true = .ok f) : NoMultiLineToken x :=
  Proofs.ModfileStrictTok.strict_noMultiLineToken h

open Proofs.ModfileSrc in
/-- ★ `strict_noMultiLineToken_work`: the same for `ParseWork` (always strict). -/
theorem strict_noMultiLineToken_work (name x : Bytes) (fix : Option Fixer) (f : WorkFile)
    (h : parseWork name x fix = .ok f) : NoMultiLineToken x :=
  Proofs.ModfileStrictTok.strict_noMultiLineToken_work h

open Proofs.ModfileStrictTok in
/-- one strict `File.add` step that reports no error saw only "quote-good" tokens (`DG t`: if `t` starts with a
    double quote it contains no newline byte): the verb is one of the nine fixed words and every argument position
    was validated -/
theorem add_step_tokens_validated (st : AddState) (block : Option Comments) (l : Line) (verb : Bytes)
    (args : List Bytes) (fix : Option Fixer) (h : (File.add st block l verb args fix true).1.errsRev = []) :
    DG verb ∧ ∀ t ∈ args, DG t :=
  add_dg h

example : (File.add {} none { token := [B "require", B "\"a.b/c\"", B "v1.0.0"] } (B "require")
    [B "\"a.b/c\"", B "v1.0.0"] none true).1.errsRev = [] := by decide +kernel

open Proofs.ModfileStrictTok Proofs.ModfileSrc in
/-- the tree-to-source transfer: if every token of the tree `parse` returns (line tokens, block header tokens) is
    quote-good, no token of the source spans two source lines -/
theorem noMultiLineToken_of_tree_tokens {name x : Bytes} {t : FileSyntax} (h : parse name x = .ok t)
    (hd : ∀ s ∈ t.stmts, ∀ tok ∈ allToks s, DG tok) : NoMultiLineToken x :=
  parse_noMultiLineToken h hd

open Proofs.ModfileFmtDir in
/-- ★ `format_preserves_directives_strict` (strict go.mod) — clause 3, comment-derived values included, WITHOUT a
    condition on the source text or the tree: if the strict parser accepts `x` as a well-formed file `f`, it accepts
    `Format(f.Syntax)`, and the directive values — module path, go, toolchain, godebug, require with the indirect
    flag, exclude, replace, retract intervals, tool — `Module.Deprecated` and every `Retract.Rationale` are identical;
    fixer restrictions as in `format_preserves_directives_partial2` (still missing for the full statement:
    `fixRetract` with a fixer and fixers that return the empty string, see lean/PENDING.md). -/
theorem format_preserves_directives_strict (name x : Bytes) (fix : Option Fixer) (f : Modfile.File)
    (h : parseToFile name x fix true = .ok f) (hwf : WellFormed f)
    (hfix : FixOK fix) (hne : FixNE fix) (hret : fix ≠ none → f.retract = []) :
    ∃ f', parseToFile name (format f.syn) fix true = .ok f' ∧ values f' = values f ∧
      f'.module.map (·.deprecated) = f.module.map (·.deprecated) ∧
      f'.retract.map (·.rationale) = f.retract.map (·.rationale) :=
  format_preserves_directives_src3 name x fix f h (strict_noMultiLineToken name x fix f h) hwf hfix hne hret

open Proofs.ModfileFmtDir Proofs.ModfileFmtWork in
/-- ★ `format_preserves_directives_work_strict` (go.work) — the same for `ParseWork`, without a condition on the
    source text or the tree. -/
theorem format_preserves_directives_work_strict (name x : Bytes) (fix : Option Fixer) (f : WorkFile)
    (h : parseWork name x fix = .ok f) (hwf : WorkWellFormed f) (hfix : FixOK fix) (hne : FixNE fix) :
    ∃ f', parseWork name (format f.syn) fix = .ok f' ∧ workValues f' = workValues f :=
  format_preserves_directives_work_src name x fix f h (strict_noMultiLineToken_work name x fix f h) hwf hfix hne

open Proofs.ModfileEol Proofs.ModfileFmtTree in
/-- ★ `format_parse_syntax_strict` — clause 1 for every input the STRICT go.mod parser accepts (`t` is the tree of
    the syntax layer for that input): the formatted output parses again to the same tree in normal form.  (Clause 1
    for inputs only the syntax layer accepts stays `format_parse_syntax_src`.) -/
theorem format_parse_syntax_strict (name x : Bytes) (fix : Option Fixer) (f : Modfile.File) (t : FileSyntax)
    (hs : parseToFile name x fix true = .ok f) (h : parse name x = .ok t) :
    ∃ t', parse name (format t) = .ok t' ∧ eraseFile t' = normFileE t ∧ EolCount t' :=
  format_parse_syntax_src name x t h (strict_noMultiLineToken name x fix f hs)

/-- ★ `format_idempotent_strict` — clause 2 for every input the STRICT go.mod parser accepts: formatting the re-parsed
    formatted output gives the same bytes.  The inputs on which clause 2 fails are rejected by `Parse` (example
    below). -/
theorem format_idempotent_strict (name x : Bytes) (fix : Option Fixer) (f : Modfile.File) (t t' : FileSyntax)
    (hs : parseToFile name x fix true = .ok f) (h : parse name x = .ok t) (h' : parse name (format t) = .ok t') :
    format t' = format t :=
  format_idempotent_src name x t t' h (strict_noMultiLineToken name x fix f hs) h'

open Proofs.ModfileEol Proofs.ModfileFmtTree in
/-- clause 1 for every input `ParseWork` accepts -/
theorem format_parse_syntax_work_strict (name x : Bytes) (fix : Option Fixer) (f : WorkFile) (t : FileSyntax)
    (hs : parseWork name x fix = .ok f) (h : parse name x = .ok t) :
    ∃ t', parse name (format t) = .ok t' ∧ eraseFile t' = normFileE t ∧ EolCount t' :=
  format_parse_syntax_src name x t h (strict_noMultiLineToken_work name x fix f hs)

/-- clause 2 for every input `ParseWork` accepts -/
theorem format_idempotent_work_strict (name x : Bytes) (fix : Option Fixer) (f : WorkFile) (t t' : FileSyntax)
    (hs : parseWork name x fix = .ok f) (h : parse name x = .ok t) (h' : parse name (format t) = .ok t') :
    format t' = format t :=
  format_idempotent_src name x t t' h (strict_noMultiLineToken_work name x fix f hs) h'

/-- the syntax tree exists whenever the typed parsers accept (the hypothesis `parse name x = .ok t` of the four
    theorems above only names it) -/
theorem parse_of_strict (name x : Bytes) (fix : Option Fixer) (f : Modfile.File)
    (hs : parseToFile name x fix true = .ok f) : ∃ t, parse name x = .ok t :=
  Proofs.ModfileStrictTok.parse_of_parseToFile hs

theorem parse_of_work (name x : Bytes) (fix : Option Fixer) (f : WorkFile)
    (hs : parseWork name x fix = .ok f) : ∃ t, parse name x = .ok t :=
  Proofs.ModfileStrictTok.parse_of_parseWork hs

/-- non-vacuity of the `_strict` theorems (go.mod, no fixer and with `canonFix`; go.work): files with quoted strings
    (one with an escape), end-of-line comments, `// indirect`, a block, a retraction with rationale and a deprecation
    comment are strictly accepted as well-formed files -/
example :
    (let x := B "// Deprecated: gone\nmodule \"example.com/m\" // mod\ngo 1.21\ntoolchain go1.21.0\ngodebug a=b\nrequire (\n\t\"a.b/c\\x41\" v1 // indirect\n\td.e/f v1.2.3\n)\nexclude a.b/c v1.2\nreplace a.b/c => \"./x y\" // r\nretract [v1.0.0, v1.1] // why\ntool a.b/c/cmd\n"
     (match parseToFile (B "go.mod") x none true with
      | .ok f => Proofs.ModfileFmtDir.wellFormedB f
      | .error _ => false) = true) ∧
    (let x := B "module example.com/m\nrequire \"a.b/c\" v1 // indirect\nreplace a.b/c v1 => d.e/f v2.0\n"
     (match parseToFile (B "go.mod") x (some canonFix) true with
      | .ok f => Proofs.ModfileFmtDir.wellFormedB f && f.retract.isEmpty
      | .error _ => false) = true) ∧
    (let x := B "go 1.21 // g\nuse (\n\t\"./x y\" // first\n\t./z\n) // done\nreplace a.b/c v1.2 => \"../c\" // r\n"
     (match parseWork (B "go.work") x none with
      | .ok f => Proofs.ModfileFmtWork.workWellFormedB f
      | .error _ => false) = true) := by
  exact ⟨by decide +kernel, by decide +kernel, by decide +kernel⟩

/-- "strict" cannot be weakened: a quoted string with a backslash-newline is rejected by the strict parser in every
    argument position it could take — as a `parseString` argument (`invalid quoted string`), as a surplus argument
    (usage error), in an unknown directive — and likewise by `ParseWork`; but `ParseLax` ACCEPTS the last file (it
    ignores unknown directives), whose token `"p\⏎q"` spans two source lines, and so does the syntax layer.  The real
    `modfile.Parse` / `modfile.ParseLax` behave identically (checked with the harness: `invalid-quoted-string`,
    `toolchain-args`, `unknown-directive`; `ok` for `ParseLax`). -/
example :
    (∀ x ∈ [B "module \"a.b/c\\\nd\"\n", B "module a.b/c\nrequire \"x.y/z\\\n\" v1.0.0\n",
            B "module a.b/c\ntoolchain go1.21 \"x\\\ny\"\n", B "module a.b/c\nx \"p\\\nq\" // c\n"],
      (match parseToFile (B "go.mod") x none true with
       | .ok _ => false
       | .error _ => true) = true ∧ ¬ Proofs.ModfileSrc.NoMultiLineToken x) ∧
    (match parseWork (B "go.work") (B "go 1.21\nuse \"./a\\\nb\"\n") none with
     | .ok _ => false
     | .error _ => true) = true ∧
    (let x := B "module a.b/c\nx \"p\\\nq\" // c\n"
     (match parseToFile (B "go.mod") x none false with
      | .ok _ => true
      | .error _ => false) = true ∧
     (match parse (B "go.mod") x with
      | .ok _ => true
      | .error _ => false) = true) := by
  refine ⟨by decide +kernel, by decide +kernel, by decide +kernel, by decide +kernel⟩

/-! ### A version fixer AND retract directives: the deferred `fixRetract` pass on the re-parse

  Helper files `Proofs/ModfileFmtRet{,2}.lean`. -/

open Proofs.ModfileFmtDir Proofs.ModfileEol in
/-- ★ `format_preserves_directives_fix_partial` — clause 3 WITH a version fixer and WITH `retract` directives, second
    half (the re-parse, including its deferred `fixRetract` pass).  `T` is the tree that is formatted (`f.Syntax`
    after the first parse): a tree of the shape `Format` prints faithfully on which the directive layer with the
    fixer `fx` (idempotent on its image, never the empty string) reports no error, rewrites no token and reads a
    well-formed file `st1.file`, whose retract bounds are fixpoints of `fx` at the (non-empty) module path — they
    are, because the first parse's `fixRetract` wrote the fixer's results into the tree and the fixer is idempotent
    on its image.  Then the strict parser with the same fixer accepts `Format T` and reads the same values, the
    retract intervals included: `fixRetract` finds each retract line by its identity (identities of a parsed tree
    are pairwise distinct), the fixer sees its own image (`Proofs.ModfileFmtRet.pvi_fix_of_dontFix`), `updateLine`
    writes back the tokens that are there (`fixRetractLoop_fixpoint`).
    PARTIAL: the first half — that `f.syn` of `parseToFile name x (some fx) true = .ok f` satisfies these hypotheses
    with `values st1.file = values f` — is not proved (see lean/PENDING.md); for `f.retract = []` it is
    `format_preserves_directives_strict`. -/
theorem format_preserves_directives_fix_partial (name : Bytes) (T : FileSyntax) (fx : Fixer) (st1 : AddState)
    (hfix : FixOK (some fx)) (hne : FixNE (some fx))
    (hwf : EWFStmts T.stmts) (hnl : ∀ s ∈ T.stmts, NlOK s) (hc : T.comments.before = [])
    (ha : addStmts (some fx) true { file := { syn := T } } T.stmts = (st1, T.stmts))
    (he : st1.errsRev = []) (hw : WellFormed st1.file)
    (hmod : (values st1.file).retract ≠ [] → ((values st1.file).module.getD []) ≠ [])
    (himg : ∀ vi ∈ (values st1.file).retract,
      fx ((values st1.file).module.getD []) vi.low = .ok vi.low ∧
      fx ((values st1.file).module.getD []) vi.high = .ok vi.high) :
    ∃ f', parseToFile name (format T) (some fx) true = .ok f' ∧ values f' = values st1.file :=
  Proofs.ModfileFmtRet.reparse_of_first_run_fix name T fx st1 hfix hne hwf hnl hc ha he hw hmod himg

/-- ★ the key step of the theorem above: on a tree with pairwise distinct line identities in which every retract entry
    has a line whose interval tokens the fixer leaves alone, `fixRetractLoop` changes nothing -/
theorem fixRetractLoop_fixpoint (path : Bytes) (fx : Fixer) (rs : List Retract) (fs : FileSyntax) (e : List RuleErr)
    (hn : Proofs.ModfileC20.NodupIds fs.stmts) (h : ∀ r ∈ rs, Proofs.ModfileFmtRet.RetFix path fx fs r) :
    fixRetractLoop path fx rs fs e = (rs, fs, e) :=
  Proofs.ModfileFmtRet.fixRetractLoop_fixpoint path fx rs fs e hn h

/-- the situation of the theorem, evaluated with the fixer `fixStub` (symbolic versions `latest`, `master` resolve to
    versions; its results are canonical versions, which it maps to themselves): a go.mod with a retract line, a retract
    interval and a retract block whose versions need fixing is accepted; on the tree `f.syn` the directive layer
    reports no error, rewrites nothing and reads the values of `f`; the retract bounds are fixpoints of the fixer at
    the module path; and the strict parse of the formatted text with the same fixer has the same values
    (`[v1.0.0, v1.0.0]`, `[v1.2.0, v0.0.0-2020…]`, `[v1.3.0, v1.3.0]`). -/
example :
    let x := B "module example.com/m\n\nretract latest // r1\nretract [v1.2, master]\nretract (\n\tv1.3.0+meta // r3\n)\n"
    (match parseToFile (B "go.mod") x (some fixStub) true with
     | .ok f => Proofs.ModfileFmtDir.wellFormedB f &&
         decide (f.retract.map (·.interval) = [⟨B "v1.0.0", B "v1.0.0"⟩,
           ⟨B "v1.2.0", B "v0.0.0-20200101000000-000000000000"⟩, ⟨B "v1.3.0", B "v1.3.0"⟩]) &&
         (match addStmts (some fixStub) true { file := { syn := f.syn } } f.syn.stmts with
          | (st1, ss) => decide (ss = f.syn.stmts) && st1.errsRev.isEmpty &&
              decide (st1.file.retract.map (·.interval) = f.retract.map (·.interval)) &&
              st1.file.retract.all (fun r =>
                decide (fixStub (B "example.com/m") r.interval.low = .ok r.interval.low) &&
                decide (fixStub (B "example.com/m") r.interval.high = .ok r.interval.high))) &&
         (match parseToFile (B "go.mod") (format f.syn) (some fixStub) true with
          | .ok f' => decide (f'.retract.map (·.interval) = f.retract.map (·.interval)) &&
              decide (f'.module.map (·.mod.path) = f.module.map (·.mod.path))
          | .error _ => false)
     | .error _ => false) = true := by decide +kernel

open Proofs.ModfileFmtDir in
/-- ★ `C02_fixer_empty_string` — the hypothesis "the fixer never returns the empty string" CANNOT be dropped (item (3) of
    lean/PENDING.md, settled negatively for the NEW version of a `replace`): with the fixer that maps every version to
    the empty string (idempotent on its image), the strict parser accepts `replace a => b v1.0.0` as the well-formed
    file with `Replace = [a => b ""]` and writes the empty token into the line; `Format` prints `replace a => b`,
    which the strict parser REJECTS (a replacement without version must be a directory path).  So clause 3 fails for
    this fixer: the formatted text of an accepted, well-formed file without retract directives is not accepted.
    (For the OLD version the values do agree — `replace a v => b` loses the token and re-parses with the absent
    version `""` — but a fixer returning `""` there is rejected by the path-major check unless the path has no major
    suffix, in which case `""` fails `checkPathMajor`; so the empty string only ever survives in the new position.) -/
theorem C02_fixer_empty_string : ∃ (fx : Fixer) (x : Bytes) (f : Modfile.File),
    FixOK (some fx) ∧ parseToFile (B "go.mod") x (some fx) true = .ok f ∧ WellFormed f ∧ f.retract = [] ∧
    ∀ f', parseToFile (B "go.mod") (format f.syn) (some fx) true ≠ .ok f' := by
  have key : (match parseToFile (B "go.mod") (B "module m\nreplace a => b v1.0.0\n") (some fun _ _ => .ok []) true with
     | .ok f => wellFormedB f && decide (f.retract = []) &&
        (match parseToFile (B "go.mod") (format f.syn) (some fun _ _ => .ok []) true with
         | .ok _ => false | .error _ => true)
     | .error _ => false) = true := by decide +kernel
  cases hp : parseToFile (B "go.mod") (B "module m\nreplace a => b v1.0.0\n") (some fun _ _ => .ok []) true with
  | error e => simp [hp] at key
  | ok f =>
    simp only [hp, Bool.and_eq_true, decide_eq_true_eq] at key
    obtain ⟨⟨h1, h2⟩, h3⟩ := key
    refine ⟨fun _ _ => .ok [], _, f, Or.inr ⟨_, rfl, fun p v w h => h⟩, hp, wellFormedB_sound h1, h2, ?_⟩
    intro f' hf'
    rw [hf'] at h3
    simp at h3

open Proofs.ModfileFmtRet Proofs.ModfileC20 in
/-- ★ `fixRetract_tokens` — what the deferred `fixRetract` pass of an ACCEPTED strict parse with a fixer leaves behind
    (first half of clause 3 with retract directives, step 1): line identities of `f.syn` are pairwise distinct, a file
    with retractions has a non-empty module path (`modPath f`, the path `fixRetract` hands to the fixer), and every
    typed retract entry has its line in `f.syn` (found by its identity) whose tokens are `keep ++ args'` — `keep` empty
    (line of a block) or the verb — with `args'` EXACTLY the fixed bounds of the typed interval (`[v]`, or
    `[ v , w ]`, then the untouched rest; the model writes the fixer's result itself, as `*s = t` in Go's
    `parseVersion`), both bounds being results of `fx` at the module path (`FixedArgs`).  No hypothesis on the fixer. -/
theorem fixRetract_tokens (name x : Bytes) (fx : Fixer) (f : Modfile.File)
    (h : parseToFile name x (some fx) true = .ok f) :
    NodupIds f.syn.stmts ∧ (f.retract ≠ [] → modPath f ≠ []) ∧
    ∀ r ∈ f.retract, ∃ l ∈ linesOf f.syn.stmts, l.id = r.lineId ∧ ∃ keep args' rest, l.token = keep ++ args' ∧
      (keep = [] ∨ keep = [B "retract"]) ∧ FixedArgs (modPath f) fx args' r.interval rest :=
  Proofs.ModfileFmtRet.fixRetract_tokens name x fx f h

open Proofs.ModfileFmtRet Proofs.ModfileFmtDir in
/-- ★ `retract_bounds_fixpoints` — step 2: with a fixer that is idempotent on its image, every retract bound of an
    accepted file is a fixpoint of the fixer at the module path, which is non-empty when there is a retraction (these
    are the last two hypotheses of `format_preserves_directives_fix_partial`). -/
theorem retract_bounds_fixpoints (name x : Bytes) (fx : Fixer) (f : Modfile.File)
    (h : parseToFile name x (some fx) true = .ok f) (hfix : FixOK (some fx)) :
    (f.retract ≠ [] → modPath f ≠ []) ∧
    ∀ r ∈ f.retract, fx (modPath f) r.interval.low = .ok r.interval.low ∧
      fx (modPath f) r.interval.high = .ok r.interval.high :=
  Proofs.ModfileFmtRet.retract_bounds_fixpoints name x fx f h hfix

open Proofs.ModfileFmtRet Proofs.ModfileFmtDir Proofs.ModfileC20 in
/-- step 3, retract lines only: in the tree of an accepted WELL-FORMED file every retract line is a fixpoint of the
    placeholder parse `File.add` makes (`dontFixRetract`) and reads the typed interval — the form a second run of the
    directive layer records (`Proofs.ModfileFmtRet.RetTokIn`). -/
theorem retract_lines_dontFix (name x : Bytes) (fx : Fixer) (f : Modfile.File)
    (h : parseToFile name x (some fx) true = .ok f) (hwf : WellFormed f) :
    ∀ r ∈ f.retract, ∃ l ∈ linesOf f.syn.stmts, l.id = r.lineId ∧ ∃ keep args rest, l.token = keep ++ args ∧
      (keep = [] ∨ keep = [B "retract"]) ∧
      parseVersionInterval [] args (some dontFixRetract) = (args, .ok (r.interval, rest)) :=
  Proofs.ModfileFmtRet.retract_lines_dontFix name x fx f h hwf

open Proofs.ModfileFmtDir Proofs.ModfileEol in
/-- ★ `format_preserves_directives_fix_partial2` — clause 3 WITH a version fixer and WITH `retract` directives, for the
    accepted file itself; the two fixer hypotheses of `format_preserves_directives_fix_partial` (non-empty module
    path, every retract bound a fixpoint of the fixer) are DISCHARGED (`retract_bounds_fixpoints`).  If the strict
    parser with the fixer `fx` (idempotent on its image, never the empty string) accepts `x` as the well-formed `f`,
    `f.syn` has the printable shape, and a second run of the directive layer over `f.syn` reports no error, rewrites
    no token and reads the values of `f`, then the strict parser with `fx` accepts `Format(f.syn)` with identical
    values, retract intervals included.
    PARTIAL: the three tree hypotheses (`hw`, `hnl`, `hc` — for `f.retract = []` they follow from the parse,
    `format_preserves_directives_strict`) and the second-run hypothesis (`ha`, `he`, `hv`) are not derived from the
    parse; for the retract lines the second run is settled by `retract_lines_dontFix`, what is missing is the replay
    of the non-retract lines around them (see lean/PENDING.md). -/
theorem format_preserves_directives_fix_partial2 (name x : Bytes) (fx : Fixer) (f : Modfile.File) (st1 : AddState)
    (h : parseToFile name x (some fx) true = .ok f) (hwf : WellFormed f)
    (hfix : FixOK (some fx)) (hne : FixNE (some fx))
    (hw : EWFStmts f.syn.stmts) (hnl : ∀ s ∈ f.syn.stmts, NlOK s) (hc : f.syn.comments.before = [])
    (ha : addStmts (some fx) true { file := { syn := f.syn } } f.syn.stmts = (st1, f.syn.stmts))
    (he : st1.errsRev = []) (hv : values st1.file = values f) :
    ∃ f', parseToFile name (format f.syn) (some fx) true = .ok f' ∧ values f' = values f :=
  Proofs.ModfileFmtRet.reparse_of_parse_fix name x fx f st1 h hwf hfix hne hw hnl hc ha he hv

open Proofs.ModfileFmtDir in
/-- non-vacuity of `fixRetract_tokens` / `retract_bounds_fixpoints` / `…_fix_partial2`, evaluated with `fixStub`: the
    go.mod with a retract line, an interval and a block is accepted as a well-formed file with three retractions and
    the module path `example.com/m`; the retract lines of `f.syn` carry exactly the fixed bounds; the second run over
    `f.syn` reports no error, rewrites nothing and reads the same values. -/
example :
    let x := B "module example.com/m\n\nretract latest // r1\nretract [v1.2, master]\nretract (\n\tv1.3.0+meta // r3\n)\n"
    (match parseToFile (B "go.mod") x (some fixStub) true with
     | .ok f => wellFormedB f && decide (f.retract.length = 3) &&
         decide (Proofs.ModfileFmtRet.modPath f = B "example.com/m") &&
         decide ((Proofs.ModfileC20.linesOf f.syn.stmts).map (·.token) =
           [[B "module", B "example.com/m"], [B "retract", B "v1.0.0"],
            [B "retract", B "[", B "v1.2.0", B ",", B "v0.0.0-20200101000000-000000000000", B "]"], [B "v1.3.0"]]) &&
         (match addStmts (some fixStub) true { file := { syn := f.syn } } f.syn.stmts with
          | (st1, ss) => decide (ss = f.syn.stmts) && st1.errsRev.isEmpty &&
              decide (st1.file.retract.map (·.interval) = f.retract.map (·.interval)) &&
              decide (st1.file.module.map (·.mod.path) = f.module.map (·.mod.path)))
     | .error _ => false) = true := by decide +kernel

/-! ### Clause 3 with a fixer and retract directives: the comment skeleton of the accepted tree, the frame of `File.add`

  Helper files `Proofs/ModfileFmtRet4{,b,c,d}.lean`. -/

open Proofs.ModfileEol in
/-- ★ `updateLine_preserves_shape` — `FileSyntax.updateLine` with a function that only replaces the token list of a
    line (the only way `fixRetract` changes the tree) keeps every token-erased statement — comments, parentheses, block
    headers, identities, positions, `inBlock` — and the header and name of the tree. -/
theorem updateLine_preserves_shape (fs : FileSyntax) (id : Nat) (g : Line → Line)
    (hg : ∀ l, noTokL (g l) = noTokL l) :
    (fs.updateLine id g).stmts.map noTok = fs.stmts.map noTok ∧ (fs.updateLine id g).comments = fs.comments ∧
    (fs.updateLine id g).name = fs.name :=
  Proofs.ModfileFmtRet.updateLine_noTok fs id g hg

example : ∀ l : Line, Proofs.ModfileEol.noTokL { l with token := [B "v1.0.0"] } = Proofs.ModfileEol.noTokL l :=
  fun _ => rfl

open Proofs.ModfileEol in
/-- ★ `fsyn_skeleton_fix` — the tree of an accepted parse (ANY fixer, strict or lax, with or without retract
    directives) is the tree `parse` returned up to the tokens of its lines: `addStmts` and `fixRetract` rewrite tokens
    only. -/
theorem fsyn_skeleton_fix (name x : Bytes) (fix : Option Fixer) (strict : Bool) (f : Modfile.File)
    (h : parseToFile name x fix strict = .ok f) :
    ∃ fs, parse name x = .ok fs ∧ f.syn.stmts.map noTok = fs.stmts.map noTok ∧ f.syn.comments = fs.comments ∧
      f.syn.name = fs.name :=
  Proofs.ModfileFmtRet.fsyn_skeleton name x fix strict f h

open Proofs.ModfileEol in
/-- ★ `eolCount_syn_fix` — the tree of a STRICTLY accepted go.mod satisfies the counting condition `EolCount` (in
    particular no comment is left over for the file header) for any fixer and without the side condition
    `f.retract = []` that `eolCount_syn_of_parseToFile` needed. -/
theorem eolCount_syn_fix (name x : Bytes) (fix : Option Fixer) (f : Modfile.File)
    (h : parseToFile name x fix true = .ok f) : EolCount f.syn :=
  Proofs.ModfileFmtRet.eolCount_syn_fix name x fix f h

open Proofs.ModfileEol Proofs.ModfileFmtRet in
/-- ★ `fsyn_printable_shape_fix` — for the tree of a strictly accepted go.mod (any fixer, with or without retract
    directives) the printable shape `EWFStmts` holds as soon as the TOKENS of its lines are line tokens (`TokShape`:
    non-empty, every token a `TokText`, a top-level line does not look like a block, a block line does not start with
    `)`); everything `EWFStmts` says about comments, parentheses, block headers and `inBlock`, and "no header comment",
    follow from the parse. -/
theorem fsyn_printable_shape_fix (name x : Bytes) (fix : Option Fixer) (f : Modfile.File)
    (h : parseToFile name x fix true = .ok f) (ht : ∀ s ∈ f.syn.stmts, TokShape s) :
    EWFStmts f.syn.stmts ∧ f.syn.comments.before = [] :=
  Proofs.ModfileFmtRet.fsyn_printable_shape_fix name x fix f h ht

open Proofs.ModfileFmtRet Proofs.ModfileC20 in
/-- ★ `add_retract_frame` — `File.add` never reads `file.retract`: a step on a verb other than `retract` commutes with
    replacing the list of retractions of the state (`withRet`), with the same rewritten arguments.  (The per-step
    ingredient of the two-run simulation that is still open, lean/PENDING.md.) -/
theorem add_retract_frame (R : List Retract) (st : AddState) (block : Option Comments) (l : Line) (verb : Bytes)
    (args : List Bytes) (fix : Option Fixer) (strict : Bool) (hv : (verb == B "retract") = false) :
    File.add (withRet R st) block l verb args fix strict =
      (withRet R (File.add st block l verb args fix strict).1, (File.add st block l verb args fix strict).2) :=
  add_withRet R st block l verb args fix strict hv

example : (B "require" == B "retract") = false := by decide +kernel

open Proofs.ModfileFmtDir Proofs.ModfileEol Proofs.ModfileFmtRet in
/-- ★ `format_preserves_directives_fix_partial3` — clause 3 WITH a version fixer and WITH `retract` directives for the
    accepted file itself, the comment part of the tree hypotheses of `…_fix_partial2` DISCHARGED: if the strict parser
    with the fixer `fx` (idempotent on its image, never the empty string) accepts `x` as the well-formed `f`, the
    TOKENS of the lines of `f.syn` are line tokens (`TokShape`) without a newline byte on lines that carry an
    end-of-line comment (`NlOK`), and a second run of the directive layer over `f.syn` reports no error, rewrites no
    token and reads the values of `f`, then the strict parser with `fx` accepts `Format(f.syn)` with identical
    values, retract intervals included.
    PARTIAL: `ht`, `hnl` (for the retract lines they follow from `fixRetract_tokens` + `WellFormed f`, for the other
    lines from the first run, whose rewritten arguments are line tokens) and the second-run hypotheses `ha`, `he`,
    `hv` are not derived from the parse; `Module.Deprecated` / `Retract.Rationale` are not in the conclusion
    (see lean/PENDING.md). -/
theorem format_preserves_directives_fix_partial3 (name x : Bytes) (fx : Fixer) (f : Modfile.File) (st1 : AddState)
    (h : parseToFile name x (some fx) true = .ok f) (hwf : WellFormed f)
    (hfix : FixOK (some fx)) (hne : FixNE (some fx))
    (ht : ∀ s ∈ f.syn.stmts, TokShape s) (hnl : ∀ s ∈ f.syn.stmts, NlOK s)
    (ha : addStmts (some fx) true { file := { syn := f.syn } } f.syn.stmts = (st1, f.syn.stmts))
    (he : st1.errsRev = []) (hv : values st1.file = values f) :
    ∃ f', parseToFile name (format f.syn) (some fx) true = .ok f' ∧ values f' = values f :=
  reparse_of_parse_fix3 name x fx f st1 h hwf hfix hne ht hnl ha he hv

open Proofs.ModfileFmtDir Proofs.ModfileFmtRet in
/-- non-vacuity of `fsyn_printable_shape_fix` / `…_fix_partial3`, evaluated with `fixStub` (sound checkers
    `tokShapeB_sound`, `nlOKB_sound`): the go.mod with a retract line, an interval and a retract block whose versions
    need fixing, plus a require line with an end-of-line comment, is accepted as a well-formed file; every statement
    of `f.syn` satisfies `TokShape` and `NlOK`; `EolCount f.syn` holds; the second run over `f.syn` reports no error,
    rewrites nothing and reads the same retract intervals, module path and requirements. -/
example :
    let x := B "module example.com/m\n\nrequire a.b/c latest // indirect\nretract latest // r1\nretract [v1.2, master]\nretract (\n\tv1.3.0+meta // r3\n)\n"
    (match parseToFile (B "go.mod") x (some fixStub) true with
     | .ok f => wellFormedB f && decide (f.retract.length = 3) &&
         f.syn.stmts.all tokShapeB && f.syn.stmts.all nlOKB && Proofs.ModfileEol.eolCountB f.syn &&
         (match addStmts (some fixStub) true { file := { syn := f.syn } } f.syn.stmts with
          | (st1, ss) => decide (ss = f.syn.stmts) && st1.errsRev.isEmpty &&
              decide (st1.file.retract.map (·.interval) = f.retract.map (·.interval)) &&
              decide (st1.file.require.map (fun r => (r.mod, r.indirect)) = f.require.map (fun r => (r.mod, r.indirect))) &&
              decide (st1.file.module.map (·.mod.path) = f.module.map (·.mod.path)))
     | .error _ => false) = true := by decide +kernel

open Proofs.ModfileFmtRet Proofs.ModfileC20 in
/-- ★ `addStmts_retract_frame` — the frame lifted to the statement loop: over statements none of which is a `retract`
    line or block (`isRetStmt`) the directive layer does not read `file.retract` — same rewritten statements, same final
    state up to that list. -/
theorem addStmts_retract_frame (R : List Retract) (fix : Option Fixer) (strict : Bool) (xs : List Expr) (st : AddState)
    (h : ∀ x ∈ xs, isRetStmt x = false) :
    addStmts fix strict (withRet R st) xs =
      (withRet R (addStmts fix strict st xs).1, (addStmts fix strict st xs).2) :=
  addStmts_withRet R fix strict xs st h

example : ∀ x ∈ [Expr.line { token := [B "require", B "a.b/c", B "v1.0.0"] }, Expr.line { token := [B "go", B "1.21"] }],
    Proofs.ModfileFmtRet.isRetStmt x = false := by decide +kernel

open Proofs.ModfileFmtDir Proofs.ModfileEol Proofs.ModfileFmtTree Proofs.ModfileFmtRet in
/-- ★ `second_run_nonretract_fixpoint` — the NON-retract half of the second run, one statement at a time and from ANY
    state (its retractions may be the unfixed ones `File.add` records before `fixRetract`; `stepStmt` is one iteration
    of `addStmts`, `Proofs.ModfileFmtRet.addStmts_cons`): if the strict step on a statement that is not a `retract`
    line / block reports no error and the state after it is well-formed apart from its retractions, then the rewritten
    statement has the printable shape (`EWFStmt`, `NlOK`), and every statement equal to it up to positions / trimmed
    comments is a FIXPOINT of the directive layer (no error, no rewritten token) from every state that simulates the
    state before the step with its retractions removed, ending in a state that simulates the state after the step with
    its retractions removed.  Fixer: none, or idempotent on its image and never the empty string. -/
theorem second_run_nonretract_fixpoint (fix : Option Fixer) (hfix : FixOK fix) (hne : FixNE fix)
    (st : AddState) (x : Expr) (hx : isRetStmt x = false)
    (he : (stepStmt fix true st x).1.errsRev = [])
    (hwf : WellFormed (withRet [] (stepStmt fix true st x).1).file) (hw : EWFStmt x) (hnl : NlOK x) :
    EWFStmt (stepStmt fix true st x).2 ∧ NlOK (stepStmt fix true st x).2 ∧
    WellFormed (withRet [] st).file ∧ st.errsRev = [] ∧
    ∀ (st' : AddState) (x' : Expr), Sim (withRet [] st) st' →
      eraseExpr x' = normExprE (stepStmt fix true st x).2 →
      ∃ st1', addStmts fix true st' [x'] = (st1', [x']) ∧ Sim (withRet [] (stepStmt fix true st x).1) st1' :=
  Proofs.ModfileFmtRet.second_run_nonretract_fixpoint fix hfix hne st x hx he hwf hw hnl

open Proofs.ModfileFmtDir Proofs.ModfileEol Proofs.ModfileFmtTree Proofs.ModfileFmtRet in
/-- non-vacuity of `second_run_nonretract_fixpoint`: a `require` line, from a state that holds an UNFIXED retraction
    (`latest`, not a valid version) -/
example :
    let x : Expr := .line { token := [B "require", B "a.b/c", B "v1.0.0"] }
    let st : AddState := { file := { retract := [{ interval := ⟨B "latest", B "latest"⟩, rationale := [], lineId := 7 }] } }
    isRetStmt x = false ∧ (stepStmt none true st x).1.errsRev = [] ∧
    WellFormed (withRet [] (stepStmt none true st x).1).file ∧ EWFStmt x ∧ NlOK x := by
  refine ⟨by decide +kernel, by decide +kernel, wellFormedB_sound (by decide +kernel), ?_, ?_⟩
  · refine ⟨by decide, fun t ht => tokTextB_sound ?_, by decide +kernel, ?_, sufOK_nil, rfl, rfl⟩
    · revert t; decide +kernel
    · intro c hc; cases hc
  · intro h; exact absurd rfl h

open Proofs.ModfileEol Proofs.ModfileFmtRet Proofs.ModfileC20 in
/-- ★ `fsyn_lines_map` — the tree effect of the deferred `fixRetract` pass, statement by statement: for a strictly
    accepted go.mod with a fixer, `f.syn.stmts = mapLines F stmts`, where `stmts` are the statements the (error-free)
    first run of the directive layer over the parsed tree rewrote (pairwise distinct line identities), `F` replaces
    tokens only and leaves every line alone whose identity no retract entry of `f` carries; `f` is the state of that
    run except for `syn` and the INTERVALS of its retract entries (same identities and rationales in the same order). -/
theorem fsyn_lines_map (name x : Bytes) (fx : Fixer) (f : Modfile.File)
    (h : parseToFile name x (some fx) true = .ok f) :
    ∃ (fs : FileSyntax) (st : AddState) (stmts : List Expr) (F : Line → Line),
      parse name x = .ok fs ∧ addStmts (some fx) true { file := { syn := fs } } fs.stmts = (st, stmts) ∧
      st.errsRev = [] ∧ NodupIds stmts ∧ (∀ l, noTokL (F l) = noTokL l) ∧
      (∀ l, l.id ∉ f.retract.map (·.lineId) → F l = l) ∧ f.syn.stmts = mapLines F stmts ∧
      f.retract.map (·.lineId) = st.file.retract.map (·.lineId) ∧
      f.retract.map (·.rationale) = st.file.retract.map (·.rationale) ∧
      withRet [] ⟨{ f with syn := {} }, []⟩ = withRet [] ⟨{ st.file with syn := {} }, []⟩ :=
  Proofs.ModfileFmtRet.fsyn_lines_map name x fx f h

example : (match parseToFile (B "go.mod") (B "module example.com/m\n\nretract latest // r1\n") (some fixStub) true with
    | .ok f => decide (f.retract.length = 1) | .error _ => false) = true := by decide +kernel

end ModVerif.Props.C02
