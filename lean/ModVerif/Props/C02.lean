/-
  C02 — Formatting a go.mod/go.work file preserves its meaning and is idempotent.
  Property theorems only; helper lemmas live in ModVerif/Proofs/Modfile*.lean.
  Statements not yet proved are in lean/PENDING.md.
-/
import ModVerif.Model.Modfile.Work
namespace ModVerif.Props.C02
open ModVerif ModVerif.Modfile

/-- Non-vacuity: a file with every layout feature (comments before / suffix / inside a block / before
    `)`, a blank line, quoting) is accepted, and formatting its tree, parsing the result and formatting
    again gives the same bytes. -/
example :
    let x := B "// doc\nmodule  \"example.com/m\" // c\n\nrequire (\n\ta.b/c v1.0.0 // indirect\n\n\t// why\n\td.e/f   v1.2.3\n\t// tail\n)\n"
    (match parse (B "go.mod") x with
     | .ok t => (match parse (B "go.mod") (format t) with
                 | .ok t' => decide (format t' = format t)
                 | .error _ => false)
     | .error _ => false) = true := by decide +kernel

end ModVerif.Props.C02
