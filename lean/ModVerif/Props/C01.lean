/-
  C01 — the checksum-database client never returns or caches unauthenticated data.

  Part 1 (interleaved latest-head machine, Model/ClientLatest.lean): every value ever written to the stored head is a
  parseable (validly signed) message that `checkTrees` related to the value it replaces.
  Part 2 (sequential client, Model/Client.lean, against an ARBITRARY environment): `lookup_authentic` — composition of
  C07 `open_sound`, C09 `store_get` / `treeHash_eq_mth` and C10 `readHashes_authenticated`; helpers in
  Proofs/ClientAuth.lean.  `honest_never_fails`: Proofs/ClientHonest.lean.
-/
import ModVerif.Proofs.ClientLatestInv
import ModVerif.Proofs.ClientAuth
import ModVerif.Proofs.ClientHonest
namespace ModVerif.Props.C01
open ModVerif ModVerif.ClientLatest

variable {M T : Type} [DecidableEq M] [DecidableEq T]

/-- message `om` opens under the configured key and parses as a tree (the empty message is the empty tree) -/
def Verified (P : Params M T) : Option M → Prop
  | none => True
  | some m => (P.parse m).isSome = true

/-- **(partial) Only verified tree heads reach the stored latest tree head.**  In every reachable state of the
latest-head machine (any clients, goroutines, interleaving, server) each value ever installed in memory and each value
ever written to the configuration is a message that opened under the configured key (`parse` succeeded), and each
configuration write replaced a value whose tree is a prefix of the new one.
Partial with respect to C01: this is the clause "nothing that has not been authenticated is written to the stored latest
tree head"; the clauses about returned lines and about cache writes (records, tiles) need the sequential client model
(see lean/PENDING.md, `lookup_authentic`). -/
theorem stored_head_verified_partial (P : Params M T) (le : T → T → Prop) (hS : Sound P le) (cl : Nat → Nat)
    (presented : Nat → Option M) (priv : Nat → Bool) (c0 : Option M) (s : St M T)
    (h : Reachable P cl presented priv c0 s) :
    (∀ c, Verified P (s.latestMsg c) ∧ cfgTree P (s.latestMsg c) = s.latest c) ∧
    (∀ w ∈ s.writes, le (cfgTree P w.1) (cfgTree P w.2)) := by
  have hI := inv_reachable P le hS cl presented priv c0 s h
  refine ⟨fun c => ?_, hI.writes_up⟩
  have hm := hI.mem_msg c
  refine ⟨?_, cfgTree_of_MsgOf P _ _ hm⟩
  cases hl : s.latestMsg c with
  | none => simp [Verified]
  | some m => rw [hl] at hm; simp [MsgOf] at hm; simp [Verified, hm]


/-! ## The sequential client against an arbitrary environment -/

section sequential
open ModVerif.Client ModVerif.Tile
variable {σ H : Type} [DecidableEq H]

/-- ★ **lookup_authentic.**  For EVERY environment `E` (state type, `ReadRemote`, `ReadCache`, `ReadConfig`, the results
of `WriteConfig`: arbitrary functions of the whole history) and every log `D` of fewer than `2^62` records, under
  (i)  signature soundness of the configured key (`KeySound`: whatever text a key handed out by the configuration verifies
       and `ParseTree` reads as a tree head is a head `(n, MTH(D[0:n]))`, `n ≤ |D|`, of the one log `D`; see
       `keySound_of_formatTree` for the `FormatTree` wording), and
  (ii) injectivity of `NodeHash` and `RecordHash`:
after any sequence of earlier lookups on the same client,
  (1) if `Lookup(path, vers)` returns lines, they are exactly the lines with the prefix `path vers ` of a response
      `id ‖ text ‖ rest` whose record text IS record `recIndex id` of `D` (the id in the response; a negative id is read as 0,
      O5) and whose remainder is empty or a tree note accepted under the configured key, itself a head of `D`
      (O3: the prefix filter runs over the whole response);
  (2) every `WriteCache` ever performed carries such a response, or — under the tile's cache key — the bytes of the true
      tile of a prefix of `D`;
  (3) every `WriteConfig` ever attempted carries as its new value a message accepted under the configured key whose tree
      is a head of `D`, replacing the empty value or an accepted head of strictly smaller size. -/
theorem lookup_authentic (P : Params H) (D : List Bytes) (hD : D.length < 2 ^ 62)
    (hnode : ∀ a b c d : H, P.node a b = P.node c d → a = c ∧ b = d)
    (hleaf : ∀ x y : Bytes, P.leaf x = P.leaf y → x = y)
    (E : Env σ) (hkey : KeySound P D E) (s0 : σ) (earlier : List (Bytes × Bytes)) (path vers : Bytes) :
    let w := runLookups P E ⟨s0, newClient P, []⟩ earlier
    let r := lookup P E w path vers
    (∀ lines, r.1 = .ok lines → ∃ data id text rest,
        TlogNote.parseRecord data = some (id, text, rest) ∧ D[recIndex id]? = some text ∧
        (rest = [] ∨ ∃ hd, openTree P r.2.c.verifiers rest = .ok hd ∧ IsHead P D hd) ∧
        lines = filterLines (path ++ [32] ++ vers ++ [32]) data) ∧
    (∀ f d, Effect.writeCache f d ∈ r.2.tr →
        (∃ id text rest, TlogNote.parseRecord d = some (id, text, rest) ∧ D[recIndex id]? = some text) ∨
        (∃ t, f = tileCacheKey r.2.c.name t ∧ AuthTile P D t d)) ∧
    (∀ f old new res, Effect.writeConfig f old new res ∈ r.2.tr →
        ∃ hd, openTree P r.2.c.verifiers new = .ok hd ∧ IsHead P D hd ∧
          (old = [] ∨ ∃ ho, openTree P r.2.c.verifiers old = .ok ho ∧ IsHead P D ho ∧ ho.n < hd.n)) := by
  intro w r
  have hw : Inv P D w := inv_runLookups P D hD hnode E hkey earlier _ (inv_newClient P D s0)
  obtain ⟨hinv, hlines⟩ := lookup_spec P D hD hnode E hkey w hw path vers
  have hauth : ∀ d, AuthResponse P D r.2.c.verifiers d → ∃ id text rest,
      TlogNote.parseRecord d = some (id, text, rest) ∧ D[recIndex id]? = some text ∧
      (rest = [] ∨ ∃ hd, openTree P r.2.c.verifiers rest = .ok hd ∧ IsHead P D hd) := by
    intro d ⟨id, text, rest, hp, ⟨rec, hr1, hr2⟩, hrest⟩
    refine ⟨id, text, rest, hp, by rw [hr1, hleaf text rec hr2], ?_⟩
    rcases hrest with h | ⟨hd, h⟩
    · exact Or.inl h
    · exact Or.inr ⟨hd, h, hinv.core.sig rest hd h⟩
  refine ⟨?_, ?_, ?_⟩
  · intro lines hl
    obtain ⟨data, ha, hfl⟩ := hlines lines hl
    obtain ⟨id, text, rest, h1, h2, h3⟩ := hauth data ha
    exact ⟨data, id, text, rest, h1, h2, h3, hfl⟩
  · intro f d hmem
    rcases hinv.core.trace _ hmem with ha | ht
    · obtain ⟨id, text, rest, h1, h2, _⟩ := hauth d ha
      exact Or.inl ⟨id, text, rest, h1, h2⟩
    · exact Or.inr ht
  · intro f old new res hmem
    obtain ⟨hd, h1, h2, h3⟩ := hinv.core.trace _ hmem
    refine ⟨hd, h1, h2, ?_⟩
    rcases h3 with h | ⟨ho, h4, h5⟩
    · exact Or.inl h
    · exact Or.inr ⟨ho, h4, hinv.core.sig old ho h4, h5⟩

/-- hypothesis (i) in the wording "every message the verifier accepts has text `formatTree ⟨n, mth (D.take n)⟩` for some
`n ≤ |D|`" implies `KeySound` (hashes surviving their 32-byte encoding) -/
theorem keySound_of_formatTree (P : Params H) (D : List Bytes) (E : Env σ)
    (hD : (D.length : Int) ≤ Decimal.int64Max)
    (henc : ∀ h, (P.enc h).length = 32) (hdec : ∀ h, P.dec (P.enc h) = h)
    (hv : ∀ s k v, (E.readConfig s (B "key")).1 = some k →
      Note.NewVerifier P.sha P.edVerify (GoStrings.trimSpace k) = .ok v → ∀ text sig, v.verify text sig = true →
      ∃ n, n ≤ D.length ∧ text = TlogNote.formatTree ⟨(n : Int), P.enc (rootAt P D n)⟩) :
    KeySound P D E :=
  fun s k v h1 h2 => verifierSound_of_formatTree P D v hD henc hdec (hv s k v h1 h2)

/-- ★ the same for `checkTrees` alone — the hook `ClientLatest.Sound.chk_ok`: against any environment, in any state
satisfying the invariant, `checkTrees(older, newer)` with `newer` a head of `D` at least as large as `older` answers `nil`
only if `older` is a head of `D` too; whatever it answers, every cache write it causes is a true tile. -/
theorem checkTrees_sound (P : Params H) (D : List Bytes) (hD : D.length < 2 ^ 62)
    (hnode : ∀ a b c d : H, P.node a b = P.node c d → a = c ∧ b = d)
    (E : Env σ) (w : World σ H) (older newer : Head H) (olderNote newerNote : Bytes)
    (hnewer : IsHead P D newer) (hle : older.n ≤ newer.n)
    (hok : (checkTrees P E w older olderNote newer newerNote).1 = .ok ()) : IsHead P D older :=
  (checkTrees_spec P D hD hnode E w older olderNote newer newerNote hnewer hle).2 hok

/-! ### non-vacuity: term-algebra hashes (collision free by construction), a key that verifies exactly one genuine head -/

def exCode : Bytes := List.replicate 32 7
def exD : List Bytes := [B "example.com/m v1.0.0 h1:abc=\n"]
def exHeadText : Bytes := TlogNote.formatTree ⟨1, exCode⟩

def exParams : Params Tlog.TH :=
  { leaf := Tlog.TH.leaf, node := Tlog.TH.node, empty := Tlog.TH.empty, hashSize := 32,
    dec := fun b => if b = exCode then Tlog.TH.leaf (B "example.com/m v1.0.0 h1:abc=\n") else Tlog.TH.junk 0,
    enc := fun _ => exCode, height := 2, nosumdb := [], isLetter := fun _ => false, glob := fun _ _ => false,
    sha := fun _ => [0, 0, 0, 0], edVerify := fun _ text _ => text == exHeadText, retries := 3 }

/-- an environment that answers every read with the same bytes -/
def exEnv (answer : Bytes) : Env Unit :=
  { readRemote := fun s _ => (some answer, s), readCache := fun s _ => (none, s), readConfig := fun s _ => (some answer, s),
    writeCache := fun s _ _ => s, writeConfig := fun s _ _ _ => (.ok, s), securityError := fun s _ => s }

/-- the hypotheses of `lookup_authentic` are jointly satisfiable, with a key that does verify a genuine head of the log -/
example (answer : Bytes) :
    exD.length < 2 ^ 62 ∧
    (∀ a b c d : Tlog.TH, exParams.node a b = exParams.node c d → a = c ∧ b = d) ∧
    (∀ x y : Bytes, exParams.leaf x = exParams.leaf y → x = y) ∧
    KeySound exParams exD (exEnv answer) ∧
    (∀ pub sig, exParams.edVerify pub exHeadText sig = true) := by
  refine ⟨by decide, fun a b c d h => by cases h; exact ⟨rfl, rfl⟩, fun x y h => by cases h; rfl, ?_, fun _ _ => by simp [exParams]⟩
  intro s k v _ hv text sig t hver hp
  -- the verifier NewVerifier builds is `edVerify pub`
  have hvf : text = exHeadText := by
    unfold Note.NewVerifier at hv
    split at hv
    rename_i name vkey1 _
    split at hv
    rename_i hash16 key64 _
    split at hv
    · split at hv
      · cases hv
      · split at hv
        · cases hv
        · split at hv
          · cases hv
          · split at hv
            · cases hv
            · split at hv
              · cases hv
              · split at hv
                · cases hv
                · cases hv
                  simpa [exParams] using hver
    · cases hv
  subst hvf
  have hpt : TlogNote.parseTree exHeadText = some ⟨1, exCode⟩ :=
    Props.C09.parseTree_formatTree ⟨1, exCode⟩ (by decide) (by decide) (by decide)
  rw [hpt] at hp
  cases hp
  exact ⟨by decide, by simp [exParams, rootAt, exD, RFC6962.mth, RFC6962.mthF]⟩

/-! ### the honest world -/

/-- ★ **honest_never_fails.**  The honest world for a log `D` of fewer than `2^62` records (`Honest`): the configured key
parses (`NewVerifier`), the server (`S.serve`) answers the lookup path of every module it has a record for with
`id ‖ D[id] ‖ signed head of D containing id` (and other lookup paths with an error), and the path of every valid tile
that exists in `D` with the tile's true bytes; tile height at most 30, at least one `ErrWriteConflict` retry.
The environment is `honestEnv S`: a persistent cache that returns what was last written to a file, a configuration
file updated by compare-and-swap; its initial state is ANY honest one (`HonestState`: the stored head is empty or a signed
head of `D`; every cache file is the true bytes of a valid tile under that tile's key — possibly the full tile where a
partial one will be asked for — or an honest lookup response under its lookup file: cold, warm, or partially warm cache).
Then, after ANY sequence of earlier lookups on the same client (existing modules, unknown modules, malformed paths,
excluded paths), `Lookup(path, vers)` of a module the server has a record for — not excluded by GONOSUMDB, escapable —
succeeds and returns exactly the lines with the prefix `path vers ` of an honest response for that module: record
`id = S.index(path)`, text `D[id]`, followed by a signed head of `D`.  No collision-freedom hypothesis. -/
theorem honest_never_fails (P : Params H) (D : List Bytes) (S : Server) (stN : List H) (hon : Honest P D S stN)
    (s0 : HState) (hs0 : HonestState P D S stN s0) (earlier : List (Bytes × Bytes))
    (path vers epath evers : Bytes) (id : Nat)
    (hskip : Module.matchPrefixPatterns P.glob P.nosumdb path = false)
    (hep : Module.escapePath path = .ok epath) (hev : Module.escapeVersion P.isLetter (trimGoMod vers) = .ok evers)
    (hidx : S.index (B "/lookup/" ++ (epath ++ ([64] ++ evers))) = some id) :
    let w := runLookups P (honestEnv S) ⟨s0, newClient P, []⟩ earlier
    ∃ d, HonestLookup P D S (B "/lookup/" ++ (epath ++ ([64] ++ evers))) d ∧
      (lookup P (honestEnv S) w path vers).1 = .ok (filterLines (path ++ [32] ++ vers ++ [32]) d) := by
  intro w
  have hw : HI P D S stN w := hi_runLookups P D S stN hon earlier _ (hi_newClient P D S stN s0 hs0)
  exact (lookup_honest P D S stN hon w hw path vers).2 epath evers id hskip hep hev hidx

omit [DecidableEq H] in
/-- … and what an honest response is: its record is record `id` of `D`, so the returned lines are the lines of
`id ‖ D[id] ‖ head` with the prefix (the server's lines; O3 for the head part). -/
theorem honestLookup_record (P : Params H) (D : List Bytes) (S : Server) (p d : Bytes) (id : Nat)
    (h : HonestLookup P D S p d) (hidx : S.index p = some id) :
    ∃ text head n, TlogNote.parseRecord d = some ((id : Int), text, head) ∧ D[id]? = some text ∧ id < n ∧
      Signed P D S head n := by
  obtain ⟨id', n, head, text, h1, h2, h3, h4, h5⟩ := h
  have := h5 id hidx
  subst this
  exact ⟨text, head, n, h4, h3, h1, h2⟩

end sequential

/-! ### non-vacuity of `honest_never_fails`: a concrete honest world (one record, one-byte toy hashes, a key file that
`NewVerifier` accepts, a signed head that `note.Open` accepts — all evaluated by the kernel) -/

namespace HonestExample
open ModVerif.Client ModVerif.Tile

def hText : Bytes := B "example.com/m v1.0.0 h1:abc=\n"
def hD : List Bytes := [hText]
def hP : Params UInt8 :=
  { leaf := fun _ => 7, node := fun a b => a + b, empty := 0, hashSize := 1, dec := fun b => b.headD 0, enc := fun h => [h],
    height := 2, nosumdb := [], isLetter := fun _ => false, glob := fun _ _ => false, sha := fun _ => [0, 0, 0, 0],
    edVerify := fun _ _ _ => true, retries := 1 }
def hKeyFile : Bytes := B "k+00000000+AQAAAAAAAAAAAAAAAAAAAAAAAAAAAAAAAAAAAAAAAAAA\n"
def hV : Note.Verifier :=
  match Note.NewVerifier hP.sha hP.edVerify (GoStrings.trimSpace hKeyFile) with
  | .ok v => v
  | .error _ => ⟨[], 0, fun _ _ => false⟩
def hHead : Bytes := TlogNote.formatTree ⟨1, 7 :: List.replicate 31 0⟩ ++ [10] ++ Note.sigLine (B "k") (B "AAAAAAE=")
def hResp : Bytes := B "0\n" ++ hText ++ [10] ++ hHead
def hRest : Bytes := B "example.com/m" ++ ([64] ++ B "v1.0.0")
def hPath : Bytes := B "/lookup/" ++ hRest
def hS : Server :=
  { keyFile := hKeyFile, v := hV,
    serve := fun p => if p = hPath then some hResp else if isPrefixOfB (B "/lookup/") p then none else some [7],
    index := fun p => if p = hPath then some 0 else none }

theorem hkey_ok : Note.NewVerifier hP.sha hP.edVerify (GoStrings.trimSpace hKeyFile) = .ok hV := by
  have h : (match Note.NewVerifier hP.sha hP.edVerify (GoStrings.trimSpace hKeyFile) with
      | .ok _ => true | .error _ => false) = true := by decide +kernel
  unfold hV
  cases hn : Note.NewVerifier hP.sha hP.edVerify (GoStrings.trimSpace hKeyFile) with
  | ok v => rfl
  | error e => rw [hn] at h; cases h

theorem hsigned : Signed hP hD hS hHead 1 := by
  have h : (match openTree hP [hV] hHead with | .ok t => t.n == 1 && t.hash == 7 | .error _ => false) = true := by
    decide +kernel
  refine ⟨?_, by decide⟩
  show openTree hP [hV] hHead = .ok ⟨1, rootAt hP hD 1⟩
  have hr : rootAt hP hD 1 = 7 := by simp [rootAt, hD, hP, RFC6962.mth, RFC6962.mthF]
  rw [hr]
  cases ho : openTree hP [hV] hHead with
  | error e => rw [ho] at h; cases h
  | ok t =>
    rw [ho] at h
    simp only [Bool.and_eq_true, beq_iff_eq] at h
    obtain ⟨tn, th⟩ := t
    simp only at h
    rw [h.1, h.2]

theorem hlookup : HonestLookup hP hD hS hPath hResp := by
  refine ⟨0, 1, hHead, hText, by decide, hsigned, rfl, ?_, ?_⟩
  · have h : (TlogNote.parseRecord hResp == some (0, hText, hHead)) = true := by decide +kernel
    simpa using h
  · intro id' h
    simp only [hS, if_true] at h
    cases h; rfl

theorem honest_example : Honest hP hD hS [7] := by
  refine ⟨by decide, by decide +kernel, by decide, by decide, by decide, hkey_ok, ?_, ?_, ?_⟩
  · intro t x ht hx
    obtain ⟨hx1, hw1⟩ := trueTile_single 7 t ht x hx
    subst hx1
    refine ⟨[7], ?_, by decide, by rw [hw1]; rfl⟩
    have hne : tileRemotePath t ≠ hPath := by
      intro h
      unfold tileRemotePath tilePath hPath at h
      rw [B_tile, B_lookup] at h
      simp at h
    have hnp : isPrefixOfB (B "/lookup/") (tileRemotePath t) = false := by
      unfold tileRemotePath tilePath
      rw [B_tile, B_lookup]
      simp [isPrefixOfB]
    simp only [hS, hne, if_false, hnp, Bool.false_eq_true]
  · intro rest id h
    simp only [hS] at h ⊢
    split at h
    · rename_i heq
      rw [heq]
      simp only [if_true]
      exact ⟨hResp, rfl, hlookup⟩
    · cases h
  · intro rest h
    simp only [hS] at h ⊢
    split at h
    · cases h
    · rename_i hne
      simp only [hne, if_false, Client.isPrefixOfB_append, if_true]

/-- the hypotheses of `honest_never_fails` are satisfiable (cold cache, empty configuration), and on this instance the
    theorem's conclusion is the lookup of `example.com/m v1.0.0` returning the record's line -/
example : Honest hP hD hS [7] ∧ HonestState hP hD hS [7] ⟨[], []⟩ ∧
    Module.matchPrefixPatterns hP.glob hP.nosumdb (B "example.com/m") = false ∧
    Module.escapePath (B "example.com/m") = .ok (B "example.com/m") ∧
    Module.escapeVersion hP.isLetter (trimGoMod (B "v1.0.0")) = .ok (B "v1.0.0") ∧
    hS.index (B "/lookup/" ++ (B "example.com/m" ++ ([64] ++ B "v1.0.0"))) = some 0 := by
  refine ⟨honest_example, ⟨Or.inl rfl, by intro f d h; simp at h⟩, by decide +kernel, by decide +kernel, by decide +kernel, ?_⟩
  simp [hS, hPath, hRest]


end HonestExample

end ModVerif.Props.C01
