/-
  C01 — the checksum-database client never returns or caches unauthenticated data.

  The composition theorem `lookup_authentic` needs the sequential client model (Model/Client.lean) built on the
  tlog / tile / note models; it is stated, with the lower-layer lemmas it needs, in lean/PENDING.md.
  What is proved here concerns the two stateful mechanisms of client.go that C01's clauses about the stored latest
  tree head rest on, on the interleaved machine of Model/ClientLatest.lean: every value ever written to the stored head
  is a parseable (validly signed) message that `checkTrees` related to the value it replaces.
-/
import ModVerif.Proofs.ClientLatestInv
namespace ModVerif.Props.C01
open ModVerif ModVerif.ClientLatest

variable {M T : Type} [DecidableEq M] [DecidableEq T]

/-- message `om` opens under the configured key and parses as a tree (the empty message is the empty tree) -/
def Verified (P : Params M T) : Option M → Prop
  | none => True
  | some m => (P.parse m).isSome = true

/-- **(partial) Only verified tree heads reach the stored latest tree head.**  In every reachable state of the
latest-head machine (any clients, goroutines, interleaving, server) each value ever installed in memory and each value
ever written to the configuration is a message that opened under the configured key (`parse` succeeded), and each
configuration write replaced a value whose tree is a prefix of the new one.
Partial with respect to C01: this is the clause "nothing that has not been authenticated is written to the stored latest
tree head"; the clauses about returned lines and about cache writes (records, tiles) need the sequential client model
(see lean/PENDING.md, `lookup_authentic`). -/
theorem stored_head_verified_partial (P : Params M T) (le : T → T → Prop) (hS : Sound P le) (cl : Nat → Nat)
    (presented : Nat → Option M) (priv : Nat → Bool) (c0 : Option M) (s : St M T)
    (h : Reachable P cl presented priv c0 s) :
    (∀ c, Verified P (s.latestMsg c) ∧ cfgTree P (s.latestMsg c) = s.latest c) ∧
    (∀ w ∈ s.writes, le (cfgTree P w.1) (cfgTree P w.2)) := by
  have hI := inv_reachable P le hS cl presented priv c0 s h
  refine ⟨fun c => ?_, hI.writes_up⟩
  have hm := hI.mem_msg c
  refine ⟨?_, cfgTree_of_MsgOf P _ _ hm⟩
  cases hl : s.latestMsg c with
  | none => simp [Verified]
  | some m => rw [hl] at hm; simp [MsgOf] at hm; simp [Verified, hm]

end ModVerif.Props.C01
