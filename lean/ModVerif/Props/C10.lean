/-
  C10 — hashes read through tiles are authenticated against the tree head.
  Property theorems only; helpers in Proofs/TileBasic.lean, Proofs/TlogTH.lean.
  The deep theorems (readHashes_authenticated, error_saves_nothing, honest_reads_true, plan_terminates,
  plan_parents_first, newTiles_sufficient, tileForIndex_spec) are proved in Proofs/TileAuth*.lean on top of the C09
  store invariant (Proofs/TlogStore*.lean).
-/
import ModVerif.Model.Tile
import ModVerif.Proofs.TileBasic
import ModVerif.Proofs.TlogTH
import ModVerif.Proofs.TilePath
import ModVerif.Proofs.TileAuthNew
import ModVerif.Proofs.TileAuthPub
namespace ModVerif.Props.C10
open ModVerif ModVerif.Tlog ModVerif.Tile ModVerif.TlogTH

/-- The F6 witness is REJECTED by the current reader (fix 939e2a3): tree of 7 records, tile height 2,
    stored hash 0, tile (L0, N0) with its first hash forged.  Nothing is passed to SaveTiles.
    Term-algebra hashes, kernel `decide`. -/
theorem C10_fixed_rejects_dedup_gap :
    let out := readHashes TH.node 7 (root 7) 2 [0] (evil 7)
    isErr out.result .inconsistent = true ∧ out.saved.isNone = true := by decide +kernel

/-- Non-vacuity of the witness: the same read against the honest server succeeds, returns the true stored
    hash and saves exactly the three planned tiles with their true contents. -/
theorem C10_honest_witness :
    let out := readHashes TH.node 7 (root 7) 2 [0] (trueTile (store 7))
    isOk out.result [TH.leaf [0]] = true ∧
    out.saved = some ([⟨2, 1, 0, 1, false⟩, ⟨2, 0, 1, 3, false⟩, ⟨2, 0, 0, 4, false⟩].map fun t =>
      (t, (trueTile (store 7) t).getD [])) := by decide +kernel

/-- the forged tile really differs from the true one (the witness is not vacuous) -/
theorem C10_witness_tile_differs : evil 7 ⟨2, 0, 0, 4, false⟩ ≠ trueTile (store 7) ⟨2, 0, 0, 4, false⟩ := by decide +kernel

/-- The empty tree (fix da3c0ec): nothing is fetched, nothing is saved, the empty request returns `[]`. -/
theorem readHashes_empty_tree {H : Type} [DecidableEq H] (node : H → H → H) (th : H) (h : Nat)
    (serve : Tile → Option (List H)) :
    (readHashes node 0 th h [] serve).result = .ok [] ∧ (readHashes node 0 th h [] serve).saved = none := by
  constructor <;> rfl

/-- …and every requested index is refused with "indexes not in tree". -/
theorem readHashes_empty_tree_index {H : Type} [DecidableEq H] (node : H → H → H) (th : H) (h x : Nat) (xs : List Nat)
    (serve : Tile → Option (List H)) :
    (readHashes node 0 th h (x :: xs) serve).result = .error .indexRange := by
  have h1 : subTreeIndex 0 0 = .ok [] := rfl
  have h2 : planStx h 0 [] ([], [], []) = .ok ([], [], []) := rfl
  have hp : plan h 0 (x :: xs) = .error .indexRange := by
    simp only [plan, h1, h2, bind, Except.bind, planIndexes_empty_tree]
  simp only [readHashes, hp]

/-- The early return of `readHashes` (when the plan has no tree-hash index) is exactly the code's
    `make([]Hash, len(indexes))`: such a plan exists only for `N = 0` and no requested index. -/
theorem readHashes_early_return_exact (h N : Nat) (indexes : List Nat) (p : Plan)
    (hp : plan h N indexes = .ok p) (hs : p.stx = []) : N = 0 ∧ indexes = [] :=
  plan_stx_nil h N indexes p hp hs

/-! ### tile coordinates and their path encoding are a bijection -/

/-- ★ every valid tile (1 ≤ H ≤ 30, 1 ≤ W ≤ 2^H, N and L in the int64 range; data tiles are `data = true`, `l = 0`)
    is recovered from its path … -/
theorem tilePath_roundtrip (t : Tile) (hh : 1 ≤ t.h ∧ t.h ≤ 30) (hw : 1 ≤ t.w ∧ t.w ≤ 2 ^ t.h)
    (hn : t.n < 2 ^ 63) (hl : t.l < 2 ^ 63) (hd : t.data = true → t.l = 0) :
    parseTilePath (tilePath t) = some t :=
  Tile.tilePath_roundtrip t hh hw hn hl hd

/-- ★ … and every string the parser accepts is the path of the tile it returns (so the parser accepts no
    second spelling of any tile). -/
theorem parseTilePath_sound (s : Bytes) (t : Tile) (h : parseTilePath s = some t) : tilePath t = s :=
  Tile.parseTilePath_sound s t h

/-- distinct valid tiles have distinct paths -/
theorem tilePath_injective (t u : Tile) (hh : 1 ≤ t.h ∧ t.h ≤ 30) (hw : 1 ≤ t.w ∧ t.w ≤ 2 ^ t.h)
    (hn : t.n < 2 ^ 63) (hl : t.l < 2 ^ 63) (hd : t.data = true → t.l = 0)
    (hh' : 1 ≤ u.h ∧ u.h ≤ 30) (hw' : 1 ≤ u.w ∧ u.w ≤ 2 ^ u.h)
    (hn' : u.n < 2 ^ 63) (hl' : u.l < 2 ^ 63) (hd' : u.data = true → u.l = 0)
    (heq : tilePath t = tilePath u) : t = u := by
  have a := Tile.tilePath_roundtrip t hh hw hn hl hd
  have b := Tile.tilePath_roundtrip u hh' hw' hn' hl' hd'
  rw [heq, b] at a
  exact (Option.some.inj a).symm

/-- the documented example: Tile{H: 3, L: 4, N: 1234067, W: 1} ↔ tile/3/4/x001/x234/067.p/1 -/
example : tilePath ⟨3, 4, 1234067, 1, false⟩ = B "tile/3/4/x001/x234/067.p/1" ∧
    parseTilePath (B "tile/3/4/x001/x234/067.p/1") = some ⟨3, 4, 1234067, 1, false⟩ := by decide +kernel

/-! ### reading through tiles (Proofs/TileAuth*.lean)

`H` is an arbitrary hash type, `leaf`/`node`/`empty` arbitrary hash functions; `D` the records, `st` the dense store
`buildStore` produces for them (it satisfies the C09 invariant `TlogStore.StoreOK`), the tree head is the true one
(`N = D.length`, `th = MTH (D.map leaf)`), `D.length < 2^62` (the int64 range of the layout functions).
The true stored hashes of positions `idx` are `idx.mapM (st[·]?)`; the true tile is `trueTile st t`. -/

section
variable {H : Type} [DecidableEq H] (leaf : Bytes → H) (node : H → H → H) (empty : H)

/-- ★ **readHashes_authenticated** (collision freedom of NodeHash).  Against ANY tile server: everything `ReadHashes` hands to
    SaveTiles is byte-identical to the true tile, and if it returns hashes they are the true stored hashes.
    (False before fix 939e2a3: `C10_fixed_rejects_dedup_gap` is the regression witness.) -/
theorem readHashes_authenticated (D : List Bytes) (st : List H) (hst : buildStore leaf node D = .ok st)
    (hR : D.length < 2 ^ 62) (hcf : ∀ a b c d : H, node a b = node c d → a = c ∧ b = d)
    (h : Nat) (hh : 1 ≤ h) (idx : List Nat) (serve : Tile → Option (List H)) :
    (∀ hs, (readHashes node D.length (RFC6962.mth node empty (D.map leaf)) h idx serve).result = .ok hs →
        idx.mapM (st[·]?) = some hs) ∧
    (∀ sv, (readHashes node D.length (RFC6962.mth node empty (D.map leaf)) h idx serve).saved = some sv →
        ∀ td ∈ sv, trueTile st td.1 = some td.2) := by
  have hok := TlogStore.storeOK_of_buildStore leaf node empty D (by omega) st hst
  have := TileAuth.readHashes_authenticated leaf node empty D st hok hR hcf h hh idx serve
  exact ⟨this.2, this.1⟩

/-- the same over any store satisfying the C09 store invariant (the hypothesis `StoreOK` in the shape of PENDING.md) -/
theorem readHashes_authenticated_of_storeOK (D : List Bytes) (st : List H)
    (hok : st.length = Tlog.S D.length ∧ ∀ p l k : Nat, (RFC6962.layout D.length)[p]? = some (l, k) →
      st[p]? = some (RFC6962.mth node empty (RFC6962.leavesOf (D.map leaf) l k)))
    (hR : D.length < 2 ^ 62) (hcf : ∀ a b c d : H, node a b = node c d → a = c ∧ b = d)
    (h : Nat) (hh : 1 ≤ h) (idx : List Nat) (serve : Tile → Option (List H)) :
    (∀ hs, (readHashes node D.length (RFC6962.mth node empty (D.map leaf)) h idx serve).result = .ok hs →
        idx.mapM (st[·]?) = some hs) ∧
    (∀ sv, (readHashes node D.length (RFC6962.mth node empty (D.map leaf)) h idx serve).saved = some sv →
        ∀ td ∈ sv, trueTile st td.1 = some td.2) := by
  have := TileAuth.readHashes_authenticated leaf node empty D st hok hR hcf h hh idx serve
  exact ⟨this.2, this.1⟩

/-- ★ an error is only ever raised before SaveTiles: when `ReadHashes` fails nothing has been handed to the cache -/
theorem error_saves_nothing (D : List Bytes) (st : List H) (hst : buildStore leaf node D = .ok st)
    (hR : D.length < 2 ^ 62) (hcf : ∀ a b c d : H, node a b = node c d → a = c ∧ b = d)
    (h : Nat) (h1 : 1 ≤ h) (h2 : h ≤ 30) (idx : List Nat) (serve : Tile → Option (List H)) (e : Err)
    (herr : (readHashes node D.length (RFC6962.mth node empty (D.map leaf)) h idx serve).result = .error e) :
    (readHashes node D.length (RFC6962.mth node empty (D.map leaf)) h idx serve).saved = none :=
  TileAuth.error_saves_nothing leaf node empty D st
    (TlogStore.storeOK_of_buildStore leaf node empty D (by omega) st hst) hR hcf h h1 h2 idx serve e herr

/-- ★ **honest_reads_true**.  Tiles served honestly: for every non-empty tree, tile height `1 ≤ h ≤ 30` and request inside the
    tree, the plan succeeds, every check passes (no "bad math" return is reachable), the result is the list of true stored
    hashes and SaveTiles receives exactly the planned tiles with their true contents.  (No collision-freedom hypothesis.) -/
theorem honest_reads_true (D : List Bytes) (st : List H) (hst : buildStore leaf node D = .ok st)
    (hR : D.length < 2 ^ 62) (hpos : 0 < D.length) (h : Nat) (h1 : 1 ≤ h) (h2 : h ≤ 30) (idx : List Nat)
    (hidx : ∀ x ∈ idx, x < storedHashIndex 0 D.length) :
    ∃ p data hs, plan h D.length idx = .ok p ∧ p.tiles.mapM (trueTile st) = some data ∧
      idx.mapM (st[·]?) = some hs ∧
      (readHashes node D.length (RFC6962.mth node empty (D.map leaf)) h idx (trueTile st)).saved =
        some (p.tiles.zip data) ∧
      (readHashes node D.length (RFC6962.mth node empty (D.map leaf)) h idx (trueTile st)).result = .ok hs :=
  TileAuth.honest_reads_true leaf node empty D st
    (TlogStore.storeOK_of_buildStore leaf node empty D (by omega) st hst) hR hpos h h1 h2 idx hidx

/-- ★ **published_reads_true** ("the tiles a publisher is told to publish for any growth step are sufficient for that").
    The log grows along `0 = n₀ ≤ n₁ ≤ … ≤ n_k = N` (the list `ns`); at step `(a, b)` the publisher writes the tiles
    `NewTiles(h, a, b)` with the contents they have in the log of the first `b` records.  A server that returns, for every tile
    the reader plans, the content it had when it was published lets `ReadHashes` on tree `N` succeed with the true stored hashes. -/
theorem published_reads_true (D : List Bytes) (st : List H) (hst : buildStore leaf node D = .ok st)
    (hR : D.length < 2 ^ 62) (hpos : 0 < D.length) (h : Nat) (h1 : 1 ≤ h) (h2 : h ≤ 30)
    (ns : List Nat) (hs : ns.Pairwise (· ≤ ·)) (h0 : ns.head? = some 0) (hl : ns.getLast? = some D.length)
    (idx : List Nat) (hidx : ∀ x ∈ idx, x < storedHashIndex 0 D.length) (serve : Tile → Option (List H))
    (hserve : ∀ p, plan h D.length idx = .ok p → ∀ t ∈ p.tiles, ∀ a b ts stb, (a, b) ∈ ns.zip ns.tail →
      newTiles h a b = .ok ts → t ∈ ts → buildStore leaf node (D.take b) = .ok stb → serve t = trueTile stb t) :
    ∃ hs, idx.mapM (st[·]?) = some hs ∧
      (readHashes node D.length (RFC6962.mth node empty (D.map leaf)) h idx serve).result = .ok hs := by
  have hok := TlogStore.storeOK_of_buildStore leaf node empty D (by omega) st hst
  have hcongr := TileAuth.readHashes_congr node D.length (RFC6962.mth node empty (D.map leaf)) h idx serve (trueTile st) (by
    intro p hp t ht
    obtain ⟨a, b, ts, stb, m1, m2, m3, m4, m5⟩ :=
      TileAuth.published_tiles_true leaf node empty D st hok hR h h1 ns hs h0 hl idx p hp t ht
    rw [hserve p hp t ht a b ts stb m1 m2 m3 m4, m5])
  obtain ⟨p, data, hs', _, _, e3, _, e5⟩ := TileAuth.honest_reads_true leaf node empty D st hok hR hpos h h1 h2 idx hidx
  exact ⟨hs', e3, by rw [hcongr]; exact e5⟩

omit [DecidableEq H] in
/-- the coordinate/width and content halves of the above, tile by tile -/
theorem published_tiles_true (D : List Bytes) (st : List H) (hst : buildStore leaf node D = .ok st)
    (hR : D.length < 2 ^ 62) (h : Nat) (hh : 1 ≤ h) (ns : List Nat) (hs : ns.Pairwise (· ≤ ·))
    (h0 : ns.head? = some 0) (hl : ns.getLast? = some D.length) (idx : List Nat) (p : Plan)
    (hp : plan h D.length idx = .ok p) :
    ∀ t ∈ p.tiles, ∃ a b ts stb, (a, b) ∈ ns.zip ns.tail ∧ newTiles h a b = .ok ts ∧ t ∈ ts ∧
      buildStore leaf node (D.take b) = .ok stb ∧ trueTile stb t = trueTile st t :=
  TileAuth.published_tiles_true leaf node (leaf []) D st
    (TlogStore.storeOK_of_buildStore leaf node (leaf []) D (by omega) st hst) hR h hh ns hs h0 hl idx p hp

/-- ★ **tileForIndex_spec**: the tile, and the byte range inside it, that `tileForIndex` names for a stored-hash position
    with coordinates `(lv, k)`: tile level `lv / h`, `2^(lv % h)` hashes, … -/
theorem tileForIndex_spec (h x lv k : Nat) (hh : 1 ≤ h) (hs : splitStoredHashIndex x = .ok (lv, k)) :
    ∃ t s e, tileForIndex h x = .ok (t, s, e) ∧ t.h = h ∧ t.l = lv / h ∧ t.n = k / 2 ^ (h - lv % h) ∧ t.w = e ∧
      t.data = false ∧ e = s + 2 ^ (lv % h) ∧ e ≤ 2 ^ h ∧ t.n * 2 ^ h + s = k * 2 ^ (lv % h) := by
  refine ⟨_, _, _, TileAuth.tileForIndex_eq h x lv k (by omega) hs, rfl, rfl, rfl, rfl, rfl, ?_, ?_, ?_⟩
  · rw [Nat.add_mul]; omega
  · have := TileAuth.ts_le h lv k (by omega)
    simp only [TileAuth.ts] at this
    rw [Nat.add_mul]; omega
  · exact TileAuth.tnum_ts h lv k (by omega)

omit [DecidableEq H] in
/-- … and `tileHash` of that range of the true tile is the stored hash (so `HashFromTile` on true tiles returns true hashes) -/
theorem tileForIndex_spec_hash (D : List Bytes) (st : List H) (hst : buildStore leaf node D = .ok st)
    (hR : D.length < 2 ^ 62) (h : Nat) (h1 : 1 ≤ h) (h2 : h ≤ 30) (x : Nat) (hx : x < storedHashIndex 0 D.length) :
    ∃ t s e d v, tileForIndex h x = .ok (t, s, e) ∧ trueTile st (tileParent t 0 D.length) = some d ∧
      tileHash node ((d.take e).drop s) = .ok v ∧ st[x]? = some v ∧
      hashFromTile node (tileParent t 0 D.length) d x = .ok v := by
  have hok := TlogStore.storeOK_of_buildStore leaf node (leaf []) D (by omega) st hst
  have env := TileAuth.env_of_storeOK leaf node (leaf []) D st hok hR
  obtain ⟨c, c1, c2, c3⟩ := TileAuth.env_split_of_lt node _ D.length st env x hx
  have hh : 0 < h := by omega
  obtain ⟨t0, s, e, a1, a2⟩ := TileAuth.tileForIndex_home h D.length x c hh c1
  have a1' := TileAuth.tileForIndex_eq h x c.1 c.2 hh c1
  rw [a1] at a1'
  simp only [Except.ok.injEq, Prod.mk.injEq] at a1'
  obtain ⟨_, es, ee⟩ := a1'
  have hnz := TileAuth.home_nonzero h D.length c hh c2
  obtain ⟨f1, f2, f3, f4, f5⟩ := TileAuth.stdTile_fields D.length h (c.1 / h) (TileAuth.tnum h c.1 c.2) hnz
  rw [← TileAuth.home] at f1 f2 f3 f4 f5
  have hin := TileAuth.coord_in_tile h D.length c.1 c.2 hh c2
  have hle := TileAuth.ts_le h c.1 c.2 hh
  have hp := Nat.two_pow_pos (c.1 % h)
  have htrue := TileAuth.trueTile_eq node _ D.length st env (TileAuth.home h D.length c) (by rw [f4]; omega)
    (by rw [f1, f2, f3, f4]; omega)
  have h10 : TileAuth.ts (TileAuth.home h D.length c).h c.1 c.2 + 2 ^ (c.1 % (TileAuth.home h D.length c).h) ≤
      (TileAuth.home h D.length c).w := by rw [f1, f4]; omega
  have hsl := TileAuth.slice_hash node _ D.length env.step (TileAuth.home h D.length c) c.1 c.2 (by omega) c2
    (by rw [f1, f2]) (by rw [f1, f3]) h10
  have hlv := TileAuth.lv_lt_63 D.length c.1 c.2 c2 (by omega)
  have hdiv : c.1 / h ≤ c.1 := Nat.div_le_self _ _
  have hgood := TileAuth.hashFromTile_good node _ D.length env.step (TileAuth.home h D.length c) x c.1 c.2 c1 c2
    (by omega) (by omega) f5 (by omega) (by rw [f4, f1]; omega) (by rw [f1, f2]) (by rw [f1, f3]) h10
  refine ⟨t0, s, e, _, _, a1, by rw [a2]; exact htrue, ?_, by rw [← c3]; exact env.get c.1 c.2 c2, by rw [a2]; exact hgood⟩
  have e1 : TileAuth.ts (TileAuth.home h D.length c).h c.1 c.2 = s := by rw [f1, es]; rfl
  have e2 : TileAuth.ts (TileAuth.home h D.length c).h c.1 c.2 + 2 ^ (c.1 % (TileAuth.home h D.length c).h) = e := by
    rw [f1, ee]; simp only [TileAuth.ts, Nat.add_mul, Nat.one_mul]
  rw [e2, e1] at hsl
  exact hsl

end

/-- ★ **plan_terminates**: for every tree below `2^62` records, tile height `h ≥ 1` and request inside the tree, the planning
    part of ReadHashes succeeds: the code's unbounded walk-up loop terminates (within `N.log2 + 2` steps), the
    "must be full" `badMath` return and every panic site are unreachable. -/
theorem plan_terminates (h N : Nat) (hh : 1 ≤ h) (hR : N < 2 ^ 62) (idx : List Nat)
    (hidx : ∀ x ∈ idx, x < storedHashIndex 0 N) : ∃ p, plan h N idx = .ok p :=
  TileAuth.plan_terminates h N hh hR idx hidx

/-- ★ **plan_parents_first**: every planned tile from position `nstx` on is full and its parent occurs earlier in the list
    (and is what the tileOrder map returns for it); the tileOrder map is exactly the position map of the tile list, which has
    no duplicates and never contains `Tile{}`. -/
theorem plan_parents_first (h N : Nat) (hh : 1 ≤ h) (hR : N < 2 ^ 62) (idx : List Nat) (p : Plan)
    (hp : plan h N idx = .ok p) :
    (∀ (i : Nat) (t : Tile), p.nstx ≤ i → p.tiles[i]? = some t →
        t.w = 2 ^ h ∧ ∃ j, j < i ∧ p.tiles[j]? = some (tileParent t 1 N) ∧ p.order.lookup (tileParent t 1 N) = some j) ∧
    (∀ (t : Tile) (j : Nat), p.order.lookup t = some j ↔ p.tiles[j]? = some t) ∧
    p.tiles.Nodup ∧ Tile.zero ∉ p.tiles ∧ p.nstx ≤ p.tiles.length :=
  TileAuth.plan_parents_first h N hh hR idx p hp

/-- ★ **newTiles_sufficient**: along any growth sequence `0 = n₀ ≤ n₁ ≤ … ≤ n_k = N` (the list `ns`), every tile that
    ReadHashes plans to fetch for tree `N` — for any requested indexes — is among `NewTiles(h, n_i, n_{i+1})` of some step,
    with exactly the planned width; and `NewTiles` never fails. -/
theorem newTiles_sufficient (h N : Nat) (hh : 1 ≤ h) (hR : N < 2 ^ 62) (ns : List Nat) (hs : ns.Pairwise (· ≤ ·))
    (h0 : ns.head? = some 0) (hl : ns.getLast? = some N) (idx : List Nat) (p : Plan) (hp : plan h N idx = .ok p) :
    ∀ t ∈ p.tiles, ∃ a b ts, (a, b) ∈ ns.zip ns.tail ∧ newTiles h a b = .ok ts ∧ t ∈ ts :=
  TileAuth.newTiles_sufficient h N hh hR ns hs h0 hl idx p hp

/-! ### non-vacuity of the hypotheses (term-algebra hashes; the 7-record example log) -/

/-- every log below `2^64` records has a store (`buildStore` never fails), the term algebra is collision free -/
example : ∃ st, buildStore TH.leaf TH.node (recs 7) = .ok st ∧ (recs 7).length < 2 ^ 62 ∧ 0 < (recs 7).length ∧
    (∀ a b c d : TH, TH.node a b = TH.node c d → a = c ∧ b = d) ∧ (∀ x ∈ [0, 5, 10], x < storedHashIndex 0 (recs 7).length) := by
  obtain ⟨st, h1, _⟩ := TlogStore.buildStore_ok TH.leaf TH.node TH.empty (recs 7) (by decide)
  exact ⟨st, h1, by decide, by decide, fun a b c d h => by cases h; exact ⟨rfl, rfl⟩, by decide⟩

/-- the failing case of `error_saves_nothing` occurs: the forged tile of the F6 witness makes the read fail -/
example : ∃ e, (readHashes TH.node 7 (root 7) 2 [0] (evil 7)).result = .error e := by
  have h := C10_fixed_rejects_dedup_gap.1
  revert h
  cases (readHashes TH.node 7 (root 7) 2 [0] (evil 7)).result with
  | ok _ => simp [isErr]
  | error e => intro _; exact ⟨e, rfl⟩

/-- a successful plan, a growth sequence, a position with coordinates -/
example : (∃ p, plan 2 7 [0] = .ok p) ∧ [0, 3, 7].Pairwise (· ≤ ·) ∧ [0, 3, 7].head? = some 0 ∧ [0, 3, 7].getLast? = some 7 ∧
    splitStoredHashIndex 10 = .ok (0, 6) := ⟨⟨_, rfl⟩, by decide, rfl, rfl, rfl⟩

end ModVerif.Props.C10
