/-
  C10 — hashes read through tiles are authenticated against the tree head.
  Property theorems only; helpers in Proofs/TileBasic.lean, Proofs/TlogTH.lean.
  The deep theorems (plan_parents_first, honest_reads_true, newTiles_sufficient, readHashes_authenticated)
  are stated in lean/PENDING.md.
-/
import ModVerif.Model.Tile
import ModVerif.Proofs.TileBasic
import ModVerif.Proofs.TlogTH
namespace ModVerif.Props.C10
open ModVerif ModVerif.Tlog ModVerif.Tile ModVerif.TlogTH

/-- The F6 witness is REJECTED by the current reader (fix 939e2a3): tree of 7 records, tile height 2,
    stored hash 0, tile (L0, N0) with its first hash forged.  Nothing is passed to SaveTiles.
    Term-algebra hashes, kernel `decide`. -/
theorem C10_fixed_rejects_dedup_gap :
    let out := readHashes TH.node 7 (root 7) 2 [0] (evil 7)
    isErr out.result .inconsistent = true ∧ out.saved.isNone = true := by decide +kernel

/-- Non-vacuity of the witness: the same read against the honest server succeeds, returns the true stored
    hash and saves exactly the three planned tiles with their true contents. -/
theorem C10_honest_witness :
    let out := readHashes TH.node 7 (root 7) 2 [0] (trueTile (store 7))
    isOk out.result [TH.leaf [0]] = true ∧
    out.saved = some ([⟨2, 1, 0, 1, false⟩, ⟨2, 0, 1, 3, false⟩, ⟨2, 0, 0, 4, false⟩].map fun t =>
      (t, (trueTile (store 7) t).getD [])) := by decide +kernel

/-- the forged tile really differs from the true one (the witness is not vacuous) -/
theorem C10_witness_tile_differs : evil 7 ⟨2, 0, 0, 4, false⟩ ≠ trueTile (store 7) ⟨2, 0, 0, 4, false⟩ := by decide +kernel

/-- The empty tree (fix da3c0ec): nothing is fetched, nothing is saved, the empty request returns `[]`. -/
theorem readHashes_empty_tree {H : Type} [DecidableEq H] (node : H → H → H) (th : H) (h : Nat)
    (serve : Tile → Option (List H)) :
    (readHashes node 0 th h [] serve).result = .ok [] ∧ (readHashes node 0 th h [] serve).saved = none := by
  constructor <;> rfl

/-- …and every requested index is refused with "indexes not in tree". -/
theorem readHashes_empty_tree_index {H : Type} [DecidableEq H] (node : H → H → H) (th : H) (h x : Nat) (xs : List Nat)
    (serve : Tile → Option (List H)) :
    (readHashes node 0 th h (x :: xs) serve).result = .error .indexRange := by
  have h1 : subTreeIndex 0 0 = .ok [] := rfl
  have h2 : planStx h 0 [] ([], [], []) = .ok ([], [], []) := rfl
  have hp : plan h 0 (x :: xs) = .error .indexRange := by
    simp only [plan, h1, h2, bind, Except.bind, planIndexes_empty_tree]
  simp only [readHashes, hp]

/-- The early return of `readHashes` (when the plan has no tree-hash index) is exactly the code's
    `make([]Hash, len(indexes))`: such a plan exists only for `N = 0` and no requested index. -/
theorem readHashes_early_return_exact (h N : Nat) (indexes : List Nat) (p : Plan)
    (hp : plan h N indexes = .ok p) (hs : p.stx = []) : N = 0 ∧ indexes = [] :=
  plan_stx_nil h N indexes p hp hs

end ModVerif.Props.C10
