/-
  C10 — hashes read through tiles are authenticated against the tree head.
  Property theorems only; helpers in Proofs/TileBasic.lean, Proofs/TlogTH.lean.
  The deep theorems (plan_parents_first, honest_reads_true, newTiles_sufficient, readHashes_authenticated)
  are stated in lean/PENDING.md.
-/
import ModVerif.Model.Tile
import ModVerif.Proofs.TileBasic
import ModVerif.Proofs.TlogTH
import ModVerif.Proofs.TilePath
namespace ModVerif.Props.C10
open ModVerif ModVerif.Tlog ModVerif.Tile ModVerif.TlogTH

/-- The F6 witness is REJECTED by the current reader (fix 939e2a3): tree of 7 records, tile height 2,
    stored hash 0, tile (L0, N0) with its first hash forged.  Nothing is passed to SaveTiles.
    Term-algebra hashes, kernel `decide`. -/
theorem C10_fixed_rejects_dedup_gap :
    let out := readHashes TH.node 7 (root 7) 2 [0] (evil 7)
    isErr out.result .inconsistent = true ∧ out.saved.isNone = true := by decide +kernel

/-- Non-vacuity of the witness: the same read against the honest server succeeds, returns the true stored
    hash and saves exactly the three planned tiles with their true contents. -/
theorem C10_honest_witness :
    let out := readHashes TH.node 7 (root 7) 2 [0] (trueTile (store 7))
    isOk out.result [TH.leaf [0]] = true ∧
    out.saved = some ([⟨2, 1, 0, 1, false⟩, ⟨2, 0, 1, 3, false⟩, ⟨2, 0, 0, 4, false⟩].map fun t =>
      (t, (trueTile (store 7) t).getD [])) := by decide +kernel

/-- the forged tile really differs from the true one (the witness is not vacuous) -/
theorem C10_witness_tile_differs : evil 7 ⟨2, 0, 0, 4, false⟩ ≠ trueTile (store 7) ⟨2, 0, 0, 4, false⟩ := by decide +kernel

/-- The empty tree (fix da3c0ec): nothing is fetched, nothing is saved, the empty request returns `[]`. -/
theorem readHashes_empty_tree {H : Type} [DecidableEq H] (node : H → H → H) (th : H) (h : Nat)
    (serve : Tile → Option (List H)) :
    (readHashes node 0 th h [] serve).result = .ok [] ∧ (readHashes node 0 th h [] serve).saved = none := by
  constructor <;> rfl

/-- …and every requested index is refused with "indexes not in tree". -/
theorem readHashes_empty_tree_index {H : Type} [DecidableEq H] (node : H → H → H) (th : H) (h x : Nat) (xs : List Nat)
    (serve : Tile → Option (List H)) :
    (readHashes node 0 th h (x :: xs) serve).result = .error .indexRange := by
  have h1 : subTreeIndex 0 0 = .ok [] := rfl
  have h2 : planStx h 0 [] ([], [], []) = .ok ([], [], []) := rfl
  have hp : plan h 0 (x :: xs) = .error .indexRange := by
    simp only [plan, h1, h2, bind, Except.bind, planIndexes_empty_tree]
  simp only [readHashes, hp]

/-- The early return of `readHashes` (when the plan has no tree-hash index) is exactly the code's
    `make([]Hash, len(indexes))`: such a plan exists only for `N = 0` and no requested index. -/
theorem readHashes_early_return_exact (h N : Nat) (indexes : List Nat) (p : Plan)
    (hp : plan h N indexes = .ok p) (hs : p.stx = []) : N = 0 ∧ indexes = [] :=
  plan_stx_nil h N indexes p hp hs

/-! ### tile coordinates and their path encoding are a bijection -/

/-- ★ every valid tile (1 ≤ H ≤ 30, 1 ≤ W ≤ 2^H, N and L in the int64 range; data tiles are `data = true`, `l = 0`)
    is recovered from its path … -/
theorem tilePath_roundtrip (t : Tile) (hh : 1 ≤ t.h ∧ t.h ≤ 30) (hw : 1 ≤ t.w ∧ t.w ≤ 2 ^ t.h)
    (hn : t.n < 2 ^ 63) (hl : t.l < 2 ^ 63) (hd : t.data = true → t.l = 0) :
    parseTilePath (tilePath t) = some t :=
  Tile.tilePath_roundtrip t hh hw hn hl hd

/-- ★ … and every string the parser accepts is the path of the tile it returns (so the parser accepts no
    second spelling of any tile). -/
theorem parseTilePath_sound (s : Bytes) (t : Tile) (h : parseTilePath s = some t) : tilePath t = s :=
  Tile.parseTilePath_sound s t h

/-- distinct valid tiles have distinct paths -/
theorem tilePath_injective (t u : Tile) (hh : 1 ≤ t.h ∧ t.h ≤ 30) (hw : 1 ≤ t.w ∧ t.w ≤ 2 ^ t.h)
    (hn : t.n < 2 ^ 63) (hl : t.l < 2 ^ 63) (hd : t.data = true → t.l = 0)
    (hh' : 1 ≤ u.h ∧ u.h ≤ 30) (hw' : 1 ≤ u.w ∧ u.w ≤ 2 ^ u.h)
    (hn' : u.n < 2 ^ 63) (hl' : u.l < 2 ^ 63) (hd' : u.data = true → u.l = 0)
    (heq : tilePath t = tilePath u) : t = u := by
  have a := Tile.tilePath_roundtrip t hh hw hn hl hd
  have b := Tile.tilePath_roundtrip u hh' hw' hn' hl' hd'
  rw [heq, b] at a
  exact (Option.some.inj a).symm

/-- the documented example: Tile{H: 3, L: 4, N: 1234067, W: 1} ↔ tile/3/4/x001/x234/067.p/1 -/
example : tilePath ⟨3, 4, 1234067, 1, false⟩ = B "tile/3/4/x001/x234/067.p/1" ∧
    parseTilePath (B "tile/3/4/x001/x234/067.p/1") = some ⟨3, 4, 1234067, 1, false⟩ := by decide +kernel

end ModVerif.Props.C10
