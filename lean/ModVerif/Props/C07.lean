/-
  C07 — A signed note opens only with verified signatures over exactly its text.
  Property theorems only; helper lemmas live in ModVerif/Proofs/Note*.lean, the specification
  vocabulary in ModVerif/Spec/NoteSpec.lean.
-/
import ModVerif.Model.Note
import ModVerif.Spec.NoteSpec
import ModVerif.Proofs.Note
import ModVerif.Proofs.NoteRoundtrip
import ModVerif.Proofs.NoteKeys
import ModVerif.Proofs.NoteFullOpen
import ModVerif.Proofs.NoteFullResign
namespace ModVerif.Props.C07
open ModVerif ModVerif.Note ModVerif.B64

/-- ★ `open_sound`.  If `Open` returns a note then (1) it lists at least one verified signature,
    (2) the message is exactly `text ‖ "\n" ‖ block` with `text` ending in a newline and every verified
    signature being one of the lines of `block`, and (3) every verified signature's key is known under
    the signature's (name, hash) and that key's verifier accepted the decoded signature bytes over
    exactly the returned text. -/
theorem open_sound {msg : Bytes} {known : Verifiers} {n : Note} (h : Open msg known = .ok n) :
    n.sigs ≠ [] ∧
    (∃ block, msg = n.text ++ [10] ++ block ∧ n.text.getLast? = some 10 ∧
      ∀ s ∈ n.sigs, lineOf s ∈ sigLines block) ∧
    ∀ s ∈ n.sigs, Verified known n.text s := by
  obtain ⟨split, st, _, hs, ht, _, _, hl, hsig, _, hne⟩ := Open_ok h
  obtain ⟨hmsg, hlast⟩ := split_spec hs
  rw [hsig]
  refine ⟨hne, ⟨msg.drop (split + 2), by rw [ht]; exact hmsg, by rw [ht]; exact hlast, ?_⟩, ?_⟩
  · refine openLoop_sigs_inv (fun s => lineOf s ∈ sigLines (msg.drop (split + 2))) _ ?_ _ _ _
      (fun _ hl => hl) hl (by simp)
    intro line p v hmem hp _ _ _ _
    have := parseSigLine_line hp
    simp only [lineOf, SigLine.toSig]
    rw [← this]; exact hmem
  · refine openLoop_sigs_inv (Verified known n.text) (sigLines (msg.drop (split + 2))) ?_ _ _ _
      (fun _ hl => hl) hl (by simp)
    intro line p v _ hp hk hvn hvh hver
    obtain ⟨_, _, _, _, _, raw, hraw, hlen, hbe, hsg⟩ := parseSigLine_spec hp
    exact ⟨v, raw, hk, hvn, hvh, hraw, hlen, hbe, by rw [← hsg]; exact hver⟩

/-- ★ `open_bad_known_sig_fails`.  Let the message split (at the last blank line) into text and
    signature lines.  If some line parses to a signature of a known key, no earlier line is by the same
    (name, hash), and the key's verifier rejects that signature over the text, then `Open` returns no
    note.  (Reading O4 of DESIGN §7: the line `Open` checks for a key is its first.) -/
theorem open_bad_known_sig_fails {msg : Bytes} {known : Verifiers} {split i : Nat} {line : Bytes}
    {p : SigLine} {k : Verifier}
    (hs : lastIndexOf sigSplit msg = some split)
    (hl : (sigLines (msg.drop (split + 2)))[i]? = some line) (hp : parseSigLine line = some p)
    (hfirst : ∀ j, j < i → ∀ lj pj, (sigLines (msg.drop (split + 2)))[j]? = some lj →
      parseSigLine lj = some pj → (pj.name, pj.hash) ≠ (p.name, p.hash))
    (hk : known p.name p.hash = .found k) (hbad : k.verify (msg.take (split + 1)) p.sig = false) :
    ∀ n, Open msg known ≠ .ok n := by
  intro n h
  obtain ⟨split', st, _, hs', ht, _, _, hloop, _⟩ := Open_ok h
  rw [hs] at hs'
  simp only [Option.some.injEq] at hs'; subst hs'
  rw [ht] at hloop
  exact openLoop_bad_fails _ {} i line p k hl hp hfirst (by simp) hk hbad st hloop

/-- ★ `open_partition`.  If `Open` returns a note then every line of the signature block is a well-formed
    signature line, there are at most 100 of them, every lookup answered "found" or "unknown", and
    * the verified signatures are the lines by known keys, in message order, keeping only the FIRST line
      per (name, hash) — later lines by the same key are dropped without being verified (O4);
    * the unverified signatures are the lines by unknown keys, in message order, without repeats of
      an identical line. -/
theorem open_partition {msg : Bytes} {known : Verifiers} {n : Note} (h : Open msg known = .ok n) :
    ∃ split ps, lastIndexOf sigSplit msg = some split ∧ n.text = msg.take (split + 1) ∧
      parseAll (sigLines (msg.drop (split + 2))) = some ps ∧ ps.length ≤ maxSigs ∧
      (∀ p ∈ ps, isKnown known p = true ∨ isUnknown known p = true) ∧
      n.sigs = (dedupFrom (fun p : SigLine => (p.name, p.hash)) [] (ps.filter (isKnown known))).map SigLine.toSig ∧
      n.unverifiedSigs =
        (dedupFrom (fun p : SigLine => p.line) [] (ps.filter (isUnknown known))).map SigLine.toSig := by
  obtain ⟨split, st, _, hs, ht, _, _, hl, hsig, hunv, _⟩ := Open_ok h
  obtain ⟨ps, hps, hlen, hall, h1, h2⟩ := openLoop_partition _ _ _ hl
  exact ⟨split, ps, hs, ht, hps, by simpa using hlen, hall, by rw [hsig, h1]; simp, by rw [hunv, h2]; simp⟩

/-- ★ `sign_open_roundtrip`.  For every valid note text `t` (UTF-8, no ASCII control character but newline,
    ends in newline — blank lines and lines that look like signature lines included), every list of at most
    100 signers with valid names whose `Sign` succeeds with a non-empty signature, and every `known` that
    answers each signer's (name, hash) either "unknown" or with a verifier of that name and hash which
    accepts the signer's signature over `t` (honest keys; no ambiguous / failing lookups), at least one
    signer being known:  `Sign` produces `t ‖ "\n" ‖ one line per signer`, and `Open` of that message
    returns exactly `t`, the signatures of known keys as verified (first per key, in signing order) and
    the signatures of unknown keys as unverified (in signing order, identical lines once). -/
theorem sign_open_roundtrip {t : Bytes} {ss : List Signer} {known : Verifiers}
    (ht : ValidText t)
    (hnames : ∀ s ∈ ss, isValidName s.name = true)
    (hcount : ss.length ≤ maxSigs)
    (hsign : ∀ s ∈ ss, ∃ x, s.sign t = some x ∧ x ≠ [])
    (hlook : ∀ s ∈ ss, ∀ x, s.sign t = some x →
      known s.name s.hash = .unknown ∨
      ∃ k, known s.name s.hash = .found k ∧ k.name = s.name ∧ k.hash = s.hash ∧ k.verify t x = true)
    (hone : ∃ s ∈ ss, ∃ k, known s.name s.hash = .found k) :
    let made := ss.filterMap (sigOfSigner t)
    Sign ⟨t, [], []⟩ ss = .ok (t ++ [10] ++ blockOf made) ∧
    Open (t ++ [10] ++ blockOf made) known = .ok ⟨t,
      dedupFrom (fun g : Signature => (g.name, g.hash)) [] (made.filter (sigKnown known)),
      dedupFrom (fun g : Signature => g.name ++ [32] ++ g.base64) [] (made.filter (sigUnknown known))⟩ := by
  refine sign_open_core ht hcount ?_ hone
  intro s hs
  obtain ⟨x, hx, hxne⟩ := hsign s hs
  exact ⟨hnames s hs, x, hx, hxne, hlook s hs x hx⟩

/-- `sign_open_roundtrip`, the documented other half of the partition: when NO signer's key is known, `Open`
    of the signed message returns UnverifiedNoteError carrying the note: the same text, no verified
    signature, every signature (identical lines once, in signing order) as unverified. -/
theorem sign_open_roundtrip_unverified {t : Bytes} {ss : List Signer} {known : Verifiers}
    (ht : ValidText t)
    (hnames : ∀ s ∈ ss, isValidName s.name = true)
    (hcount : ss.length ≤ maxSigs)
    (hsign : ∀ s ∈ ss, ∃ x, s.sign t = some x ∧ x ≠ [])
    (hunk : ∀ s ∈ ss, known s.name s.hash = .unknown)
    (hss : ss ≠ []) :
    let made := ss.filterMap (sigOfSigner t)
    Sign ⟨t, [], []⟩ ss = .ok (t ++ [10] ++ blockOf made) ∧
    Open (t ++ [10] ++ blockOf made) known = .error (.unverified ⟨t, [],
      dedupFrom (fun g : Signature => g.name ++ [32] ++ g.base64) [] made⟩) :=
  sign_open_unverified_core ht hcount (fun s hs => ⟨hnames s hs, hsign s hs⟩) hunk hss

/-- ★ `text_mutation_rejected`.  Unforgeability hypothesis: the verifiers of the known keys accept
    signatures over the signed text `t` only.  Then every message that opens — in particular every
    byte-level modification of a signed message — opens with text `t`; a message whose text part
    differs from `t` is rejected. -/
theorem text_mutation_rejected {known : Verifiers} {t : Bytes}
    (unforgeable : ∀ name hash k t' sig, known name hash = .found k → k.verify t' sig = true → t' = t)
    {msg' : Bytes} {n : Note} (h : Open msg' known = .ok n) : n.text = t := by
  obtain ⟨hne, _, hver⟩ := open_sound h
  cases hn : n.sigs with
  | nil => exact absurd hn hne
  | cons s rest =>
    obtain ⟨k, raw, hk, _, _, _, _, _, hv⟩ := hver s (by rw [hn]; exact List.mem_cons_self)
    exact unforgeable _ _ k _ _ hk hv

/-- the same, as a rejection statement about the text part of the message -/
theorem text_mutation_rejected' {known : Verifiers} {t : Bytes}
    (unforgeable : ∀ name hash k t' sig, known name hash = .found k → k.verify t' sig = true → t' = t)
    {msg' : Bytes} {split : Nat} (hs : lastIndexOf sigSplit msg' = some split)
    (hdiff : msg'.take (split + 1) ≠ t) : ∀ n, Open msg' known ≠ .ok n := by
  intro n h
  obtain ⟨split', _, _, hs', ht, _⟩ := Open_ok h
  rw [hs] at hs'
  simp only [Option.some.injEq] at hs'; subst hs'
  exact hdiff (ht ▸ text_mutation_rejected unforgeable h)

/-- ★ `verifierList_ambiguous`.  `VerifierList(list).Verifier(name, hash)` is: unknown iff no listed
    verifier has that name and hash; ambiguous iff at least two do; otherwise the unique one. -/
theorem verifierList_ambiguous (l : List Verifier) (name : Bytes) (hash : UInt32) :
    let ms := l.filter (fun v => v.name == name && v.hash == hash)
    (VerifierList l name hash = .unknown ↔ ms = []) ∧
    (VerifierList l name hash = .ambiguous ↔ 2 ≤ ms.length) ∧
    (∀ v, VerifierList l name hash = .found v → ms = [v] ∧ v ∈ l ∧ v.name = name ∧ v.hash = hash) ∧
    VerifierList l name hash ≠ .otherErr := by
  intro ms
  show (VerifierList l name hash = .unknown ↔ ms = []) ∧ _
  have hV : VerifierList l name hash =
      (match ms with | [] => .unknown | [v] => .found v | _ :: _ :: _ => .ambiguous) := rfl
  rw [hV]
  clear hV
  have hmem : ∀ v ∈ ms, v ∈ l ∧ v.name = name ∧ v.hash = hash := by
    intro v hv
    have := List.mem_filter.mp hv
    simpa using this
  generalize ms = m at hmem
  match m, hmem with
  | [], _ => simp
  | [v], hmem =>
    refine ⟨by simp, by simp, ?_, by simp⟩
    intro v' hv'
    simp only [Lookup.found.injEq] at hv'; subst hv'
    exact ⟨rfl, hmem v (by simp)⟩
  | _ :: _ :: _, _ => simp

/-- `sign_open_roundtrip` for `VerifierList`: the lookup hypotheses reduce to "no signer's key is listed
    twice" and "every listed verifier with a signer's name and hash accepts that signer's signature". -/
theorem sign_open_roundtrip_verifierList {t : Bytes} {ss : List Signer} {vs : List Verifier}
    (ht : ValidText t)
    (hnames : ∀ s ∈ ss, isValidName s.name = true)
    (hcount : ss.length ≤ maxSigs)
    (hsign : ∀ s ∈ ss, ∃ x, s.sign t = some x ∧ x ≠ [])
    (hunamb : ∀ s ∈ ss, VerifierList vs s.name s.hash ≠ .ambiguous)
    (honest : ∀ s ∈ ss, ∀ v ∈ vs, v.name = s.name → v.hash = s.hash → ∀ x, s.sign t = some x → v.verify t x = true)
    (hone : ∃ s ∈ ss, ∃ v ∈ vs, v.name = s.name ∧ v.hash = s.hash) :
    let made := ss.filterMap (sigOfSigner t)
    Sign ⟨t, [], []⟩ ss = .ok (t ++ [10] ++ blockOf made) ∧
    Open (t ++ [10] ++ blockOf made) (VerifierList vs) = .ok ⟨t,
      dedupFrom (fun g : Signature => (g.name, g.hash)) [] (made.filter (sigKnown (VerifierList vs))),
      dedupFrom (fun g : Signature => g.name ++ [32] ++ g.base64) [] (made.filter (sigUnknown (VerifierList vs)))⟩ := by
  refine sign_open_roundtrip ht hnames hcount hsign ?_ ?_
  · intro s hs x hx
    have hspec := verifierList_ambiguous vs s.name s.hash
    cases hl : VerifierList vs s.name s.hash with
    | unknown => exact Or.inl rfl
    | ambiguous => exact absurd hl (hunamb s hs)
    | otherErr => exact absurd hl hspec.2.2.2
    | found k =>
      obtain ⟨_, hmem, hn, hh⟩ := hspec.2.2.1 k hl
      exact Or.inr ⟨k, rfl, hn, hh, honest s hs k hmem hn hh x hx⟩
  · obtain ⟨s, hs, v, hv, hn, hh⟩ := hone
    have hspec := verifierList_ambiguous vs s.name s.hash
    cases hl : VerifierList vs s.name s.hash with
    | unknown =>
      have := hspec.1.mp hl
      have hm : v ∈ vs.filter (fun v => v.name == s.name && v.hash == s.hash) := by
        rw [List.mem_filter]; exact ⟨hv, by simp [hn, hh]⟩
      rw [this] at hm; cases hm
    | ambiguous => exact absurd hl (hunamb s hs)
    | otherErr => exact absurd hl hspec.2.2.2
    | found k => exact ⟨s, hs, k, hl⟩

/-- `newVerifier_binds_key` (anchor "NewVerifier/NewSigner bind key hash to name+key").  A verifier key string
    is accepted only in the form `name+hash16+base64(0x01 ‖ pub)` with a valid name, eight hex digits, a
    32-byte Ed25519 key, and `hash16` equal to the first four bytes of `sha(name ‖ "\n" ‖ 0x01 ‖ pub)`;
    the resulting verifier carries that name and hash and verifies with `pub`. -/
theorem newVerifier_binds_key {sha : Bytes → Bytes} {ed : Bytes → Bytes → Bytes → Bool} {vkey : Bytes}
    {v : Verifier} (h : NewVerifier sha ed vkey = .ok v) :
    ∃ hash16 key64 pub,
      v.name = (chop vkey [43]).1 ∧ (hash16, key64) = chop (chop vkey [43]).2 [43] ∧
      isValidName v.name = true ∧ parseHash16 hash16 = some v.hash ∧
      b64dec key64 = some (1 :: pub) ∧ pub.length = 32 ∧
      keyHash sha v.name (1 :: pub) = some v.hash ∧ v.verify = ed pub :=
  NewVerifier_ok h

/-- `newSigner_binds_key`.  A signer key string is accepted only in the form
    `PRIVATE+KEY+name+hash16+base64(0x01 ‖ seed)` with a valid name, a 32-byte seed, and `hash16` equal to the
    key hash of the PUBLIC key derived from the seed; the signer carries that name and hash — the same
    (name, hash) `NewVerifier` accepts for the matching public key. -/
theorem newSigner_binds_key {sha : Bytes → Bytes} {edPub : Bytes → Bytes} {edSign : Bytes → Bytes → Bytes}
    {skey : Bytes} {s : Signer} (h : NewSigner sha edPub edSign skey = .ok s) :
    ∃ hash16 key64 seed,
      (chop skey [43]).1 = B "PRIVATE" ∧ (chop (chop skey [43]).2 [43]).1 = B "KEY" ∧
      s.name = (chop (chop (chop skey [43]).2 [43]).2 [43]).1 ∧
      (hash16, key64) = chop (chop (chop (chop skey [43]).2 [43]).2 [43]).2 [43] ∧
      isValidName s.name = true ∧ parseHash16 hash16 = some s.hash ∧
      b64dec key64 = some (1 :: seed) ∧ seed.length = 32 ∧
      keyHash sha s.name (1 :: edPub seed) = some s.hash ∧ s.sign = fun msg => some (edSign seed msg) :=
  NewSigner_ok h

/-- An ambiguous known key makes `Open` fail: if a signature line (reached by the loop, i.e. all
    earlier lines processed without error) names an ambiguous key, no note is returned.  Stated for
    the first line. -/
theorem open_ambiguous_fails {msg : Bytes} {known : Verifiers} {split : Nat} {line : Bytes}
    {rest : List Bytes} {p : SigLine}
    (hs : lastIndexOf sigSplit msg = some split)
    (hl : sigLines (msg.drop (split + 2)) = line :: rest) (hp : parseSigLine line = some p)
    (hk : known p.name p.hash = .ambiguous) : ∀ n, Open msg known ≠ .ok n := by
  intro n h
  obtain ⟨split', st, _, hs', _, _, _, hloop, _⟩ := Open_ok h
  rw [hs] at hs'
  simp only [Option.some.injEq] at hs'; subst hs'
  rw [hl] at hloop
  obtain ⟨st1, h1, _⟩ := openLoop_cons_ok hloop
  obtain ⟨p', hp', _, _, hcase⟩ := openStep_ok h1
  rw [hp] at hp'
  simp only [Option.some.injEq] at hp'; subst hp'
  rcases hcase with ⟨hu, _⟩ | ⟨v, hv, _⟩
  · rw [hk] at hu; cases hu
  · rw [hk] at hv; cases hv

/-- `open_ok_iff`: the exact acceptance condition of `Open`, for ARBITRARY messages (converse of `open_partition` and
    `open_sound` included).  `Open msg known` returns the note `n` if and only if
    * the message is valid UTF-8 without ASCII control characters other than newline,
    * it splits at its LAST blank line into a text (ending in a newline) and a non-empty block ending in a newline,
    * every line of the block is a well-formed signature line, and there are at most 100 of them,
    * every lookup answers "unknown", or "found" with a verifier of exactly the line's name and hash
      (`LookOK`; so no ambiguous, failing or mismatching lookup),
    * the FIRST line of every known key carries a signature that key's verifier accepts over the text (`FirstVerified`;
      later lines of the same key are not examined — O4),
    * at least one line is by a known key,
    and `n` is the text together with the partition of the lines described by `open_partition`. -/
theorem open_ok_iff {msg : Bytes} {known : Verifiers} {n : Note} :
    Open msg known = .ok n ↔
      validMsg msg = true ∧ ∃ split ps, lastIndexOf sigSplit msg = some split ∧
        msg.drop (split + 2) ≠ [] ∧ (msg.drop (split + 2)).getLast? = some 10 ∧
        parseAll (sigLines (msg.drop (split + 2))) = some ps ∧ ps.length ≤ maxSigs ∧
        (∀ p ∈ ps, LookOK known p) ∧ FirstVerified known (msg.take (split + 1)) [] ps ∧
        (∃ p ∈ ps, isKnown known p = true) ∧
        n = ⟨msg.take (split + 1),
          (dedupFrom (fun p : SigLine => (p.name, p.hash)) [] (ps.filter (isKnown known))).map SigLine.toSig,
          (dedupFrom (fun p : SigLine => p.line) [] (ps.filter (isUnknown known))).map SigLine.toSig⟩ :=
  Open_ok_iff

/-- `sign_existing_roundtrip`: re-signing an opened note.  Let `n` be a note returned by `Open msg known` (it carries
    verified and possibly unverified signatures, with whatever base64 text the message had), and `ss` further signers
    with valid names whose `Sign` succeeds with a non-empty signature over `n.text`, each either unknown to `known` or
    known under its own name and hash with a verifier accepting its signature (honest keys), at most 100 signatures in
    total.  Then `Sign n ss` succeeds; the message is `n.text ‖ "
" ‖` the existing signatures of `n` whose
    (name, hash) is not that of a new signer — verified ones first, then unverified, in order, byte for byte —
    followed by one line per new signer; and `Open` of that message returns exactly `n.text`, the signatures of known
    keys as verified (first per key) and those of unknown keys as unverified (identical lines once). -/
theorem sign_existing_roundtrip {msg : Bytes} {known : Verifiers} {n : Note} {ss : List Signer}
    (hopen : Open msg known = .ok n)
    (hnames : ∀ s ∈ ss, isValidName s.name = true)
    (hcount : n.sigs.length + n.unverifiedSigs.length + ss.length ≤ maxSigs)
    (hsign : ∀ s ∈ ss, ∃ x, s.sign n.text = some x ∧ x ≠ [])
    (hlook : ∀ s ∈ ss, ∀ x, s.sign n.text = some x →
      known s.name s.hash = .unknown ∨
      ∃ k, known s.name s.hash = .found k ∧ k.name = s.name ∧ k.hash = s.hash ∧ k.verify n.text x = true) :
    let kept := (n.sigs ++ n.unverifiedSigs).filter
      (fun g => !(ss.map fun s => (s.name, s.hash)).contains (g.name, g.hash))
    let all := kept ++ ss.filterMap (sigOfSigner n.text)
    Sign n ss = .ok (n.text ++ [10] ++ blockOf all) ∧
    Open (n.text ++ [10] ++ blockOf all) known = .ok ⟨n.text,
      dedupFrom (fun g : Signature => (g.name, g.hash)) [] (all.filter (sigKnown known)),
      dedupFrom (fun g : Signature => g.name ++ [32] ++ g.base64) [] (all.filter (sigUnknown known))⟩ := by
  refine sign_existing_core hopen hcount ?_
  intro s hs
  obtain ⟨x, hx, hxne⟩ := hsign s hs
  exact ⟨hnames s hs, x, hx, hxne, hlook s hs x hx⟩

/-- Every note `Open` returns can be signed again as it is (no new signers): all its signatures are well-formed,
    its text is valid, and opening the re-written message gives the same text. -/
theorem sign_existing_no_new {msg : Bytes} {known : Verifiers} {n : Note} (hopen : Open msg known = .ok n)
    (hcount : n.sigs.length + n.unverifiedSigs.length ≤ maxSigs) :
    ∃ msg' n', Sign n [] = .ok msg' ∧ Open msg' known = .ok n' ∧ n'.text = n.text := by
  have h := sign_existing_roundtrip (ss := []) hopen (by simp) (by simpa using hcount) (by simp) (by simp)
  exact ⟨_, _, h.1, h.2, rfl⟩

/-! ## Non-vacuity: concrete instances of the hypotheses -/

namespace Ex
/-- "hi\n" -/
def t : Bytes := [104, 105, 10]
/-- a key named "a" with hash 1 whose verifier accepts exactly signature [1,2,3] over `t` -/
def vA : Verifier := ⟨[97], 1, fun x s => x == t && s == [1, 2, 3]⟩
/-- a key with the same name and hash that rejects everything -/
def vR : Verifier := ⟨[97], 1, fun _ _ => false⟩
/-- "hi\n" ‖ "\n" ‖ "— a AAAAAQECAw==\n" -/
def msg : Bytes := [104, 105, 10, 10, 226, 128, 148, 32, 97, 32, 65, 65, 65, 65, 65, 81, 69, 67, 65, 119, 61, 61, 10]
def b64 : Bytes := [65, 65, 65, 65, 65, 81, 69, 67, 65, 119, 61, 61]
def line : Bytes := [226, 128, 148, 32, 97, 32] ++ b64
def p : SigLine := ⟨[97], b64, 1, [1, 2, 3], [97, 32] ++ b64⟩
/-- "x\n\n— a AAAAAQECAw==\n": a text with a blank line followed by a line that looks like a signature -/
def t2 : Bytes := [120, 10, 10] ++ line ++ [10]
def sA : Signer := ⟨[97], 1, fun _ => some [1, 2, 3]⟩
def sB : Signer := ⟨[98], 7, fun _ => some [9]⟩
def vA2 : Verifier := ⟨[97], 1, fun x s => x == t2 && s == [1, 2, 3]⟩
def known2 : Verifiers := VerifierList [vA2]
end Ex

/-- `open_sound`: a message that opens -/
example : Open Ex.msg (VerifierList [Ex.vA]) = .ok ⟨Ex.t, [⟨[97], 1, Ex.b64⟩], []⟩ := by rfl

/-- `open_partition`: two lines by the same known key (the second one bad) and a repeated unknown line:
    only the first line of the key is verified and listed; the unknown line is listed once -/
example :
    Open (Ex.t ++ [10] ++ Ex.line ++ [10] ++ (Ex.line.dropLast.dropLast ++ [61, 61]).set 14 66 ++ [10]
            ++ (Ex.line.set 4 98) ++ [10] ++ (Ex.line.set 4 98) ++ [10]) (VerifierList [Ex.vA])
      = .ok ⟨Ex.t, [⟨[97], 1, Ex.b64⟩], [⟨[98], 1, Ex.b64⟩]⟩ := by rfl

/-- `sign_open_roundtrip`: a text with a blank line and a line that looks like a signature line
    ("x\n\n— a AAAAAQECAw==\n"), two signers (one known, one unknown) satisfy every hypothesis -/
example :
    ValidText Ex.t2 ∧ (∀ s ∈ [Ex.sA, Ex.sB], isValidName s.name = true) ∧ [Ex.sA, Ex.sB].length ≤ maxSigs ∧
    (∀ s ∈ [Ex.sA, Ex.sB], ∃ x, s.sign Ex.t2 = some x ∧ x ≠ []) ∧
    (∀ s ∈ [Ex.sA, Ex.sB], ∀ x, s.sign Ex.t2 = some x →
      Ex.known2 s.name s.hash = .unknown ∨
      ∃ k, Ex.known2 s.name s.hash = .found k ∧ k.name = s.name ∧ k.hash = s.hash ∧ k.verify Ex.t2 x = true) ∧
    (∃ s ∈ [Ex.sA, Ex.sB], ∃ k, Ex.known2 s.name s.hash = .found k) := by
  refine ⟨⟨by decide +kernel, by decide +kernel⟩, ?_, by decide, ?_, ?_, ?_⟩
  · intro s hs
    simp only [List.mem_cons, List.not_mem_nil, or_false] at hs
    rcases hs with rfl | rfl <;> rfl
  · intro s hs
    simp only [List.mem_cons, List.not_mem_nil, or_false] at hs
    rcases hs with rfl | rfl
    · exact ⟨[1, 2, 3], rfl, by simp⟩
    · exact ⟨[9], rfl, by simp⟩
  · intro s hs x hx
    simp only [List.mem_cons, List.not_mem_nil, or_false] at hs
    rcases hs with rfl | rfl
    · right
      have : x = [1, 2, 3] := by simpa [Ex.sA] using hx.symm
      subst this
      exact ⟨Ex.vA2, by rfl, rfl, rfl, by rfl⟩
    · left; rfl
  · exact ⟨Ex.sA, List.mem_cons_self, Ex.vA2, by rfl⟩

/-- and the round trip itself, evaluated: the text (with its embedded blank line and signature-like line) comes back -/
example : (Sign ⟨Ex.t2, [], []⟩ [Ex.sA, Ex.sB]).toOption.map (fun m => (Open m Ex.known2).toOption.map (·.text))
    = some (some Ex.t2) := by rfl

/-- `sign_open_roundtrip_unverified`: the same signers against an empty verifier list -/
example : (∀ s ∈ [Ex.sA, Ex.sB], VerifierList [] s.name s.hash = .unknown) ∧ [Ex.sA, Ex.sB] ≠ [] :=
  ⟨fun _ _ => rfl, by simp⟩

/-- `open_bad_known_sig_fails`: the same message against a key that rejects -/
example : lastIndexOf sigSplit Ex.msg = some 2 ∧
    (sigLines (Ex.msg.drop (2 + 2)))[0]? = some Ex.line ∧ parseSigLine Ex.line = some Ex.p ∧
    (∀ j, j < 0 → ∀ lj pj, (sigLines (Ex.msg.drop (2 + 2)))[j]? = some lj →
      parseSigLine lj = some pj → (pj.name, pj.hash) ≠ (Ex.p.name, Ex.p.hash)) ∧
    VerifierList [Ex.vR] Ex.p.name Ex.p.hash = .found Ex.vR ∧
    Ex.vR.verify (Ex.msg.take (2 + 1)) Ex.p.sig = false :=
  ⟨by rfl, by rfl, by rfl, fun j hj => absurd hj (Nat.not_lt_zero j), by rfl, by rfl⟩

/-- `text_mutation_rejected`: the key `vA` is unforgeable for `t` (it accepts only `t`), and a message opens -/
example : (∀ name hash k t' sig, VerifierList [Ex.vA] name hash = .found k → k.verify t' sig = true → t' = Ex.t) ∧
    ∃ n, Open Ex.msg (VerifierList [Ex.vA]) = .ok n := by
  refine ⟨?_, _, by rfl⟩
  intro name hash k t' sig hk hv
  obtain ⟨_, hmem, _⟩ := (verifierList_ambiguous [Ex.vA] name hash).2.2.1 k hk
  simp only [List.mem_singleton] at hmem
  subst hmem
  simp only [Ex.vA, Bool.and_eq_true, beq_iff_eq] at hv
  exact hv.1

/-- `text_mutation_rejected'`: a modified message ("hj\n" instead of "hi\n") that still splits -/
example : lastIndexOf sigSplit (Ex.msg.set 1 106) = some 2 ∧ (Ex.msg.set 1 106).take (2 + 1) ≠ Ex.t :=
  ⟨by rfl, by decide⟩

/-- `verifierList_ambiguous`: a list naming one key twice is ambiguous; Open then fails -/
example : VerifierList [Ex.vA, Ex.vR] [97] 1 = .ambiguous := by rfl

/-- `open_ambiguous_fails`: hypotheses hold for the example message and the ambiguous list -/
example : lastIndexOf sigSplit Ex.msg = some 2 ∧
    sigLines (Ex.msg.drop (2 + 2)) = Ex.line :: [] ∧ parseSigLine Ex.line = some Ex.p ∧
    VerifierList [Ex.vA, Ex.vR] Ex.p.name Ex.p.hash = .ambiguous :=
  ⟨by rfl, by rfl, by rfl, by rfl⟩

/-- `newVerifier_binds_key`: an accepted key string (with a toy `sha` returning 00 00 00 01):
    "a+00000001+" ‖ base64(0x01 ‖ 32 zero bytes) -/
example : (NewVerifier (fun _ => [0, 0, 0, 1]) (fun _ _ _ => true)
      ([97, 43, 48, 48, 48, 48, 48, 48, 48, 49, 43] ++ b64enc (1 :: List.replicate 32 0))).toOption.map
        (fun v => (v.name, v.hash)) = some ([97], 1) := by rfl

/-- `newSigner_binds_key`: an accepted key string "PRIVATE+KEY+a+00000001+" ‖ base64(0x01 ‖ 32 bytes) -/
example : (NewSigner (fun _ => [0, 0, 0, 1]) (fun _ => List.replicate 32 0) (fun _ _ => [])
      ([80, 82, 73, 86, 65, 84, 69, 43, 75, 69, 89, 43, 97, 43, 48, 48, 48, 48, 48, 48, 48, 49, 43] ++
        b64enc (1 :: List.replicate 32 7))).toOption.map (fun s => (s.name, s.hash)) = some ([97], 1) := by decide +kernel

/-- `open_ok_iff` / `sign_existing_roundtrip`: the example message opens; a further (unknown) signer "b" satisfies the
    hypotheses for re-signing the opened note -/
example : ∃ n, Open Ex.msg (VerifierList [Ex.vA]) = .ok n ∧
    (∀ s ∈ [Ex.sB], isValidName s.name = true) ∧ n.sigs.length + n.unverifiedSigs.length + [Ex.sB].length ≤ maxSigs ∧
    (∀ s ∈ [Ex.sB], ∃ x, s.sign n.text = some x ∧ x ≠ []) ∧
    (∀ s ∈ [Ex.sB], ∀ x, s.sign n.text = some x → VerifierList [Ex.vA] s.name s.hash = .unknown ∨
      ∃ k, VerifierList [Ex.vA] s.name s.hash = .found k ∧ k.name = s.name ∧ k.hash = s.hash ∧ k.verify n.text x = true) := by
  refine ⟨_, by rfl, ?_, by decide, ?_, ?_⟩
  · intro s hs; simp only [List.mem_singleton] at hs; subst hs; rfl
  · intro s hs; simp only [List.mem_singleton] at hs; subst hs; exact ⟨[9], rfl, by simp⟩
  · intro s hs x _; simp only [List.mem_singleton] at hs; subst hs; left; rfl

/-- … and evaluated: the re-signed message keeps the existing line byte for byte, appends the new one, and opens to the
    same text with the old signature verified and the new one unverified -/
example : (Sign ⟨Ex.t, [⟨[97], 1, Ex.b64⟩], []⟩ [Ex.sB]).toOption.map (fun m => (Open m (VerifierList [Ex.vA])).toOption)
    = some (some ⟨Ex.t, [⟨[97], 1, Ex.b64⟩], [⟨[98], 7, b64enc (putU32 7 ++ [9])⟩]⟩) := by decide +kernel

end ModVerif.Props.C07
