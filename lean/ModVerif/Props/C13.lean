/-
  C13 — the client follows one consistent timeline of signed tree heads.
  Property theorems only; the inductive invariant and the step lemmas are in ModVerif/Proofs/ClientLatestInv.lean.

  Machine: Model/ClientLatest.lean — `mergeLatest` / `mergeLatestMem` / the configuration compare-and-swap loop for ANY
  number of goroutines and ANY number of clients (a restart is a new client) sharing the stored head, every interleaving,
  hostile server allowed.  The verification layer enters through `Sound`: `le` is the prefix order on tree heads and an
  `ok` answer of `checkTrees(older, newer)` implies `older ≤ newer` (what C03/C10 deliver under collision freedom).
-/
import ModVerif.Proofs.ClientLatestInv
import ModVerif.Proofs.ClientAuth
import ModVerif.Proofs.ClientMoreFork
import ModVerif.Proofs.ClientMoreMax
import ModVerif.Props.C01
namespace ModVerif.Props.C13
open ModVerif ModVerif.ClientLatest

variable {M T : Type} [DecidableEq M] [DecidableEq T]

/-- the successive stored values: `writes` (newest first) is a chain of compare-and-swaps that starts at the initial
value `c0` and ends at the current value -/
def HistOK (c0 : Option M) : List (Option M × Option M) → Option M → Prop
  | [], cur => cur = c0
  | w :: rest, cur => cur = w.2 ∧ HistOK c0 rest w.1

/-- ★ **The in-memory head and the stored head only ever move forward along `le`** — along any continuation of any
reachable state, for every client, whatever the server and the other clients do. -/
theorem latest_monotone (P : Params M T) (le : T → T → Prop) (hS : Sound P le) (cl : Nat → Nat) (presented : Nat → Option M)
    (priv : Nat → Bool) (c0 : Option M) :
    ∀ (sched : List (Nat × Res)) (s s' : St M T), Reachable P cl presented priv c0 s →
      run P cl presented priv s sched = some s' →
      (∀ c, le (s.latest c) (s'.latest c)) ∧ le (cfgTree P s.config) (cfgTree P s'.config) := by
  intro sched
  induction sched with
  | nil => intro s s' _ hr; simp [run] at hr; subst hr; exact ⟨fun c => hS.refl _, hS.refl _⟩
  | cons x rest ih =>
    intro s s' h hr
    obtain ⟨t, r⟩ := x
    simp only [run] at hr
    cases hs : step P cl presented priv s t r with
    | none => simp [hs] at hr
    | some s1 =>
      simp [hs] at hr
      have hI := inv_reachable P le hS cl presented priv c0 s h
      obtain ⟨h1, h2⟩ := ih s1 s' (Reachable.step t r h hs) hr
      refine ⟨fun c => hS.trans _ _ _ (step_latest_mono P le hS cl presented priv s s1 t r hI hs c) (h1 c), ?_⟩
      rcases step_config P le hS cl presented priv s s1 t r hI hs with ⟨e, _⟩ | ⟨_, _, _, hle⟩
      · rw [← e]; exact h2
      · exact hS.trans _ _ _ hle h2

/-- … so the tree size never decreases (given that a prefix is not larger). -/
theorem latest_size_monotone (P : Params M T) (le : T → T → Prop) (hS : Sound P le) (hsz : ∀ a b, le a b → P.size a ≤ P.size b)
    (cl : Nat → Nat) (presented : Nat → Option M) (priv : Nat → Bool) (c0 : Option M)
    (sched : List (Nat × Res)) (s s' : St M T) (h : Reachable P cl presented priv c0 s)
    (hr : run P cl presented priv s sched = some s') :
    (∀ c, P.size (s.latest c) ≤ P.size (s'.latest c)) ∧ P.size (cfgTree P s.config) ≤ P.size (cfgTree P s'.config) := by
  obtain ⟨h1, h2⟩ := latest_monotone P le hS cl presented priv c0 sched s s' h hr
  exact ⟨fun c => hsz _ _ (h1 c), hsz _ _ h2⟩

/-- ★ **The stored head is only ever changed by a compare-and-swap from its current value to a head that contains it**,
across clients and restarts: in every reachable state the recorded writes form one chain from the initial value to the
current one, and every write goes up in `le`. -/
theorem config_cas_safe (P : Params M T) (le : T → T → Prop) (hS : Sound P le) (cl : Nat → Nat) (presented : Nat → Option M)
    (priv : Nat → Bool) (c0 : Option M) (s : St M T) (h : Reachable P cl presented priv c0 s) :
    HistOK c0 s.writes s.config ∧ ∀ w ∈ s.writes, le (cfgTree P w.1) (cfgTree P w.2) := by
  refine ⟨?_, (inv_reachable P le hS cl presented priv c0 s h).writes_up⟩
  induction h with
  | init => simp [init, HistOK]
  | step t r hreach hs ih =>
    have hI := inv_reachable P le hS cl presented priv c0 _ hreach
    rcases step_config P le hS cl presented priv _ _ t r hI hs with ⟨e1, e2⟩ | ⟨_, _, e2, _⟩
    · rw [e1, e2]; exact ih
    · rw [e2]; exact ⟨rfl, ih⟩

/-- ★ **A detected fork changes nothing and is reported with both signed heads** (step form): when `checkTrees` answers
`fork`, the stored head, every in-memory head and the write history are unchanged, the thread ends with the security
error, and `SecurityError` receives exactly the two notes that were compared, older first. -/
theorem fork_rejected (P : Params M T) (le : T → T → Prop) (hS : Sound P le) (cl : Nat → Nat) (presented : Nat → Option M)
    (priv : Nat → Bool) (c0 : Option M) (s s' : St M T) (t : Nat) (o : Outer)
    (h : Reachable P cl presented priv c0 s) (hpc : (s.th t).pc = .memCheck o)
    (hs : step P cl presented priv s t .fork = some s') :
    s'.config = s.config ∧ s'.latest = s.latest ∧ s'.latestMsg = s.latestMsg ∧ s'.writes = s.writes ∧
    (s'.th t).pc = .done .security ∧
    ∃ older newer, s'.sec = (t, older, newer) :: s.sec ∧ Res.fork ∈ P.chk (cfgTree P older) (cfgTree P newer) ∧
      ((older = (s.th t).msg ∧ newer = (s.th t).latestMsg) ∨ (older = (s.th t).latestMsg ∧ newer = (s.th t).msg)) :=
  step_fork P le cl presented priv s s' t o (inv_reachable P le hS cl presented priv c0 s h) hpc hs

/-- ★ **Whenever a failure is reported as a security error, the callback received both signed heads**: a thread that ended
with the security error has a `SecurityError` call on record, and every recorded call carries two notes whose trees
`checkTrees` found inconsistent. -/
theorem security_error_has_both_heads (P : Params M T) (le : T → T → Prop) (hS : Sound P le) (cl : Nat → Nat)
    (presented : Nat → Option M) (priv : Nat → Bool) (c0 : Option M) (s : St M T) (h : Reachable P cl presented priv c0 s) :
    (∀ t, (s.th t).pc = .done .security → ∃ a b, (t, a, b) ∈ s.sec) ∧
    (∀ e ∈ s.sec, Res.fork ∈ P.chk (cfgTree P e.2.1) (cfgTree P e.2.2)) := by
  have hI := inv_reachable P le hS cl presented priv c0 s h
  exact ⟨fun t ht => hasSec_mem _ t (hI.sec_done t ht), hI.sec_fork⟩

/-- **Every accepted head lies on the client's chain**: a `mergeLatest(m)` that returned success has `tree(m) ≤ latest`. -/
theorem accepted_on_chain (P : Params M T) (le : T → T → Prop) (hS : Sound P le) (cl : Nat → Nat)
    (presented : Nat → Option M) (priv : Nat → Bool) (c0 : Option M) (s : St M T) (h : Reachable P cl presented priv c0 s)
    (t : Nat) (m : M) (pt : T) (hm : presented t = some m) (hp : P.parse m = some pt) (hd : (s.th t).pc = .done .ok) :
    le pt (s.latest (cl t)) :=
  (inv_reachable P le hS cl presented priv c0 s h).accepted t m pt hm hp (by simp [PastFirst, hd])

/-- ★ **A presented tree that is inconsistent with the client's IN-MEMORY head is never accepted** (no hypothesis on
the run): if in some reachable state the tree of the message presented to thread `t` is incomparable with `latest` of its
client, then in no continuation does `t`'s `mergeLatest` return success (so the lookup depending on it fails).
`hlin` says that two prefixes of one tree are comparable (heads below a common head lie on one log).
The clause of C13 about the client's STORED head is `fork_rejected_stored` below; it needs a hypothesis on the run,
because the in-memory head of a long-lived instance can itself have left the stored head's log — see
`C13_violated_no_rollback_after_failed_reconciliation`. -/
theorem fork_rejected_in_memory (P : Params M T) (le : T → T → Prop) (hS : Sound P le)
    (hlin : ∀ a b c, le a c → le b c → le a b ∨ le b a)
    (cl : Nat → Nat) (presented : Nat → Option M) (priv : Nat → Bool) (c0 : Option M)
    (sched : List (Nat × Res)) (s s' : St M T) (h : Reachable P cl presented priv c0 s)
    (hr : run P cl presented priv s sched = some s')
    (t : Nat) (m : M) (pt : T) (hm : presented t = some m) (hp : P.parse m = some pt)
    (hinc : ¬ le pt (s.latest (cl t)) ∧ ¬ le (s.latest (cl t)) pt) :
    (s'.th t).pc ≠ .done .ok := by
  intro hd
  have hreach' := run_reachable P cl presented priv c0 sched s s' h hr
  have h1 := accepted_on_chain P le hS cl presented priv c0 s' hreach' t m pt hm hp hd
  have h2 := (latest_monotone P le hS cl presented priv c0 sched s s' h hr).1 (cl t)
  rcases hlin _ _ _ h1 h2 with h3 | h3
  · exact hinc.1 h3
  · exact hinc.2 h3

/-- ★ **A presented tree that is inconsistent with the client's STORED head is never accepted — in every run without a
failed reconciliation.**  The hypothesis that excludes the recorded finding is a predicate on the schedule,
`cleanRun` (Proofs/ClientMoreFork.lean): no step takes a goroutine from inside the flush loop of `mergeLatest` — i.e. after
it advanced the in-memory head, while it reconciles with the configuration — to an error return; in other words, the
in-memory head was never advanced by a lookup whose reconciliation failed.  Under it, for ANY server and any number of
clients and goroutines: if at some point of the run the tree presented to goroutine `t` is incomparable with the stored
head, then `t` has not returned success at any later point at which its client has no reconciliation under way
(`hquiet`; while one is pending the in-memory head is ahead of what was reconciled, and that pending goroutine can then
only fail — which `cleanRun` excludes — or keep running: see the example `pending_reconciliation_accepts` below).
`hzero`: the only tree of size 0 is the empty tree; `heq`: a prefix of the same size is the same tree; `hlin`: two
prefixes of one tree are comparable.  The conclusion is the contrapositive of "every accepted head is a prefix of the
stored head" (`accepted_below_stored`). -/
theorem fork_rejected_stored (P : Params M T) (le : T → T → Prop) (hS : Sound P le)
    (hlin : ∀ a b c, le a c → le b c → le a b ∨ le b a)
    (hzero : ∀ a, P.size a = 0 → le a P.zero) (heq : ∀ a b, le a b → P.size b ≤ P.size a → le b a)
    (cl : Nat → Nat) (presented : Nat → Option M) (priv : Nat → Bool) (c0 : Option M)
    (sched1 sched2 : List (Nat × Res)) (s s' : St M T)
    (hr1 : run P cl presented priv (init P c0) sched1 = some s)
    (hr2 : run P cl presented priv s sched2 = some s')
    (hclean : cleanRun P cl presented priv (init P c0) (sched1 ++ sched2) = true)
    (t : Nat) (m : M) (pt : T) (hm : presented t = some m) (hp : P.parse m = some pt)
    (hinc : ¬ le pt (cfgTree P s.config) ∧ ¬ le (cfgTree P s.config) pt)
    (hquiet : ∀ t', cl t' = cl t → inFlush (s'.th t').pc = false) :
    (s'.th t).pc ≠ .done .ok := by
  intro hd
  obtain ⟨hc1, hc2⟩ := cleanRun_append P cl presented priv sched1 sched2 _ s hr1 hclean
  have hcr : CReachable P cl presented priv c0 s :=
    cleanRun_creachable P cl presented priv c0 sched1 _ s CReachable.init hc1 hr1
  have hcr' : CReachable P cl presented priv c0 s' := cleanRun_creachable P cl presented priv c0 sched2 s s' hcr hc2 hr2
  obtain ⟨h1, h2⟩ := accepted_below_stored P le hS hzero heq cl presented priv c0 s' hcr' t m pt hm hp hd hquiet
  have h3 := (latest_monotone P le hS cl presented priv c0 sched2 s s' hcr.reachable hr2).2
  rcases hlin _ _ _ (hS.trans _ _ _ h1 h2) h3 with h4 | h4
  · exact hinc.1 h4
  · exact hinc.2 h4

/-- The positive form: in a run without a failed reconciliation every accepted head is a prefix of the in-memory head,
which is a prefix of the stored head whenever the client has no reconciliation under way. -/
theorem accepted_on_stored_chain (P : Params M T) (le : T → T → Prop) (hS : Sound P le)
    (hzero : ∀ a, P.size a = 0 → le a P.zero) (heq : ∀ a b, le a b → P.size b ≤ P.size a → le b a)
    (cl : Nat → Nat) (presented : Nat → Option M) (priv : Nat → Bool) (c0 : Option M)
    (sched : List (Nat × Res)) (s : St M T)
    (hr : run P cl presented priv (init P c0) sched = some s)
    (hclean : cleanRun P cl presented priv (init P c0) sched = true)
    (t : Nat) (m : M) (pt : T) (hm : presented t = some m) (hp : P.parse m = some pt) (hd : (s.th t).pc = .done .ok)
    (hquiet : ∀ t', cl t' = cl t → inFlush (s.th t').pc = false) :
    le pt (s.latest (cl t)) ∧ le (s.latest (cl t)) (cfgTree P s.config) :=
  accepted_below_stored P le hS hzero heq cl presented priv c0 s
    (cleanRun_creachable P cl presented priv c0 sched _ s CReachable.init hclean hr) t m pt hm hp hd hquiet

/-! ## Non-vacuity and the no-rollback witness, on the concrete two-log instance `forkParams 3`
(logs A and B share their first 3 records). -/

def exLe (a b : Head) : Prop := forkLe 3 a b = true

/-- `Sound` is satisfiable: the honest and the hostile two-log instances satisfy it. -/
theorem forkParams_sound (hostile : Bool) : Sound (forkParams 3 hostile) exLe := by
  constructor
  · intro a; simp [exLe, forkLe]
  · intro a b c; simp only [exLe, forkLe, Bool.and_eq_true, Bool.or_eq_true, decide_eq_true_eq, beq_iff_eq]; omega
  · intro a; simp [exLe, forkLe, forkParams]
  · intro a b; cases hostile <;> simp only [forkParams, exLe] <;> by_cases h : forkLe 3 a b = true <;> simp [h]

def exCl : Nat → Nat := fun t => if t = 0 then 0 else 1
def exPresented : Nat → Option Head := fun t =>
  if t = 0 then some (0, 5) else if t = 1 then some (0, 3) else some (1, 4)
def exPriv : Nat → Bool := fun t => t = 9

/-- client 1 starts at the common prefix A@3 (thread 1); another process moves the stored head to A@5 (thread 0, client 0);
a hostile server shows client 1 the signed B@4 and withholds A's tiles (thread 2: installs B@4 in memory, reads the
configuration, cannot check A@5 against B@4 → error); a later lookup on B@4 (thread 3) succeeds. -/
def exSchedule : List (Nat × Res) :=
  [(1, .ok), (1, .ok), (1, .ok), (1, .ok), (1, .ok), (1, .ok), (1, .ok), (1, .ok),
   (0, .ok), (0, .ok), (0, .ok), (0, .ok), (0, .ok), (0, .ok), (0, .ok), (0, .ok), (0, .ok), (0, .ok),
   (2, .ok), (2, .ok), (2, .ok), (2, .ok), (2, .ok), (2, .ok), (2, .ok), (2, .error),
   (3, .ok), (3, .ok), (3, .ok), (3, .ok)]

def exFinal : Option (St Head Head) :=
  run (forkParams 3 true) exCl exPresented exPriv (init (forkParams 3 true) (some (0, 3))) exSchedule

/-- **Known finding (no rollback after a failed reconciliation).**  On the faithful model there is a reachable state in
which: the lookup of thread 3 has been ACCEPTED on the tree B@4, the in-memory head of client 1 is B@4, the stored head
is A@5 — mutually inconsistent —, the stored head was never moved to B, and no `SecurityError` was ever raised.
(`mergeLatest` installs the presented head in memory before reconciling with the configuration and does not roll back
when the reconciliation fails.)  So the unrestricted form of `fork_rejected_stored` — without the hypothesis `cleanRun` on the
schedule — is false: step 26 of `exSchedule` is a failed reconciliation (`exSchedule_not_clean`). -/
theorem C13_violated_no_rollback_after_failed_reconciliation :
    ∃ s, Reachable (forkParams 3 true) exCl exPresented exPriv (some (0, 3)) s ∧
      (s.th 3).pc = .done .ok ∧ (s.th 2).pc = .done .err ∧ s.sec = [] ∧
      s.latest 1 = (1, 4) ∧ s.config = some (0, 5) ∧ s.writes = [(some (0, 3), some (0, 5))] ∧
      forkLe 3 (1, 4) (0, 5) = false ∧ forkLe 3 (0, 5) (1, 4) = false := by
  have hrun : ∃ s, exFinal = some s := by
    unfold exFinal; exact Option.isSome_iff_exists.mp (by decide)
  obtain ⟨s, hs⟩ := hrun
  refine ⟨s, run_reachable _ _ _ _ _ exSchedule _ s Reachable.init hs, ?_⟩
  have key : (exFinal.map fun s => ((s.th 3).pc, (s.th 2).pc, s.sec, s.latest 1, s.config, s.writes)) =
      some (.done .ok, .done .err, [], (1, 4), some (0, 5), [(some (0, 3), some (0, 5))]) := by rfl
  rw [hs] at key
  simp only [Option.map_some, Option.some.injEq, Prod.mk.injEq] at key
  obtain ⟨k1, k2, k3, k4, k5, k6⟩ := key
  exact ⟨k1, k2, k3, k4, k5, k6, by decide, by decide⟩

/-- non-vacuity of `fork_rejected_in_memory`'s hypotheses: after thread 0 moved client 0 to A@5, the head B@4 is
incomparable with its in-memory head, and `forkLe` is linear below any head. -/
example : ¬ exLe (1, 4) (0, 5) ∧ ¬ exLe (0, 5) (1, 4) := by simp [exLe, forkLe]

/-- the honest instance detects the same fork and reports both heads: client at A@5 shown B@4 -/
example : ((run (forkParams 3 false) (fun _ => 0) (fun t => if t = 0 then some (0, 5) else some (1, 4)) (fun _ => false)
      (init (forkParams 3 false) none)
      [(0, .ok), (0, .ok), (0, .ok), (0, .ok), (0, .ok), (0, .ok), (0, .ok), (0, .ok), (0, .ok),
       (1, .ok), (1, .ok), (1, .ok), (1, .fork)]).map
      fun s => ((s.th 1).pc, s.sec, s.config, s.latest 0)) =
    some (.done .security, [(1, some (1, 4), some (0, 5))], some (0, 5), (0, 5)) := by rfl


/-- the schedule of the recorded finding is NOT clean: its 26th step is goroutine 2 failing inside the flush loop -/
theorem exSchedule_not_clean :
    cleanRun (forkParams 3 true) exCl exPresented exPriv (init (forkParams 3 true) (some (0, 3))) exSchedule = false := by
  rfl

/-- … while the same schedule cut before that step is clean (so `cleanRun` excludes exactly the failed reconciliation) -/
example : cleanRun (forkParams 3 true) exCl exPresented exPriv (init (forkParams 3 true) (some (0, 3)))
    (exSchedule.take 25) = true := by rfl

/-- the order hypotheses of `fork_rejected_stored` hold in the two-log instance -/
theorem exLe_hyps : (∀ a b c, exLe a c → exLe b c → exLe a b ∨ exLe b a) ∧
    (∀ a, (forkParams 3 true).size a = 0 → exLe a (forkParams 3 true).zero) ∧
    (∀ a b, exLe a b → (forkParams 3 true).size b ≤ (forkParams 3 true).size a → exLe b a) := by
  refine ⟨?_, ?_, ?_⟩
  · intro a b c; simp only [exLe, forkLe, Bool.and_eq_true, Bool.or_eq_true, decide_eq_true_eq, beq_iff_eq]; omega
  · intro a; simp only [exLe, forkLe, forkParams, Bool.and_eq_true, Bool.or_eq_true, decide_eq_true_eq, beq_iff_eq]; omega
  · intro a b; simp only [exLe, forkLe, forkParams, Bool.and_eq_true, Bool.or_eq_true, decide_eq_true_eq, beq_iff_eq]; omega

/-- non-vacuity of `fork_rejected_stored`: a hostile server, client 0; goroutine 0 brings the stored head to A@5
(`sched1`), then goroutine 1 is shown B@4, which is incomparable with the stored head; the fork is detected in the
first `mergeLatestMem` (`sched2`), nothing is pending afterwards, the whole schedule is clean — and goroutine 1 has
not returned success. -/
def nvSched1 : List (Nat × Res) := List.replicate 9 (0, .ok)
def nvSched2 : List (Nat × Res) := [(1, .ok), (1, .ok), (1, .ok), (1, .fork)]
def nvPresented : Nat → Option Head := fun t => if t = 0 then some (0, 5) else some (1, 4)

example : ∃ s s', run (forkParams 3 true) (fun _ => 0) nvPresented (fun _ => false) (init (forkParams 3 true) none) nvSched1 = some s ∧
    run (forkParams 3 true) (fun _ => 0) nvPresented (fun _ => false) s nvSched2 = some s' ∧
    cleanRun (forkParams 3 true) (fun _ => 0) nvPresented (fun _ => false) (init (forkParams 3 true) none) (nvSched1 ++ nvSched2) = true ∧
    (¬ exLe (1, 4) (cfgTree (forkParams 3 true) s.config) ∧ ¬ exLe (cfgTree (forkParams 3 true) s.config) (1, 4)) ∧
    (∀ t', inFlush (s'.th t').pc = false) ∧ (s'.th 1).pc = .done .security := by
  have h1 : ∃ s, run (forkParams 3 true) (fun _ => 0) nvPresented (fun _ => false) (init (forkParams 3 true) none) nvSched1 = some s :=
    Option.isSome_iff_exists.mp (by decide)
  obtain ⟨s, hs⟩ := h1
  have h2 : ∃ s', run (forkParams 3 true) (fun _ => 0) nvPresented (fun _ => false) (init (forkParams 3 true) none) (nvSched1 ++ nvSched2) = some s' :=
    Option.isSome_iff_exists.mp (by decide)
  obtain ⟨s', hs'⟩ := h2
  have hs2 : run (forkParams 3 true) (fun _ => 0) nvPresented (fun _ => false) s nvSched2 = some s' := by
    have k : (run (forkParams 3 true) (fun _ => 0) nvPresented (fun _ => false) (init (forkParams 3 true) none) nvSched1).bind
        (fun s => run (forkParams 3 true) (fun _ => 0) nvPresented (fun _ => false) s nvSched2) =
        run (forkParams 3 true) (fun _ => 0) nvPresented (fun _ => false) (init (forkParams 3 true) none) (nvSched1 ++ nvSched2) := by rfl
    rw [hs, hs'] at k; simpa using k
  have kc : (run (forkParams 3 true) (fun _ => 0) nvPresented (fun _ => false) (init (forkParams 3 true) none) nvSched1).map (·.config) =
      some (some (0, 5)) := by rfl
  rw [hs] at kc
  simp only [Option.map_some, Option.some.injEq] at kc
  have kp : (run (forkParams 3 true) (fun _ => 0) nvPresented (fun _ => false) (init (forkParams 3 true) none) (nvSched1 ++ nvSched2)).map
      (fun s => ((s.th 0).pc, (s.th 1).pc)) = some (.done .ok, .done .security) := by rfl
  rw [hs'] at kp
  simp only [Option.map_some, Option.some.injEq, Prod.mk.injEq] at kp
  refine ⟨s, s', hs, hs2, by rfl, ?_, ?_, kp.2⟩
  · rw [kc]; simp [exLe, forkLe, cfgTree, forkParams]
  · intro t'
    by_cases h : ∃ x ∈ nvSched1 ++ nvSched2, x.1 = t'
    · obtain ⟨x, hx, rfl⟩ := h
      have : x.1 = 0 ∨ x.1 = 1 := by
        simp only [nvSched1, nvSched2, List.mem_append, List.mem_replicate, List.mem_cons, List.not_mem_nil, or_false] at hx
        rcases hx with ⟨_, rfl⟩ | rfl | rfl | rfl | rfl <;> simp
      rcases this with e | e <;> rw [e]
      · rw [kp.1]; rfl
      · rw [kp.2]; rfl
    · rw [run_th_frame _ _ _ _ (nvSched1 ++ nvSched2) _ s' t' (fun x hx e => h ⟨x, hx, e⟩) hs']
      rfl

/-- why `hquiet` is needed (the same finding seen from a second goroutine): the stored head is A@5; goroutine 1 of a
fresh client is shown B@4, installs it in memory and is about to read the configuration; goroutine 2 of the same client
is shown B@4, finds it equal to the in-memory head and RETURNS SUCCESS — the run is clean so far.  Goroutine 1's
`checkTrees(B@4, A@5)` can then only answer `fork` or fail. -/
theorem pending_reconciliation_accepts :
    ((run (forkParams 3 true) (fun _ => 1) (fun _ => some (1, 4)) (fun _ => false) (init (forkParams 3 true) (some (0, 5)))
      (List.replicate 5 (1, .ok) ++ List.replicate 4 (2, .ok))).map
      fun s => ((s.th 1).pc, (s.th 2).pc, s.latest 1, s.config)) = some (.readConfig, .done .ok, (1, 4), some (0, 5)) ∧
    cleanRun (forkParams 3 true) (fun _ => 1) (fun _ => some (1, 4)) (fun _ => false) (init (forkParams 3 true) (some (0, 5)))
      (List.replicate 5 (1, .ok) ++ List.replicate 4 (2, .ok)) = true ∧
    Res.ok ∉ (forkParams 3 true).chk (1, 4) (0, 5) := by
  refine ⟨by rfl, by rfl, by decide⟩


/-! ## The verification layer instantiated with the sequential client model (Model/Client.lean)

The hypothesis `Sound.chk_ok` ("an `ok` of `checkTrees(older, newer)` implies that `older` is a prefix of `newer`") is
discharged for the client's own `checkTrees` — C07 + C09 + C10 composed in Proofs/ClientAuth.lean — so the theorems
above hold unconditionally (collision freedom of NodeHash) for the machine whose `parse` is `note.Open` + `ParseTree`
under the client's verifier list and whose `chk older newer` contains `ok` only if SOME state of SOME run of the
environment makes the model's `checkTrees older newer` return nil. -/

section client
open ModVerif.Client
variable {σ H : Type} [DecidableEq H]

/-- `a` is a prefix head of `b` with respect to the log `D`: not larger, and a head of `D` whenever `b` is one -/
def headLe (P : Client.Params H) (D : List Bytes) (a b : Head H) : Prop :=
  a.n ≤ b.n ∧ (IsHead P D b → IsHead P D a)

open Classical in
/-- the latest-head machine over the client model's verification layer -/
noncomputable def clientParams (P : Client.Params H) (E : Env σ) (vs : List Note.Verifier) :
    ClientLatest.Params Bytes (Head H) :=
  { parse := fun m => match openTree P vs m with
      | .ok t => some t
      | .error _ => none
    size := fun t => t.n
    zero := ⟨0, P.empty⟩
    chk := fun a b =>
      (if a.n ≤ b.n ∧ ∃ (w : World σ H) (o1 o2 : Bytes), (checkTrees P E w a o1 b o2).1 = .ok () then [Res.ok] else []) ++
        [Res.fork, Res.error] }

/-- ★ `Sound` holds for the client model's verification layer, for every environment -/
theorem client_sound (P : Client.Params H) (D : List Bytes) (hD : D.length < 2 ^ 62)
    (hnode : ∀ a b c d : H, P.node a b = P.node c d → a = c ∧ b = d) (E : Env σ) (vs : List Note.Verifier) :
    Sound (clientParams P E vs) (headLe P D) := by
  constructor
  · intro a; exact ⟨Nat.le_refl _, id⟩
  · intro a b c h1 h2; exact ⟨Nat.le_trans h1.1 h2.1, fun h => h1.2 (h2.2 h)⟩
  · intro a; exact ⟨Nat.zero_le _, fun _ => isHead_zero P D⟩
  · intro a b h
    simp only [clientParams, List.mem_append, List.mem_cons, List.not_mem_nil, or_false] at h
    rcases h with h | h | h
    · split at h
      · rename_i hc
        obtain ⟨hle, w, o1, o2, hok⟩ := hc
        exact ⟨hle, fun hb => (checkTrees_spec P D hD hnode E w a o1 b o2 hb hle).2 hok⟩
      · simp at h
    · cases h
    · cases h

/-- ★ `latest_monotone`, unconditional for the client model: along any interleaving, the in-memory head of every client and
the stored head only move forward in `headLe` — in particular, once a head of `D`, always a head of `D`, and sizes never
decrease. -/
theorem client_latest_monotone (P : Client.Params H) (D : List Bytes) (hD : D.length < 2 ^ 62)
    (hnode : ∀ a b c d : H, P.node a b = P.node c d → a = c ∧ b = d) (E : Env σ) (vs : List Note.Verifier)
    (cl : Nat → Nat) (presented : Nat → Option Bytes) (priv : Nat → Bool) (c0 : Option Bytes)
    (sched : List (Nat × Res)) (s s' : St Bytes (Head H))
    (h : Reachable (clientParams P E vs) cl presented priv c0 s)
    (hr : run (clientParams P E vs) cl presented priv s sched = some s') :
    (∀ c, headLe P D (s.latest c) (s'.latest c)) ∧
      headLe P D (cfgTree (clientParams P E vs) s.config) (cfgTree (clientParams P E vs) s'.config) :=
  latest_monotone _ _ (client_sound P D hD hnode E vs) cl presented priv c0 sched s s' h hr

/-- ★ `config_cas_safe`, unconditional for the client model -/
theorem client_config_cas_safe (P : Client.Params H) (D : List Bytes) (hD : D.length < 2 ^ 62)
    (hnode : ∀ a b c d : H, P.node a b = P.node c d → a = c ∧ b = d) (E : Env σ) (vs : List Note.Verifier)
    (cl : Nat → Nat) (presented : Nat → Option Bytes) (priv : Nat → Bool) (c0 : Option Bytes) (s : St Bytes (Head H))
    (h : Reachable (clientParams P E vs) cl presented priv c0 s) :
    HistOK c0 s.writes s.config ∧
      ∀ w ∈ s.writes, headLe P D (cfgTree (clientParams P E vs) w.1) (cfgTree (clientParams P E vs) w.2) :=
  config_cas_safe _ _ (client_sound P D hD hnode E vs) cl presented priv c0 s h

/-- … and with signature soundness of the verifier list every head the machine ever holds in memory is a head of the one
log `D` (the initial head is the empty tree; every later one was parsed from an accepted message). -/
theorem client_heads_on_log (P : Client.Params H) (D : List Bytes) (E : Env σ) (vs : List Note.Verifier)
    (hsig : SigSound P D vs) (m : Bytes) (t : Head H) (hp : (clientParams P E vs).parse m = some t) : IsHead P D t := by
  simp only [clientParams] at hp
  split at hp
  · rename_i t' ho; cases hp; exact hsig m _ ho
  · cases hp

/-- non-vacuity: the parameters of `Props.C01`'s example satisfy the hypotheses -/
example : Props.C01.exD.length < 2 ^ 62 ∧
    (∀ a b c d : Tlog.TH, Props.C01.exParams.node a b = Props.C01.exParams.node c d → a = c ∧ b = d) :=
  ⟨by decide, fun a b c d h => by cases h; exact ⟨rfl, rfl⟩⟩

end client

end ModVerif.Props.C13
