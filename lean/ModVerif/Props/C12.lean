/-
  C12 — extraction enforces every zip restriction and never writes outside its directory.
  Property theorems only; helper lemmas live in ModVerif/Proofs/Zip*.lean.  All theorems hold for every
  environment `E` (CheckFilePath, strToFold, module check are parameters of the model).
-/
import ModVerif.Spec.ZipSpec
import ModVerif.Proofs.ZipUnzip
namespace ModVerif.Props.C12
open ModVerif ModVerif.PathClean ModVerif.Zip ModVerif.ZipSpec ModVerif.Proofs.Zip

/-- Nothing is written before the zip check has accepted the archive: if extraction performs any
    effect at all, then `checkZip` returned a report without error (and the target was usable). -/
theorem unzip_only_after_checkZip (E : Env) (dir : Bytes) (t : Target) (mpath mvers : Bytes) (zs : Nat)
    (es : List Entry) (h : (unzip E dir t mpath mvers zs es).effects ≠ []) :
    t ≠ .nonEmptyDir ∧ t ≠ .notDir ∧ ∃ cf, checkZip E mpath mvers zs es = .ok cf ∧ cf.err = none := by
  rcases unzip_cases E dir t mpath mvers zs es with ⟨h1, _⟩ | ⟨h1, h2, cf, h3, h4, _⟩
  · exact absurd h1 h
  · exact ⟨h1, h2, cf, h3, h4⟩

/-- Extraction succeeds only if the zip check accepts the archive, and then every extracted entry had
    exactly its declared size and was written completely (with lying sizes: success implies acceptance
    and actual = declared). -/
theorem unzip_ok_implies_checkZip (E : Env) (dir : Bytes) (t : Target) (mpath mvers : Bytes) (zs : Nat)
    (es : List Entry) (h : (unzip E dir t mpath mvers zs es).err = none) :
    (∃ cf, checkZip E mpath mvers zs es = .ok cf ∧ cf.err = none) ∧
    ∀ zf ∈ es, skipEntry (zipPrefix mpath mvers) zf = false →
      zf.content.length = zf.declSize ∧
      Effect.createExcl (dstOf dir (zipPrefix mpath mvers) zf) (some zf.content) ∈
        (unzip E dir t mpath mvers zs es).effects := by
  rcases unzip_cases E dir t mpath mvers zs es with ⟨_, h1⟩ | ⟨_, _, cf, h3, h4, h5, h6⟩
  · exact absurd h h1
  · refine ⟨⟨cf, h3, h4⟩, ?_⟩
    rw [h6] at h
    rw [h5]
    exact unzipLoop_ok dir _ es _ h

/-- Every effect of extraction — success or failure, any entry list — is the creation of the target
    directory itself, or `MkdirAll(Dir(dst))` / the exclusive creation of `dst` where
    `dst = filepath.Join(dir, name)` for an entry whose name below the module prefix is non-empty and
    does not end in a slash. -/
theorem unzip_effects_shape (E : Env) (dir : Bytes) (t : Target) (mpath mvers : Bytes) (zs : Nat)
    (es : List Entry) :
    ∀ e ∈ (unzip E dir t mpath mvers zs es).effects,
      e = .mkdirAll dir ∨ ∃ zf ∈ es, skipEntry (zipPrefix mpath mvers) zf = false ∧
        (e = .mkdirAll (pathDir (dstOf dir (zipPrefix mpath mvers) zf)) ∨
         ∃ c, e = .createExcl (dstOf dir (zipPrefix mpath mvers) zf) c) := by
  intro e he
  rcases unzip_cases E dir t mpath mvers zs es with ⟨h1, _⟩ | ⟨_, _, cf, _, _, h5, _⟩
  · rw [h1] at he; cases he
  · rw [h5] at he
    obtain ⟨new, hn, hmem⟩ := unzipLoop_effects dir (zipPrefix mpath mvers) es [.mkdirAll dir]
    rw [hn] at he
    rcases List.mem_append.mp he with he | he
    · exact Or.inl (List.mem_singleton.mp he)
    · exact Or.inr (hmem e he)


/-! ### non-vacuity and the documented escapes -/

def exEnv : Env :=
  { cfp := fun p => !p.isEmpty && (splitOn 47 p).all (fun c => c != [] && c != [46] && c != [46, 46]),
    toFold := lowerAscii, modOK := fun _ _ => true }

def exEntries : List Entry :=
  [⟨B "m@v1/go.mod", 2, B "hi"⟩, ⟨B "m@v1/a/", 0, []⟩, ⟨B "m@v1/a/b.go", 1, B "x"⟩]

/-- a good archive is extracted: the target, then for each file `MkdirAll(Dir(dst))` and the file. -/
example : (unzip exEnv (B "t") .missing (B "m") (B "v1") 100 exEntries).err = none ∧
    (unzip exEnv (B "t") .missing (B "m") (B "v1") 100 exEntries).effects =
      [.mkdirAll (B "t"), .mkdirAll (B "t"), .createExcl (B "t/go.mod") (some (B "hi")),
       .mkdirAll (B "t/a"), .createExcl (B "t/a/b.go") (some (B "x"))] := by decide +kernel

/-- an entry that would escape is rejected by the zip check, and nothing at all is written -/
example : (unzip exEnv (B "t") .missing (B "m") (B "v1") 100 [⟨B "m@v1/../x", 1, B "x"⟩]).effects = [] ∧
    (unzip exEnv (B "t") .missing (B "m") (B "v1") 100 [⟨B "m@v1/../x", 1, B "x"⟩]).err = some .invalid := by
  decide +kernel

/-- a declared size that disagrees with the content: accepted by the zip check (it does not read
    contents), extraction fails after creating the file -/
example : (unzip exEnv (B "t") .missing (B "m") (B "v1") 100 [⟨B "m@v1/a.go", 2, B "x"⟩]).err = some .contentSize ∧
    (checkZip exEnv (B "m") (B "v1") 100 [⟨B "m@v1/a.go", 2, B "x"⟩]).toOption.map (·.err) = some none := by
  decide +kernel

/-- a declared size of 2^64-1 is negative as int64 and is a size error -/
example : (checkZip exEnv (B "m") (B "v1") 100 [⟨B "m@v1/a.go", 2 ^ 64 - 1, B "x"⟩]).toOption.map (·.err) = some (some .size) := by
  decide +kernel

end ModVerif.Props.C12
