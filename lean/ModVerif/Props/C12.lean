/-
  C12 — extraction enforces every zip restriction and never writes outside its directory.
  Property theorems only; helper lemmas live in ModVerif/Proofs/Zip*.lean.  All theorems hold for every
  environment `E` (CheckFilePath, strToFold, module check are parameters of the model).
-/
import ModVerif.Spec.ZipSpec
import ModVerif.Proofs.ZipUnzip
import ModVerif.Proofs.ZipBUnzip
import ModVerif.Proofs.ZipBCfp
namespace ModVerif.Props.C12
open ModVerif ModVerif.PathClean ModVerif.Zip ModVerif.ZipSpec ModVerif.Proofs.Zip ModVerif.Proofs.ZipB

/-- Nothing is written before the zip check has accepted the archive: if extraction performs any
    effect at all, then `checkZip` returned a report without error (and the target was usable). -/
theorem unzip_only_after_checkZip (E : Env) (dir : Bytes) (t : Target) (mpath mvers : Bytes) (zs : Nat)
    (es : List Entry) (h : (unzip E dir t mpath mvers zs es).effects ≠ []) :
    t ≠ .nonEmptyDir ∧ t ≠ .notDir ∧ ∃ cf, checkZip E mpath mvers zs es = .ok cf ∧ cf.err = none := by
  rcases unzip_cases E dir t mpath mvers zs es with ⟨h1, _⟩ | ⟨h1, h2, cf, h3, h4, _⟩
  · exact absurd h1 h
  · exact ⟨h1, h2, cf, h3, h4⟩

/-- Extraction succeeds only if the zip check accepts the archive, and then every extracted entry had
    exactly its declared size and was written completely (with lying sizes: success implies acceptance
    and actual = declared). -/
theorem unzip_ok_implies_checkZip (E : Env) (dir : Bytes) (t : Target) (mpath mvers : Bytes) (zs : Nat)
    (es : List Entry) (h : (unzip E dir t mpath mvers zs es).err = none) :
    (∃ cf, checkZip E mpath mvers zs es = .ok cf ∧ cf.err = none) ∧
    ∀ zf ∈ es, skipEntry (zipPrefix mpath mvers) zf = false →
      zf.content.length = zf.declSize ∧
      Effect.createExcl (dstOf dir (zipPrefix mpath mvers) zf) (some zf.content) ∈
        (unzip E dir t mpath mvers zs es).effects := by
  rcases unzip_cases E dir t mpath mvers zs es with ⟨_, h1⟩ | ⟨_, _, cf, h3, h4, h5, h6⟩
  · exact absurd h h1
  · refine ⟨⟨cf, h3, h4⟩, ?_⟩
    rw [h6] at h
    rw [h5]
    exact unzipLoop_ok dir _ es _ h

/-- Every effect of extraction — success or failure, any entry list — is the creation of the target
    directory itself, or `MkdirAll(Dir(dst))` / the exclusive creation of `dst` where
    `dst = filepath.Join(dir, name)` for an entry whose name below the module prefix is non-empty and
    does not end in a slash. -/
theorem unzip_effects_shape (E : Env) (dir : Bytes) (t : Target) (mpath mvers : Bytes) (zs : Nat)
    (es : List Entry) :
    ∀ e ∈ (unzip E dir t mpath mvers zs es).effects,
      e = .mkdirAll dir ∨ ∃ zf ∈ es, skipEntry (zipPrefix mpath mvers) zf = false ∧
        (e = .mkdirAll (pathDir (dstOf dir (zipPrefix mpath mvers) zf)) ∨
         ∃ c, e = .createExcl (dstOf dir (zipPrefix mpath mvers) zf) c) := by
  intro e he
  rcases unzip_cases E dir t mpath mvers zs es with ⟨h1, _⟩ | ⟨_, _, cf, _, _, h5, _⟩
  · rw [h1] at he; cases he
  · rw [h5] at he
    obtain ⟨new, hn, hmem⟩ := unzipLoop_effects dir (zipPrefix mpath mvers) es [.mkdirAll dir]
    rw [hn] at he
    rcases List.mem_append.mp he with he | he
    · exact Or.inl (List.mem_singleton.mp he)
    · exact Or.inr (hmem e he)


/-! ### confinement, the documented restrictions, success ⇔ acceptance, the extracted tree

Vocabulary (Proofs/ZipB*.lean): `fileEntries pfx es` = the entries `Unzip` extracts (name below the prefix
non-empty and without trailing slash); `stripName pfx e` = the name below the prefix with one trailing
slash removed; `regsOf pfx e` = the (path, is-directory) pairs `collisionChecker.check` registers for the
entry: the stripped name, then `path.Dir` of it repeatedly until `.`; `Compatible toFold x y` = equal
folded paths only for the same path registered as a directory both times; `NoClash` = the same statement
on the element lists of two entries; `expectedFx dir pfx fs` = for every `f` in `fs`, in order,
`mkdirAll (Dir dst)` then `createExcl dst (some f.content)` with `dst = Join(dir, name below the prefix)`. -/

/-- The assumption `CfpSound` (an accepted path has no empty, `.` or `..` element) holds for the model of
    `module.CheckFilePath` that the driver plugs in (and that Props/C06 proves equivalent to the
    documented rules), whatever `unicode.IsLetter` is. -/
theorem cfpSound_checkFilePath (isLetter : Nat → Bool) : CfpSound (cfpOf isLetter) :=
  ModVerif.Proofs.ZipB.cfpSound_checkFilePath isLetter

/-- Nothing is ever created outside the target directory: every effect of extraction — success or
    failure, any entry list with arbitrary byte-string names (`..`, absolute, backslashes, empty) — has a
    path under `dir` (equivalently under `Clean(dir)`): same rootedness, the cleaned elements of `dir` are
    a prefix of the cleaned elements of the path, and none of the remaining elements is `..`. -/
theorem unzip_confined (E : Env) (hE : CfpSound E.cfp) (dir : Bytes) (t : Target) (mpath mvers : Bytes)
    (zs : Nat) (es : List Entry) :
    ∀ e ∈ (unzip E dir t mpath mvers zs es).effects, IsUnder dir e.path ∧ IsUnder (pathClean dir) e.path := by
  intro e he
  have h := ModVerif.Proofs.ZipB.unzip_confined E hE dir t mpath mvers zs es e he
  exact ⟨h, (isUnder_clean_iff dir e.path).mpr h⟩

/-- Acceptance by the zip check implies every documented restriction: the module is valid and the
    archive is at most `MaxZipFile` bytes; every entry name starts with `<module>@<version>/`, and what
    follows is empty or — after removing one trailing slash — a clean path accepted by `CheckFilePath`;
    for every file entry: a name whose base is `go.mod` in any case is exactly `go.mod` (root, lower case),
    the declared size is non-negative as `int64` (so it equals the unsigned value when that is below 2^64),
    `go.mod` and `LICENSE` are at most 16 MiB; the declared sizes of the file entries sum to at most
    `MaxZipFile`; the valid list is the file entries; everything the collision checker registered (every
    entry and all its parent directories) is pairwise compatible — no two different paths with the same
    case-folded form, no path both file and directory, no file twice — also in the readable form
    `NoClash` on element prefixes. -/
theorem checkZip_ok_spec (E : Env) (mpath mvers : Bytes) (zs : Nat) (es : List Entry) (cf : CheckedFiles)
    (h : checkZip E mpath mvers zs es = .ok cf) (he : cf.err = none) :
    E.modOK mpath mvers = true ∧ zs ≤ MaxZipFile ∧
    (∀ e ∈ es, zipPrefix mpath mvers <+: e.name ∧
      (relName (zipPrefix mpath mvers) e ≠ [] →
        pathClean (stripName (zipPrefix mpath mvers) e) = stripName (zipPrefix mpath mvers) e ∧
        E.cfp (stripName (zipPrefix mpath mvers) e) = true)) ∧
    (∀ e ∈ fileEntries (zipPrefix mpath mvers) es,
      (equalFoldGoMod (pathBase (relName (zipPrefix mpath mvers) e)) = true →
        relName (zipPrefix mpath mvers) e = goModName) ∧
      0 ≤ int64OfU64 e.declSize ∧ (e.declSize < 2 ^ 64 → int64OfU64 e.declSize = e.declSize) ∧
      (relName (zipPrefix mpath mvers) e = goModName → int64OfU64 e.declSize ≤ MaxGoMod) ∧
      (relName (zipPrefix mpath mvers) e = licenseName → int64OfU64 e.declSize ≤ MaxLICENSE)) ∧
    ((fileEntries (zipPrefix mpath mvers) es).map (fun e => int64OfU64 e.declSize)).sum ≤ MaxZipFile ∧
    cf.valid = (fileEntries (zipPrefix mpath mvers) es).map (·.name) ∧
    (es.flatMap (regsOf (zipPrefix mpath mvers))).Pairwise (Compatible E.toFold) ∧
    (CfpSound E.cfp → es.Pairwise (NoClash E (zipPrefix mpath mvers))) := by
  obtain ⟨h1, h2, h3, h4, h5, h6, h7⟩ := ModVerif.Proofs.ZipB.checkZip_ok_spec E mpath mvers zs es cf h he
  refine ⟨h1, h2, ?_, ?_, h5, h4, h6, h7⟩
  · intro e hm
    have ok := h3 e hm
    refine ⟨?_, fun hne => ⟨ok.clean hne, ok.cfp hne⟩⟩
    have : ∀ (a b : Bytes), isPrefixOfB a b = true → a <+: b := by
      intro a
      induction a with
      | nil => intro b _; exact List.nil_prefix
      | cons x a ih =>
        intro b hb
        cases b with
        | nil => simp [isPrefixOfB] at hb
        | cons y b =>
          simp only [isPrefixOfB, Bool.and_eq_true, beq_iff_eq] at hb
          rw [hb.1]
          exact (List.prefix_cons_inj y).mpr (ih b hb.2)
    exact this _ _ ok.hasPrefix
  · intro e hm
    have hmem := List.mem_filter.mp hm
    have hsk : skipEntry (zipPrefix mpath mvers) e = false := by simpa using hmem.2
    have ok := h3 e hmem.1
    refine ⟨ok.goMod hsk, ok.nonneg hsk, ?_, ok.goModSize hsk, ok.licenseSize hsk⟩
    intro hlt
    have hnn := ok.nonneg hsk
    unfold szOf int64OfU64 at hnn
    unfold int64OfU64
    split
    · rfl
    · rename_i hge
      rw [if_neg hge] at hnn
      omega

/-- Extraction succeeds exactly when the zip check accepts (honest sizes, target missing or an empty
    directory).  PARTIAL with respect to the statement "for every target directory string": the
    hypothesis `hdir` asks that `dir` is empty, clean, or written without `..` elements.  It cannot be
    dropped: for `dir = x/y/../..` `MkdirAll(dir)` creates `x` on its way, and an accepted archive with
    the file `x` then fails with "file exists" (see the witness below; the real `zip.Unzip` behaves the
    same).  `→` needs none of the hypotheses (`unzip_ok_implies_checkZip`). -/
theorem unzip_ok_iff_partial (E : Env) (hE : CfpSound E.cfp) (dir : Bytes)
    (hdir : dir = [] ∨ pathClean dir = dir ∨ ([46, 46] : Bytes) ∉ splitOn 47 dir) (t : Target)
    (ht : t = .missing ∨ t = .emptyDir) (mpath mvers : Bytes) (zs : Nat) (es : List Entry)
    (hon : HonestEntries es) :
    (unzip E dir t mpath mvers zs es).err = none ↔
      ∃ cf, checkZip E mpath mvers zs es = .ok cf ∧ cf.err = none := by
  constructor
  · exact fun h => (unzip_ok_implies_checkZip E dir t mpath mvers zs es h).1
  · rintro ⟨cf, h, he⟩
    have hsane : DirSane dir := by
      rcases hdir with rfl | hd | hd
      · exact dirSane_nil
      · exact dirSane_clean hd
      · exact dirSane_noDotDot hd
    rw [unzip_accepts E hE dir hsane t mpath mvers zs es cf ht hon h he]

/-- Lying sizes: success implies actual = declared for every extracted entry
    (`unzip_ok_implies_checkZip`); conversely, after acceptance the extraction fails exactly at the first
    file entry whose content length differs from its declared size, with the size error, after having
    performed the complete effects of the earlier file entries, `MkdirAll(Dir(dst))` and the creation of
    `dst` (content unspecified). -/
theorem unzip_size_mismatch (E : Env) (hE : CfpSound E.cfp) (dir : Bytes)
    (hdir : dir = [] ∨ pathClean dir = dir ∨ ([46, 46] : Bytes) ∉ splitOn 47 dir) (t : Target)
    (ht : t = .missing ∨ t = .emptyDir) (mpath mvers : Bytes) (zs : Nat) (pre post : List Entry) (zf : Entry)
    (cf : CheckedFiles) (hon : HonestEntries pre)
    (hzs : skipEntry (zipPrefix mpath mvers) zf = false) (hlie : zf.content.length ≠ zf.declSize)
    (h : checkZip E mpath mvers zs (pre ++ zf :: post) = .ok cf) (he : cf.err = none) :
    unzip E dir t mpath mvers zs (pre ++ zf :: post) =
      ⟨.mkdirAll dir :: expectedFx dir (zipPrefix mpath mvers) (fileEntries (zipPrefix mpath mvers) pre) ++
        [.mkdirAll (pathDir (dstOf dir (zipPrefix mpath mvers) zf)),
         .createExcl (dstOf dir (zipPrefix mpath mvers) zf) none], some .contentSize⟩ := by
  have hsane : DirSane dir := by
    rcases hdir with rfl | hd | hd
    · exact dirSane_nil
    · exact dirSane_clean hd
    · exact dirSane_noDotDot hd
  exact unzip_first_liar E hE dir hsane t mpath mvers zs pre post zf cf ht hon hzs hlie h he

/-- On success the extracted tree equals the entries: the effects are the creation of the target and then,
    for every file entry in archive order, `MkdirAll(Dir(dst))` and the exclusive creation of
    `dst = Join(dir, name)` with the entry's complete content; the created files are the destinations of the
    file entries, and no destination occurs twice. -/
theorem unzip_tree_eq_entries (E : Env) (dir : Bytes) (t : Target) (mpath mvers : Bytes) (zs : Nat)
    (es : List Entry) (h : (unzip E dir t mpath mvers zs es).err = none) :
    (unzip E dir t mpath mvers zs es).effects =
      .mkdirAll dir :: expectedFx dir (zipPrefix mpath mvers) (fileEntries (zipPrefix mpath mvers) es) ∧
    createdFiles (unzip E dir t mpath mvers zs es).effects =
      (fileEntries (zipPrefix mpath mvers) es).map (dstOf dir (zipPrefix mpath mvers)) ∧
    ((fileEntries (zipPrefix mpath mvers) es).map (dstOf dir (zipPrefix mpath mvers))).Nodup :=
  unzip_exact E dir t mpath mvers zs es h

/-! ### non-vacuity and the documented escapes -/

def exEnv : Env :=
  { cfp := fun p => !p.isEmpty && (splitOn 47 p).all (fun c => c != [] && c != [46] && c != [46, 46]),
    toFold := lowerAscii, modOK := fun _ _ => true }

def exEntries : List Entry :=
  [⟨B "m@v1/go.mod", 2, B "hi"⟩, ⟨B "m@v1/a/", 0, []⟩, ⟨B "m@v1/a/b.go", 1, B "x"⟩]

/-- a good archive is extracted: the target, then for each file `MkdirAll(Dir(dst))` and the file. -/
example : (unzip exEnv (B "t") .missing (B "m") (B "v1") 100 exEntries).err = none ∧
    (unzip exEnv (B "t") .missing (B "m") (B "v1") 100 exEntries).effects =
      [.mkdirAll (B "t"), .mkdirAll (B "t"), .createExcl (B "t/go.mod") (some (B "hi")),
       .mkdirAll (B "t/a"), .createExcl (B "t/a/b.go") (some (B "x"))] := by decide +kernel

/-- an entry that would escape is rejected by the zip check, and nothing at all is written -/
example : (unzip exEnv (B "t") .missing (B "m") (B "v1") 100 [⟨B "m@v1/../x", 1, B "x"⟩]).effects = [] ∧
    (unzip exEnv (B "t") .missing (B "m") (B "v1") 100 [⟨B "m@v1/../x", 1, B "x"⟩]).err = some .invalid := by
  decide +kernel

/-- a declared size that disagrees with the content: accepted by the zip check (it does not read
    contents), extraction fails after creating the file -/
example : (unzip exEnv (B "t") .missing (B "m") (B "v1") 100 [⟨B "m@v1/a.go", 2, B "x"⟩]).err = some .contentSize ∧
    (checkZip exEnv (B "m") (B "v1") 100 [⟨B "m@v1/a.go", 2, B "x"⟩]).toOption.map (·.err) = some none := by
  decide +kernel

/-- a declared size of 2^64-1 is negative as int64 and is a size error -/
example : (checkZip exEnv (B "m") (B "v1") 100 [⟨B "m@v1/a.go", 2 ^ 64 - 1, B "x"⟩]).toOption.map (·.err) = some (some .size) := by
  decide +kernel

/-! ### non-vacuity of the hypotheses of the theorems above -/

/-- the example environment satisfies `CfpSound` -/
theorem exEnv_cfpSound : CfpSound exEnv.cfp := by
  intro p hp c hc
  have h2 : ((splitOn 47 p).all (fun c => c != [] && c != [46] && c != [46, 46])) = true := by
    simp only [exEnv, Bool.and_eq_true] at hp; exact hp.2
  have := List.all_eq_true.mp h2 c hc
  simp at this
  exact ⟨this.1.1, this.1.2, this.2⟩

theorem accepted_of_toOption {E : Env} {m v : Bytes} {zs : Nat} {es : List Entry}
    (h : (checkZip E m v zs es).toOption.map (·.err) = some none) :
    ∃ cf, checkZip E m v zs es = .ok cf ∧ cf.err = none := by
  cases hc : checkZip E m v zs es with
  | error e => rw [hc] at h; cases h
  | ok cf => rw [hc] at h; exact ⟨cf, rfl, by simpa [Except.toOption] using h⟩

/-- the example archive is accepted (hypotheses of `checkZip_ok_spec`) -/
theorem exEntries_accepted : ∃ cf, checkZip exEnv (B "m") (B "v1") 100 exEntries = .ok cf ∧ cf.err = none :=
  accepted_of_toOption (by decide +kernel)

theorem exEntries_honest : HonestEntries exEntries := by unfold HonestEntries; decide +kernel

/-- `unzip_confined` on the example (effects are not empty, see above) -/
example : ∀ e ∈ (unzip exEnv (B "t") .missing (B "m") (B "v1") 100 exEntries).effects, IsUnder (B "t") e.path :=
  fun e he => (unzip_confined exEnv exEnv_cfpSound _ _ _ _ _ _ e he).1

/-- `checkZip_ok_spec` on the example: the three entries do not clash -/
example : exEntries.Pairwise (NoClash exEnv (zipPrefix (B "m") (B "v1"))) := by
  obtain ⟨cf, h, he⟩ := exEntries_accepted
  exact (checkZip_ok_spec exEnv _ _ _ _ cf h he).2.2.2.2.2.2.2 exEnv_cfpSound

/-- `unzip_ok_iff_partial` on the example: all hypotheses hold (clean target `t`) -/
example : (unzip exEnv (B "t") .missing (B "m") (B "v1") 100 exEntries).err = none :=
  (unzip_ok_iff_partial exEnv exEnv_cfpSound (B "t") (Or.inr (Or.inl (by decide +kernel))) .missing (Or.inl rfl)
    (B "m") (B "v1") 100 exEntries exEntries_honest).mpr exEntries_accepted

/-- the hypothesis on `dir` cannot be dropped: accepted archive, empty target, honest sizes — and
    extraction into `x/y/../..` fails because `MkdirAll` created `x` -/
example : (unzip exEnv (B "x/y/../..") .emptyDir (B "m") (B "v1") 100 [⟨B "m@v1/x", 1, B "a"⟩]).err = some .exists ∧
    (checkZip exEnv (B "m") (B "v1") 100 [⟨B "m@v1/x", 1, B "a"⟩]).toOption.map (·.err) = some none := by
  decide +kernel

/-- `unzip_size_mismatch` on an archive whose second file lies about its size -/
example :
    (unzip exEnv (B "t") .missing (B "m") (B "v1") 100
      ([⟨B "m@v1/go.mod", 2, B "hi"⟩] ++ ⟨B "m@v1/a.go", 2, B "x"⟩ :: [])).effects =
      [.mkdirAll (B "t"), .mkdirAll (B "t"), .createExcl (B "t/go.mod") (some (B "hi")),
       .mkdirAll (B "t"), .createExcl (B "t/a.go") none] ∧
    (unzip exEnv (B "t") .missing (B "m") (B "v1") 100
      ([⟨B "m@v1/go.mod", 2, B "hi"⟩] ++ ⟨B "m@v1/a.go", 2, B "x"⟩ :: [])).err = some .contentSize := by
  obtain ⟨cf, h, he⟩ := accepted_of_toOption (E := exEnv) (m := B "m") (v := B "v1") (zs := 100)
    (es := [⟨B "m@v1/go.mod", 2, B "hi"⟩] ++ ⟨B "m@v1/a.go", 2, B "x"⟩ :: []) (by decide +kernel)
  rw [unzip_size_mismatch exEnv exEnv_cfpSound (B "t") (Or.inr (Or.inl (by decide +kernel))) .missing (Or.inl rfl)
    (B "m") (B "v1") 100 _ _ _ cf (by unfold HonestEntries; decide +kernel) (by decide +kernel)
    (by decide +kernel) h he]
  exact ⟨by decide +kernel, rfl⟩

/-- `unzip_tree_eq_entries` on the example: two files, two distinct destinations -/
example : createdFiles (unzip exEnv (B "t") .missing (B "m") (B "v1") 100 exEntries).effects =
    [B "t/go.mod", B "t/a/b.go"] := by
  rw [(unzip_tree_eq_entries exEnv (B "t") .missing (B "m") (B "v1") 100 exEntries (by decide +kernel)).2.1]
  decide +kernel

end ModVerif.Props.C12
