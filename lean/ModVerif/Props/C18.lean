/-
  C18 — pseudo-versions round-trip and sort between their base and the next release.
  Property theorems only; helper lemmas live in ModVerif/Proofs/Pseudo*.lean.
-/
import ModVerif.Model.Pseudo
namespace ModVerif.Props.C18
open ModVerif ModVerif.Pseudo

/-- the zero pseudo-version of the default major is recognised, and is what IsZeroPseudoVersion accepts. -/
theorem zeroPseudo_recognised :
    (zeroPseudoVersion []).toOption.map isPseudoVersion = some true
    ∧ (zeroPseudoVersion []).toOption.map isZeroPseudoVersion = some true := by decide

end ModVerif.Props.C18
