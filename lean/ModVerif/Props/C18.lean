/-
  C18 — pseudo-versions round-trip and sort between their base and the next release.
  Property theorems only (plus non-vacuity examples); helper lemmas live in ModVerif/Proofs/Pseudo*.lean.

  Vocabulary (ModVerif/Spec/PseudoSpec.lean): `Num d` — a decimal number without leading zeros;
  `decValue d` — its value; `Ts ts` — fourteen digits; `Rev rev` — non-empty, letters and digits;
  `MajorArg major` — "" or "v" and a number.  The commit time enters as the string
  `ts = t.UTC().Format("20060102150405")`; `fmtTime`/`formatUnix` (compared with Go's time package in
  the correspondence) produce it from civil fields / a Unix second.
-/
import ModVerif.Proofs.PseudoFinal
import ModVerif.Proofs.PseudoTime
import ModVerif.Proofs.PseudoCivil
namespace ModVerif.Props.C18
open ModVerif ModVerif.PseudoSpec ModVerif.Proofs.Pseudo
open ModVerif.Pseudo hiding isDigit isAlnum

/-! The admissible (major, base) pairs are written out in each statement:
    `Semver.isValid older = true` (a valid base version; `major` is then ignored by PseudoVersion), or
    `older = [] ∧ MajorArg major` (no base, and a major version prefix). -/

/-! ## incDecimal / decDecimal -/

/-- incDecimal on a number of any length: no panic, the value grows by exactly one, and the result is
    again a number without leading zeros. -/
theorem incDecimal_spec (d : Bytes) (hd : Num d) :
    ∃ r, incDecimal d = some r ∧ decValue r = decValue d + 1 ∧ Num r := by
  obtain ⟨r, h1, h2, h3, _, _⟩ := incDecimal_num hd
  exact ⟨r, h1, h3, h2⟩

/-- decDecimal undoes incDecimal. -/
theorem decDecimal_incDecimal (d : Bytes) (hd : Num d) :
    ∃ r, incDecimal d = some r ∧ decDecimal r = d := by
  obtain ⟨r, h1, _, _, _, h5⟩ := incDecimal_num hd
  exact ⟨r, h1, h5⟩

example : Num [49, 57, 57] ∧ incDecimal [49, 57, 57] = some [50, 48, 48] := by decide          -- "199" ↦ "200"
example : Num (List.replicate 40 57) ∧ (incDecimal (List.replicate 40 57)).map List.length = some 41 := by decide

/-! ## the generated pseudo-version is valid and recognised -/

/-- PseudoVersion never panics on admissible inputs, and its result is a valid version that
    IsPseudoVersion recognises. -/
theorem pseudo_valid_and_recognised (major older ts rev : Bytes)
    (hbase : Semver.isValid older = true ∨ (older = [] ∧ MajorArg major)) (hts : Ts ts) (hrev : Rev rev) :
    ∃ pv, pseudoVersion major older ts rev = .ok pv ∧ Semver.isValid pv = true ∧ isPseudoVersion pv = true :=
  valid_recognised_aux hbase hts hrev

/-- "v1.2.9-rc.1+incompatible", "20231114221320", "abc123" -/
example : Semver.isValid [118, 49, 46, 50, 46, 57, 45, 114, 99, 46, 49, 43, 105, 110, 99, 111, 109, 112, 97, 116, 105, 98, 108, 101] = true
    ∧ Ts [50, 48, 50, 51, 49, 49, 49, 52, 50, 50, 49, 51, 50, 48] ∧ Rev [97, 98, 99, 49, 50, 51] :=
  ⟨by decide, by decide, by decide⟩
/-- no base, major "v2" -/
example : MajorArg [118, 50] := Or.inr ⟨[50], by decide, rfl⟩

/-! ## round trip -/

/-- From the generated pseudo-version, PseudoVersionBase recovers the canonical base with its build
    suffix (the empty string when there is no base), PseudoVersionRev the revision, and
    PseudoVersionTime the time stamp (it fails exactly when the fourteen digits are not a date and time). -/
theorem pseudo_roundtrip (major older ts rev : Bytes)
    (hbase : Semver.isValid older = true ∨ (older = [] ∧ MajorArg major)) (hts : Ts ts) (hrev : Rev rev) :
    ∃ pv, pseudoVersion major older ts rev = .ok pv ∧
      pseudoVersionBase pv = .ok (Semver.canonical older ++ Semver.build older) ∧
      pseudoVersionRev pv = .ok rev ∧
      pseudoVersionTime pv = (if timeValid ts then .ok ts else .error .time) :=
  roundtrip_aux hbase hts hrev

/-! ## ordering -/

/-- The pseudo-version sorts strictly after its base and strictly before the next release: for a release
    base vX.Y.Z that is vX.Y.(Z+1) (`z` is any number with value Z+1 — there is exactly one, and incDecimal
    computes it, see `incDecimal_spec`), for a prerelease base vX.Y.Z-pre it is vX.Y.Z. -/
theorem pseudo_between (major older ts rev : Bytes) (p : Semver.Parsed)
    (hp : Semver.parse older = some p) (hts : Ts ts) (hrev : Rev rev) :
    ∃ pv, pseudoVersion major older ts rev = .ok pv ∧ Semver.compare older pv = -1 ∧
      (p.prerelease = [] → ∀ z, Num z → decValue z = decValue p.patch + 1 →
          Semver.compare pv (118 :: p.major ++ 46 :: p.minor ++ 46 :: z) = -1) ∧
      (p.prerelease ≠ [] → Semver.compare pv (118 :: p.major ++ 46 :: p.minor ++ 46 :: p.patch) = -1) :=
  between_aux hp hts hrev

/-- "v1.2.9" parses, with an empty prerelease -/
example : ∃ p, Semver.parse [118, 49, 46, 50, 46, 57] = some p ∧ p.prerelease = [] := ⟨_, rfl, rfl⟩
/-- "v1.2.9-rc" parses, with a non-empty prerelease -/
example : ∃ p, Semver.parse [118, 49, 46, 50, 46, 57, 45, 114, 99] = some p ∧ p.prerelease ≠ [] := ⟨_, rfl, by decide⟩

/-- A pseudo-version with no base sorts strictly below vX.0.0 (X = 0 when major is ""). -/
theorem pseudo_nobase_below (major ts rev : Bytes) (hm : MajorArg major) (hts : Ts ts) (hrev : Rev rev) :
    ∃ pv, pseudoVersion major [] ts rev = .ok pv ∧
      Semver.compare pv ((if major = [] then [118, 48] else major) ++ [46, 48, 46, 48]) = -1 :=
  nobase_aux hm hts hrev

/-- For the same (major, base), an earlier time stamp gives a strictly lower pseudo-version, whatever the
    two revisions are. -/
theorem pseudo_time_mono (major older ts1 ts2 rev1 rev2 : Bytes) (hbase : Semver.isValid older = true ∨ (older = [] ∧ MajorArg major))
    (h1 : Ts ts1) (h2 : Ts ts2) (r1 : Rev rev1) (r2 : Rev rev2) (hlt : bytesLt ts1 ts2 = true) :
    ∃ pv1 pv2, pseudoVersion major older ts1 rev1 = .ok pv1 ∧ pseudoVersion major older ts2 rev2 = .ok pv2 ∧
      Semver.compare pv1 pv2 = -1 :=
  time_mono_aux hbase h1 h2 r1 r2 hlt

/-- two stamps one second apart, the earlier one with the "larger" revision -/
example : bytesLt [50, 48, 50, 51, 49, 49, 49, 52, 50, 50, 49, 51, 49, 57] [50, 48, 50, 51, 49, 49, 49, 52, 50, 50, 49, 51, 50, 48] = true
    ∧ Rev [122, 122] ∧ Rev [48] := by decide

/-! ## the time stamp -/

/-- The layout is fixed-width and zero-padded: for civil times in range (year below 10000) the result is a
    time stamp, and the order of instants is the bytewise order of their stamps. -/
theorem fmtTime_mono (Y M D h m s Y' M' D' h' m' s' : Nat)
    (hr : Y < 10000 ∧ M < 100 ∧ D < 100 ∧ h < 100 ∧ m < 100 ∧ s < 100)
    (hr' : Y' < 10000 ∧ M' < 100 ∧ D' < 100 ∧ h' < 100 ∧ m' < 100 ∧ s' < 100) :
    Ts (fmtTime Y M D h m s) ∧
    (bytesLt (fmtTime Y M D h m s) (fmtTime Y' M' D' h' m' s') = true ↔
      civilLt (Y, M, D, h, m, s) (Y', M', D', h', m', s')) :=
  fmtTime_mono_aux hr hr'

example : civilLt (1999, 12, 31, 23, 59, 59) (2000, 1, 1, 0, 0, 0) := by decide

/-- The stamp of every real date and time of day (proleptic Gregorian, year below 10000) passes the range
    validation that PseudoVersionTime applies (time.Parse), so `pseudo_roundtrip` returns it. -/
theorem timeValid_fmtTime (Y M D h m s : Nat) (hY : Y < 10000) (hM : 1 ≤ M ∧ M ≤ 12)
    (hD : 1 ≤ D ∧ D ≤ daysIn M Y) (hh : h < 24) (hm : m < 60) (hs : s < 60) :
    timeValid (fmtTime Y M D h m s) = true :=
  timeValid_fmtTime_aux hY hM hD hh hm hs

example : (1 ≤ 29 ∧ 29 ≤ daysIn 2 2024) ∧ ¬ (29 ≤ daysIn 2 1900) := by decide

/-- Every instant whose UTC year is 0001–9999 (Unix seconds -62135596800 … 253402300799) has civil fields in
    range, so its stamp `formatUnix secs` is `fmtTime` of in-range fields: a `Ts`, ordered as `fmtTime_mono` says. -/
theorem civilFromUnix_range (secs : Int) (h1 : -62135596800 ≤ secs) (h2 : secs ≤ 253402300799) :
    1 ≤ (civilFromUnix secs).1 ∧ (civilFromUnix secs).1 ≤ 9999 ∧
    1 ≤ (civilFromUnix secs).2.1 ∧ (civilFromUnix secs).2.1 ≤ 12 ∧
    1 ≤ (civilFromUnix secs).2.2.1 ∧ (civilFromUnix secs).2.2.1 ≤ 31 ∧
    (civilFromUnix secs).2.2.2.1 < 24 ∧ (civilFromUnix secs).2.2.2.2.1 < 60 ∧ (civilFromUnix secs).2.2.2.2.2 < 60 := by
  simp only [civilFromUnix]
  split <;> split <;> omega

/-- the stamp of an instant in years 0001–9999 is a time stamp in the sense of the theorems above -/
theorem formatUnix_ts (secs : Int) (h1 : -62135596800 ≤ secs) (h2 : secs ≤ 253402300799) : Ts (formatUnix secs) := by
  obtain ⟨a1, a2, _, a4, _, a6, a7, a8, a9⟩ := civilFromUnix_range secs h1 h2
  unfold formatUnix
  generalize civilFromUnix secs = c at *
  obtain ⟨y, m, d, hh, mm, ss⟩ := c
  simp only at *
  have hy : ¬ y < 0 := by omega
  simp only [hy, if_false]
  exact (fmtTime_mono_aux (Y' := 0) (M' := 0) (D' := 0) (h' := 0) (m' := 0) (s' := 0)
    ⟨by omega, by omega, by omega, by omega, by omega, by omega⟩ ⟨by omega, by omega, by omega, by omega, by omega, by omega⟩).1

example : (-62135596800 : Int) ≤ 1700000000 ∧ (1700000000 : Int) ≤ 253402300799 := by decide

/-! ## from the Unix instant (not only from the stamp) -/

/-- The civil date computed for an instant in years 0001–9999 is a real calendar date: the day exists in the
    month of that year (28/29/30/31 days, Gregorian leap rule). -/
theorem civilFromUnix_validDate (secs : Int) (h1 : -62135596800 ≤ secs) (h2 : secs ≤ 253402300799) :
    1 ≤ (civilFromUnix secs).2.2.1 ∧
    (civilFromUnix secs).2.2.1 ≤ daysIn (civilFromUnix secs).2.1 (civilFromUnix secs).1.toNat :=
  civilFromUnix_validDate_aux secs (by have := (civilFromUnix_range secs h1 h2).1; omega)

/-- Hence the stamp of every such instant passes the validation of PseudoVersionTime (time.Parse): the `if` of
    `pseudo_roundtrip` is always the `ok` branch for `ts = formatUnix secs`. -/
theorem timeValid_formatUnix (secs : Int) (h1 : -62135596800 ≤ secs) (h2 : secs ≤ 253402300799) :
    timeValid (formatUnix secs) = true :=
  timeValid_formatUnix_aux secs h1 h2

/-- Round trip from the instant: PseudoVersionTime of the generated pseudo-version returns the stamp of the instant. -/
theorem pseudo_roundtrip_unix (major older rev : Bytes) (secs : Int)
    (hbase : Semver.isValid older = true ∨ (older = [] ∧ MajorArg major)) (hrev : Rev rev)
    (h1 : -62135596800 ≤ secs) (h2 : secs ≤ 253402300799) :
    ∃ pv, pseudoVersion major older (formatUnix secs) rev = .ok pv ∧
      pseudoVersionBase pv = .ok (Semver.canonical older ++ Semver.build older) ∧
      pseudoVersionRev pv = .ok rev ∧ pseudoVersionTime pv = .ok (formatUnix secs) := by
  obtain ⟨pv, a, b, c, d⟩ := pseudo_roundtrip major older (formatUnix secs) rev hbase (formatUnix_ts secs h1 h2) hrev
  rw [timeValid_formatUnix secs h1 h2] at d
  exact ⟨pv, a, b, c, d⟩

/-- The civil fields are strictly monotone in the instant (lexicographic order, year as a natural number). -/
theorem civilFromUnix_mono (s1 s2 : Int) (h11 : -62135596800 ≤ s1) (_h12 : s1 ≤ 253402300799)
    (_h21 : -62135596800 ≤ s2) (h22 : s2 ≤ 253402300799) (h : s1 < s2) :
    civilLt ((civilFromUnix s1).1.toNat, (civilFromUnix s1).2) ((civilFromUnix s2).1.toNat, (civilFromUnix s2).2) :=
  civilFromUnix_mono_aux s1 s2 h
    (by have := (civilFromUnix_range s1 h11 (by omega)).1; omega)
    (by have := (civilFromUnix_range s2 (by omega) h22).1; omega)

/-- … and so are the stamps, bytewise. -/
theorem formatUnix_mono (s1 s2 : Int) (h11 : -62135596800 ≤ s1) (h12 : s1 ≤ 253402300799)
    (h21 : -62135596800 ≤ s2) (h22 : s2 ≤ 253402300799) (h : s1 < s2) :
    bytesLt (formatUnix s1) (formatUnix s2) = true :=
  formatUnix_mono_aux s1 s2 h11 h12 h21 h22 h

/-- "A later time gives a higher version", from the Unix instants: for the same (major, base), the commit with the
    earlier instant gets the strictly lower pseudo-version, whatever the two revisions are. -/
theorem pseudo_time_mono_unix (major older rev1 rev2 : Bytes) (s1 s2 : Int)
    (hbase : Semver.isValid older = true ∨ (older = [] ∧ MajorArg major)) (r1 : Rev rev1) (r2 : Rev rev2)
    (h11 : -62135596800 ≤ s1) (h12 : s1 ≤ 253402300799) (h21 : -62135596800 ≤ s2) (h22 : s2 ≤ 253402300799)
    (h : s1 < s2) :
    ∃ pv1 pv2, pseudoVersion major older (formatUnix s1) rev1 = .ok pv1 ∧
      pseudoVersion major older (formatUnix s2) rev2 = .ok pv2 ∧ Semver.compare pv1 pv2 = -1 :=
  pseudo_time_mono major older _ _ rev1 rev2 hbase (formatUnix_ts s1 h11 h12) (formatUnix_ts s2 h21 h22) r1 r2
    (formatUnix_mono s1 s2 h11 h12 h21 h22 h)

/-- two instants one second apart across a leap day: 2024-02-29T23:59:59Z and 2024-03-01T00:00:00Z -/
example : (-62135596800 : Int) ≤ 1709251199 ∧ (1709251200 : Int) ≤ 253402300799 ∧ (1709251199 : Int) < 1709251200
    ∧ civilFromUnix 1709251199 = (2024, 2, 29, 23, 59, 59) ∧ civilFromUnix 1709251200 = (2024, 3, 1, 0, 0, 0) := by decide

/-- The zero pseudo-version (time.Time{} and twelve zeros) is recognised as a pseudo-version and is
    exactly what IsZeroPseudoVersion accepts for its major version. -/
theorem zeroPseudo_recognised :
    (zeroPseudoVersion []).toOption = some [118, 48, 46, 48, 46, 48, 45, 48, 48, 48, 49, 48, 49, 48, 49, 48, 48, 48, 48, 48, 48, 45,
      48, 48, 48, 48, 48, 48, 48, 48, 48, 48, 48, 48]                          -- "v0.0.0-00010101000000-000000000000"
    ∧ (zeroPseudoVersion []).toOption.map isPseudoVersion = some true
    ∧ (zeroPseudoVersion []).toOption.map isZeroPseudoVersion = some true := by decide

end ModVerif.Props.C18
