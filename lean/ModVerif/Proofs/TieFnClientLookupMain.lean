/-
  Tie of `Client.Lookup` (Generated/FnClient.lean) with its `c.record.Do` closure against the hand model's `lookupWork` /
  `lookup` (Model/Client.lean), under the representation relation of Proofs/TieFnClientRep.lean and the correspondences
  of `Client_mergeLatest` / `Client_checkRecord` taken as hypotheses (`MergeLatestSpec`, `CheckRecordSpec`).
-/
import ModVerif.Proofs.TieFnClientLookupInit
import ModVerif.Tie.FnModule
import ModVerif.Tie.FnTlogNote
set_option linter.unusedSectionVars false
set_option linter.unusedSimpArgs false
namespace ModVerif.TieFnClientLookup
open ModVerif ModVerif.GoRt ModVerif.GoRtTile ModVerif.Generated.SumdbClient ModVerif.TieFnClientRep
open ModVerif.TieFnTile (toGen)

section
variable {σ H : Type} [DecidableEq H] [Inhabited H]

/-! ### the model's `lookupWork`, in two steps -/

/-- where the response comes from: the on-disk cache, or else the server -/
def lwGot (E : Client.Env σ) (w : Client.World σ H) (file remotePath : Bytes) :
    Option (Bytes × Bool) × Client.World σ H :=
  match (Client.readCache E w file).1 with
  | some data => (some (data, false), (Client.readCache E w file).2)
  | none =>
    match (Client.readRemote E (Client.readCache E w file).2 remotePath).1 with
    | some data => (some (data, true), (Client.readRemote E (Client.readCache E w file).2 remotePath).2)
    | none => (none, (Client.readRemote E (Client.readCache E w file).2 remotePath).2)

/-- validation of the response -/
def lwCont (P : Client.Params H) (E : Client.Env σ) (w : Client.World σ H) (file data : Bytes) (wc : Bool) :
    Except Client.Err Bytes × Client.World σ H :=
  match TlogNote.parseRecord data with
  | none => (.error .recordSyntax, w)
  | some (id, text, treeMsg) =>
    match (Client.mergeLatest P E w treeMsg).1 with
    | .error e => (.error e, (Client.mergeLatest P E w treeMsg).2)
    | .ok () =>
      match (Client.checkRecord P E (Client.mergeLatest P E w treeMsg).2 id text).1 with
      | .error e => (.error e, (Client.checkRecord P E (Client.mergeLatest P E w treeMsg).2 id text).2)
      | .ok () =>
        (.ok data, if wc then Client.writeCache E (Client.checkRecord P E (Client.mergeLatest P E w treeMsg).2 id text).2 file data
                   else (Client.checkRecord P E (Client.mergeLatest P E w treeMsg).2 id text).2)

theorem lookupWork_eq (P : Client.Params H) (E : Client.Env σ) (w : Client.World σ H) (file remotePath : Bytes) :
    Client.lookupWork P E w file remotePath =
      match (lwGot E w file remotePath).1 with
      | none => (.error .remote, (lwGot E w file remotePath).2)
      | some (data, wc) => lwCont P E (lwGot E w file remotePath).2 file data wc := by
  unfold Client.lookupWork lwGot lwCont
  cases h1 : (Client.readCache E w file).1 with
  | some d =>
    simp only [h1]
    cases hp : TlogNote.parseRecord d with
    | none => rfl
    | some x =>
      obtain ⟨id, text, treeMsg⟩ := x
      simp only []
      cases hm : (Client.mergeLatest P E (Client.readCache E w file).2 treeMsg).1 with
      | error e => rfl
      | ok u =>
        cases u
        simp only []
        cases hk : (Client.checkRecord P E (Client.mergeLatest P E (Client.readCache E w file).2 treeMsg).2 id text).1 with
        | error e => rfl
        | ok u => cases u; rfl
  | none =>
    simp only [h1]
    cases h2 : (Client.readRemote E (Client.readCache E w file).2 remotePath).1 with
    | some d =>
      simp only [h2]
      cases hp : TlogNote.parseRecord d with
      | none => rfl
      | some x =>
        obtain ⟨id, text, treeMsg⟩ := x
        simp only []
        cases hm : (Client.mergeLatest P E (Client.readRemote E (Client.readCache E w file).2 remotePath).2 treeMsg).1 with
        | error e => rfl
        | ok u =>
          cases u
          simp only []
          cases hk : (Client.checkRecord P E (Client.mergeLatest P E (Client.readRemote E (Client.readCache E w file).2 remotePath).2 treeMsg).2 id text).1 with
          | error e => rfl
          | ok u => cases u; rfl
    | none => simp only [h2]

/-! ### the closure passed to `c.record.Do` -/

/-- side conditions of the validation of a response `data` in the model world `w` -/
def ContAdm (P : Client.Params H) (E : Client.Env σ) (AM : Nat → Client.World σ H → Bytes → Prop)
    (AC : Nat → Client.World σ H → Int → Bytes → Prop) (fuel : Nat) (w : Client.World σ H) (data : Bytes) : Prop :=
  data.length + 1 ≤ fuel ∧
  match TlogNote.parseRecord data with
  | none => True
  | some (id, text, treeMsg) =>
    AM fuel w treeMsg ∧
    match (Client.mergeLatest P E w treeMsg).1 with
    | .error _ => True
    | .ok () => AC fuel (Client.mergeLatest P E w treeMsg).2 id text

/-- side conditions of `lookupWork` -/
def LookupWorkAdm (P : Client.Params H) (E : Client.Env σ) (AM : Nat → Client.World σ H → Bytes → Prop)
    (AC : Nat → Client.World σ H → Int → Bytes → Prop) (fuel : Nat) (w : Client.World σ H) (file remotePath : Bytes) : Prop :=
  match (lwGot E w file remotePath).1 with
  | none => True
  | some (data, _) => ContAdm P E AM AC fuel (lwGot E w file remotePath).2 data

theorem parseRecordX_eq (fuel : Nat) (data : Bytes) (hf : data.length + 1 ≤ fuel) :
    parseRecordX fuel data = .ok (TieFnTlogNote.prOut (TlogNote.parseRecord data)) :=
  Tie.FnTlogNote.ParseRecord_tie data fuel hf

theorem cont_tie (P : Client.Params H) (E : Client.Env σ) (AM : Nat → Client.World σ H → Bytes → Prop)
    (AC : Nat → Client.World σ H → Int → Bytes → Prop) (hM : MergeLatestSpec P E AM) (hC : CheckRecordSpec P E AC)
    (w : Client.World σ H) (cw0 cwA : GW σ H) (fuel : Nat) (file remotePath data : Bytes) (wc : Bool)
    (hs : LookupSrc (envOf P E) remotePath file cw0 data wc cwA) (hr : RepRun P E w cwA)
    (ha : ContAdm P E AM AC fuel w data) :
    ∃ cv cw', Client_Lookup_cacheFn1 (envOf P E) fuel remotePath file cw0 = .ok (cv, cw') ∧
      RepRun P E (lwCont P E w file data wc).2 cw' ∧ RepCached cv (lwCont P E w file data wc).1 ∧
      cw'.initDone = cwA.initDone ∧ cw'.initErr = cwA.initErr := by
  obtain ⟨hf, ha⟩ := ha
  have hp := parseRecordX_eq fuel data hf
  unfold lwCont
  cases hpr : TlogNote.parseRecord data with
  | none =>
    rw [hpr] at hp
    refine ⟨_, _, cacheFn_parseErr _ _ _ _ _ _ _ _ hs _ _ _ _ hp, hr, ?_, rfl, rfl⟩
    exact ⟨_, rfl, errAbs_recordSyntax⟩
  | some x =>
    obtain ⟨id, text, treeMsg⟩ := x
    rw [hpr] at hp ha
    simp only at ha ⊢
    have hp' : parseRecordX fuel data = .ok (id, text, treeMsg, none) := hp
    obtain ⟨ham, ha⟩ := ha
    obtain ⟨r', cwB, hm, hrB, hresB, hdB, heB⟩ := hM w cwA treeMsg fuel hr ham
    cases hmr : (Client.mergeLatest P E w treeMsg).1 with
    | error e =>
      rw [hmr] at hresB
      obtain ⟨s, rfl, hs'⟩ := hresB
      simp only []
      refine ⟨_, _, cacheFn_mergeErr _ _ _ _ _ _ _ _ _ hs _ _ _ _ hp' hm, hrB, ?_, hdB, heB⟩
      exact ⟨_, rfl, hs'⟩
    | ok u =>
      cases u
      rw [hmr] at hresB ha
      have hr' : r' = none := hresB
      subst hr'
      simp only at ha ⊢
      obtain ⟨r'', cwC, hk, hrC, hresC, hdC, heC⟩ := hC _ cwB id text fuel hrB ha
      cases hkr : (Client.checkRecord P E (Client.mergeLatest P E w treeMsg).2 id text).1 with
      | error e =>
        rw [hkr] at hresC
        obtain ⟨s, rfl, hs'⟩ := hresC
        simp only []
        refine ⟨_, _, cacheFn_checkErr _ _ _ _ _ _ _ _ _ _ hs _ _ _ _ hp' hm hk, hrC, ?_, hdC.trans hdB, heC.trans heB⟩
        exact ⟨_, rfl, hs'⟩
      | ok u =>
        cases u
        rw [hkr] at hresC
        have hr'' : r'' = none := hresC
        subst hr''
        simp only []
        refine ⟨_, _, cacheFn_ok _ _ _ _ _ _ _ _ _ _ hs _ _ _ hp' hm hk, ?_, ⟨rfl, rfl⟩, ?_, ?_⟩
        · cases wc
          · exact hrC
          · simp only [if_true]
            rw [writeCache_eq (P := P) (E := E) hrC.s file data]
            exact hrC.of_frame (hrC.toRepCore.withS rfl) (withS_frame _ _) (frameM_of_c rfl)
        · cases wc
          · exact hdC.trans hdB
          · simp only [if_true]
            rw [writeCache_eq (P := P) (E := E) hrC.s file data]
            exact hdC.trans hdB
        · cases wc
          · exact heC.trans heB
          · simp only [if_true]
            rw [writeCache_eq (P := P) (E := E) hrC.s file data]
            exact heC.trans heB

/-- **the closure of `Lookup`** (`Client_Lookup_cacheFn1`) against the model's `lookupWork` -/
theorem lookupWork_tie (P : Client.Params H) (E : Client.Env σ) (AM : Nat → Client.World σ H → Bytes → Prop)
    (AC : Nat → Client.World σ H → Int → Bytes → Prop) (hM : MergeLatestSpec P E AM) (hC : CheckRecordSpec P E AC)
    (w : Client.World σ H) (cw : GW σ H) (fuel : Nat) (file remotePath : Bytes) (hr : RepRun P E w cw)
    (ha : LookupWorkAdm P E AM AC fuel w file remotePath) :
    ∃ cv cw', Client_Lookup_cacheFn1 (envOf P E) fuel remotePath file cw = .ok (cv, cw') ∧
      RepRun P E (Client.lookupWork P E w file remotePath).2 cw' ∧
      RepCached cv (Client.lookupWork P E w file remotePath).1 ∧
      cw'.initDone = cw.initDone ∧ cw'.initErr = cw.initErr := by
  rw [lookupWork_eq]
  unfold LookupWorkAdm at ha
  have hrc := readCache_eq (P := P) (E := E) hr.s file
  have hr1 : RepRun P E (Client.readCache E w file).2 (withS cw (Client.readCache E w file).2) :=
    hr.of_frame (hr.toRepCore.withS rfl) (withS_frame _ _) (frameM_of_c rfl)
  cases h1 : (Client.readCache E w file).1 with
  | some data =>
    have hg : lwGot E w file remotePath = (some (data, false), (Client.readCache E w file).2) := by
      unfold lwGot; simp only [h1]
    rw [hg] at ha ⊢
    simp only at ha ⊢
    rw [h1, readOut_some] at hrc
    obtain ⟨cv, cw', g1, g2, g3, g4, g5⟩ :=
      cont_tie P E AM AC hM hC _ cw (withS cw (Client.readCache E w file).2) fuel file remotePath data false
        (Or.inl ⟨hrc, rfl⟩) hr1 ha
    exact ⟨cv, cw', g1, g2, g3, g4, g5⟩
  | none =>
    rw [h1, readOut_none] at hrc
    have hrr := readRemote_eq (P := P) (E := E) (w := (Client.readCache E w file).2)
      (cw := withS cw (Client.readCache E w file).2) rfl remotePath
    have hr2 : RepRun P E (Client.readRemote E (Client.readCache E w file).2 remotePath).2
        (withS (withS cw (Client.readCache E w file).2) (Client.readRemote E (Client.readCache E w file).2 remotePath).2) :=
      hr1.of_frame (hr1.toRepCore.withS rfl) (withS_frame _ _) (frameM_of_c rfl)
    cases h2 : (Client.readRemote E (Client.readCache E w file).2 remotePath).1 with
    | some data =>
      have hg : lwGot E w file remotePath =
          (some (data, true), (Client.readRemote E (Client.readCache E w file).2 remotePath).2) := by
        unfold lwGot; simp only [h1, h2]
      rw [hg] at ha ⊢
      simp only at ha ⊢
      rw [h2, readOut_some] at hrr
      obtain ⟨cv, cw', g1, g2, g3, g4, g5⟩ :=
        cont_tie P E AM AC hM hC _ cw
          (withS (withS cw (Client.readCache E w file).2) (Client.readRemote E (Client.readCache E w file).2 remotePath).2)
          fuel file remotePath data true (Or.inr ⟨_, _, _, hrc, hrr, rfl⟩) hr2 ha
      exact ⟨cv, cw', g1, g2, g3, g4, g5⟩
    | none =>
      have hg : lwGot E w file remotePath =
          (none, (Client.readRemote E (Client.readCache E w file).2 remotePath).2) := by
        unfold lwGot; simp only [h1, h2]
      rw [hg]
      simp only []
      rw [h2, readOut_none] at hrr
      refine ⟨_, _, cacheFn_remoteErr _ _ _ _ _ _ _ _ _ _ _ hrc hrr, hr2, ?_, rfl, rfl⟩
      exact ⟨_, rfl, errAbs_remote⟩

/-! ### the calls of `Lookup` into package module -/

theorem skip_eq (P : Client.Params H) (E : Client.Env σ) (fuel : Nat) (path : Bytes)
    (hf : P.nosumdb.length + path.length + 1 ≤ fuel) :
    matchPrefixPatternsX (envOf P E) fuel P.nosumdb path = .ok (Module.matchPrefixPatterns P.glob P.nosumdb path) :=
  Tie.FnModule.MatchPrefixPatterns_tie (fun p n => (P.glob p n, none)) P.nosumdb path fuel hf

theorem escapePath_eq (P : Client.Params H) (E : Client.Env σ) (fuel : Nat) (path : Bytes)
    (hf : 2 * path.length + 24 ≤ fuel) :
    escapePathX (envOf P E) fuel path = .ok (TieFnModule.escResOf (Module.escapePath path)) :=
  Tie.FnModule.EscapePath_tie _ _ path fuel Tie.FnModule.foldOK_driver hf

theorem escapeVersion_eq (P : Client.Params H) (E : Client.Env σ) (fuel : Nat) (v : Bytes)
    (hf : v.length + 23 ≤ fuel) :
    escapeVersionX (envOf P E) fuel v = .ok (TieFnModule.escResOf (Module.escapeVersion P.isLetter v)) := by
  have h := Tie.FnModule.EscapeVersion_tie (envOf P E).equalFold (envOf P E).isLetter v fuel Tie.FnModule.foldOK_driver hf
  have hl : TieFnModule.natLetter (envOf P E).isLetter = P.isLetter := by
    funext n
    show P.isLetter ((n : Int)).toNat = P.isLetter n
    rw [Int.toNat_natCast]
  rw [hl] at h
  exact h

/-- every error of `EscapePath` / `EscapeVersion` is the model's `.escape` -/
theorem escRes_err (x : Module.EscErr) :
    ∃ s, TieFnModule.escResOf (.error x) = ([], some s) ∧ errAbs s = .escape := by
  cases x with
  | path e => exact ⟨_, rfl, by cases e <;> decide⟩
  | disallowed => exact ⟨_, rfl, by decide⟩
  | internal => exact ⟨_, rfl, by decide⟩

/-! ### the memo table of lookups -/

/-- the result of `c.record.Do(file, …)` in the model: the cached entry, or `lookupWork` and a new entry -/
def lookupRes (P : Client.Params H) (E : Client.Env σ) (w : Client.World σ H) (file remotePath : Bytes) :
    Except Client.Err Bytes × Client.World σ H :=
  match w.c.record.lookup file with
  | some r => (r, w)
  | none =>
    ((Client.lookupWork P E w file remotePath).1,
      { (Client.lookupWork P E w file remotePath).2 with
        c := { (Client.lookupWork P E w file remotePath).2.c with
          record := (file, (Client.lookupWork P E w file remotePath).1) :: (Client.lookupWork P E w file remotePath).2.c.record } })

theorem lookup_eq (P : Client.Params H) (E : Client.Env σ) (w : Client.World σ H) (path vers : Bytes) :
    Client.lookup P E w path vers =
      if Module.matchPrefixPatterns P.glob P.nosumdb path then (.error .gonosumdb, w) else
      match (Client.init P E w).c.inited with
      | some (some e) => (.error e, Client.init P E w)
      | _ =>
        match Module.escapePath path with
        | .error _ => (.error .escape, Client.init P E w)
        | .ok epath =>
          match Module.escapeVersion P.isLetter (Client.trimGoMod vers) with
          | .error _ => (.error .escape, Client.init P E w)
          | .ok evers =>
            match (lookupRes P E (Client.init P E w) ((Client.init P E w).c.name ++ (B "/lookup/" ++ epath ++ [64] ++ evers))
                (B "/lookup/" ++ epath ++ [64] ++ evers)).1 with
            | .error e => (.error e, (lookupRes P E (Client.init P E w)
                ((Client.init P E w).c.name ++ (B "/lookup/" ++ epath ++ [64] ++ evers)) (B "/lookup/" ++ epath ++ [64] ++ evers)).2)
            | .ok data => (.ok (Client.filterLines (path ++ [32] ++ vers ++ [32]) data), (lookupRes P E (Client.init P E w)
                ((Client.init P E w).c.name ++ (B "/lookup/" ++ epath ++ [64] ++ evers)) (B "/lookup/" ++ epath ++ [64] ++ evers)).2) := by
  unfold Client.lookup lookupRes
  rfl

theorem lwCont_inited (P : Client.Params H) (E : Client.Env σ) (w : Client.World σ H) (file data : Bytes) (wc : Bool) :
    (lwCont P E w file data wc).2.c.inited = w.c.inited := by
  unfold lwCont
  split
  · rfl
  · split
    · exact mergeLatest_inited E P w _
    · split
      · rw [checkRecord_inited, mergeLatest_inited]
      · cases wc
        · simp only [Bool.false_eq_true, if_false]; rw [checkRecord_inited, mergeLatest_inited]
        · simp only [if_true]
          show (Client.checkRecord P E _ _ _).2.c.inited = _
          rw [checkRecord_inited, mergeLatest_inited]

theorem lookupWork_inited (P : Client.Params H) (E : Client.Env σ) (w : Client.World σ H) (file remotePath : Bytes) :
    (Client.lookupWork P E w file remotePath).2.c.inited = w.c.inited := by
  rw [lookupWork_eq]
  have hg : (lwGot E w file remotePath).2.c.inited = w.c.inited := by
    unfold lwGot
    split
    · rfl
    · split <;> rfl
  split
  · exact hg
  · rw [lwCont_inited]; exact hg

/-- a new entry in both tables -/
theorem core_recordSet {P : Client.Params H} {E : Client.Env σ} {w : Client.World σ H} {cw : GW σ H}
    (h : RepCore P E w cw) (file : Bytes) (cv : Cached) (r : Except Client.Err Bytes) (hr : RepCached cv r) :
    RepCore P E { w with c := { w.c with record := (file, r) :: w.c.record } }
      { cw with record := mapSet cw.record file cv } := by
  refine { s := h.s, name := h.name, verifiers := h.verifiers, vlen := h.vlen, nosumdb := h.nosumdb, record := ?_,
           tileCache := h.tileCache, latestN := h.latestN, latestMsg := h.latestMsg, tileSaved := h.tileSaved }
  intro k
  show RepOpt RepCached (mapLookup (mapSet cw.record file cv) k) (((file, r) :: w.c.record).lookup k)
  rw [mapLookup_mapSet, List.lookup_cons]
  by_cases hk : file = k
  · subst hk
    simp only [if_true, beq_self_eq_true]
    exact hr
  · have hk' : (k == file) = false := by
      simp only [beq_eq_false_iff_ne, ne_eq]; exact fun e => hk e.symm
    simp only [hk, if_false, hk']
    exact h.record k

/-- `c.record.Do(file, …)` on both sides -/
theorem recordDo_tie (P : Client.Params H) (E : Client.Env σ) (AM : Nat → Client.World σ H → Bytes → Prop)
    (AC : Nat → Client.World σ H → Int → Bytes → Prop) (hM : MergeLatestSpec P E AM) (hC : CheckRecordSpec P E AC)
    (w : Client.World σ H) (cw : GW σ H) (fuel : Nat) (file remotePath : Bytes) (hW : RepW P E w cw)
    (hin : w.c.inited = some none)
    (ha : w.c.record.lookup file = none → LookupWorkAdm P E AM AC fuel w file remotePath) :
    ∃ hit cw', recordDo (envOf P E) fuel remotePath file cw = .ok (hit, cw') ∧
      RepW P E (lookupRes P E w file remotePath).2 cw' ∧ RepCached hit (lookupRes P E w file remotePath).1 ∧
      (lookupRes P E w file remotePath).2.c.inited = some none := by
  unfold recordDo lookupRes
  rw [mapGet_eq]
  have hrec := hW.record file
  cases hl : w.c.record.lookup file with
  | some r =>
    rw [hl] at hrec
    cases hm : mapLookup cw.record file with
    | none => rw [hm] at hrec; exact absurd hrec (by simp [RepOpt])
    | some hit =>
      rw [hm] at hrec
      exact ⟨hit, cw, rfl, hW, hrec, hin⟩
  | none =>
    rw [hl] at hrec
    cases hm : mapLookup cw.record file with
    | some hit => rw [hm] at hrec; exact absurd hrec (by simp [RepOpt])
    | none =>
      have hrun := hW.run hin
      have hi := hW.init
      unfold RepInit at hi
      rw [hin] at hi
      obtain ⟨cv, cw3, h1, h2, h3, h4, h5⟩ :=
        lookupWork_tie P E AM AC hM hC w cw fuel file remotePath hrun (ha hl)
      have hinit : (Client.lookupWork P E w file remotePath).2.c.inited = some none := by
        rw [lookupWork_inited]; exact hin
      refine ⟨cv, { cw3 with record := mapSet cw3.record file cv }, ?_, ?_, h3, hinit⟩
      · simp only [h1, bind, Except.bind, pure, Except.pure]
      · refine { toRepCore := core_recordSet h2.toRepCore file cv _ h3, init := ?_ }
        unfold RepInit
        simp only [hinit]
        exact ⟨h4.trans hi.1, h5.trans hi.2.1, h2.tileHeight, h2.latestHash⟩

/-! ### `Client.Lookup` -/

/-- the invariant between two calls of `Lookup`: the worlds correspond, and nothing has been marked saved before
    `initWork` has run (`initWork` resets `c.tileSaved`; the model's `newClient` starts with the empty list) -/
def RepL (P : Client.Params H) (E : Client.Env σ) (w : Client.World σ H) (cw : GW σ H) : Prop :=
  RepW P E w cw ∧ (w.c.inited = none → w.c.tileSaved = [])

/-- the side conditions of one `Lookup`: fuel for the scans of `path` / `vers` / the `GONOSUMDB` list and of the response,
    and the side conditions of `mergeLatest` / `checkRecord` at the points where the model calls them -/
def LookupAdm (P : Client.Params H) (E : Client.Env σ) (AM : Nat → Client.World σ H → Bytes → Prop)
    (AC : Nat → Client.World σ H → Int → Bytes → Prop) (fuel : Nat) (w : Client.World σ H) (path vers : Bytes) : Prop :=
  P.nosumdb.length + path.length + 1 ≤ fuel ∧ 2 * path.length + 24 ≤ fuel ∧
  (Client.trimGoMod vers).length + 23 ≤ fuel ∧
  (Module.matchPrefixPatterns P.glob P.nosumdb path = false →
    (w.c.inited = none → InitAdm P E AM fuel w) ∧
    ((Client.init P E w).c.inited = some none → ∀ epath evers, Module.escapePath path = .ok epath →
      Module.escapeVersion P.isLetter (Client.trimGoMod vers) = .ok evers →
      ((Client.init P E w).c.record.lookup ((Client.init P E w).c.name ++ (B "/lookup/" ++ epath ++ [64] ++ evers)) = none →
        LookupWorkAdm P E AM AC fuel (Client.init P E w)
          ((Client.init P E w).c.name ++ (B "/lookup/" ++ epath ++ [64] ++ evers)) (B "/lookup/" ++ epath ++ [64] ++ evers)) ∧
      ∀ data, (lookupRes P E (Client.init P E w) ((Client.init P E w).c.name ++ (B "/lookup/" ++ epath ++ [64] ++ evers))
          (B "/lookup/" ++ epath ++ [64] ++ evers)).1 = .ok data → data.length + 2 ≤ fuel))

theorem Lookup_tie_aux (P : Client.Params H) (E : Client.Env σ) (AM : Nat → Client.World σ H → Bytes → Prop)
    (AC : Nat → Client.World σ H → Int → Bytes → Prop) (hM : MergeLatestSpec P E AM) (hC : CheckRecordSpec P E AC)
    (hsha : ∀ x, 4 ≤ (P.sha x).length)
    (w : Client.World σ H) (cw : GW σ H) (fuel : Nat) (path vers : Bytes) (h : RepL P E w cw)
    (ha : LookupAdm P E AM AC fuel w path vers) :
    ∃ r' cw', Client_Lookup (envOf P E) fuel path vers cw = .ok (r', cw') ∧
      RepL P E (Client.lookup P E w path vers).2 cw' ∧ RepRes r' (Client.lookup P E w path vers).1 := by
  obtain ⟨hW, hts⟩ := h
  obtain ⟨hf1, hf2, hf3, ha⟩ := ha
  have hskip := skip_eq P E fuel path hf1
  rw [← hW.nosumdb] at hskip
  rw [lookup_eq]
  cases hsk : Module.matchPrefixPatterns P.glob P.nosumdb path with
  | true =>
    rw [hW.nosumdb, hsk] at hskip
    rw [← hW.nosumdb] at hskip
    simp only [if_true]
    refine ⟨_, _, lookup_skip _ _ _ _ _ hskip, ⟨repW_didLookup hW 1, hts⟩, ?_⟩
    exact ⟨_, rfl, errAbs_gonosumdb⟩
  | false =>
    rw [hW.nosumdb, hsk] at hskip
    rw [← hW.nosumdb] at hskip
    simp only [Bool.false_eq_true, if_false]
    obtain ⟨hai, hal⟩ := ha hsk
    obtain ⟨cw2, hi, hW2⟩ := init_tie P E AM hM hsha w _ fuel (repW_didLookup hW 1) hts hai
    have hne := init_inited P E w
    have hL2 : RepL P E (Client.init P E w) cw2 := ⟨hW2, fun h0 => absurd h0 hne⟩
    have hi2 := hW2.init
    unfold RepInit at hi2
    cases hin : (Client.init P E w).c.inited with
    | none => exact absurd hin hne
    | some x =>
      cases x with
      | some e =>
        rw [hin] at hi2
        obtain ⟨_, s, hs1, hs2⟩ := hi2
        rw [hs1] at hi
        simp only []
        refine ⟨_, _, lookup_initErr _ _ _ _ _ _ _ hskip hi, hL2, ?_⟩
        exact errAbs_wrap _ lookupLit_pass _ _ ⟨s, rfl, hs2⟩
      | none =>
        rw [hin] at hi2
        obtain ⟨hd2, he2, hth2, hh2⟩ := hi2
        rw [he2] at hi
        simp only []
        have hep := escapePath_eq P E fuel path hf2
        cases hp : Module.escapePath path with
        | error x =>
          rw [hp] at hep
          obtain ⟨s, hs1, hs2⟩ := escRes_err x
          rw [hs1] at hep
          simp only []
          refine ⟨_, _, lookup_pathErr _ _ _ _ _ _ _ _ hskip hi hep, hL2, ?_⟩
          exact errAbs_wrap _ lookupLit_pass _ _ ⟨s, rfl, hs2⟩
        | ok epath =>
          rw [hp] at hep
          have hep' : escapePathX (envOf P E) fuel path = .ok (epath, none) := hep
          simp only []
          have hev := escapeVersion_eq P E fuel (Client.trimGoMod vers) hf3
          rw [← trimSuffix_gomod] at hev
          cases hv : Module.escapeVersion P.isLetter (Client.trimGoMod vers) with
          | error x =>
            rw [← trimSuffix_gomod] at hv
            rw [hv] at hev
            obtain ⟨s, hs1, hs2⟩ := escRes_err x
            rw [hs1] at hev
            simp only []
            refine ⟨_, _, lookup_versErr _ _ _ _ _ _ _ _ _ hskip hi hep' hev, hL2, ?_⟩
            exact errAbs_wrap _ lookupLit_pass _ _ ⟨s, rfl, hs2⟩
          | ok evers =>
            obtain ⟨halw, hald⟩ := hal hin epath evers hp hv
            rw [← trimSuffix_gomod] at hv
            rw [hv] at hev
            have hev' : escapeVersionX (envOf P E) fuel (trimSuffix vers [47, 103, 111, 46, 109, 111, 100]) = .ok (evers, none) := hev
            simp only []
            obtain ⟨hit, cw3, hr, hW3, hc3, hin3⟩ :=
              recordDo_tie P E AM AC hM hC (Client.init P E w) cw2 fuel
                ((Client.init P E w).c.name ++ (B "/lookup/" ++ epath ++ [64] ++ evers)) (B "/lookup/" ++ epath ++ [64] ++ evers)
                hW2 hin halw
            rw [← hW2.name, ← remotePath_eq] at hr
            have hL3 : RepL P E (lookupRes P E (Client.init P E w)
                ((Client.init P E w).c.name ++ (B "/lookup/" ++ epath ++ [64] ++ evers)) (B "/lookup/" ++ epath ++ [64] ++ evers)).2 cw3 :=
              ⟨hW3, fun h0 => by rw [hin3] at h0; cases h0⟩
            cases hres : (lookupRes P E (Client.init P E w)
                ((Client.init P E w).c.name ++ (B "/lookup/" ++ epath ++ [64] ++ evers)) (B "/lookup/" ++ epath ++ [64] ++ evers)).1 with
            | error e =>
              rw [hres] at hc3
              obtain ⟨s, hs1, hs2⟩ := hc3
              simp only []
              refine ⟨_, _, lookup_recErr _ _ _ _ _ _ _ _ _ _ _ hskip hi hep' hev' hr hs1, hL3, ?_⟩
              exact errAbs_wrap _ lookupLit_pass _ _ ⟨s, rfl, hs2⟩
            | ok data =>
              rw [hres] at hc3
              obtain ⟨hs1, hs2⟩ := hc3
              simp only at hs1 hs2
              simp only []
              have hfd : hit.data.length + 2 ≤ fuel := by rw [hs2]; exact hald data hres
              refine ⟨_, _, lookup_ok _ _ _ _ _ _ _ _ _ _ hskip hi hep' hev' hr hs1 hfd, hL3, ?_⟩
              rw [hs2]
              exact ⟨rfl, rfl⟩

end
end ModVerif.TieFnClientLookup
