/-
  Helpers for Tie/FnTileW.lean, part 2: the WORLD-MODE `tileHashReader.ReadHashes` reduced to the pure regeneration.
-/
import ModVerif.Proofs.TieFnTileW
namespace ModVerif.TieFnTileW
open ModVerif ModVerif.GoRt ModVerif.GoRtList
open ModVerif.Generated.Tile (Tile Tree TileReader)

/-! ### the pure loops return the effect log they were given -/

theorem ret_log {A E S : Type} (eff : E) (x : M (Ctl (A × E) S)) (hx : x = mapRet eff x) (a : A) (e : E)
    (h : x = .ok (.ret (a, e))) : e = eff := by
  rw [h] at hx
  simp only [mapRet_ok_ret, Except.ok.injEq, Ctl.ret.injEq, Prod.mk.injEq, true_and] at hx
  exact hx

section
variable {H : Type} [DecidableEq H] [Inhabited H] (node : H → H → H) (ofBytes : Bytes → H)

theorem loop5_fix (tiles : List Tile) (data : List Bytes) (eff : Log) : ∀ (fuel : Nat) (i : Int),
    Generated.Tile.tileHashReader_ReadHashes_loop5 node ofBytes tiles data eff fuel i =
      mapRet eff (Generated.Tile.tileHashReader_ReadHashes_loop5 node ofBytes tiles data eff fuel i) := by
  intro fuel
  induction fuel with
  | zero => intro i; rfl
  | succ f ih =>
    intro i
    simp only [Generated.Tile.tileHashReader_ReadHashes_loop5, mapRet_ite, mapRet_bind, pure_eq_ok, mapRet_ok_ret,
      mapRet_ok_next, ← ih]

theorem loop6_fix (tiles : List Tile) (stx sto : List Int) (data : List Bytes) (eff : Log) :
    ∀ (fuel : Nat) (th : H) (i : Int),
    Generated.Tile.tileHashReader_ReadHashes_loop6 node ofBytes tiles stx sto data eff fuel th i =
      mapRet eff (Generated.Tile.tileHashReader_ReadHashes_loop6 node ofBytes tiles stx sto data eff fuel th i) := by
  intro fuel
  induction fuel with
  | zero => intros; rfl
  | succ f ih =>
    intro th i
    simp only [Generated.Tile.tileHashReader_ReadHashes_loop6, mapRet_ite, mapRet_bind, pure_eq_ok, mapRet_ok_ret,
      mapRet_ok_next, ← ih]

theorem loop7_fix (rp : Generated.Tile.tileHashReader H)
    (indexes : List Int) (order : List (Tile × Int)) (tiles : List Tile) (data : List Bytes) (eff : Log) :
    ∀ (fuel : Nat) (i : Int),
    Generated.Tile.tileHashReader_ReadHashes_loop7 node ofBytes rp indexes order tiles data eff fuel i =
      mapRet eff (Generated.Tile.tileHashReader_ReadHashes_loop7 node ofBytes rp indexes order tiles data eff fuel i) := by
  intro fuel
  induction fuel with
  | zero => intros; rfl
  | succ f ih =>
    intro i
    simp only [Generated.Tile.tileHashReader_ReadHashes_loop7, mapRet_ite, mapRet_bind, pure_eq_ok, mapRet_ok_ret,
      mapRet_ok_next, ← ih]

theorem loop8_fix (rp : Generated.Tile.tileHashReader H)
    (indexes : List Int) (tiles : List Tile) (ito : List Int) (data : List Bytes) (eff : Log) :
    ∀ (fuel : Nat) (i : Int) (hs : List H),
    Generated.Tile.tileHashReader_ReadHashes_loop8 node ofBytes rp indexes tiles ito data eff fuel i hs =
      mapRet eff (Generated.Tile.tileHashReader_ReadHashes_loop8 node ofBytes rp indexes tiles ito data eff fuel i hs) := by
  intro fuel
  induction fuel with
  | zero => intros; rfl
  | succ f ih =>
    intro i hs
    simp only [Generated.Tile.tileHashReader_ReadHashes_loop8, mapRet_ite, mapRet_bind, pure_eq_ok, mapRet_ok_ret,
      mapRet_ok_next, ← ih]

theorem loop4_fix (rp : Generated.Tile.tileHashReader H) (i1 x1 : Int) (tile1 : Tile) (eff : Log) :
    ∀ (fuel : Nat) (b : List (Tile × Int)) (a : List Int) (c : List Tile) (k : Int),
    Generated.Tile.tileHashReader_ReadHashes_loop4 node ofBytes rp i1 x1 tile1 eff fuel b a c k =
      mapRet eff (Generated.Tile.tileHashReader_ReadHashes_loop4 node ofBytes rp i1 x1 tile1 eff fuel b a c k) := by
  intro fuel
  induction fuel with
  | zero => intros; rfl
  | succ f ih =>
    intro b a c k
    simp only [Generated.Tile.tileHashReader_ReadHashes_loop4, mapRet_ite, mapRet_bind, pure_eq_ok, mapRet_ok_ret,
      mapRet_ok_next, ← ih]

theorem loop2_fix (rp : Generated.Tile.tileHashReader H) (indexes : List Int) (h : Int) (eff : Log) :
    ∀ (fuel : Nat) (i : Int) (a : List Int) (b : List (Tile × Int)) (c : List Tile),
    Generated.Tile.tileHashReader_ReadHashes_loop2 node ofBytes rp indexes h eff fuel i a b c =
      mapRet eff (Generated.Tile.tileHashReader_ReadHashes_loop2 node ofBytes rp indexes h eff fuel i a b c) := by
  intro fuel
  induction fuel with
  | zero => intros; rfl
  | succ f ih =>
    intro i a b c
    simp only [Generated.Tile.tileHashReader_ReadHashes_loop2, mapRet_ite, mapRet_bind, pure_eq_ok, mapRet_ok_ret,
      mapRet_ok_next]
    split
    · congr 1; funext x1
      congr 1; funext t12
      split
      · rfl
      · congr 1; funext t13
        congr 1; funext x4
        congr 1; funext t16
        have h4 := loop4_fix node ofBytes rp i x1 t13.1 eff f b x4.1 c t16
        generalize Generated.Tile.tileHashReader_ReadHashes_loop4 node ofBytes rp i x1 t13.1 eff f b x4.1 c t16 = x at h4 ⊢
        cases x with
        | error e => rfl
        | ok cc =>
          cases cc with
          | ret rv =>
            obtain ⟨v, e⟩ := rv
            have := ret_log eff _ h4 v e rfl
            subst this
            rfl
          | next s =>
            obtain ⟨s1, s2, s3, s4⟩ := s
            exact ih _ _ _ _
    · rfl

/-! ### agreement up to the choice of the `M`-error -/

/-- `x` and `y` have the same successful results (and fail together, possibly with different `M`-errors) -/
def EqE {α : Type} (x y : M α) : Prop := ∀ a, x = .ok a ↔ y = .ok a

theorem EqE.refl {α : Type} (x : M α) : EqE x x := fun _ => Iff.rfl

theorem EqE.of_eq {α : Type} {x y : M α} (h : x = y) : EqE x y := by subst h; exact EqE.refl _

theorem EqE.errors {α : Type} (e e' : Err) : EqE (.error e : M α) (.error e') := by
  intro a; constructor <;> intro h <;> cases h

theorem EqE.bind {α β : Type} (x : M α) (f g : α → M β) (h : ∀ a, x = .ok a → EqE (f a) (g a)) :
    EqE (x >>= f) (x >>= g) := by
  cases x with
  | error e => exact EqE.refl _
  | ok a => exact h a rfl

theorem EqE.ite {α : Type} (c : Prop) [Decidable c] (a b a' b' : M α) (h1 : EqE a a') (h2 : EqE b b') :
    EqE (if c then a else b) (if c then a' else b') := by
  split
  · exact h1
  · exact h2

theorem EqE.ok_left {α : Type} {x y : M α} (h : EqE x y) (a : α) (hy : y = .ok a) : x = .ok a := (h a).2 hy

theorem EqE.error_left {α : Type} {x y : M α} (h : EqE x y) (e : Err) (hy : y = .error e) : ∃ e', x = .error e' := by
  cases hx : x with
  | error e' => exact ⟨e', rfl⟩
  | ok a => have := (h a).1 hx; rw [hy] at this; cases this

/-! ### the reduction -/

/-- the `ReadTiles` function of the reader the pure version is run with: what the world function `readTiles` answers in the
    world `w1` (the world after the `Height` call; an `M`-error of `readTiles` aborts the world-mode function and is
    presented here as an error text that is never looked at) -/
def readTilesAt {W : Type} (readTiles : List Tile → W → M ((List Bytes × Option String) × W)) (w1 : W) :
    List Tile → List Bytes × Option String := fun ts =>
  match readTiles ts w1 with
  | .ok (de, _) => de
  | .error _ => ([], some "aborted")

/-- the planning phase of the pure `ReadHashes` (its code up to the `ReadTiles` call): `some tiles` iff `ReadTiles` is
    called, and then with `tiles` -/
def planG (fuel : Nat) (rp : Generated.Tile.tileHashReader H) (indexes : List Int) : M (Option (List Tile)) := do
  let stx ← Generated.Tlog.subTreeIndex fuel 0 rp.tree.N []
  let sto ← makeList (len stx) (0 : Int)
  let (_, _, order, tiles) ← Generated.Tile.tileHashReader_ReadHashes_loop1 node ofBytes rp rp.tr.Height stx [] fuel 0 sto [] []
  let ito ← makeList (len indexes) (0 : Int)
  let r22 ← Generated.Tile.tileHashReader_ReadHashes_loop2 node ofBytes rp indexes rp.tr.Height [] fuel 0 ito order tiles
  match r22 with
  | .ret _ => pure none
  | .next (_, _, _, tiles) => if len stx = 0 then pure none else pure (some tiles)

/-- the world after a run whose pure counterpart has effect log `log`: `SaveTiles` on each entry -/
def saveLog {W : Type} (saveTiles : List Tile → List Bytes → W → M (Unit × W)) : Log → W → M W
  | [], w => .ok w
  | (ts, ds) :: rest, w =>
    match saveTiles ts ds w with
    | .error e => .error e
    | .ok (_, w') => saveLog saveTiles rest w'

/-- the pure result `(res, log)` in the world `w`: the value, and the world after `SaveTiles` of the log -/
def finishW {W A : Type} (saveTiles : List Tile → List Bytes → W → M (Unit × W)) (w : W) (x : M (A × Log)) : M (A × W) :=
  match x with
  | .error e => .error e
  | .ok (res, log) =>
    match saveLog saveTiles log w with
    | .error e => .error e
    | .ok w' => .ok (res, w')

/-- the right-hand side of the reduction, after the `Height` call returned `(h, w1)` -/
def stagedW {W : Type} (readTiles : List Tile → W → M ((List Bytes × Option String) × W))
    (saveTiles : List Tile → List Bytes → W → M (Unit × W)) (fuel : Nat) (rp : Generated.Tile.tileHashReader H)
    (indexes : List Int) (w1 : W) : M ((List H × Option String) × W) :=
  match planG node ofBytes fuel rp indexes with
  | .error e => .error e
  | .ok none => finishW saveTiles w1 (Generated.Tile.tileHashReader_ReadHashes node ofBytes fuel rp indexes)
  | .ok (some tiles) =>
    match readTiles tiles w1 with
    | .error e => .error e
    | .ok (_, w2) => finishW saveTiles w2 (Generated.Tile.tileHashReader_ReadHashes node ofBytes fuel rp indexes)

theorem finishW_bind {W A β : Type} (saveTiles : List Tile → List Bytes → W → M (Unit × W)) (w : W) (x : M β)
    (f : β → M (A × Log)) : finishW saveTiles w (x >>= f) = x >>= fun b => finishW saveTiles w (f b) := by
  cases x <;> rfl

theorem finishW_ite {W A : Type} (saveTiles : List Tile → List Bytes → W → M (Unit × W)) (w : W) (c : Prop) [Decidable c]
    (a b : M (A × Log)) :
    finishW saveTiles w (if c then a else b) = if c then finishW saveTiles w a else finishW saveTiles w b := by
  split <;> rfl

@[simp] theorem finishW_ok_nil {W A : Type} (saveTiles : List Tile → List Bytes → W → M (Unit × W)) (w : W) (res : A) :
    finishW saveTiles w (.ok (res, [])) = .ok (res, w) := rfl

@[simp] theorem finishW_error {W A : Type} (saveTiles : List Tile → List Bytes → W → M (Unit × W)) (w : W) (e : Err) :
    finishW (A := A) saveTiles w (.error e) = .error e := rfl

theorem finishW_ok_one {W A : Type} (saveTiles : List Tile → List Bytes → W → M (Unit × W)) (w : W) (res : A)
    (ts : List Tile) (ds : List Bytes) :
    finishW saveTiles w (.ok (res, [(ts, ds)])) = (saveTiles ts ds w >>= fun t => pure (res, t.2)) := by
  simp only [finishW, saveLog]
  cases saveTiles ts ds w with
  | error e => rfl
  | ok v => obtain ⟨u, w'⟩ := v; rfl

theorem makeList_len {α β : Type} (l : List β) (z : α) : makeList (len l) z = .ok (List.replicate l.length z) := by
  simp [makeList, len]

variable {W : Type} (height : W → M (Int × W))
  (readTiles : List Tile → W → M ((List Bytes × Option String) × W))
  (saveTiles : List Tile → List Bytes → W → M (Unit × W))

theorem ReadHashes_staged (fuel : Nat) (r : Generated.TileW.tileHashReader H) (rp : Generated.Tile.tileHashReader H)
    (indexes : List Int) (w w1 : W) (h : Int) (hh : height w = .ok (h, w1)) (hr : r.tree = rp.tree)
    (hH : rp.tr.Height = h) (hRT : rp.tr.ReadTiles = readTilesAt readTiles w1) :
    EqE (Generated.TileW.tileHashReader_ReadHashes height node ofBytes readTiles saveTiles fuel r indexes w)
      (stagedW node ofBytes readTiles saveTiles fuel rp indexes w1) := by
  unfold Generated.TileW.tileHashReader_ReadHashes stagedW planG Generated.Tile.tileHashReader_ReadHashes
  simp only [hh, ok_bind, hr, hH,
    loop1_eq height node ofBytes readTiles saveTiles r rp hr _ _ _ ([] : Log),
    loop2_eq height node ofBytes readTiles saveTiles r rp hr _ _ _ ([] : Log)]
  cases h1 : Generated.Tlog.subTreeIndex fuel 0 rp.tree.N [] with
  | error e => exact EqE.refl _
  | ok stx =>
    simp only [ok_bind]
    cases h2 : makeList (len stx) (0 : Int) with
    | error e => exact EqE.refl _
    | ok sto0 =>
      simp only [ok_bind]
      cases h3 : Generated.Tile.tileHashReader_ReadHashes_loop1 node ofBytes rp h stx [] fuel 0 sto0 [] [] with
      | error e => exact EqE.refl _
      | ok v3 =>
        obtain ⟨i3, sto, order, tiles0⟩ := v3
        simp only [ok_bind]
        cases h4 : makeList (len indexes) (0 : Int) with
        | error e => exact EqE.refl _
        | ok ito0 =>
          simp only [ok_bind]
          cases h5 : Generated.Tile.tileHashReader_ReadHashes_loop2 node ofBytes rp indexes h [] fuel 0 ito0 order tiles0 with
          | error e => exact EqE.refl _
          | ok v5 =>
            cases v5 with
            | ret rv =>
              obtain ⟨res, lg⟩ := rv
              have := ret_log [] _ (loop2_fix node ofBytes rp indexes h [] fuel 0 ito0 order tiles0) _ _ h5
              subst this
              exact EqE.refl _
            | next s =>
              obtain ⟨i5, ito, order, tiles⟩ := s
              simp only [ok_bind, mapRet_ok_next, pure_eq_ok]
              by_cases hs0 : len stx = 0
              · simp only [hs0, decide_true, if_true, makeList_len, ok_bind, finishW_ok_nil]
                exact EqE.refl _
              · simp only [hs0, decide_false, Bool.false_eq_true, if_false]
                cases h6 : readTiles tiles w1 with
                | error e => exact EqE.refl _
                | ok v6 =>
                  obtain ⟨⟨data, err⟩, w2⟩ := v6
                  have hrt : rp.tr.ReadTiles tiles = (data, err) := by rw [hRT]; simp only [readTilesAt, h6]
                  simp only [ok_bind, hrt, finishW_ite, finishW_bind, finishW_ok_nil, List.nil_append, makeList_len,
                    loop5_eq height node ofBytes readTiles saveTiles _ _ _ ([] : Log),
                    loop6_eq height node ofBytes readTiles saveTiles _ _ _ _ _ ([] : Log),
                    loop7_eq height node ofBytes readTiles saveTiles r rp hr _ _ _ _ _ ([] : Log),
                    loop8_eq height node ofBytes readTiles saveTiles r rp _ _ _ _ _ ([(tiles, data)] : Log),
                    bind_mapRet]
                  apply EqE.ite _ _ _ _ _ (EqE.refl _)
                  apply EqE.ite _ _ _ _ _ (EqE.refl _)
                  apply EqE.bind; intro c5 hc5
                  cases c5 with
                  | ret rv =>
                    obtain ⟨v, e⟩ := rv
                    have := ret_log [] _ (loop5_fix node ofBytes tiles data [] fuel 0) _ _ hc5
                    subst this
                    exact EqE.refl _
                  | next i5' =>
                    simp only [reW, finishW_bind, finishW_ite, finishW_ok_nil]
                    apply EqE.bind; intro t35 _
                    apply EqE.bind; intro t36 _
                    apply EqE.bind; intro t37 _
                    apply EqE.bind; intro t38 _
                    apply EqE.bind; intro t39 _
                    apply EqE.bind; intro t40 _
                    apply EqE.bind; intro t41 _
                    apply EqE.bind; intro t42 _
                    apply EqE.bind; intro t43 _
                    apply EqE.ite _ _ _ _ _ (EqE.refl _)
                    apply EqE.bind; intro t44 _
                    apply EqE.bind; intro c6 hc6
                    cases c6 with
                    | ret rv =>
                      obtain ⟨v, e⟩ := rv
                      have := ret_log [] _ (loop6_fix node ofBytes tiles stx sto data [] fuel t43.1 t44) _ _ hc6
                      subst this
                      exact EqE.refl _
                    | next s6 =>
                      obtain ⟨th, i6⟩ := s6
                      simp only [finishW_bind, finishW_ite, finishW_ok_nil]
                      apply EqE.ite _ _ _ _ _ (EqE.refl _)
                      apply EqE.bind; intro c7 hc7
                      cases c7 with
                      | ret rv =>
                        obtain ⟨v, e⟩ := rv
                        have := ret_log [] _ (loop7_fix node ofBytes rp indexes order tiles data [] fuel (len tiles0)) _ _ hc7
                        subst this
                        exact EqE.refl _
                      | next i7 =>
                        simp only [finishW_bind]
                        have h8fix := loop8_fix node ofBytes rp indexes tiles ito data [(tiles, data)] fuel 0
                          (List.replicate indexes.length default)
                        generalize Generated.Tile.tileHashReader_ReadHashes_loop8 node ofBytes rp indexes tiles ito data
                          [(tiles, data)] fuel 0 (List.replicate indexes.length default) = x8 at h8fix ⊢
                        cases x8 with
                        | error e8 =>
                          cases saveTiles tiles data w2 with
                          | error e => exact EqE.errors _ _
                          | ok v => exact EqE.refl _
                        | ok c8 =>
                          cases c8 with
                          | ret rv =>
                            obtain ⟨v, e⟩ := rv
                            have := ret_log _ _ h8fix v e rfl
                            subst this
                            simp only [ok_bind, finishW_ok_one]
                            cases saveTiles tiles data w2 with
                            | error e => exact EqE.refl _
                            | ok v => exact EqE.refl _
                          | next s8 =>
                            obtain ⟨i8, hashes⟩ := s8
                            simp only [ok_bind, finishW_ok_one]
                            cases saveTiles tiles data w2 with
                            | error e => exact EqE.refl _
                            | ok v => exact EqE.refl _
end
end ModVerif.TieFnTileW
