/-
  C17 `checkFiles_perm`: for a list without repeated paths whose report has no collision error, the
  report does not depend on the order of the list (the three lists are permuted, the size error is the
  same).
-/
import ModVerif.Spec.ZipSpec
import ModVerif.Proofs.ZipAClassify
namespace ModVerif.Proofs.ZipA
open ModVerif ModVerif.PathClean ModVerif.Zip ModVerif.ZipSpec ModVerif.Proofs.Zip

/-- the class of a file when no collision is involved: it does not depend on the other files except
    through the module roots -/
def ofc (E : Env) (ge124 : Bool) (files : List FileInfo) (f : FileInfo) : Class :=
  match earlyRule E ge124 files f with
  | some c => c
  | none => lateRule f

def collisionReason (r : Reason) : Prop := r = .caseCollision ∨ r = .fileAndDir ∨ r = .multiple

theorem lateRule_not_collision (f : FileInfo) (r : Reason) (h : lateRule f = .invalid r) : ¬ collisionReason r := by
  unfold lateRule at h
  repeat' split at h
  all_goals (cases h <;> (unfold collisionReason; simp))

theorem mem_chainOf_file (toFold : Bytes → Bytes) : ∀ (n : Nat) (p : Bytes) (d : Bool) (e : PathInfo),
    e ∈ chainOf toFold n p d → e.isDir = false → e.path = p := by
  intro n
  cases n with
  | zero => intro p d e h; cases h
  | succ n =>
    intro p d e h hd
    unfold chainOf at h
    rcases List.mem_cons.mp h with h | h
    · rw [h]; rfl
    · exfalso
      split at h
      · -- the rest of the chain are directories
        have : ∀ (m : Nat) (q : Bytes) (x : PathInfo), x ∈ chainOf toFold m q true → x.isDir = true := by
          intro m
          induction m with
          | zero => intro q x hx; cases hx
          | succ m ih =>
            intro q x hx
            unfold chainOf at hx
            rcases List.mem_cons.mp hx with hx | hx
            · rw [hx]; rfl
            · split at hx
              · exact ih _ x hx
              · cases hx
        rw [this n _ e h] at hd; cases hd
      · cases h

/-- the chain of a file that reaches the collision check -/
def fchain (E : Env) (f : FileInfo) : List PathInfo :=
  chainOf E.toFold (f.path.length + 1) f.path (f.mode == .dir)

theorem earlyRule_none_cleanRel (E : Env) (ge124 : Bool) (files : List FileInfo) (f : FileInfo)
    (h : earlyRule E ge124 files f = none) : CleanRel f.path := by
  unfold earlyRule at h
  by_cases h0 : goModUnreadable f = true
  · rw [if_pos h0] at h; cases h
  rw [if_neg h0] at h
  by_cases h1 : pathClean f.path ≠ f.path
  · rw [if_pos h1] at h; cases h
  rw [if_neg h1] at h
  by_cases h2 : isAbs f.path = true
  · rw [if_pos h2] at h; cases h
  exact ⟨Classical.not_not.mp h1, by simpa using h2⟩

/-- the step of the specification for a file that reaches the collision check, through the model's
    collision checker -/
theorem classifyStep_none (E : Env) (ge124 : Bool) (files : List FileInfo) (reg : Reg) (f : FileInfo)
    (h : earlyRule E ge124 files f = none) :
    (ccCheckTop E.toFold (toCC E.toFold reg) f.path (f.mode == .dir)).1 =
        toCC E.toFold (classifyStep E ge124 files reg f).1 ∧
    (((ccCheckTop E.toFold (toCC E.toFold reg) f.path (f.mode == .dir)).2 = none ∧
        (classifyStep E ge124 files reg f).2 = lateRule f) ∨
     (∃ r, (ccCheckTop E.toFold (toCC E.toFold reg) f.path (f.mode == .dir)).2 = some r ∧ collisionReason r ∧
        (classifyStep E ge124 files reg f).2 = .invalid r)) := by
  rw [ccCheckTop_toCC E.toFold reg f.path _ (earlyRule_none_cleanRel E ge124 files f h)]
  unfold classifyStep
  rw [h]
  simp only
  rcases hc : collide E.toFold reg f.path (f.mode == .dir) with ⟨reg', err⟩
  cases err with
  | none => exact ⟨rfl, Or.inl ⟨rfl, rfl⟩⟩
  | some r =>
    exact ⟨rfl, Or.inr ⟨r, rfl, collide_reason E.toFold reg f.path _ r (by rw [hc]), rfl⟩⟩

theorem classifyStep_some (E : Env) (ge124 : Bool) (files : List FileInfo) (reg : Reg) (f : FileInfo) (c : Class)
    (h : earlyRule E ge124 files f = some c) : classifyStep E ge124 files reg f = (reg, c) := by
  unfold classifyStep; rw [h]

/-- a run without collision: the final table has unique keys, contains the initial one and the chain of
    every file that reached the collision check. -/
theorem run_facts (E : Env) (ge124 : Bool) (files : List FileInfo) :
    ∀ (l : List FileInfo) (reg : Reg), Uniq (toCC E.toFold reg) →
    (∀ x ∈ classifyFrom E ge124 files reg l, x.2 = ofc E ge124 files x.1) →
    ∃ regF, Uniq (toCC E.toFold regF) ∧ Sub (toCC E.toFold reg) (toCC E.toFold regF) ∧
      ∀ f ∈ l, earlyRule E ge124 files f = none →
        (∀ e ∈ fchain E f, e ∈ toCC E.toFold regF) ∧ fuelOK (f.path.length + 1) f.path := by
  intro l
  induction l with
  | nil => intro reg hu _; exact ⟨reg, hu, Sub.refl _, fun f hf => by cases hf⟩
  | cons f t ih =>
    intro reg hu hall
    rw [classifyFrom_cons] at hall
    have hf := hall _ List.mem_cons_self
    simp only at hf
    cases he : earlyRule E ge124 files f with
    | some c =>
      rw [classifyStep_some E ge124 files reg f c he] at hall
      obtain ⟨regF, h1, h2, h3⟩ := ih reg hu (fun x hx => hall x (List.mem_cons_of_mem _ hx))
      refine ⟨regF, h1, h2, ?_⟩
      intro g hg hgn
      rcases List.mem_cons.mp hg with rfl | hg
      · rw [he] at hgn; cases hgn
      · exact h3 g hg hgn
    | none =>
      obtain ⟨k1, k2⟩ := classifyStep_none E ge124 files reg f he
      have hofc : ofc E ge124 files f = lateRule f := by unfold ofc; rw [he]
      rcases k2 with ⟨k2, _⟩ | ⟨r, _, k3, k4⟩
      · have hck : ccCheck E.toFold (f.path.length + 1) (toCC E.toFold reg) f.path (f.mode == .dir) =
            (toCC E.toFold (classifyStep E ge124 files reg f).1, none) := by
          have : ccCheckTop E.toFold (toCC E.toFold reg) f.path (f.mode == .dir) =
              (toCC E.toFold (classifyStep E ge124 files reg f).1, none) := by
            rw [← k1, ← k2]
          exact this
        obtain ⟨a1, a2, _⟩ := ccCheck_ok E.toFold _ _ _ f.path _ hu hck
        obtain ⟨b1, b2, _⟩ := ccCheck_any E.toFold (f.path.length + 1) (toCC E.toFold reg) f.path (f.mode == .dir) hu
        rw [hck] at b1 b2
        simp only at b1 b2
        obtain ⟨regF, h1, h2, h3⟩ := ih _ b1 (fun x hx => hall x (List.mem_cons_of_mem _ hx))
        refine ⟨regF, h1, Sub.trans b2 h2, ?_⟩
        intro g hg hgn
        rcases List.mem_cons.mp hg with rfl | hg
        · exact ⟨fun e he' => h2 e (a1 e he'), a2⟩
        · exact h3 g hg hgn
      · exfalso
        rw [k4, hofc] at hf
        exact lateRule_not_collision f r hf.symm k3

/-- replaying files whose chains lie in a table with unique keys, against a sub-table: no collision. -/
theorem replay_facts (E : Env) (ge124 : Bool) (files : List FileInfo) (big : CC) (hub : Uniq big) :
    ∀ (l : List FileInfo) (reg : Reg), Sub (toCC E.toFold reg) big → (l.map (·.path)).Nodup →
    (∀ f ∈ l, earlyRule E ge124 files f = none →
        (∀ e ∈ fchain E f, e ∈ big) ∧ fuelOK (f.path.length + 1) f.path) →
    (∀ e ∈ toCC E.toFold reg, e.isDir = false → ∀ f ∈ l, e.path ≠ f.path) →
    ∀ x ∈ classifyFrom E ge124 files reg l, x.2 = ofc E ge124 files x.1 := by
  intro l
  induction l with
  | nil => intro reg _ _ _ _ x hx; cases hx
  | cons f t ih =>
    intro reg hsub hnd hch hprov x hx
    rw [List.map_cons, List.nodup_cons] at hnd
    have hne : ∀ g ∈ t, g.path ≠ f.path := by
      intro g hg e
      exact hnd.1 (by rw [← e]; exact List.mem_map_of_mem (f := fun x : FileInfo => x.path) hg)
    rw [classifyFrom_cons] at hx
    cases he : earlyRule E ge124 files f with
    | some c =>
      rw [classifyStep_some E ge124 files reg f c he] at hx
      rcases List.mem_cons.mp hx with rfl | hx
      · simp only; unfold ofc; rw [he]
      · exact ih reg hsub hnd.2 (fun g hg => hch g (List.mem_cons_of_mem _ hg))
          (fun e he' hd g hg => hprov e he' hd g (List.mem_cons_of_mem _ hg)) x hx
    | none =>
      obtain ⟨c1, c2⟩ := hch f List.mem_cons_self he
      obtain ⟨small', s1, s2, s3⟩ := ccCheck_sim E.toFold (f.path.length + 1) (toCC E.toFold reg) big f.path
        (f.mode == .dir) hub hsub c1 c2 (by
          intro hd hm
          exact hprov _ hm rfl f List.mem_cons_self rfl)
      obtain ⟨k1, k2⟩ := classifyStep_none E ge124 files reg f he
      have s1' : ccCheckTop E.toFold (toCC E.toFold reg) f.path (f.mode == .dir) = (small', none) := s1
      rw [s1'] at k1 k2
      simp only at k1 k2
      rcases k2 with ⟨_, k2⟩ | ⟨r, k2, _⟩
      · rcases List.mem_cons.mp hx with rfl | hx
        · simp only; rw [k2]; unfold ofc; rw [he]
        · refine ih _ (by rw [← k1]; exact s2) hnd.2 (fun g hg => hch g (List.mem_cons_of_mem _ hg)) ?_ x hx
          intro e he' hd g hg
          rw [← k1] at he'
          rcases s3 e he' with h | h
          · exact hprov e h hd g (List.mem_cons_of_mem _ hg)
          · rw [mem_chainOf_file E.toFold _ _ _ e h hd]; exact (hne g hg).symm
      · cases k2

/-! ### the specification does not look at the order of `files` -/

theorem earlyRule_congr (E : Env) (ge124 : Bool) (files files' : List FileInfo)
    (h : ∀ g, g ∈ files' ↔ g ∈ files) (f : FileInfo) :
    earlyRule E ge124 files' f = earlyRule E ge124 files f := by
  have hb : BelowModuleRoot files' f.path ↔ BelowModuleRoot files f.path := by
    unfold BelowModuleRoot IsModuleDir
    constructor
    · rintro ⟨d, hd, g, hg, r⟩; exact ⟨d, hd, g, (h g).mp hg, r⟩
    · rintro ⟨d, hd, g, hg, r⟩; exact ⟨d, hd, g, (h g).mpr hg, r⟩
  unfold earlyRule
  simp only [hb]

theorem classifyStep_congr (E : Env) (ge124 : Bool) (files files' : List FileInfo)
    (h : ∀ g, g ∈ files' ↔ g ∈ files) (reg : Reg) (f : FileInfo) :
    classifyStep E ge124 files' reg f = classifyStep E ge124 files reg f := by
  unfold classifyStep
  rw [earlyRule_congr E ge124 files files' h]

theorem classifyFrom_congr (E : Env) (ge124 : Bool) (files files' : List FileInfo)
    (h : ∀ g, g ∈ files' ↔ g ∈ files) : ∀ (l : List FileInfo) (reg : Reg),
    classifyFrom E ge124 files' reg l = classifyFrom E ge124 files reg l := by
  intro l
  induction l with
  | nil => intro _; rfl
  | cons f t ih => intro reg; rw [classifyFrom_cons, classifyFrom_cons, classifyStep_congr E ge124 files files' h, ih]

theorem classifyFrom_eq_map (E : Env) (ge124 : Bool) (files : List FileInfo) (l : List FileInfo) (reg : Reg)
    (h : ∀ x ∈ classifyFrom E ge124 files reg l, x.2 = ofc E ge124 files x.1) :
    classifyFrom E ge124 files reg l = l.map (fun f => (f, ofc E ge124 files f)) := by
  have hm := classifyFrom_map_fst E ge124 files l reg
  generalize classifyFrom E ge124 files reg l = cl at h hm
  subst hm
  induction cl with
  | nil => rfl
  | cons x t ih =>
    simp only [List.map_cons, List.map_map] at ih ⊢
    rw [← ih (fun y hy => h y (List.mem_cons_of_mem _ hy))]
    congr 1
    have := h x List.mem_cons_self
    rw [← this]

theorem perm_sum_int {l1 l2 : List Int} (h : l1.Perm l2) : l1.sum = l2.sum := by
  induction h with
  | nil => rfl
  | cons x _ ih => simp [ih]
  | swap x y l => simp; omega
  | trans _ _ ih1 ih2 => omega

/-- C17 `checkFiles_perm` -/
theorem checkFiles_perm (E : Env) (files files' : List FileInfo) (ge124 : Bool) (hp : files'.Perm files)
    (hnd : (files.map (·.path)).Nodup)
    (hnc : ∀ p r, (p, r) ∈ (checkFiles E files ge124).invalid → ¬ collisionReason r) :
    (checkFiles E files' ge124).valid.Perm (checkFiles E files ge124).valid ∧
    (checkFiles E files' ge124).omitted.Perm (checkFiles E files ge124).omitted ∧
    (checkFiles E files' ge124).invalid.Perm (checkFiles E files ge124).invalid ∧
    (checkFiles E files' ge124).sizeError = (checkFiles E files ge124).sizeError := by
  have hnd' : (files'.map (·.path)).Nodup := (hp.map _).nodup_iff.mpr hnd
  have hmem : ∀ g, g ∈ files' ↔ g ∈ files := fun g => hp.mem_iff
  obtain ⟨c1, _, _, _, _⟩ := checkFiles_eq_classify E files ge124 hnd
  -- the run on `files` has no collision
  have hall : ∀ x ∈ classifyFrom E ge124 files [] files, x.2 = ofc E ge124 files x.1 := by
    intro x hx
    obtain ⟨f, c⟩ := x
    obtain ⟨pre, post, h1, h2⟩ := (mem_classifyAll E ge124 files f c).mp hx
    have hcl := c1 pre f post h1
    simp only
    unfold ofc
    cases he : earlyRule E ge124 files f with
    | some c' =>
      rw [h2]; unfold classify; rw [classifyStep_some E ge124 files _ f c' he]
    | none =>
      obtain ⟨_, k2⟩ := classifyStep_none E ge124 files (registryAfter E ge124 files pre) f he
      rcases k2 with ⟨_, k2⟩ | ⟨r, _, k3, k4⟩
      · rw [h2]; exact k2
      · exfalso
        have : classify E ge124 files pre f = .invalid r := k4
        rw [this] at hcl
        exact hnc _ _ hcl k3
  obtain ⟨regF, u1, _, u3⟩ := run_facts E ge124 files files [] uniq_nil hall
  have hall' : ∀ x ∈ classifyFrom E ge124 files [] files', x.2 = ofc E ge124 files x.1 :=
    replay_facts E ge124 files (toCC E.toFold regF) u1 files' [] (fun e he => by cases he) hnd'
      (fun f hf => u3 f ((hmem f).mp hf)) (fun e he => by cases he)
  have e1 : classifyAll E ge124 files = files.map (fun f => (f, ofc E ge124 files f)) :=
    classifyFrom_eq_map E ge124 files files [] hall
  have e2 : classifyAll E ge124 files' = files'.map (fun f => (f, ofc E ge124 files f)) := by
    unfold classifyAll
    rw [classifyFrom_congr E ge124 files files' hmem]
    exact classifyFrom_eq_map E ge124 files files' [] hall'
  have pcl : (classifyAll E ge124 files').Perm (classifyAll E ge124 files) := by
    rw [e1, e2]; exact hp.map _
  obtain ⟨_, a2, a3, a4, a5⟩ := checkFilesSt_spec E files ge124 hnd
  obtain ⟨_, b2, b3, b4, b5⟩ := checkFilesSt_spec E files' ge124 hnd'
  unfold checkFiles
  refine ⟨?_, ?_, ?_, ?_⟩
  · rw [a2, b2]; exact (pcl.filterMap _).map _
  · rw [a3, b3]; exact pcl.filterMap _
  · rw [a4, b4]; exact ((hp.filter _).map _).append (pcl.filterMap _)
  · have ha : (checkFilesSt E files ge124).cf.sizeError =
        ((classifyAll E ge124 files).foldl bOf ((MaxZipFile : Int), false)).2 := by rw [← a5]
    have hb : (checkFilesSt E files' ge124).cf.sizeError =
        ((classifyAll E ge124 files').foldl bOf ((MaxZipFile : Int), false)).2 := by rw [← b5]
    rw [ha, hb, foldl_bOf, foldl_bOf]
    have hmax : (0 : Int) ≤ ((MaxZipFile : Int), false).1 := by simp only; unfold MaxZipFile; omega
    have ps : (sizedSizes (classifyAll E ge124 files')).Perm (sizedSizes (classifyAll E ge124 files)) := by
      unfold sizedSizes; exact (pcl.filter _).map _
    have i1 := (foldl_accountB (sizedSizes (classifyAll E ge124 files)) _ hmax).1
    have i2 := (foldl_accountB (sizedSizes (classifyAll E ge124 files')) _ hmax).1
    have : ((sizedSizes (classifyAll E ge124 files')).foldl accountB ((MaxZipFile : Int), false)).2 = true ↔
        ((sizedSizes (classifyAll E ge124 files)).foldl accountB ((MaxZipFile : Int), false)).2 = true := by
      rw [i1, i2, perm_sum_int ps]
      constructor
      · rintro (h | ⟨x, hx, hlt⟩ | h)
        · exact Or.inl h
        · exact Or.inr (Or.inl ⟨x, ps.mem_iff.mp hx, hlt⟩)
        · exact Or.inr (Or.inr h)
      · rintro (h | ⟨x, hx, hlt⟩ | h)
        · exact Or.inl h
        · exact Or.inr (Or.inl ⟨x, ps.mem_iff.mpr hx, hlt⟩)
        · exact Or.inr (Or.inr h)
    exact Bool.eq_iff_iff.mpr this


/-! ### the go version flag `checkFiles` derives itself -/

/-- the file that decides the go version flag: a regular file whose path is `go.mod` -/
def isRootGoMod (f : FileInfo) : Bool :=
  equalFoldGoMod (pathSplit f.path).2 && f.mode == .regular && (pathSplit f.path).2 == goModName &&
    (pathSplit f.path).1 == []

theorem preStep_ge124 (a : Pre) (f : FileInfo) :
    (preStep a f).ge124 = if isRootGoMod f then f.goGe124 else a.ge124 := by
  unfold preStep isRootGoMod
  by_cases h1 : equalFoldGoMod (pathSplit f.path).2 = true
  · by_cases h2 : f.mode = .lstatErr
    · simp [h1, h2]
    · by_cases h3 : f.mode = .regular
      · simp [h1, h3]; split <;> simp_all
      · simp [h1, h2, h3]
  · simp [h1]

theorem isRootGoMod_path (f : FileInfo) (h : isRootGoMod f = true) : f.path = goModName := by
  unfold isRootGoMod at h
  simp only [Bool.and_eq_true, beq_iff_eq] at h
  obtain ⟨h1, _, _⟩ := pathSplit_spec f.path
  rw [h1, h.2, h.1.2]; rfl

theorem prePass_ge124 : ∀ (l : List FileInfo) (a : Pre), (l.map (·.path)).Nodup →
    (l.foldl preStep a).ge124 = match l.find? isRootGoMod with
      | some f => f.goGe124
      | none => a.ge124 := by
  intro l
  induction l with
  | nil => intro a _; rfl
  | cons f t ih =>
    intro a hnd
    rw [List.map_cons, List.nodup_cons] at hnd
    simp only [List.foldl_cons]
    rw [ih _ hnd.2, preStep_ge124]
    by_cases hr : isRootGoMod f = true
    · have hnone : t.find? isRootGoMod = none := by
        apply List.find?_eq_none.mpr
        intro g hg hgr
        apply hnd.1
        rw [isRootGoMod_path f hr, ← isRootGoMod_path g hgr]
        exact List.mem_map_of_mem (f := fun x : FileInfo => x.path) hg
      simp [hr, hnone]
    · simp [hr]

theorem find_perm_unique {α : Type} (q : α → Bool) (l1 l2 : List α) (hp : l1.Perm l2)
    (hu : ∀ x ∈ l1, ∀ y ∈ l1, q x = true → q y = true → x = y) : l1.find? q = l2.find? q := by
  cases h1 : l1.find? q with
  | none =>
    have := List.find?_eq_none.mp h1
    exact (List.find?_eq_none.mpr (fun x hx => this x (hp.mem_iff.mpr hx))).symm
  | some x =>
    have hx := List.mem_of_find?_eq_some h1
    have hqx := List.find?_some h1
    cases h2 : l2.find? q with
    | none => exact absurd hqx (List.find?_eq_none.mp h2 x (hp.mem_iff.mp hx))
    | some y =>
      have hy := List.mem_of_find?_eq_some h2
      have hqy := List.find?_some h2
      rw [hu x hx y (hp.mem_iff.mpr hy) hqx hqy]

/-- the derived go version flag does not depend on the order of a list without repeated paths -/
theorem goVers_perm (files files' : List FileInfo) (hp : files'.Perm files) (hnd : (files.map (·.path)).Nodup) :
    goVers files' = goVers files := by
  have hnd' : (files'.map (·.path)).Nodup := (hp.map _).nodup_iff.mpr hnd
  unfold goVers prePass
  rw [prePass_ge124 files {} hnd, prePass_ge124 files' {} hnd']
  rw [find_perm_unique isRootGoMod files' files hp (by
    intro x hx y hy qx qy
    exact eq_of_nodup_map_path files' hnd' x hx y hy (by rw [isRootGoMod_path x qx, isRootGoMod_path y qy]))]

/-- C17 `checkFiles_perm` for the function as Go computes it (flag derived from the list) -/
theorem checkFilesV_perm (E : Env) (files files' : List FileInfo) (hp : files'.Perm files)
    (hnd : (files.map (·.path)).Nodup)
    (hnc : ∀ p r, (p, r) ∈ (checkFilesV E files).invalid → ¬ collisionReason r) :
    (checkFilesV E files').valid.Perm (checkFilesV E files).valid ∧
    (checkFilesV E files').omitted.Perm (checkFilesV E files).omitted ∧
    (checkFilesV E files').invalid.Perm (checkFilesV E files).invalid ∧
    (checkFilesV E files').sizeError = (checkFilesV E files).sizeError := by
  unfold checkFilesV at hnc ⊢
  rw [goVers_perm files files' hp hnd]
  exact checkFiles_perm E files files' (goVers files) hp hnd hnc

end ModVerif.Proofs.ZipA
