/-
  Helper lemmas for C07 (sumdb/note): the signature loop of Open.
-/
import ModVerif.Model.Note
import ModVerif.Spec.NoteSpec
namespace ModVerif.Note
open ModVerif ModVerif.B64

/-- what a successfully parsed signature line says -/
theorem parseSigLine_spec {line : Bytes} {p : SigLine} (h : parseSigLine line = some p) :
    isPrefixOfB sigPrefix line = true ∧
    p.line = line.drop sigPrefix.length ∧
    (p.name, p.b64) = chop (line.drop sigPrefix.length) [32] ∧
    isValidName p.name = true ∧ p.b64 ≠ [] ∧
    ∃ raw, b64dec p.b64 = some raw ∧ 5 ≤ raw.length ∧ be32 raw = some p.hash ∧ p.sig = raw.drop 4 := by
  unfold parseSigLine at h
  split at h
  · simp at h
  · rename_i hpre
    simp only at h
    split at h
    · simp at h
    · rename_i raw hraw
      split at h
      · simp at h
      · rename_i hc
        split at h
        · simp at h
        · rename_i hash hh
          simp only [Option.some.injEq] at h
          subst h
          simp only [Bool.not_eq_true, Bool.or_eq_true, Bool.not_eq_eq_eq_not, Bool.not_true,
            not_or, Bool.not_eq_false, decide_eq_true_eq] at hc hpre
          refine ⟨by simpa using hpre, rfl, rfl, ?_, ?_, raw, hraw, ?_, hh, rfl⟩
          · simpa using hc.1.1
          · have := hc.1.2; simpa [List.isEmpty_iff] using this
          · have := hc.2; omega

/-- Characterisation of a successful loop iteration. -/
theorem openStep_ok {known : Verifiers} {text : Bytes} {st st' : LoopState} {line : Bytes}
    (h : openStep known text st line = .ok st') :
    ∃ p, parseSigLine line = some p ∧ st.numSig + 1 ≤ maxSigs ∧ st'.numSig = st.numSig + 1 ∧
      ((known p.name p.hash = .unknown ∧ st'.seen = st.seen ∧ st'.sigs = st.sigs ∧
          ((p.line ∈ st.seenUnverified ∧ st'.seenUnverified = st.seenUnverified ∧
              st'.unverifiedSigs = st.unverifiedSigs) ∨
           (p.line ∉ st.seenUnverified ∧ st'.seenUnverified = p.line :: st.seenUnverified ∧
              st'.unverifiedSigs = st.unverifiedSigs ++ [p.toSig])))
       ∨ (∃ v, known p.name p.hash = .found v ∧ v.name = p.name ∧ v.hash = p.hash ∧
          st'.seenUnverified = st.seenUnverified ∧ st'.unverifiedSigs = st.unverifiedSigs ∧
          (((p.name, p.hash) ∈ st.seen ∧ st'.seen = st.seen ∧ st'.sigs = st.sigs) ∨
           ((p.name, p.hash) ∉ st.seen ∧ v.verify text p.sig = true ∧
              st'.seen = (p.name, p.hash) :: st.seen ∧ st'.sigs = st.sigs ++ [p.toSig])))) := by
  unfold openStep at h
  split at h
  · simp at h
  · rename_i p hp
    refine ⟨p, hp, ?_⟩
    simp only at h
    split at h
    · simp at h
    · rename_i hn
      refine ⟨by omega, ?_⟩
      split at h
      · rename_i hk
        split at h
        · rename_i hc
          simp only [Except.ok.injEq] at h; subst h
          exact ⟨rfl, Or.inl ⟨hk, rfl, rfl, Or.inl ⟨by simpa using hc, rfl, rfl⟩⟩⟩
        · rename_i hc
          simp only [Except.ok.injEq] at h; subst h
          exact ⟨rfl, Or.inl ⟨hk, rfl, rfl, Or.inr ⟨by simpa using hc, rfl, rfl⟩⟩⟩
      · simp at h
      · simp at h
      · rename_i v hk
        split at h
        · simp at h
        · rename_i hm
          simp only [bne_iff_ne, ne_eq, Bool.or_eq_true, not_or, Decidable.not_not] at hm
          split at h
          · rename_i hc
            simp only [Except.ok.injEq] at h; subst h
            exact ⟨rfl, Or.inr ⟨v, hk, hm.1, hm.2, rfl, rfl, Or.inl ⟨by simpa using hc, rfl, rfl⟩⟩⟩
          · rename_i hc
            split at h
            · simp at h
            · rename_i hv
              simp only [Except.ok.injEq] at h; subst h
              exact ⟨rfl, Or.inr ⟨v, hk, hm.1, hm.2, rfl, rfl,
                Or.inr ⟨by simpa using hc, by simpa using hv, rfl, rfl⟩⟩⟩

theorem openLoop_cons_ok {known : Verifiers} {text : Bytes} {line : Bytes} {rest : List Bytes}
    {st st' : LoopState} (h : openLoop known text (line :: rest) st = .ok st') :
    ∃ st1, openStep known text st line = .ok st1 ∧ openLoop known text rest st1 = .ok st' := by
  simp only [openLoop] at h
  split at h
  · simp at h
  · rename_i st1 h1; exact ⟨st1, h1, h⟩

/-! ### byte-string helpers -/

theorem isPrefixOfB_iff {p s : Bytes} : isPrefixOfB p s = true ↔ ∃ t, s = p ++ t := by
  induction p generalizing s with
  | nil => simp [isPrefixOfB]
  | cons a p ih =>
    cases s with
    | nil => simp [isPrefixOfB]
    | cons b s =>
      simp only [isPrefixOfB, Bool.and_eq_true, beq_iff_eq, ih, List.cons_append, List.cons.injEq]
      constructor
      · rintro ⟨rfl, t, rfl⟩; exact ⟨t, rfl, rfl⟩
      · rintro ⟨t, rfl, rfl⟩; exact ⟨rfl, t, rfl⟩

theorem lastIndexOf_spec {sep s : Bytes} {i : Nat} (h : lastIndexOf sep s = some i) :
    s = s.take i ++ sep ++ s.drop (i + sep.length) := by
  induction s generalizing i with
  | nil =>
    simp only [lastIndexOf] at h
    split at h
    · rename_i he
      simp only [List.isEmpty_iff] at he
      simp at h; subst h; subst he; simp
    · simp at h
  | cons c rest ih =>
    simp only [lastIndexOf] at h
    split at h
    · rename_i j hj
      simp only [Option.some.injEq] at h; subst h
      have := ih hj
      simp only [List.take_succ_cons, List.cons_append, List.cons.injEq, true_and]
      rw [show j + 1 + sep.length = (j + sep.length) + 1 by omega, List.drop_succ_cons]
      exact this
    · split at h
      · rename_i hp
        simp only [Option.some.injEq] at h; subst h
        obtain ⟨t, ht⟩ := isPrefixOfB_iff.mp hp
        rw [ht]; simp
      · simp at h

/-- decomposition of a successful Open -/
theorem Open_ok {msg : Bytes} {known : Verifiers} {n : Note} (h : Open msg known = .ok n) :
    ∃ split st, validMsg msg = true ∧ lastIndexOf sigSplit msg = some split ∧
      n.text = msg.take (split + 1) ∧ msg.drop (split + 2) ≠ [] ∧
      (msg.drop (split + 2)).getLast? = some 10 ∧
      openLoop known n.text (sigLines (msg.drop (split + 2))) {} = .ok st ∧
      n.sigs = st.sigs ∧ n.unverifiedSigs = st.unverifiedSigs ∧ st.sigs ≠ [] := by
  unfold Open at h
  split at h
  · simp at h
  · rename_i hv
    split at h
    · simp at h
    · rename_i split hs
      simp only at h
      split at h
      · simp at h
      · rename_i hc
        split at h
        · simp at h
        · rename_i st hl
          split at h
          · simp at h
          · rename_i hne
            simp only [Except.ok.injEq] at h; subst h
            simp only [Bool.or_eq_true, List.isEmpty_iff, bne_iff_ne, ne_eq, not_or, Decidable.not_not] at hc
            exact ⟨split, st, by simpa using hv, hs, rfl, hc.1, hc.2, hl, rfl, rfl,
              by simpa [List.isEmpty_iff] using hne⟩

theorem take_len_succ {α} (A : List α) (x : α) (R : List α) : (A ++ x :: R).take (A.length + 1) = A ++ [x] := by
  induction A with
  | nil => simp
  | cons a A ih => simp [ih]

theorem drop_len_add2 {α} (A : List α) (x y : α) (R : List α) : (A ++ x :: y :: R).drop (A.length + 2) = R := by
  induction A with
  | nil => simp
  | cons a A ih => simp [ih]

/-- the message is text ‖ "\n" ‖ signature block, and the text ends in a newline -/
theorem split_spec {msg : Bytes} {split : Nat} (hs : lastIndexOf sigSplit msg = some split) :
    msg = msg.take (split + 1) ++ [10] ++ msg.drop (split + 2) ∧
    (msg.take (split + 1)).getLast? = some 10 := by
  have h := lastIndexOf_spec hs
  simp only [sigSplit, List.length_cons, List.length_nil] at h
  have hlen : split ≤ msg.length := by
    have := congrArg List.length h
    simp only [List.length_append, List.length_take, List.length_cons, List.length_nil,
      List.length_drop] at this
    omega
  generalize hA : msg.take split = A at h
  generalize hB : msg.drop (split + 0 + 1 + 1) = R at h
  have hAl : A.length = split := by rw [← hA]; simp; omega
  have h' : msg = A ++ 10 :: 10 :: R := by rw [h]; simp
  have h1 : msg.take (split + 1) = A ++ [10] := by
    rw [h', ← hAl]; exact take_len_succ A 10 (10 :: R)
  have h2 : msg.drop (split + 2) = R := by
    rw [h', ← hAl]; exact drop_len_add2 A 10 10 R
  first | rw [h1, h2] | rw [h1]
  exact ⟨by rw [h']; simp, by simp⟩

theorem indexOf_spec {sep s : Bytes} {i : Nat} (h : indexOf sep s = some i) :
    s = s.take i ++ sep ++ s.drop (i + sep.length) := by
  induction s generalizing i with
  | nil =>
    simp only [indexOf] at h
    split at h
    · rename_i he
      simp only [List.isEmpty_iff] at he
      simp at h; subst h; subst he; simp
    · simp at h
  | cons c rest ih =>
    simp only [indexOf] at h
    split at h
    · rename_i hp
      simp only [Option.some.injEq] at h; subst h
      obtain ⟨t, ht⟩ := isPrefixOfB_iff.mp hp
      rw [ht]; simp
    · simp only [Option.map_eq_some_iff] at h
      obtain ⟨j, hj, rfl⟩ := h
      have := ih hj
      simp only [List.take_succ_cons, List.cons_append, List.cons.injEq, true_and]
      rw [show j + 1 + sep.length = (j + sep.length) + 1 by omega, List.drop_succ_cons]
      exact this

/-- a chop with a non-empty second half splits the string at the separator -/
theorem chop_spec {s sep a b : Bytes} (h : (a, b) = chop s sep) (hb : b ≠ []) : s = a ++ sep ++ b := by
  unfold chop at h
  split at h
  · simp only [Prod.mk.injEq] at h; exact absurd h.2 hb
  · rename_i i hi
    simp only [Prod.mk.injEq] at h
    rw [h.1, h.2]; exact indexOf_spec hi

/-- the line a parsed signature line came from -/
theorem parseSigLine_line {line : Bytes} {p : SigLine} (h : parseSigLine line = some p) :
    line = sigPrefix ++ p.name ++ [32] ++ p.b64 := by
  obtain ⟨hpre, _, hchop, _, hne, _⟩ := parseSigLine_spec h
  obtain ⟨t, ht⟩ := isPrefixOfB_iff.mp hpre
  have hd : line.drop sigPrefix.length = t := by rw [ht]; simp
  rw [hd] at hchop
  have := chop_spec hchop hne
  rw [ht, this]; simp

/-- generic invariant of the verified-signature list -/
theorem openLoop_sigs_inv {known : Verifiers} {text : Bytes} (Q : Signature → Prop) (L : List Bytes)
    (hstep : ∀ line p v, line ∈ L → parseSigLine line = some p → known p.name p.hash = .found v →
      v.name = p.name → v.hash = p.hash → v.verify text p.sig = true → Q p.toSig) :
    ∀ (ls : List Bytes) (st st' : LoopState), (∀ l ∈ ls, l ∈ L) → openLoop known text ls st = .ok st' →
      (∀ s ∈ st.sigs, Q s) → ∀ s ∈ st'.sigs, Q s := by
  intro ls
  induction ls with
  | nil => intro st st' _ h hq; simp only [openLoop, Except.ok.injEq] at h; subst h; exact hq
  | cons line rest ih =>
    intro st st' hL h hq
    obtain ⟨st1, h1, h2⟩ := openLoop_cons_ok h
    refine ih st1 st' (fun l hl => hL l (List.mem_cons_of_mem _ hl)) h2 ?_
    obtain ⟨p, hp, _, _, hcase⟩ := openStep_ok h1
    rcases hcase with ⟨_, _, hs, _⟩ | ⟨v, hk, hvn, hvh, _, _, hcase⟩
    · rw [hs]; exact hq
    · rcases hcase with ⟨_, _, hs⟩ | ⟨_, hver, _, hs⟩
      · rw [hs]; exact hq
      · rw [hs]
        intro s hsm
        rcases List.mem_append.mp hsm with hsm | hsm
        · exact hq s hsm
        · simp only [List.mem_singleton] at hsm
          subst hsm
          exact hstep line p v (hL line (List.mem_cons_self)) hp hk hvn hvh hver

/-- a known key whose first signature line does not verify stops the loop with an error -/
theorem openLoop_bad_fails {known : Verifiers} {text : Bytes} :
    ∀ (ls : List Bytes) (st : LoopState) (i : Nat) (line : Bytes) (p : SigLine) (k : Verifier),
      ls[i]? = some line → parseSigLine line = some p →
      (∀ j, j < i → ∀ lj pj, ls[j]? = some lj → parseSigLine lj = some pj →
        (pj.name, pj.hash) ≠ (p.name, p.hash)) →
      (p.name, p.hash) ∉ st.seen →
      known p.name p.hash = .found k → k.verify text p.sig = false →
      ∀ st', openLoop known text ls st ≠ .ok st' := by
  intro ls
  induction ls with
  | nil => intro st i line p k hi; simp at hi
  | cons l0 rest ih =>
    intro st i line p k hi hp hfirst hseen hk hbad st' h
    obtain ⟨st1, h1, h2⟩ := openLoop_cons_ok h
    obtain ⟨p0, hp0, _, _, hcase⟩ := openStep_ok h1
    cases i with
    | zero =>
      simp only [List.getElem?_cons_zero, Option.some.injEq] at hi
      subst hi
      rw [hp] at hp0
      simp only [Option.some.injEq] at hp0; subst hp0
      rcases hcase with ⟨hu, _⟩ | ⟨v, hv, _, _, _, _, hcase⟩
      · rw [hk] at hu; cases hu
      · rw [hk] at hv
        simp only [Lookup.found.injEq] at hv; subst hv
        rcases hcase with ⟨hin, _⟩ | ⟨_, hver, _⟩
        · exact hseen hin
        · rw [hbad] at hver; cases hver
    | succ i =>
      simp only [List.getElem?_cons_succ] at hi
      have hne := hfirst 0 (by omega) l0 p0 (by simp) hp0
      refine ih st1 i line p k hi hp ?_ ?_ hk hbad st' h2
      · intro j hj lj pj hlj hpj
        exact hfirst (j + 1) (by omega) lj pj (by simpa using hlj) hpj
      · rcases hcase with ⟨_, hs, _⟩ | ⟨v, _, _, _, _, _, hcase⟩
        · rw [hs]; exact hseen
        · rcases hcase with ⟨_, hs, _⟩ | ⟨_, _, hs, _⟩
          · rw [hs]; exact hseen
          · rw [hs]
            simp only [List.mem_cons, not_or]
            exact ⟨fun e => hne e.symm, hseen⟩

/-- the partition computed by the loop, relative to its state -/
theorem openLoop_partition {known : Verifiers} {text : Bytes} :
    ∀ (ls : List Bytes) (st st' : LoopState), openLoop known text ls st = .ok st' →
      ∃ ps, parseAll ls = some ps ∧ ps.length ≤ maxSigs - st.numSig ∧
        (∀ p ∈ ps, isKnown known p = true ∨ isUnknown known p = true) ∧
        st'.sigs = st.sigs ++
          (dedupFrom (fun p : SigLine => (p.name, p.hash)) st.seen (ps.filter (isKnown known))).map SigLine.toSig ∧
        st'.unverifiedSigs = st.unverifiedSigs ++
          (dedupFrom (fun p : SigLine => p.line) st.seenUnverified (ps.filter (isUnknown known))).map SigLine.toSig := by
  intro ls
  induction ls with
  | nil =>
    intro st st' h
    simp only [openLoop, Except.ok.injEq] at h; subst h
    exact ⟨[], rfl, by simp, by simp, by simp [dedupFrom], by simp [dedupFrom]⟩
  | cons line rest ih =>
    intro st st' h
    obtain ⟨st1, h1, h2⟩ := openLoop_cons_ok h
    obtain ⟨ps, hps, hlen, hall, hsigs, hunv⟩ := ih st1 st' h2
    obtain ⟨p, hp, hn, hn1, hcase⟩ := openStep_ok h1
    refine ⟨p :: ps, by simp [parseAll, hp, hps], by simp only [List.length_cons]; omega, ?_, ?_, ?_⟩
    · intro q hq
      rcases List.mem_cons.mp hq with rfl | hq
      · rcases hcase with ⟨hu, _⟩ | ⟨v, hv, _⟩
        · right; simp [isUnknown, hu]
        · left; simp [isKnown, hv]
      · exact hall q hq
    · rcases hcase with ⟨hu, hseen, hs, _⟩ | ⟨v, hv, _, _, _, _, hcase⟩
      · have hk : isKnown known p = false := by simp [isKnown, hu]
        rw [hsigs, hs, hseen]; simp [hk]
      · have hk : isKnown known p = true := by simp [isKnown, hv]
        rcases hcase with ⟨hin, hseen, hs⟩ | ⟨hnin, _, hseen, hs⟩
        · rw [hsigs, hs, hseen]; simp [hk, dedupFrom, hin]
        · rw [hsigs, hs, hseen]; simp [hk, dedupFrom, hnin]
    · rcases hcase with ⟨hu, _, _, hcase⟩ | ⟨v, hv, _, _, hseen, hs, _⟩
      · have hk : isUnknown known p = true := by simp [isUnknown, hu]
        rcases hcase with ⟨hin, hseen, hs⟩ | ⟨hnin, hseen, hs⟩
        · rw [hunv, hs, hseen]; simp [hk, dedupFrom, hin]
        · rw [hunv, hs, hseen]; simp [hk, dedupFrom, hnin]
      · have hk : isUnknown known p = false := by simp [isUnknown, hv]
        rw [hunv, hs, hseen]; simp [hk]

end ModVerif.Note
