/-
  Helper lemmas for Tie/FnEditWork.lean, part D: the scalar statements of go.work — `WorkFile_DropGoStmt`,
  `WorkFile_DropToolchainStmt`, `WorkFile_AddGoStmt` (scan `firstNonComment`), `WorkFile_AddToolchainStmt` (scan
  `afterGoLine` with the forward `goto` as `Ctl.ret`, then `firstNonComment`) as simulations over `FnEditRep.RepW`.
  The model never dereferences the `Syntax` pointer of `f.Go` / `f.Toolchain` (it updates the line with that id, a no-op
  for id 0) while Go does: the hypothesis `lineId ≠ 0` of these lemmas (true of every entry the parser or the Add
  operations create).
  Owner: edit-work.
-/
import ModVerif.Proofs.TieFnEditWorkA
set_option linter.unusedSimpArgs false
set_option linter.unusedVariables false
namespace ModVerif.Tie.FnEditWorkD
open ModVerif ModVerif.GoRt ModVerif.Generated.Edit ModVerif.Tie.FnEditRep ModVerif.Tie.FnEditTreeA ModVerif.Tie.FnEditWorkA
open ModVerif.Modfile.Edit (EWork markAll deref nilId treeIds firstNonComment afterGoLine insertAt mkLine headIs)

theorem B_go : B "go" = [103, 111] := by decide +kernel
theorem B_toolchain : B "toolchain" = [116, 111, 111, 108, 99, 104, 97, 105, 110] := by decide +kernel

/-! ### DropGoStmt / DropToolchainStmt -/

theorem WorkFile_DropGoStmt_sim {h : Heap} {fp : Int} {e : EWork} (R : RepW h fp e)
    (hlive : ∀ g, e.f.go = some g → g.lineId ≠ 0) :
    ∃ h', WorkFile_DropGoStmt fp h = .ok ((), h') ∧ RepW h' fp (Modfile.Edit.workDropGoStmt e) := by
  obtain ⟨o, hw, R⟩ := R
  unfold WorkFile_DropGoStmt Modfile.Edit.workDropGoStmt
  cases hg : e.f.go with
  | none =>
    have h0 : o.Go = 0 := by have := R.go; rw [hg] at this; exact this
    refine ⟨h, ?_, o, hw, R⟩
    simp only [hw, bind, Except.bind, h0, decide_true, Bool.not_true, Bool.false_eq_true, if_false, pure, Except.pure]
  | some g =>
    have hgo := R.go; rw [hg] at hgo
    obtain ⟨hgg, hgle⟩ := hgo
    have hne : ¬ (o.Go = 0) := by have := heapGet_pos hgg; omega
    obtain ⟨l, hgl, hlid⟩ := R.linesG.ofId (hlive g hg) hgle
    have R1 := RepWAt.setLine R (g := markRemovedLine) IdEquiv_markRemoved hgl
    have R2 := RepWAt_works (RepWAt_dropGo R1) (h.works.set (fp.toNat - 1) { o with Go := 0 })
    refine ⟨{ setLineH h (g.lineId : Int) (markRemovedLine l) with works := h.works.set (fp.toNat - 1) { o with Go := 0 } },
      ?_, { o with Go := 0 }, ?_, ?_⟩
    rotate_left
    · exact heapGet_listSet_same _ hw
    · simpa [markRemoved_eq] using R2
    · simp only [hw, bind, Except.bind, hne, decide_false, Bool.not_false, if_true, hgg, goG_Syntax,
        Line_markRemoved_eq hgl, setLineH_works, heapSet_of_get _ hw, pure, Except.pure]
theorem WorkFile_DropToolchainStmt_sim {h : Heap} {fp : Int} {e : EWork} (R : RepW h fp e)
    (hlive : ∀ g, e.f.toolchain = some g → g.lineId ≠ 0) :
    ∃ h', WorkFile_DropToolchainStmt fp h = .ok ((), h') ∧ RepW h' fp (Modfile.Edit.workDropToolchainStmt e) := by
  obtain ⟨o, hw, R⟩ := R
  unfold WorkFile_DropToolchainStmt Modfile.Edit.workDropToolchainStmt
  cases hg : e.f.toolchain with
  | none =>
    have h0 : o.Toolchain = 0 := by have := R.toolchain; rw [hg] at this; exact this
    refine ⟨h, ?_, o, hw, R⟩
    simp only [hw, bind, Except.bind, h0, decide_true, Bool.not_true, Bool.false_eq_true, if_false, pure, Except.pure]
  | some g =>
    have hgo := R.toolchain; rw [hg] at hgo
    obtain ⟨hgg, hgle⟩ := hgo
    have hne : ¬ (o.Toolchain = 0) := by have := heapGet_pos hgg; omega
    obtain ⟨l, hgl, hlid⟩ := R.linesG.ofId (hlive g hg) hgle
    have R1 := RepWAt.setLine R (g := markRemovedLine) IdEquiv_markRemoved hgl
    have R2 := RepWAt_works (RepWAt_dropToolchain R1) (h.works.set (fp.toNat - 1) { o with Toolchain := 0 })
    refine ⟨{ setLineH h (g.lineId : Int) (markRemovedLine l) with works := h.works.set (fp.toNat - 1) { o with Toolchain := 0 } },
      ?_, { o with Toolchain := 0 }, ?_, ?_⟩
    rotate_left
    · exact heapGet_listSet_same _ hw
    · simpa [markRemoved_eq] using R2
    · simp only [hw, bind, Except.bind, hne, decide_false, Bool.not_false, if_true, hgg, toolchainG_Syntax,
        Line_markRemoved_eq hgl, setLineH_works, heapSet_of_get _ hw, pure, Except.pure]

/-! ### the scans of AddGoStmt / AddToolchainStmt over the statement list -/

theorem AddGoStmt_loop1_eq (re : Bytes → Bool) (fp : Int) (h : Heap) (o : WorkFile) (fo : FileSyntax)
    (hw : heapGet h.works fp = .ok o) (hfo : heapGet h.files o.Syntax = .ok fo) :
    ∀ (suf : List Expr) (ssuf : List Modfile.Expr) (pre : List Expr) (fuel : Nat), fo.Stmt = pre ++ suf → RStmts h suf ssuf →
      suf.length + 1 ≤ fuel →
      WorkFile_AddGoStmt_loop1 re fp h fuel (pre.length : Int) = .ok ((firstNonComment ssuf pre.length : Nat) : Int)
  | [], [], pre, fuel, hs, _, hf => by
    obtain ⟨f, rfl⟩ : ∃ f, fuel = f + 1 := ⟨fuel - 1, by omega⟩
    simp only [List.append_nil] at hs
    unfold WorkFile_AddGoStmt_loop1
    simp only [hw, hfo, bind, Except.bind, hs, len_eq, Int.lt_irrefl, decide_false, Bool.false_eq_true, if_false, pure,
      Except.pure, firstNonComment]
  | [], _ :: _, _, _, _, r, _ => r.elim
  | _ :: _, [], _, _, _, r, _ => r.elim
  | x :: xs, s :: ss, pre, fuel, hs, r, hf => by
    obtain ⟨f, rfl⟩ : ∃ f, fuel = f + 1 := ⟨fuel - 1, by omega⟩
    have hlt : ((pre.length : Nat) : Int) < len fo.Stmt := by rw [hs]; exact lt_len_mid _ _ _
    have hidx : idxL fo.Stmt (pre.length : Int) = .ok x := by rw [hs]; exact idxL_mid _ _ _ rfl
    have hcast : ((pre.length : Nat) : Int) + 1 = (((pre ++ [x]).length : Nat) : Int) := by simp
    have ih := AddGoStmt_loop1_eq re fp h o fo hw hfo xs ss (pre ++ [x]) f (by simp [hs]) r.2 (by simp at hf; omega)
    have r1 := r.1
    unfold WorkFile_AddGoStmt_loop1
    simp only [hw, hfo, bind, Except.bind, hlt, decide_true, if_true, hidx]
    cases x <;> cases s <;> simp only [RExpr] at r1 <;> try exact r1.elim
    · simp only [Bool.not_true, Bool.false_eq_true, if_false, hcast, ih, firstNonComment]
      simp
    · simp only [Bool.not_false, if_true, pure, Except.pure, firstNonComment]
    · simp only [Bool.not_false, if_true, pure, Except.pure, firstNonComment]

theorem firstNonComment_le : ∀ (ss : List Modfile.Expr) (k : Nat), firstNonComment ss k ≤ k + ss.length
  | [], k => by simp [firstNonComment]
  | s :: ss, k => by
    cases s <;> simp only [firstNonComment, List.length_cons] <;> try omega
    have := firstNonComment_le ss (k + 1); omega

/-! ### AddGoStmt -/

theorem WorkFile_AddGoStmt_sim {h : Heap} {fp : Int} {e : EWork} (R : RepW h fp e) (version : Bytes) (fuel : Nat)
    (hlive : ∀ g, e.f.go = some g → g.lineId ≠ 0) (hf : e.f.syn.stmts.length + 1 ≤ fuel) :
    (∀ e', Modfile.Edit.workAddGoStmt e version = .ok e' →
      ∃ h', WorkFile_AddGoStmt Modfile.goVersionRE fuel fp version h = .ok (none, h') ∧ RepW h' fp e') ∧
    (∀ er, Modfile.Edit.workAddGoStmt e version = .error er →
      ∃ msg, WorkFile_AddGoStmt Modfile.goVersionRE fuel fp version h = .ok (some msg, h)) := by
  obtain ⟨o, hw, R⟩ := R
  unfold Modfile.Edit.workAddGoStmt
  cases hre : Modfile.goVersionRE version with
  | false =>
    simp only [Bool.not_false, if_true]
    refine ⟨fun e' he' => (by cases he'), fun er _ => ⟨"invalid language version %q", ?_⟩⟩
    unfold WorkFile_AddGoStmt
    simp only [hre, Bool.not_false, if_true, pure, Except.pure]
  | true =>
    simp only [Bool.not_true, Bool.false_eq_true, if_false, B_go]
    cases hg : e.f.go with
    | none =>
      have h0 : o.Go = 0 := by have := R.go; rw [hg] at this; exact this
      simp only []
      refine ⟨?_, fun er he' => by cases he'⟩
      intro e' he'
      simp only [Except.ok.injEq] at he'
      subst he'
      obtain ⟨es, r⟩ := R.syn
      have hle : firstNonComment e.f.syn.stmts 0 ≤ es.length := by
        have := firstNonComment_le e.f.syn.stmts 0; rw [r.stmts.length]; omega
      -- the heap before the scan
      let p2 : Int := ((h.lines.length + 1 : Nat) : Int)
      let h3 : Heap := { h with lines := h.lines ++ [({ (default : Line) with Token := [[103, 111], version] } : Line)],
                                gos := h.gos ++ [({ Version := version, Syntax := p2 } : Go)],
                                works := h.works.set (fp.toNat - 1) { o with Go := ((h.gos.length + 1 : Nat) : Int) } }
      have hw3 : heapGet h3.works fp = .ok { o with Go := ((h.gos.length + 1 : Nat) : Int) } := heapGet_listSet_same _ hw
      have hf3 : heapGet h3.files o.Syntax = .ok (fileG e.f.syn es) := r.file
      have r3 : RStmts h3 es e.f.syn.stmts :=
        RStmts.mono (h := h) (h' := h3) (fun q w (hq : heapGet h.lines q = .ok w) => heapGet_alloc_old _ hq) (fun _ _ x => x)
          (fun _ _ x => x) r.stmts
      have hloop := AddGoStmt_loop1_eq Modfile.goVersionRE fp h3 _ _ hw3 hf3 es e.f.syn.stmts [] fuel rfl r3
        (by rw [r.stmts.length]; exact hf)
      have hrun : WorkFile_AddGoStmt Modfile.goVersionRE fuel fp version h = .ok (none,
          { h3 with files := h.files.set (o.Syntax.toNat - 1) { fileG e.f.syn es with
              Stmt := (List.take (firstNonComment e.f.syn.stmts 0) es ++ Expr.Line p2 :: List.drop (firstNonComment e.f.syn.stmts 0) es) } }) := by
        unfold WorkFile_AddGoStmt
        simp only [hre, Bool.not_true, Bool.false_eq_true, if_false, hw, bind, Except.bind, h0, decide_true, if_true, heapAlloc,
          heapSet_of_get _ hw]
        have hloop' : WorkFile_AddGoStmt_loop1 Modfile.goVersionRE fp h3 fuel 0 =
            .ok ((firstNonComment e.f.syn.stmts 0 : Nat) : Int) := hloop
        rw [hloop']
        simp only [heapGet_listSet_same _ hw]
        rw [show heapGet h.files o.Syntax = .ok (fileG e.f.syn es) from r.file]
        simp only [fileG_Stmt, sliceTo_natCast hle, sliceFrom_natCast hle, heapSet_of_get _ r.file, pure, Except.pure]
        simp [h3, p2]
      refine ⟨_, hrun, { o with Go := ((h.gos.length + 1 : Nat) : Int) }, heapGet_listSet_same _ hw, ?_⟩
      rw [R.next]
      exact {
        syn := ⟨_, RepSynAt_insertLine r [[103, 111], version] (firstNonComment e.f.syn.stmts 0) rfl rfl rfl rfl⟩
        tok := BlockTokOK_insertLine R.tok _ _
        linesG := (R.linesG.allocLine (mkLine (h.lines.length + 1) [[103, 111], version] false)).congr rfl
        next := by simp [h3]
        go := ⟨heapGet_alloc_new _ _, by simp [h3]⟩
        toolchain := R.toolchain.mono (fun _ _ x => x) (by simp [h3])
        godebug := R.godebug.mono (fun _ _ x => x) (by simp [h3])
        use := R.use.mono (fun _ _ x => x) (by simp [h3])
        replace := R.replace.mono (fun _ _ x => x) (by simp [h3]) }
    | some g =>
      simp only []
      refine ⟨?_, fun er he' => by cases he'⟩
      intro e' he'
      simp only [Except.ok.injEq] at he'
      subst he'
      have hgo := R.go; rw [hg] at hgo
      obtain ⟨hgg, hgle⟩ := hgo
      have hne : ¬ (o.Go = 0) := by have := heapGet_pos hgg; omega
      obtain ⟨l, hgl, hlid⟩ := R.linesG.ofId (hlive g hg) hgle
      have R1 := RepWAt_setGo R hg { g with version := version } hgle
      have R2 := RepWAt.setLine R1 (g := updateTokLine [[103, 111], version]) (IdEquiv_updateTok _) hgl
      refine ⟨setLineH { h with gos := h.gos.set (o.Go.toNat - 1) (goG { g with version := version }) } (g.lineId : Int)
        (updateTokLine [[103, 111], version] l), ?_, o, hw, by simpa [updateLine_eq] using R2⟩
      have hup : FileSyntax_updateLine o.Syntax (g.lineId : Int) [[103, 111], version]
          { h with gos := h.gos.set (o.Go.toNat - 1) ({ Version := version, Syntax := (g.lineId : Int) } : Go) } =
          .ok ((), setLineH { h with gos := h.gos.set (o.Go.toNat - 1) (goG { g with version := version }) } (g.lineId : Int)
            (updateTokLine [[103, 111], version] l)) :=
        FileSyntax_updateLine_eq (l := l) hgl (by intro _; simp)
      unfold WorkFile_AddGoStmt
      simp only [hre, Bool.not_true, Bool.false_eq_true, if_false, hw, bind, Except.bind, hne, decide_false, hgg,
        heapSet_of_get _ hgg, heapGet_listSet_same _ hgg, goG_Syntax, hup, pure, Except.pure]
theorem AddToolchainStmt_loop2_eq (re : Bytes → Bool) (fp : Int) (h : Heap) (o : WorkFile) (fo : FileSyntax)
    (hw : heapGet h.works fp = .ok o) (hfo : heapGet h.files o.Syntax = .ok fo) :
    ∀ (suf : List Expr) (ssuf : List Modfile.Expr) (pre : List Expr) (fuel : Nat), fo.Stmt = pre ++ suf → RStmts h suf ssuf →
      suf.length + 1 ≤ fuel →
      WorkFile_AddToolchainStmt_loop2 re fp h fuel (pre.length : Int) = .ok ((firstNonComment ssuf pre.length : Nat) : Int)
  | [], [], pre, fuel, hs, _, hf => by
    obtain ⟨f, rfl⟩ : ∃ f, fuel = f + 1 := ⟨fuel - 1, by omega⟩
    simp only [List.append_nil] at hs
    unfold WorkFile_AddToolchainStmt_loop2
    simp only [hw, hfo, bind, Except.bind, hs, len_eq, Int.lt_irrefl, decide_false, Bool.false_eq_true, if_false, pure,
      Except.pure, firstNonComment]
  | [], _ :: _, _, _, _, r, _ => r.elim
  | _ :: _, [], _, _, _, r, _ => r.elim
  | x :: xs, s :: ss, pre, fuel, hs, r, hf => by
    obtain ⟨f, rfl⟩ : ∃ f, fuel = f + 1 := ⟨fuel - 1, by omega⟩
    have hlt : ((pre.length : Nat) : Int) < len fo.Stmt := by rw [hs]; exact lt_len_mid _ _ _
    have hidx : idxL fo.Stmt (pre.length : Int) = .ok x := by rw [hs]; exact idxL_mid _ _ _ rfl
    have hcast : ((pre.length : Nat) : Int) + 1 = (((pre ++ [x]).length : Nat) : Int) := by simp
    have ih := AddToolchainStmt_loop2_eq re fp h o fo hw hfo xs ss (pre ++ [x]) f (by simp [hs]) r.2 (by simp at hf; omega)
    have r1 := r.1
    unfold WorkFile_AddToolchainStmt_loop2
    simp only [hw, hfo, bind, Except.bind, hlt, decide_true, if_true, hidx]
    cases x <;> cases s <;> simp only [RExpr] at r1 <;> try exact r1.elim
    · simp only [Bool.not_true, Bool.false_eq_true, if_false, hcast, ih, firstNonComment]
      simp
    · simp only [Bool.not_false, if_true, pure, Except.pure, firstNonComment]
    · simp only [Bool.not_false, if_true, pure, Except.pure, firstNonComment]


theorem headIs_cons (u : Bytes) (us : List Bytes) (t : Bytes) : headIs (u :: us) t = decide (u = t) := by
  simp only [headIs, List.head?_cons]
  by_cases e : u = t
  · subst e; simp
  · simp only [e, decide_false]
    exact beq_false_of_ne (fun h => e (Option.some.inj h))

theorem afterGoLine_le : ∀ (ss : List Modfile.Expr) (k j : Nat), afterGoLine ss k = some j → j ≤ k + ss.length
  | [], k, j, h => by simp [afterGoLine] at h
  | s :: ss, k, j, h => by
    cases s with
    | line l =>
      simp only [afterGoLine] at h
      split at h
      · simp only [Option.some.injEq] at h; simp only [List.length_cons]; omega
      · have := afterGoLine_le ss (k + 1) j h; simp only [List.length_cons]; omega
    | lineBlock b => have := afterGoLine_le ss (k + 1) j h; simp only [List.length_cons]; omega
    | commentBlock c => have := afterGoLine_le ss (k + 1) j h; simp only [List.length_cons]; omega
    | lparen c => have := afterGoLine_le ss (k + 1) j h; simp only [List.length_cons]; omega
    | rparen c => have := afterGoLine_le ss (k + 1) j h; simp only [List.length_cons]; omega

/-- the heap after `x.Stmt = append(x.Stmt[:k], stmt, x.Stmt[k:]...)` on the file object `fo` at `x` -/
def insFile (h : Heap) (x : Int) (fo : FileSyntax) (k : Nat) (stmt : Int) : Heap :=
  { h with files := h.files.set (x.toNat - 1) { fo with Stmt := (List.take k fo.Stmt ++ Expr.Line stmt :: List.drop k fo.Stmt) } }

theorem AddToolchainStmt_loop1_eq (re : Bytes → Bool) (fp stmt : Int) (h : Heap) (o : WorkFile) (fo : FileSyntax)
    (hw : heapGet h.works fp = .ok o) (hfo : heapGet h.files o.Syntax = .ok fo) :
    ∀ (suf : List Expr) (ssuf : List Modfile.Expr) (pre : List Expr) (fuel : Nat), fo.Stmt = pre ++ suf → RStmts h suf ssuf →
      suf.length + 1 ≤ fuel →
      WorkFile_AddToolchainStmt_loop1 re fp stmt h fuel (pre.length : Int) =
        match afterGoLine ssuf pre.length with
        | some k => .ok (Ctl.ret ((none : Option String), insFile h o.Syntax fo k stmt))
        | none => .ok (Ctl.next (len fo.Stmt))
  | [], [], pre, fuel, hs, _, hf => by
    obtain ⟨f, rfl⟩ : ∃ f, fuel = f + 1 := ⟨fuel - 1, by omega⟩
    simp only [List.append_nil] at hs
    unfold WorkFile_AddToolchainStmt_loop1
    simp only [hw, hfo, bind, Except.bind, hs, len_eq, Int.lt_irrefl, decide_false, Bool.false_eq_true, if_false, pure,
      Except.pure, afterGoLine]
  | [], _ :: _, _, _, _, r, _ => r.elim
  | _ :: _, [], _, _, _, r, _ => r.elim
  | x :: xs, s :: ss, pre, fuel, hs, r, hf => by
    obtain ⟨f, rfl⟩ : ∃ f, fuel = f + 1 := ⟨fuel - 1, by omega⟩
    have hlt : ((pre.length : Nat) : Int) < len fo.Stmt := by rw [hs]; exact lt_len_mid _ _ _
    have hidx : idxL fo.Stmt (pre.length : Int) = .ok x := by rw [hs]; exact idxL_mid _ _ _ rfl
    have hcast : ((pre.length : Nat) : Int) + 1 = (((pre ++ [x]).length : Nat) : Int) := by simp
    have hcast2 : ((pre.length : Nat) : Int) + 1 = ((pre.length + 1 : Nat) : Int) := by simp
    have hle : pre.length + 1 ≤ fo.Stmt.length := by rw [hs]; simp
    have ih := AddToolchainStmt_loop1_eq re fp stmt h o fo hw hfo xs ss (pre ++ [x]) f (by simp [hs]) r.2 (by simp at hf; omega)
    have hlen' : (pre ++ [x]).length = pre.length + 1 := by simp
    rw [hlen'] at ih
    have r1 := r.1
    unfold WorkFile_AddToolchainStmt_loop1
    simp only [hw, hfo, bind, Except.bind, hlt, decide_true, if_true, hidx]
    cases x <;> cases s <;> simp only [RExpr] at r1 <;> try exact r1.elim
    · simp only [Bool.false_eq_true, if_false, pure, Except.pure, hcast, ih, afterGoLine, hlen']
    · rename_i p l
      rcases l with ⟨lid, lcom, lst, tk, lib, lend⟩
      cases tk with
      | nil =>
        simp only [if_true, r1.1, pure, Except.pure, lineG, afterGoLine]
        simp only [len_eq, List.length_nil, Int.ofNat_zero, gt_iff_lt, Int.lt_irrefl, decide_false, Bool.false_eq_true, if_false,
          List.isEmpty_nil, Bool.not_true, Bool.false_and, hcast, ih, hlen']
      | cons u us =>
        have hpos : len (u :: us) > 0 := by rw [len_eq]; simp <;> omega
        simp only [if_true, r1.1, pure, Except.pure, lineG, afterGoLine]
        simp only [hpos, decide_true, if_true, idxL_zero_cons, List.isEmpty_cons, Bool.not_false, Bool.true_and, headIs_cons,
          B_go]
        by_cases hu : u = [103, 111]
        · simp only [hu, decide_true, if_true, hcast2, sliceTo_natCast hle, sliceFrom_natCast hle, heapSet_of_get _ hfo, insFile, List.append_assoc, List.singleton_append]
        · simp only [hu, decide_false, Bool.false_eq_true, if_false, hcast, ih, hlen']
    · simp only [Bool.false_eq_true, if_false, pure, Except.pure, hcast, ih, afterGoLine, hlen']

/-! ### AddToolchainStmt -/

theorem WorkFile_AddToolchainStmt_sim {h : Heap} {fp : Int} {e : EWork} (R : RepW h fp e) (name : Bytes) (fuel : Nat)
    (hlive : ∀ t, e.f.toolchain = some t → t.lineId ≠ 0) (hf : e.f.syn.stmts.length + 1 ≤ fuel) :
    (∀ e', Modfile.Edit.workAddToolchainStmt e name = .ok e' →
      ∃ h', WorkFile_AddToolchainStmt Modfile.toolchainRE fuel fp name h = .ok (none, h') ∧ RepW h' fp e') ∧
    (∀ er, Modfile.Edit.workAddToolchainStmt e name = .error er →
      ∃ msg, WorkFile_AddToolchainStmt Modfile.toolchainRE fuel fp name h = .ok (some msg, h)) := by
  obtain ⟨o, hw, R⟩ := R
  unfold Modfile.Edit.workAddToolchainStmt
  cases hre : Modfile.toolchainRE name with
  | false =>
    simp only [Bool.not_false, if_true]
    refine ⟨fun e' he' => (by cases he'), fun er _ => ⟨"invalid toolchain name %q", ?_⟩⟩
    unfold WorkFile_AddToolchainStmt
    simp only [hre, Bool.not_false, if_true, pure, Except.pure]
  | true =>
    simp only [Bool.not_true, Bool.false_eq_true, if_false, B_toolchain]
    cases hg : e.f.toolchain with
    | none =>
      have h0 : o.Toolchain = 0 := by have := R.toolchain; rw [hg] at this; exact this
      simp only []
      refine ⟨?_, fun er he' => by cases he'⟩
      intro e' he'
      simp only [Except.ok.injEq] at he'
      subst he'
      obtain ⟨es, r⟩ := R.syn
      -- the heap before the scans
      let p2 : Int := ((h.lines.length + 1 : Nat) : Int)
      let h3 : Heap := { h with lines := h.lines ++ [({ (default : Line) with Token := [[116, 111, 111, 108, 99, 104, 97, 105, 110], name] } : Line)],
                                toolchains := h.toolchains ++ [({ Name := name, Syntax := p2 } : Toolchain)],
                                works := h.works.set (fp.toNat - 1) { o with Toolchain := ((h.toolchains.length + 1 : Nat) : Int) } }
      have hw3 : heapGet h3.works fp = .ok { o with Toolchain := ((h.toolchains.length + 1 : Nat) : Int) } :=
        heapGet_listSet_same _ hw
      have hf3 : heapGet h3.files o.Syntax = .ok (fileG e.f.syn es) := r.file
      have r3 : RStmts h3 es e.f.syn.stmts :=
        RStmts.mono (h := h) (h' := h3) (fun q w (hq : heapGet h.lines q = .ok w) => heapGet_alloc_old _ hq) (fun _ _ x => x)
          (fun _ _ x => x) r.stmts
      have hloop1 : WorkFile_AddToolchainStmt_loop1 Modfile.toolchainRE fp p2 h3 fuel 0 = _ :=
        AddToolchainStmt_loop1_eq Modfile.toolchainRE fp p2 h3 _ _ hw3 hf3 es e.f.syn.stmts [] fuel rfl r3
          (by rw [r.stmts.length]; exact hf)
      have hloop2 : WorkFile_AddToolchainStmt_loop2 Modfile.toolchainRE fp h3 fuel 0 =
          .ok ((firstNonComment e.f.syn.stmts 0 : Nat) : Int) :=
        AddToolchainStmt_loop2_eq Modfile.toolchainRE fp h3 _ _ hw3 hf3 es e.f.syn.stmts [] fuel rfl r3
          (by rw [r.stmts.length]; exact hf)
      have key : ∀ i : Nat, WorkFile_AddToolchainStmt Modfile.toolchainRE fuel fp name h =
            .ok (none, insFile h3 o.Syntax (fileG e.f.syn es) i p2) →
          ∃ h', WorkFile_AddToolchainStmt Modfile.toolchainRE fuel fp name h = .ok (none, h') ∧
            RepW h' fp { f := { e.f with toolchain := some { name := name, lineId := e.next },
                                         syn := { e.f.syn with stmts := (insertAt e.f.syn.stmts i
                                           (.line (mkLine e.next [[116, 111, 111, 108, 99, 104, 97, 105, 110], name] false))) } },
                         next := e.next + 1 } := by
        intro i hrun
        refine ⟨_, hrun, { o with Toolchain := ((h.toolchains.length + 1 : Nat) : Int) }, heapGet_listSet_same _ hw, ?_⟩
        rw [R.next]
        exact {
          syn := ⟨_, RepSynAt_insertLine r [[116, 111, 111, 108, 99, 104, 97, 105, 110], name] i rfl rfl rfl rfl⟩
          tok := BlockTokOK_insertLine R.tok _ _
          linesG := (R.linesG.allocLine (mkLine (h.lines.length + 1) [[116, 111, 111, 108, 99, 104, 97, 105, 110], name] false)).congr rfl
          next := by simp [h3, insFile]
          go := R.go.mono (fun _ _ x => x) (by simp [h3, insFile])
          toolchain := ⟨heapGet_alloc_new _ _, by simp [h3, insFile]⟩
          godebug := R.godebug.mono (fun _ _ x => x) (by simp [h3, insFile])
          use := R.use.mono (fun _ _ x => x) (by simp [h3, insFile])
          replace := R.replace.mono (fun _ _ x => x) (by simp [h3, insFile]) }
      have hstart : WorkFile_AddToolchainStmt Modfile.toolchainRE fuel fp name h =
          (match afterGoLine e.f.syn.stmts 0 with
           | some k => .ok (none, insFile h3 o.Syntax (fileG e.f.syn es) k p2)
           | none => .ok (none, insFile h3 o.Syntax (fileG e.f.syn es) (firstNonComment e.f.syn.stmts 0) p2)) := by
        unfold WorkFile_AddToolchainStmt
        simp only [hre, Bool.not_true, Bool.false_eq_true, if_false, hw, bind, Except.bind, h0, decide_true, if_true, heapAlloc,
          heapSet_of_get _ hw]
        rw [hloop1]
        simp only [List.length_nil]
        cases ha : afterGoLine e.f.syn.stmts 0 with
        | some k =>
          simp only [pure, Except.pure]
        | none =>
          have hle : firstNonComment e.f.syn.stmts 0 ≤ es.length := by
            have := firstNonComment_le e.f.syn.stmts 0; rw [r.stmts.length]; omega
          simp only []
          rw [hloop2]
          simp only [heapGet_listSet_same _ hw]
          rw [show heapGet h.files o.Syntax = .ok (fileG e.f.syn es) from r.file]
          simp only [fileG_Stmt, sliceTo_natCast hle, sliceFrom_natCast hle, heapSet_of_get _ r.file, pure, Except.pure]
          simp [h3, p2, insFile]
      cases ha : afterGoLine e.f.syn.stmts 0 with
      | some k => rw [ha] at hstart; exact key k hstart
      | none => rw [ha] at hstart; exact key _ hstart
    | some t =>
      simp only []
      refine ⟨?_, fun er he' => by cases he'⟩
      intro e' he'
      simp only [Except.ok.injEq] at he'
      subst he'
      have hgo := R.toolchain; rw [hg] at hgo
      obtain ⟨hgg, hgle⟩ := hgo
      have hne : ¬ (o.Toolchain = 0) := by have := heapGet_pos hgg; omega
      obtain ⟨l, hgl, hlid⟩ := R.linesG.ofId (hlive t hg) hgle
      have R1 := RepWAt_setToolchain R hg { t with name := name } hgle
      have R2 := RepWAt.setLine R1 (g := updateTokLine [[116, 111, 111, 108, 99, 104, 97, 105, 110], name]) (IdEquiv_updateTok _) hgl
      refine ⟨setLineH { h with toolchains := h.toolchains.set (o.Toolchain.toNat - 1) (toolchainG { t with name := name }) }
        (t.lineId : Int) (updateTokLine [[116, 111, 111, 108, 99, 104, 97, 105, 110], name] l), ?_, o, hw,
        by simpa [updateLine_eq] using R2⟩
      have hup : FileSyntax_updateLine o.Syntax (t.lineId : Int) [[116, 111, 111, 108, 99, 104, 97, 105, 110], name]
          { h with toolchains := h.toolchains.set (o.Toolchain.toNat - 1) ({ Name := name, Syntax := (t.lineId : Int) } : Toolchain) } =
          .ok ((), setLineH { h with toolchains := h.toolchains.set (o.Toolchain.toNat - 1) (toolchainG { t with name := name }) }
            (t.lineId : Int) (updateTokLine [[116, 111, 111, 108, 99, 104, 97, 105, 110], name] l)) :=
        FileSyntax_updateLine_eq (l := l) hgl (by intro _; simp)
      unfold WorkFile_AddToolchainStmt
      simp only [hre, Bool.not_true, Bool.false_eq_true, if_false, hw, bind, Except.bind, hne, decide_false, hgg,
        heapSet_of_get _ hgg, heapGet_listSet_same _ hgg, toolchainG_Syntax, hup, pure, Except.pure]
end ModVerif.Tie.FnEditWorkD
