/-
  Tie proof, zip/zip.go `collisionChecker.check`: the regenerated definition (Generated/FnZip.lean: recursive on fuel, the
  Go map receiver is an association list that is also returned) against the hand model `Zip.ccCheck` (Model/Zip.lean).

  Representation: the association list `List (Bytes × pathInfo)` (key = folded path) and the model's `CC = List PathInfo`
  (records with the key as a field) are the same list entry by entry: `toCC` / `ofCC` are mutually inverse maps.
  The model's `toFold` parameter is instantiated with `Zip.strToFold` (tie of the generated `strToFold`, Proofs/TieFnZipFold).
  Errors: the three `fmt.Errorf` format literals are `errText` of the model's three collision `Reason`s.
-/
import ModVerif.Generated.FnZip
import ModVerif.Model.Zip
import ModVerif.Proofs.GoRtLemmasZip
import ModVerif.Proofs.TieFnZipFold
import ModVerif.Proofs.TieFnZipPath
import ModVerif.Proofs.ZipAChain
import ModVerif.Proofs.ZipAPath
namespace ModVerif.TieFnZip
open ModVerif ModVerif.GoRt ModVerif.GoRtZip
open ModVerif.Generated.Zip (pathInfo)

/-! ### representation -/

def toPI (q : Bytes × pathInfo) : Zip.PathInfo := ⟨q.1, q.2.path, q.2.isDir⟩
def ofPI (e : Zip.PathInfo) : Bytes × pathInfo := (e.fold, { path := e.path, isDir := e.isDir })

/-- the Go map as the model's table -/
def toCC (m : List (Bytes × pathInfo)) : Zip.CC := m.map toPI
/-- the model's table as the Go map -/
def ofCC (cc : Zip.CC) : List (Bytes × pathInfo) := cc.map ofPI

theorem ofPI_toPI (q : Bytes × pathInfo) : ofPI (toPI q) = q := rfl
theorem toPI_ofPI (e : Zip.PathInfo) : toPI (ofPI e) = e := rfl

theorem ofCC_toCC (m : List (Bytes × pathInfo)) : ofCC (toCC m) = m := by
  simp [ofCC, toCC, List.map_map, Function.comp_def, ofPI_toPI]
theorem toCC_ofCC (cc : Zip.CC) : toCC (ofCC cc) = cc := by
  simp [ofCC, toCC, List.map_map, Function.comp_def, toPI_ofPI]

theorem toCC_append (a b : List (Bytes × pathInfo)) : toCC (a ++ b) = toCC a ++ toCC b := by simp [toCC]

/-- the `fmt.Errorf` format literal of a collision reason (the other reasons are never produced by `check`) -/
def errText : Zip.Reason → String
  | .caseCollision => "case-insensitive file name collision: %q and %q"
  | .fileAndDir => "entry %q is both a file and a directory"
  | .multiple => "multiple entries for file %q"
  | _ => ""

/-- the model's result as the result of the generated function: (error, map) -/
def ccOut (r : Zip.CC × Option Zip.Reason) : Option String × List (Bytes × pathInfo) := (r.2.map errText, ofCC r.1)

theorem find_toCC (m : List (Bytes × pathInfo)) (k : Bytes) :
    Zip.CC.find (toCC m) k = (m.find? (fun q => decide (q.1 = k))).map toPI := by
  unfold Zip.CC.find toCC
  exact find?_map_key toPI Zip.PathInfo.fold (fun _ => rfl) k m

theorem bind_pair_eta {α β : Type} (x : M (α × β)) :
    (x >>= fun t => match t with | (a, b) => (pure (a, b) : M (α × β))) = x := by
  cases x with
  | error e => rfl
  | ok v => obtain ⟨a, b⟩ := v; rfl

/-! ### one level of the recursion -/

theorem check_step_of (sf : Int → Int) (f : Nat) (m : List (Bytes × pathInfo)) (p : Bytes) (d : Bool)
    (hst : Generated.Zip.strToFold sf f p = .ok (Zip.strToFold p)) :
    Generated.Zip.collisionChecker_check sf (f + 1) m p d =
      match Zip.ccStep Zip.strToFold (toCC m) p d with
      | (cc', some e) => .ok (some (errText e), ofCC cc')
      | (cc', none) =>
        if PathClean.pathDir p != [46] then Generated.Zip.collisionChecker_check sf f (ofCC cc') (PathClean.pathDir p) true
        else .ok (none, ofCC cc') := by
  rw [Generated.Zip.collisionChecker_check]
  unfold Zip.ccStep
  rw [hst, find_toCC]
  simp only [GoRt.bind_ok]
  have hk : ∀ m' : List (Bytes × pathInfo),
      (if (!decide (GoRt.pathDir p = [46])) = true then
        (Generated.Zip.collisionChecker_check sf f m' (GoRt.pathDir p) true >>= fun t2 =>
          match t2 with | (io3, cc) => (pure (io3, cc) : M _))
      else (pure (none, m') : M (Option String × List (Bytes × pathInfo)))) =
      (if PathClean.pathDir p != [46] then Generated.Zip.collisionChecker_check sf f m' (PathClean.pathDir p) true
        else .ok (none, m')) := by
    intro m'
    rw [bind_pair_eta]
    have : (!decide (GoRt.pathDir p = [46])) = (PathClean.pathDir p != [46]) := by
      show _ = !(PathClean.pathDir p == [46])
      rw [Bool.beq_eq_decide_eq]; rfl
    rw [this]; rfl
  cases hfind : m.find? (fun q => decide (q.1 = Zip.strToFold p)) with
  | none =>
    rw [mapGet_none _ _ _ hfind, mapSet_none _ _ _ hfind]
    simp only [Option.map_none, Bool.false_eq_true, if_false]
    have e : ofCC (toCC m ++ [⟨Zip.strToFold p, p, d⟩]) = m ++ [(Zip.strToFold p, { path := p, isDir := d })] := by
      rw [ofCC, List.map_append, ← ofCC, ofCC_toCC]; rfl
    rw [e]
    exact hk _
  | some q =>
    rw [mapGet_found _ _ _ q hfind]
    simp only [Option.map_some, if_true]
    have e1 : (!decide (p = q.2.path)) = (p != (toPI q).path) := by
      show _ = !(p == q.2.path)
      rw [Bool.beq_eq_decide_eq]
    have e2 : (!(d == q.2.isDir)) = (d != (toPI q).isDir) := rfl
    rw [e1, e2]
    by_cases h1 : (p != (toPI q).path) = true
    · simp only [h1, if_true, ofCC_toCC]; rfl
    simp only [h1, Bool.false_eq_true, if_false]
    by_cases h2 : (d != (toPI q).isDir) = true
    · simp only [h2, if_true, ofCC_toCC]; rfl
    simp only [h2, Bool.false_eq_true, if_false]
    by_cases h3 : (!d) = true
    · simp only [h3, if_true, ofCC_toCC]; rfl
    simp only [h3, Bool.false_eq_true, if_false, ofCC_toCC]
    exact hk _

theorem check_step (sf : Int → Int) (K : Nat) (hsf : FoldsTo sf K) (f : Nat) (m : List (Bytes × pathInfo)) (p : Bytes)
    (d : Bool) (hf : 2 * p.length + K + 2 ≤ f) :
    Generated.Zip.collisionChecker_check sf (f + 1) m p d =
      match Zip.ccStep Zip.strToFold (toCC m) p d with
      | (cc', some e) => .ok (some (errText e), ofCC cc')
      | (cc', none) =>
        if PathClean.pathDir p != [46] then Generated.Zip.collisionChecker_check sf f (ofCC cc') (PathClean.pathDir p) true
        else .ok (none, ofCC cc') :=
  check_step_of sf f m p d (strToFold_eq sf K hsf f p hf)

/-! ### the whole recursion -/

/-- For every model fuel `n` with which the model's recursion ends (no `Reason.panic`), the generated function computes
    the model's result, given fuel for the `n` levels plus `strToFold` on the longest path of the chain (the path itself:
    `path.Dir` never lengthens, `pathDir_length_le`). -/
theorem check_eq (sf : Int → Int) (K : Nat) (hsf : FoldsTo sf K) : ∀ (n fuel : Nat) (m : List (Bytes × pathInfo))
    (p : Bytes) (d : Bool),
    (Zip.ccCheck Zip.strToFold n (toCC m) p d).2 ≠ some .panic →
    n + 2 * max p.length 1 + K + 2 ≤ fuel →
    Generated.Zip.collisionChecker_check sf fuel m p d =
      .ok (ccOut (Zip.ccCheck Zip.strToFold n (toCC m) p d)) := by
  intro n
  induction n with
  | zero => intro fuel m p d h; exact absurd rfl h
  | succ n ih =>
    intro fuel m p d h hf
    obtain ⟨f, rfl⟩ : ∃ f, fuel = f + 1 := ⟨fuel - 1, by omega⟩
    rw [check_step sf K hsf f m p d (by omega)]
    unfold Zip.ccCheck at h ⊢
    cases hs : Zip.ccStep Zip.strToFold (toCC m) p d with
    | mk cc' o =>
      rw [hs] at h
      cases o with
      | some e => rfl
      | none =>
        simp only at h ⊢
        by_cases hd : (PathClean.pathDir p != [46]) = true
        · simp only [if_pos hd] at h ⊢
          have hl := pathDir_length_le p
          have := ih f (ofCC cc') (PathClean.pathDir p) true (by rw [toCC_ofCC]; exact h) (by omega)
          rw [this, toCC_ofCC]
        · simp only [if_neg hd]; rfl

/-- one step of the checker reports one of the three collision reasons or nothing -/
theorem ccStep_ne_panic (tf : Bytes → Bytes) (cc : Zip.CC) (p : Bytes) (d : Bool) :
    (Zip.ccStep tf cc p d).2 ≠ some .panic := by
  unfold Zip.ccStep
  split
  · repeat' split
    all_goals simp
  · simp

/-- the model's own fuel criterion (`Proofs/ZipAChain.lean`): the chain of `path.Dir` reaches "." within `n` steps -/
theorem ccCheck_ne_panic (tf : Bytes → Bytes) : ∀ (n : Nat) (cc : Zip.CC) (p : Bytes) (d : Bool),
    Proofs.ZipA.fuelOK n p → (Zip.ccCheck tf n cc p d).2 ≠ some .panic := by
  intro n
  induction n with
  | zero => intro cc p d h; exact absurd h (by simp [Proofs.ZipA.fuelOK])
  | succ n ih =>
    intro cc p d h
    unfold Proofs.ZipA.fuelOK at h
    unfold Zip.ccCheck
    cases hs : Zip.ccStep tf cc p d with
    | mk cc' o =>
      cases o with
      | some e =>
        have := ccStep_ne_panic tf cc p d
        rw [hs] at this
        exact this
      | none =>
        simp only
        by_cases hd : (PathClean.pathDir p != [46]) = true
        · rw [if_pos hd]; exact ih _ _ _ (h hd)
        · rw [if_neg hd]; simp

end ModVerif.TieFnZip
