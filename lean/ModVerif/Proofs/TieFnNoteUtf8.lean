/-
  Tie proofs for sumdb/note/note.go (Generated/FnNote.lean vs Model/Note.lean), part 1:
  the model's UTF-8 walk `runesOf` against the run-time decoder (`Utf8.decode`), strings.IndexFunc,
  isValidName, chop (strings.Index), and the first loop of Open (the rune scan).
-/
import ModVerif.Generated.FnNote
import ModVerif.Model.Note
import ModVerif.Proofs.GoRtLemmasNote
namespace ModVerif.TieFnNote
open ModVerif ModVerif.GoRt ModVerif.GoRtNote

/-! ### instantiation of the abstract parameters of the generated code (as in Drv/GenNote.lean) -/

/-- `unicode.IsSpace` on a rune given as an integer -/
def isSpaceI (r : Int) : Bool := Note.isSpace r.toNat

/-- `base64.StdEncoding.DecodeString` as the model decodes, with Go's `(value, error)` result shape -/
def b64decI (s : Bytes) : Bytes × Option String :=
  match B64.b64dec s with
  | some b => (b, none)
  | none => ([], some "illegal base64 data")

/-! ### the model's `runesOf` is the accept table of `Utf8.decode`, one rune at a time -/

theorem isCont_eq (b : UInt8) : Note.isCont b = Utf8.isCont b := rfl

theorem runesOf_step (b0 : UInt8) (rest : Bytes) :
    Note.runesOf (b0 :: rest) = match Utf8.decode (b0 :: rest) with
      | none => none
      | some (r, w) => (Note.runesOf ((b0 :: rest).drop w)).map (r :: ·) := by
  rw [Note.runesOf.eq_def]
  unfold Utf8.decode
  simp only [isCont_eq, Utf8.inRange]
  by_cases h1 : b0.toNat < 0x80
  · simp [h1]
  · simp only [h1, if_false]
    by_cases h2 : b0.toNat < 0xC2
    · simp [h2]
    · simp only [h2, if_false]
      by_cases h3 : b0.toNat < 0xE0
      · simp only [h3, if_true]
        cases rest with
        | nil => rfl
        | cons b1 r =>
          simp only
          by_cases hc : Utf8.isCont b1 = true <;> simp [hc]
      · simp only [h3, if_false]
        by_cases h4 : b0.toNat < 0xF0
        · simp only [h4, if_true]
          match rest with
          | [] => rfl
          | [_] => rfl
          | b1 :: b2 :: r =>
            simp only
            rcases (by omega : b0.toNat = 0xE0 ∨ b0.toNat = 0xED ∨ (b0.toNat ≠ 0xE0 ∧ b0.toNat ≠ 0xED)) with e | e | ⟨ea, eb⟩
            · simp only [e, beq_self_eq_true, if_true]
              by_cases hc : (decide (160 ≤ b1.toNat) && decide (b1.toNat ≤ 191) && Utf8.isCont b2) = true <;> simp [hc]
            · simp only [e]
              by_cases hc : (decide (128 ≤ b1.toNat) && decide (b1.toNat ≤ 159) && Utf8.isCont b2) = true <;> simp [hc]
            · have ea' : (b0.toNat == 0xE0) = false := by simpa using ea
              have eb' : (b0.toNat == 0xED) = false := by simpa using eb
              simp only [ea', eb', Bool.false_eq_true, if_false]
              by_cases hc : (decide (128 ≤ b1.toNat) && decide (b1.toNat ≤ 191) && Utf8.isCont b2) = true <;> simp [hc]
        · simp only [h4, if_false]
          by_cases h5 : b0.toNat < 0xF5
          · simp only [h5, if_true]
            match rest with
            | [] => rfl
            | [_] => rfl
            | [_, _] => rfl
            | b1 :: b2 :: b3 :: r =>
              simp only
              rcases (by omega : b0.toNat = 0xF0 ∨ b0.toNat = 0xF4 ∨ (b0.toNat ≠ 0xF0 ∧ b0.toNat ≠ 0xF4)) with e | e | ⟨ea, eb⟩
              · simp only [e, beq_self_eq_true, if_true]
                by_cases hc : (decide (144 ≤ b1.toNat) && decide (b1.toNat ≤ 191) && Utf8.isCont b2 && Utf8.isCont b3) = true <;>
                  simp [hc]
              · simp only [e]
                by_cases hc : (decide (128 ≤ b1.toNat) && decide (b1.toNat ≤ 143) && Utf8.isCont b2 && Utf8.isCont b3) = true <;>
                  simp [hc]
              · have ea' : (b0.toNat == 0xF0) = false := by simpa using ea
                have eb' : (b0.toNat == 0xF4) = false := by simpa using eb
                simp only [ea', eb', Bool.false_eq_true, if_false]
                by_cases hc : (decide (128 ≤ b1.toNat) && decide (b1.toNat ≤ 191) && Utf8.isCont b2 && Utf8.isCont b3) = true <;>
                  simp [hc]
          · simp [h5]

theorem runesOf_step' (s : Bytes) (hs : s ≠ []) :
    Note.runesOf s = match Utf8.decode s with
      | none => none
      | some (r, w) => (Note.runesOf (s.drop w)).map (r :: ·) := by
  cases s with
  | nil => exact absurd rfl hs
  | cons b rest => exact runesOf_step b rest

/-! ### utf8.ValidString, one rune at a time; `runesOf` = valid ? runes : none -/

theorem validAux_eq_drop : ∀ (k : Nat) (s : Bytes), Utf8.validAux k s = Utf8.validString (s.drop k) := by
  intro k
  induction k with
  | zero => intro s; rfl
  | succ n ih =>
    intro s
    cases s with
    | nil => rfl
    | cons b t => simp only [Utf8.validAux, List.drop_succ_cons]; exact ih t

theorem valid_step (s : Bytes) (hs : s ≠ []) :
    Utf8.validString s = match Utf8.decode s with
      | none => false
      | some (_, w) => Utf8.validString (s.drop w) := by
  cases s with
  | nil => exact absurd rfl hs
  | cons b t =>
    show Utf8.validAux 0 (b :: t) = _
    simp only [Utf8.validAux]
    cases hd : Utf8.decode (b :: t) with
    | none => rfl
    | some rw =>
      obtain ⟨r, w⟩ := rw
      have hw := GoRtStr.decode_width hd
      obtain ⟨w', rfl⟩ : ∃ w', w = w' + 1 := ⟨w - 1, by omega⟩
      simp only [Nat.add_sub_cancel, List.drop_succ_cons, validAux_eq_drop]

theorem runesOf_eq_aux : ∀ (n : Nat) (s : Bytes), s.length ≤ n →
    Note.runesOf s = if Utf8.validString s then some (Utf8.runes s) else none := by
  intro n
  induction n with
  | zero =>
    intro s hs
    have : s = [] := List.length_eq_zero_iff.mp (by omega)
    subst this; rfl
  | succ n ih =>
    intro s hs
    cases s with
    | nil => rfl
    | cons b t =>
      have hne : (b :: t) ≠ [] := by simp
      rw [runesOf_step b t, valid_step _ hne, GoRtStr.runes_step _ hne]
      unfold Utf8.decodeRune
      cases hd : Utf8.decode (b :: t) with
      | none => rfl
      | some rw =>
        obtain ⟨r, w⟩ := rw
        have hw := GoRtStr.decode_width hd
        simp only
        rw [ih ((b :: t).drop w) (by simp only [List.length_drop, List.length_cons] at hs hw ⊢; omega)]
        cases Utf8.validString ((b :: t).drop w) <;> rfl

theorem runesOf_eq (s : Bytes) :
    Note.runesOf s = if Utf8.validString s then some (Utf8.runes s) else none :=
  runesOf_eq_aux s.length s (Nat.le_refl _)

/-! ### strings.IndexFunc: the result is negative iff no rune of the string satisfies the predicate
    (ill-formed bytes count as U+FFFD, as in Go) -/

theorem indexFuncAux_neg (p : Int → Bool) (s : Bytes) : ∀ (f k : Nat), k ≤ s.length → s.length - k < f →
    decide (indexFuncAux p s f (k : Int) < 0) = !(Utf8.runes (s.drop k)).any (fun r => p (r : Int)) := by
  intro f
  induction f with
  | zero => intro k _ h; omega
  | succ f ih =>
    intro k hk hf
    rw [indexFuncAux]
    by_cases hlt : k < s.length
    · have hc : (k : Int) < len s := by rw [len_eq]; omega
      simp only [hc, if_true]
      obtain ⟨r, w, hd, hw1, hw2, hr, _⟩ := GoRtStr.range_step s k hlt
      rw [hd, hr]
      simp only [List.any_cons]
      by_cases hp : p (r : Int) = true
      · have hn : ¬ ((k : Int) < 0) := by omega
        simp [hp, hn]
      · have hp' : p (r : Int) = false := by simpa using hp
        simp only [hp', Bool.false_eq_true, if_false, Bool.false_or]
        have := ih (k + w) hw2 (by omega)
        rw [← this]
        simp only [Int.natCast_add]
    · have hc : ¬ ((k : Int) < len s) := by rw [len_eq]; omega
      have hke : k = s.length := by omega
      subst hke
      simp only [hc, if_false, List.drop_length]
      rfl

theorem indexFunc_neg (p : Int → Bool) (s : Bytes) :
    decide (indexFunc s p < 0) = !(Utf8.runes s).any (fun r => p (r : Int)) := by
  have := indexFuncAux_neg p s (s.length + 1) 0 (Nat.zero_le _) (by omega)
  simp only [List.drop_zero] at this
  exact this

/-! ### isValidName -/

theorem isValidName_eq (name : Bytes) : Generated.Note.isValidName isSpaceI name = Note.isValidName name := by
  unfold Generated.Note.isValidName Note.isValidName
  rw [indexFunc_neg, indexFunc_neg, GoRtStr.contains_single, runesOf_eq]
  have e0 : (!decide (name = [])) = !name.isEmpty := by cases name <;> rfl
  have e1 : (fun r : Nat => isSpaceI (r : Int)) = Note.isSpace := by funext r; simp [isSpaceI]
  have e2 : (fun r : Nat => decide ((r : Int) < 32)) = (fun r : Nat => decide (r < 0x20)) := by
    funext r; exact decide_eq_decide.mpr (by omega)
  rw [e0, e1, e2]
  simp only [validUtf8]
  cases Utf8.validString name with
  | true => simp
  | false => simp

/-! ### chop: strings.Index is the model's `indexOf` -/

theorem indexAux_indexOf (sub : Bytes) : ∀ (s : Bytes) (k : Nat),
    indexAux sub s k = match Note.indexOf sub s with
      | none => -1
      | some i => ((k + i : Nat) : Int)
  | [], k => by
    simp only [indexAux, Note.indexOf]
    cases sub.isEmpty <;> simp
  | x :: xs, k => by
    rw [indexAux, Note.indexOf]
    by_cases hp : isPrefixOfB sub (x :: xs) = true
    · simp [hp]
    · simp only [hp, Bool.false_eq_true, if_false, indexAux_indexOf sub xs (k + 1)]
      cases Note.indexOf sub xs with
      | none => rfl
      | some i => simp only [Option.map_some]; congr 1; omega

theorem indexOf_bound (sub : Bytes) : ∀ (s : Bytes) (i : Nat), Note.indexOf sub s = some i → i + sub.length ≤ s.length
  | [], i, h => by
    simp only [Note.indexOf] at h
    cases hs : sub.isEmpty with
    | true =>
      rw [hs] at h
      simp only [if_true, Option.some.injEq] at h
      subst h
      have : sub = [] := by simpa using hs
      subst this; simp
    | false => rw [hs] at h; simp at h
  | x :: xs, i, h => by
    rw [Note.indexOf] at h
    by_cases hp : isPrefixOfB sub (x :: xs) = true
    · simp only [hp, if_true, Option.some.injEq] at h
      subst h
      have := isPrefixOfB_length _ _ hp
      omega
    · simp only [hp, Bool.false_eq_true, if_false] at h
      cases hi : Note.indexOf sub xs with
      | none => rw [hi] at h; simp at h
      | some j =>
        rw [hi] at h
        simp only [Option.map_some, Option.some.injEq] at h
        subst h
        have := indexOf_bound sub xs j hi
        simp only [List.length_cons]; omega

theorem index_indexOf (s sub : Bytes) :
    index s sub = match Note.indexOf sub s with
      | none => -1
      | some i => (i : Int) := by
  rw [index, indexAux_indexOf]
  cases Note.indexOf sub s <;> simp

theorem chop_eq (s sep : Bytes) : Generated.Note.chop s sep = .ok (Note.chop s sep) := by
  unfold Generated.Note.chop Note.chop
  rw [index_indexOf]
  cases hi : Note.indexOf sep s with
  | none => rfl
  | some i =>
    have hb := indexOf_bound sep s i hi
    have hneg : ¬ ((i : Int) < 0) := by omega
    simp only [hneg, decide_false, Bool.false_eq_true, if_false]
    have e : (i : Int) + len sep = ((i + sep.length : Nat) : Int) := by rw [len_eq]; simp
    rw [sliceTo_natCast (by omega), e, sliceFrom_natCast hb]
    rfl

/-! ### Open, first loop: the rune scan is the model's `validMsg` -/

theorem validMsg_nil : Note.validMsg [] = true := rfl

theorem validMsg_step (s : Bytes) (hs : s ≠ []) :
    Note.validMsg s = match Utf8.decode s with
      | none => false
      | some (r, w) => !(decide (r < 0x20) && r != 10) && Note.validMsg (s.drop w) := by
  unfold Note.validMsg
  rw [runesOf_step' s hs]
  cases hd : Utf8.decode s with
  | none => rfl
  | some rw =>
    obtain ⟨r, w⟩ := rw
    simp only
    cases Note.runesOf (s.drop w) with
    | none => simp
    | some rs => simp [List.all_cons]

/-- the result of Open's first loop -/
def loop1Out (msg : Bytes) (k : Nat) : Ctl (Generated.Note.Note × Option String) Int :=
  if Note.validMsg (msg.drop k) then Ctl.next (len msg)
  else Ctl.ret ((default : Generated.Note.Note), some "errMalformedNote")

theorem Open_loop1_spec (b64dec : Bytes → Bytes × Option String) (isSpace : Int → Bool) (msg : Bytes) :
    ∀ (fuel k : Nat), k ≤ msg.length → msg.length - k < fuel →
    Generated.Note.Open_loop1 b64dec isSpace msg fuel (k : Int) = .ok (loop1Out msg k) := by
  intro fuel
  induction fuel with
  | zero => intro k _ h; omega
  | succ fuel ih =>
    intro k hk hf
    rw [Generated.Note.Open_loop1]
    by_cases hlt : k < msg.length
    · have hc : decide ((k : Int) < len msg) = true := decide_eq_true (by rw [len_eq]; omega)
      simp only [hc, if_true]
      rw [sliceFrom_natCast hk]
      simp only [bind_ok]
      have hne : msg.drop k ≠ [] := by
        intro h; have := congrArg List.length h; simp at this; omega
      unfold loop1Out
      rw [decodeRune_of_ne_nil _ hne, validMsg_step _ hne]
      unfold Utf8.decodeRune
      cases hd : Utf8.decode (msg.drop k) with
      | none => simp [Utf8.runeError]
      | some rw =>
        obtain ⟨r, w⟩ := rw
        have hw := GoRtStr.decode_width hd
        have hw1 : w = 1 → r < 0x80 := by intro e; subst e; exact decode_width_one hd
        simp only
        have hnot : (decide (((r : Nat) : Int) = 65533) && decide (((w : Nat) : Int) = 1)) = false := by
          by_cases e : w = 1
          · have := hw1 e
            have : ¬ (((r : Nat) : Int) = 65533) := by omega
            simp [this]
          · have : ¬ (((w : Nat) : Int) = 1) := by omega
            simp [this]
        have e1 : decide (((r : Nat) : Int) < 32) = decide (r < 0x20) := decide_eq_decide.mpr (by omega)
        have e2 : (!decide (((r : Nat) : Int) = 10)) = (r != 10) := by
          by_cases h : r = 10
          · subst h; rfl
          · have h' : ¬ (((r : Nat) : Int) = 10) := by omega
            simp [h, h']
        rw [e2, e1, hnot, Bool.or_false]
        by_cases hbad : (decide (r < 0x20) && r != 10) = true
        · simp [hbad]
        · have hbad' : (decide (r < 0x20) && r != 10) = false := by simpa using hbad
          simp only [hbad', Bool.false_eq_true, if_false, Bool.not_false, Bool.true_and]
          have hlen : (msg.drop k).length = msg.length - k := by simp
          have hkw : k + w ≤ msg.length := by omega
          have := ih (k + w) hkw (by omega)
          simp only [Int.natCast_add] at this
          rw [this, loop1Out, List.drop_drop]
    · have hc : decide ((k : Int) < len msg) = false := decide_eq_false (by rw [len_eq]; omega)
      have hke : k = msg.length := by omega
      subst hke
      simp only [hc, Bool.false_eq_true, if_false, loop1Out, List.drop_length, validMsg_nil, if_true]
      rfl

end ModVerif.TieFnNote
