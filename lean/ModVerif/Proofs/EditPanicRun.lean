/-
  EditPanic, part 3 — **C15 `nilDeref_unreachable` (full)**: every go.mod operation preserves `P.Inv` (`applyMod_inv_all`) and,
  on a state satisfying it, terminates normally (`applyMod_noPanic_all`: success or one of the three documented returned
  errors — never the model's `nilDeref` / `conflictingVersions` / `badStatement`, Go's panics); hence every session whose
  operations have statically valid arguments runs to completion from every state satisfying `P.Inv`, in particular from
  every strictly parsed well-formed file — with NO hypothesis on the end-of-line comments (`MarkersSettable`,
  `NoNestedIndirectMarker`).
-/
import ModVerif.Proofs.EditPanicBulk
set_option linter.unusedSimpArgs false
namespace ModVerif.Modfile.Edit.P
open ModVerif ModVerif.Modfile

/-- SetRequire never panics on live requirements with distinct requested paths -/
theorem setRequire_total (e : EFile) (req : List Want) (perm : List Want → List Want) (hg : GoodWant req) (hi : Inv e)
    (hlive : ∀ r ∈ e.f.require, liveRq r = true) : ∃ e', setRequire e req perm = .ok e' := by
  unfold setRequire
  rw [needMap_distinct true req [] (by simpa using hg.1)]
  simp only [bind, Except.bind, List.nil_append]
  rcases setRequireLoop_total e.f.require req e.f.syn (fun r hr => hi.require_pos r hr (hlive r hr)) with ⟨res, hres⟩
  simp only [hres]
  exact ⟨_, rfl⟩

/-- SetRequireSeparateIndirect never panics: no nil dereference, and `ensureBlock` is only called on an index the scan
    found (a live `require` line or a `require` block) -/
theorem setRequireSeparateIndirect_total (e : EFile) (req : List Want) (perm : List Want → List Want) (hg : GoodWant req)
    (hi : Inv e) (hlive : ∀ r ∈ e.f.require, liveRq r = true) : ∃ e', setRequireSeparateIndirect e req perm = .ok e' := by
  rw [setRSI_eq]
  rcases sepStage_total e.f.syn.stmts hi.tree.shape hi.view2 _ (scan_inv _) with ⟨s1, dI, dO, lI, sh, h1, s2, iI, iO, h2⟩
  simp only [h1, h2]
  exact sepTail_total e req perm _ s2 hg (fun r hr => hi.require_pos r hr (hlive r hr))

/-- **one operation preserves the invariant without the marker clause — every go.mod operation**, arguments valid in the
    sense of `ValidArgsLive` (no marker clause) -/
theorem applyMod_inv_all (e e' : EFile) (op : Op) (hv : ValidArgsLive e op) (hi : Inv e) (h : applyMod e op = some (.ok e')) :
    Inv e' := by
  cases op with
  | setRequire w r =>
    simp only [applyMod, Option.some.injEq] at h
    exact setRequire_inv e e' w (permOf r) (permOf_perm r) hv.1 hi hv.2 h
  | setRequireSeparateIndirect w r =>
    simp only [applyMod, Option.some.injEq] at h
    exact setRequireSeparateIndirect_inv e e' w (permOf r) (permOf_perm r) hv.1 hi hv.2 h
  | addModule p => exact applyMod_inv e e' _ (by simpa [ValidArgsLive] using hv) hi h
  | addGo v => exact applyMod_inv e e' _ (by simpa [ValidArgsLive] using hv) hi h
  | dropGo => exact applyMod_inv e e' _ (by simpa [ValidArgsLive] using hv) hi h
  | addToolchain n => exact applyMod_inv e e' _ (by simpa [ValidArgsLive] using hv) hi h
  | dropToolchain => exact applyMod_inv e e' _ (by simpa [ValidArgsLive] using hv) hi h
  | addGodebug k v => exact applyMod_inv e e' _ (by simpa [ValidArgsLive] using hv) hi h
  | dropGodebug k => exact applyMod_inv e e' _ (by simpa [ValidArgsLive] using hv) hi h
  | addRequire p v => exact applyMod_inv e e' _ (by simpa [ValidArgsLive] using hv) hi h
  | addNewRequire p v i => exact applyMod_inv e e' _ (by simpa [ValidArgsLive] using hv) hi h
  | dropRequire p => exact applyMod_inv e e' _ (by simpa [ValidArgsLive] using hv) hi h
  | addExclude p v => exact applyMod_inv e e' _ (by simpa [ValidArgsLive] using hv) hi h
  | dropExclude p v => exact applyMod_inv e e' _ (by simpa [ValidArgsLive] using hv) hi h
  | addReplace a b c d => exact applyMod_inv e e' _ (by simpa [ValidArgsLive] using hv) hi h
  | dropReplace a b => exact applyMod_inv e e' _ (by simpa [ValidArgsLive] using hv) hi h
  | addRetract lo hi' why => exact applyMod_inv e e' _ (by simpa [ValidArgsLive] using hv) hi h
  | dropRetract lo hi' => exact applyMod_inv e e' _ (by simpa [ValidArgsLive] using hv) hi h
  | addTool p => exact applyMod_inv e e' _ (by simpa [ValidArgsLive] using hv) hi h
  | dropTool p => exact applyMod_inv e e' _ (by simpa [ValidArgsLive] using hv) hi h
  | sortBlocks => exact applyMod_inv e e' _ (by simpa [ValidArgsLive] using hv) hi h
  | cleanup => exact applyMod_inv e e' _ (by simpa [ValidArgsLive] using hv) hi h
  | addUse d m => exact applyMod_inv e e' _ (by simpa [ValidArgsLive] using hv) hi h
  | addNewUse d m => exact applyMod_inv e e' _ (by simpa [ValidArgsLive] using hv) hi h
  | dropUse d => exact applyMod_inv e e' _ (by simpa [ValidArgsLive] using hv) hi h
  | setUse w rev => exact applyMod_inv e e' _ (by simpa [ValidArgsLive] using hv) hi h

/-- **no panic, every go.mod operation** -/
theorem applyMod_noPanic_all (e : EFile) (op : Op) (hv : ValidArgsLive e op) (hm : IsModOp op) (hi : Inv e) : NoPanic (applyMod e op) := by
  cases op with
  | setRequire w r =>
    rcases setRequire_total e w (permOf r) hv.1 hi hv.2 with ⟨e', he'⟩
    exact ⟨.ok e', by simp only [applyMod, he'], fun err h => by cases h⟩
  | setRequireSeparateIndirect w r =>
    rcases setRequireSeparateIndirect_total e w (permOf r) hv.1 hi hv.2 with ⟨e', he'⟩
    exact ⟨.ok e', by simp only [applyMod, he'], fun err h => by cases h⟩
  | addModule p => exact applyMod_noPanic' e _ (by simpa [ValidArgsLive] using hv) hm hi
  | addGo v => exact applyMod_noPanic' e _ (by simpa [ValidArgsLive] using hv) hm hi
  | dropGo => exact applyMod_noPanic' e _ (by simpa [ValidArgsLive] using hv) hm hi
  | addToolchain n => exact applyMod_noPanic' e _ (by simpa [ValidArgsLive] using hv) hm hi
  | dropToolchain => exact applyMod_noPanic' e _ (by simpa [ValidArgsLive] using hv) hm hi
  | addGodebug k v => exact applyMod_noPanic' e _ (by simpa [ValidArgsLive] using hv) hm hi
  | dropGodebug k => exact applyMod_noPanic' e _ (by simpa [ValidArgsLive] using hv) hm hi
  | addRequire p v => exact applyMod_noPanic' e _ (by simpa [ValidArgsLive] using hv) hm hi
  | addNewRequire p v i => exact applyMod_noPanic' e _ (by simpa [ValidArgsLive] using hv) hm hi
  | dropRequire p => exact applyMod_noPanic' e _ (by simpa [ValidArgsLive] using hv) hm hi
  | addExclude p v => exact applyMod_noPanic' e _ (by simpa [ValidArgsLive] using hv) hm hi
  | dropExclude p v => exact applyMod_noPanic' e _ (by simpa [ValidArgsLive] using hv) hm hi
  | addReplace a b c d => exact applyMod_noPanic' e _ (by simpa [ValidArgsLive] using hv) hm hi
  | dropReplace a b => exact applyMod_noPanic' e _ (by simpa [ValidArgsLive] using hv) hm hi
  | addRetract lo hi' why => exact applyMod_noPanic' e _ (by simpa [ValidArgsLive] using hv) hm hi
  | dropRetract lo hi' => exact applyMod_noPanic' e _ (by simpa [ValidArgsLive] using hv) hm hi
  | addTool p => exact applyMod_noPanic' e _ (by simpa [ValidArgsLive] using hv) hm hi
  | dropTool p => exact applyMod_noPanic' e _ (by simpa [ValidArgsLive] using hv) hm hi
  | sortBlocks => exact applyMod_noPanic' e _ (by simpa [ValidArgsLive] using hv) hm hi
  | cleanup => exact applyMod_noPanic' e _ (by simpa [ValidArgsLive] using hv) hm hi
  | addUse d m => exact hm.elim
  | addNewUse d m => exact hm.elim
  | dropUse d => exact hm.elim
  | setUse w rev => exact hm.elim

/-- **nilDeref_unreachable, every go.mod operation, no marker hypothesis**: a session whose operations have valid arguments
    in the state in which they run (`RunValidLive`: a bulk setter runs on live requirements — a Cleanup has just run) always
    runs to completion — no Go panic — and ends in a state satisfying `P.Inv` -/
theorem runOps_total_live (ops : List Op) : ∀ (e : EFile) (res0 : List Bool) (i : Nat),
    RunValidLive e ops → (∀ op ∈ ops, IsModOp op) → Inv e → ∃ e' res, runOps applyMod e ops res0 i = .done e' res ∧ Inv e' := by
  induction ops with
  | nil => intro e res0 i _ _ hi; exact ⟨e, res0.reverse, rfl, hi⟩
  | cons op ops ih =>
    intro e res0 i hv hm hi
    have hms : ∀ o ∈ ops, IsModOp o := fun o ho => hm o (List.mem_cons_of_mem _ ho)
    rcases applyMod_noPanic_all e op hv.1 (hm op List.mem_cons_self) hi with ⟨x, hx, herr⟩
    unfold runOps
    rw [hx]
    cases x with
    | ok e1 => exact ih e1 _ _ (hv.2.1 e1 hx) hms (applyMod_inv_all e e1 op hv.1 hi hx)
    | error err =>
      simp only [herr err rfl, if_true]
      exact ih e _ _ (hv.2.2 err hx (herr err rfl)) hms hi

/-- no operation of a session that runs to completion returned a panic: the result of every operation, in the state in
    which it ran, is a success or a returned error.  (`runOps … = .done` says exactly this; stated for the record, with the
    two panics of the property named.) -/
theorem done_no_panic (ops : List Op) : ∀ (e : EFile) (res0 : List Bool) (i : Nat) (e' : EFile) (res : List Bool),
    runOps applyMod e ops res0 i = .done e' res →
    ∀ (pre : List Op) (op : Op) (post : List Op), ops = pre ++ op :: post →
      ∃ e1 r1, runOps applyMod e pre res0 i = .done e1 r1 ∧
        applyMod e1 op ≠ some (.error .nilDeref) ∧ applyMod e1 op ≠ some (.error .badStatement) ∧
        applyMod e1 op ≠ some (.error .conflictingVersions) := by
  induction ops with
  | nil => intro e res0 i e' res _ pre op post h; cases pre <;> cases h
  | cons o ops ih =>
    intro e res0 i e' res h pre op post hsplit
    cases pre with
    | nil =>
      simp only [List.nil_append, List.cons.injEq] at hsplit
      rcases hsplit with ⟨rfl, rfl⟩
      refine ⟨e, res0.reverse, rfl, ?_, ?_, ?_⟩ <;>
      · intro hc
        unfold runOps at h
        rw [hc] at h
        simp [EditErr.isReturned] at h
    | cons p pre =>
      simp only [List.cons_append, List.cons.injEq] at hsplit
      rcases hsplit with ⟨rfl, rfl⟩
      unfold runOps at h ⊢
      cases ha : applyMod e o with
      | none => simp [ha] at h
      | some r =>
        cases r with
        | ok e2 =>
          simp only [ha] at h ⊢
          exact ih e2 _ _ e' res h pre op post rfl
        | error err =>
          simp only [ha] at h ⊢
          by_cases hr : err.isReturned = true
          · simp only [hr, if_true] at h ⊢
            exact ih e _ _ e' res h pre op post rfl
          · simp only [Bool.not_eq_true] at hr
            simp [hr] at h

/-- **C15 `nilDeref_unreachable`, from a state**: from a state satisfying the tree invariant without the marker clause, a
    session of go.mod operations with statically valid arguments (`StaticValid`: bulk setters directly after a Cleanup, with
    distinct non-empty paths) runs to completion, and `P.Inv` holds again after the final Cleanup -/
theorem nilDeref_unreachable_state (e : EFile) (ops : List Op) (hi : Inv e) (hv : StaticValid false ops)
    (hmod : ∀ op ∈ ops, IsModOp op) :
    ∃ e' res, runOps applyMod e ops [] 0 = .done e' res ∧ Inv (cleanup e') := by
  have hl := StaticValid.runValidLive ops false e hv (fun hc => by cases hc)
  rcases runOps_total_live ops e [] 0 hl hmod hi with ⟨e', res, h, hi'⟩
  exact ⟨e', res, h, cleanup_inv e' hi'⟩

/-- **C15 `nilDeref_unreachable` (full)**: for EVERY strictly parsed go.mod with well-formed keys (and `NoBlockSuffix`, as in
    `parseStrict_inv`) and every session of go.mod operations with statically valid arguments, the run completes: every
    operation, in the state in which it runs, succeeds or returns a documented error — it never returns `nilDeref`,
    `badStatement` or `conflictingVersions` (Go's panics) —, and the tree invariant without the marker clause holds after the
    final Cleanup.  No hypothesis on the end-of-line comments. -/
theorem nilDeref_unreachable_parsed (name data : Bytes) (f : File) (ops : List Op)
    (hf : parseToFile name data none true = .ok f) (hk : WellFormedKeys f) (hs : NoBlockSuffix f.syn)
    (hv : StaticValid false ops) (hmod : ∀ op ∈ ops, IsModOp op) :
    ∃ e' res, runOps applyMod (load f) ops [] 0 = .done e' res ∧
      (∀ (pre : List Op) (op : Op) (post : List Op), ops = pre ++ op :: post →
        ∃ e1 r1, runOps applyMod (load f) pre [] 0 = .done e1 r1 ∧
          applyMod e1 op ≠ some (.error .nilDeref) ∧ applyMod e1 op ≠ some (.error .badStatement) ∧
          applyMod e1 op ≠ some (.error .conflictingVersions)) ∧
      Inv (cleanup e') := by
  rcases nilDeref_unreachable_state (load f) ops (Inv.ofFull (Edit.parseStrict_inv hf hk hs)) hv hmod with ⟨e', res, h, hi⟩
  exact ⟨e', res, h, done_no_panic ops (load f) [] 0 e' res h, hi⟩

end ModVerif.Modfile.Edit.P
