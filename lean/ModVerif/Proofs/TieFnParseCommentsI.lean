/-
  Helper lemmas for Tie/FnParseComments.lean, part I: `input.assignComments` as a whole.
-/
import ModVerif.Proofs.TieFnParseCommentsH
set_option linter.unusedSimpArgs false
set_option linter.unusedVariables false
namespace ModVerif.TieFnParseComments
open ModVerif ModVerif.GoRt ModVerif.Generated ModVerif.Generated.Parse ModVerif.Tie.FnParseHeap

/-- the model's assignComments in terms of the three traversals -/
theorem assignComments_eq (t : Modfile.FileSyntax) (cs : List Modfile.Comment) :
    Modfile.assignComments t cs =
      { t with
        comments :=
          { (Modfile.assignBefore t.span.1 t.comments (cs.filter (!·.suffix))).1 with
            after := (Modfile.assignBefore t.span.1 t.comments (cs.filter (!·.suffix))).1.after ++
              (Modfile.preStmts t.stmts (Modfile.assignBefore t.span.1 t.comments (cs.filter (!·.suffix))).2).2
            before := (Modfile.assignBefore t.span.1 t.comments (cs.filter (!·.suffix))).1.before ++
              (travStmts .rpost F2
                (Modfile.preStmts t.stmts (Modfile.assignBefore t.span.1 t.comments (cs.filter (!·.suffix))).2).1.reverse
                (cs.filter (·.suffix)).reverse).2.reverse }
        stmts := ((travStmts .rpost F2
                (Modfile.preStmts t.stmts (Modfile.assignBefore t.span.1 t.comments (cs.filter (!·.suffix))).2).1.reverse
                (cs.filter (·.suffix)).reverse).1.reverse).map rev3 } := by
  simp only [Modfile.assignComments, postStmtsRev_eq, List.map_reverse]

theorem filter_map_comG (p : Comment → Bool) (q : Modfile.Comment → Bool) (hpq : ∀ c, p (comG c) = q c)
    (cs : List Modfile.Comment) : (cs.map comG).filter p = (cs.filter q).map comG := by
  induction cs with
  | nil => rfl
  | cons c cs ih =>
    simp only [List.map_cons, List.filter_cons, hpq, ih]
    split <;> rfl

theorem emb2_reverse (l : List Modfile.Comment) : emb2 l.reverse = l.map comG := by
  simp [emb2]

theorem emb2_eq (l : List Modfile.Comment) : emb2 l = l.reverse.map comG := by
  simp [emb2]


theorem addOrder_comments (in_ : input) (a b : List Expr) : (addOrder in_ a b).comments = in_.comments := rfl
theorem addOrder_file (in_ : input) (a b : List Expr) : (addOrder in_ a b).file = in_.file := rfl
theorem addOrder_pre (in_ : input) (a b : List Expr) : (addOrder in_ a b).pre = in_.pre ++ a := rfl
theorem addOrder_post (in_ : input) (a b : List Expr) : (addOrder in_ a b).post = in_.post ++ b := rfl

theorem assignComments_main {h : Heap} {p : Int} {t : Modfile.FileSyntax} {cs : List Modfile.Comment} {in_ : input}
    {m fuel : Nat} (hr : RFile h p t) (hwf : WF h p) (hfile : in_.file = p) (hcs : in_.comments = cs.map comG)
    (hpre : in_.pre = []) (hpost : in_.post = []) (hfs : t.comments.suffix.length ≤ 1)
    (hsuf : ∀ s ∈ t.stmts, StmtP (fun c => c.suffix.length ≤ m) s)
    (hfuel : nodeCount t.stmts + cs.length + m + 8 ≤ fuel) :
    ∃ in' h', input_assignComments fuel in_ h = .ok (((), in'), h') ∧ RFile h' p (Modfile.assignComments t cs) ∧
      in'.file = p ∧ in'.comments = in_.comments := by
  obtain ⟨es, hf, hs⟩ := hr
  obtain ⟨f0, hf0, hok, hn1, hn2, hn3⟩ := hwf.file
  have hf0' : f0 = fileG t es := by rw [hf] at hf0; cases hf0; rfl
  subst hf0'
  have hnd : (stmtsNodes .pre es t.stmts).Nodup := nodup_stmtsNodes hs hn1 hn2 hn3
  have hlen := RStmts_length hs
  have hcount := stmtsNodes_length_le hs
  -- order
  have hPRE : prePtrs h p es = Expr.FileSyntax p :: stmtsNodes .pre es t.stmts := by
    simp only [prePtrs, flatMap_pre_eq hs]
  have hPOST : postPtrs h p es = stmtsNodes .post es t.stmts ++ [Expr.FileSyntax p] := by
    simp only [postPtrs, flatMap_post_eq hs]
  have hord := order_file fuel in_ p h hf (fun e he => OrderOK_of_StmtOK (hok e he))
    (by show (prePtrs h p es).length + 2 ≤ fuel; rw [hPRE]; simp only [List.length_cons, hcount]; omega)
  simp only [fileG] at hord
  rw [hPRE, hPOST] at hord
  -- the pieces of the model computation
  obtain ⟨line0, hline0⟩ : ∃ l, l = cs.filter (!·.suffix) := ⟨_, rfl⟩
  obtain ⟨suf0, hsuf0⟩ : ∃ l, l = cs.filter (·.suffix) := ⟨_, rfl⟩
  have hl0 : line0.length ≤ cs.length := by rw [hline0]; exact List.length_filter_le _ _
  have hs0 : suf0.length ≤ cs.length := by rw [hsuf0]; exact List.length_filter_le _ _
  -- loop 1
  have hsplit := split_loop (cs.map comG) (addOrder in_ (Expr.FileSyntax p :: stmtsNodes .pre es t.stmts)
      (stmtsNodes .post es t.stmts ++ [Expr.FileSyntax p])) h (cs.map comG).length fuel 0 [] [] (by simp)
      (by simp; omega)
  simp only [Int.natCast_zero, List.drop_zero, List.nil_append] at hsplit
  rw [filter_map_comG (·.Suffix) (·.suffix) (fun c => rfl), filter_map_comG (fun c => !c.Suffix) (!·.suffix) (fun c => rfl),
    ← hline0, ← hsuf0] at hsplit
  -- pass 1
  obtain ⟨h2, hp2, hf2, hr2⟩ := phase1 (N := cs.length) (fuel := fuel) hf hs hnd line0 hl0 (by omega)
  obtain ⟨a, ha⟩ : ∃ a, a = Modfile.assignBefore t.span.1 t.comments line0 := ⟨_, rfl⟩
  rw [← ha] at hp2 hf2 hr2
  obtain ⟨pr, hpr⟩ : ∃ pr, pr = Modfile.preStmts t.stmts a.2 := ⟨_, rfl⟩
  rw [← hpr] at hp2 hr2
  have hloop2 := loop2_eq (Expr.FileSyntax p :: stmtsNodes .pre es t.stmts) (addOrder in_ (Expr.FileSyntax p :: stmtsNodes .pre es t.stmts)
      (stmtsNodes .post es t.stmts ++ [Expr.FileSyntax p])) (stmtsNodes .pre es t.stmts).length.succ fuel 0 h
      (line0.map comG) (by simp) (by simp; omega)
  simp only [Int.natCast_zero, List.drop_zero, hp2, bind_ok] at hloop2
  -- the rest of the whole-line comments goes to the end of the file
  obtain ⟨t3, ht3⟩ : ∃ t3 : Modfile.FileSyntax, t3 = { t with comments := { a.1 with after := a.1.after ++ pr.2 }, stmts := pr.1 } :=
    ⟨_, rfl⟩
  have hset3 : heapSet h2.files p
      { fileG { t with comments := a.1 } es with
        Comments := { (fileG { t with comments := a.1 } es).Comments with
          After := (fileG { t with comments := a.1 } es).Comments.After ++ pr.2.map comG } } =
      .ok (h2.files.set (p.toNat - 1) (fileG t3 es)) := by
    rw [heapSet_of_get _ hf2, ht3]
    simp [fileG, comsG]
  have hf3 : heapGet ({ h2 with files := h2.files.set (p.toNat - 1) (fileG t3 es) } : Heap).files p = .ok (fileG t3 es) :=
    heapGet_listSet_same _ hf2
  have hr3 : RStmts ({ h2 with files := h2.files.set (p.toNat - 1) (fileG t3 es) } : Heap) es t3.stmts := by
    rw [ht3]; exact (RStmts_files _ _ _ _).2 hr2
  have hshp3 : t3.stmts.map shp = t.stmts.map shp := by
    rw [ht3, hpr, ← travStmts_F1, map_shp_travStmts]
  have hnd3 : (stmtsNodes .pre es t3.stmts).Nodup := by rw [stmtsNodes_congr .pre es hshp3]; exact hnd
  have hcount3 : nodeCount t3.stmts = nodeCount t.stmts := by
    rw [← stmtsNodes_length_le hr3, ← hcount, stmtsNodes_congr .pre es hshp3]
  -- pass 2
  obtain ⟨h4, hp4, hf4, hr4⟩ := phase2 (N := cs.length) (fuel := fuel) hf3 hr3 hnd3 suf0.reverse (by simpa using hs0)
    (by omega)
  obtain ⟨R, hR⟩ : ∃ R, R = travStmts .rpost F2 t3.stmts.reverse suf0.reverse := ⟨_, rfl⟩
  rw [← hR] at hp4 hr4
  have hrevpost : (stmtsNodes .post es t.stmts ++ [Expr.FileSyntax p]).reverse =
      Expr.FileSyntax p :: stmtsNodes .rpost es.reverse t3.stmts.reverse := by
    rw [List.reverse_append, ← stmtsNodes_post_reverse es t3.stmts (by rw [← RStmts_length hr3]),
      stmtsNodes_congr .post es hshp3]
    rfl
  have hloop4 := loop4_eq (addOrder in_ (Expr.FileSyntax p :: stmtsNodes .pre es t.stmts)
      (stmtsNodes .post es t.stmts ++ [Expr.FileSyntax p])) _ (stmtsNodes .post es t.stmts ++ [Expr.FileSyntax p]) [] fuel
      ({ h2 with files := h2.files.set (p.toNat - 1) (fileG t3 es) } : Heap) (suf0.map comG) hrevpost
      (by rw [addOrder_post, hpost]; simp)
      (by simp only [List.length_append, stmtsNodes_length .post, hcount, List.length_singleton]; omega)
  rw [emb2_reverse] at hp4
  rw [hp4] at hloop4
  simp only [bind_ok] at hloop4
  -- pass 3
  obtain ⟨t4, ht4⟩ : ∃ t4 : Modfile.FileSyntax, t4 = { t3 with stmts := R.1.reverse } := ⟨_, rfl⟩
  have hf4' : heapGet h4.files p = .ok (fileG t4 es) := by rw [hf4, ht4]; exact hf3
  have hr4' : RStmts h4 es t4.stmts := by rw [ht4]; exact hr4
  have hshp4 : t4.stmts.map shp = t.stmts.map shp := by
    rw [ht4]
    simp only [List.map_reverse, hR, map_shp_travStmts, List.reverse_reverse, hshp3]
  have hnd4 : (stmtsNodes .pre es t4.stmts).Nodup := by rw [stmtsNodes_congr .pre es hshp4]; exact hnd
  have hcount4 : nodeCount t4.stmts = nodeCount t.stmts := by
    rw [← stmtsNodes_length_le hr4', ← hcount, stmtsNodes_congr .pre es hshp4]
  have hP3 : ∀ s ∈ t3.stmts, StmtP (fun c => c.suffix.length ≤ m) s := by
    rw [ht3, hpr, ← travStmts_F1]
    exact travStmts_P (K := a.2.length) F1_shrinks (fun sp c st' _ hc => by rw [F1_suffix]; exact hc) .pre t.stmts a.2
      (Nat.le_refl _) hsuf
  have hP4 : ∀ s ∈ t4.stmts, StmtP (fun c => c.suffix.length ≤ m + cs.length) s := by
    rw [ht4]
    intro s hs'
    have hs'' : s ∈ R.1 := List.mem_reverse.1 hs'
    rw [hR] at hs''
    exact travStmts_P (K := cs.length) F2_shrinks
      (fun sp c st' hst' hc => Nat.le_trans (F2_suffix_length sp c st') (by have hc' : c.suffix.length ≤ m := hc; omega)) .rpost
      t3.stmts.reverse suf0.reverse (by simpa using hs0) (fun s2 h2' => hP3 s2 (List.mem_reverse.1 h2')) s hs''
  have hfs4 : t4.comments.suffix.length ≤ 1 := by
    rw [ht4, ht3]
    simp only [ha, Modfile.assignBefore]
    exact hfs
  obtain ⟨h5, hp5, hf5, hr5⟩ := phase3 (N := m + cs.length) (fuel := fuel) hf4' hr4' hnd4 hP4 hfs4 (by omega)
  rw [stmtsNodes_congr .post es hshp4] at hp5
  have hloop6 := loop6_eq (stmtsNodes .post es t.stmts ++ [Expr.FileSyntax p]) (addOrder in_ (Expr.FileSyntax p :: stmtsNodes .pre es t.stmts)
      (stmtsNodes .post es t.stmts ++ [Expr.FileSyntax p])) (stmtsNodes .post es t.stmts ++ [Expr.FileSyntax p]).length fuel 0 h4
      (by simp)
      (by simp only [List.length_append, stmtsNodes_length .post, hcount, List.length_singleton]; omega)
  simp only [Int.natCast_zero, List.drop_zero, hp5, bind_ok] at hloop6
  -- the rest of the suffix comments goes to the beginning of the file
  obtain ⟨t6, ht6⟩ : ∃ t6 : Modfile.FileSyntax,
      t6 = { t4 with comments := { t4.comments with before := t4.comments.before ++ R.2.reverse }, stmts := t4.stmts.map rev3 } :=
    ⟨_, rfl⟩
  have hf5' : heapGet h5.files p = .ok (fileG t4 es) := by rw [hf5]; exact hf4'
  have hset6 : heapSet h5.files p
      { fileG t4 es with
        Comments := { (fileG t4 es).Comments with Before := (fileG t4 es).Comments.Before ++ emb2 R.2 } } =
      .ok (h5.files.set (p.toNat - 1) (fileG t6 es)) := by
    rw [heapSet_of_get _ hf5', ht6, emb2_eq]
    simp [fileG, comsG]
  have hfinal : t6 = Modfile.assignComments t cs := by
    rw [assignComments_eq, ht6, ht4, hR, ht3, hpr, ha, hline0, hsuf0]
  refine ⟨addOrder in_ (Expr.FileSyntax p :: stmtsNodes .pre es t.stmts) (stmtsNodes .post es t.stmts ++ [Expr.FileSyntax p]),
    ({ h5 with files := h5.files.set (p.toNat - 1) (fileG t6 es) } : Heap), ?_, ?_, ?_, ?_⟩
  · simp only [input_assignComments, hfile, hord, bind_ok, addOrder_comments, addOrder_pre, addOrder_post, addOrder_file,
      hcs, hpre, hpost, List.nil_append, hsplit, hloop2, hf2, hset3, hloop4, hloop6, hf5', hset6, pure_eq_ok]
  · rw [← hfinal]
    refine ⟨es, heapGet_listSet_same _ hf5', ?_⟩
    rw [ht6]
    exact (RStmts_files _ _ _ _).2 hr5
  · exact hfile
  · rfl

end ModVerif.TieFnParseComments
