/-
  EditMore, part 9 — SetRequireSeparateIndirect: the block phase yields the same lines and two different `require` blocks
  at the recorded indices (`sepStage_spec`), never hits `ensureBlock`'s panic (`sepStage_total`); `moveExisting` on the view.
-/
import ModVerif.Proofs.EditMoreSepC
set_option linter.unusedSimpArgs false
namespace ModVerif.Modfile.Edit
open ModVerif ModVerif.Modfile

/-- what the block phase guarantees: same lines, two different `require` blocks at the two indices -/
structure SepGood (stmts : List Expr) (dI iI : Nat) (s2 : List Expr) : Prop where
  view_eq : view s2 = view stmts
  ids_eq : treeIds s2 = treeIds stmts
  shape : ShapeWF s2
  direct : BlockAt s2 dI
  indirect : BlockAt s2 iI
  ne : dI ≠ iI

theorem view2_of_eq {s1 s2 : List Expr} (h : view s1 = view s2) (h2 : View2 s2) : View2 s1 := by
  intro v hv; rw [h] at hv; exact h2 v hv

theorem sepStage_spec (stmts : List Expr) (hs : ShapeWF stmts) (h2 : View2 stmts) (sc : Scan) (hsc : ScanInv stmts stmts.length sc)
    {s1 : List Expr} {dI : Nat} {dO lI sh : Option Nat} {s2 : List Expr} {iI : Nat} {iO : Option Nat}
    (h1 : sepStage1 stmts sc = .ok (s1, dI, dO, lI, sh)) (h3 : sepStage2 s1 dI lI sh = .ok (s2, iI, iO)) :
    SepGood stmts dI iI s2 := by
  unfold sepStage1 at h1
  -- the second stage when the indirect block is created next to the direct block
  have stage2_none : ∀ (s1 : List Expr) (dI : Nat), view s1 = view stmts → treeIds s1 = treeIds stmts → ShapeWF s1 → BlockAt s1 dI →
      sepStage2 s1 dI none sh = .ok (s2, iI, iO) → SepGood stmts dI iI s2 := by
    intro s1 dI e1 e2 e3 e4 h3
    simp only [sepStage2, Except.ok.injEq, Prod.mk.injEq] at h3
    obtain ⟨rfl, rfl, _⟩ := h3
    rcases e4 with ⟨b, hb, ht⟩
    have hlt := (split_at hb).2
    rcases insertAt_empty_spec s1 (dI + 1) (by omega) e3 with ⟨f1, f2, f3, f4, f5, _, _⟩
    exact ⟨f1.trans e1, f2.trans e2, f3, ⟨b, by rw [f5 dI (Nat.lt_succ_self _)]; exact hb, ht⟩, f4, by omega⟩
  -- … and when it is an existing statement
  have stage2_some : ∀ (s1 : List Expr) (dI j : Nat), view s1 = view stmts → treeIds s1 = treeIds stmts → ShapeWF s1 → BlockAt s1 dI →
      ReqAt s1 j → dI ≠ j → sepStage2 s1 dI (some j) sh = .ok (s2, iI, iO) → SepGood stmts dI iI s2 := by
    intro s1 dI j e1 e2 e3 e4 hr hne h3
    rcases ensureBlock_spec s1 j e3 (view2_of_eq e1 h2) hr with ⟨s, hE, f1, f2, f3, f4, _, f6⟩
    simp only [sepStage2, hE, Except.ok.injEq, Prod.mk.injEq] at h3
    obtain ⟨rfl, rfl, _⟩ := h3
    rcases e4 with ⟨b, hb, ht⟩
    exact ⟨f1.trans e1, f2.trans e2, f3, ⟨b, by rw [f6 dI hne]; exact hb, ht⟩, f4, hne⟩
  cases hld : sc.lastDirect with
  | none =>
    simp only [hld] at h1
    cases hli : sc.lastIndirect with
    | some j =>
      simp only [hli, Except.ok.injEq, Prod.mk.injEq] at h1
      obtain ⟨rfl, rfl, _, rfl, _⟩ := h1
      rcases (hsc.indirect j hli).2 with ⟨x, hx, hreq⟩
      have hlt := (split_at hx).2
      rcases insertAt_empty_spec stmts j (by omega) hs with ⟨f1, f2, f3, f4, _, f6, _⟩
      exact stage2_some _ _ _ f1 f2 f3 f4 ⟨x, by rw [f6 j (Nat.le_refl _)]; exact hx, hreq⟩ (by omega) h3
    | none =>
      simp only [hli] at h1
      cases hlr : sc.lastRequire with
      | some k =>
        simp only [hlr, Except.ok.injEq, Prod.mk.injEq] at h1
        obtain ⟨rfl, rfl, _, rfl, _⟩ := h1
        rcases (hsc.require k hlr).2 with ⟨x, hx, _⟩
        have hlt := (split_at hx).2
        rcases insertAt_empty_spec stmts (k + 1) (by omega) hs with ⟨f1, f2, f3, f4, _, _, _⟩
        exact stage2_none _ _ f1 f2 f3 f4 h3
      | none =>
        simp only [hlr, Except.ok.injEq, Prod.mk.injEq] at h1
        obtain ⟨rfl, rfl, _, rfl, _⟩ := h1
        have : stmts ++ [emptyRequireBlock] = insertAt stmts stmts.length emptyRequireBlock := by simp [insertAt]
        rw [this] at h3
        rcases insertAt_empty_spec stmts stmts.length (Nat.le_refl _) hs with ⟨f1, f2, f3, f4, _, _, _⟩
        exact stage2_none _ _ f1 f2 f3 f4 h3
  | some d =>
    simp only [hld] at h1
    rcases ensureBlock_spec stmts d hs h2 (hsc.direct d hld).2 with ⟨s, hE, f1, f2, f3, f4, _, f6⟩
    simp only [hE, Except.ok.injEq, Prod.mk.injEq] at h1
    obtain ⟨rfl, rfl, _, rfl, _⟩ := h1
    cases hli : sc.lastIndirect with
    | none => rw [hli] at h3; exact stage2_none _ _ f1 f2 f3 f4 h3
    | some j =>
      rw [hli] at h3
      have hne := hsc.ne d j hld hli
      rcases (hsc.indirect j hli).2 with ⟨x, hx, hreq⟩
      exact stage2_some _ _ _ f1 f2 f3 f4 ⟨x, by rw [f6 j (Ne.symm hne)]; exact hx, hreq⟩ hne h3

/-- the block phase cannot hit `ensureBlock`'s panic -/
theorem sepStage_total (stmts : List Expr) (hs : ShapeWF stmts) (h2 : View2 stmts) (sc : Scan) (hsc : ScanInv stmts stmts.length sc) :
    ∃ s1 dI dO lI sh, sepStage1 stmts sc = .ok (s1, dI, dO, lI, sh) ∧ ∃ s2 iI iO, sepStage2 s1 dI lI sh = .ok (s2, iI, iO) := by
  unfold sepStage1
  have stage2_some : ∀ (s1 : List Expr) (dI j : Nat) (sh : Option Nat), view s1 = view stmts → ShapeWF s1 →
      ReqAt s1 j → ∃ s2 iI iO, sepStage2 s1 dI (some j) sh = .ok (s2, iI, iO) := by
    intro s1 dI j sh e1 e3 hr
    rcases ensureBlock_spec s1 j e3 (view2_of_eq e1 h2) hr with ⟨s, hE, _⟩
    exact ⟨s, j, (if isBlockAt s1 j = true then sh else none), by simp only [sepStage2, hE]⟩
  cases hld : sc.lastDirect with
  | none =>
    simp only
    cases hli : sc.lastIndirect with
    | some j =>
      simp only
      refine ⟨_, _, _, _, _, rfl, ?_⟩
      rcases (hsc.indirect j hli).2 with ⟨x, hx, hreq⟩
      have hlt := (split_at hx).2
      rcases insertAt_empty_spec stmts j (by omega) hs with ⟨f1, _, f3, _, _, f6, _⟩
      exact stage2_some _ _ _ _ f1 f3 ⟨x, by rw [f6 j (Nat.le_refl _)]; exact hx, hreq⟩
    | none =>
      simp only
      cases hlr : sc.lastRequire with
      | some k => exact ⟨_, _, _, _, _, rfl, _, _, _, rfl⟩
      | none => exact ⟨_, _, _, _, _, rfl, _, _, _, rfl⟩
  | some d =>
    simp only
    rcases ensureBlock_spec stmts d hs h2 (hsc.direct d hld).2 with ⟨s, hE, f1, _, f3, _, _, f6⟩
    simp only [hE]
    refine ⟨_, _, _, _, _, rfl, ?_⟩
    cases hli : sc.lastIndirect with
    | none => exact ⟨_, _, _, rfl⟩
    | some j =>
      have hne := hsc.ne d j hld hli
      rcases (hsc.indirect j hli).2 with ⟨x, hx, hreq⟩
      exact stage2_some _ _ _ _ f1 f3 ⟨x, by rw [f6 j (Ne.symm hne)]; exact hx, hreq⟩


/-! ### moveExisting -/

theorem find_by_id : ∀ (L : List Line) (x : Line), x ∈ L → (L.map (·.id)).Nodup → L.find? (·.id == x.id) = some x := by
  intro L
  induction L with
  | nil => intro x hx; cases hx
  | cons y ys ih =>
    intro x hx hnd
    simp only [List.map_cons, List.nodup_cons] at hnd
    rcases List.mem_cons.1 hx with rfl | hx
    · simp [List.find?]
    · have hne : (y.id == x.id) = false := by
        cases hb : y.id == x.id with
        | false => rfl
        | true => exact absurd (List.mem_map.2 ⟨x, hx, (eq_of_beq hb).symm⟩) hnd.1
      simp only [List.find?, hne]
      exact ih x hx hnd.2

theorem findLine_of_loc (fs : FileSyntax) (h : (treeIds fs.stmts).Nodup) (p : List Bytes × Line) (hp : p ∈ loc fs.stmts) :
    fs.findLine p.2.id = some p.2 := by
  unfold FileSyntax.findLine
  rw [allLines_eq_loc]
  apply find_by_id
  · exact List.mem_map.2 ⟨p, hp, rfl⟩
  · simpa [treeIds, List.map_map, Function.comp_def] using h

theorem BlockAt.mapLines {stmts : List Expr} {k : Nat} (h : BlockAt stmts k) (f : Line → Line) :
    BlockAt (stmts.map (mapLinesStmt f)) k := by
  rcases h with ⟨b, hb, ht⟩
  exact ⟨{ b with lines := b.lines.map f }, by rw [List.getElem?_map, hb]; rfl, ht⟩

/-- **moveExisting**: the requirement line `i` is copied, with its full tokens and comments, into the `require` block at
    `idx` under the fresh id `next`; the old line dies -/
theorem moveExisting_spec (syn : FileSyntax) (next i idx : Nat) (hw : TreeWF syn.stmts next) (hnext : 0 < next)
    (v0 : VLine) (hv0 : v0 ∈ view syn.stmts) (hid0 : v0.id = i) (a ver : Bytes) (htoks : v0.toks = [B "require", a, ver])
    (hb : BlockAt syn.stmts idx) :
    TreeWF (moveExisting syn i idx next).stmts (next + 1) ∧
    (∀ v, v ∈ view (moveExisting syn i idx next).stmts ↔ (v.id ≠ i ∧ v ∈ view syn.stmts) ∨ v = ⟨next, v0.toks, v0.suffix⟩) ∧
    (∀ k, BlockAt syn.stmts k → BlockAt (moveExisting syn i idx next).stmts k) := by
  rcases mem_view.1 hv0 with ⟨p0, hp0, hlive0, rfl⟩
  simp only [mkV] at hid0 htoks
  have hfind := findLine_of_loc syn hw.nodup p0 hp0
  rw [hid0] at hfind
  -- the tree with the old line killed
  have hg : ∀ l : Line, ({ l with token := [] } : Line).id = l.id := fun _ => rfl
  have hw1 : TreeWF (syn.updateLine i fun l => { l with token := [] }).stmts next :=
    hw.updateLine i _ (fun _ => rfl) (fun _ => rfl)
  have hview1 : ∀ v, v ∈ view (syn.updateLine i fun l => { l with token := [] }).stmts ↔ (v.id ≠ i ∧ v ∈ view syn.stmts) := by
    intro v
    refine (mem_view_updateLine syn i (fun l => { l with token := [] }) hw.nodup hg v).trans ?_
    constructor
    · rintro (h | ⟨p, _, _, hlive, _⟩)
      · exact h
      · simp [liveLoc] at hlive
    · exact Or.inl
  have hblk1 : ∀ k, BlockAt syn.stmts k → BlockAt (syn.updateLine i fun l => { l with token := [] }).stmts k := by
    intro k hk
    rw [updateLine_stmts syn i _ hw.nodup]
    exact hk.mapLines _
  -- the copied line
  have htok : (if (!p0.2.inBlock && !p0.2.token.isEmpty && headIs p0.2.token (B "require")) = true then p0.2.token.drop 1 else p0.2.token)
      = [a, ver] := by
    rcases hw.locShape p0 hp0 with ⟨h1, h2⟩ | ⟨w, h1, h2⟩
    · rw [h1] at htoks
      simp only [List.nil_append] at htoks
      simp [h2, htoks, headIs]
    · rw [h1] at htoks
      simp only [List.singleton_append, List.cons.injEq] at htoks
      simp [h2, htoks.2]
  unfold moveExisting
  simp only [hfind]
  rw [htok]
  rcases appendToBlock_spec (syn.updateLine i fun l => { l with token := [] }).stmts idx
    { p0.2 with id := next, token := [a, ver], inBlock := true } hw1.shape (hblk1 idx hb) (by simp) rfl with ⟨q1, q2, q3, q4⟩
  refine ⟨hw1.of_added hnext q2 q3, ?_, fun k hk => q4 k (hblk1 k hk)⟩
  intro v
  rw [q1.mem_iff, List.mem_append, hview1, List.mem_singleton]
  simp only [htoks, mkV]

end ModVerif.Modfile.Edit
