/-
  Tie of `Client.initWork` / `Client.init` / `Client.Lookup` (Generated/FnClient.lean), generated side only: for an ARBITRARY
  environment `E : ClientEnv σ H`, each control path of the generated functions as an equation, under hypotheses that say
  what the calls on that path returned (`E.readConfig … = …`, `newVerifierX … = .ok …`, `Client_mergeLatest … = .ok …`, …).
  The proofs only unfold the generated definitions; the representation relation enters in TieFnClientLookupInit/Main.
-/
import ModVerif.Generated.FnClient
import ModVerif.Proofs.TieFnClientLookupPure
set_option linter.unusedSimpArgs false
namespace ModVerif.TieFnClientLookup
open ModVerif ModVerif.GoRt ModVerif.GoRtTile ModVerif.Generated.SumdbClient
section
variable {σ H : Type} [DecidableEq H] [Inhabited H]

/-- `tlog.TreeHash(0, …)` reads nothing -/
theorem treeHashW_zero (E : ClientEnv σ H) (fuel : Nat) (tree : Generated.Tile.Tree H) (world : CW σ H) :
    treeHashW E fuel 0 tree world = .ok ((E.empty, none), world) := by
  simp [treeHashW, Generated.TlogW.TreeHash, pure, Except.pure]

/-- `if c.tileHeight == 0 { c.tileHeight = 8 }` -/
theorem initWork_height0 (E : ClientEnv σ H) (fuel : Nat) (world : CW σ H) (h0 : world.tileHeight = 0) :
    Client_initWork E fuel world = Client_initWork E fuel { world with tileHeight := 8 } := by
  unfold Client_initWork
  simp only [h0, decide_true, if_true]
  simp

/-- the world after the key has been read and parsed -/
def initW2 (E : ClientEnv σ H) (w1 : CW σ H) (v : Generated.Note.Verifier) : CW σ H :=
  if w1.latest.N = 0 then
    { w1 with verifiers := verifierList1 v, name := v.Name, latest := { w1.latest with Hash := E.empty } }
  else { w1 with verifiers := verifierList1 v, name := v.Name }

theorem initWork_keyErr (E : ClientEnv σ H) (fuel : Nat) (world w1 : CW σ H) (vkey : Bytes) (e : String)
    (hne : ¬ world.tileHeight = 0)
    (h1 : E.readConfig [107, 101, 121] { world with tileSaved := [] } = ((vkey, some e), w1)) :
    Client_initWork E fuel world = .ok ((), { w1 with initErr := wrapErr "initializing sumdb.Client: %v" (some e) }) := by
  unfold Client_initWork
  simp only [hne, decide_false, Bool.false_eq_true, if_false, h1]
  simp [pure, Except.pure]

theorem initWork_verErr (E : ClientEnv σ H) (fuel : Nat) (world w1 : CW σ H) (vkey : Bytes) (e : String)
    (v : Generated.Note.Verifier)
    (hne : ¬ world.tileHeight = 0)
    (h1 : E.readConfig [107, 101, 121] { world with tileSaved := [] } = ((vkey, none), w1))
    (h2 : newVerifierX E (trimSpace vkey) = .ok (v, some e)) :
    Client_initWork E fuel world = .ok ((), { w1 with initErr := wrapErr "initializing sumdb.Client: %v" (some e) }) := by
  unfold Client_initWork
  simp only [hne, decide_false, Bool.false_eq_true, if_false, h1, h2]
  simp [pure, Except.pure, bind, Except.bind]

theorem initWork_latestErr (E : ClientEnv σ H) (fuel : Nat) (world w1 w3 : CW σ H) (vkey data : Bytes) (e : String)
    (v : Generated.Note.Verifier)
    (hne : ¬ world.tileHeight = 0)
    (h1 : E.readConfig [107, 101, 121] { world with tileSaved := [] } = ((vkey, none), w1))
    (h2 : newVerifierX E (trimSpace vkey) = .ok (v, none))
    (h3 : E.readConfig ((initW2 E w1 v).name ++ [47, 108, 97, 116, 101, 115, 116]) (initW2 E w1 v) = ((data, some e), w3)) :
    Client_initWork E fuel world = .ok ((), { w3 with initErr := wrapErr "initializing sumdb.Client: %v" (some e) }) := by
  unfold Client_initWork
  simp only [hne, decide_false, Bool.false_eq_true, if_false, h1, h2]
  unfold initW2 at h3
  by_cases hn : w1.latest.N = 0
  · simp only [hn, if_true] at h3
    simp [pure, Except.pure, bind, Except.bind, hn, treeHashW_zero, h3]
  · simp only [hn, if_false] at h3
    simp [pure, Except.pure, bind, Except.bind, hn, h3]

theorem initWork_mergeErr (E : ClientEnv σ H) (fuel : Nat) (world w1 w3 w4 : CW σ H) (vkey data : Bytes) (e : String)
    (v : Generated.Note.Verifier)
    (hne : ¬ world.tileHeight = 0)
    (h1 : E.readConfig [107, 101, 121] { world with tileSaved := [] } = ((vkey, none), w1))
    (h2 : newVerifierX E (trimSpace vkey) = .ok (v, none))
    (h3 : E.readConfig ((initW2 E w1 v).name ++ [47, 108, 97, 116, 101, 115, 116]) (initW2 E w1 v) = ((data, none), w3))
    (h4 : Client_mergeLatest E fuel data w3 = .ok (some e, w4)) :
    Client_initWork E fuel world = .ok ((), { w4 with initErr := wrapErr "initializing sumdb.Client: %v" (some e) }) := by
  unfold Client_initWork
  simp only [hne, decide_false, Bool.false_eq_true, if_false, h1, h2]
  unfold initW2 at h3
  by_cases hn : w1.latest.N = 0
  · simp only [hn, if_true] at h3
    simp [pure, Except.pure, bind, Except.bind, hn, treeHashW_zero, h3, h4]
  · simp only [hn, if_false] at h3
    simp [pure, Except.pure, bind, Except.bind, hn, h3, h4]

theorem initWork_ok (E : ClientEnv σ H) (fuel : Nat) (world w1 w3 w4 : CW σ H) (vkey data : Bytes)
    (v : Generated.Note.Verifier)
    (hne : ¬ world.tileHeight = 0)
    (h1 : E.readConfig [107, 101, 121] { world with tileSaved := [] } = ((vkey, none), w1))
    (h2 : newVerifierX E (trimSpace vkey) = .ok (v, none))
    (h3 : E.readConfig ((initW2 E w1 v).name ++ [47, 108, 97, 116, 101, 115, 116]) (initW2 E w1 v) = ((data, none), w3))
    (h4 : Client_mergeLatest E fuel data w3 = .ok (none, w4)) (h5 : w4.initErr = none) :
    Client_initWork E fuel world = .ok ((), w4) := by
  unfold Client_initWork
  simp only [hne, decide_false, Bool.false_eq_true, if_false, h1, h2]
  unfold initW2 at h3
  by_cases hn : w1.latest.N = 0
  · simp only [hn, if_true] at h3
    simp [pure, Except.pure, bind, Except.bind, hn, treeHashW_zero, h3, h4, h5]
  · simp only [hn, if_false] at h3
    simp [pure, Except.pure, bind, Except.bind, hn, h3, h4, h5]

/-! ### `Client.init` -/

theorem init_done (E : ClientEnv σ H) (fuel : Nat) (world : CW σ H) (hd : world.initDone = true) :
    Client_init E fuel world = .ok (world.initErr, world) := by
  unfold Client_init
  simp [hd, pure, Except.pure, bind, Except.bind]

theorem init_run (E : ClientEnv σ H) (fuel : Nat) (world w' : CW σ H) (hd : world.initDone = false)
    (h : Client_initWork E fuel { world with initDone := true } = .ok ((), w')) :
    Client_init E fuel world = .ok (w'.initErr, w') := by
  unfold Client_init
  simp [hd, h, pure, Except.pure, bind, Except.bind]

/-! ### the closure of `Client.Lookup` passed to `c.record.Do` -/

/-- where the response came from: the on-disk cache (`wc = false`) or the server (`wc = true`) -/
def LookupSrc (E : ClientEnv σ H) (remotePath file : Bytes) (world : CW σ H) (data : Bytes) (wc : Bool) (wA : CW σ H) : Prop :=
  (E.readCache file world = ((data, none), wA) ∧ wc = false) ∨
  (∃ d0 e w1, E.readCache file world = ((d0, some e), w1) ∧ E.readRemote remotePath w1 = ((data, none), wA) ∧ wc = true)

theorem cacheFn_remoteErr (E : ClientEnv σ H) (fuel : Nat) (remotePath file : Bytes) (world w1 w2 : CW σ H)
    (d0 d1 : Bytes) (e0 e1 : String)
    (h1 : E.readCache file world = ((d0, some e0), w1)) (h2 : E.readRemote remotePath w1 = ((d1, some e1), w2)) :
    Client_Lookup_cacheFn1 E fuel remotePath file world = .ok ({ data := [], err := some e1 }, w2) := by
  unfold Client_Lookup_cacheFn1
  simp [h1, h2, pure, Except.pure]

theorem cacheFn_parseErr (E : ClientEnv σ H) (fuel : Nat) (remotePath file : Bytes) (world wA : CW σ H)
    (data : Bytes) (wc : Bool) (hs : LookupSrc E remotePath file world data wc wA)
    (id : Int) (text treeMsg : Bytes) (e : String)
    (hp : parseRecordX fuel data = .ok (id, text, treeMsg, some e)) :
    Client_Lookup_cacheFn1 E fuel remotePath file world = .ok ({ data := [], err := some e }, wA) := by
  unfold Client_Lookup_cacheFn1
  rcases hs with ⟨h1, _⟩ | ⟨d0, e0, w1, h1, h2, _⟩
  · simp [h1, hp, pure, Except.pure, bind, Except.bind]
  · simp [h1, h2, hp, pure, Except.pure, bind, Except.bind]

theorem cacheFn_mergeErr (E : ClientEnv σ H) (fuel : Nat) (remotePath file : Bytes) (world wA wB : CW σ H)
    (data : Bytes) (wc : Bool) (hs : LookupSrc E remotePath file world data wc wA)
    (id : Int) (text treeMsg : Bytes) (e : String)
    (hp : parseRecordX fuel data = .ok (id, text, treeMsg, none))
    (hm : Client_mergeLatest E fuel treeMsg wA = .ok (some e, wB)) :
    Client_Lookup_cacheFn1 E fuel remotePath file world = .ok ({ data := [], err := some e }, wB) := by
  unfold Client_Lookup_cacheFn1
  rcases hs with ⟨h1, _⟩ | ⟨d0, e0, w1, h1, h2, _⟩
  · simp [h1, hp, hm, pure, Except.pure, bind, Except.bind]
  · simp [h1, h2, hp, hm, pure, Except.pure, bind, Except.bind]

theorem cacheFn_checkErr (E : ClientEnv σ H) (fuel : Nat) (remotePath file : Bytes) (world wA wB wC : CW σ H)
    (data : Bytes) (wc : Bool) (hs : LookupSrc E remotePath file world data wc wA)
    (id : Int) (text treeMsg : Bytes) (e : String)
    (hp : parseRecordX fuel data = .ok (id, text, treeMsg, none))
    (hm : Client_mergeLatest E fuel treeMsg wA = .ok (none, wB))
    (hk : Client_checkRecord E fuel id text wB = .ok (some e, wC)) :
    Client_Lookup_cacheFn1 E fuel remotePath file world = .ok ({ data := [], err := some e }, wC) := by
  unfold Client_Lookup_cacheFn1
  rcases hs with ⟨h1, _⟩ | ⟨d0, e0, w1, h1, h2, _⟩
  · simp [h1, hp, hm, hk, pure, Except.pure, bind, Except.bind]
  · simp [h1, h2, hp, hm, hk, pure, Except.pure, bind, Except.bind]

theorem cacheFn_ok (E : ClientEnv σ H) (fuel : Nat) (remotePath file : Bytes) (world wA wB wC : CW σ H)
    (data : Bytes) (wc : Bool) (hs : LookupSrc E remotePath file world data wc wA)
    (id : Int) (text treeMsg : Bytes)
    (hp : parseRecordX fuel data = .ok (id, text, treeMsg, none))
    (hm : Client_mergeLatest E fuel treeMsg wA = .ok (none, wB))
    (hk : Client_checkRecord E fuel id text wB = .ok (none, wC)) :
    Client_Lookup_cacheFn1 E fuel remotePath file world =
      .ok ({ data := data, err := none }, if wc then (E.writeCache file data wC).2 else wC) := by
  unfold Client_Lookup_cacheFn1
  rcases hs with ⟨h1, hw⟩ | ⟨d0, e0, w1, h1, h2, hw⟩
  · subst hw; simp [h1, hp, hm, hk, pure, Except.pure, bind, Except.bind]
  · subst hw; simp [h1, h2, hp, hm, hk, pure, Except.pure, bind, Except.bind]

/-! ### `Client.Lookup` -/

/-- `c.record.Do(file, …)`: the memo table of lookups -/
def recordDo (E : ClientEnv σ H) (fuel : Nat) (remotePath file : Bytes) (world : CW σ H) : M (Cached × CW σ H) :=
  match mapGet world.record file (default : Cached) with
  | (hit, true) => pure (hit, world)
  | (_, false) => do
    let (cv, world) ← Client_Lookup_cacheFn1 E fuel remotePath file world
    pure (cv, { world with record := mapSet world.record file cv })

def lookupLit : String := "%s@%s: %v"

theorem lookup_skip (E : ClientEnv σ H) (fuel : Nat) (path vers : Bytes) (world : CW σ H)
    (hs : matchPrefixPatternsX E fuel world.nosumdb path = .ok true) :
    Client_Lookup E fuel path vers world = .ok (([], some "ErrGONOSUMDB"), { world with didLookup := 1 }) := by
  unfold Client_Lookup Client_skip
  simp [hs, pure, Except.pure, bind, Except.bind]

theorem lookup_initErr (E : ClientEnv σ H) (fuel : Nat) (path vers : Bytes) (world w2 : CW σ H) (e : String)
    (hs : matchPrefixPatternsX E fuel world.nosumdb path = .ok false)
    (hi : Client_init E fuel { world with didLookup := 1 } = .ok (some e, w2)) :
    Client_Lookup E fuel path vers world = .ok (([], wrapErr "%s@%s: %v" (some e)), w2) := by
  unfold Client_Lookup Client_skip
  simp [hs, hi, pure, Except.pure, bind, Except.bind]

theorem lookup_pathErr (E : ClientEnv σ H) (fuel : Nat) (path vers : Bytes) (world w2 : CW σ H) (ep : Bytes) (e : String)
    (hs : matchPrefixPatternsX E fuel world.nosumdb path = .ok false)
    (hi : Client_init E fuel { world with didLookup := 1 } = .ok (none, w2))
    (hp : escapePathX E fuel path = .ok (ep, some e)) :
    Client_Lookup E fuel path vers world = .ok (([], wrapErr "%s@%s: %v" (some e)), w2) := by
  unfold Client_Lookup Client_skip
  simp [hs, hi, hp, pure, Except.pure, bind, Except.bind]

theorem lookup_versErr (E : ClientEnv σ H) (fuel : Nat) (path vers : Bytes) (world w2 : CW σ H) (ep ev : Bytes) (e : String)
    (hs : matchPrefixPatternsX E fuel world.nosumdb path = .ok false)
    (hi : Client_init E fuel { world with didLookup := 1 } = .ok (none, w2))
    (hp : escapePathX E fuel path = .ok (ep, none))
    (hv : escapeVersionX E fuel (trimSuffix vers [47, 103, 111, 46, 109, 111, 100]) = .ok (ev, some e)) :
    Client_Lookup E fuel path vers world = .ok (([], wrapErr "%s@%s: %v" (some e)), w2) := by
  unfold Client_Lookup Client_skip
  simp [hs, hi, hp, hv, pure, Except.pure, bind, Except.bind]

theorem lookup_recErr (E : ClientEnv σ H) (fuel : Nat) (path vers : Bytes) (world w2 w3 : CW σ H) (ep ev : Bytes)
    (hit : Cached) (e : String)
    (hs : matchPrefixPatternsX E fuel world.nosumdb path = .ok false)
    (hi : Client_init E fuel { world with didLookup := 1 } = .ok (none, w2))
    (hp : escapePathX E fuel path = .ok (ep, none))
    (hv : escapeVersionX E fuel (trimSuffix vers [47, 103, 111, 46, 109, 111, 100]) = .ok (ev, none))
    (hr : recordDo E fuel ((([47, 108, 111, 111, 107, 117, 112, 47] ++ ep) ++ [64]) ++ ev)
            (w2.name ++ ((([47, 108, 111, 111, 107, 117, 112, 47] ++ ep) ++ [64]) ++ ev)) w2 = .ok (hit, w3))
    (he : hit.err = some e) :
    Client_Lookup E fuel path vers world = .ok (([], wrapErr "%s@%s: %v" (some e)), w3) := by
  unfold Client_Lookup Client_skip
  unfold recordDo at hr
  rcases hm : mapGet w2.record (w2.name ++ ((([47, 108, 111, 111, 107, 117, 112, 47] ++ ep) ++ [64]) ++ ev))
    (default : Cached) with ⟨h0, b⟩
  rw [hm] at hr
  cases b
  · rcases hc : Client_Lookup_cacheFn1 E fuel ((([47, 108, 111, 111, 107, 117, 112, 47] ++ ep) ++ [64]) ++ ev)
      (w2.name ++ ((([47, 108, 111, 111, 107, 117, 112, 47] ++ ep) ++ [64]) ++ ev)) w2 with err | ⟨cv, wx⟩
    · simp only [hc, bind, Except.bind] at hr; cases hr
    · simp only [hc, bind, Except.bind, pure, Except.pure, Except.ok.injEq, Prod.mk.injEq] at hr
      obtain ⟨rfl, rfl⟩ := hr
      simp only [hs, hi, hp, hv, hm, hc, he, pure, Except.pure, bind, Except.bind, Bool.false_eq_true, if_false, if_true,
        Option.isNone_none, Option.isNone_some, Bool.not_true, Bool.not_false]
  · simp only [pure, Except.pure, Except.ok.injEq, Prod.mk.injEq] at hr
    obtain ⟨rfl, rfl⟩ := hr
    simp only [hs, hi, hp, hv, hm, he, pure, Except.pure, bind, Except.bind, Bool.false_eq_true, if_false, if_true,
      Option.isNone_none, Option.isNone_some, Bool.not_true, Bool.not_false]

theorem lookup_ok (E : ClientEnv σ H) (fuel : Nat) (path vers : Bytes) (world w2 w3 : CW σ H) (ep ev : Bytes)
    (hit : Cached)
    (hs : matchPrefixPatternsX E fuel world.nosumdb path = .ok false)
    (hi : Client_init E fuel { world with didLookup := 1 } = .ok (none, w2))
    (hp : escapePathX E fuel path = .ok (ep, none))
    (hv : escapeVersionX E fuel (trimSuffix vers [47, 103, 111, 46, 109, 111, 100]) = .ok (ev, none))
    (hr : recordDo E fuel ((([47, 108, 111, 111, 107, 117, 112, 47] ++ ep) ++ [64]) ++ ev)
            (w2.name ++ ((([47, 108, 111, 111, 107, 117, 112, 47] ++ ep) ++ [64]) ++ ev)) w2 = .ok (hit, w3))
    (he : hit.err = none) (hf : hit.data.length + 2 ≤ fuel) :
    Client_Lookup E fuel path vers world =
      .ok ((Client.filterLines (path ++ [32] ++ vers ++ [32]) hit.data, none), w3) := by
  unfold Client_Lookup Client_skip
  unfold recordDo at hr
  rcases hm : mapGet w2.record (w2.name ++ ((([47, 108, 111, 111, 107, 117, 112, 47] ++ ep) ++ [64]) ++ ev))
    (default : Cached) with ⟨h0, b⟩
  rw [hm] at hr
  cases b
  · rcases hc : Client_Lookup_cacheFn1 E fuel ((([47, 108, 111, 111, 107, 117, 112, 47] ++ ep) ++ [64]) ++ ev)
      (w2.name ++ ((([47, 108, 111, 111, 107, 117, 112, 47] ++ ep) ++ [64]) ++ ev)) w2 with err | ⟨cv, wx⟩
    · simp only [hc, bind, Except.bind] at hr; cases hr
    · simp only [hc, bind, Except.bind, pure, Except.pure, Except.ok.injEq, Prod.mk.injEq] at hr
      obtain ⟨rfl, rfl⟩ := hr
      simp only [hs, hi, hp, hv, hm, hc, he, pure, Except.pure, bind, Except.bind, Bool.false_eq_true, if_false, if_true,
        Option.isNone_none, Option.isNone_some, Bool.not_true, Bool.not_false, prefix_eq]
      rw [loop2_filterLines E _ _ _ _ fuel hf]
  · simp only [pure, Except.pure, Except.ok.injEq, Prod.mk.injEq] at hr
    obtain ⟨rfl, rfl⟩ := hr
    simp only [hs, hi, hp, hv, hm, he, pure, Except.pure, bind, Except.bind, Bool.false_eq_true, if_false, if_true,
      Option.isNone_none, Option.isNone_some, Bool.not_true, Bool.not_false, prefix_eq]
    rw [loop2_filterLines E _ _ _ _ fuel hf]

end
end ModVerif.TieFnClientLookup
