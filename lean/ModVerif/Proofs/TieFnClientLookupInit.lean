/-
  Tie of `Client.initWork` and `Client.init` (Generated/FnClient.lean) against the hand model's `initWork` / `init`
  (Model/Client.lean), under the representation relation of Proofs/TieFnClientRep.lean and the correspondence of
  `Client_mergeLatest` taken as a hypothesis (`MergeLatestSpec`; proved by Tie/FnClientMerge.lean).
-/
import ModVerif.Proofs.TieFnClientRep
import ModVerif.Proofs.TieFnClientLookupGen
import ModVerif.Proofs.TieFnClientLookupFrame
import ModVerif.Tie.FnNoteKey
set_option linter.unusedSectionVars false
set_option linter.unusedSimpArgs false
namespace ModVerif.TieFnClientLookup
open ModVerif ModVerif.GoRt ModVerif.GoRtTile ModVerif.Generated.SumdbClient ModVerif.TieFnClientRep
open ModVerif.TieFnTile (toGen)

section
variable {σ H : Type} [DecidableEq H] [Inhabited H]

/-- what the tie of `Client_mergeLatest` provides: `AM fuel w msg` is its side condition (enough fuel for the run of the
    model from `w`, none of the model-only outcomes) -/
def MergeLatestSpec (P : Client.Params H) (E : Client.Env σ) (AM : Nat → Client.World σ H → Bytes → Prop) : Prop :=
  ∀ (w : Client.World σ H) (cw : GW σ H) (msg : Bytes) (fuel : Nat), RepRun P E w cw → AM fuel w msg →
    ∃ r' cw', Client_mergeLatest (envOf P E) fuel msg cw = .ok (r', cw') ∧
      RepRun P E (Client.mergeLatest P E w msg).2 cw' ∧ RepUnit r' (Client.mergeLatest P E w msg).1 ∧
      cw'.initDone = cw.initDone ∧ cw'.initErr = cw.initErr

/-- what the tie of `Client_checkRecord` provides -/
def CheckRecordSpec (P : Client.Params H) (E : Client.Env σ) (AC : Nat → Client.World σ H → Int → Bytes → Prop) : Prop :=
  ∀ (w : Client.World σ H) (cw : GW σ H) (id : Int) (data : Bytes) (fuel : Nat), RepRun P E w cw → AC fuel w id data →
    ∃ r' cw', Client_checkRecord (envOf P E) fuel id data cw = .ok (r', cw') ∧
      RepRun P E (Client.checkRecord P E w id data).2 cw' ∧ RepUnit r' (Client.checkRecord P E w id data).1 ∧
      cw'.initDone = cw.initDone ∧ cw'.initErr = cw.initErr

/-- the side condition of `mergeLatest` at the point where `initWork` calls it (if it gets there) -/
def InitAdm (P : Client.Params H) (E : Client.Env σ) (AM : Nat → Client.World σ H → Bytes → Prop) (fuel : Nat)
    (w : Client.World σ H) : Prop :=
  match (Client.readConfig E w (B "key")).1 with
  | none => True
  | some vkey =>
    match Note.NewVerifier P.sha P.edVerify (GoStrings.trimSpace vkey) with
    | .error _ => True
    | .ok v =>
      let rk := Client.readConfig E w (B "key")
      let w1 : Client.World σ H := { rk.2 with c := { rk.2.c with verifiers := [v], name := v.name } }
      let rl := Client.readConfig E w1 (Client.latestFile v.name)
      match rl.1 with
      | none => True
      | some data => AM fuel rl.2 data

/-- `RepCore` only looks at these fields -/
theorem core_transfer {P : Client.Params H} {E : Client.Env σ} {w w' : Client.World σ H} {cw cw' : GW σ H}
    (h : RepCore P E w cw) (hs : cw'.s = (w'.s, w'.tr)) (hname : cw'.name = w'.c.name)
    (hver : cw'.verifiers = verifiersOf w'.c.verifiers) (hvl : w'.c.verifiers.length ≤ 1)
    (hsaved : ∀ t, TOk t → (mapGet cw'.tileSaved (toGen t) false).1 = w'.c.tileSaved.contains t)
    (g3 : cw'.nosumdb = cw.nosumdb) (g4 : cw'.record = cw.record) (g5 : cw'.tileCache = cw.tileCache)
    (g6 : cw'.latest.N = cw.latest.N) (g7 : cw'.latestMsg = cw.latestMsg)
    (m4 : w'.c.record = w.c.record) (m5 : w'.c.tileCache = w.c.tileCache) (m6 : w'.c.latest.n = w.c.latest.n)
    (m7 : w'.c.latestMsg = w.c.latestMsg) : RepCore P E w' cw' :=
  { s := hs, name := hname, verifiers := hver, vlen := hvl, nosumdb := by rw [g3]; exact h.nosumdb,
    record := by rw [g4, m4]; exact h.record, tileCache := by rw [g5, m5]; exact h.tileCache,
    latestN := by rw [g6, m6]; exact h.latestN, latestMsg := by rw [g7, m7]; exact h.latestMsg, tileSaved := hsaved }

/-- … in particular not at `initDone`, `initErr`, `didLookup`, `inited` -/
theorem core_same {P : Client.Params H} {E : Client.Env σ} {w w' : Client.World σ H} {cw cw' : GW σ H}
    (h : RepCore P E w cw) (hs : cw'.s = cw.s) (g1 : cw'.name = cw.name) (g2 : cw'.verifiers = cw.verifiers)
    (g3 : cw'.nosumdb = cw.nosumdb) (g4 : cw'.record = cw.record) (g5 : cw'.tileCache = cw.tileCache)
    (g6 : cw'.latest = cw.latest) (g7 : cw'.latestMsg = cw.latestMsg) (g8 : cw'.tileSaved = cw.tileSaved)
    (ms : w'.s = w.s) (mt : w'.tr = w.tr) (m1 : w'.c.name = w.c.name) (m2 : w'.c.verifiers = w.c.verifiers)
    (m4 : w'.c.record = w.c.record) (m5 : w'.c.tileCache = w.c.tileCache) (m6 : w'.c.latest = w.c.latest)
    (m7 : w'.c.latestMsg = w.c.latestMsg) (m8 : w'.c.tileSaved = w.c.tileSaved) : RepCore P E w' cw' :=
  core_transfer h (by rw [hs, ms, mt]; exact h.s) (by rw [g1, m1]; exact h.name) (by rw [g2, m2]; exact h.verifiers)
    (by rw [m2]; exact h.vlen) (by rw [g8, m8]; exact h.tileSaved) g3 g4 g5 (by rw [g6]) g7 m4 m5 (by rw [m6]) m7

/-- setting `inited` and `initErr` does not disturb the core -/
theorem core_setInit {P : Client.Params H} {E : Client.Env σ} {w : Client.World σ H} {cw : GW σ H}
    (h : RepCore P E w cw) (e : Option Client.Err) (g : Option String) :
    RepCore P E (Client.setInit w e) { cw with initErr := g } :=
  core_same h rfl rfl rfl rfl rfl rfl rfl rfl rfl rfl rfl rfl rfl rfl rfl rfl rfl rfl

theorem initW2_name (E : ClientEnv (GS σ) H) (w1 : GW σ H) (v : Generated.Note.Verifier) : (initW2 E w1 v).name = v.Name := by
  unfold initW2; split <;> rfl

theorem newVerifierX_eq (P : Client.Params H) (E : Client.Env σ) (vkey : Bytes) :
    newVerifierX (envOf P E) vkey = TieFnNoteKey.embedVerifier (Note.NewVerifier P.sha P.edVerify vkey) :=
  Tie.FnNoteKey.NewVerifier_tie P.sha P.edVerify vkey

theorem tileHeight_ne_zero (P : Client.Params H) : ¬ ((Client.tileHeight P : Nat) : Int) = 0 := by
  unfold Client.tileHeight
  split
  · decide
  · rename_i h; simp only [beq_iff_eq] at h; omega

theorem initLit_pass : "initializing sumdb.Client: %v" ∈ passLits := by simp [passLits]
theorem lookupLit_pass : "%s@%s: %v" ∈ passLits := by simp [passLits]

/-- `RepW` after a failed initialisation -/
theorem repW_initFailed {P : Client.Params H} {E : Client.Env σ} {w : Client.World σ H} {cw : GW σ H}
    (hc : RepCore P E w cw) (hd : cw.initDone = true) (g : Option String) (e : Client.Err) (hg : RepErr g e) :
    RepW P E (Client.setInit w (some e)) { cw with initErr := wrapErr "initializing sumdb.Client: %v" g } :=
  { toRepCore := core_setInit hc _ _
    init := by
      unfold RepInit
      exact ⟨hd, errAbs_wrap _ initLit_pass g e hg⟩ }

/-- **`Client.initWork`** in a world where `initOnce` has not run: the generated function (called by `Client_init` after
    it has set `initDone`) ends in a world that represents the model's `initWork`. -/
theorem initWork_tie (P : Client.Params H) (E : Client.Env σ) (AM : Nat → Client.World σ H → Bytes → Prop)
    (hM : MergeLatestSpec P E AM) (hsha : ∀ x, 4 ≤ (P.sha x).length)
    (w : Client.World σ H) (cw : GW σ H) (fuel : Nat) (h : RepW P E w cw)
    (hin : w.c.inited = none) (hts : w.c.tileSaved = []) (ha : InitAdm P E AM fuel w) :
    ∃ cw', Client_initWork (envOf P E) fuel { cw with initDone := true } = .ok ((), cw') ∧
      RepW P E (Client.initWork P E w) cw' := by
  have hi := h.init
  unfold RepInit at hi
  rw [hin] at hi
  obtain ⟨hd0, he0, hth0, hz, hnz⟩ := hi
  have hc := h.toRepCore
  -- the tile height
  obtain ⟨cwa, hcwa, ha1, ha2, ha3, ha4⟩ : ∃ cwa : GW σ H,
      Client_initWork (envOf P E) fuel { cw with initDone := true } = Client_initWork (envOf P E) fuel cwa ∧
      cwa = { cw with initDone := true, tileHeight := ((Client.tileHeight P : Nat) : Int) } ∧
      cwa.initDone = true ∧ cwa.initErr = none ∧ cwa.tileHeight = ((Client.tileHeight P : Nat) : Int) := by
    refine ⟨{ cw with initDone := true, tileHeight := ((Client.tileHeight P : Nat) : Int) }, ?_, rfl, rfl, he0, rfl⟩
    by_cases hP : P.height = 0
    · rw [initWork_height0 _ _ _ (by show cw.tileHeight = 0; rw [hth0, hP]; rfl)]
      have : ((Client.tileHeight P : Nat) : Int) = 8 := by simp [Client.tileHeight, hP]
      rw [this]
    · have : ((Client.tileHeight P : Nat) : Int) = cw.tileHeight := by
        rw [hth0]; simp [Client.tileHeight, hP]
      rw [this]
  rw [hcwa]
  have hne : ¬ cwa.tileHeight = 0 := by rw [ha4]; exact tileHeight_ne_zero P
  -- the key
  have hsx : ({ cwa with tileSaved := [] } : GW σ H).s = (w.s, w.tr) := by rw [ha1]; exact hc.s
  have hrc := readConfig_eq (P := P) (E := E) hsx (B "key")
  rw [← lit_key] at hrc
  unfold InitAdm at ha
  rw [← lit_key] at ha
  -- the core of the world after the key has been read
  have hc1 : RepCore P E (Client.readConfig E w [107, 101, 121]).2
      (withS ({ cwa with tileSaved := [] } : GW σ H) (Client.readConfig E w [107, 101, 121]).2) := by
    refine core_transfer hc rfl ?_ ?_ hc.vlen ?_ ?_ ?_ ?_ ?_ ?_ rfl rfl rfl rfl
    · rw [ha1]; exact hc.name
    · rw [ha1]; exact hc.verifiers
    · intro t _
      show (mapGet ([] : List (Generated.Tile.Tile × Bool)) (toGen t) false).1 = w.c.tileSaved.contains t
      rw [hts]; rfl
    all_goals rw [ha1]; rfl
  simp only [Client.initWork]
  rw [← lit_key]
  cases hk : (Client.readConfig E w [107, 101, 121]).1 with
  | none =>
    rw [hk, readOut_none] at hrc
    refine ⟨_, initWork_keyErr _ _ _ _ _ _ hne hrc, ?_⟩
    exact repW_initFailed hc1 ha2 _ _ ⟨_, rfl, errAbs_config⟩
  | some vkey =>
    rw [hk, readOut_some] at hrc
    rw [hk] at ha
    simp only at ha ⊢
    have hnv := newVerifierX_eq P E (trimSpace vkey)
    have hnp := Tie.FnNoteKey.NewVerifier_no_panic P.sha hsha P.edVerify (GoStrings.trimSpace vkey)
    cases hv : Note.NewVerifier P.sha P.edVerify (GoStrings.trimSpace vkey) with
    | error e =>
      have hv' : Note.NewVerifier P.sha P.edVerify (trimSpace vkey) = .error e := hv
      rw [hv'] at hnv
      cases e with
      | panic => exact absurd hv hnp
      | id =>
        refine ⟨_, initWork_verErr _ _ _ _ _ _ _ hne hrc hnv, ?_⟩
        exact repW_initFailed hc1 ha2 _ _ ⟨_, rfl, errAbs_keyId⟩
      | alg =>
        refine ⟨_, initWork_verErr _ _ _ _ _ _ _ hne hrc hnv, ?_⟩
        exact repW_initFailed hc1 ha2 _ _ ⟨_, rfl, errAbs_keyAlg⟩
      | hash =>
        refine ⟨_, initWork_verErr _ _ _ _ _ _ _ hne hrc hnv, ?_⟩
        exact repW_initFailed hc1 ha2 _ _ ⟨_, rfl, errAbs_keyHash⟩
    | ok v =>
      have hv' : Note.NewVerifier P.sha P.edVerify (trimSpace vkey) = .ok v := hv
      rw [hv'] at hnv
      rw [hv] at ha
      simp only at ha ⊢
      -- the running representation from here on
      have hgv : TieFnNoteKey.embedVerifier (.ok v) = .ok (TieFnNote.toGV v, none) := rfl
      rw [hgv] at hnv
      let w1 : Client.World σ H :=
        { (Client.readConfig E w [107, 101, 121]).2 with
          c := { (Client.readConfig E w [107, 101, 121]).2.c with verifiers := [v], name := v.name } }
      have hrun2 : RepRun P E w1
          (initW2 (envOf P E) (withS ({ cwa with tileSaved := [] } : GW σ H) (Client.readConfig E w [107, 101, 121]).2)
            (TieFnNote.toGV v)) := by
        have hN : cwa.latest.N = (w.c.latest.n : Int) := by rw [ha1]; exact hc.latestN
        unfold initW2
        by_cases hn : (withS ({ cwa with tileSaved := [] } : GW σ H) (Client.readConfig E w [107, 101, 121]).2).latest.N = 0
        · rw [if_pos hn]
          have hn' : w.c.latest.n = 0 := by
            have : cwa.latest.N = 0 := hn
            rw [hN] at this; omega
          refine { toRepCore := core_transfer hc1 rfl rfl rfl (Nat.le_refl _) hc1.tileSaved rfl rfl rfl rfl rfl rfl rfl rfl rfl,
                   tileHeight := ha4, latestHash := ?_ }
          show P.empty = w.c.latest.hash
          exact (hz hn').symm
        · rw [if_neg hn]
          have hn' : w.c.latest.n ≠ 0 := by
            intro h0
            apply hn
            show cwa.latest.N = 0
            rw [hN, h0]; rfl
          refine { toRepCore := core_transfer hc1 rfl rfl rfl (Nat.le_refl _) hc1.tileSaved rfl rfl rfl rfl rfl rfl rfl rfl rfl,
                   tileHeight := ha4, latestHash := ?_ }
          show cwa.latest.Hash = w.c.latest.hash
          rw [ha1]; exact hnz hn'
      have hd2 : (initW2 (envOf P E) (withS ({ cwa with tileSaved := [] } : GW σ H) (Client.readConfig E w [107, 101, 121]).2)
            (TieFnNote.toGV v)).initDone = true := by
        unfold initW2; split <;> exact ha2
      have he2 : (initW2 (envOf P E) (withS ({ cwa with tileSaved := [] } : GW σ H) (Client.readConfig E w [107, 101, 121]).2)
            (TieFnNote.toGV v)).initErr = none := by
        unfold initW2; split <;> exact ha3
      generalize hw2 : initW2 (envOf P E) (withS ({ cwa with tileSaved := [] } : GW σ H) (Client.readConfig E w [107, 101, 121]).2)
            (TieFnNote.toGV v) = w2g at hrun2 hd2 he2
      have hname2 : w2g.name = v.name := by rw [← hw2, initW2_name]; rfl
      -- the stored head
      have hrl : (envOf P E).readConfig (w2g.name ++ [47, 108, 97, 116, 101, 115, 116]) w2g =
          (readOut "config" (Client.readConfig E w1 (v.name ++ [47, 108, 97, 116, 101, 115, 116])).1,
            withS w2g (Client.readConfig E w1 (v.name ++ [47, 108, 97, 116, 101, 115, 116])).2) := by
        rw [hname2]; exact readConfig_eq (P := P) (E := E) hrun2.s _
      have hc3 : RepCore P E (Client.readConfig E w1 (Client.latestFile v.name)).2
          (withS w2g (Client.readConfig E w1 (Client.latestFile v.name)).2) :=
        hrun2.toRepCore.withS rfl
      rw [← latestFile_eq] at hc3 ha ⊢
      cases hl : (Client.readConfig E w1 (v.name ++ [47, 108, 97, 116, 101, 115, 116])).1 with
      | none =>
        rw [hl, readOut_none] at hrl
        subst hw2
        refine ⟨_, initWork_latestErr _ _ _ _ _ _ _ _ _ hne hrc hnv hrl, ?_⟩
        exact repW_initFailed hc3 hd2 _ _ ⟨_, rfl, errAbs_config⟩
      | some data =>
        rw [hl, readOut_some] at hrl
        rw [hl] at ha
        simp only at ha ⊢
        have hrun3 : RepRun P E (Client.readConfig E w1 (v.name ++ [47, 108, 97, 116, 101, 115, 116])).2
            (withS w2g (Client.readConfig E w1 (v.name ++ [47, 108, 97, 116, 101, 115, 116])).2) :=
          hrun2.of_frame hc3 (withS_frame _ _) (frameM_of_c rfl)
        obtain ⟨r', w4g, hm, hrun4, hres, hd4, he4⟩ := hM _ _ data fuel hrun3 ha
        have hd4' : w4g.initDone = true := by rw [hd4]; exact hd2
        have he4' : w4g.initErr = none := by rw [he4]; exact he2
        cases hr : (Client.mergeLatest P E (Client.readConfig E w1 (v.name ++ [47, 108, 97, 116, 101, 115, 116])).2 data).1 with
        | error e =>
          rw [hr] at hres
          obtain ⟨s, rfl, hs⟩ := hres
          subst hw2
          refine ⟨_, initWork_mergeErr _ _ _ _ _ _ _ _ _ _ hne hrc hnv hrl hm, ?_⟩
          exact repW_initFailed hrun4.toRepCore hd4' _ _ ⟨_, rfl, hs⟩
        | ok u =>
          rw [hr] at hres
          have hr' : r' = none := hres
          subst hr'
          subst hw2
          refine ⟨_, initWork_ok _ _ _ _ _ _ _ _ _ hne hrc hnv hrl hm he4', ?_⟩
          refine { toRepCore := core_same hrun4.toRepCore rfl rfl rfl rfl rfl rfl rfl rfl rfl rfl rfl rfl rfl rfl rfl rfl rfl rfl,
                   init := ?_ }
          unfold RepInit
          exact ⟨hd4', he4', hrun4.tileHeight, hrun4.latestHash⟩

/-- the model's `initWork` always records an outcome -/
theorem initWork_inited (P : Client.Params H) (E : Client.Env σ) (w : Client.World σ H) :
    (Client.initWork P E w).c.inited ≠ none := by
  simp only [Client.initWork]
  split
  · simp [Client.setInit]
  · split
    · simp [Client.setInit]
    · split
      · simp [Client.setInit]
      · split <;> simp [Client.setInit]

theorem init_inited (P : Client.Params H) (E : Client.Env σ) (w : Client.World σ H) :
    (Client.init P E w).c.inited ≠ none := by
  unfold Client.init
  split
  · rename_i x hx; rw [hx]; simp
  · exact initWork_inited P E w

/-- an initialised client keeps its `tileSaved` discipline trivially; before, nothing has been saved -/
theorem init_of_inited (P : Client.Params H) (E : Client.Env σ) (w : Client.World σ H) (x : Option Client.Err)
    (h : w.c.inited = some x) : Client.init P E w = w := by
  unfold Client.init; rw [h]

theorem init_of_none (P : Client.Params H) (E : Client.Env σ) (w : Client.World σ H)
    (h : w.c.inited = none) : Client.init P E w = Client.initWork P E w := by
  unfold Client.init; rw [h]

/-- **`Client.init`**: `c.initOnce.Do(c.initWork); return c.initErr` -/
theorem init_tie (P : Client.Params H) (E : Client.Env σ) (AM : Nat → Client.World σ H → Bytes → Prop)
    (hM : MergeLatestSpec P E AM) (hsha : ∀ x, 4 ≤ (P.sha x).length)
    (w : Client.World σ H) (cw : GW σ H) (fuel : Nat) (h : RepW P E w cw)
    (hts : w.c.inited = none → w.c.tileSaved = []) (ha : w.c.inited = none → InitAdm P E AM fuel w) :
    ∃ cw', Client_init (envOf P E) fuel cw = .ok (cw'.initErr, cw') ∧ RepW P E (Client.init P E w) cw' := by
  cases hin : w.c.inited with
  | none =>
    have hi := h.init
    unfold RepInit at hi
    rw [hin] at hi
    obtain ⟨cw', h1, h2⟩ := initWork_tie P E AM hM hsha w cw fuel h hin (hts hin) (ha hin)
    refine ⟨cw', init_run _ _ _ _ hi.1 h1, ?_⟩
    rw [init_of_none P E w hin]; exact h2
  | some x =>
    have hi := h.init
    unfold RepInit at hi
    rw [hin] at hi
    have hd : cw.initDone = true := by cases x <;> exact hi.1
    refine ⟨cw, init_done _ _ _ hd, ?_⟩
    rw [init_of_inited P E w x hin]; exact h

/-- `c.didLookup` is not represented -/
theorem repW_didLookup {P : Client.Params H} {E : Client.Env σ} {w : Client.World σ H} {cw : GW σ H}
    (h : RepW P E w cw) (n : Int) : RepW P E w { cw with didLookup := n } :=
  { toRepCore := core_same h.toRepCore rfl rfl rfl rfl rfl rfl rfl rfl rfl rfl rfl rfl rfl rfl rfl rfl rfl rfl
    init := h.init }

end
end ModVerif.TieFnClientLookup
