/-
  Helper lemmas for Tie/FnEditSet.lean: what `File.SetRequire` needs of `File.AddNewRequire` and `File.SortBlocks`
  (`AddNewRequireSpec`, `SortBlocksSpec`: the simulation statements, owners edit-req / edit-sort), loop 3 of SetRequire
  (the additions, in INSERTION order of the map `need` = the model's `perm = id`), and the composition.
-/
import ModVerif.Proofs.TieFnEditSetB
set_option linter.unusedSimpArgs false
set_option linter.unusedVariables false
namespace ModVerif.Tie.FnEditSetC
open ModVerif ModVerif.GoRt ModVerif.Generated.Edit ModVerif.Tie.FnEditRep ModVerif.Tie.FnEditTreeA ModVerif.Tie.FnEditSetA
  ModVerif.Tie.FnEditSetB
open ModVerif.Modfile.Edit (Want needMap setRequireLoop EFile addNewRequire sortBlocks setRequire)

/-- the simulation statement of `File_AddNewRequire` against `Modfile.Edit.addNewRequire`; `FA e path` is its fuel demand -/
def AddNewRequireSpec (isPrint : Int → Bool) (quote : Bytes → Bytes) (FA : EFile → Bytes → Nat) : Prop :=
  ∀ (h : Heap) (fp : Int) (e : EFile) (path vers : Bytes) (ind : Bool) (fuel : Nat),
    RepF h fp e → FA e path ≤ fuel →
    ∃ h', File_AddNewRequire isPrint quote fuel fp path vers ind h = .ok ((), h') ∧ RepF h' fp (addNewRequire e path vers ind)

/-- the simulation statement of `File_SortBlocks` against `Modfile.Edit.sortBlocks`; `FS e` is its fuel demand -/
def SortBlocksSpec (FS : EFile → Nat) : Prop :=
  ∀ (h : Heap) (fp : Int) (e : EFile) (fuel : Nat),
    RepF h fp e → FS e ≤ fuel →
    ∃ h', File_SortBlocks fuel fp h = .ok ((), h') ∧ RepF h' fp (sortBlocks e)

/-- the additions of SetRequire on the model -/
def addAll (e : EFile) (need : List Want) : EFile := need.foldl (fun e w => addNewRequire e w.path w.vers w.indirect) e

@[simp] theorem addAll_nil (e : EFile) : addAll e [] = e := rfl
@[simp] theorem addAll_cons (e : EFile) (w : Want) (ws : List Want) :
    addAll e (w :: ws) = addAll (addNewRequire e w.path w.vers w.indirect) ws := rfl

/-- fuel of loop 3: one per iteration on top of what each `AddNewRequire` asks for in the state it is called in -/
def fuel3 (FA : EFile → Bytes → Nat) : EFile → List Want → Nat
  | _, [] => 1
  | e, w :: ws => max (FA e w.path) (fuel3 FA (addNewRequire e w.path w.vers w.indirect) ws) + 1

theorem needG_append (a b : List Want) : needG (a ++ b) = needG a ++ needG b := by simp [needG]
theorem needG_cons (w : Want) (b : List Want) : needG (w :: b) = elemG w :: needG b := rfl

theorem loop3_sim {isPrint : Int → Bool} {quote : Bytes → Bytes} {FA : EFile → Bytes → Nat}
    (hA : AddNewRequireSpec isPrint quote FA) (fp : Int) (need : List Want) :
    ∀ (rest pre : List Want) (ri : Int) (e : EFile) (h : Heap) (fuel : Nat),
      need = pre ++ rest → ri = (pre.length : Int) → RepF h fp e → fuel3 FA e rest ≤ fuel →
      ∃ h', File_SetRequire_loop3 isPrint quote fp (needG need) fuel ri h = .ok (len (needG need), h') ∧
        RepF h' fp (addAll e rest)
  | [], pre, ri, e, h, fuel + 1, hn, hri, R, _ => by
    subst hn hri
    have := not_lt_len_end (needG pre)
    rw [needG_length] at this
    refine ⟨h, ?_, R⟩
    simp [File_SetRequire_loop3, this, pure, Except.pure, needG_append, needG, len_eq]
  | w :: ws, pre, ri, e, h, fuel + 1, hn, hri, R, hf => by
    subst hn hri
    simp only [fuel3] at hf
    obtain ⟨h1, hrun, R1⟩ := hA h fp e w.path w.vers w.indirect fuel R (by omega)
    obtain ⟨h', hloop, R'⟩ := loop3_sim hA fp (pre ++ w :: ws) ws (pre ++ [w]) ((pre.length : Int) + 1) _ h1 fuel
      (by simp) (by simp) R1 (by omega)
    refine ⟨h', ?_, R'⟩
    have hlt := lt_len_cursor (needG pre) (elemG w) (needG ws)
    have hcur := idxL_cursor (needG pre) (elemG w) (needG ws)
    rw [needG_length] at hlt hcur
    unfold File_SetRequire_loop3
    simp only [needG_append, needG_cons, hlt, decide_true, if_true, hcur, bind, Except.bind]
    have e1 : (elemG w).1 = w.path := rfl
    have e2 : (elemG w).2.version = w.vers := rfl
    have e3 : (elemG w).2.indirect = w.indirect := rfl
    simp only [e1, e2, e3, hrun]
    simpa [needG_append, needG_cons] using hloop
  | [], _, _, _, _, 0, _, _, _, hf => by simp [fuel3] at hf
  | _ :: _, _, _, _, _, 0, _, _, _, hf => by simp [fuel3] at hf

/-- fuel of `File_SetRequire`: the three loops (one per iteration) and the demands of `AddNewRequire` / `SortBlocks` in the
    states the model passes through -/
def fuelSetRequire (FA : EFile → Bytes → Nat) (FS : EFile → Nat) (e : EFile) (req : List Want) : Nat :=
  max (req.length + 1) (max (e.f.require.length + 1)
    (match needMap true req [] with
     | .ok need =>
       match setRequireLoop e.f.require need e.f.syn with
       | .ok (rq, need', syn) => max (fuel3 FA (withRS e rq syn) need') (FS (addAll (withRS e rq syn) need'))
       | .error _ => 0
     | .error _ => 0))

/-- **`File.SetRequire` on a represented file is the model's `setRequire` with `perm = id`** (the regenerated code iterates
    the map `need` in insertion order); the model's errors (`conflictingVersions`, `nilDeref`) are Go panics -/
theorem File_SetRequire_sim (hIdx : IndirectIdxOK) {isPrint : Int → Bool} {quote : Bytes → Bytes}
    {FA : EFile → Bytes → Nat} {FS : EFile → Nat} (hA : AddNewRequireSpec isPrint quote FA) (hS : SortBlocksSpec FS)
    {h : Heap} {fp : Int} {e : EFile} {ps : List Int} {req : List Want} {fuel : Nat}
    (R : RepF h fp e) (hq : ReqArgs h.requires ps req) (hf : fuelSetRequire FA FS e req ≤ fuel) :
    match setRequire e req id with
    | .ok e' => ∃ h', File_SetRequire isPrint quote fuel fp ps h = .ok ((), h') ∧ RepF h' fp e'
    | .error _ => File_SetRequire isPrint quote fuel fp ps h = .error .panic := by
  obtain ⟨o, ho, RA⟩ := R
  unfold fuelSetRequire at hf
  have h1 := loop1_sim isPrint quote h req ps [] ps 0 [] fuel rfl rfl hq (by omega)
  have hneed0 : needG [] = ([] : List (Bytes × ReqElem)) := rfl
  rw [hneed0] at h1
  unfold File_SetRequire setRequire
  simp only [bind, Except.bind, h1]
  cases hn : needMap true req [] with
  | error err => rfl
  | ok need =>
    simp only [hn] at hf ⊢
    simp only [ho]
    have hlen : o.Require.length = e.f.require.length := REntsL.length RA.require.rel
    have h2 := loop2_sim hIdx isPrint quote fp o e e.f.require o.Require [] 0 [] need e.f.syn h fuel rfl rfl rfl hlen
      (by simpa [withRS_self] using RA) (by omega)
    cases hl : setRequireLoop e.f.require need e.f.syn with
    | error err =>
      rw [hl] at h2
      simp only [h2]
    | ok res =>
      obtain ⟨rq, need', syn⟩ := res
      rw [hl] at h2
      simp only [hl] at hf
      obtain ⟨h2', hrun2, R2, hm2⟩ := h2
      simp only [hrun2]
      have RF2 : RepF h2' fp (withRS e rq syn) := ⟨o, by rw [hm2]; exact ho, by simpa using R2⟩
      obtain ⟨h3, hrun3, R3⟩ := loop3_sim hA fp need' need' [] 0 (withRS e rq syn) h2' fuel rfl rfl RF2 (by omega)
      simp only [hrun3]
      obtain ⟨h4, hrun4, R4⟩ := hS h3 fp _ fuel R3 (by omega)
      simp only [hrun4, pure, Except.pure]
      exact ⟨h4, rfl, R4⟩

end ModVerif.Tie.FnEditSetC
