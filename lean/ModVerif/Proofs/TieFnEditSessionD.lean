/-
  Composition of the FnEdit ties, part D (agent edit-session): reading a represented heap back.

  * `fileM_rep`: the driver's `fileM` of a heap that represents `e` is the model file `e.f` with the `lineId`s of the typed
    entries zeroed (`FnEditStmtEx.zeroIds`; the syntax tree is read back exactly, edit-rep's `RepSyn.synM`);
  * `dumpMod_zeroIds`: the typed dump does not look at the `lineId`s.
-/
import ModVerif.Proofs.TieFnEditSessionC
import ModVerif.Proofs.TieFnEditStmtEx
set_option linter.unusedSimpArgs false
set_option linter.unusedVariables false
namespace ModVerif.Tie.FnEditSessionD
open ModVerif ModVerif.GoRt ModVerif.Generated.Edit ModVerif.Tie.FnEditRep
open ModVerif.Modfile.Edit (EFile)
open ModVerif.Tie.FnEditStmtEx (zeroIds)
open ModVerif.Drv.GenEdit (fileM getAll)

theorem toOption_ok {ε α : Type} (a : α) : (Except.ok a : Except ε α).toOption = some a := rfl

theorem getAll_rep {α β : Type} {objs : List α} {g : β → α} {id : β → Nat} {nl : Nat} :
    ∀ {ps : List Int} {xs : List β}, REntsL objs g id nl ps xs → getAll objs ps = some (xs.map g)
  | [], [], _ => rfl
  | p :: ps, x :: xs, h => by
    have ih := getAll_rep h.2
    unfold getAll at ih ⊢
    rw [List.mapM_cons, h.1.1, ih]
    rfl
  | [], _ :: _, h => h.elim
  | _ :: _, [], h => h.elim

theorem ropt_ne {α β : Type} {objs : List α} {g : β → α} {id : β → Nat} {nl : Nat} {p : Int} {x : β}
    (h : ROpt objs g id nl p (some x)) : (p == 0) = false := by
  have := heapGet_pos h.1
  simp only [beq_eq_false_iff_ne, ne_eq]
  omega

/-- **the driver's read-back of a represented heap is the model file** (typed `lineId`s are not read back) -/
theorem fileM_rep {h : Heap} {fp : Int} {e : EFile} (R : RepF h fp e) : fileM h fp = some (zeroIds e.f) := by
  obtain ⟨o, ho, RA⟩ := R
  have hsyn := RA.syn.synM
  have hgd := getAll_rep RA.godebug.rel
  have hrq := getAll_rep RA.require.rel
  have hex := getAll_rep RA.exclude.rel
  have hrp := getAll_rep RA.replace.rel
  have hrt := getAll_rep RA.retract.rel
  have htl := getAll_rep RA.tool.rel
  have hmod : (if (o.Module == 0) = true then some none else do
      let m ← (heapGet h.modules o.Module).toOption
      pure (some ({ mod := { path := m.Mod.Path, version := m.Mod.Version }, deprecated := m.Deprecated, lineId := 0 } : Modfile.Module))) =
      some (e.f.module.map fun m => { m with lineId := 0 }) := by
    have hm := RA.module
    cases hmm : e.f.module with
    | none => rw [hmm] at hm; simp only [ROpt] at hm; simp [hm]
    | some m =>
      rw [hmm] at hm
      simp only [ropt_ne hm, Bool.false_eq_true, if_false, hm.1, toOption_ok, Option.map_some]
      rfl
  have hgo : (if (o.Go == 0) = true then some none else do
      let g ← (heapGet h.gos o.Go).toOption
      pure (some ({ version := g.Version, lineId := 0 } : Modfile.Go))) =
      some (e.f.go.map fun g => { g with lineId := 0 }) := by
    have hm := RA.go
    cases hmm : e.f.go with
    | none => rw [hmm] at hm; simp only [ROpt] at hm; simp [hm]
    | some m =>
      rw [hmm] at hm
      simp only [ropt_ne hm, Bool.false_eq_true, if_false, hm.1, toOption_ok, Option.map_some]
      rfl
  have htc : (if (o.Toolchain == 0) = true then some none else do
      let t ← (heapGet h.toolchains o.Toolchain).toOption
      pure (some ({ name := t.Name, lineId := 0 } : Modfile.Toolchain))) =
      some (e.f.toolchain.map fun t => { t with lineId := 0 }) := by
    have hm := RA.toolchain
    cases hmm : e.f.toolchain with
    | none => rw [hmm] at hm; simp only [ROpt] at hm; simp [hm]
    | some m =>
      rw [hmm] at hm
      simp only [ropt_ne hm, Bool.false_eq_true, if_false, hm.1, toOption_ok, Option.map_some]
      rfl
  unfold fileM
  simp only [Option.bind_eq_bind, Option.pure_def, bind, pure] at hmod hgo htc ⊢
  simp only [ho, toOption_ok, hsyn, hmod, hgo, htc, hgd, hrq, hex, hrp, hrt, htl, Option.bind_eq_bind, Option.bind_some,
    Option.pure_def, bind, pure, List.map_map]
  rfl

/-! ### the dump does not read line ids -/

open ModVerif.Drv.Edit.M (dumpMod encSorted)
open ModVerif.Drv.Edit (encScalar)

theorem encSorted_congr {α : Type} {enc : α → String} {l' : List α} (l : List α) (h : l'.map enc = l.map enc) :
    encSorted enc l' = encSorted enc l := by
  unfold encSorted
  have h1 : l'.isEmpty = l.isEmpty := by
    have := congrArg List.length h
    simp only [List.length_map] at this
    cases l' <;> cases l <;> simp_all
  rw [h1, h]

theorem dumpMod_zeroIds (f : Modfile.File) : dumpMod (zeroIds f) = dumpMod f := by
  unfold dumpMod zeroIds
  simp only [Option.map_map]
  rw [encSorted_congr f.godebug, encSorted_congr f.require, encSorted_congr f.exclude, encSorted_congr f.replace,
    encSorted_congr f.retract, encSorted_congr f.tool]
  · rfl
  all_goals (rw [List.map_map]; rfl)

theorem zeroIds_syn (f : Modfile.File) : (zeroIds f).syn = f.syn := rfl

end ModVerif.Tie.FnEditSessionD
