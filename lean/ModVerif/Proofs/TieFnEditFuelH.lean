/-
  Closed fuel of the FnEdit session ties, part H (agent edit-fuel2): the NUMBER of tokens of the whole tree of the go.mod parser
  model is at most the input length — every token that lands in a line or a block head is a non-EOF token, paid by the count
  potential `Cn` (the same proofs as part G with `Cn` for `Bp` and `length` for `tsum`); and with rule-fuel's `parse_w`
  (statements + lines ≤ |data| + 1) and part G (token bytes ≤ |data|):
      `treeW_parse_le : parse name data = .ok fs → treeW fs.stmts ≤ 4 * data.length + 1`.
-/
import ModVerif.Proofs.TieFnEditFuelG
import ModVerif.Proofs.TieFnEditFuelA
set_option linter.unusedSimpArgs false
set_option linter.unusedVariables false
namespace ModVerif.Tie.FnEditFuelH
open ModVerif ModVerif.Modfile ModVerif.Tie.FnRuleFuelA ModVerif.Tie.FnRuleFuelB ModVerif.Tie.FnRuleFuelC

/-- number of tokens of a list of lines -/
def LC (ls : List Line) : Nat := (ls.map fun l => l.token.length).sum

@[simp] theorem LC_nil : LC [] = 0 := rfl
@[simp] theorem LC_cons (l : Line) (ls : List Line) : LC (l :: ls) = l.token.length + LC ls := by simp [LC]
@[simp] theorem LC_append (a b : List Line) : LC (a ++ b) = LC a + LC b := by
  induction a with
  | nil => simp
  | cons x xs ih => simp [ih]; omega
@[simp] theorem LC_reverse (a : List Line) : LC a.reverse = LC a := by
  induction a with
  | nil => rfl
  | cons x xs ih => simp [ih]; omega

/-- number of tokens of a statement: the tokens of a line; the head tokens of a block and the tokens of its lines -/
def EC : Expr → Nat
  | .line l => l.token.length
  | .lineBlock b => b.token.length + LC b.lines
  | _ => 0
def ECs (ss : List Expr) : Nat := (ss.map EC).sum

@[simp] theorem ECs_nil : ECs [] = 0 := rfl
@[simp] theorem ECs_cons (s : Expr) (ss : List Expr) : ECs (s :: ss) = EC s + ECs ss := by simp [ECs]
@[simp] theorem ECs_append (a b : List Expr) : ECs (a ++ b) = ECs a + ECs b := by
  induction a with
  | nil => simp
  | cons x xs ih => simp [ih]; omega
@[simp] theorem ECs_reverse (a : List Expr) : ECs a.reverse = ECs a := by
  induction a with
  | nil => rfl
  | cons x xs ih => simp [ih]; omega

theorem EC_setComments (s : Expr) (cs : Comments) : EC (s.setComments cs) = EC s := by
  cases s <;> rfl


theorem isEOL_eof {i : Input} (h : ¬ i.token.kind.isEOL = true) : pc i = 1 :=
  pc_of_kind (by intro he; rw [he] at h; exact h rfl)

theorem parseLineLoop_c : ∀ (fuel : Nat) (i : Input) (s e : Position) (ts : List Bytes) (l : Line) (i' : Input),
    parseLineLoop fuel i s e ts = .ok (l, i') → l.token.length + Cn i' ≤ ts.length + Cn i := by
  intro fuel
  induction fuel with
  | zero => intro i s e ts l i' h; simp [parseLineLoop] at h
  | succ n ih =>
    intro i s e ts l i' h
    unfold parseLineLoop at h
    cases hl : lex i with
    | error e => simp [hl, bind, Except.bind] at h
    | ok v =>
      obtain ⟨tok, i1⟩ := v
      obtain ⟨rfl, b1, c1⟩ := lex_w hl
      simp only [hl, bind, Except.bind] at h
      split at h
      · simp only [Except.ok.injEq, Prod.mk.injEq] at h
        obtain ⟨rfl, rfl⟩ := h
        simp only [List.length_reverse, Cn_nextId]; omega
      · rename_i hk
        have hp := isEOL_eof hk
        have a := ih _ _ _ _ _ _ h
        simp only [List.length_cons] at a
        omega

theorem parseLine_c {fuel : Nat} {i : Input} {l : Line} {i' : Input} (h : parseLine fuel i = .ok (l, i')) :
    l.token.length + Cn i' ≤ Cn i := by
  unfold parseLine at h
  cases hl : lex i with
  | error e => simp [hl, bind, Except.bind] at h
  | ok v =>
    obtain ⟨tok, i1⟩ := v
    obtain ⟨rfl, b1, c1⟩ := lex_w hl
    simp only [hl, bind, Except.bind] at h
    split at h
    · cases h
    · rename_i hk
      have hp := isEOL_eof hk
      have a := parseLineLoop_c _ _ _ _ _ _ _ h
      simp only [List.length_cons, List.length_nil] at a
      omega

theorem parseLineBlockLoop_c : ∀ (fuel : Nat) (i : Input) (x : LineBlock) (ls : List Line) (cs : List Comment)
    (b : LineBlock) (i' : Input), parseLineBlockLoop fuel i x ls cs = .ok (b, i') →
    LC b.lines + Cn i' ≤ LC ls + Cn i ∧ b.token = x.token := by
  intro fuel
  induction fuel with
  | zero => intro i x ls cs b i' h; simp [parseLineBlockLoop] at h
  | succ n ih =>
    intro i x ls cs b i' h
    unfold parseLineBlockLoop at h
    split at h
    · cases hl : lex i with
      | error e => simp [hl, bind, Except.bind] at h
      | ok v =>
        obtain ⟨tok, i1⟩ := v
        obtain ⟨_, b1, c1⟩ := lex_w hl
        simp only [hl, bind, Except.bind] at h
        obtain ⟨a1, a2⟩ := ih _ _ _ _ _ _ h
        exact ⟨by omega, a2⟩
    · cases hl : lex i with
      | error e => simp [hl, bind, Except.bind] at h
      | ok v =>
        obtain ⟨tok, i1⟩ := v
        obtain ⟨_, b1, c1⟩ := lex_w hl
        simp only [hl, bind, Except.bind] at h
        obtain ⟨a1, a2⟩ := ih _ _ _ _ _ _ h
        exact ⟨by omega, a2⟩
    · cases hl : lex i with
      | error e => simp [hl, bind, Except.bind] at h
      | ok v =>
        obtain ⟨tok, i1⟩ := v
        obtain ⟨_, b1, c1⟩ := lex_w hl
        simp only [hl, bind, Except.bind] at h
        obtain ⟨a1, a2⟩ := ih _ _ _ _ _ _ h
        exact ⟨by omega, a2⟩
    · cases h
    · cases hl : lex i with
      | error e => simp [hl, bind, Except.bind] at h
      | ok v =>
        obtain ⟨tok, i1⟩ := v
        obtain ⟨_, b1, c1⟩ := lex_w hl
        simp only [hl, bind, Except.bind] at h
        split at h
        · cases h
        · cases hl2 : lex i1 with
          | error e => simp [hl2] at h
          | ok v2 =>
            obtain ⟨tok2, i2⟩ := v2
            obtain ⟨_, b2, c2⟩ := lex_w hl2
            simp only [hl2, Except.ok.injEq, Prod.mk.injEq] at h
            obtain ⟨rfl, rfl⟩ := h
            refine ⟨?_, rfl⟩
            simp only [LC_reverse]
            omega
    · cases hp : parseLine (n + 1) i with
      | error e => simp [hp, bind, Except.bind] at h
      | ok v =>
        obtain ⟨l, i1⟩ := v
        have p1 := parseLine_c hp
        simp only [hp, bind, Except.bind] at h
        obtain ⟨a1, a2⟩ := ih _ _ _ _ _ _ h
        simp only [LC_cons] at a1
        exact ⟨by omega, a2⟩

theorem parseStmtLoop_c : ∀ (fuel : Nat) (i : Input) (s e : Position) (ts : List Bytes) (x : Expr) (i' : Input),
    parseStmtLoop fuel i s e ts = .ok (x, i') → EC x + Cn i' ≤ ts.length + Cn i := by
  intro fuel
  induction fuel with
  | zero => intro i s e ts x i' h; simp [parseStmtLoop] at h
  | succ n ih =>
    intro i s e ts x i' h
    unfold parseStmtLoop at h
    cases hl : lex i with
    | error e => simp [hl, bind, Except.bind] at h
    | ok v =>
      obtain ⟨tok, i1⟩ := v
      obtain ⟨rfl, b1, c1⟩ := lex_w hl
      simp only [hl, bind, Except.bind] at h
      split at h
      · simp only [Except.ok.injEq, Prod.mk.injEq] at h
        obtain ⟨rfl, rfl⟩ := h
        simp only [EC, Cn_nextId, List.length_reverse]
        omega
      · rename_i hk
        have hp := isEOL_eof hk
        split at h
        · split at h
          · unfold parseLineBlock at h
            cases hb : parseLineBlockLoop (n + 1) i1 { start := s, token := ts.reverse, lparen := { pos := i.token.pos } } [] [] with
            | error e => simp [hb] at h
            | ok v =>
              obtain ⟨b, i2⟩ := v
              simp only [hb, Except.ok.injEq, Prod.mk.injEq] at h
              obtain ⟨rfl, rfl⟩ := h
              obtain ⟨a1, a2⟩ := parseLineBlockLoop_c _ _ _ _ _ _ _ hb
              simp only [LC_nil] at a1
              simp only [EC, a2, List.length_reverse]
              omega
          · split at h
            · rename_i hk2
              have hp1 : pc i1 = 1 := pc_of_kind (by intro he; unfold Input.peek at hk2; rw [he] at hk2; cases hk2)
              cases hl2 : lex i1 with
              | error e => simp [hl2] at h
              | ok v2 =>
                obtain ⟨rp, i2⟩ := v2
                obtain ⟨rfl, b2, c2⟩ := lex_w hl2
                simp only [hl2] at h
                split at h
                · cases hl3 : lex i2 with
                  | error e => simp [hl3] at h
                  | ok v3 =>
                    obtain ⟨tok3, i3⟩ := v3
                    obtain ⟨_, b3, c3⟩ := lex_w hl3
                    simp only [hl3, Except.ok.injEq, Prod.mk.injEq] at h
                    obtain ⟨rfl, rfl⟩ := h
                    simp only [EC, LC_nil, List.length_reverse]
                    omega
                · have a1 := ih _ _ _ _ _ _ h
                  simp only [List.length_cons] at a1
                  omega
            · have a1 := ih _ _ _ _ _ _ h
              simp only [List.length_cons] at a1
              omega
        · have a1 := ih _ _ _ _ _ _ h
          simp only [List.length_cons] at a1
          omega

theorem parseStmt_c {fuel : Nat} {i : Input} {x : Expr} {i' : Input} (h : parseStmt fuel i = .ok (x, i')) (hp : pc i = 1) :
    EC x + Cn i' ≤ Cn i := by
  unfold parseStmt at h
  cases hl : lex i with
  | error e => simp [hl, bind, Except.bind] at h
  | ok v =>
    obtain ⟨tok, i1⟩ := v
    obtain ⟨rfl, b1, c1⟩ := lex_w hl
    simp only [hl, bind, Except.bind] at h
    have a1 := parseStmtLoop_c _ _ _ _ _ _ _ h
    simp only [List.length_cons, List.length_nil] at a1
    omega

theorem parseFileLoop_c : ∀ (fuel : Nat) (i : Input) (sr : List Expr) (cb : Option CommentBlock) (ss : List Expr) (i' : Input),
    parseFileLoop fuel i sr cb = .ok (ss, i') → ECs ss + Cn i' ≤ ECs sr + Cn i := by
  intro fuel
  induction fuel with
  | zero => intro i sr cb ss i' h; simp [parseFileLoop] at h
  | succ n ih =>
    intro i sr cb ss i' h
    unfold parseFileLoop at h
    split at h
    · cases hl : lex i with
      | error e => simp [hl, bind, Except.bind] at h
      | ok v =>
        obtain ⟨tok, i1⟩ := v
        obtain ⟨_, b1, c1⟩ := lex_w hl
        simp only [hl, bind, Except.bind] at h
        cases cb with
        | none => have a1 := ih _ _ _ _ _ h; omega
        | some c =>
          have a1 := ih _ _ _ _ _ h
          simp only [ECs_cons, EC] at a1
          omega
    · cases hl : lex i with
      | error e => simp [hl, bind, Except.bind] at h
      | ok v =>
        obtain ⟨tok, i1⟩ := v
        obtain ⟨_, b1, c1⟩ := lex_w hl
        simp only [hl, bind, Except.bind] at h
        have a1 := ih _ _ _ _ _ h
        omega
    · cases cb with
      | none =>
        simp only [Except.ok.injEq, Prod.mk.injEq] at h
        obtain ⟨rfl, rfl⟩ := h
        simp only [ECs_reverse]; omega
      | some c =>
        simp only [Except.ok.injEq, Prod.mk.injEq] at h
        obtain ⟨rfl, rfl⟩ := h
        simp only [ECs_reverse, ECs_cons, EC]; omega
    · cases hs : parseStmt (n + 1) i with
      | error e => simp [hs, bind, Except.bind] at h
      | ok v =>
        obtain ⟨x, i1⟩ := v
        rename_i hk1 hk2 hk3
        have hp : pc i = 1 := pc_of_kind (by intro he; unfold Input.peek at hk3; exact hk3 he)
        have p1 := parseStmt_c hs hp
        simp only [hs, bind, Except.bind] at h
        cases cb with
        | none =>
          have a1 := ih _ _ _ _ _ h
          simp only [ECs_cons] at a1
          omega
        | some c =>
          have a1 := ih _ _ _ _ _ h
          simp only [ECs_cons, EC_setComments] at a1
          omega

/-- **the tokens of the WHOLE tree are paid by the input**: their summed byte length is at most `data.length` -/
theorem parseFile_cnt {data : Bytes} {ss : List Expr} {i : Input} (h : parseFile data = .ok (ss, i)) :
    ECs ss ≤ data.length := by
  unfold parseFile at h
  cases h0 : readToken (newInput data) with
  | error e => simp [h0, bind, Except.bind] at h
  | ok i0 =>
    simp only [h0, bind, Except.bind] at h
    obtain ⟨b0, c0⟩ := readToken_w h0
    have hr : (newInput data).remaining.length = data.length := rfl
    have hc : (newInput data).commentsRev.length = 0 := rfl
    rw [hr, hc] at c0
    have a1 := parseFileLoop_c _ _ _ _ _ _ h
    simp only [ECs_nil] at a1
    omega

/-! ### comment assignment keeps the tokens -/

theorem LC_of_map {ls ls' : List Line} (hm : ls'.map (·.token) = ls.map (·.token)) : LC ls' = LC ls := by
  have : ∀ l : List Line, LC l = ((l.map (·.token)).map List.length).sum := by
    intro l; simp [LC, List.map_map, Function.comp_def]
  rw [this, this, hm]

theorem preStmt_c (s s' : Expr) (line r : List Comment) (h : preStmt s line = (s', r)) : EC s' = EC s := by
  cases s with
  | lineBlock b =>
    unfold preStmt at h
    simp only at h
    cases h1 : assignBefore b.start b.comments line with
    | mk c r1 =>
      cases h2 : assignBefore b.lparen.pos b.lparen.comments r1 with
      | mk lc r2 =>
        cases h3 : preLines b.lines r2 with
        | mk ls r3 =>
          cases h4 : assignBefore b.rparen.pos b.rparen.comments r3 with
          | mk rc r4 =>
            simp only [h1, h2, h3, h4, Prod.mk.injEq] at h
            obtain ⟨rfl, rfl⟩ := h
            obtain ⟨e3, e3'⟩ := preLines_w _ _ _ _ h3
            simp only [EC, LC_of_map e3']
  | commentBlock x =>
    unfold preStmt at h
    cases h1 : assignBefore (Expr.commentBlock x).span.1 (Expr.commentBlock x).comments line with
    | mk c r1 =>
      simp only [h1, Prod.mk.injEq] at h
      obtain ⟨rfl, rfl⟩ := h
      exact EC_setComments _ _
  | line x =>
    unfold preStmt at h
    cases h1 : assignBefore (Expr.line x).span.1 (Expr.line x).comments line with
    | mk c r1 =>
      simp only [h1, Prod.mk.injEq] at h
      obtain ⟨rfl, rfl⟩ := h
      exact EC_setComments _ _
  | lparen x =>
    unfold preStmt at h
    cases h1 : assignBefore (Expr.lparen x).span.1 (Expr.lparen x).comments line with
    | mk c r1 =>
      simp only [h1, Prod.mk.injEq] at h
      obtain ⟨rfl, rfl⟩ := h
      exact EC_setComments _ _
  | rparen x =>
    unfold preStmt at h
    cases h1 : assignBefore (Expr.rparen x).span.1 (Expr.rparen x).comments line with
    | mk c r1 =>
      simp only [h1, Prod.mk.injEq] at h
      obtain ⟨rfl, rfl⟩ := h
      exact EC_setComments _ _

theorem postStmt_c (s s' : Expr) (suf r : List Comment) (h : postStmt s suf = (s', r)) : EC s' = EC s := by
  cases s with
  | lineBlock b =>
    unfold postStmt at h
    simp only at h
    cases h1 : assignSuffix (Expr.lineBlock b).span b.comments suf with
    | mk c r1 =>
      cases h2 : assignSuffix (Expr.rparen b.rparen).span b.rparen.comments r1 with
      | mk rc r2 =>
        cases h3 : postLinesRev b.lines.reverse r2 with
        | mk lsRev r3 =>
          cases h4 : assignSuffix (Expr.lparen b.lparen).span b.lparen.comments r3 with
          | mk lc r4 =>
            simp only [h1, h2, h3, h4, Prod.mk.injEq] at h
            obtain ⟨rfl, rfl⟩ := h
            obtain ⟨e3, e3'⟩ := postLinesRev_w _ _ _ _ h3
            simp only [EC, LC_reverse, LC_of_map e3']
  | commentBlock x =>
    unfold postStmt at h
    cases h1 : assignSuffix (Expr.commentBlock x).span (Expr.commentBlock x).comments suf with
    | mk c r1 =>
      simp only [h1, Prod.mk.injEq] at h
      obtain ⟨rfl, rfl⟩ := h
      exact EC_setComments _ _
  | line x =>
    unfold postStmt at h
    cases h1 : assignSuffix (Expr.line x).span (Expr.line x).comments suf with
    | mk c r1 =>
      simp only [h1, Prod.mk.injEq] at h
      obtain ⟨rfl, rfl⟩ := h
      exact EC_setComments _ _
  | lparen x =>
    unfold postStmt at h
    cases h1 : assignSuffix (Expr.lparen x).span (Expr.lparen x).comments suf with
    | mk c r1 =>
      simp only [h1, Prod.mk.injEq] at h
      obtain ⟨rfl, rfl⟩ := h
      exact EC_setComments _ _
  | rparen x =>
    unfold postStmt at h
    cases h1 : assignSuffix (Expr.rparen x).span (Expr.rparen x).comments suf with
    | mk c r1 =>
      simp only [h1, Prod.mk.injEq] at h
      obtain ⟨rfl, rfl⟩ := h
      exact EC_setComments _ _

theorem preStmts_c : ∀ (ss ss' : List Expr) (line r : List Comment), preStmts ss line = (ss', r) → ECs ss' = ECs ss := by
  intro ss
  induction ss with
  | nil => intro ss' line r h; simp [preStmts] at h; obtain ⟨rfl, rfl⟩ := h; simp
  | cons s ss ih =>
    intro ss' line r h
    unfold preStmts at h
    cases h1 : preStmt s line with
    | mk s1 r1 =>
      cases h2 : preStmts ss r1 with
      | mk ss2 r2 =>
        simp only [h1, h2, Prod.mk.injEq] at h
        obtain ⟨rfl, rfl⟩ := h
        simp only [ECs_cons, preStmt_c _ _ _ _ h1, ih ss2 r1 r2 h2]

theorem postStmtsRev_c : ∀ (ss ss' : List Expr) (suf r : List Comment), postStmtsRev ss suf = (ss', r) → ECs ss' = ECs ss := by
  intro ss
  induction ss with
  | nil => intro ss' suf r h; simp [postStmtsRev] at h; obtain ⟨rfl, rfl⟩ := h; simp
  | cons s ss ih =>
    intro ss' suf r h
    unfold postStmtsRev at h
    cases h1 : postStmt s suf with
    | mk s1 r1 =>
      cases h2 : postStmtsRev ss r1 with
      | mk ss2 r2 =>
        simp only [h1, h2, Prod.mk.injEq] at h
        obtain ⟨rfl, rfl⟩ := h
        simp only [ECs_cons, postStmt_c _ _ _ _ h1, ih ss2 r1 r2 h2]

theorem assignComments_c (f : FileSyntax) (cs : List Comment) : ECs (assignComments f cs).stmts = ECs f.stmts := by
  unfold assignComments
  cases h0 : assignBefore f.span.1 f.comments (cs.filter (!·.suffix)) with
  | mk fc r0 =>
    cases h1 : preStmts f.stmts r0 with
    | mk st1 r1 =>
      cases h2 : postStmtsRev st1.reverse (cs.filter (·.suffix)).reverse with
      | mk st2 r2 =>
        simp only [h0, h1, h2]
        have e1 := preStmts_c _ _ _ _ h1
        have e2 := postStmtsRev_c _ _ _ _ h2
        simp only [ECs_reverse] at e2 ⊢
        omega

/-- **the tokens of the whole parsed tree (after comment assignment) sum to at most the input length** -/
theorem parse_cnt {name data : Bytes} {fs : FileSyntax} (h : parse name data = .ok fs) : ECs fs.stmts ≤ data.length := by
  unfold parse at h
  cases hp : parseFile data with
  | error e => simp [hp, bind, Except.bind] at h
  | ok v =>
    obtain ⟨ss, i⟩ := v
    simp only [hp, bind, Except.bind, Except.ok.injEq] at h
    subst h
    have a1 := parseFile_cnt hp
    have b1 := assignComments_c { name := name, stmts := ss } i.commentsRev.reverse
    simp only at b1
    omega

/-! ### the tree weight of the parse -/

open ModVerif.Tie.FnEditFuelA ModVerif.Tie.FnEditFuelG

theorem tokW_eq (t : List Bytes) : tokW t = 2 * tsum t + t.length := rfl

theorem linesW_le : ∀ ls : List Line, linesW ls ≤ 2 * LT ls + LC ls + NLs ls
  | [] => by simp [linesW]
  | l :: ls => by
    have := linesW_le ls
    simp only [linesW, lineW, tokW_eq, LT_cons, LC_cons, NLs_cons, NL]; omega

theorem exprW_le (x : Expr) : exprW x ≤ 2 * ET x + EC x + NE x := by
  cases x with
  | line l => simp only [exprW, lineW, tokW_eq, ET, EC, NE]; omega
  | lineBlock b => have := linesW_le b.lines; simp only [exprW, tokW_eq, ET, EC, NE]; omega
  | commentBlock c => simp only [exprW, ET, EC, NE]; omega
  | lparen c => simp only [exprW, ET, EC, NE]; omega
  | rparen c => simp only [exprW, ET, EC, NE]; omega

theorem treeW_le : ∀ ss : List Expr, treeW ss ≤ 2 * ETs ss + ECs ss + NEs ss
  | [] => by simp [treeW]
  | x :: ss => by
    have := treeW_le ss; have := exprW_le x
    simp only [treeW, ETs_cons, ECs_cons, NEs_cons]; omega

/-- **the weight of the parsed tree is linear in the length of the file text** -/
theorem treeW_parse_le {name data : Bytes} {fs : FileSyntax} (h : parse name data = .ok fs) :
    treeW fs.stmts ≤ 4 * data.length + 1 := by
  have h1 := parse_tok h
  have h2 := parse_cnt h
  have h3 := (parse_w h).1
  have h4 := treeW_le fs.stmts
  omega

end ModVerif.Tie.FnEditFuelH
