/-
  Helper lemmas for Tie/FnRuleAdd.lean, part D: one call of the regenerated `File.add` = the model's `File.add`, all
  verbs (`FA_step`, assembled from parts B and C through `add_eq`), under the hypothesis `AddLeaf` about the leaf calls
  the verb makes.
  Owner: rule-add.
-/
import ModVerif.Proofs.TieFnRuleAddC
set_option linter.unusedSimpArgs false
set_option linter.unusedVariables false
namespace ModVerif.Tie.FnRuleAddD
open ModVerif ModVerif.GoRt ModVerif.Generated ModVerif.Tie.FnRuleRep ModVerif.Tie.FnRuleAddA ModVerif.Tie.FnRuleAddB ModVerif.Tie.FnRuleAddC
open ModVerif.Drv.GenRule (isPrintI unquoteI laxSubI deprecatedSubI fixG)
open ModVerif.Proofs.ModfileC20 (addGo addToolchain addModule addGodebugV addReqExc addReplaceV addRetractV addToolV add_eq)

/-- what the leaf calls of `File.add` for the verb `verb` on the arguments `args` of the line at `lp` return -/
structure AddLeaf (fuel : Nat) (h : Rule.Heap) (block : Int) (bc : Option Modfile.Comments) (lp : Int) (l : Modfile.Line)
    (pre args : List Bytes) (verb : Bytes) (fx : Option Modfile.Fixer) : Prop where
  ps : verb = B "module" ∨ verb = B "tool" → ∀ a, args = [a] → PSok fuel a
  req : verb = B "require" ∨ verb = B "exclude" → ReqLeaf fuel args fx
  ii : verb = B "require" → ∀ (ls : List Rule.Line) (l' : Modfile.Line), heapGet ls lp = .ok (lineG l') → indL lp ls = .ok (Modfile.isIndirect l')
  pd : verb = B "module" → Rule.parseDeprecation deprecatedSubI fuel block lp h = .ok (Modfile.parseDeprecation bc l.comments, h)
  pdc : verb = B "retract" → Rule.parseDirectiveComment fuel block lp h = .ok (Modfile.parseDirectiveComment bc l.comments, h)
  pvi : verb = B "retract" → PVIok fuel h { owner := lp, lo := (pre.length : Int) } pre args [] (some Modfile.dontFixRetract)
  pr : verb = B "replace" → PRok fuel h lp l pre args fx

section
variable {ι : Int → Nat} {h : Rule.Heap} {fp : Int} {errs : List Rule.Error} {st : Modfile.AddState} {syn : Modfile.FileSyntax}
  {lp : Int} {l : Modfile.Line} {pre args : List Bytes}

theorem beq_B (verb : Bytes) (s : String) : (verb == B s) = decide (verb = B s) := bytes_beq_eq_decide _ _

/-- **one call of the regenerated `File.add`** on a represented state = the model's `File.add`: the new heap and in-out
    error list represent the model's new state, the tokens of the line are the model's rewritten tokens -/
theorem FA_step (R : RepRS ι h fp errs st syn) (hl : RLine ι h lp l) (htok : l.token = pre ++ args)
    (fuel : Nat) (block : Int) (bc : Option Modfile.Comments) (verb : Bytes) (fx : Option Modfile.Fixer) (strict : Bool)
    (L : AddLeaf fuel h block bc lp l pre args verb fx) :
    ∃ errs' h', FA fuel fp errs block lp verb { owner := lp, lo := (pre.length : Int) } (fixG fx) strict h = .ok (((), errs'), h') ∧
      StepPost ι h fp syn lp l pre (Modfile.File.add st bc l verb args fx strict) errs' h' := by
  rw [add_eq]
  by_cases hlax : (!strict && !Modfile.verbIn verb Modfile.laxVerbs) = true
  · simp only [hlax, if_true]
    simp only [Bool.and_eq_true, Bool.not_eq_true'] at hlax
    obtain ⟨rfl, hv⟩ := hlax
    exact FA_laxSkip R hl htok fuel block verb _ hv
  · simp only [hlax, Bool.false_eq_true, if_false]
    simp only [beq_B]
    by_cases h1 : verb = B "go"
    · subst h1; simp only [decide_true, if_true]; rw [B_go]; exact FA_go R hl htok fuel block _ strict
    simp only [h1, decide_false, Bool.false_eq_true, if_false]
    by_cases h3 : verb = B "module"
    · have h2 : verb ≠ B "toolchain" := by rw [h3]; decide +kernel
      simp only [h2, h3, decide_true, decide_false, if_true, Bool.false_eq_true, if_false,
        (by decide +kernel : ¬ (B "module" = B "toolchain"))]
      have := FA_module R hl htok fuel block bc (fixG fx) strict (L.pd h3) (L.ps (Or.inl h3))
      rw [← B_module] at this
      exact this
    by_cases h8 : verb = B "retract"
    · subst h8
      simp only [decide_true, decide_false, if_true, Bool.false_eq_true, if_false, Bool.or_false,
        (by decide +kernel : ¬ (B "retract" = B "toolchain")), (by decide +kernel : ¬ (B "retract" = B "module")),
        (by decide +kernel : ¬ (B "retract" = B "godebug")), (by decide +kernel : ¬ (B "retract" = B "require")),
        (by decide +kernel : ¬ (B "retract" = B "exclude")), (by decide +kernel : ¬ (B "retract" = B "replace"))]
      rw [B_retract]
      exact FA_retract R hl htok fuel block bc _ strict (L.pdc rfl) (L.pvi rfl)
    by_cases h5 : verb = B "require"
    · subst h5
      simp only [decide_true, decide_false, if_true, Bool.false_eq_true, if_false, Bool.or_false, Bool.true_or,
        (by decide +kernel : ¬ (B "require" = B "toolchain")), (by decide +kernel : ¬ (B "require" = B "module")),
        (by decide +kernel : ¬ (B "require" = B "godebug"))]
      have := FA_require R hl htok fuel block fx strict (L.req (Or.inl rfl)) (L.ii rfl)
      rw [← B_require] at this
      exact this
    -- the remaining verbs are not lax verbs: strict = true
    have hs : strict = true := by
      cases strict with
      | true => rfl
      | false =>
        exfalso; apply hlax
        simp only [Bool.not_false, Bool.true_and, Bool.not_eq_true', laxVerbs_iff, ← B_go, ← B_module, ← B_retract, ← B_require, h1, h3, h8, h5,
          decide_false, Bool.or_false]
    subst hs
    by_cases h2 : verb = B "toolchain"
    · subst h2; simp only [decide_true, if_true]; rw [B_toolchain]; exact FA_toolchain R hl htok fuel block _
    simp only [h2, h3, decide_false, Bool.false_eq_true, if_false]
    by_cases h4 : verb = B "godebug"
    · subst h4; simp only [decide_true, if_true]; rw [B_godebug]; exact FA_godebug R hl htok fuel block _
    simp only [h4, h5, decide_false, Bool.false_eq_true, if_false, Bool.false_or]
    by_cases h6 : verb = B "exclude"
    · subst h6; simp only [decide_true, if_true]
      have := FA_exclude R hl htok fuel block fx (L.req (Or.inr rfl))
      rw [← B_exclude] at this
      exact this
    simp only [h6, decide_false, Bool.false_eq_true, if_false]
    by_cases h7 : verb = B "replace"
    · subst h7; simp only [decide_true, if_true]; rw [B_replace]; exact FA_replace R hl htok fuel block fx (L.pr rfl)
    simp only [h7, h8, decide_false, Bool.false_eq_true, if_false]
    by_cases h9 : verb = B "tool"
    · subst h9; simp only [decide_true, if_true]; rw [B_tool]; exact FA_tool R hl htok fuel block _ (L.ps (Or.inr rfl))
    simp only [h9, decide_false, Bool.false_eq_true, if_false]
    refine FA_unknown R hl htok fuel block verb _ ?_
    simp only [Modfile.verbIn, Modfile.addVerbs, List.any_cons, List.any_nil, Bool.or_false, Bool.or_eq_false_iff, beq_eq_false_iff_ne, ne_eq]
    exact ⟨Ne.symm h1, Ne.symm h2, Ne.symm h3, Ne.symm h4, Ne.symm h5, Ne.symm h6, Ne.symm h7, Ne.symm h8, Ne.symm h9⟩
end
end ModVerif.Tie.FnRuleAddD
