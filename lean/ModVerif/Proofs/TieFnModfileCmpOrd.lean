/-
  Helper definitions and lemmas for the second half of Tie/FnModfileCmp.lean: the regenerated comparators as Boolean
  comparators on token lists (`genLess`), equal to the hand model's and hence to the specification's (EditSpec) — the
  bridge that carries the C16 order theorems over to the regenerated code.
-/
import ModVerif.Proofs.TieFnModfileCmp
import ModVerif.Props.C16
namespace ModVerif.TieFnModfileCmp
open ModVerif ModVerif.GoRt ModVerif.Modfile

/-- the line the driver (Drv/CmpOps.lean) builds from a token list -/
def mkLine (t : List Bytes) : Generated.Modfile.Line := { (default : Generated.Modfile.Line) with Token := t }

@[simp] theorem mkLine_Token (t : List Bytes) : (mkLine t).Token = t := rfl

/-- a fuel sufficient for all three comparators: loop iterations of `lineLess` + the two `semver.Compare` scans -/
def cmpFuel (a b : List Bytes) : Nat := min a.length b.length + 1 + 2 * tokBytes (a ++ b)

/-- The Boolean comparator on token lists computed by a regenerated comparator `f`, run with fuel `fuelOf a b`
    (an error — panic or fuel exhaustion — would count as `false`; the tie theorems show there is none). -/
def genLess (fuelOf : List Bytes → List Bytes → Nat)
    (f : Nat → Generated.Modfile.Line → Generated.Modfile.Line → M Bool) (a b : List Bytes) : Bool :=
  match f (fuelOf a b) (mkLine a) (mkLine b) with
  | .ok v => v
  | .error _ => false

theorem cmpFuel_lineLess (a b : List Bytes) : min a.length b.length + 1 ≤ cmpFuel a b := by
  unfold cmpFuel; omega

theorem cmpFuel_getD (a b : List Bytes) (k : Nat) :
    2 * max (a.getD k []).length (b.getD k []).length ≤ cmpFuel a b := by
  have h1 := getD_length_le_tokBytes a k
  have h2 := getD_length_le_tokBytes b k
  unfold cmpFuel; rw [tokBytes_append]; omega

theorem cmpFuel_interval (a b : List Bytes) :
    2 * max (Edit.retractInterval a).low.length (Edit.retractInterval b).low.length ≤ cmpFuel a b ∧
    2 * max (Edit.retractInterval a).high.length (Edit.retractInterval b).high.length ≤ cmpFuel a b := by
  have h1 := retractInterval_le_tokBytes a
  have h2 := retractInterval_le_tokBytes b
  unfold cmpFuel; rw [tokBytes_append]; omega

theorem genLess_lineLess (fuelOf : List Bytes → List Bytes → Nat) (hfu : ∀ a b, cmpFuel a b ≤ fuelOf a b) :
    genLess fuelOf Generated.Modfile.lineLess = EditSpec.lineLess := by
  funext a b
  unfold genLess
  rw [lineLess_ok _ _ _ (by simpa using Nat.le_trans (cmpFuel_lineLess a b) (hfu a b))]
  exact Edit.lineLess_eq_spec a b

theorem genLess_lineExcludeLess (fuelOf : List Bytes → List Bytes → Nat) (hfu : ∀ a b, cmpFuel a b ≤ fuelOf a b) :
    genLess fuelOf Generated.Modfile.lineExcludeLess = EditSpec.lineExcludeLess := by
  funext a b
  unfold genLess
  rw [lineExcludeLess_ok _ _ _ (by simpa using Nat.le_trans (cmpFuel_lineLess a b) (hfu a b))
    (by simpa using Nat.le_trans (cmpFuel_getD a b 1) (hfu a b))]
  exact Edit.lineExcludeLess_model_eq_spec a b

theorem genLess_lineRetractLess (fuelOf : List Bytes → List Bytes → Nat) (hfu : ∀ a b, cmpFuel a b ≤ fuelOf a b) :
    genLess fuelOf Generated.Modfile.lineRetractLess = EditSpec.lineRetractLess := by
  funext a b
  unfold genLess
  rw [lineRetractLess_ok _ _ _ (by simpa using Nat.le_trans (cmpFuel_interval a b).1 (hfu a b))
    (by simpa using Nat.le_trans (cmpFuel_interval a b).2 (hfu a b))]
  exact Edit.lineRetractLess_eq_spec a b

end ModVerif.TieFnModfileCmp
