/-
  C09 ★ `SplitStoredHashIndex` is the inverse of `StoredHashIndex` and is total on the int64 range:
  the "bad math" panic is unreachable, the loop stops at the record `n` with `S n ≤ index < S (n+1)` after at
  most `(log2 index)/2 + 2` iterations (the model's fuel `log2 index + 3` is never exhausted).
-/
import ModVerif.Proofs.TlogStoreMth
namespace ModVerif.TlogStore
open ModVerif ModVerif.Tlog ModVerif.RFC6962

/-! ### `S n = StoredHashIndex(0, n)` is strictly increasing, between `2n - log2 n - 1` and `2n` -/

theorem S_lt_succ (n : Nat) : S n < S (n + 1) := by rw [S_succ]; omega

theorem S_mono : ∀ m n, n ≤ m → S n ≤ S m := by
  intro m
  induction m with
  | zero => intro n h; have : n = 0 := by omega
            subst this; exact Nat.le_refl _
  | succ m ih =>
    intro n h
    by_cases e : n = m + 1
    · subst e; exact Nat.le_refl _
    · have := ih n (by omega)
      have := S_lt_succ m
      omega

theorem S_strict (n m : Nat) (h : n < m) : S n < S m :=
  Nat.lt_of_lt_of_le (S_lt_succ n) (S_mono m (n + 1) h)

theorem lt_of_S_lt (a b : Nat) (h : S a < S b) : a < b := by
  apply Nat.lt_of_not_le
  intro hc
  have := S_mono a b hc
  omega

theorem le_S (n : Nat) : n ≤ S n := by
  cases n with
  | zero => exact Nat.zero_le _
  | succ m => rw [S_pos (m + 1) (by omega)]; omega

/-- every position belongs to exactly one record: `S n ≤ index < S (n+1)` -/
theorem exists_record : ∀ index, ∃ n, S n ≤ index ∧ index < S (n + 1) := by
  intro index
  induction index with
  | zero => exact ⟨0, by simp [S_zero], S_lt_succ 0⟩
  | succ i ih =>
    obtain ⟨n, h1, h2⟩ := ih
    by_cases h : i + 1 < S (n + 1)
    · exact ⟨n, by omega, h⟩
    · exact ⟨n + 1, by omega, by have := S_lt_succ (n + 1); omega⟩

theorem log2_mono (a b : Nat) (h : a ≤ b) : a.log2 ≤ b.log2 := by
  by_cases ha : a = 0
  · subst ha; simp
  · have hb : b ≠ 0 := by omega
    apply (Nat.le_log2 hb).mpr
    have := (Nat.le_log2 ha (k := a.log2)).mp (Nat.le_refl _)
    omega

/-- `StoredHashIndex(0, n) = 2n - popcount n ≥ 2n - log2 n - 1` -/
theorem S_lower : ∀ n, 2 * n ≤ S n + n.log2 + 1 := by
  intro n
  induction n using Nat.strongRecOn with
  | _ n ih =>
    by_cases h2 : 2 ≤ n
    · have := ih (n / 2) (by omega)
      rw [S_pos n (by omega), Nat.log2_def n]
      simp only [h2, ↓reduceIte]
      omega
    · by_cases h0 : n = 0
      · subst h0; simp
      · have : n = 1 := by omega
        subst this
        rw [S_pos 1 (by omega)]
        simp [S_zero]

/-! ### the loop -/

/-- from record `n` the loop walks up to the record `n + d` that contains `index` -/
theorem splitLoop_spec (index : Nat) : ∀ d n f, S (n + d) ≤ index → index < S (n + d + 1) → d < f →
    n + d + 1 < 2 ^ 64 → splitLoop index f n (S n) = .ok (n + d, S (n + d)) := by
  intro d
  induction d with
  | zero =>
    intro n f h1 h2 h3 hr
    cases f with
    | zero => omega
    | succ f =>
      unfold splitLoop
      rw [trailingZeros64_eq_tz (n + 1) (by omega) (by omega), ← S_succ]
      simp only [Nat.add_zero] at h1 h2 ⊢
      simp [h2]
  | succ d ih =>
    intro n f h1 h2 h3 hr
    cases f with
    | zero => omega
    | succ f =>
      unfold splitLoop
      rw [trailingZeros64_eq_tz (n + 1) (by omega) (by omega), ← S_succ]
      have e : n + (d + 1) = n + 1 + d := by omega
      have hle : S (n + 1) ≤ index := Nat.le_trans (S_mono (n + (d + 1)) (n + 1) (by omega)) h1
      have hng : ¬ S (n + 1) > index := by omega
      simp only [hng, ↓reduceIte]
      rw [e] at h1 h2 ⊢
      exact ih (n + 1) f h1 h2 (by omega) (by omega)

/-- `SplitStoredHashIndex(index)` for the record `n` that contains `index` -/
theorem splitStoredHashIndex_spec (index n : Nat) (h1 : S n ≤ index) (h2 : index < S (n + 1)) (hr : index < 2 ^ 63) :
    splitStoredHashIndex index = .ok (index - S n, n >>> (index - S n)) := by
  unfold splitStoredHashIndex
  simp only [storedHashIndex_zero_eq]
  have hg : ¬ S (index / 2) > index := by have := S_le_two_mul (index / 2); omega
  simp only [hg, ↓reduceIte]
  have hstart : index / 2 ≤ n := by
    have : index / 2 < n + 1 := lt_of_S_lt _ _ (by omega)
    omega
  have hn : n ≤ index := Nat.le_trans (le_S n) h1
  have hlow := S_lower n
  have hlog := log2_mono n index hn
  have hloop := splitLoop_spec index (n - index / 2) (index / 2) (index.log2 + 3)
    (by rw [Nat.add_sub_cancel' hstart]; exact h1) (by rw [Nat.add_sub_cancel' hstart]; exact h2)
    (by omega) (by omega)
  rw [Nat.add_sub_cancel' hstart] at hloop
  rw [hloop]
  rfl

/-! ### the bijection -/

/-- ★ `StoredHashIndex(SplitStoredHashIndex(p)) = p` -/
theorem storedHashIndex_split (p l k : Nat) (hp : p < 2 ^ 63) (h : splitStoredHashIndex p = .ok (l, k)) :
    storedHashIndex l k = p := by
  obtain ⟨n, h1, h2⟩ := exists_record p
  rw [splitStoredHashIndex_spec p n h1 h2 hp] at h
  simp only [Except.ok.injEq, Prod.mk.injEq] at h
  obtain ⟨hl, hk⟩ := h
  have hltz : l ≤ tz (n + 1) := by rw [S_succ] at h2; omega
  rw [hl] at hk
  rw [storedHashIndex_eq, ← hk, shiftRight_of_le_tz n l hltz]
  simp only [Nat.add_sub_cancel]
  omega

/-- ★ `SplitStoredHashIndex(StoredHashIndex(l, k)) = (l, k)` -/
theorem split_storedHashIndex (l k : Nat) (h : storedHashIndex l k < 2 ^ 63) :
    splitStoredHashIndex (storedHashIndex l k) = .ok (l, k) := by
  have hpos : 0 < (k + 1) * 2 ^ l := Nat.mul_pos (by omega) (Nat.two_pow_pos l)
  have hl : l ≤ tz ((k + 1) * 2 ^ l - 1 + 1) := by
    rw [Nat.sub_add_cancel hpos]; exact le_tz_mul_pow l (k + 1) (by omega)
  have e := storedHashIndex_eq l k
  have h2 : storedHashIndex l k < S ((k + 1) * 2 ^ l - 1 + 1) := by rw [S_succ]; omega
  rw [splitStoredHashIndex_spec _ ((k + 1) * 2 ^ l - 1) (by omega) h2 h]
  have e1 : storedHashIndex l k - S ((k + 1) * 2 ^ l - 1) = l := by omega
  rw [e1]
  have e2 := shiftRight_of_le_tz ((k + 1) * 2 ^ l - 1) l hl
  rw [Nat.sub_add_cancel hpos] at e2
  have := Nat.eq_of_mul_eq_mul_right (Nat.two_pow_pos l) e2
  have : ((k + 1) * 2 ^ l - 1) >>> l = k := by omega
  rw [this]

/-- ★ totality: neither the "bad math" panic nor fuel exhaustion is reachable -/
theorem split_total (p : Nat) (hp : p < 2 ^ 63) : ∃ l k, splitStoredHashIndex p = .ok (l, k) := by
  obtain ⟨n, h1, h2⟩ := exists_record p
  exact ⟨_, _, splitStoredHashIndex_spec p n h1 h2 hp⟩

/-- on the dense store of `N` records, `SplitStoredHashIndex` reads off the specification's layout:
    position ↔ coordinate is the bijection between `[0, StoredHashCount N)` and the complete subtrees of the log -/
theorem split_eq_layout (N p : Nat) (hN : p < S N) (hp : p < 2 ^ 63) :
    ∃ l k, splitStoredHashIndex p = .ok (l, k) ∧ (layout N)[p]? = some (l, k) ∧ (k + 1) * 2 ^ l ≤ N := by
  obtain ⟨n, h1, h2⟩ := exists_record p
  have hn : n < N := lt_of_S_lt n N (by omega)
  have hltz : p - S n ≤ tz (n + 1) := by rw [S_succ] at h2; omega
  have hlay := layout_get N n (p - S n) hn hltz
  rw [Nat.add_sub_cancel' h1] at hlay
  refine ⟨_, _, splitStoredHashIndex_spec p n h1 h2 hp, hlay, ?_⟩
  rw [shiftRight_of_le_tz n _ hltz]
  omega

end ModVerif.TlogStore
