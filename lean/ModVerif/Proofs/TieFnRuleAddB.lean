/-
  Helper lemmas for Tie/FnRuleAdd.lean, part B: the regenerated `File.add` (Generated/FnRule.lean, with the driver's world
  parameters: `FA`) verb by verb against the per-verb twins `addGo … addToolV` of the model's `File.add`
  (Proofs/ModfileC20Rule.lean, `add_eq`): the verbs that call no leaf function — `go` (with the lax go-version fix that
  REWRITES the token), `toolchain`, `godebug`, an unknown verb, the lax early return.
  Owner: rule-add.
-/
import ModVerif.Proofs.TieFnRuleAddA
set_option linter.unusedSimpArgs false
set_option linter.unusedVariables false
namespace ModVerif.Tie.FnRuleAddB
open ModVerif ModVerif.GoRt ModVerif.Generated ModVerif.Tie.FnRuleRep ModVerif.Tie.FnRuleAddA
open ModVerif.Drv.GenRule (isPrintI unquoteI laxSubI deprecatedSubI fixG)
open ModVerif.Proofs.ModfileC20 (addGo addToolchain addModule addGodebugV addReqExc addReplaceV addRetractV addToolV add_eq)

section
variable {ι : Int → Nat} {h : Rule.Heap} {fp : Int} {errs : List Rule.Error} {st : Modfile.AddState} {syn : Modfile.FileSyntax}
  {lp : Int} {l : Modfile.Line} {pre args : List Bytes}

theorem view_of (hl : RLine ι h lp l) (htok : l.token = pre ++ args) : TokView h { owner := lp, lo := (pre.length : Int) } pre args :=
  ⟨lineG l, hl.1, htok, rfl⟩

theorem TR_of (hl : RLine ι h lp l) (n : Nat) (hn : n = h.lines.length) : TR ι n lp l.id := ⟨hl.2, hl.pos, hn ▸ hl.le⟩

theorem FA_go (R : RepRS ι h fp errs st syn) (hl : RLine ι h lp l) (htok : l.token = pre ++ args)
    (fuel : Nat) (block : Int) (fix : Option (Bytes → Bytes → (Bytes × Option String))) (strict : Bool) :
    ∃ errs' h', FA fuel fp errs block lp [103, 111] { owner := lp, lo := (pre.length : Int) } fix strict h = .ok (((), errs'), h') ∧
      StepPost ι h fp syn lp l pre (addGo st l args strict) errs' h' := by
  obtain ⟨o, es, ho, hF, rt⟩ := R.objs
  have V := view_of hl htok
  unfold FA Rule.File_add
  simp only [decide_true, Bool.true_or, Bool.or_true, if_true, ite_self, ho, bind, Except.bind, pure, Except.pure,
    TokRef_len_eq, TokRef_get_eq, TokRef_set_eq, V.tkLen]
  unfold addGo
  cases hgo : st.file.go with
  | some g =>
    have hne : o.Go ≠ 0 := fun e => by have := (rt.go.eq_zero_iff).1 e; rw [hgo] at this; cases this
    simp only [hgo, hne, decide_false, Bool.not_false, if_true, errorf_eq ho hF hl.1, Option.isSome_some]
    exact ⟨_, _, rfl, StepPost.errf R hl htok (by decide)⟩
  | none =>
    have h0 : o.Go = 0 := (rt.go.eq_zero_iff).2 hgo
    simp only [hgo, h0, decide_true, Bool.not_true, Bool.false_eq_true, if_false, Option.isSome_none]
    match args, htok, V with
    | [], htok, V =>
      simp only [List.length_nil, Int.natCast_zero, Int.reduceEq, decide_false, Bool.not_false, if_true, errorf_eq ho hF hl.1] 
      exact ⟨_, _, rfl, StepPost.errf R hl htok (by decide)⟩
    | a :: b :: c, htok, V =>
      have : ¬ (((List.length (a :: b :: c) : Nat) : Int) = 1) := by simp; omega
      simp only [this, decide_false, Bool.not_false, if_true, errorf_eq ho hF hl.1] 
      exact ⟨_, _, rfl, StepPost.errf R hl htok (by decide)⟩
    | [a], htok, V =>
      simp only [List.length_singleton, Int.natCast_one, decide_true, Bool.not_true, Bool.false_eq_true, if_false, V.tkGet0 rfl]
      cases hre : Modfile.goVersionRE a with
      | true =>
        simp only [Bool.not_true, Bool.false_eq_true, if_false, if_true, heapAlloc, heapSet_of_get _ ho, V.tkGet0 rfl,
          heapGet_listSet_same _ ho, heapGet_alloc_new, heapSet_alloc_new]
        refine ⟨_, _, rfl, ?_⟩
        refine StepPost.build R hl (heapGet_listSet_same _ ho) (lines_same hl htok) rfl rfl rfl ?_ R.errs
        intro o1 ho1 rt1
        rw [ho] at ho1; cases ho1
        exact ⟨rt1.linkGo ⟨rfl, TR_of hl _ rfl⟩ _, rfl⟩
      | false =>
        simp only [Bool.not_false, if_true, Bool.false_eq_true, if_false]
        cases strict with
        | true =>
          simp only [Bool.not_true, Bool.false_eq_true, if_false, if_true, V.tkGet0 rfl, errorf_eq ho hF hl.1]
          exact ⟨_, _, rfl, StepPost.errf R hl htok (by decide)⟩
        | false =>
          simp only [Bool.not_false, if_true, Bool.false_eq_true, if_false, V.tkGet0 rfl, laxSubI]
          obtain hlax | ⟨m1, hlax⟩ : Modfile.laxGoVersionRE a = none ∨ ∃ m, Modfile.laxGoVersionRE a = some m := by
            cases Modfile.laxGoVersionRE a <;> simp
          ·
            simp only [hlax, decide_true, Bool.not_true, Bool.false_eq_true, if_false, Bool.not_false, if_true, V.tkGet0 rfl, errorf_eq ho hF hl.1]
            exact ⟨_, _, rfl, StepPost.errf R hl htok (by decide)⟩
          ·
            have hi : idxL [a, m1] 1 = .ok m1 := rfl
            have V1 : TokView (setToksH h lp (pre ++ [m1])) { owner := lp, lo := (pre.length : Int) } pre [m1] := (V.set (i := 0) (by simp) m1).2
            simp only [hlax, reduceCtorEq, decide_false, Bool.not_false, if_true, hi, V.tkSet0 (by simp) m1, List.set_cons_zero,
              Bool.not_true, Bool.false_eq_true, if_false, heapAlloc]
            simp only [ho, heapSet_of_get _ ho, V1.tkGet0 rfl, heapGet_listSet_same _ ho, heapGet_alloc_new, heapSet_alloc_new]
            refine ⟨_, _, rfl, ?_⟩
            refine StepPost.build R hl (heapGet_listSet_same _ ho) rfl rfl rfl rfl ?_ R.errs
            intro o1 ho1 rt1
            rw [ho] at ho1; cases ho1
            exact ⟨(rt1.linkGo ⟨rfl, TR_of hl _ rfl⟩ _).withLines _ (by simp), rfl⟩

theorem FA_toolchain (R : RepRS ι h fp errs st syn) (hl : RLine ι h lp l) (htok : l.token = pre ++ args)
    (fuel : Nat) (block : Int) (fix : Option (Bytes → Bytes → (Bytes × Option String))) :
    ∃ errs' h', FA fuel fp errs block lp [116, 111, 111, 108, 99, 104, 97, 105, 110] { owner := lp, lo := (pre.length : Int) } fix true h =
        .ok (((), errs'), h') ∧
      StepPost ι h fp syn lp l pre (addToolchain st l args) errs' h' := by
  obtain ⟨o, es, ho, hF, rt⟩ := R.objs
  have V := view_of hl htok
  unfold FA Rule.File_add
  simp only [decide_true, decide_false, reduceCtorEq, List.cons.injEq, Bool.true_or, Bool.or_true, if_true, ite_self, ho, bind, Except.bind, pure, Except.pure,
    TokRef_len_eq, TokRef_get_eq, TokRef_set_eq, V.tkLen, Bool.not_true, Bool.false_eq_true, if_false,
    (by decide : ¬ (([116, 111, 111, 108, 99, 104, 97, 105, 110] : Bytes) = [103, 111]))]
  unfold addToolchain
  cases htc : st.file.toolchain with
  | some g =>
    have hne : o.Toolchain ≠ 0 := fun e => by have := (rt.toolchain.eq_zero_iff).1 e; rw [htc] at this; cases this
    simp only [htc, hne, decide_false, Bool.not_false, if_true, errorf_eq ho hF hl.1, Option.isSome_some]
    exact ⟨_, _, rfl, StepPost.errf R hl htok (by decide)⟩
  | none =>
    have h0 : o.Toolchain = 0 := (rt.toolchain.eq_zero_iff).2 htc
    simp only [htc, h0, decide_true, Bool.not_true, Bool.false_eq_true, if_false, Option.isSome_none]
    match args, htok, V with
    | [], htok, V =>
      simp only [List.length_nil, Int.natCast_zero, Int.reduceEq, decide_false, Bool.not_false, if_true, errorf_eq ho hF hl.1]
      exact ⟨_, _, rfl, StepPost.errf R hl htok (by decide)⟩
    | a :: b :: c, htok, V =>
      have : ¬ (((List.length (a :: b :: c) : Nat) : Int) = 1) := by simp; omega
      simp only [this, decide_false, Bool.not_false, if_true, errorf_eq ho hF hl.1]
      exact ⟨_, _, rfl, StepPost.errf R hl htok (by decide)⟩
    | [a], htok, V =>
      simp only [List.length_singleton, Int.natCast_one, decide_true, Bool.not_true, Bool.false_eq_true, if_false, V.tkGet0 rfl]
      cases hre : Modfile.toolchainRE a with
      | false =>
        simp only [Bool.not_false, if_true, V.tkGet0 rfl, errorf_eq ho hF hl.1]
        exact ⟨_, _, rfl, StepPost.errf R hl htok (by decide)⟩
      | true =>
        simp only [Bool.not_true, Bool.false_eq_true, if_false, if_true, heapAlloc, heapSet_of_get _ ho, V.tkGet0 rfl,
          heapGet_listSet_same _ ho, heapGet_alloc_new, heapSet_alloc_new]
        refine ⟨_, _, rfl, ?_⟩
        refine StepPost.build R hl (heapGet_listSet_same _ ho) (lines_same hl htok) rfl rfl rfl ?_ R.errs
        intro o1 ho1 rt1
        rw [ho] at ho1; cases ho1
        exact ⟨rt1.linkToolchain ⟨rfl, TR_of hl _ rfl⟩ _, rfl⟩

theorem FA_godebug (R : RepRS ι h fp errs st syn) (hl : RLine ι h lp l) (htok : l.token = pre ++ args)
    (fuel : Nat) (block : Int) (fix : Option (Bytes → Bytes → (Bytes × Option String))) :
    ∃ errs' h', FA fuel fp errs block lp [103, 111, 100, 101, 98, 117, 103] { owner := lp, lo := (pre.length : Int) } fix true h =
        .ok (((), errs'), h') ∧
      StepPost ι h fp syn lp l pre (addGodebugV st l args) errs' h' := by
  obtain ⟨o, es, ho, hF, rt⟩ := R.objs
  have V := view_of hl htok
  unfold FA Rule.File_add
  simp only [decide_true, decide_false, reduceCtorEq, List.cons.injEq, Bool.true_or, Bool.or_true, if_true, ite_self, ho, bind, Except.bind, pure, Except.pure,
    TokRef_len_eq, TokRef_get_eq, TokRef_set_eq, V.tkLen, Bool.not_true, Bool.false_eq_true, if_false,
    (by decide : ¬ (([103, 111, 100, 101, 98, 117, 103] : Bytes) = [103, 111])),
    (by decide : ¬ (([103, 111, 100, 101, 98, 117, 103] : Bytes) = [116, 111, 111, 108, 99, 104, 97, 105, 110])),
    (by decide : ¬ (([103, 111, 100, 101, 98, 117, 103] : Bytes) = [109, 111, 100, 117, 108, 101]))]
  unfold addGodebugV Modfile.addGodebug
  match args, htok, V with
  | [], htok, V =>
    simp only [List.length_nil, Int.natCast_zero, Int.reduceEq, decide_false, Bool.not_false, if_true, errorf_eq ho hF hl.1]
    exact ⟨_, _, rfl, StepPost.errf R hl htok (by decide)⟩
  | a :: b :: c, htok, V =>
    have : ¬ (((List.length (a :: b :: c) : Nat) : Int) = 1) := by simp; omega
    simp only [this, decide_false, Bool.not_false, if_true, errorf_eq ho hF hl.1]
    exact ⟨_, _, rfl, StepPost.errf R hl htok (by decide)⟩
  | [a], htok, V =>
    simp only [List.length_singleton, Int.natCast_one, decide_true, Bool.not_true, Bool.false_eq_true, if_false, V.tkGet0 rfl,
      GoRt.containsAny]
    cases hca : GoStrings.containsAny a [34, 96, 39, 44] with
    | true =>
      simp only [if_true, errorf_eq ho hF hl.1]
      exact ⟨_, _, rfl, StepPost.errf R hl htok (by decide)⟩
    | false =>
      simp only [Bool.false_eq_true, if_false, cut_one]
      cases hcut : GoStrings.cut a 61 with
      | none =>
        simp only [Bool.not_false, if_true, errorf_eq ho hF hl.1]
        exact ⟨_, _, rfl, StepPost.errf R hl htok (by decide)⟩
      | some kv =>
        obtain ⟨k, v⟩ := kv
        simp only [Bool.not_true, Bool.false_eq_true, if_false, heapAlloc, heapSet_of_get _ ho]
        refine ⟨_, _, rfl, ?_⟩
        refine StepPost.build R hl (heapGet_listSet_same _ ho) (lines_same hl htok) rfl rfl rfl ?_ R.errs
        intro o1 ho1 rt1
        rw [ho] at ho1; cases ho1
        exact ⟨rt1.pushGodebug ⟨rfl, rfl, TR_of hl _ rfl⟩ _, rfl⟩

/-- an unknown verb in strict mode -/
theorem FA_unknown (R : RepRS ι h fp errs st syn) (hl : RLine ι h lp l) (htok : l.token = pre ++ args)
    (fuel : Nat) (block : Int) (verb : Bytes) (fix : Option (Bytes → Bytes → (Bytes × Option String)))
    (hv : Modfile.verbIn verb Modfile.addVerbs = false) :
    ∃ errs' h', FA fuel fp errs block lp verb { owner := lp, lo := (pre.length : Int) } fix true h = .ok (((), errs'), h') ∧
      StepPost ι h fp syn lp l pre (st.err l.start .unknownDirective, args) errs' h' := by
  obtain ⟨o, es, ho, hF, rt⟩ := R.objs
  obtain ⟨h1, h2, h3, h4, h5, h6, h7, h8, h9⟩ := not_addVerbs hv
  unfold FA Rule.File_add
  simp only [h1, h2, h3, h4, h5, h6, h7, h8, h9, decide_false, Bool.false_eq_true, if_false, Bool.or_false, Bool.not_true,
    errorf_eq ho hF hl.1, bind, Except.bind, pure, Except.pure]
  exact ⟨_, _, rfl, StepPost.errf R hl htok (by decide)⟩

/-- the lax early return -/
theorem FA_laxSkip (R : RepRS ι h fp errs st syn) (hl : RLine ι h lp l) (htok : l.token = pre ++ args)
    (fuel : Nat) (block : Int) (verb : Bytes) (fix : Option (Bytes → Bytes → (Bytes × Option String)))
    (hv : Modfile.verbIn verb Modfile.laxVerbs = false) :
    ∃ errs' h', FA fuel fp errs block lp verb { owner := lp, lo := (pre.length : Int) } fix false h = .ok (((), errs'), h') ∧
      StepPost ι h fp syn lp l pre (st, args) errs' h' := by
  rw [laxVerbs_iff] at hv
  unfold FA Rule.File_add
  simp only [hv, Bool.not_false, if_true, Bool.false_eq_true, if_false, pure, Except.pure]
  exact ⟨_, _, rfl, StepPost.skip R hl htok⟩
end
end ModVerif.Tie.FnRuleAddB
