/-
  The checkers of the model recompute the root along the RFC 6962 recursion (C03):
  `runRecordProofF` = `RFC6962.inclRootF`, `runTreeProofF` = `RFC6962.consRootsF`.
-/
import ModVerif.Model.Tlog
import ModVerif.Spec.RFC6962
import ModVerif.Proofs.TlogBasic
namespace ModVerif.Tlog
open ModVerif

/-- the model's split is the specification's split on the whole int64 range -/
theorem maxpow2_fst_eq_splitPoint (n : Nat) (h1 : 1 < n) (h2 : n ≤ 2 ^ 63) :
    (maxpow2 n).1 = RFC6962.splitPoint n := by
  obtain ⟨a, b, c, d⟩ := maxpow2_spec' n h1
  have e : n ≤ 2 * (maxpow2 n).1 := by
    rcases d with d | d
    · exact d
    · rw [a, d]; omega
  unfold RFC6962.splitPoint
  rw [a]
  congr 1
  have hpos : n - 1 ≠ 0 := by omega
  have hl := Nat.log2_lt hpos (k := (maxpow2 n).2 + 1) |>.mpr (by rw [Nat.pow_succ]; omega)
  have hu : 2 ^ (maxpow2 n).2 ≤ n - 1 := by omega
  have := (Nat.le_log2 hpos).mpr hu
  omega

section
variable {H : Type}

/-- outcome of the model's proof runner corresponding to an optional root of the specification -/
def ofRoot {α : Type} : Option α → Except Err α
  | some r => .ok r
  | none => .error .proofFailed

theorem runRecordProofF_eq_spec (node : H → H → H) : ∀ f p lo hi n leafHash,
    lo ≤ n → n < hi → hi - lo ≤ f → hi - lo ≤ 2 ^ 63 →
    runRecordProofF node f p lo hi n leafHash = ofRoot (RFC6962.inclRootF node f p (hi - lo) (n - lo) leafHash) := by
  intro f
  induction f with
  | zero => intro p lo hi n lh h1 h2 h3; omega
  | succ f ih =>
    intro p lo hi n lh h1 h2 h3 h4
    unfold runRecordProofF RFC6962.inclRootF
    have hg : (!(decide (lo ≤ n) && decide (n < hi))) = false := by simp [h1, h2]
    simp only [hg, Bool.false_eq_true, ↓reduceIte]
    by_cases hone : lo + 1 = hi
    · have h5 : hi - lo ≤ 1 := by omega
      simp only [hone, beq_self_eq_true, ↓reduceIte, h5]
      cases p <;> simp [ofRoot]
    · have h5 : ¬ hi - lo ≤ 1 := by omega
      have h6 : (lo + 1 == hi) = false := by simp [hone]
      simp only [h6, Bool.false_eq_true, ↓reduceIte, h5]
      cases hp : p.getLast? with
      | none => simp [ofRoot]
      | some last =>
        simp only []
        have hk := maxpow2_fst_eq_splitPoint (hi - lo) (by omega) h4
        have hlt := maxpow2_lt (hi - lo) (by omega)
        have hpos := maxpow2_fst_pos (hi - lo)
        rw [← hk]
        by_cases hb : n < lo + (maxpow2 (hi - lo)).1
        · have hb' : n - lo < (maxpow2 (hi - lo)).1 := by omega
          simp only [hb, ↓reduceIte, hb']
          rw [ih _ lo (lo + (maxpow2 (hi - lo)).1) n lh h1 hb (by omega) (by omega)]
          have : lo + (maxpow2 (hi - lo)).1 - lo = (maxpow2 (hi - lo)).1 := by omega
          rw [this]
          cases RFC6962.inclRootF node f p.dropLast (maxpow2 (hi - lo)).1 (n - lo) lh <;> simp [ofRoot, bind, Except.bind, pure, Except.pure]
        · have hb' : ¬ n - lo < (maxpow2 (hi - lo)).1 := by omega
          simp only [hb, ↓reduceIte, hb']
          rw [ih _ (lo + (maxpow2 (hi - lo)).1) hi n lh (by omega) h2 (by omega) (by omega)]
          have e1 : hi - (lo + (maxpow2 (hi - lo)).1) = hi - lo - (maxpow2 (hi - lo)).1 := by omega
          have e2 : n - (lo + (maxpow2 (hi - lo)).1) = n - lo - (maxpow2 (hi - lo)).1 := by omega
          rw [e1, e2]
          cases RFC6962.inclRootF node f p.dropLast (hi - lo - (maxpow2 (hi - lo)).1) (n - lo - (maxpow2 (hi - lo)).1) lh <;> simp [ofRoot, bind, Except.bind, pure, Except.pure]

theorem runTreeProofF_eq_spec (node : H → H → H) : ∀ f p lo hi n old,
    lo < n → n ≤ hi → hi - lo ≤ f → hi - lo ≤ 2 ^ 63 →
    runTreeProofF node f p lo hi n old =
      ofRoot (RFC6962.consRootsF node f p (hi - lo) (n - lo) (lo == 0) old) := by
  intro f
  induction f with
  | zero => intro p lo hi n old h1 h2 h3; omega
  | succ f ih =>
    intro p lo hi n old h1 h2 h3 h4
    unfold runTreeProofF RFC6962.consRootsF
    have hg : (!(decide (lo < n) && decide (n ≤ hi))) = false := by simp [h1, h2]
    simp only [hg, Bool.false_eq_true, ↓reduceIte]
    by_cases heq : n = hi
    · have h5 : n - lo = hi - lo := by omega
      simp only [heq, beq_self_eq_true, ↓reduceIte]
      by_cases hz : lo = 0
      · subst hz
        simp only [beq_self_eq_true, ↓reduceIte]
        cases p <;> simp [ofRoot]
      · have hz' : (lo == 0) = false := by simp [hz]
        simp only [hz', Bool.false_eq_true, ↓reduceIte]
        match p with
        | [] => simp [ofRoot]
        | [x] => simp [ofRoot]
        | _ :: _ :: _ => simp [ofRoot]
    · have h5 : ¬ n - lo = hi - lo := by omega
      have h6 : (n == hi) = false := by simp [heq]
      simp only [h6, Bool.false_eq_true, ↓reduceIte, h5]
      cases hp : p.getLast? with
      | none => simp [ofRoot]
      | some last =>
        simp only []
        have hk := maxpow2_fst_eq_splitPoint (hi - lo) (by omega) h4
        have hlt := maxpow2_lt (hi - lo) (by omega)
        have hpos := maxpow2_fst_pos (hi - lo)
        rw [← hk]
        by_cases hb : n ≤ lo + (maxpow2 (hi - lo)).1
        · have hb' : n - lo ≤ (maxpow2 (hi - lo)).1 := by omega
          simp only [hb, ↓reduceIte, hb']
          rw [ih _ lo (lo + (maxpow2 (hi - lo)).1) n old h1 hb (by omega) (by omega)]
          have : lo + (maxpow2 (hi - lo)).1 - lo = (maxpow2 (hi - lo)).1 := by omega
          rw [this]
          cases RFC6962.consRootsF node f p.dropLast (maxpow2 (hi - lo)).1 (n - lo) (lo == 0) old <;>
            simp [ofRoot, bind, Except.bind, pure, Except.pure]
        · have hb' : ¬ n - lo ≤ (maxpow2 (hi - lo)).1 := by omega
          simp only [hb, ↓reduceIte, hb']
          rw [ih _ (lo + (maxpow2 (hi - lo)).1) hi n old (by omega) h2 (by omega) (by omega)]
          have e1 : hi - (lo + (maxpow2 (hi - lo)).1) = hi - lo - (maxpow2 (hi - lo)).1 := by omega
          have e2 : n - (lo + (maxpow2 (hi - lo)).1) = n - lo - (maxpow2 (hi - lo)).1 := by omega
          have e3 : (lo + (maxpow2 (hi - lo)).1 == 0) = false := by simp; omega
          rw [e1, e2, e3]
          cases RFC6962.consRootsF node f p.dropLast (hi - lo - (maxpow2 (hi - lo)).1) (n - lo - (maxpow2 (hi - lo)).1) false old <;>
            simp [ofRoot, bind, Except.bind, pure, Except.pure]

end
end ModVerif.Tlog
