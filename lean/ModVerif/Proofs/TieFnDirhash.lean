/-
  Helper lemmas for the tie between the regenerated `dirhash.Hash1` (Generated/FnDirhash.lean, re-translated from
  sumdb/dirhash/hash.go on every run) and the hand model `Dirhash.hash1` (Model/Dirhash.lean).

  * `sortStrings_eq`  : `GoRt.sortStrings` (insert AFTER equal elements) = `Dirhash.sortStrings` (insert BEFORE equal
                        elements): on a strict total order equal elements are identical, so the two insertion sorts agree;
  * `hexBytes_eq`     : `GoRt.hexBytes` (`%x`) = `Dirhash.hexEnc`;
  * `contains_newline`: `GoRt.contains file "\n"` = `Dirhash.hasNewline file`;
  * `Hash1_loop1_eq`  : the range loop of Hash1, started at any position of the (sorted) list with any accumulator,
                        computes `Dirhash.summaryLoop` of the remaining names.

  Core Lean only.
-/
import ModVerif.Generated.FnDirhash
import ModVerif.Model.Dirhash
import ModVerif.Proofs.Dirhash
import ModVerif.Proofs.GoRtLemmas
import ModVerif.Proofs.GoRtLemmasStr
namespace ModVerif.TieFnDirhash
open ModVerif ModVerif.GoRt

/-! ### `%x` -/

theorem hexNibble_eq (n : Nat) : hexNibble n = Dirhash.hexDigit n := rfl

theorem hexBytes_eq : ∀ b : Bytes, hexBytes b = Dirhash.hexEnc b
  | [] => rfl
  | c :: r => by
    have ih := hexBytes_eq r
    simp only [hexBytes, hexNibble_eq] at ih ⊢
    simp [Dirhash.hexEnc, ih]

/-! ### `strings.Contains(file, "\n")` -/

theorem contains_newline (file : Bytes) : contains file [10] = Dirhash.hasNewline file := by
  rw [GoRtStr.contains_single, Bool.eq_iff_iff]
  simp [Dirhash.hasNewline]

/-! ### `sort.Strings` -/

/-- inserting below a lower bound of the list puts the element in front -/
theorem insertSorted_eq_cons (x : Bytes) : ∀ ys : List Bytes, (∀ y ∈ ys, bytesLt y x = false) →
    insertSorted x ys = x :: ys
  | [], _ => rfl
  | z :: zs, h => by
    have hz : bytesLt z x = false := h z (by simp)
    rw [insertSorted]
    by_cases hxz : bytesLt x z = true
    · simp [hxz]
    · have hxz' : bytesLt x z = false := by simpa using hxz
      have e : x = z := bytesLt_total x z hxz' hz
      subst e
      simp only [hxz', Bool.false_eq_true, if_false]
      rw [insertSorted_eq_cons x zs (fun y hy => h y (by simp [hy]))]

/-- on a sorted list the two insertion procedures agree -/
theorem insertSorted_eq_orderedInsert (x : Bytes) : ∀ l : List Bytes,
    l.Pairwise (fun a b => bytesLt b a = false) → insertSorted x l = Dirhash.orderedInsert bytesLt x l
  | [], _ => rfl
  | y :: ys, hs => by
    have hy : ∀ z ∈ ys, bytesLt z y = false := (List.pairwise_cons.1 hs).1
    have hys := (List.pairwise_cons.1 hs).2
    rw [insertSorted, Dirhash.orderedInsert]
    by_cases hyx : bytesLt y x = true
    · have hxy : bytesLt x y = false := bytesLt_asymm y x hyx
      simp only [hyx, hxy, if_true, Bool.false_eq_true, if_false]
      rw [insertSorted_eq_orderedInsert x ys hys]
    · have hyx' : bytesLt y x = false := by simpa using hyx
      simp only [hyx', Bool.false_eq_true, if_false]
      by_cases hxy : bytesLt x y = true
      · simp [hxy]
      · have hxy' : bytesLt x y = false := by simpa using hxy
        have e : x = y := bytesLt_total x y hxy' hyx'
        subst e
        simp only [hxy', Bool.false_eq_true, if_false]
        rw [insertSorted_eq_cons x ys hy]

/-- `GoRt.sortStrings` (the translation of `sort.Strings`) is the model's `sortStrings` -/
theorem sortStrings_eq : ∀ l : List Bytes, GoRt.sortStrings l = Dirhash.sortStrings l
  | [] => rfl
  | x :: xs => by
    have ih := sortStrings_eq xs
    simp only [GoRt.sortStrings, Dirhash.sortStrings, List.foldr_cons, Dirhash.insertionSort] at ih ⊢
    rw [ih]
    exact insertSorted_eq_orderedInsert x _ (Dirhash.insertionSort_sorted Dirhash.bytesLt_strictTotal xs)

/-! ### the loop of Hash1 -/

/-- the text of the newline error of hash.go -/
def newlineMsg : String := "dirhash: filenames with newlines are not supported"

/-- the Go `open` callback that belongs to the model's `openF`: the reader delivers the content to the end, a failure
    carries the error text `e` -/
def openOf (openF : Bytes → Option Bytes) (e : String) : Bytes → Bytes × Option String :=
  fun name => match openF name with
    | some c => (c, none)
    | none => ([], some e)

/-- the model's result as the Go result pair `(string, error)` -/
def embed (e : String) : Except Dirhash.Err Bytes → Bytes × Option String
  | .ok h => (h, none)
  | .error .newline => ([], some newlineMsg)
  | .error .openFail => ([], some e)
  | .error .notDir => ([], some e)     -- never produced by `hash1` (`hash1_err`)
  | .error .walk => ([], some e)       -- never produced by `hash1` (`hash1_err`)

/-- what the loop returns: early `return "", err`, or the final loop state (index = number of files, summary so far) -/
def loopRes (e : String) (n : Int) (h : Bytes) : Except Dirhash.Err Bytes → Ctl (Bytes × Option String) (Int × Bytes)
  | .ok s => .next (n, h ++ s)
  | .error .newline => .ret ([], some newlineMsg)
  | .error _ => .ret ([], some e)

theorem idxL_mid {α : Type} (pre : List α) (c : α) (suf : List α) :
    idxL (pre ++ c :: suf) (pre.length : Int) = .ok c := by
  have h : pre.length < (pre ++ c :: suf).length := by simp
  rw [idxL_natCast h]; simp

theorem Hash1_loop1_eq (b64enc : Bytes → Bytes) (sha : Bytes → Bytes) (openF : Bytes → Option Bytes) (e : String) :
    ∀ (rest pre : List Bytes) (h : Bytes) (fuel : Nat), rest.length < fuel →
      Generated.Dirhash.Hash1_loop1 b64enc (fun acc p => p ++ sha acc) (pre ++ rest) (openOf openF e) fuel
          (pre.length : Int) h
        = .ok (loopRes e ((pre ++ rest).length : Int) h (Dirhash.summaryLoop sha openF rest)) := by
  intro rest
  induction rest with
  | nil =>
    intro pre h fuel hf
    obtain ⟨f, rfl⟩ : ∃ f, fuel = f + 1 := ⟨fuel - 1, by simp at hf; omega⟩
    simp [Generated.Dirhash.Hash1_loop1, len_eq, Dirhash.summaryLoop, loopRes, pure, Except.pure]
  | cons file rest ih =>
    intro pre h fuel hf
    obtain ⟨f, rfl⟩ : ∃ f, fuel = f + 1 := ⟨fuel - 1, by simp at hf; omega⟩
    have hf' : rest.length < f := by simp at hf; omega
    have hlt : ((pre.length : Int) < len (pre ++ file :: rest)) := by simp [len_eq]; omega
    have hnext : ((pre.length : Int) + 1) = ((pre ++ [file]).length : Int) := by simp
    have hlist : pre ++ file :: rest = (pre ++ [file]) ++ rest := by simp
    rw [Generated.Dirhash.Hash1_loop1]
    simp only [hlt, decide_true, if_true, idxL_mid, bind, Except.bind, contains_newline]
    rw [Dirhash.summaryLoop]
    cases hnl : Dirhash.hasNewline file with
    | true => simp [loopRes, pure, Except.pure, newlineMsg]
    | false =>
      simp only [Bool.false_eq_true, if_false]
      cases ho : openF file with
      | none => simp [openOf, ho, loopRes, pure, Except.pure]
      | some c =>
        simp only [openOf, ho, Option.isNone_none, Bool.not_true, Bool.false_eq_true, if_false, emptyBytes,
          List.nil_append, hexBytes_eq]
        rw [hnext, hlist, ih (pre ++ [file]) _ f hf']
        cases hs : Dirhash.summaryLoop sha openF rest with
        | error er => cases er <;> simp [loopRes]
        | ok s => simp [loopRes, Dirhash.summaryLine]

/-- `hash1` reports only the two errors of Hash1 -/
theorem summaryLoop_err (sha : Bytes → Bytes) (openF : Bytes → Option Bytes) : ∀ (l : List Bytes) (er : Dirhash.Err),
    Dirhash.summaryLoop sha openF l = .error er → er = .newline ∨ er = .openFail
  | [], er, h => by simp [Dirhash.summaryLoop] at h
  | file :: rest, er, h => by
    rw [Dirhash.summaryLoop] at h
    split at h
    · cases h; exact Or.inl rfl
    · split at h
      · cases h; exact Or.inr rfl
      · split at h
        · next e' he' => cases h; exact summaryLoop_err sha openF rest _ he'
        · cases h

theorem hash1_err (sha : Bytes → Bytes) (files : List Bytes) (openF : Bytes → Option Bytes) (er : Dirhash.Err)
    (h : Dirhash.hash1 sha files openF = .error er) : er = .newline ∨ er = .openFail := by
  unfold Dirhash.hash1 Dirhash.summary at h
  split at h
  · next e' he' => cases h; exact summaryLoop_err sha openF _ _ he'
  · cases h

/-! ### arbitrary `open` callbacks (the error text may depend on the name, a failing call may return any content) -/

/-- the model's `open` function that belongs to a Go callback: the content when the error is nil -/
def openFOf (open_ : Bytes → Bytes × Option String) : Bytes → Option Bytes :=
  fun name => match (open_ name).2 with
    | none => some (open_ name).1
    | some _ => none

/-- the error Hash1 returns on a (sorted) list: that of the first name that has a newline or cannot be opened -/
def firstErr (open_ : Bytes → Bytes × Option String) : List Bytes → Option String
  | [] => none
  | file :: rest =>
    if Dirhash.hasNewline file then some newlineMsg else
    match (open_ file).2 with
    | none => firstErr open_ rest
    | some e => some e

def loopResAny (err : Option String) (n : Int) (h : Bytes) :
    Except Dirhash.Err Bytes → Ctl (Bytes × Option String) (Int × Bytes)
  | .ok s => .next (n, h ++ s)
  | .error _ => .ret ([], err)

theorem Hash1_loop1_any (b64enc : Bytes → Bytes) (sha : Bytes → Bytes) (open_ : Bytes → Bytes × Option String) :
    ∀ (rest pre : List Bytes) (h : Bytes) (fuel : Nat), rest.length < fuel →
      Generated.Dirhash.Hash1_loop1 b64enc (fun acc p => p ++ sha acc) (pre ++ rest) open_ fuel (pre.length : Int) h
        = .ok (loopResAny (firstErr open_ rest) ((pre ++ rest).length : Int) h
            (Dirhash.summaryLoop sha (openFOf open_) rest)) := by
  intro rest
  induction rest with
  | nil =>
    intro pre h fuel hf
    obtain ⟨f, rfl⟩ : ∃ f, fuel = f + 1 := ⟨fuel - 1, by simp at hf; omega⟩
    simp [Generated.Dirhash.Hash1_loop1, len_eq, Dirhash.summaryLoop, loopResAny, pure, Except.pure]
  | cons file rest ih =>
    intro pre h fuel hf
    obtain ⟨f, rfl⟩ : ∃ f, fuel = f + 1 := ⟨fuel - 1, by simp at hf; omega⟩
    have hf' : rest.length < f := by simp at hf; omega
    have hlt : ((pre.length : Int) < len (pre ++ file :: rest)) := by simp [len_eq]; omega
    have hnext : ((pre.length : Int) + 1) = ((pre ++ [file]).length : Int) := by simp
    have hlist : pre ++ file :: rest = (pre ++ [file]) ++ rest := by simp
    rw [Generated.Dirhash.Hash1_loop1]
    simp only [hlt, decide_true, if_true, idxL_mid, bind, Except.bind, contains_newline]
    rw [Dirhash.summaryLoop, firstErr]
    cases hnl : Dirhash.hasNewline file with
    | true => simp [loopResAny, pure, Except.pure, newlineMsg]
    | false =>
      simp only [Bool.false_eq_true, if_false]
      cases hop : open_ file with
      | mk r err =>
        cases err with
        | some e => simp [openFOf, hop, loopResAny, pure, Except.pure]
        | none =>
          simp only [openFOf, hop, Option.isNone_none, Bool.not_true, Bool.false_eq_true, if_false, emptyBytes,
            List.nil_append, hexBytes_eq]
          rw [hnext, hlist, ih (pre ++ [file]) _ f hf']
          cases hs : Dirhash.summaryLoop sha (openFOf open_) rest with
          | error er => simp [loopResAny]
          | ok s => simp [loopResAny, Dirhash.summaryLine]

/-- the model returns an error exactly when `firstErr` finds one -/
theorem summaryLoop_error_iff (sha : Bytes → Bytes) (open_ : Bytes → Bytes × Option String) : ∀ l : List Bytes,
    (∃ er, Dirhash.summaryLoop sha (openFOf open_) l = .error er) ↔ (firstErr open_ l).isSome = true
  | [] => by simp [Dirhash.summaryLoop, firstErr]
  | file :: rest => by
    have ih := summaryLoop_error_iff sha open_ rest
    rw [Dirhash.summaryLoop, firstErr]
    cases hnl : Dirhash.hasNewline file with
    | true => simp
    | false =>
      simp only [Bool.false_eq_true, if_false]
      cases hop : (open_ file).2 with
      | some e => simp [openFOf, hop]
      | none =>
        simp only [openFOf, hop]
        rw [← ih]
        cases hs : Dirhash.summaryLoop sha (openFOf open_) rest with
        | error er => simp
        | ok s => simp

end ModVerif.TieFnDirhash
