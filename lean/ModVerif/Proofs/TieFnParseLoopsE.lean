/-
  Helper lemmas for Tie/FnParse.lean, part E: `input.parseFile` as a function (allocates the file object, runs the
  loop), and what the loop invariant gives at the end: the reification `RFile` of the graph as the model's statement
  list and the well-formedness `WF` of Proofs/TieFnParseHeap.lean (everything allocated, no pointer held twice).
-/
import ModVerif.Proofs.TieFnParseLoopsD
set_option linter.unusedSimpArgs false
set_option linter.unusedVariables false
namespace ModVerif.TieFnParse
open ModVerif ModVerif.GoRt ModVerif.Modfile ModVerif.TieFnLex
open ModVerif.Tie.FnParseHeap
open ModVerif.Proofs.ModfileParse (m Good lex_spec)
open ModVerif.Proofs.ModfileC20 (linesOf idsOf)
open ModVerif.Drv.LexOps.G (isPrintI isSpaceI)
open ModVerif.Drv.LexOps.M (kindCode)

variable {f : Int} {pre post : List Generated.Parse.Expr}

/-- parseFile: `in.file = new(FileSyntax)` (pointer `len(files) + 1`), then the loop -/
theorem parseFile_fn_sim (fm : Nat) (i : Input) (hw : WF i) (hm : m i < fm) (fg : Nat) (hfg : m i + 8 ≤ fg)
    (h : Generated.Parse.Heap) (hn : h.lines.length = i.nextId) :
    match parseFileLoop fm i [] none with
    | .ok (stmts, i') => ∃ h' es',
        Generated.Parse.input_parseFile isPrintI isSpaceI fg (embP f pre post i) h =
          .ok (((), embP ((h.files.length + 1 : Nat) : Int) pre post i'), h') ∧ WF i' ∧
        FInv h' ((h.files.length + 1 : Nat) : Int) default es' stmts i'.nextId
    | .error _ =>
        Generated.Parse.input_parseFile isPrintI isSpaceI fg (embP f pre post i) h = .error .panic := by
  unfold Generated.Parse.input_parseFile
  simp only [heapAlloc_fst, heapAlloc_snd]
  have key := parseFile_loop_sim (f := ((h.files.length + 1 : Nat) : Int)) (pre := pre) (post := post) fm i [] none hw hm
    fg hfg { h with files := h.files ++ [default] } default [] 0
    ⟨heapGet_alloc_new _ _, trivial, ⟨List.Pairwise.nil, by simp [blockPtrs], List.Pairwise.nil, by simp [cbPtrs]⟩, hn⟩ rfl
  generalize hrec : parseFileLoop fm i [] none = r at key ⊢
  cases r with
  | error e =>
    have key' : Generated.Parse.input_parseFile_loop1 isPrintI isSpaceI fg
        { embP f pre post i with file := ((h.files.length + 1 : Nat) : Int) }
        { h with files := h.files ++ [default] } 0 = .error .panic := key
    simp only [key', bind_error]
  | ok p =>
    obtain ⟨stmts, i'⟩ := p
    obtain ⟨h', es', hG, hw', hinv⟩ := key
    have key' : Generated.Parse.input_parseFile_loop1 isPrintI isSpaceI fg
        { embP f pre post i with file := ((h.files.length + 1 : Nat) : Int) }
        { h with files := h.files ++ [default] } 0 =
        .ok (.ret (((), embP ((h.files.length + 1 : Nat) : Int) pre post i'), h')) := hG
    refine ⟨h', es', ?_, hw', hinv⟩
    simp only [key', bind_ok, pure_eq_ok]

/-! ### from the invariant to `RFile` and `WF` -/

theorem RLines_alloc {h : Generated.Parse.Heap} : ∀ {ps : List Int} {ls : List Line}, RLines h ps ls →
    ∀ q ∈ ps, ∃ l, heapGet h.lines q = .ok l
  | [], [], _ => by simp
  | p :: ps, l :: ls, hr => by
    simp only [RLines_cons] at hr
    intro q hq
    rcases List.mem_cons.1 hq with rfl | hq
    · exact ⟨_, hr.1.1⟩
    · exact RLines_alloc hr.2 q hq
  | [], _ :: _, hr => by simp at hr
  | _ :: _, [], hr => by simp at hr

theorem RExpr_stmtOK {h : Generated.Parse.Heap} {e : Generated.Parse.Expr} {s : Expr} (hr : RExpr h e s) : StmtOK h e := by
  cases e <;> cases s <;> simp only [RExpr] at hr
  · exact ⟨_, hr⟩
  · exact ⟨_, hr.1⟩
  · obtain ⟨ps, hb, hl⟩ := hr
    exact ⟨_, hb, RLines_alloc hl⟩

theorem RStmts_stmtOK {h : Generated.Parse.Heap} : ∀ {es : List Generated.Parse.Expr} {ss : List Expr}, RStmts h es ss →
    ∀ e ∈ es, StmtOK h e
  | [], [], _ => by simp
  | e :: es, s :: ss, hr => by
    simp only [RStmts_cons] at hr
    intro q hq
    rcases List.mem_cons.1 hq with rfl | hq
    · exact RExpr_stmtOK hr.1
    · exact RStmts_stmtOK hr.2 q hq
  | [], _ :: _, hr => by simp at hr
  | _ :: _, [], hr => by simp at hr

/-- the line pointers of a reified statement list are the model's line identities + 1 -/
theorem RStmts_linePtrs {h : Generated.Parse.Heap} : ∀ {es : List Generated.Parse.Expr} {ss : List Expr}, RStmts h es ss →
    linePtrs h es = (linesOf ss).map (fun l => ((l.id + 1 : Nat) : Int))
  | [], [], _ => rfl
  | e :: es, s :: ss, hr => by
    simp only [RStmts_cons] at hr
    have ih := RStmts_linePtrs hr.2
    obtain ⟨h1, _⟩ := hr
    cases e <;> cases s <;> simp only [RExpr] at h1
    · simp only [linePtrs, Proofs.ModfileC20.linesOf_commentBlock, ih]
    · simp only [linePtrs, Proofs.ModfileC20.linesOf_line, List.map_cons, ih, h1.2]
    · obtain ⟨ps, hb, hl⟩ := h1
      simp only [linePtrs, blockLines, hb, Proofs.ModfileC20.linesOf_block, List.map_append, ih, blockG,
        RLines_ptrs hl]
  | [], _ :: _, hr => by simp at hr
  | _ :: _, [], hr => by simp at hr

theorem FInv_RFile {h : Generated.Parse.Heap} {es : List Generated.Parse.Expr} {ss : List Expr} {nid : Nat}
    (hi : FInv h f default es ss nid) : RFile h f { stmts := ss } :=
  ⟨es, hi.file, hi.stmts⟩

theorem FInv_WF {h : Generated.Parse.Heap} {fo : Generated.Parse.FileSyntax} {es : List Generated.Parse.Expr}
    {ss : List Expr} {nid : Nat} (hi : FInv h f fo es ss nid) (hids : (idsOf ss).Nodup) :
    Tie.FnParseHeap.WF h f := by
  refine ⟨_, hi.file, RStmts_stmtOK hi.stmts, ?_, nodup_of_pairwise_lt hi.ptrs.blocksLt,
    nodup_of_pairwise_lt hi.ptrs.cbsLt⟩
  show (linePtrs h es).Nodup
  rw [RStmts_linePtrs hi.stmts]
  have : (linesOf ss).map (fun l => ((l.id + 1 : Nat) : Int)) = (idsOf ss).map (fun n => ((n + 1 : Nat) : Int)) := by
    simp [idsOf, List.map_map]
  rw [this]
  refine List.Pairwise.map _ ?_ hids
  intro a b hab heq
  apply hab
  omega

/-! ### `in.file.Name = name` -/

theorem stmtOK_files (h : Generated.Parse.Heap) (fl : List Generated.Parse.FileSyntax) (e : Generated.Parse.Expr) :
    StmtOK { h with files := fl } e ↔ StmtOK h e := by
  cases e <;> exact Iff.rfl

theorem linePtrs_files (h : Generated.Parse.Heap) (fl : List Generated.Parse.FileSyntax) :
    ∀ es : List Generated.Parse.Expr, linePtrs { h with files := fl } es = linePtrs h es
  | [] => rfl
  | e :: es => by
    cases e <;> simp only [linePtrs, linePtrs_files h fl es]
    rfl

/-- `in.file.Name = name` keeps the reification (with the name set) and the well-formedness -/
theorem setName_RFile {h : Generated.Parse.Heap} {p : Int} {t : FileSyntax} (hr : RFile h p t)
    (hw : Tie.FnParseHeap.WF h p) (name : Bytes) :
    ∃ f, heapGet h.files p = .ok f ∧
      RFile { h with files := h.files.set (p.toNat - 1) { f with Name := name } } p { t with name := name } ∧
      Tie.FnParseHeap.WF { h with files := h.files.set (p.toNat - 1) { f with Name := name } } p := by
  obtain ⟨es, hf, hs⟩ := hr
  refine ⟨_, hf, ⟨es, heapGet_listSet_same _ hf, (RStmts_files h _ _ _).2 hs⟩, ?_⟩
  obtain ⟨f', hf', hok, h1, h2, h3⟩ := hw.file
  rw [hf] at hf'
  cases hf'
  refine ⟨_, heapGet_listSet_same _ hf, ?_, ?_, h2, h3⟩
  · intro e he
    exact (stmtOK_files h _ e).2 (hok e he)
  · show (linePtrs _ es).Nodup
    rw [linePtrs_files]
    exact h1

end ModVerif.TieFnParse
