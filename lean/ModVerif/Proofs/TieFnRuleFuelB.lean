/-
  Fuel of the regenerated directive layer from the INPUT LENGTH, part B: the go.mod parser model.  Every line, every
  statement, every whole-line comment and every blank-line placeholder of the tree `parseFile` builds is paid by a token
  other than EOF (count potential `Cn`), and the tokens of ONE line are paid by their own bytes (byte potential `Bp`; the
  token spans are disjoint because the lexer only moves forward):

    `parseFile_w`:  `NEs stmts + #recorded end-of-line comments ≤ data.length + 1`  and  `Σ|token| ≤ data.length` per line.

  `NE` counts 1 per statement, 1 per block line and every comment in a `before` / `suffix` list.
  Owner: rule-fuel.
-/
import ModVerif.Proofs.TieFnRuleFuelA
set_option linter.unusedSimpArgs false
set_option linter.unusedVariables false
namespace ModVerif.Tie.FnRuleFuelB
open ModVerif ModVerif.Modfile ModVerif.Tie.FnRuleFuelA

/-- the summed token lengths (`tokSum` of Proofs/TieFnRuleLeafB.lean) -/
def tsum (ts : List Bytes) : Nat := (ts.map (·.length)).sum

@[simp] theorem tsum_nil : tsum [] = 0 := rfl
@[simp] theorem tsum_cons (t : Bytes) (ts : List Bytes) : tsum (t :: ts) = t.length + tsum ts := by simp [tsum]
@[simp] theorem tsum_append (a b : List Bytes) : tsum (a ++ b) = tsum a + tsum b := by
  induction a with
  | nil => simp
  | cons x xs ih => simp [ih]; omega
@[simp] theorem tsum_reverse (a : List Bytes) : tsum a.reverse = tsum a := by
  induction a with
  | nil => rfl
  | cons x xs ih => simp [ih]; omega

/-- the comments of a node the directive layer walks (`comLen` of Proofs/TieFnRuleLeafA.lean) -/
def cl (c : Comments) : Nat := c.before.length + c.suffix.length

def NL (l : Line) : Nat := 1 + cl l.comments
def NLs (ls : List Line) : Nat := (ls.map NL).sum

@[simp] theorem NLs_nil : NLs [] = 0 := rfl
@[simp] theorem NLs_cons (l : Line) (ls : List Line) : NLs (l :: ls) = NL l + NLs ls := by simp [NLs]
@[simp] theorem NLs_append (a b : List Line) : NLs (a ++ b) = NLs a + NLs b := by
  induction a with
  | nil => simp
  | cons x xs ih => simp [ih]; omega
@[simp] theorem NLs_reverse (a : List Line) : NLs a.reverse = NLs a := by
  induction a with
  | nil => rfl
  | cons x xs ih => simp [ih]; omega

/-- the size of a statement: itself, its lines, all its comments -/
def NE : Expr → Nat
  | .commentBlock x => 1 + cl x.comments
  | .line l => 1 + cl l.comments
  | .lineBlock b => 1 + cl b.comments + cl b.lparen.comments + cl b.rparen.comments + NLs b.lines
  | .lparen x => 1 + cl x.comments
  | .rparen x => 1 + cl x.comments
def NEs (ss : List Expr) : Nat := (ss.map NE).sum

@[simp] theorem NEs_nil : NEs [] = 0 := rfl
@[simp] theorem NEs_cons (s : Expr) (ss : List Expr) : NEs (s :: ss) = NE s + NEs ss := by simp [NEs]
@[simp] theorem NEs_append (a b : List Expr) : NEs (a ++ b) = NEs a + NEs b := by
  induction a with
  | nil => simp
  | cons x xs ih => simp [ih]; omega
@[simp] theorem NEs_reverse (a : List Expr) : NEs a.reverse = NEs a := by
  induction a with
  | nil => rfl
  | cons x xs ih => simp [ih]; omega

/-- the tokens of every line of the statement are at most `R` bytes together -/
def TokLe (R : Nat) : Expr → Prop
  | .line l => tsum l.token ≤ R
  | .lineBlock b => ∀ l ∈ b.lines, tsum l.token ≤ R
  | _ => True

theorem NE_setComments (s : Expr) (cs : Comments) : NE (s.setComments cs) + cl s.comments = NE s + cl cs := by
  cases s <;> simp only [Expr.setComments, Expr.comments, NE] <;> omega

theorem TokLe_setComments (R : Nat) (s : Expr) (cs : Comments) : TokLe R (s.setComments cs) ↔ TokLe R s := by
  cases s <;> exact Iff.rfl

theorem pc_of_kind {i : Input} (h : i.token.kind ≠ .eof) : pc i = 1 := by
  unfold pc; rw [if_neg h]

theorem pc_le (i : Input) : pc i ≤ 1 := by
  unfold pc; split <;> omega

/-! ### lines -/

theorem parseLineLoop_w : ∀ (fuel : Nat) (i : Input) (s e : Position) (ts : List Bytes) (l : Line) (i' : Input),
    parseLineLoop fuel i s e ts = .ok (l, i') →
    tsum l.token + Bp i' ≤ tsum ts + Bp i ∧ Cn i' ≤ Cn i ∧ Bp i' ≤ Bp i ∧ cl l.comments = 0 := by
  intro fuel
  induction fuel with
  | zero => intro i s e ts l i' h; simp [parseLineLoop] at h
  | succ n ih =>
    intro i s e ts l i' h
    unfold parseLineLoop at h
    cases hl : lex i with
    | error e => simp [hl, bind, Except.bind] at h
    | ok v =>
      obtain ⟨tok, i1⟩ := v
      obtain ⟨rfl, b1, c1⟩ := lex_w hl
      simp only [hl, bind, Except.bind] at h
      split at h
      · simp only [Except.ok.injEq, Prod.mk.injEq] at h
        obtain ⟨rfl, rfl⟩ := h
        refine ⟨?_, ?_, ?_, rfl⟩ <;> simp only [tsum_reverse, Bp_nextId, Cn_nextId] <;> omega
      · obtain ⟨a, b, c, d⟩ := ih _ _ _ _ _ _ h
        simp only [tsum_cons] at a
        exact ⟨by omega, by omega, by omega, d⟩

theorem parseLine_w {fuel : Nat} {i : Input} {l : Line} {i' : Input} (h : parseLine fuel i = .ok (l, i')) :
    tsum l.token + Bp i' ≤ Bp i ∧ Cn i' + 1 ≤ Cn i ∧ Bp i' ≤ Bp i ∧ cl l.comments = 0 := by
  unfold parseLine at h
  cases hl : lex i with
  | error e => simp [hl, bind, Except.bind] at h
  | ok v =>
    obtain ⟨tok, i1⟩ := v
    obtain ⟨rfl, b1, c1⟩ := lex_w hl
    simp only [hl, bind, Except.bind] at h
    split at h
    · cases h
    · rename_i hk
      have hp : pc i = 1 := pc_of_kind (by intro he; rw [he] at hk; exact hk rfl)
      obtain ⟨a, b, c, d⟩ := parseLineLoop_w _ _ _ _ _ _ _ h
      simp only [tsum_cons, tsum_nil] at a
      exact ⟨by omega, by omega, by omega, d⟩

/-! ### blocks -/

theorem parseLineBlockLoop_w (R : Nat) : ∀ (fuel : Nat) (i : Input) (x : LineBlock) (ls : List Line) (cs : List Comment)
    (b : LineBlock) (i' : Input), parseLineBlockLoop fuel i x ls cs = .ok (b, i') →
    cl b.rparen.comments + NLs b.lines + Cn i' ≤ NLs ls + cs.length + Cn i ∧ b.comments = x.comments ∧ b.lparen = x.lparen ∧
    Bp i' ≤ Bp i ∧ (Bp i ≤ R → (∀ l ∈ ls, tsum l.token ≤ R) → ∀ l ∈ b.lines, tsum l.token ≤ R) := by
  intro fuel
  induction fuel with
  | zero => intro i x ls cs b i' h; simp [parseLineBlockLoop] at h
  | succ n ih =>
    intro i x ls cs b i' h
    unfold parseLineBlockLoop at h
    split at h
    · -- end-of-line comment
      cases hl : lex i with
      | error e => simp [hl, bind, Except.bind] at h
      | ok v =>
        obtain ⟨tok, i1⟩ := v
        obtain ⟨_, b1, c1⟩ := lex_w hl
        simp only [hl, bind, Except.bind] at h
        obtain ⟨a1, a2, a3, a4, a5⟩ := ih _ _ _ _ _ _ h
        exact ⟨by omega, a2, a3, by omega, fun hR hls => a5 (by omega) hls⟩
    · -- blank line
      rename_i hk
      have hp : pc i = 1 := pc_of_kind (by intro he; unfold Input.peek at hk; rw [he] at hk; cases hk)
      cases hl : lex i with
      | error e => simp [hl, bind, Except.bind] at h
      | ok v =>
        obtain ⟨tok, i1⟩ := v
        obtain ⟨_, b1, c1⟩ := lex_w hl
        simp only [hl, bind, Except.bind] at h
        obtain ⟨a1, a2, a3, a4, a5⟩ := ih _ _ _ _ _ _ h
        refine ⟨?_, a2, a3, by omega, fun hR hls => a5 (by omega) hls⟩
        split at a1 <;> split at a1 <;> (try simp only [List.length_cons, List.length_nil] at a1 ⊢) <;> omega
    · -- whole-line comment
      rename_i hk
      have hp : pc i = 1 := pc_of_kind (by intro he; unfold Input.peek at hk; rw [he] at hk; cases hk)
      cases hl : lex i with
      | error e => simp [hl, bind, Except.bind] at h
      | ok v =>
        obtain ⟨tok, i1⟩ := v
        obtain ⟨_, b1, c1⟩ := lex_w hl
        simp only [hl, bind, Except.bind] at h
        obtain ⟨a1, a2, a3, a4, a5⟩ := ih _ _ _ _ _ _ h
        simp only [List.length_cons] at a1
        exact ⟨by omega, a2, a3, by omega, fun hR hls => a5 (by omega) hls⟩
    · cases h
    · -- `)`
      cases hl : lex i with
      | error e => simp [hl, bind, Except.bind] at h
      | ok v =>
        obtain ⟨tok, i1⟩ := v
        obtain ⟨_, b1, c1⟩ := lex_w hl
        simp only [hl, bind, Except.bind] at h
        split at h
        · cases h
        · cases hl2 : lex i1 with
          | error e => simp [hl2] at h
          | ok v2 =>
            obtain ⟨tok2, i2⟩ := v2
            obtain ⟨_, b2, c2⟩ := lex_w hl2
            simp only [hl2, Except.ok.injEq, Prod.mk.injEq] at h
            obtain ⟨rfl, rfl⟩ := h
            refine ⟨?_, rfl, rfl, by omega, fun hR hls l hl => hls l (by simpa using hl)⟩
            simp only [cl, List.length_reverse, List.length_nil, NLs_reverse]
            omega
    · -- a line
      cases hp : parseLine (n + 1) i with
      | error e => simp [hp, bind, Except.bind] at h
      | ok v =>
        obtain ⟨l, i1⟩ := v
        obtain ⟨p1, p2, p3, p4⟩ := parseLine_w hp
        simp only [hp, bind, Except.bind] at h
        obtain ⟨a1, a2, a3, a4, a5⟩ := ih _ _ _ _ _ _ h
        simp only [NLs_cons, NL, cl, List.length_reverse, List.length_nil] at a1 p4 ⊢
        refine ⟨by omega, a2, a3, by omega, fun hR hls => a5 (by omega) ?_⟩
        intro l' hl'
        rcases List.mem_cons.1 hl' with rfl | hl'
        · show tsum l.token ≤ R
          omega
        · exact hls l' hl'

/-! ### statements -/

theorem parseStmtLoop_w (R : Nat) : ∀ (fuel : Nat) (i : Input) (s e : Position) (ts : List Bytes) (x : Expr) (i' : Input),
    parseStmtLoop fuel i s e ts = .ok (x, i') →
    NE x + Cn i' ≤ 1 + Cn i ∧ Bp i' ≤ Bp i ∧ (tsum ts + Bp i ≤ R → TokLe R x) := by
  intro fuel
  induction fuel with
  | zero => intro i s e ts x i' h; simp [parseStmtLoop] at h
  | succ n ih =>
    intro i s e ts x i' h
    unfold parseStmtLoop at h
    cases hl : lex i with
    | error e => simp [hl, bind, Except.bind] at h
    | ok v =>
      obtain ⟨tok, i1⟩ := v
      obtain ⟨rfl, b1, c1⟩ := lex_w hl
      simp only [hl, bind, Except.bind] at h
      split at h
      · simp only [Except.ok.injEq, Prod.mk.injEq] at h
        obtain ⟨rfl, rfl⟩ := h
        simp only [NE, cl, List.length_nil, Bp_nextId, Cn_nextId, TokLe, tsum_reverse]
        exact ⟨by omega, by omega, fun hR => by omega⟩
      · split at h
        · split at h
          · -- a block
            unfold parseLineBlock at h
            cases hb : parseLineBlockLoop (n + 1) i1 { start := s, token := ts.reverse, lparen := { pos := i.token.pos } } [] [] with
            | error e => simp [hb] at h
            | ok v =>
              obtain ⟨b, i2⟩ := v
              simp only [hb, Except.ok.injEq, Prod.mk.injEq] at h
              obtain ⟨rfl, rfl⟩ := h
              obtain ⟨a1, a2, a3, a4, a5⟩ := parseLineBlockLoop_w R _ _ _ _ _ _ _ hb
              simp only [NLs_nil, List.length_nil] at a1
              simp only [NE, a2, a3, cl, List.length_nil]
              unfold cl at a1
              exact ⟨by omega, by omega, fun hR => a5 (by omega) (by intro l hl; cases hl)⟩
          · split at h
            · cases hl2 : lex i1 with
              | error e => simp [hl2] at h
              | ok v2 =>
                obtain ⟨rp, i2⟩ := v2
                obtain ⟨rfl, b2, c2⟩ := lex_w hl2
                simp only [hl2] at h
                split at h
                · cases hl3 : lex i2 with
                  | error e => simp [hl3] at h
                  | ok v3 =>
                    obtain ⟨tok3, i3⟩ := v3
                    obtain ⟨_, b3, c3⟩ := lex_w hl3
                    simp only [hl3, Except.ok.injEq, Prod.mk.injEq] at h
                    obtain ⟨rfl, rfl⟩ := h
                    simp only [NE, cl, List.length_nil, NLs_nil, TokLe]
                    exact ⟨by omega, by omega, fun _ l hl => by cases hl⟩
                · obtain ⟨a1, a2, a3⟩ := ih _ _ _ _ _ _ h
                  simp only [tsum_cons] at a3
                  exact ⟨by omega, by omega, fun hR => a3 (by omega)⟩
            · obtain ⟨a1, a2, a3⟩ := ih _ _ _ _ _ _ h
              simp only [tsum_cons] at a3
              exact ⟨by omega, by omega, fun hR => a3 (by omega)⟩
        · obtain ⟨a1, a2, a3⟩ := ih _ _ _ _ _ _ h
          simp only [tsum_cons] at a3
          exact ⟨by omega, by omega, fun hR => a3 (by omega)⟩

theorem parseStmt_w (R : Nat) {fuel : Nat} {i : Input} {x : Expr} {i' : Input} (h : parseStmt fuel i = .ok (x, i')) :
    NE x + Cn i' + pc i ≤ 1 + Cn i ∧ Bp i' ≤ Bp i ∧ (Bp i ≤ R → TokLe R x) := by
  unfold parseStmt at h
  cases hl : lex i with
  | error e => simp [hl, bind, Except.bind] at h
  | ok v =>
    obtain ⟨tok, i1⟩ := v
    obtain ⟨rfl, b1, c1⟩ := lex_w hl
    simp only [hl, bind, Except.bind] at h
    obtain ⟨a1, a2, a3⟩ := parseStmtLoop_w R _ _ _ _ _ _ _ h
    simp only [tsum_cons, tsum_nil] at a3
    exact ⟨by omega, by omega, fun hR => a3 (by omega)⟩

/-! ### the file -/

/-- the pending comment block of `parseFile` -/
def cbw : Option CommentBlock → Nat
  | none => 0
  | some c => cl c.comments

theorem parseFileLoop_w (R : Nat) : ∀ (fuel : Nat) (i : Input) (sr : List Expr) (cb : Option CommentBlock) (ss : List Expr) (i' : Input),
    parseFileLoop fuel i sr cb = .ok (ss, i') →
    NEs ss + Cn i' ≤ NEs sr + cbw cb + Cn i + 1 ∧
    (Bp i ≤ R → (∀ s ∈ sr, TokLe R s) → ∀ s ∈ ss, TokLe R s) := by
  intro fuel
  induction fuel with
  | zero => intro i sr cb ss i' h; simp [parseFileLoop] at h
  | succ n ih =>
    intro i sr cb ss i' h
    unfold parseFileLoop at h
    split at h
    · -- blank line
      rename_i hk
      have hp : pc i = 1 := pc_of_kind (by intro he; unfold Input.peek at hk; rw [he] at hk; cases hk)
      cases hl : lex i with
      | error e => simp [hl, bind, Except.bind] at h
      | ok v =>
        obtain ⟨tok, i1⟩ := v
        obtain ⟨_, b1, c1⟩ := lex_w hl
        simp only [hl, bind, Except.bind] at h
        cases cb with
        | none =>
          obtain ⟨a1, a2⟩ := ih _ _ _ _ _ h
          simp only [cbw] at a1 ⊢
          exact ⟨by omega, fun hR hs => a2 (by omega) hs⟩
        | some c =>
          obtain ⟨a1, a2⟩ := ih _ _ _ _ _ h
          simp only [cbw, NEs_cons, NE] at a1 ⊢
          refine ⟨by omega, fun hR hs => a2 (by omega) ?_⟩
          intro s hs'
          rcases List.mem_cons.1 hs' with rfl | hs'
          · trivial
          · exact hs s hs'
    · -- whole-line comment
      rename_i hk
      have hp : pc i = 1 := pc_of_kind (by intro he; unfold Input.peek at hk; rw [he] at hk; cases hk)
      cases hl : lex i with
      | error e => simp [hl, bind, Except.bind] at h
      | ok v =>
        obtain ⟨tok, i1⟩ := v
        obtain ⟨_, b1, c1⟩ := lex_w hl
        simp only [hl, bind, Except.bind] at h
        obtain ⟨a1, a2⟩ := ih _ _ _ _ _ h
        refine ⟨?_, fun hR hs => a2 (by omega) hs⟩
        cases cb with
        | none => simp only [cbw, cl, List.length_append, List.length_cons, List.length_nil] at a1 ⊢; omega
        | some c => simp only [cbw, cl, List.length_append, List.length_cons, List.length_nil] at a1 ⊢; omega
    · -- EOF
      cases cb with
      | none =>
        simp only [Except.ok.injEq, Prod.mk.injEq] at h
        obtain ⟨rfl, rfl⟩ := h
        simp only [NEs_reverse, cbw]
        exact ⟨by omega, fun _ hs s hs' => hs s (by simpa using hs')⟩
      | some c =>
        simp only [Except.ok.injEq, Prod.mk.injEq] at h
        obtain ⟨rfl, rfl⟩ := h
        simp only [NEs_reverse, NEs_cons, NE, cbw]
        refine ⟨by omega, fun _ hs s hs' => ?_⟩
        rcases List.mem_cons.1 (List.mem_reverse.1 hs') with rfl | hs'
        · trivial
        · exact hs s hs'
    · -- a statement
      rename_i hk1 hk2 hk3
      have hp : pc i = 1 := pc_of_kind (by intro he; unfold Input.peek at hk3; exact hk3 he)
      cases hs : parseStmt (n + 1) i with
      | error e => simp [hs, bind, Except.bind] at h
      | ok v =>
        obtain ⟨x, i1⟩ := v
        obtain ⟨p1, p2, p3⟩ := parseStmt_w R hs
        simp only [hs, bind, Except.bind] at h
        cases cb with
        | none =>
          obtain ⟨a1, a2⟩ := ih _ _ _ _ _ h
          simp only [cbw, NEs_cons] at a1 ⊢
          refine ⟨by omega, fun hR hs => a2 (by omega) ?_⟩
          intro s hs'
          rcases List.mem_cons.1 hs' with rfl | hs'
          · exact p3 hR
          · exact hs s hs'
        | some c =>
          obtain ⟨a1, a2⟩ := ih _ _ _ _ _ h
          have hse := NE_setComments x { x.comments with before := c.comments.before }
          simp only [cbw, NEs_cons, cl] at a1 hse ⊢
          refine ⟨by omega, fun hR hs => a2 (by omega) ?_⟩
          intro s hs'
          rcases List.mem_cons.1 hs' with rfl | hs'
          · exact (TokLe_setComments R x _).2 (p3 hR)
          · exact hs s hs'

/-- **the parser is paid by the input**: statements, block lines, comments and placeholders of the tree together with the
    recorded end-of-line comments are at most `data.length + 1`; the tokens of every line at most `data.length` bytes -/
theorem parseFile_w {data : Bytes} {ss : List Expr} {i : Input} (h : parseFile data = .ok (ss, i)) :
    NEs ss + i.commentsRev.length ≤ data.length + 1 ∧ ∀ s ∈ ss, TokLe data.length s := by
  unfold parseFile at h
  cases h0 : readToken (newInput data) with
  | error e => simp [h0, bind, Except.bind] at h
  | ok i0 =>
    simp only [h0, bind, Except.bind] at h
    obtain ⟨b0, c0⟩ := readToken_w h0
    have hr : (newInput data).remaining.length = data.length := rfl
    have hc : (newInput data).commentsRev.length = 0 := rfl
    rw [hr] at b0 c0
    rw [hc] at c0
    obtain ⟨a1, a2⟩ := parseFileLoop_w data.length _ _ _ _ _ _ h
    simp only [NEs_nil, cbw] at a1
    refine ⟨?_, a2 b0 (by intro s hs; cases hs)⟩
    have : i.commentsRev.length ≤ Cn i := by unfold Cn; omega
    omega

end ModVerif.Tie.FnRuleFuelB
