/-
  Tie proofs, sumdb/client.go (merge unit: checkTrees, checkRecord, mergeLatestMem, mergeLatest): the INTERFACE.

  * `Normal`: the outcomes of the hand model that have a counterpart as a Go `error` value.  The model's `.fuel`, `.panic`,
    `.tlog .panic`, `.tlog .fuel` are model-only outcomes (the generated code throws `Err.panic` / `Err.fuel` in `M`, no world
    is returned): they are excluded by hypothesis.
  * `TileSpecs P E`: what this unit needs from the units below it (the reads through tiles: `readHashesW`, `treeHashW`,
    `proveTreeW` against the model's `readHashes`, `treeHashVia`, `proveTreeVia`), each with its explicit fuel bound.
  * the EXECUTION hypotheses `CheckTreesOk`, `MergeMemOk`, `MergeLoopOk`, `MergeOk`: range (tree sizes < 2^62), `Normal`
    for every read through tiles the model performs, the `for` loop of `mergeLatest` ends within `P.retries` rounds, and —
    the ONE place where the model and the code differ in what they tell the world — in the fork branch of `checkTrees`
    `ProveTree` itself does not fail (there the Go code prints the error's own text into the SecurityError message, the model
    prints the canonical kind name `Err.name`; see `Tie.FnClientMerge.checkTrees_proveErr_text`).
  * the explicit fuel bounds `checkTreesFuel`, `checkRecordFuel`, `memFuel`, `loopFuel`, `mergeFuel` as functions of the
    bounds in `TileSpecs` along the model's run.
  All ties are stated on `RepRun` (Proofs/TieFnClientRep.lean) and return, next to `RepRun` for the new worlds, the frames
  `FrameG` / `FrameM` (resp. `FrameI`, the part of `FrameG` that `mergeLatestMem` keeps: it replaces `latest`/`latestMsg`).
-/
import ModVerif.Proofs.TieFnClientRep
namespace ModVerif.TieFnClientMerge
open ModVerif ModVerif.GoRt ModVerif.Client ModVerif.Generated.SumdbClient ModVerif.TieFnClientRep

/-- model-only outcomes -/
def Abnormal : Client.Err → Prop
  | .fuel => True
  | .panic => True
  | .tlog .panic => True
  | .tlog .fuel => True
  | _ => False

/-- the result is a value or an error that exists as a Go `error` value -/
def Normal {α : Type} (r : Except Client.Err α) : Prop := ∀ e, r = .error e → ¬ Abnormal e

theorem Normal_ok {α : Type} (a : α) : Normal (.ok a : Except Client.Err α) := by
  intro e h; cases h

section
variable {σ H : Type}

/-- the generated fields `mergeLatestMem` / `mergeLatest` leave alone (all of `FrameG` but `latest`, `latestMsg`) -/
structure FrameI (cw cw' : GW σ H) : Prop where
  didLookup : cw'.didLookup = cw.didLookup
  initDone : cw'.initDone = cw.initDone
  initErr : cw'.initErr = cw.initErr
  name : cw'.name = cw.name
  verifiers : cw'.verifiers = cw.verifiers
  tileHeight : cw'.tileHeight = cw.tileHeight
  nosumdb : cw'.nosumdb = cw.nosumdb
  record : cw'.record = cw.record

theorem FrameI.refl (cw : GW σ H) : FrameI cw cw := ⟨rfl, rfl, rfl, rfl, rfl, rfl, rfl, rfl⟩

theorem FrameI.trans {a b c : GW σ H} (h1 : FrameI a b) (h2 : FrameI b c) : FrameI a c :=
  ⟨h2.didLookup.trans h1.didLookup, h2.initDone.trans h1.initDone, h2.initErr.trans h1.initErr, h2.name.trans h1.name,
    h2.verifiers.trans h1.verifiers, h2.tileHeight.trans h1.tileHeight, h2.nosumdb.trans h1.nosumdb,
    h2.record.trans h1.record⟩

theorem FrameG.toI {cw cw' : GW σ H} (h : FrameG cw cw') : FrameI cw cw' :=
  ⟨h.didLookup, h.initDone, h.initErr, h.name, h.verifiers, h.tileHeight, h.nosumdb, h.record⟩

/-- the model fields `mergeLatestMem` / `mergeLatest` leave alone (all of `FrameM` but `latest`, `latestMsg`) -/
structure FrameJ (w w' : World σ H) : Prop where
  inited : w'.c.inited = w.c.inited
  name : w'.c.name = w.c.name
  verifiers : w'.c.verifiers = w.c.verifiers
  record : w'.c.record = w.c.record

theorem FrameJ.refl (w : World σ H) : FrameJ w w := ⟨rfl, rfl, rfl, rfl⟩

theorem FrameJ.trans {a b c : World σ H} (h1 : FrameJ a b) (h2 : FrameJ b c) : FrameJ a c :=
  ⟨h2.inited.trans h1.inited, h2.name.trans h1.name, h2.verifiers.trans h1.verifiers, h2.record.trans h1.record⟩

theorem FrameM.toJ {w w' : World σ H} (h : FrameM w w') : FrameJ w w' := ⟨h.inited, h.name, h.verifiers, h.record⟩

end

section
variable {σ H : Type} [DecidableEq H] [Inhabited H]

/-! ### what is needed from the reads through tiles -/

/-- `tlog.TileHashReader(tree, &c.tileReader).ReadHashes(indexes)` -/
def ReadHashesSpec (P : Params H) (E : Env σ) (F : World σ H → Head H → List Nat → Nat) : Prop :=
  ∀ (w : World σ H) (cw : GW σ H) (tree : Head H) (idx : List Nat) (fuel : Nat),
    RepRun P E w cw → tree.n < 2 ^ 62 → idx.length < 2 ^ 56 → F w tree idx ≤ fuel →
    Normal (readHashes P E w tree idx).1 →
    ∃ r' cw', readHashesW (envOf P E) fuel (headG tree) (idx.map Int.ofNat) cw = .ok (r', cw') ∧
      RepRun P E (readHashes P E w tree idx).2 cw' ∧ RepRes r' (readHashes P E w tree idx).1 ∧
      FrameG cw cw' ∧ FrameM w (readHashes P E w tree idx).2

/-- `tlog.TreeHash(n, thr)` -/
def TreeHashSpec (P : Params H) (E : Env σ) (F : World σ H → Nat → Head H → Nat) : Prop :=
  ∀ (w : World σ H) (cw : GW σ H) (n : Nat) (tree : Head H) (fuel : Nat),
    RepRun P E w cw → tree.n < 2 ^ 62 → n ≤ 2 ^ 62 → F w n tree ≤ fuel →
    Normal (treeHashVia P E w n tree).1 →
    ∃ r' cw', treeHashW (envOf P E) fuel (n : Int) (headG tree) cw = .ok (r', cw') ∧
      RepRun P E (treeHashVia P E w n tree).2 cw' ∧ RepRes r' (treeHashVia P E w n tree).1 ∧
      FrameG cw cw' ∧ FrameM w (treeHashVia P E w n tree).2

/-- `tlog.ProveTree(t, n, thr)` -/
def ProveTreeSpec (P : Params H) (E : Env σ) (F : World σ H → Nat → Nat → Head H → Nat) : Prop :=
  ∀ (w : World σ H) (cw : GW σ H) (t n : Nat) (tree : Head H) (fuel : Nat),
    RepRun P E w cw → tree.n < 2 ^ 62 → t ≤ 2 ^ 62 → F w t n tree ≤ fuel →
    Normal (proveTreeVia P E w t n tree).1 →
    ∃ r' cw', proveTreeW (envOf P E) fuel (t : Int) (n : Int) (headG tree) cw = .ok (r', cw') ∧
      RepRun P E (proveTreeVia P E w t n tree).2 cw' ∧ RepRes r' (proveTreeVia P E w t n tree).1 ∧
      FrameG cw cw' ∧ FrameM w (proveTreeVia P E w t n tree).2

/-- the three ties below this unit, with their fuel bounds -/
structure TileSpecs (P : Params H) (E : Env σ) where
  FR : World σ H → Head H → List Nat → Nat
  FT : World σ H → Nat → Head H → Nat
  FP : World σ H → Nat → Nat → Head H → Nat
  readHashes : ReadHashesSpec P E FR
  treeHash : TreeHashSpec P E FT
  proveTree : ProveTreeSpec P E FP

/-! ### execution hypotheses -/

/-- `checkTrees(older, _, newer, _)` from `w`: sizes in range, the read for `TreeHash` is normal, and in the fork branch
    `ProveTree` answers a proof -/
def CheckTreesOk (P : Params H) (E : Env σ) (w : World σ H) (older newer : Head H) : Prop :=
  older.n < 2 ^ 62 ∧ newer.n < 2 ^ 62 ∧ Normal (treeHashVia P E w older.n newer).1 ∧
  ∀ h, (treeHashVia P E w older.n newer).1 = .ok h → h ≠ older.hash →
    ∃ p, (proveTreeVia P E (treeHashVia P E w older.n newer).2 newer.n older.n newer).1 = .ok p

/-- `mergeLatestMem(msg)` from `w`: the one `checkTrees` call it makes -/
def MergeMemOk (P : Params H) (E : Env σ) (w : World σ H) (msg : Bytes) : Prop :=
  msg.isEmpty = false → ∀ tree, openTree P w.c.verifiers msg = .ok tree →
    if tree.n ≤ w.c.latest.n then CheckTreesOk P E w tree w.c.latest else CheckTreesOk P E w w.c.latest tree

/-- `c.ops.ReadConfig(c.name + "/latest")` at the head of a round of the `for` loop of `mergeLatest`: the answer … -/
def cfgMsg (E : Env σ) (w : World σ H) : Option Bytes := (readConfig E w (latestFile w.c.name)).1

/-- … and the world after it -/
def cfgWorld (E : Env σ) (w : World σ H) : World σ H := (readConfig E w (latestFile w.c.name)).2

/-- `c.ops.WriteConfig(c.name + "/latest", msg, c.latestMsg)` at the end of a round -/
def writeBack (E : Env σ) (w : World σ H) (msg : Bytes) : WriteRes × World σ H :=
  writeConfig E w (latestFile w.c.name) msg w.c.latestMsg

/-- the `for` loop of `mergeLatest` from `w` ends within `f` rounds, every round's `mergeLatestMem` is ok -/
def MergeLoopOk (P : Params H) (E : Env σ) : Nat → World σ H → Prop
  | 0, _ => False
  | f + 1, w =>
    ∀ msg, cfgMsg E w = some msg →
      MergeMemOk P E (cfgWorld E w) msg ∧
      ((mergeLatestMem P E (cfgWorld E w) msg).1 = .ok .past →
        (writeBack E (mergeLatestMem P E (cfgWorld E w) msg).2 msg).1 = .conflict →
        MergeLoopOk P E f (writeBack E (mergeLatestMem P E (cfgWorld E w) msg).2 msg).2)

/-- `mergeLatest(msg)` from `w` -/
def MergeOk (P : Params H) (E : Env σ) (w : World σ H) (msg : Bytes) : Prop :=
  MergeMemOk P E w msg ∧
  ((mergeLatestMem P E w msg).1 = .ok .future → MergeLoopOk P E P.retries (mergeLatestMem P E w msg).2)

/-- `checkRecord(id, _)` from `w`: the size of the latest tree in range -/
def CheckRecordOk (P : Params H) (E : Env σ) (w : World σ H) (id : Int) (data : Bytes) : Prop :=
  w.c.latest.n < 2 ^ 62 ∧ Normal (checkRecord P E w id data).1

/-! ### fuel -/

variable {P : Params H} {E : Env σ}

/-- fuel of `checkTrees`: the two reads, `CheckTree` (`newer.n`) and the loop over the proof (at most `newer.n` lines) -/
def checkTreesFuel (S : TileSpecs P E) (w : World σ H) (older newer : Head H) : Nat :=
  max (S.FT w older.n newer)
    (max (S.FP (treeHashVia P E w older.n newer).2 newer.n older.n newer) (newer.n + 2))

/-- the index `checkRecord` reads -/
def recordIndex (id : Int) : Nat := if id < 0 then 0 else Tlog.storedHashIndex 0 id.toNat

/-- fuel of `checkRecord`: `StoredHashIndex` (64) and the read -/
def checkRecordFuel (S : TileSpecs P E) (w : World σ H) (id : Int) : Nat :=
  max 64 (S.FR w w.c.latest [recordIndex id])

/-- fuel of `mergeLatestMem`: `note.Open` (one unit per byte of the message) and one round of its loop -/
def memFuel (S : TileSpecs P E) (w : World σ H) (msg : Bytes) : Nat :=
  match openTree P w.c.verifiers msg with
  | .error _ => msg.length + 1
  | .ok tree =>
    max (msg.length + 1)
      (1 + (if tree.n ≤ w.c.latest.n then checkTreesFuel S w tree w.c.latest else checkTreesFuel S w w.c.latest tree))

/-- fuel of the write-back at the end of a round: what the next round needs when `WriteConfig` answers
    `ErrWriteConflict` -/
def writeFuel (next : World σ H → Nat) (w : World σ H) (msg : Bytes) : Nat :=
  match (writeBack E w msg).1 with
  | .conflict => next (writeBack E w msg).2
  | _ => 0

/-- fuel of a round after `ReadConfig` answered `msg` -/
def roundFuel (S : TileSpecs P E) (next : World σ H → Nat) (w0 : World σ H) (msg : Bytes) : Nat :=
  max (memFuel S w0 msg)
    (match (mergeLatestMem P E w0 msg).1 with
     | .ok .past => writeFuel (E := E) next (mergeLatestMem P E w0 msg).2 msg
     | _ => 0)

/-- fuel of the `for` loop of `mergeLatest`: one unit per round the model goes around (at most `f`), above the fuel of every
    round's `mergeLatestMem` -/
def loopFuel (S : TileSpecs P E) : Nat → World σ H → Nat
  | 0, _ => 0
  | f + 1, w =>
    match cfgMsg E w with
    | none => 1
    | some msg => 1 + roundFuel S (loopFuel S f) (cfgWorld E w) msg

/-- fuel of `mergeLatest` -/
def mergeFuel (S : TileSpecs P E) (w : World σ H) (msg : Bytes) : Nat :=
  max (memFuel S w msg) (loopFuel S P.retries (mergeLatestMem P E w msg).2)

end

end ModVerif.TieFnClientMerge
