/-
  C20 `modulePath_agrees`, string level: `TrimSpace`, `Index`, `Split` on the shapes that occur on the
  source line of a module directive, and what the line scanner `modulePathLine` returns on such a line.
-/
import ModVerif.Model.Modfile.Rule
import ModVerif.Proofs.ModfileC20Lay
namespace ModVerif.Proofs.ModfileC20
open ModVerif ModVerif.Modfile ModVerif.Proofs.ModfileLex ModVerif.Proofs.ModfileC20Utf8

/-- an ASCII byte that is not white space -/
def NS (b : UInt8) : Prop := b.toNat < 128 ∧ UnicodePrint.isSpace b.toNat = false

theorem ws_space {b : UInt8} (h : b = 32 ∨ b = 9 ∨ b = 13) : b.toNat < 128 ∧ UnicodePrint.isSpace b.toNat = true := by
  rcases h with rfl | rfl | rfl <;> exact ⟨by decide, by decide⟩

theorem trimLeftAux_ws : ∀ (W : Bytes) (fuel : Nat) (c : UInt8) (rest : Bytes), WS W → NS c → W.length < fuel →
    GoStrings.trimLeftSpaceAux fuel (W ++ c :: rest) = c :: rest := by
  intro W
  induction W with
  | nil =>
    intro fuel c rest _ hc hf
    cases fuel with
    | zero => omega
    | succ n =>
      simp only [List.nil_append, GoStrings.trimLeftSpaceAux]
      rw [decodeRune_ascii c rest hc.1]
      simp [hc.2]
  | cons w W ih =>
    intro fuel c rest hw hc hf
    cases fuel with
    | zero => simp at hf
    | succ n =>
      have hw0 := ws_space (hw w (by simp))
      simp only [List.cons_append, GoStrings.trimLeftSpaceAux]
      rw [decodeRune_ascii w _ hw0.1]
      simp only [hw0.2, if_true, List.drop_succ_cons, List.drop_zero]
      exact ih n c rest (fun b hb => hw b (List.mem_cons_of_mem _ hb)) hc (by simpa using hf)

theorem trimLeft_ws (W : Bytes) (c : UInt8) (rest : Bytes) (hw : WS W) (hc : NS c) :
    GoStrings.trimLeftSpace (W ++ c :: rest) = c :: rest := by
  unfold GoStrings.trimLeftSpace
  exact trimLeftAux_ws W _ c rest hw hc (by simp)

theorem decodeLast_ascii (b : UInt8) (rest : Bytes) (h : b.toNat < 128) :
    GoStrings.decodeLastRuneRev (b :: rest) = (b.toNat, 1) := by
  unfold GoStrings.decodeLastRuneRev
  simp [h]

theorem trimRightScan_ws : ∀ (Wrev : Bytes) (fuel : Nat) (c : UInt8) (preRev tail : Bytes), WS Wrev → NS c →
    Wrev.length < fuel →
    GoStrings.trimRightScan fuel (Wrev ++ c :: preRev) tail = some (preRev, c :: (Wrev.reverse ++ tail)) := by
  intro Wrev
  induction Wrev with
  | nil =>
    intro fuel c preRev tail _ hc hf
    cases fuel with
    | zero => omega
    | succ n =>
      simp only [List.nil_append, GoStrings.trimRightScan]
      rw [decodeLast_ascii c preRev hc.1]
      simp [hc.2]
  | cons w W ih =>
    intro fuel c preRev tail hw hc hf
    cases fuel with
    | zero => simp at hf
    | succ n =>
      have hw0 := ws_space (hw w (by simp))
      simp only [List.cons_append, GoStrings.trimRightScan]
      rw [decodeLast_ascii w _ hw0.1]
      simp only [hw0.2, if_true, List.drop_succ_cons, List.drop_zero, List.take_succ_cons, List.take_zero,
        List.reverse_cons, List.reverse_nil, List.nil_append]
      rw [ih n c preRev ([w] ++ tail) (fun b hb => hw b (List.mem_cons_of_mem _ hb)) hc (by simpa using hf)]
      simp

theorem trimRight_ws (pre : Bytes) (c : UInt8) (W : Bytes) (hw : WS W) (hc : NS c) :
    GoStrings.trimRightSpace (pre ++ c :: W) = pre ++ [c] := by
  unfold GoStrings.trimRightSpace
  have hrev : (pre ++ c :: W).reverse = W.reverse ++ c :: pre.reverse := by simp
  rw [hrev, trimRightScan_ws W.reverse _ c pre.reverse [] (fun b hb => hw b (List.mem_reverse.mp hb)) hc
    (by simp; omega)]
  simp only [List.reverse_reverse, List.append_nil]
  have : ¬ c.toNat ≥ 128 := by have := hc.1; omega
  simp [this]

/-- `TrimSpace` of blanks, a core that starts and ends with non-space ASCII bytes, blanks -/
theorem trimSpace_core (W0 W2 mid : Bytes) (c0 c1 : UInt8) (pre : Bytes) (h0 : WS W0) (h2 : WS W2)
    (hc0 : NS c0) (hc1 : NS c1) (hcore : c0 :: mid = pre ++ [c1]) :
    GoStrings.trimSpace (W0 ++ (c0 :: mid) ++ W2) = c0 :: mid := by
  unfold GoStrings.trimSpace
  rw [List.append_assoc, List.cons_append, trimLeft_ws W0 c0 _ h0 hc0, ← List.cons_append, hcore, List.append_assoc,
    List.singleton_append, trimRight_ws pre c1 W2 h2 hc1]


/-! ### strings.Index -/

theorem indexAux_found (sub : Bytes) (hsub : sub ≠ []) : ∀ (n : Nat) (s : Bytes) (i : Nat),
    (∀ k < n, isPrefixOfB sub (s.drop k) = false) → isPrefixOfB sub (s.drop n) = true →
    GoStrings.indexAux sub s i = some (i + n) := by
  intro n
  induction n with
  | zero =>
    intro s i _ h
    cases s with
    | nil =>
      cases sub with
      | nil => exact absurd rfl hsub
      | cons a t => simp [isPrefixOfB] at h
    | cons c rest =>
      simp only [List.drop_zero] at h
      simp [GoStrings.indexAux, h]
  | succ n ih =>
    intro s i hno h
    cases s with
    | nil =>
      cases sub with
      | nil => exact absurd rfl hsub
      | cons a t => simp [isPrefixOfB] at h
    | cons c rest =>
      have h0 := hno 0 (by omega)
      simp only [List.drop_zero] at h0
      simp only [GoStrings.indexAux, h0, Bool.false_eq_true, if_false]
      have := ih rest (i + 1) (fun k hk => by simpa using hno (k + 1) (by omega)) (by simpa using h)
      rw [this]; congr 1; omega

theorem indexAux_none (sub : Bytes) (hsub : sub ≠ []) : ∀ (s : Bytes) (i : Nat),
    (∀ k, isPrefixOfB sub (s.drop k) = false) → GoStrings.indexAux sub s i = none := by
  intro s
  induction s with
  | nil =>
    intro i _
    cases sub with
    | nil => exact absurd rfl hsub
    | cons a t => simp [GoStrings.indexAux]
  | cons c rest ih =>
    intro i hno
    have h0 := hno 0
    simp only [List.drop_zero] at h0
    simp only [GoStrings.indexAux, h0, Bool.false_eq_true, if_false]
    exact ih (i + 1) (fun k => by simpa using hno (k + 1))

theorem slashes_prefix {t : Bytes} : isPrefixOfB [47, 47] t = true ↔ ∃ r, t = 47 :: 47 :: r := by
  rw [isPrefixOfB_iff]
  constructor
  · rintro ⟨r, rfl⟩; exact ⟨r, rfl⟩
  · rintro ⟨r, rfl⟩; exact ⟨r, rfl⟩

/-- cutting a line at the first `//`: when the part `S` before the comment has no `//` and does not end
    with `/`, the cut returns `S` -/
theorem strip_comment (S R : Bytes) (hno : ¬ [47, 47] <:+: S) (hlast : S.getLast? ≠ some 47)
    (hR : R = [] ∨ [47, 47] <+: R) :
    (match GoStrings.index (S ++ R) [47, 47] with
     | some i => (S ++ R).take i
     | none => S ++ R : Bytes) = S := by
  have hbefore : ∀ k < S.length, isPrefixOfB [47, 47] ((S ++ R).drop k) = false := by
    intro k hk
    cases hp : isPrefixOfB [47, 47] ((S ++ R).drop k) with
    | false => rfl
    | true =>
      exfalso
      obtain ⟨r, hr⟩ := slashes_prefix.mp hp
      rw [List.drop_append_of_le_length (by omega)] at hr
      have hsplit : S = S.take k ++ S.drop k := (List.take_append_drop k S).symm
      cases hd : S.drop k with
      | nil =>
        have := congrArg List.length hd
        simp at this; omega
      | cons c S' =>
        rw [hd] at hr
        simp only [List.cons_append, List.cons.injEq] at hr
        obtain ⟨rfl, hr⟩ := hr
        cases S' with
        | nil =>
          apply hlast
          rw [hsplit, hd]; simp
        | cons c' S'' =>
          simp only [List.cons_append, List.cons.injEq] at hr
          obtain ⟨rfl, _⟩ := hr
          apply hno
          exact ⟨S.take k, S'', by rw [List.append_assoc]; simpa [hd] using hsplit.symm⟩
  unfold GoStrings.index
  rcases hR with rfl | hR
  · rw [List.append_nil] at hbefore ⊢
    rw [indexAux_none [47, 47] (by simp) S 0]
    intro k
    by_cases hk : k < S.length
    · exact hbefore k hk
    · rw [List.drop_eq_nil_of_le (by omega)]; rfl
  · have hat : isPrefixOfB [47, 47] ((S ++ R).drop S.length) = true := by
      rw [List.drop_left]; exact isPrefixOfB_iff.mpr hR
    rw [indexAux_found [47, 47] (by simp) S.length (S ++ R) 0 hbefore hat]
    simp


/-! ### the line scanner on the source line of a module directive -/

theorem slashes_infix_append {A C : Bytes} (h : [47, 47] <:+: A ++ C) :
    [47, 47] <:+: A ∨ [47, 47] <:+: C ∨ (A.getLast? = some 47 ∧ C.head? = some 47) := by
  obtain ⟨p, q, hpq⟩ := h
  rw [List.append_assoc] at hpq
  rcases List.append_eq_append_iff.mp hpq.symm with ⟨a', hp, hC⟩ | ⟨c', hA, hc⟩
  · right; left
    exact ⟨a', q, by rw [hC, List.append_assoc]⟩
  · -- A = p ++ c', [47,47] ++ q = c' ++ C
    match c', hA, hc with
    | [], hA, hc =>
      right; left
      exact ⟨[], q, by simpa using hc⟩
    | [x], hA, hc =>
      simp only [List.cons_append, List.nil_append, List.cons.injEq] at hc
      right; right
      refine ⟨by rw [hA, ← hc.1]; simp, by rw [← hc.2]; rfl⟩
    | x :: y :: c'', hA, hc =>
      simp only [List.cons_append, List.cons.injEq] at hc
      left
      exact ⟨p, c'', by rw [hA, ← hc.1, ← hc.2.1]; simp⟩


def modB : Bytes := [109, 111, 100, 117, 108, 101]

theorem B_module : B "module" = modB := by decide +kernel

def No47 (l : Bytes) : Prop := ∀ b ∈ l, b ≠ 47

theorem No47.noInfix {l : Bytes} (h : No47 l) : ¬ [47, 47] <:+: l := by
  rintro ⟨p, q, rfl⟩
  exact h 47 (by simp) rfl

theorem No47.last {l : Bytes} (h : No47 l) : l.getLast? ≠ some 47 := by
  intro hl
  exact h 47 (List.mem_of_getLast? hl) rfl

theorem No47.head {l : Bytes} (h : No47 l) : l.head? ≠ some 47 := by
  intro hl
  exact h 47 (List.mem_of_head? hl) rfl

theorem No47.append {a b : Bytes} (ha : No47 a) (hb : No47 b) : No47 (a ++ b) := by
  intro x hx
  rcases List.mem_append.mp hx with h | h
  · exact ha x h
  · exact hb x h

theorem WS.no47 {g : Bytes} (h : WS g) : No47 g := by
  intro b hb hb47
  rcases h b hb with rfl | rfl | rfl <;> cases hb47

theorem modB_no47 : No47 modB := by
  intro b hb
  simp only [modB, List.mem_cons, List.not_mem_nil, or_false] at hb
  rcases hb with rfl | rfl | rfl | rfl | rfl | rfl <;> decide

/-- the line with its `//` comment cut off -/
def stripC (line : Bytes) : Bytes :=
  match GoStrings.index line [47, 47] with
  | some i => line.take i
  | none => line

/-- `modulePathLine` after the comment has been cut off -/
def afterStrip (line : Bytes) : Option Bytes :=
  let line := GoStrings.trimSpace line
  if !isPrefixOfB (B "module") line then none else
  let line := line.drop 6
  let n := line.length
  let line := GoStrings.trimSpace line
  if line.length == n || line.isEmpty then none else
  match line with
  | c :: _ =>
    if c == 34 || c == 96 then
      match Quote.unquote line with
      | none => some []
      | some p => some p
    else some line
  | [] => none

theorem modulePathLine_eq (line : Bytes) : modulePathLine line = afterStrip (stripC line) := by
  unfold modulePathLine stripC afterStrip
  cases GoStrings.index line [47, 47] <;> rfl

/-- What `modulePathLine` returns on `blanks module blanks tok blanks [// comment]`. -/
theorem modulePathLine_directive (W0 W1 W2 R tok path : Bytes) (c0 c1 : UInt8) (mid pre : Bytes)
    (h0 : WS W0) (h1 : WS W1) (h2 : WS W2) (h1ne : W1 ≠ [])
    (htok0 : tok = c0 :: mid) (htok1 : tok = pre ++ [c1]) (hc0 : NS c0) (hc1 : NS c1) (hc1' : c1 ≠ 47)
    (hnosl : ¬ [47, 47] <:+: tok) (hR : R = [] ∨ [47, 47] <+: R)
    (hval : (c0 = 34 ∧ Quote.unquote tok = some path) ∨ (c0 ≠ 34 ∧ c0 ≠ 96 ∧ path = tok)) :
    modulePathLine (W0 ++ modB ++ W1 ++ tok ++ W2 ++ R) = some path := by
  -- the part before the comment
  have hP : No47 (W0 ++ modB ++ W1) := (h0.no47.append modB_no47).append h1.no47
  have hS_no : ¬ [47, 47] <:+: (W0 ++ modB ++ W1 ++ tok ++ W2) := by
    intro h
    rcases slashes_infix_append h with h | h | ⟨_, h⟩
    · rcases slashes_infix_append h with h | h | ⟨h, _⟩
      · exact hP.noInfix h
      · exact hnosl h
      · exact hP.last h
    · exact h2.no47.noInfix h
    · exact h2.no47.head h
  have hS_last : (W0 ++ modB ++ W1 ++ tok ++ W2).getLast? ≠ some 47 := by
    cases W2 with
    | nil =>
      rw [List.append_nil, htok1, ← List.append_assoc]
      simp [hc1']
    | cons w W2' =>
      intro h
      rw [List.getLast?_append] at h
      simp only [Option.or_eq_some_iff] at h
      rcases h with h | ⟨h, _⟩
      · exact h2.no47.last h
      · cases hg : (w :: W2').getLast? with
        | none => simp at hg
        | some v => rw [hg] at h; cases h
  rw [modulePathLine_eq]
  have hstrip : stripC (W0 ++ modB ++ W1 ++ tok ++ W2 ++ R) = W0 ++ modB ++ W1 ++ tok ++ W2 :=
    strip_comment _ R hS_no hS_last hR
  rw [hstrip]
  unfold afterStrip
  simp only
  -- TrimSpace of the stripped line
  have hm : NS 109 := ⟨by decide, by decide⟩
  have hcore : (109 : UInt8) :: ([111, 100, 117, 108, 101] ++ W1 ++ tok) = (modB ++ W1 ++ pre) ++ [c1] := by
    rw [htok1]; simp [modB]
  have htrim1 : GoStrings.trimSpace (W0 ++ modB ++ W1 ++ tok ++ W2) = modB ++ W1 ++ tok := by
    have := trimSpace_core W0 W2 ([111, 100, 117, 108, 101] ++ W1 ++ tok) 109 c1 (modB ++ W1 ++ pre) h0 h2 hm hc1 hcore
    simpa [modB, List.append_assoc] using this
  rw [htrim1, B_module]
  have hpre : isPrefixOfB modB (modB ++ W1 ++ tok) = true := by
    rw [List.append_assoc]; exact isPrefixOfB_iff.mpr (List.prefix_append _ _)
  simp only [hpre, Bool.not_true, Bool.false_eq_true, if_false]
  have hdrop : (modB ++ W1 ++ tok).drop 6 = W1 ++ tok := by
    rw [List.append_assoc]
    exact List.drop_left' (by rfl)
  rw [hdrop]
  have htrim2 : GoStrings.trimSpace (W1 ++ tok) = tok := by
    have := trimSpace_core W1 [] mid c0 c1 pre h1 WS.nil hc0 hc1 (by rw [← htok0, htok1])
    simpa [← htok0] using this
  rw [htrim2]
  have hlen : ((tok.length == (W1 ++ tok).length) || tok.isEmpty) = false := by
    have : W1.length ≠ 0 := by
      intro h; exact h1ne (List.eq_nil_of_length_eq_zero h)
    simp only [List.length_append, Bool.or_eq_false_iff, beq_eq_false_iff_ne, ne_eq]
    refine ⟨by omega, by rw [htok0]; rfl⟩
  simp only [hlen, Bool.false_eq_true, if_false]
  rw [htok0]
  simp only
  rcases hval with ⟨rfl, hu⟩ | ⟨hn34, hn96, rfl⟩
  · simp only [beq_self_eq_true, Bool.true_or, if_true]
    rw [← htok0, hu]
  · have e1 : (c0 == 34) = false := by simpa using hn34
    have e2 : (c0 == 96) = false := by simpa using hn96
    simp only [e1, e2, Bool.or_self, Bool.false_eq_true, if_false]
    rw [htok0]


/-! ### source lines -/

theorem splitOn_ne_nil (sep : UInt8) : ∀ (s : Bytes), splitOn sep s ≠ [] := by
  intro s
  induction s with
  | nil => simp [splitOn]
  | cons c rest ih =>
    unfold splitOn
    split
    · simp
    · split
      · rename_i h; exact absurd h ih
      · simp

theorem splitOn_cons_ne (sep c : UInt8) (rest : Bytes) (h : (c == sep) = false) :
    splitOn sep (c :: rest) = (c :: (splitOn sep rest).headD []) :: (splitOn sep rest).tail := by
  conv => lhs; unfold splitOn
  simp only [h, Bool.false_eq_true, if_false]
  cases hs : splitOn sep rest with
  | nil => exact absurd hs (splitOn_ne_nil sep rest)
  | cons a t => rfl

theorem splitOn_head (C : Bytes) : (splitOn 10 C)[0]? = some (C.takeWhile (· != 10)) := by
  induction C with
  | nil => rfl
  | cons c rest ih =>
    cases hc : (c == 10) with
    | true =>
      have : c = 10 := by simpa using hc
      subst this
      simp [splitOn]
    | false =>
      rw [splitOn_cons_ne 10 c rest hc]
      have hne : (c != 10) = true := by simp [bne, hc]
      simp only [List.getElem?_cons_zero, List.takeWhile_cons, hne, if_true]
      cases hs : splitOn 10 rest with
      | nil => exact absurd hs (splitOn_ne_nil 10 rest)
      | cons a t =>
        rw [hs] at ih
        simp only [List.getElem?_cons_zero, Option.some.injEq] at ih
        simp [ih]

theorem takeWhile_snoc {α : Type} (p : α → Bool) (c : α) : ∀ (l : List α),
    (l ++ [c]).takeWhile p = if l.all p then l ++ (if p c then [c] else []) else l.takeWhile p := by
  intro l
  induction l with
  | nil => cases h : p c <;> simp [List.takeWhile, h]
  | cons a t ih =>
    simp only [List.cons_append, List.takeWhile_cons, List.all_cons]
    cases hpa : p a with
    | true => simp only [if_true, Bool.true_and, ih]; split <;> rfl
    | false => simp

theorem takeWhile_all {α : Type} (p : α → Bool) : ∀ (l : List α), l.all p = true → l.takeWhile p = l := by
  intro l
  induction l with
  | nil => intro _; rfl
  | cons a t ih =>
    intro h
    simp only [List.all_cons, Bool.and_eq_true] at h
    simp [h.1, ih h.2]

theorem lastLine_all (A : Bytes) (h : A.all (· != 10) = true) : lastLine A = A := by
  unfold lastLine
  rw [takeWhile_all _ _ (by simpa using h), List.reverse_reverse]

theorem lastLine_cons (c : UInt8) (A : Bytes) :
    lastLine (c :: A) = if A.all (· != 10) then (if c != 10 then c :: A else A) else lastLine A := by
  unfold lastLine
  rw [List.reverse_cons, takeWhile_snoc]
  have hall : A.reverse.all (· != 10) = A.all (· != 10) := by simp
  rw [hall]
  split
  · split <;> simp
  · rfl

theorem count_zero_all (A : Bytes) : A.count 10 = 0 ↔ A.all (· != 10) = true := by
  rw [List.count_eq_zero]
  simp only [List.all_eq_true, bne_iff_ne, ne_eq]
  constructor
  · intro h x hx hx10; exact h (hx10 ▸ hx)
  · intro h hm; exact h 10 hm rfl

/-- the source line that contains byte offset `|A|` of `A ++ C` -/
theorem splitOn_line : ∀ (A C : Bytes),
    (splitOn 10 (A ++ C))[A.count 10]? = some (lastLine A ++ C.takeWhile (· != 10)) := by
  intro A
  induction A with
  | nil => intro C; simpa [lastLine] using splitOn_head C
  | cons c A ih =>
    intro C
    cases hc : (c == 10) with
    | true =>
      have : c = 10 := by simpa using hc
      subst this
      have hs : splitOn 10 (10 :: (A ++ C)) = [] :: splitOn 10 (A ++ C) := by
        conv => lhs; unfold splitOn
        simp
      rw [List.cons_append, hs, List.count_cons_self, List.getElem?_cons_succ, ih C, lastLine_cons]
      have : ((10 : UInt8) != 10) = false := by decide
      simp only [this, Bool.false_eq_true, if_false]
      split
      · rename_i h; rw [lastLine_all A h]
      · rfl
    | false =>
      have hne : (c != 10) = true := by simp [bne, hc]
      have hcne : c ≠ 10 := by simpa using hc
      rw [List.cons_append, splitOn_cons_ne 10 c _ hc, List.count_cons_of_ne hcne, lastLine_cons]
      simp only [hne, if_true]
      cases hk : A.count 10 with
      | zero =>
        have hall := (count_zero_all A).mp hk
        have := ih C
        rw [hk] at this
        simp only [hall, if_true, List.getElem?_cons_zero]
        cases hs : splitOn 10 (A ++ C) with
        | nil => exact absurd hs (splitOn_ne_nil 10 _)
        | cons a t =>
          rw [hs] at this
          simp only [List.getElem?_cons_zero, Option.some.injEq] at this
          simp [this, lastLine_all A hall]
      | succ k =>
        have hnall : ¬ A.all (· != 10) = true := by
          intro h; rw [(count_zero_all A).mpr h] at hk; cases hk
        have := ih C
        rw [hk] at this
        simp only [hnall, if_false, List.getElem?_cons_succ]
        cases hs : splitOn 10 (A ++ C) with
        | nil => exact absurd hs (splitOn_ne_nil 10 _)
        | cons a t =>
          rw [hs] at this
          simpa using this

/-- the scanner returns the first line it does not skip -/
theorem modulePathLines_at : ∀ (lines : List Bytes) (k : Nat) (L p : Bytes),
    (∀ j, j < k → ∀ ln, lines[j]? = some ln → modulePathLine ln = none) → lines[k]? = some L →
    modulePathLine L = some p → modulePathLines lines = p := by
  intro lines
  induction lines with
  | nil => intro k L p _ h; simp at h
  | cons l rest ih =>
    intro k L p hbefore hk hL
    unfold modulePathLines
    cases k with
    | zero =>
      simp only [List.getElem?_cons_zero, Option.some.injEq] at hk
      subst hk
      rw [hL]
    | succ k =>
      rw [hbefore 0 (by omega) l rfl]
      simp only
      exact ih k L p (fun j hj ln hln => hbefore (j + 1) (by omega) ln (by simpa using hln)) (by simpa using hk) hL

end ModVerif.Proofs.ModfileC20
