/-
  EditRefine, part 5 — every go.mod edit operation of the model, on the typed lists, is the specification's `step`.

  For each operation `op` with valid arguments: if the model returns `.ok e'` then `stepOk` holds and
  `absLive e'.f` is `step (absLive e.f) op` (equal, or `Rel`ated for the bulk setters and for retraction
  rationales); if the model returns a (non-panic) error, `stepOk` is false.  The validity predicates of the
  specification are instantiated by the model's own checks (`mV`).
-/
import ModVerif.Proofs.EditRefineAbs
import ModVerif.Proofs.EditRefineRel
set_option linter.unusedSimpArgs false
namespace ModVerif.Modfile.Edit
open ModVerif ModVerif.Modfile ModVerif.EditSpec

/-- the validity checks the Go functions perform, as the model computes them -/
def mV : Validity := ⟨goVersionRE, toolchainRE, checkCanonicalVersion⟩

theorem TInv.of_same {e e' : EFile} (h : TInv e) (hX : e'.f.exclude = e.f.exclude) (hR : e'.f.replace = e.f.replace)
    (hT : e'.f.tool = e.f.tool) (hn : e.next ≤ e'.next) : TInv e' := by
  refine TInv.of_sublist h (by rw [hX]; exact h.wfX) (by rw [hR]; exact h.wfR) (by rw [hT]; exact h.wfT) ?_ hn
  unfold idsOf; rw [hX, hR, hT]; exact List.Sublist.refl _

/-! ### scalars -/

theorem addModuleStmt_abs (e : EFile) (p : Bytes) (h : TInv e) :
    absLive (addModuleStmt e p).f = { absLive e.f with module := some p } ∧ TInv (addModuleStmt e p) := by
  unfold addModuleStmt
  cases hm : e.f.module with
  | none => exact ⟨by simp [absLive], h.of_same rfl rfl rfl (Nat.le_succ _)⟩
  | some m => exact ⟨by simp [absLive], h.of_same rfl rfl rfl (Nat.le_refl _)⟩

theorem addGoStmt_abs (e : EFile) (v : Bytes) (h : TInv e) :
    (∀ e', addGoStmt e v = .ok e' → goVersionRE v = true ∧ absLive e'.f = { absLive e.f with go := some v } ∧ TInv e') ∧
    (∀ err, addGoStmt e v = .error err → goVersionRE v = false) := by
  unfold addGoStmt
  by_cases hv : goVersionRE v = true
  · simp only [hv, Bool.not_true, Bool.false_eq_true, if_false]
    cases hg : e.f.go with
    | none =>
      refine ⟨?_, (by intro err h; cases h)⟩
      intro e' he; cases he
      exact ⟨trivial, by simp [absLive], h.of_same rfl rfl rfl (Nat.le_succ _)⟩
    | some g =>
      refine ⟨?_, (by intro err h; cases h)⟩
      intro e' he; cases he
      exact ⟨trivial, by simp [absLive], h.of_same rfl rfl rfl (Nat.le_refl _)⟩
  · simp only [Bool.not_eq_true] at hv
    simp only [hv, Bool.not_false, if_true]
    exact ⟨(by intro e' h; cases h), fun _ _ => trivial⟩

theorem dropGoStmt_abs (e : EFile) (h : TInv e) :
    absLive (dropGoStmt e).f = { absLive e.f with go := none } ∧ TInv (dropGoStmt e) := by
  unfold dropGoStmt
  cases hg : e.f.go with
  | none => exact ⟨by simp [absLive, hg], h⟩
  | some g => exact ⟨by simp [absLive], h.of_same rfl rfl rfl (Nat.le_refl _)⟩

theorem addToolchainStmt_abs (e : EFile) (n : Bytes) (h : TInv e) :
    (∀ e', addToolchainStmt e n = .ok e' → toolchainRE n = true ∧ absLive e'.f = { absLive e.f with toolchain := some n } ∧ TInv e') ∧
    (∀ err, addToolchainStmt e n = .error err → toolchainRE n = false) := by
  unfold addToolchainStmt
  by_cases hv : toolchainRE n = true
  · simp only [hv, Bool.not_true, Bool.false_eq_true, if_false]
    cases hg : e.f.toolchain with
    | none =>
      refine ⟨?_, (by intro err h; cases h)⟩
      intro e' he; cases he
      exact ⟨trivial, by simp [absLive], h.of_same rfl rfl rfl (Nat.le_succ _)⟩
    | some g =>
      refine ⟨?_, (by intro err h; cases h)⟩
      intro e' he; cases he
      exact ⟨trivial, by simp [absLive], h.of_same rfl rfl rfl (Nat.le_refl _)⟩
  · simp only [Bool.not_eq_true] at hv
    simp only [hv, Bool.not_false, if_true]
    exact ⟨(by intro e' h; cases h), fun _ _ => trivial⟩

theorem dropToolchainStmt_abs (e : EFile) (h : TInv e) :
    absLive (dropToolchainStmt e).f = { absLive e.f with toolchain := none } ∧ TInv (dropToolchainStmt e) := by
  unfold dropToolchainStmt
  cases hg : e.f.toolchain with
  | none => exact ⟨by simp [absLive, hg], h⟩
  | some g => exact ⟨by simp [absLive], h.of_same rfl rfl rfl (Nat.le_refl _)⟩

/-! ### godebug -/

theorem ne_nil_of_beq {a k : Bytes} (hk : k ≠ []) (h : (a == k) = true) : (!a.isEmpty) = true := by
  have : a = k := eq_of_beq h
  subst this
  cases a with
  | nil => exact absurd rfl hk
  | cons _ _ => rfl

theorem addGodebugCore_abs (syn : FileSyntax) (gd : List Godebug) (next : Nat) (k v : Bytes) (hk : k ≠ [])
    (syn' : FileSyntax) (gd' : List Godebug) (next' : Nat)
    (h : addGodebugCore syn gd next k v = .ok (syn', gd', next')) :
    liveAbs liveG aG gd' = setKeyed (fun e => e.1 == k) (fun _ => (k, v)) (k, v) (liveAbs liveG aG gd) ∧ next ≤ next' := by
  unfold addGodebugCore at h
  simp only [bind, Except.bind] at h
  cases hr : firstRest (fun g : Godebug => g.key == k) (·.lineId) (fun g => { g with value := v }) clearedGodebug gd true with
  | error err => simp [hr] at h
  | ok r =>
    rcases r with ⟨l', first, dead⟩
    have hs := firstRest_setKeyed (fun g : Godebug => g.key == k) (·.lineId) (fun g => { g with value := v }) clearedGodebug
      liveG aG (fun e : Bytes × Bytes => e.1 == k) (fun _ => (k, v)) rfl (fun _ _ => rfl)
      (fun x hx => ne_nil_of_beq hk hx) (fun x hx => ne_nil_of_beq hk hx)
      (fun x hx => by simp only [aG]; rw [eq_of_beq hx]) gd l' first dead { key := k, value := v, lineId := next }
      (by cases k with
          | nil => exact absurd rfl hk
          | cons _ _ => rfl) hr
    simp only [hr] at h
    cases first with
    | some i =>
      simp only [pure, Except.pure, Except.ok.injEq, Prod.mk.injEq] at h
      rcases h with ⟨_, rfl, rfl⟩
      exact ⟨by simpa [aG] using hs, Nat.le_refl _⟩
    | none =>
      simp only [pure, Except.pure, Except.ok.injEq, Prod.mk.injEq] at h
      rcases h with ⟨_, rfl, rfl⟩
      exact ⟨by simpa [aG] using hs, Nat.le_succ _⟩

theorem addGodebug_abs (e e' : EFile) (k v : Bytes) (hk : k ≠ []) (hi : TInv e) (h : addGodebug e k v = .ok e') :
    absLive e'.f = { absLive e.f with godebug := setKeyed (fun e => e.1 == k) (fun _ => (k, v)) (k, v) (absLive e.f).godebug }
      ∧ TInv e' := by
  unfold addGodebug at h
  simp only [bind, Except.bind] at h
  cases hr : addGodebugCore e.f.syn e.f.godebug e.next k v with
  | error err => simp [hr] at h
  | ok r =>
    rcases r with ⟨syn', gd', next'⟩
    simp only [hr, pure, Except.pure, Except.ok.injEq] at h
    subst h
    rcases addGodebugCore_abs _ _ _ k v hk _ _ _ hr with ⟨h1, h2⟩
    exact ⟨by simp [absLive, h1], hi.of_same rfl rfl rfl h2⟩

theorem dropGodebug_abs (e e' : EFile) (k : Bytes) (hi : TInv e) (h : dropGodebug e k = .ok e') :
    absLive e'.f = { absLive e.f with godebug := dropAll (fun e => e.1 == k) (absLive e.f).godebug } ∧ TInv e' := by
  unfold dropGodebug at h
  simp only [bind, Except.bind] at h
  cases hr : clearAll (fun g : Godebug => g.key == k) (·.lineId) clearedGodebug e.f.godebug with
  | error err => simp [hr] at h
  | ok r =>
    rcases r with ⟨gd', dead⟩
    simp only [hr, pure, Except.pure, Except.ok.injEq] at h
    subst h
    have h1 := clearAll_abs (fun g : Godebug => g.key == k) (·.lineId) clearedGodebug liveG aG
      (fun e : Bytes × Bytes => e.1 == k) rfl (fun _ _ => rfl) e.f.godebug gd' dead hr
    exact ⟨by simp [absLive, h1], hi.of_same rfl rfl rfl (Nat.le_refl _)⟩

/-! ### require -/

theorem ne_nil_live {p : Bytes} (hp : p ≠ []) : (!p.isEmpty) = true := by
  cases p with
  | nil => exact absurd rfl hp
  | cons _ _ => rfl

theorem addNewRequire_abs (e : EFile) (p v : Bytes) (i : Bool) (hp : p ≠ []) (hi : TInv e) :
    absLive (addNewRequire e p v i).f = { absLive e.f with require := (absLive e.f).require ++ [⟨p, v, i⟩] } ∧
    TInv (addNewRequire e p v i) ∧ (addNewRequire e p v i).next = e.next + 1 ∧
    (addNewRequire e p v i).f.exclude = e.f.exclude ∧ (addNewRequire e p v i).f.replace = e.f.replace ∧
    (addNewRequire e p v i).f.tool = e.f.tool := by
  refine ⟨?_, hi.of_same rfl rfl rfl (Nat.le_succ _), rfl, rfl, rfl, rfl⟩
  simp only [addNewRequire, absLive, liveAbs_append]
  congr 1
  simp [liveAbs, liveRq, aRq, ne_nil_live hp]

theorem addRequire_abs (e e' : EFile) (p v : Bytes) (hp : p ≠ []) (hi : TInv e) (h : addRequire e p v = .ok e') :
    absLive e'.f = { absLive e.f with
      require := setKeyed (fun r => r.path == p) (fun r => { r with vers := v }) ⟨p, v, false⟩ (absLive e.f).require } ∧
    TInv e' := by
  unfold addRequire at h
  simp only [bind, Except.bind] at h
  cases hr : firstRest (fun r : Require => r.mod.path == p) (·.lineId)
      (fun r => { r with mod := { r.mod with version := v } }) clearedRequire e.f.require true with
  | error err => simp [hr] at h
  | ok r =>
    rcases r with ⟨l', first, dead⟩
    have hs := firstRest_setKeyed (fun r : Require => r.mod.path == p) (·.lineId)
      (fun r => { r with mod := { r.mod with version := v } }) clearedRequire
      liveRq aRq (fun r : Req => r.path == p) (fun r => { r with vers := v }) rfl (fun _ _ => rfl)
      (fun x hx => ne_nil_of_beq hp hx) (fun x hx => ne_nil_of_beq hp hx)
      (fun x hx => rfl) e.f.require l' first dead { mod := { path := p, version := v }, indirect := false, lineId := e.next }
      (ne_nil_live hp) hr
    simp only [hr] at h
    cases first with
    | some i =>
      simp only [pure, Except.pure, Except.ok.injEq] at h
      subst h
      refine ⟨?_, hi.of_same rfl rfl rfl (Nat.le_refl _)⟩
      simp only [absLive]
      congr 1 <;> simpa [aRq] using hs
    | none =>
      simp only [pure, Except.pure, Except.ok.injEq] at h
      subst h
      have hany : e.f.require.any (fun r : Require => r.mod.path == p) = false := by
        have := (firstRest_abs (fun r : Require => r.mod.path == p) (·.lineId)
          (fun r => { r with mod := { r.mod with version := v } }) clearedRequire
          liveRq aRq (fun r : Req => r.path == p) (fun r => { r with vers := v }) rfl (fun _ _ => rfl)
          (fun x hx => ne_nil_of_beq hp hx) (fun x hx => ne_nil_of_beq hp hx)
          (fun x hx => rfl) e.f.require true l' none dead hr).2
        simpa using this.symm
      have hl : l' = e.f.require := by
        have := firstRest_unmatched (fun r : Require => r.mod.path == p) (·.lineId)
          (fun r => { r with mod := { r.mod with version := v } }) clearedRequire e.f.require true hany
        rw [this] at hr
        simp only [Except.ok.injEq, Prod.mk.injEq] at hr
        exact hr.1.symm
      subst hl
      rcases addNewRequire_abs e p v false hp hi with ⟨h1, h2, _⟩
      refine ⟨?_, h2⟩
      rw [h1]
      congr 1
      simp only [absLive]
      simpa [aRq, liveAbs_append, liveAbs, liveRq, ne_nil_live hp] using hs

theorem dropRequire_abs (e e' : EFile) (p : Bytes) (hi : TInv e) (h : dropRequire e p = .ok e') :
    absLive e'.f = { absLive e.f with require := dropAll (fun r => r.path == p) (absLive e.f).require } ∧ TInv e' := by
  unfold dropRequire at h
  simp only [bind, Except.bind] at h
  cases hr : clearAll (fun r : Require => r.mod.path == p) (·.lineId) clearedRequire e.f.require with
  | error err => simp [hr] at h
  | ok r =>
    rcases r with ⟨l', dead⟩
    simp only [hr, pure, Except.pure, Except.ok.injEq] at h
    subst h
    have h1 := clearAll_abs (fun r : Require => r.mod.path == p) (·.lineId) clearedRequire liveRq aRq
      (fun r : Req => r.path == p) rfl (fun _ _ => rfl) e.f.require l' dead hr
    exact ⟨by simp [absLive, h1], hi.of_same rfl rfl rfl (Nat.le_refl _)⟩

/-! ### exclude -/

theorem IdWF_single {α : Type} (live : α → Bool) (id : α → Nat) (x : α) (hl : live x = true) (hid : id x ≠ 0) :
    IdWF live id [x] := by
  intro y hy
  rw [List.mem_singleton] at hy; subst hy
  exact ⟨fun _ => hid, fun h => by rw [hl] at h; cases h⟩

theorem pair_beq_comm (a b c d : Bytes) : ((a, b) == (c, d)) = (c == a && d == b) := by
  rw [Bool.eq_iff_iff]
  simp only [beq_iff_eq, Bool.and_eq_true, Prod.mk.injEq]
  constructor <;> rintro ⟨rfl, rfl⟩ <;> exact ⟨rfl, rfl⟩

theorem exclude_contains (l : List Exclude) (p v : Bytes) (hp : p ≠ []) :
    (liveAbs liveX aX l).contains (p, v) = l.any (fun x => x.mod.path == p && x.mod.version == v) := by
  induction l with
  | nil => rfl
  | cons x xs ih =>
    rw [liveAbs_cons]
    by_cases hl : liveX x = true
    · simp only [hl, if_true, List.contains_cons, List.any_cons, ih]
      congr 1
      exact pair_beq_comm _ _ _ _
    · simp only [Bool.not_eq_true] at hl
      have : (x.mod.path == p) = false := by
        cases hb : x.mod.path == p with
        | false => rfl
        | true => have := ne_nil_of_beq hp hb; simp [liveX] at hl; simp [hl] at this
      simp only [hl, Bool.false_eq_true, if_false, List.any_cons, this, Bool.false_and, Bool.false_or, ih]

theorem addExclude_abs (e : EFile) (p v : Bytes) (hp : p ≠ []) (hi : TInv e) :
    (∀ e', addExclude e p v = .ok e' → checkCanonicalVersion p v = true ∧
      absLive e'.f = (if (absLive e.f).exclude.contains (p, v) then absLive e.f
                      else { absLive e.f with exclude := (absLive e.f).exclude ++ [(p, v)] }) ∧ TInv e') ∧
    (∀ err, addExclude e p v = .error err → checkCanonicalVersion p v = false) := by
  unfold addExclude
  by_cases hv : checkCanonicalVersion p v = true
  · simp only [hv, Bool.not_true, Bool.false_eq_true, if_false]
    have hc : (absLive e.f).exclude.contains (p, v) = e.f.exclude.any (fun x => x.mod.path == p && x.mod.version == v) :=
      exclude_contains e.f.exclude p v hp
    rw [hc]
    by_cases hany : e.f.exclude.any (fun x => x.mod.path == p && x.mod.version == v) = true
    · simp only [hany, if_true]
      refine ⟨?_, (by intro err h; cases h)⟩
      intro e' he; cases he
      exact ⟨trivial, rfl, hi⟩
    · simp only [Bool.not_eq_true] at hany
      simp only [hany, Bool.false_eq_true, if_false]
      refine ⟨?_, (by intro err h; cases h)⟩
      intro e' he; cases he
      refine ⟨trivial, ?_, ?_⟩
      · simp only [absLive, liveAbs_append]
        congr 1
        simp [liveAbs, liveX, aX, ne_nil_live hp]
      · refine TInv.of_sublist_fresh hi (IdWF_append _ _ hi.wfX (IdWF_single _ _ _ (ne_nil_live hp) (Nat.ne_of_gt hi.pos)))
          hi.wfR hi.wfT _ (List.Sublist.refl _) ?_ (Nat.lt_succ_self _)
        simp only [idsOf, liveIds_append]
        have : liveIds liveX (·.lineId) [({ mod := { path := p, version := v }, lineId := e.next } : Exclude)] = [e.next] := by
          simp [liveIds, liveX, ne_nil_live hp]
        rw [this, List.append_assoc]
        exact List.perm_middle
  · simp only [Bool.not_eq_true] at hv
    simp only [hv, Bool.not_false, if_true]
    exact ⟨(by intro e' h; cases h), fun _ _ => trivial⟩

theorem dropExclude_abs (e e' : EFile) (p v : Bytes) (hi : TInv e) (h : dropExclude e p v = .ok e') :
    absLive e'.f = { absLive e.f with exclude := dropAll (fun x => x == (p, v)) (absLive e.f).exclude } ∧ TInv e' := by
  unfold dropExclude at h
  simp only [bind, Except.bind] at h
  cases hr : clearAll (fun x : Exclude => x.mod.path == p && x.mod.version == v) (·.lineId) clearedExclude e.f.exclude with
  | error err => simp [hr] at h
  | ok r =>
    rcases r with ⟨l', dead⟩
    simp only [hr, pure, Except.pure, Except.ok.injEq] at h
    subst h
    have h1 := clearAll_abs (fun x : Exclude => x.mod.path == p && x.mod.version == v) (·.lineId) clearedExclude liveX aX
      (fun x : Bytes × Bytes => x == (p, v)) rfl (fun _ _ => rfl) e.f.exclude l' dead hr
    rcases clearAll_ids (fun x : Exclude => x.mod.path == p && x.mod.version == v) (·.lineId) clearedExclude liveX rfl rfl
      e.f.exclude l' dead hr hi.wfX with ⟨h2, h3⟩
    refine ⟨by simp [absLive, h1], TInv.of_sublist hi h2 hi.wfR hi.wfT ?_ (Nat.le_refl _)⟩
    exact h3.append (List.Sublist.refl _)

/-! ### replace (shared by go.mod and go.work) -/

theorem addReplaceCore_abs (syn : FileSyntax) (rp : List Replace) (next : Nat) (op ov np nv : Bytes) (hop : op ≠ [])
    (hnext : next ≠ 0) (hwf : IdWF liveRp (·.lineId) rp)
    (syn' : FileSyntax) (rp' : List Replace) (next' : Nat)
    (h : addReplaceCore syn rp next op ov np nv = .ok (syn', rp', next')) :
    liveAbs liveRp aRp rp' = setKeyed (replMatch op ov) (fun _ => ⟨op, ov, np, nv⟩) ⟨op, ov, np, nv⟩ (liveAbs liveRp aRp rp) ∧
    IdWF liveRp (·.lineId) rp' ∧
    ((next' = next ∧ (liveIds liveRp (·.lineId) rp').Sublist (liveIds liveRp (·.lineId) rp)) ∨
     (next' = next + 1 ∧ (liveIds liveRp (·.lineId) rp').Sublist (liveIds liveRp (·.lineId) rp ++ [next]))) := by
  unfold addReplaceCore at h
  simp only [bind, Except.bind] at h
  cases hr : firstRest (fun r : Replace => r.old.path == op && (ov.isEmpty || r.old.version == ov)) (·.lineId)
      (fun r => { r with old := { path := op, version := ov }, new := { path := np, version := nv } }) clearedReplace rp true with
  | error err => simp [hr] at h
  | ok r =>
    rcases r with ⟨l', first, dead⟩
    have hml : ∀ x : Replace, (x.old.path == op && (ov.isEmpty || x.old.version == ov)) = true → liveRp x = true := by
      intro x hx
      simp only [Bool.and_eq_true] at hx
      exact ne_nil_of_beq hop hx.1
    have hs := firstRest_setKeyed (fun r : Replace => r.old.path == op && (ov.isEmpty || r.old.version == ov)) (·.lineId)
      (fun r => { r with old := { path := op, version := ov }, new := { path := np, version := nv } }) clearedReplace
      liveRp aRp (replMatch op ov) (fun _ => ⟨op, ov, np, nv⟩) rfl (fun _ _ => rfl) hml
      (fun x _ => ne_nil_live hop) (fun x _ => rfl) rp l' first dead
      { old := { path := op, version := ov }, new := { path := np, version := nv }, lineId := next } (ne_nil_live hop) hr
    rcases firstRest_ids (fun r : Replace => r.old.path == op && (ov.isEmpty || r.old.version == ov)) (·.lineId)
      (fun r => { r with old := { path := op, version := ov }, new := { path := np, version := nv } }) clearedReplace
      liveRp rfl rfl hml (fun x _ => ne_nil_live hop) (fun _ => rfl) rp true l' first dead hr hwf with ⟨hw', hsub⟩
    simp only [hr] at h
    cases first with
    | some i =>
      simp only [pure, Except.pure, Except.ok.injEq, Prod.mk.injEq] at h
      rcases h with ⟨_, rfl, rfl⟩
      exact ⟨by simpa [aRp] using hs, hw', Or.inl ⟨rfl, hsub⟩⟩
    | none =>
      simp only [pure, Except.pure, Except.ok.injEq, Prod.mk.injEq] at h
      rcases h with ⟨_, rfl, rfl⟩
      refine ⟨by simpa [aRp] using hs, IdWF_append _ _ hw' (IdWF_single _ _ _ (ne_nil_live hop) hnext), Or.inr ⟨rfl, ?_⟩⟩
      rw [liveIds_append]
      have : liveIds liveRp (·.lineId) [({ old := { path := op, version := ov }, new := { path := np, version := nv }, lineId := next } : Replace)] = [next] := by
        simp [liveIds, liveRp, ne_nil_live hop]
      rw [this]
      exact hsub.append (List.Sublist.refl _)

theorem dropReplaceCore_abs (syn : FileSyntax) (rp : List Replace) (op ov : Bytes) (hwf : IdWF liveRp (·.lineId) rp)
    (syn' : FileSyntax) (rp' : List Replace) (h : dropReplaceCore syn rp op ov = .ok (syn', rp')) :
    liveAbs liveRp aRp rp' = dropAll (fun r => r.oldPath == op && r.oldVers == ov) (liveAbs liveRp aRp rp) ∧
    IdWF liveRp (·.lineId) rp' ∧ (liveIds liveRp (·.lineId) rp').Sublist (liveIds liveRp (·.lineId) rp) := by
  unfold dropReplaceCore at h
  simp only [bind, Except.bind] at h
  cases hr : clearAll (fun r : Replace => r.old.path == op && r.old.version == ov) (·.lineId) clearedReplace rp with
  | error err => simp [hr] at h
  | ok r =>
    rcases r with ⟨l', dead⟩
    simp only [hr, pure, Except.pure, Except.ok.injEq, Prod.mk.injEq] at h
    rcases h with ⟨_, rfl⟩
    have h1 := clearAll_abs (fun r : Replace => r.old.path == op && r.old.version == ov) (·.lineId) clearedReplace liveRp aRp
      (fun r : Repl => r.oldPath == op && r.oldVers == ov) rfl (fun _ _ => rfl) rp l' dead hr
    rcases clearAll_ids (fun r : Replace => r.old.path == op && r.old.version == ov) (·.lineId) clearedReplace liveRp rfl rfl
      rp l' dead hr hwf with ⟨h2, h3⟩
    exact ⟨h1, h2, h3⟩

theorem addReplace_abs (e e' : EFile) (op ov np nv : Bytes) (hop : op ≠ []) (hi : TInv e)
    (h : addReplace e op ov np nv = .ok e') :
    absLive e'.f = { absLive e.f with
      replace := setKeyed (replMatch op ov) (fun _ => ⟨op, ov, np, nv⟩) ⟨op, ov, np, nv⟩ (absLive e.f).replace } ∧
    TInv e' := by
  unfold addReplace at h
  simp only [bind, Except.bind] at h
  cases hr : addReplaceCore e.f.syn e.f.replace e.next op ov np nv with
  | error err => simp [hr] at h
  | ok r =>
    rcases r with ⟨syn', rp', next'⟩
    simp only [hr, pure, Except.pure, Except.ok.injEq] at h
    subst h
    rcases addReplaceCore_abs _ _ _ op ov np nv hop (Nat.ne_of_gt hi.pos) hi.wfR _ _ _ hr with ⟨h1, h2, h3⟩
    refine ⟨by simp [absLive, h1], ?_⟩
    rcases h3 with ⟨hn, hs⟩ | ⟨hn, hs⟩
    · exact TInv.of_sublist hi hi.wfX h2 hi.wfT ((List.Sublist.refl _).append (hs.append (List.Sublist.refl _))) (by simp [hn])
    · refine TInv.of_sublist_fresh hi hi.wfX h2 hi.wfT _
        ((List.Sublist.refl _).append (hs.append (List.Sublist.refl _))) ?_ (by simp [hn])
      simp only [idsOf]
      rw [List.append_assoc, ← List.append_assoc, List.singleton_append]
      exact (List.perm_middle).trans (by rw [List.append_assoc])

theorem dropReplace_abs (e e' : EFile) (op ov : Bytes) (hi : TInv e) (h : dropReplace e op ov = .ok e') :
    absLive e'.f = { absLive e.f with replace := dropAll (fun r => r.oldPath == op && r.oldVers == ov) (absLive e.f).replace } ∧
    TInv e' := by
  unfold dropReplace at h
  simp only [bind, Except.bind] at h
  cases hr : dropReplaceCore e.f.syn e.f.replace op ov with
  | error err => simp [hr] at h
  | ok r =>
    rcases r with ⟨syn', rp'⟩
    simp only [hr, pure, Except.pure, Except.ok.injEq] at h
    subst h
    rcases dropReplaceCore_abs _ _ op ov hi.wfR _ _ hr with ⟨h1, h2, h3⟩
    exact ⟨by simp [absLive, h1],
      TInv.of_sublist hi hi.wfX h2 hi.wfT ((List.Sublist.refl _).append (h3.append (List.Sublist.refl _))) (Nat.le_refl _)⟩

/-! ### retract -/

theorem checkCanonicalVersion_ne_nil {p v : Bytes} (h : checkCanonicalVersion p v = true) : (!v.isEmpty) = true := by
  unfold checkCanonicalVersion at h
  cases hv : v.isEmpty with
  | false => rfl
  | true => simp [hv] at h

/-- `addRetract` with the module path as a parameter -/
def addRetractP (e : EFile) (path : Bytes) (vi : VersionInterval) (rationale : Bytes) : Except EditErr EFile :=
  if !checkCanonicalVersion path vi.high then .error .invalidVersion else
  if !checkCanonicalVersion path vi.low then .error .invalidVersion else
  let tokens := if vi.low == vi.high then [B "retract", autoQuote vi.low]
    else [B "retract", [91], autoQuote vi.low, [44], autoQuote vi.high, [93]]
  let syn := addLine e.f.syn none tokens e.next
  let coms : List Comment := if rationale.isEmpty then [] else
    (splitOn 10 rationale).map fun line => { token := B "// " ++ line }
  let syn := syn.updateLine e.next fun l => { l with comments := { l.comments with before := l.comments.before ++ coms } }
  let rat := match syn.findLine e.next with
    | some l => parseDirectiveComment none l.comments
    | none => []
  .ok { f := { e.f with retract := e.f.retract ++ [{ interval := vi, rationale := rat, lineId := e.next }], syn := syn },
        next := e.next + 1 }

theorem addRetract_eq (e : EFile) (vi : VersionInterval) (why : Bytes) :
    addRetract e vi why = addRetractP e ((absLive e.f).module.getD []) vi why := by
  unfold addRetract addRetractP
  cases h : e.f.module <;> simp only [absLive, h, Option.map_none, Option.map_some, Option.getD_none, Option.getD_some] <;> rfl

theorem addRetract_abs (e : EFile) (vi : VersionInterval) (why : Bytes) (hi : TInv e) :
    (∀ e', addRetract e vi why = .ok e' →
      (checkCanonicalVersion ((absLive e.f).module.getD []) vi.high && checkCanonicalVersion ((absLive e.f).module.getD []) vi.low) = true ∧
      Rel (absLive e'.f) { absLive e.f with retract := (absLive e.f).retract ++ [⟨vi.low, vi.high, normRationale why⟩] } ∧ TInv e') ∧
    (∀ err, addRetract e vi why = .error err →
      (checkCanonicalVersion ((absLive e.f).module.getD []) vi.high && checkCanonicalVersion ((absLive e.f).module.getD []) vi.low) = false) := by
  rw [addRetract_eq]
  unfold addRetractP
  by_cases h1 : checkCanonicalVersion ((absLive e.f).module.getD []) vi.high = true
  · by_cases h2 : checkCanonicalVersion ((absLive e.f).module.getD []) vi.low = true
    · simp only [h1, h2, Bool.not_true, Bool.false_eq_true, if_false, Bool.and_self]
      refine ⟨?_, (by intro err h; cases h)⟩
      intro e' he
      simp only [Except.ok.injEq] at he
      subst he
      refine ⟨trivial, ?_, hi.of_same rfl rfl rfl (Nat.le_succ _)⟩
      have hl := checkCanonicalVersion_ne_nil h2
      refine { Rel.refl (absLive e.f) with retract := ?_ }
      simp only [absLive, liveAbs_append, List.map_append]
      congr 1
      simp [liveAbs, liveRt, hl, aRt, Retr.interval]
    · simp only [Bool.not_eq_true] at h2
      simp only [h1, h2, Bool.not_true, Bool.not_false, Bool.false_eq_true, if_false, if_true, Bool.and_false]
      exact ⟨(by intro e' h; cases h), fun _ _ => trivial⟩
  · simp only [Bool.not_eq_true] at h1
    simp only [h1, Bool.not_false, if_true, Bool.false_and]
    exact ⟨(by intro e' h; cases h), fun _ _ => trivial⟩

theorem interval_beq (r : Retract) (lo hi : Bytes) :
    (r.interval == ({ low := lo, high := hi } : VersionInterval)) = (r.interval.low == lo && r.interval.high == hi) := by
  rcases r with ⟨⟨l, h⟩, _, _⟩
  rw [Bool.eq_iff_iff]; simp

theorem dropRetract_abs (e e' : EFile) (lo hi : Bytes) (hinv : TInv e) (h : dropRetract e { low := lo, high := hi } = .ok e') :
    absLive e'.f = { absLive e.f with retract := dropAll (fun r => r.lo == lo && r.hi == hi) (absLive e.f).retract } ∧ TInv e' := by
  unfold dropRetract at h
  simp only [bind, Except.bind] at h
  cases hr : clearAll (fun r : Retract => r.interval == ({ low := lo, high := hi } : VersionInterval)) (·.lineId) clearedRetract e.f.retract with
  | error err => simp [hr] at h
  | ok r =>
    rcases r with ⟨l', dead⟩
    simp only [hr, pure, Except.pure, Except.ok.injEq] at h
    subst h
    have h1 := clearAll_abs (fun r : Retract => r.interval == ({ low := lo, high := hi } : VersionInterval)) (·.lineId) clearedRetract liveRt aRt
      (fun r : Retr => r.lo == lo && r.hi == hi) rfl (fun x _ => (interval_beq x lo hi).symm) e.f.retract l' dead hr
    exact ⟨by simp [absLive, h1], hinv.of_same rfl rfl rfl (Nat.le_refl _)⟩

/-! ### tool -/

theorem tool_contains (l : List Tool) (p : Bytes) (hp : p ≠ []) :
    (liveAbs liveT aT l).contains p = l.any (fun t => t.path == p) := by
  induction l with
  | nil => rfl
  | cons x xs ih =>
    rw [liveAbs_cons]
    by_cases hl : liveT x = true
    · simp only [hl, if_true, List.contains_cons, List.any_cons, ih, aT]
      congr 1
      exact BEq.comm
    · simp only [Bool.not_eq_true] at hl
      have : (x.path == p) = false := by
        cases hb : x.path == p with
        | false => rfl
        | true => have := ne_nil_of_beq hp hb; simp [liveT] at hl; simp [hl] at this
      simp only [hl, Bool.false_eq_true, if_false, List.any_cons, this, Bool.false_or, ih]

theorem addTool_abs (e : EFile) (p : Bytes) (hp : p ≠ []) (hi : TInv e) :
    absLive (addTool e p).f = (if (absLive e.f).tool.contains p then absLive e.f
        else EditSpec.removeDups { absLive e.f with tool := (absLive e.f).tool ++ [p] }) ∧ TInv (addTool e p) := by
  unfold addTool
  have hc : (absLive e.f).tool.contains p = e.f.tool.any (fun t => t.path == p) := tool_contains e.f.tool p hp
  rw [hc]
  by_cases hany : e.f.tool.any (fun t => t.path == p) = true
  · simp only [hany, if_true]; exact ⟨trivial, hi⟩
  · simp only [Bool.not_eq_true] at hany
    simp only [hany, Bool.false_eq_true, if_false]
    have hmid : TInv (⟨{ e.f with tool := e.f.tool ++ [{ path := p, lineId := e.next }], syn := addLine e.f.syn none [B "tool", p] e.next }, e.next + 1⟩ : EFile) := by
      refine TInv.of_sublist_fresh hi hi.wfX hi.wfR
        (IdWF_append _ _ hi.wfT (IdWF_single _ _ _ (ne_nil_live hp) (Nat.ne_of_gt hi.pos))) _ (List.Sublist.refl _) ?_ (Nat.lt_succ_self _)
      simp only [idsOf, liveIds_append]
      have : liveIds liveT (·.lineId) [({ path := p, lineId := e.next } : Tool)] = [e.next] := by
        simp [liveIds, liveT, ne_nil_live hp]
      rw [this, ← List.append_assoc, ← List.append_assoc]
      exact (List.perm_middle).trans (by simp)
    rcases sortBlocks_abs _ hmid with ⟨h1, h2⟩
    refine ⟨?_, h2⟩
    rw [h1]
    congr 1
    simp only [absLive, liveAbs_append]
    congr 1
    simp [liveAbs, liveT, aT, ne_nil_live hp]

theorem dropTool_abs (e e' : EFile) (p : Bytes) (hi : TInv e) (h : dropTool e p = .ok e') :
    absLive e'.f = { absLive e.f with tool := dropAll (fun t => t == p) (absLive e.f).tool } ∧ TInv e' := by
  unfold dropTool at h
  simp only [bind, Except.bind] at h
  cases hr : clearAll (fun t : Tool => t.path == p) (·.lineId) clearedTool e.f.tool with
  | error err => simp [hr] at h
  | ok r =>
    rcases r with ⟨l', dead⟩
    simp only [hr, pure, Except.pure, Except.ok.injEq] at h
    subst h
    have h1 := clearAll_abs (fun t : Tool => t.path == p) (·.lineId) clearedTool liveT aT
      (fun t : Bytes => t == p) rfl (fun _ _ => rfl) e.f.tool l' dead hr
    rcases clearAll_ids (fun t : Tool => t.path == p) (·.lineId) clearedTool liveT rfl rfl e.f.tool l' dead hr hi.wfT with ⟨h2, h3⟩
    exact ⟨by simp [absLive, h1],
      TInv.of_sublist hi hi.wfX hi.wfR h2 ((List.Sublist.refl _).append ((List.Sublist.refl _).append h3)) (Nat.le_refl _)⟩

end ModVerif.Modfile.Edit
