/-
  Tie proofs for the regenerated semver functions, part 5: comparePrerelease (the loop against
  `cmpIdents (splitOn 46 …)`), Compare and Max.
-/
import ModVerif.Proofs.TieFnSemverAcc
import ModVerif.Proofs.SemverOrder
set_option linter.unusedVariables false
namespace ModVerif.TieFnSemver
open ModVerif ModVerif.GoRt
open ModVerif.Generated.Semver (parsed)

/-! ### comparePrerelease -/

/-- the identifiers still to be compared when the loop of comparePrerelease is at the remaining string `x`
    (`x` is "" or begins with the separator that the loop strips first) -/
def idents : Bytes → List Bytes
  | [] => []
  | _ :: r => splitOn 46 r

/-- the loop of comparePrerelease together with the two lines after it, on identifier lists.  It differs from the
    model's `cmpIdents` only when both lists run out together (Go answers -1, unreachable from Compare because
    equal strings are handled first). -/
def goCmp : List Bytes → List Bytes → Int
  | [], [] => -1
  | [], _ :: _ => -1
  | _ :: _, [] => 1
  | dx :: xs, dy :: ys => if dx = dy then goCmp xs ys else Semver.cmpIdent dx dy

theorem splitOn_eq_idents : ∀ s : Bytes,
    splitOn 46 s = s.takeWhile (· != 46) :: idents (s.dropWhile (· != 46))
  | [] => by simp [splitOn, idents]
  | c :: r => by
    by_cases hc : c = 46
    · subst hc; simp [splitOn, idents]
    · have ih := splitOn_eq_idents r
      have hb : (c == 46) = false := by simp [hc]
      have hb' : (c != 46) = true := by simp [hc]
      simp [splitOn, hb, hb', ih]

theorem goCmp_eq : ∀ xs ys : List Bytes, goCmp xs ys = if xs = ys then -1 else Semver.cmpIdents xs ys
  | [], [] => by simp [goCmp]
  | [], _ :: _ => by simp [goCmp, Semver.cmpIdents]
  | _ :: _, [] => by simp [goCmp, Semver.cmpIdents]
  | dx :: xs, dy :: ys => by
    by_cases h : dx = dy
    · subst h; simp [goCmp, Semver.cmpIdents, goCmp_eq xs ys]
    · simp [goCmp, Semver.cmpIdents, h]

def cmpCont (r : Ctl Int (Bytes × Bytes)) : M Int :=
  match r with
  | Ctl.ret rv8 => (pure rv8)
  | Ctl.next (x, y) => (if (decide (x = ([] : Bytes))) then (pure (-1 : Int)) else (pure (1 : Int)))

theorem comparePrerelease_unfold (fuel : Nat) (x y : Bytes) :
    Generated.Semver.comparePrerelease fuel x y =
      if x = y then .ok 0 else if x = [] then .ok 1 else if y = [] then .ok (-1) else
        Generated.Semver.comparePrerelease_loop1 fuel x y >>= cmpCont := by
  unfold Generated.Semver.comparePrerelease
  by_cases h1 : x = y
  · simp [h1]
  · by_cases h2 : x = []
    · simp [h2]
    · by_cases h3 : y = []
      · simp [h2, h3]
      · simp only [h1, h2, h3, decide_false, Bool.false_eq_true, if_false]
        congr 1

theorem comparePrerelease_loop1_spec : ∀ (fuel : Nat) (x y : Bytes), x.length + 1 ≤ fuel → y.length + 1 ≤ fuel →
    (Generated.Semver.comparePrerelease_loop1 fuel x y >>= cmpCont) = .ok (goCmp (idents x) (idents y)) := by
  intro fuel
  induction fuel with
  | zero => intro x y hx hy; omega
  | succ f ih =>
    intro x y hx hy
    cases x with
    | nil =>
      simp [Generated.Semver.comparePrerelease_loop1, cmpCont]
      cases idents y <;> simp [idents, goCmp]
    | cons a x' =>
      cases y with
      | nil =>
        simp [Generated.Semver.comparePrerelease_loop1, cmpCont, idents]
        cases h : splitOn 46 x' with
        | nil => exact absurd h (splitOn_ne_nil' 46 x')
        | cons _ _ => simp [goCmp]
      | cons b y' =>
        simp only [List.length_cons] at hx hy
        unfold Generated.Semver.comparePrerelease_loop1
        have hdx := length_takeWhile_le (· != 46) x'
        have hdy := length_takeWhile_le (· != 46) y'
        have hrx := (List.dropWhile_sublist (l := x') (· != 46)).length_le
        have hry := (List.dropWhile_sublist (l := y') (· != 46)).length_le
        have hR : goCmp (idents (a :: x')) (idents (b :: y')) =
            if x'.takeWhile (· != 46) = y'.takeWhile (· != 46)
            then goCmp (idents (x'.dropWhile (· != 46))) (idents (y'.dropWhile (· != 46)))
            else Semver.cmpIdent (x'.takeWhile (· != 46)) (y'.takeWhile (· != 46)) := by
          show goCmp (splitOn 46 x') (splitOn 46 y') = _
          rw [splitOn_eq_idents x', splitOn_eq_idents y']
          simp only [goCmp]
        rw [hR]
        simp only [sliceFrom_one_cons, bind_ok, nextIdent_ok x' f (by omega), nextIdent_ok y' f (by omega),
          Semver.nextIdent, isNum_ok _ f (show (x'.takeWhile (· != 46)).length + 1 ≤ f by omega),
          isNum_ok _ f (show (y'.takeWhile (· != 46)).length + 1 ≤ f by omega)]
        have hrec := ih (x'.dropWhile (· != 46)) (y'.dropWhile (· != 46)) (by omega) (by omega)
        generalize x'.takeWhile (· != 46) = dx at *
        generalize y'.takeWhile (· != 46) = dy at *
        generalize x'.dropWhile (· != 46) = x2 at *
        generalize y'.dropWhile (· != 46) = y2 at *
        by_cases hd : dx = dy
        · simp [hd, hrec]
        · simp only [hd, decide_false, Bool.not_false, if_true, if_false, Semver.cmpIdent, len_eq, strLt_eq]
          clear hR hrec ih
          by_cases hb : bytesLt dx dy = true <;> by_cases h1 : dx.length < dy.length <;>
            by_cases h2 : dx.length > dy.length <;>
            cases Semver.isNum dx <;> cases Semver.isNum dy <;> simp [hb, h1, h2, cmpCont] <;> omega

/-- `comparePrerelease` on ALL pairs of byte strings.  The first alternative (Go answers -1 where the model's
    `comparePrerelease` says 0) needs two different non-empty strings that agree after their first byte; it cannot
    occur for the prerelease fields of parsed versions (both are "" or begin with '-'), see `comparePrerelease_ok'`. -/
theorem comparePrerelease_ok (x y : Bytes) (fuel : Nat) (hf : max x.length y.length + 1 ≤ fuel) :
    Generated.Semver.comparePrerelease fuel x y =
      .ok (if x ≠ y ∧ x ≠ [] ∧ y ≠ [] ∧ x.drop 1 = y.drop 1 then -1 else Semver.comparePrerelease x y) := by
  rw [comparePrerelease_unfold]
  unfold Semver.comparePrerelease
  by_cases h1 : x = y
  · simp [h1]
  · by_cases h2 : x = []
    · subst h2
      have : y ≠ [] := fun h => h1 h.symm
      simp [this, Ne.symm this]
    · by_cases h3 : y = []
      · simp [h2, h3]
      · rw [comparePrerelease_loop1_spec fuel x y (by omega) (by omega)]
        obtain ⟨a, x', rfl⟩ := List.exists_cons_of_ne_nil h2
        obtain ⟨b, y', rfl⟩ := List.exists_cons_of_ne_nil h3
        simp only [h1, idents, goCmp_eq, List.drop_one, List.tail_cons]
        by_cases h4 : x' = y'
        · subst h4
          have hab : a ≠ b := fun h => h1 (by rw [h])
          simp [hab]
        · have : splitOn 46 x' ≠ splitOn 46 y' := fun h => h4 (Semver.splitOn_inj 46 x' y' h)
          simp [h4, this]

theorem comparePrerelease_ok' (x y : Bytes) (fuel : Nat) (hf : max x.length y.length + 1 ≤ fuel)
    (hx : Semver.PreOK x) (hy : Semver.PreOK y) :
    Generated.Semver.comparePrerelease fuel x y = .ok (Semver.comparePrerelease x y) := by
  rw [comparePrerelease_ok x y fuel hf]
  have : ¬ (x ≠ y ∧ x ≠ [] ∧ y ≠ [] ∧ x.drop 1 = y.drop 1) := by
    rintro ⟨h1, h2, h3, h4⟩
    rcases hx with rfl | ⟨s, rfl⟩
    · exact h2 rfl
    · rcases hy with rfl | ⟨t, rfl⟩
      · exact h3 rfl
      · simp at h4; exact h1 (by rw [h4])
  simp only [this, if_false]

/-! ### Compare, Max -/

theorem parse_pre_len {v : Bytes} {p : Semver.Parsed} (h : Semver.parse v = some p) :
    p.prerelease.length + 1 ≤ v.length := by
  have hd := Semver.parse_decomp h
  cases hd with
  | short1 maj nmaj => simp
  | short2 maj min nmaj nmin => simp
  | full maj min pat pre bld nmaj nmin npat hpre hbld => simp; omega

theorem Compare_ok (v w : Bytes) (fuel : Nat) (hf : 2 * max v.length w.length ≤ fuel) :
    Generated.Semver.Compare fuel v w = .ok (Semver.compare v w) := by
  unfold Generated.Semver.Compare Semver.compare
  rw [parse_ok v fuel (by omega), parse_ok w fuel (by omega)]
  cases hv : Semver.parse v with
  | none => cases hw : Semver.parse w <;> simp
  | some pv =>
    cases hw : Semver.parse w with
    | none => simp
    | some pw =>
      have h1 := parse_pre_len hv
      have h2 := parse_pre_len hw
      have hc := comparePrerelease_ok' pv.prerelease pw.prerelease fuel (by omega)
        (Semver.parse_preOK hv) (Semver.parse_preOK hw)
      simp only [bind_ok, Bool.not_true, Bool.and_self, Bool.false_eq_true, if_false, ofParsed, compareInt_eq, hc,
        pure_eq_ok]
      by_cases c1 : Semver.compareInt pv.major pw.major = 0
      · by_cases c2 : Semver.compareInt pv.minor pw.minor = 0
        · by_cases c3 : Semver.compareInt pv.patch pw.patch = 0
          · simp [c1, c2, c3]
          · simp [c1, c2, c3]
        · simp [c1, c2]
      · simp [c1]

theorem canonical_len (v : Bytes) : (Semver.canonical v).length ≤ v.length + 4 := by
  unfold Semver.canonical
  cases h : Semver.parse v with
  | none => simp
  | some p =>
    have hd := Semver.parse_decomp h
    simp only
    split
    · simp; omega
    · cases hd with
      | short1 maj nmaj => simp [B_dot00]
      | short2 maj min nmaj nmin => simp [B_dot0]; omega
      | full maj min pat pre bld nmaj nmin npat hpre hbld => simp

theorem Max_ok (v w : Bytes) (fuel : Nat) (hf : 2 * max v.length w.length + 8 ≤ fuel) :
    Generated.Semver.Max fuel v w = .ok (Semver.max v w) := by
  unfold Generated.Semver.Max Semver.max
  have h1 := canonical_len v
  have h2 := canonical_len w
  rw [Canonical_ok v fuel (by omega), Canonical_ok w fuel (by omega)]
  simp only [bind_ok, Compare_ok _ _ fuel (show 2 * max (Semver.canonical v).length (Semver.canonical w).length ≤ fuel by omega)]
  by_cases h : Semver.compare (Semver.canonical v) (Semver.canonical w) > 0 <;> simp [h]

end ModVerif.TieFnSemver
