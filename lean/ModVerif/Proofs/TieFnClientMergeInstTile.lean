/-
  Tie proofs, sumdb/client.go (merge unit), INSTANTIATION part 2b: `readHashesW` of the regenerated client (the world-mode
  `tileHashReader.ReadHashes` of Generated/FnTileW.lean run over the client's own `tileReader` methods) against the model's
  `Client.readHashes`, from
    * the world-mode tie `Tie.FnTileW` (Part 1: `tileHashReader_ReadHashes_world`, `planG_eq`, `stagedM`),
    * the pure tie with the error text pinned down (`Tie.FnTile.tileHashReader_ReadHashes_tie_msg`),
    * the ties of the client's tile reader (`Tie.FnClientTiles`: `tileReader_Height_tie`, `tileReader_ReadTiles_run`,
      `tileReader_SaveTiles_run`).
  Hypotheses on the parameters: `P.hashSize = 32` (`tlog.HashSize`, a constant of the Go code) and tile height `≤ 57`
  (the range of the tile tie; `SetTileHeight` is 8 by default).
-/
import ModVerif.Proofs.TieFnClientMergeInstPure
import ModVerif.Proofs.TieFnClientMergeInstTlog
import ModVerif.Tie.FnTileW
import ModVerif.Proofs.ClientAuth
import ModVerif.Tie.FnClientTiles
namespace ModVerif.TieFnClientMerge
open ModVerif ModVerif.GoRt ModVerif.Client ModVerif.Generated.SumdbClient ModVerif.TieFnClientRep
open ModVerif.TieFnTile ModVerif.TieFnTileW ModVerif.TieFnClientTiles
open ModVerif.Tie.FnTileW (stagedM)

section
variable {H : Type} [DecidableEq H] [Inhabited H] {W : Type} (height : W → M (Int × W))
  (node : H → H → H) (ofBytes : Bytes → H)
  (readTiles : List Generated.Tile.Tile → W → M ((List Bytes × Option String) × W))
  (saveTiles : List Generated.Tile.Tile → List Bytes → W → M (Unit × W))

/-- `Tie.FnTileW.tileHashReader_ReadHashes_world_tie` with the error text pinned down (`MsgRefine`) -/
theorem world_tie_msg (fuel h N : Nat) (th : H) (idx : List Nat) (w w1 : W)
    (serve : Tile.Tile → Option (List H))
    (hh : height w = .ok ((h : Int), w1)) (h1 : 1 ≤ h) (h57 : h ≤ 57) (hN : N < 2 ^ 62) (hidx : idx.length < 2 ^ 56)
    (hserve : ServeRel ofBytes (readTilesAt readTiles w1) serve (planTiles h N idx))
    (hf : 64 * idx.length + 500 ≤ fuel) :
    ∃ msg, (∀ a, Generated.TileW.tileHashReader_ReadHashes height node ofBytes readTiles saveTiles fuel
          { tree := { N := (N : Int), Hash := th }, tr := () } (idx.map Int.ofNat) w = .ok a ↔
        stagedM readTiles saveTiles h N idx w1 (Tile.readHashes node N th h idx serve) msg = .ok a) ∧
      (∀ e, (Tile.readHashes node N th h idx serve).result = .error e →
        MsgOK (readTilesAt readTiles w1 ((planTiles h N idx).map toGen)).2 e msg) ∧
      (∀ p, Tile.plan h N idx = .ok p → p.stx ≠ [] →
        MsgRefine ofBytes (planTiles h N idx) (readTilesAt readTiles w1 ((planTiles h N idx).map toGen)).1
          (readTilesAt readTiles w1 ((planTiles h N idx).map toGen)).2 (Tile.readHashes node N th h idx serve).result msg) := by
  obtain ⟨msg, hp, hm, href⟩ := Tie.FnTile.tileHashReader_ReadHashes_tie_msg node ofBytes fuel h N th idx
    (readTilesAt readTiles w1) serve h1 h57 hN hidx hserve hf
  refine ⟨msg, ?_, hm, href⟩
  intro a
  rw [Tie.FnTileW.tileHashReader_ReadHashes_world height node ofBytes readTiles saveTiles fuel _ _ w w1 h hh a]
  have hpl := planG_eq node ofBytes fuel h N idx
    ({ tree := { N := (N : Int), Hash := th }, tr := { Height := (h : Int), ReadTiles := readTilesAt readTiles w1 } } :
      Generated.Tile.tileHashReader H) h1 h57 hN rfl rfl (by omega)
  unfold stagedW stagedM
  simp only [hpl, hp]
  cases hc : planCall h N idx with
  | none => exact Iff.rfl
  | some tiles =>
    have := planCall_some h N idx tiles hc
    subst this
    exact Iff.rfl

end

section
variable {σ H : Type} [DecidableEq H] [Inhabited H] {P : Params H} {E : Env σ}

/-- fuel of `readHashesW`: the tile tie (`64·len + 500`) and the client's `ReadTiles` / `SaveTiles` loops (one unit per
    planned tile, at most `62 + 63·len` of them, `+ 9`) -/
def readHashesFuel (_ : World σ H) (_ : Head H) (idx : List Nat) : Nat := 64 * idx.length + 600

omit [DecidableEq H] [Inhabited H] in
/-- the end of `ReadHashes` on the generated side: the pure result, and `SaveTiles` iff the effect log says so -/
theorem finishW_nil {A : Type} (ST : List Generated.Tile.Tile → List Bytes → GW σ H → M (Unit × GW σ H)) (cw : GW σ H) (res : A) :
    finishW ST cw (.ok (res, [])) = .ok (res, cw) := rfl

omit [DecidableEq H] [Inhabited H] in
theorem finishW_one {A : Type} (ST : List Generated.Tile.Tile → List Bytes → GW σ H → M (Unit × GW σ H)) (cw cw' : GW σ H)
    (res : A) (gt : List Generated.Tile.Tile) (data : List Bytes) (hs : ST gt data cw = .ok ((), cw')) :
    finishW ST cw (.ok (res, [(gt, data)])) = .ok (res, cw') := by
  simp only [finishW, saveLog, hs]

/-- ★ `tlog.TileHashReader(tree, &c.tileReader).ReadHashes(indexes)` of the regenerated client = the model's `readHashes` -/
theorem readHashesW_eq (P : Params H) (E : Env σ) (h32 : P.hashSize = 32) (h57 : Client.tileHeight P ≤ 57)
    (w : World σ H) (cw : GW σ H) (tree : Head H) (idx : List Nat) (fuel : Nat)
    (hr : RepRun P E w cw) (htree : tree.n < 2 ^ 62) (hlen : idx.length < 2 ^ 56) (hf : 64 * idx.length + 600 ≤ fuel) :
    ∃ r' cw', readHashesW (envOf P E) fuel (headG tree) (idx.map Int.ofNat) cw = .ok (r', cw') ∧
      RepRun P E (readHashes P E w tree idx).2 cw' ∧ RepRes r' (readHashes P E w tree idx).1 ∧
      FrameG cw cw' ∧ FrameM w (readHashes P E w tree idx).2 := by
  have h1 := ModVerif.Client.tileHeight_pos P
  -- the generated function and its world functions
  generalize hRT : (fun ts (w : GW σ H) => tileReader_ReadTiles (envOf P E) fuel ts w) = RT
  generalize hST : (fun ts d (w : GW σ H) => tileReader_SaveTiles (envOf P E) fuel ts d w) = ST
  have hgen : readHashesW (envOf P E) fuel (headG tree) (idx.map Int.ofNat) cw =
      Generated.TileW.tileHashReader_ReadHashes (fun w => pure (tileReader_Height w)) P.node P.dec RT ST fuel
        { tree := { N := (tree.n : Int), Hash := tree.hash }, tr := () } (idx.map Int.ofNat) cw := by
    rw [← hRT, ← hST]; rfl
  rw [hgen]
  have hh : (fun (w : GW σ H) => (pure (tileReader_Height w) : M (Int × GW σ H))) cw = .ok ((Client.tileHeight P : Int), cw) := by
    simp only [Tie.FnClientTiles.tileReader_Height_tie hr]; rfl
  have hRTe : ∀ ts (w : GW σ H), RT ts w = tileReader_ReadTiles (envOf P E) fuel ts w := by intro ts w; rw [← hRT]
  have hSTe : ∀ ts d (w : GW σ H), ST ts d w = tileReader_SaveTiles (envOf P E) fuel ts d w := by intro ts d w; rw [← hST]
  have hplen := planTiles_length (Client.tileHeight P) tree.n h1 htree idx
  cases hp : Tile.plan (Client.tileHeight P) tree.n idx with
  | error e =>
    -- planning fails: an index outside the tree; the world is untouched
    have hpt : planTiles (Client.tileHeight P) tree.n idx = [] := by unfold planTiles; rw [hp]
    have hserve : ServeRel P.dec (readTilesAt RT cw) (fun _ => (none : Option (List H))) (planTiles (Client.tileHeight P) tree.n idx) := by
      rw [hpt]; intro h; exact absurd rfl h
    obtain ⟨msg, hiff, hmsg, _⟩ := world_tie_msg (fun w => pure (tileReader_Height w)) P.node P.dec RT ST fuel
      (Client.tileHeight P) tree.n tree.hash idx cw cw (fun _ => none) hh h1 h57 htree hlen hserve (by omega)
    have hout : Tile.readHashes P.node tree.n tree.hash (Client.tileHeight P) idx (fun _ => none) =
        { saved := none, result := .error e } := by
      simp only [Tile.readHashes, hp]
    have hpc : planCall (Client.tileHeight P) tree.n idx = none := by unfold planCall; rw [hp]
    have hst : stagedM RT ST (Client.tileHeight P) tree.n idx cw
        (Tile.readHashes P.node tree.n tree.hash (Client.tileHeight P) idx (fun _ => none)) msg = .ok ((([] : List H), msg), cw) := by
      unfold stagedM
      simp only [hpc, hout, rhOut]
      exact finishW_nil ST cw _
    have hm : Client.readHashes P E w tree idx = (.error (.tlog e), w) := by
      simp only [Client.readHashes, hp]
    rw [hm]
    have he : e = .indexRange := by
      obtain ⟨cs, tiles0, order0, sto, _, _, _, _, hres, hplan⟩ := plan_decomp (Client.tileHeight P) tree.n h1 htree idx
      rw [hp] at hplan
      cases hpi : Tile.planIndexes (Client.tileHeight P) tree.n idx (tiles0, order0, []) with
      | error e' =>
        rw [hpi] at hplan
        simp only [Except.error.injEq] at hplan
        rw [hplan]
        exact hres e' hpi
      | ok res => rw [hpi] at hplan; cases hplan
    have hmo := hmsg e (by rw [hout])
    subst he
    exact ⟨_, _, (hiff _).2 hst, hr, repErr_of_msgOK _ _ _ hmo (by decide) (by decide), FrameG.refl _, FrameM.refl _⟩
  | ok p =>
    have hpt : planTiles (Client.tileHeight P) tree.n idx = p.tiles := by unfold planTiles; rw [hp]
    obtain ⟨hrange, hw1, hnd⟩ := plan_tiles_facts (Client.tileHeight P) tree.n h1 h57 htree idx p hp
    by_cases hstx : p.stx.isEmpty = true
    · -- the empty tree: nothing to read, the world is untouched
      obtain ⟨serve, hserve⟩ := exists_serve (H := H) P.dec (readTilesAt RT cw) (planTiles (Client.tileHeight P) tree.n idx)
        (by rw [hpt]; exact hnd)
      obtain ⟨msg, hiff, _, _⟩ := world_tie_msg (fun w => pure (tileReader_Height w)) P.node P.dec RT ST fuel
        (Client.tileHeight P) tree.n tree.hash idx cw cw serve hh h1 h57 htree hlen hserve (by omega)
      have hout : Tile.readHashes P.node tree.n tree.hash (Client.tileHeight P) idx serve =
          { saved := none, result := .ok [] } := by
        simp only [Tile.readHashes, hp, hstx, if_true]
      have hpc : planCall (Client.tileHeight P) tree.n idx = none := by
        unfold planCall; rw [hp]; simp only [hstx, if_true]
      have hst : stagedM RT ST (Client.tileHeight P) tree.n idx cw
          (Tile.readHashes P.node tree.n tree.hash (Client.tileHeight P) idx serve) msg = .ok ((([] : List H), none), cw) := by
        unfold stagedM
        simp only [hpc, hout, rhOut]
        exact finishW_nil ST cw _
      have hm : Client.readHashes P E w tree idx = (.ok [], w) := by
        simp only [Client.readHashes, hp, hstx, if_true]
      rw [hm]
      exact ⟨_, _, (hiff _).2 hst, hr, ⟨rfl, rfl⟩, FrameG.refl _, FrameM.refl _⟩
    · have hstx' : p.stx.isEmpty = false := by simpa using hstx
      have hstxne : p.stx ≠ [] := by
        intro hc; rw [hc] at hstx'; simp at hstx'
      have hfuelT : p.tiles.length + 9 ≤ fuel := by rw [← hpt]; omega
      obtain ⟨p0, cwR, eR, rrR, rsR, fgR, fmR⟩ :=
        Tie.FnClientTiles.tileReader_ReadTiles_run hr p.tiles hrange fuel hfuelT
      have hRTc : RT (p.tiles.map toGen) cw = .ok (p0, cwR) := by rw [hRTe, eR]
      have hrta : readTilesAt RT cw (p.tiles.map toGen) = p0 := by unfold readTilesAt; rw [hRTc]
      have hpc : planCall (Client.tileHeight P) tree.n idx = some p.tiles := by
        unfold planCall; rw [hp]; simp only [hstx', Bool.false_eq_true, if_false]
      -- the model, up to the answer of `ReadTiles`
      have hm0 : Client.readHashes P E w tree idx =
          match (Client.readTiles E w p.tiles).1 with
          | .error e => (.error e, (Client.readTiles E w p.tiles).2)
          | .ok datas =>
            if !Client.bytesWidthsOk P.hashSize p.tiles datas then (.error .tileLen, (Client.readTiles E w p.tiles).2) else
            match (Tile.readHashes P.node tree.n tree.hash (Client.tileHeight P) idx
                (fun t => (p.tiles.zip (datas.map (Client.decodeTile P))).lookup t)).saved with
            | some _ => (liftTlog (Tile.readHashes P.node tree.n tree.hash (Client.tileHeight P) idx
                (fun t => (p.tiles.zip (datas.map (Client.decodeTile P))).lookup t)).result,
                Client.saveTiles E (Client.readTiles E w p.tiles).2 (p.tiles.zip datas))
            | none => (liftTlog (Tile.readHashes P.node tree.n tree.hash (Client.tileHeight P) idx
                (fun t => (p.tiles.zip (datas.map (Client.decodeTile P))).lookup t)).result,
                (Client.readTiles E w p.tiles).2) := by
        simp only [Client.readHashes, hp, hstx', Bool.false_eq_true, if_false]
        cases (Client.readTiles E w p.tiles).1 with
        | error e => rfl
        | ok datas =>
          simp only []
          split
          · rfl
          · cases (Tile.readHashes P.node tree.n tree.hash (Client.tileHeight P) idx
                (fun t => (p.tiles.zip (datas.map (Client.decodeTile P))).lookup t)).saved <;> rfl
      rw [hm0]
      cases hrd : (Client.readTiles E w p.tiles).1 with
      | error e =>
        -- `ReadTiles` fails: its error is returned
        rw [hrd] at rsR
        obtain ⟨s, hs, habs⟩ := rsR
        obtain ⟨d0, e0⟩ := p0
        simp only at hs
        subst hs
        have hne : p.tiles ≠ [] := by
          intro hnil
          rw [hnil] at hrd
          simp [Client.readTiles, Client.readTilesAll, Client.firstError] at hrd
        have hserve : ServeRel P.dec (readTilesAt RT cw) (fun _ => (none : Option (List H)))
            (planTiles (Client.tileHeight P) tree.n idx) := by
          rw [hpt]
          intro _
          rw [hrta]
          exact mapM_const_none p.tiles hne
        obtain ⟨msg, hiff, hmsg, _⟩ := world_tie_msg (fun w => pure (tileReader_Height w)) P.node P.dec RT ST fuel
          (Client.tileHeight P) tree.n tree.hash idx cw cw (fun _ => none) hh h1 h57 htree hlen hserve (by omega)
        have hout : Tile.readHashes P.node tree.n tree.hash (Client.tileHeight P) idx (fun _ => (none : Option (List H))) =
            { saved := none, result := .error .reader } := by
          simp only [Tile.readHashes, hp, hstx', Bool.false_eq_true, if_false, mapM_const_none p.tiles hne]
        have hmo := hmsg .reader (by rw [hout])
        rw [hpt, hrta] at hmo
        obtain ⟨hm1, _⟩ := hmo
        simp only at hm1
        have hst : stagedM RT ST (Client.tileHeight P) tree.n idx cw
            (Tile.readHashes P.node tree.n tree.hash (Client.tileHeight P) idx (fun _ => none)) msg =
              .ok ((([] : List H), msg), cwR) := by
          unfold stagedM
          simp only [hpc, hout, rhOut, hpt, hRTc]
          exact finishW_nil ST cwR _
        refine ⟨_, _, (hiff _).2 hst, rrR, ?_, fgR, fmR⟩
        rw [hm1]
        exact ⟨s, rfl, habs⟩
      | ok datas =>
        rw [hrd] at rsR
        obtain ⟨he0, hd0⟩ := rsR
        obtain ⟨d0, e0⟩ := p0
        simp only at he0 hd0
        subst he0 hd0
        have hdl : d0.length = p.tiles.length := by
          have h1' := ModVerif.Client.firstError_length _ _ (show Client.firstError (Client.readTilesAll E w p.tiles).1 = .ok d0 from hrd)
          rw [h1', ModVerif.Client.readTilesAll_length]
        -- the server of the tile tie: the table of decoded tiles
        have hserve : ServeRel P.dec (readTilesAt RT cw)
            (fun t => (p.tiles.zip (d0.map (unflatS P.dec))).lookup t) (planTiles (Client.tileHeight P) tree.n idx) := by
          rw [hpt]
          intro _
          rw [hrta]
          simp only [hdl, if_true]
          exact mapM_lookup_zip p.tiles _ hnd (by simp [hdl])
        obtain ⟨msg, hiff, hmsg, href⟩ := world_tie_msg (fun w => pure (tileReader_Height w)) P.node P.dec RT ST fuel
          (Client.tileHeight P) tree.n tree.hash idx cw cw _ hh h1 h57 htree hlen hserve (by omega)
        have href' := href p hp hstxne
        rw [hpt, hrta] at href' hmsg
        have href'' := href' rfl hdl
        rw [h32]
        have hwe := bytesWidthsOk_eq P.dec p.tiles d0 hw1
        by_cases hwd : Client.bytesWidthsOk 32 p.tiles d0 = true
        · -- the widths are right: the model's table is the tile tie's
          have htab : d0.map (Client.decodeTile P) = d0.map (unflatS P.dec) := decodeTile_map_eq P h32 p.tiles d0 hwd
          simp only [hwd, Bool.not_true, Bool.false_eq_true, if_false, htab]
          generalize hout : Tile.readHashes P.node tree.n tree.hash (Client.tileHeight P) idx
            (fun t => (p.tiles.zip (d0.map (unflatS P.dec))).lookup t) = out at hiff hmsg href''
          have hres : RepRes (match out.result with | .ok hs => (hs, (none : Option String)) | .error _ => ([], msg))
              (liftTlog out.result) := by
            cases hor : out.result with
            | ok hs => exact ⟨rfl, rfl⟩
            | error e =>
              simp only [liftTlog]
              have hmo := hmsg e hor
              by_cases heb : e = .badTile
              · subst heb
                obtain ⟨s, hs, hms⟩ := href''.2 (by rw [← hwe]; exact hwd) hor
                rw [hms]
                exact ⟨s, rfl, errAbs_hft s hs⟩
              · by_cases her : e = .reader
                · subst her
                  exact absurd rfl hmo.2
                · exact repErr_of_msgOK _ _ _ hmo her heb
          cases hsv : out.saved with
          | none =>
            have hst : stagedM RT ST (Client.tileHeight P) tree.n idx cw out msg =
                .ok ((match out.result with | .ok hs => (hs, (none : Option String)) | .error _ => ([], msg)), cwR) := by
              unfold stagedM
              simp only [hpc, rhOut, hpt, hRTc, hsv]
              exact finishW_nil ST cwR _
            exact ⟨_, _, (hiff _).2 hst, rrR, hres, fgR, fmR⟩
          | some sv =>
            obtain ⟨cwS, eS, rrS, fgS, fmS⟩ :=
              Tie.FnClientTiles.tileReader_SaveTiles_run rrR p.tiles d0 hdl hrange fuel hfuelT
            have hSTc : ST (p.tiles.map toGen) d0 cwR = .ok ((), cwS) := by rw [hSTe, eS]
            have hst : stagedM RT ST (Client.tileHeight P) tree.n idx cw out msg =
                .ok ((match out.result with | .ok hs => (hs, (none : Option String)) | .error _ => ([], msg)), cwS) := by
              unfold stagedM
              simp only [hpc, rhOut, hpt, hRTc, hsv, hrta]
              exact finishW_one ST cwR cwS _ _ _ hSTc
            exact ⟨_, _, (hiff _).2 hst, rrS, hres, fgR.trans fgS, fmR.trans fmS⟩
        · -- a tile of the wrong length
          have hwd' : Client.bytesWidthsOk 32 p.tiles d0 = false := by simpa using hwd
          simp only [hwd', Bool.not_false, if_true]
          have hwf : Tile.widthsOk p.tiles (d0.map (unflatS P.dec)) = false := by rw [← hwe]; exact hwd'
          have hout : Tile.readHashes P.node tree.n tree.hash (Client.tileHeight P) idx
              (fun t => (p.tiles.zip (d0.map (unflatS P.dec))).lookup t) = { saved := none, result := .error .badTile } := by
            simp only [Tile.readHashes, hp, hstx', Bool.false_eq_true, if_false,
              mapM_lookup_zip p.tiles _ hnd (show p.tiles.length = (d0.map (unflatS P.dec)).length by simp [hdl]), hwf,
              Bool.not_false, if_true]
          have hms := href''.1 hwf
          have hst : stagedM RT ST (Client.tileHeight P) tree.n idx cw
              (Tile.readHashes P.node tree.n tree.hash (Client.tileHeight P) idx
                (fun t => (p.tiles.zip (d0.map (unflatS P.dec))).lookup t)) msg = .ok ((([] : List H), msg), cwR) := by
            unfold stagedM
            simp only [hpc, hout, rhOut, hpt, hRTc]
            exact finishW_nil ST cwR _
          refine ⟨_, _, (hiff _).2 hst, rrR, ?_, fgR, fmR⟩
          rw [hms]
          exact ⟨_, rfl, errAbs_tileLenV⟩

/-- … as the merge unit consumes it (the hypothesis `Normal` of the interface is not needed: under the range hypotheses the
    model-only outcomes do not occur) -/
theorem readHashesSpec_inst (P : Params H) (E : Env σ) (h32 : P.hashSize = 32) (h57 : Client.tileHeight P ≤ 57) :
    ReadHashesSpec P E (readHashesFuel (σ := σ) (H := H)) :=
  fun w cw tree idx fuel hr htree hlen hf _ => readHashesW_eq P E h32 h57 w cw tree idx fuel hr htree hlen hf

/-- ★ the three ties below the merge unit, for every `Params` with `hashSize = 32` and tile height `≤ 57` -/
def tileSpecs (P : Params H) (E : Env σ) (h32 : P.hashSize = 32) (h57 : Client.tileHeight P ≤ 57) : TileSpecs P E :=
  { FR := readHashesFuel
    FT := treeHashFuel readHashesFuel
    FP := proveTreeFuel readHashesFuel
    readHashes := readHashesSpec_inst P E h32 h57
    treeHash := treeHashSpec_of_readHashes _ (readHashesSpec_inst P E h32 h57)
    proveTree := proveTreeSpec_of_readHashes _ (readHashesSpec_inst P E h32 h57) }


end
end ModVerif.TieFnClientMerge
