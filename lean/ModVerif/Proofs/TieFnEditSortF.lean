/-
  Helper lemmas for Tie/FnEditSort.lean (part F): the two-pointer compaction loops of `File.Cleanup` / `WorkFile.Cleanup`
  (`w := 0; for _, r := range f.X { if live(r) { f.X[w] = r; w++ } }; f.X = f.X[:w]`) against `List.filter`.
-/
import ModVerif.Proofs.TieFnEditSortC
set_option linter.unusedSimpArgs false
set_option linter.unusedVariables false
namespace ModVerif.Tie.FnEditSortF
open ModVerif ModVerif.GoRt ModVerif.Generated.Edit ModVerif.Tie.FnEditRep ModVerif.Tie.FnEditSortA ModVerif.Tie.FnEditSortB
  ModVerif.Tie.FnEditSortC

theorem take_set_succ {α : Type} : ∀ (l : List α) (w : Nat) (g : α), w < l.length → (l.set w g).take (w + 1) = l.take w ++ [g]
  | a :: l, 0, g, _ => by simp
  | a :: l, w + 1, g, h => by
    simp only [List.set_cons_succ, List.take_succ_cons, List.cons_append]
    rw [take_set_succ l w g (by simpa using h)]
  | [], _, _, h => by cases h

theorem setIdxL_nat {α : Type} (l : List α) (w : Nat) (g : α) (h : w < l.length) : setIdxL l (w : Int) g = .ok (l.set w g) := by
  have : (0 : Int) ≤ (w : Int) ∧ (w : Int) < len l := by simp [len_eq]; omega
  simp [setIdxL, this, pure, Except.pure]

/-- generic compaction loop on a field of the `File` object at `f` -/
def compactF (live : Heap → Int → M Bool) (getF : File → List Int) (setF : File → List Int → File) (rx : List Int) (f : Int) :
    Nat → Int → Heap → Int → M (Int × Heap × Int)
  | 0, _, _, _ => throw Err.fuel
  | fuel + 1, ri, world, w => if decide (ri < len rx) then (do
      let g ← idxL rx ri
      let b ← live world g
      if b then (do
        let t6 ← heapGet world.mods f
        let t7 ← setIdxL (getF t6) w g
        let t8 ← heapGet world.mods f
        let t9 ← heapSet world.mods f (setF t8 t7)
        compactF live getF setF rx f fuel (ri + 1) { world with mods := t9 } (w + 1))
      else compactF live getF setF rx f fuel (ri + 1) world w)
    else pure (ri, world, w)

/-- the same on a field of the `WorkFile` object at `f` -/
def compactW (live : Heap → Int → M Bool) (getF : WorkFile → List Int) (setF : WorkFile → List Int → WorkFile) (rx : List Int) (f : Int) :
    Nat → Int → Heap → Int → M (Int × Heap × Int)
  | 0, _, _, _ => throw Err.fuel
  | fuel + 1, ri, world, w => if decide (ri < len rx) then (do
      let g ← idxL rx ri
      let b ← live world g
      if b then (do
        let t6 ← heapGet world.works f
        let t7 ← setIdxL (getF t6) w g
        let t8 ← heapGet world.works f
        let t9 ← heapSet world.works f (setF t8 t7)
        compactW live getF setF rx f fuel (ri + 1) { world with works := t9 } (w + 1))
      else compactW live getF setF rx f fuel (ri + 1) world w)
    else pure (ri, world, w)

theorem compactF_spec {β : Type} (live : Heap → Int → M Bool) (getF : File → List Int) (setF : File → List Int → File)
    (hgs : ∀ o l, getF (setF o l) = l) (hss : ∀ o l l', setF (setF o l) l' = setF o l') (q : β → Bool)
    (h : Heap) (f : Int) (o0 : File) (ho : heapGet h.mods f = .ok o0) (o : File) :
    ∀ (rest : List (Int × β)) (pre rx : List Int) (ri : Int) (fuel : Nat) (cur : List Int) (w : Nat),
      rx = pre ++ rest.map (·.1) → ri = (pre.length : Int) → rest.length < fuel →
      (∀ ms, ∀ z ∈ rest, live { h with mods := ms } z.1 = .ok (q z.2)) →
      cur.length = rx.length → w ≤ pre.length →
      ∃ cur', compactF live getF setF rx f fuel ri { h with mods := h.mods.set (f.toNat - 1) (setF o cur) } (w : Int) =
          .ok (len rx, { h with mods := h.mods.set (f.toNat - 1) (setF o cur') },
            ((w + (rest.filter (fun z => q z.2)).length : Nat) : Int)) ∧
        cur'.length = rx.length ∧
        cur'.take (w + (rest.filter (fun z => q z.2)).length) = cur.take w ++ (rest.filter (fun z => q z.2)).map (·.1) := by
  intro rest
  induction rest with
  | nil =>
    intro pre rx ri fuel cur w hrx hri hf _ hl hw
    cases fuel with
    | zero => cases hf
    | succ fuel =>
      subst hrx hri
      have := not_lt_len_end pre
      simp only [List.map_nil] at this ⊢
      refine ⟨cur, ?_, hl, by simp⟩
      simp [compactF, this, pure, Except.pure, len_eq]
  | cons z rest ih =>
    intro pre rx ri fuel cur w hrx hri hf hlive hl hw
    cases fuel with
    | zero => cases hf
    | succ fuel =>
      have ih' := ih (pre ++ [z.1]) rx (ri + 1) fuel
      subst hrx hri
      simp only [List.map_cons] at ih' hl ⊢
      have hz := hlive (h.mods.set (f.toNat - 1) (setF o cur)) z List.mem_cons_self
      have hf' : rest.length < fuel := by simp at hf; omega
      have hlive' : ∀ ms, ∀ y ∈ rest, live { h with mods := ms } y.1 = .ok (q y.2) :=
        fun ms y hy => hlive ms y (List.mem_cons_of_mem _ hy)
      simp only [compactF, lt_len_cursor, decide_true, if_true, idxL_cursor, bind, Except.bind, hz]
      cases hq : q z.2
      · simp only [Bool.false_eq_true, if_false]
        obtain ⟨cur', e1, e2, e3⟩ := ih' cur w (by simp) (by simp) hf' hlive' hl (by simp; omega)
        refine ⟨cur', ?_, e2, ?_⟩
        · rw [e1]; simp [List.filter_cons, hq]
        · simpa [List.filter_cons, hq] using e3
      · have hwl : w < cur.length := by rw [hl]; simp; omega
        simp only [if_true, mods_set_get ho, hgs, setIdxL_nat cur w z.1 hwl, heapSet_listSet_same ho, hss]
        have hc : ((w : Int) + 1) = ((w + 1 : Nat) : Int) := by omega
        rw [hc]
        obtain ⟨cur', e1, e2, e3⟩ := ih' (cur.set w z.1) (w + 1) (by simp) (by simp) hf' hlive' (by simpa using hl) (by simp; omega)
        refine ⟨cur', ?_, e2, ?_⟩
        · rw [e1]; simp [List.filter_cons, hq, Nat.add_assoc, Nat.add_comm 1]
        · simp only [List.filter_cons, hq, if_true, List.length_cons, List.map_cons]
          rw [show w + ((rest.filter fun z => q z.2).length + 1) = w + 1 + (rest.filter fun z => q z.2).length by omega, e3,
            take_set_succ cur w z.1 hwl]
          simp

theorem compactW_spec {β : Type} (live : Heap → Int → M Bool) (getF : WorkFile → List Int) (setF : WorkFile → List Int → WorkFile)
    (hgs : ∀ o l, getF (setF o l) = l) (hss : ∀ o l l', setF (setF o l) l' = setF o l') (q : β → Bool)
    (h : Heap) (f : Int) (o0 : WorkFile) (ho : heapGet h.works f = .ok o0) (o : WorkFile) :
    ∀ (rest : List (Int × β)) (pre rx : List Int) (ri : Int) (fuel : Nat) (cur : List Int) (w : Nat),
      rx = pre ++ rest.map (·.1) → ri = (pre.length : Int) → rest.length < fuel →
      (∀ ms, ∀ z ∈ rest, live { h with works := ms } z.1 = .ok (q z.2)) →
      cur.length = rx.length → w ≤ pre.length →
      ∃ cur', compactW live getF setF rx f fuel ri { h with works := h.works.set (f.toNat - 1) (setF o cur) } (w : Int) =
          .ok (len rx, { h with works := h.works.set (f.toNat - 1) (setF o cur') },
            ((w + (rest.filter (fun z => q z.2)).length : Nat) : Int)) ∧
        cur'.length = rx.length ∧
        cur'.take (w + (rest.filter (fun z => q z.2)).length) = cur.take w ++ (rest.filter (fun z => q z.2)).map (·.1) := by
  intro rest
  induction rest with
  | nil =>
    intro pre rx ri fuel cur w hrx hri hf _ hl hw
    cases fuel with
    | zero => cases hf
    | succ fuel =>
      subst hrx hri
      have := not_lt_len_end pre
      simp only [List.map_nil] at this ⊢
      refine ⟨cur, ?_, hl, by simp⟩
      simp [compactW, this, pure, Except.pure, len_eq]
  | cons z rest ih =>
    intro pre rx ri fuel cur w hrx hri hf hlive hl hw
    cases fuel with
    | zero => cases hf
    | succ fuel =>
      have ih' := ih (pre ++ [z.1]) rx (ri + 1) fuel
      subst hrx hri
      simp only [List.map_cons] at ih' hl ⊢
      have hz := hlive (h.works.set (f.toNat - 1) (setF o cur)) z List.mem_cons_self
      have hf' : rest.length < fuel := by simp at hf; omega
      have hlive' : ∀ ms, ∀ y ∈ rest, live { h with works := ms } y.1 = .ok (q y.2) :=
        fun ms y hy => hlive ms y (List.mem_cons_of_mem _ hy)
      simp only [compactW, lt_len_cursor, decide_true, if_true, idxL_cursor, bind, Except.bind, hz]
      cases hq : q z.2
      · simp only [Bool.false_eq_true, if_false]
        obtain ⟨cur', e1, e2, e3⟩ := ih' cur w (by simp) (by simp) hf' hlive' hl (by simp; omega)
        refine ⟨cur', ?_, e2, ?_⟩
        · rw [e1]; simp [List.filter_cons, hq]
        · simpa [List.filter_cons, hq] using e3
      · have hwl : w < cur.length := by rw [hl]; simp; omega
        simp only [if_true, works_set_get ho, hgs, setIdxL_nat cur w z.1 hwl, heapSet_listSet_same ho, hss]
        have hc : ((w : Int) + 1) = ((w + 1 : Nat) : Int) := by omega
        rw [hc]
        obtain ⟨cur', e1, e2, e3⟩ := ih' (cur.set w z.1) (w + 1) (by simp) (by simp) hf' hlive' (by simpa using hl) (by simp; omega)
        refine ⟨cur', ?_, e2, ?_⟩
        · rw [e1]; simp [List.filter_cons, hq, Nat.add_assoc, Nat.add_comm 1]
        · simp only [List.filter_cons, hq, if_true, List.length_cons, List.map_cons]
          rw [show w + ((rest.filter fun z => q z.2).length + 1) = w + 1 + (rest.filter fun z => q z.2).length by omega, e3,
            take_set_succ cur w z.1 hwl]
          simp

def cl1_live : Heap → Int → M Bool := fun world g => do let t ← heapGet world.godebugs g; pure (!decide (t.Key = ([] : Bytes)))

theorem cl1_eq (rx : List Int) (f : Int) : ∀ (fuel : Nat) (ri : Int) (world : Heap) (w : Int),
    File_Cleanup_loop1 rx f fuel ri world w = compactF cl1_live (·.Godebug) (fun o l => { o with Godebug := l }) rx f fuel ri world w := by
  intro fuel
  induction fuel with
  | zero => intro ri world w; rfl
  | succ n ih =>
    intro ri world w
    simp only [File_Cleanup_loop1, compactF, cl1_live, ih, bind_assoc, pure_bind]

def cl2_live : Heap → Int → M Bool := fun world g => do let t ← heapGet world.requires g; pure (!decide (t.Mod.Path = ([] : Bytes)))

theorem cl2_eq (rx : List Int) (f : Int) : ∀ (fuel : Nat) (ri : Int) (world : Heap) (w : Int),
    File_Cleanup_loop2 rx f fuel ri world w = compactF cl2_live (·.Require) (fun o l => { o with Require := l }) rx f fuel ri world w := by
  intro fuel
  induction fuel with
  | zero => intro ri world w; rfl
  | succ n ih =>
    intro ri world w
    simp only [File_Cleanup_loop2, compactF, cl2_live, ih, bind_assoc, pure_bind]

def cl3_live : Heap → Int → M Bool := fun world g => do let t ← heapGet world.excludes g; pure (!decide (t.Mod.Path = ([] : Bytes)))

theorem cl3_eq (rx : List Int) (f : Int) : ∀ (fuel : Nat) (ri : Int) (world : Heap) (w : Int),
    File_Cleanup_loop3 rx f fuel ri world w = compactF cl3_live (·.Exclude) (fun o l => { o with Exclude := l }) rx f fuel ri world w := by
  intro fuel
  induction fuel with
  | zero => intro ri world w; rfl
  | succ n ih =>
    intro ri world w
    simp only [File_Cleanup_loop3, compactF, cl3_live, ih, bind_assoc, pure_bind]

def cl4_live : Heap → Int → M Bool := fun world g => do let t ← heapGet world.replaces g; pure (!decide (t.Old.Path = ([] : Bytes)))

theorem cl4_eq (rx : List Int) (f : Int) : ∀ (fuel : Nat) (ri : Int) (world : Heap) (w : Int),
    File_Cleanup_loop4 rx f fuel ri world w = compactF cl4_live (·.Replace) (fun o l => { o with Replace := l }) rx f fuel ri world w := by
  intro fuel
  induction fuel with
  | zero => intro ri world w; rfl
  | succ n ih =>
    intro ri world w
    simp only [File_Cleanup_loop4, compactF, cl4_live, ih, bind_assoc, pure_bind]

def cl6_live : Heap → Int → M Bool := fun world g => do let t ← heapGet world.tools g; pure (!decide (t.Path = ([] : Bytes)))

theorem cl6_eq (rx : List Int) (f : Int) : ∀ (fuel : Nat) (ri : Int) (world : Heap) (w : Int),
    File_Cleanup_loop6 rx f fuel ri world w = compactF cl6_live (·.Tool) (fun o l => { o with Tool := l }) rx f fuel ri world w := by
  intro fuel
  induction fuel with
  | zero => intro ri world w; rfl
  | succ n ih =>
    intro ri world w
    simp only [File_Cleanup_loop6, compactF, cl6_live, ih, bind_assoc, pure_bind]

def wcl1_live : Heap → Int → M Bool := fun world g => do let t ← heapGet world.godebugs g; pure (!decide (t.Key = ([] : Bytes)))

theorem wcl1_eq (rx : List Int) (f : Int) : ∀ (fuel : Nat) (ri : Int) (world : Heap) (w : Int),
    WorkFile_Cleanup_loop1 rx f fuel ri world w = compactW wcl1_live (·.Godebug) (fun o l => { o with Godebug := l }) rx f fuel ri world w := by
  intro fuel
  induction fuel with
  | zero => intro ri world w; rfl
  | succ n ih =>
    intro ri world w
    simp only [WorkFile_Cleanup_loop1, compactW, wcl1_live, ih, bind_assoc, pure_bind]

def wcl2_live : Heap → Int → M Bool := fun world g => do let t ← heapGet world.uses g; pure (!decide (t.Path = ([] : Bytes)))

theorem wcl2_eq (rx : List Int) (f : Int) : ∀ (fuel : Nat) (ri : Int) (world : Heap) (w : Int),
    WorkFile_Cleanup_loop2 rx f fuel ri world w = compactW wcl2_live (·.Use) (fun o l => { o with Use := l }) rx f fuel ri world w := by
  intro fuel
  induction fuel with
  | zero => intro ri world w; rfl
  | succ n ih =>
    intro ri world w
    simp only [WorkFile_Cleanup_loop2, compactW, wcl2_live, ih, bind_assoc, pure_bind]

def wcl3_live : Heap → Int → M Bool := fun world g => do let t ← heapGet world.replaces g; pure (!decide (t.Old.Path = ([] : Bytes)))

theorem wcl3_eq (rx : List Int) (f : Int) : ∀ (fuel : Nat) (ri : Int) (world : Heap) (w : Int),
    WorkFile_Cleanup_loop3 rx f fuel ri world w = compactW wcl3_live (·.Replace) (fun o l => { o with Replace := l }) rx f fuel ri world w := by
  intro fuel
  induction fuel with
  | zero => intro ri world w; rfl
  | succ n ih =>
    intro ri world w
    simp only [WorkFile_Cleanup_loop3, compactW, wcl3_live, ih, bind_assoc, pure_bind]

def cl5_live : Heap → Int → M Bool := fun world g => do
  let t57 ← heapGet world.retracts g
  (if (!decide (t57.VersionInterval.Low = ([] : Bytes))) then pure true else (do
    let t58 ← heapGet world.retracts g
    pure (!decide (t58.VersionInterval.High = ([] : Bytes)))))

theorem cl5_eq (rx : List Int) (f : Int) : ∀ (fuel : Nat) (ri : Int) (world : Heap) (w : Int),
    File_Cleanup_loop5 rx f fuel ri world w = compactF cl5_live (·.Retract) (fun o l => { o with Retract := l }) rx f fuel ri world w := by
  intro fuel
  induction fuel with
  | zero => intro ri world w; rfl
  | succ n ih =>
    intro ri world w
    simp only [File_Cleanup_loop5, compactF, cl5_live, ih, bind_assoc, pure_bind]

end ModVerif.Tie.FnEditSortF
