/-
  Helper lemmas for Tie/FnRuleAdd.lean, part J: a fact about the hand model's PARSER that the regenerated directive layer
  relies on (`x.Token[0]` would panic otherwise): in a parsed tree every statement is a comment block, a line with at
  least one token, or a line block with at least one token (`parse_ne`).
  Owner: rule-add.
-/
import ModVerif.Model.Modfile.Comments
set_option linter.unusedSimpArgs false
set_option linter.unusedVariables false
namespace ModVerif.Tie.FnRuleAddJ
open ModVerif ModVerif.Modfile

/-- a statement the directive layer can process: no stray parenthesis, lines and blocks have a token -/
def StmtNE : Expr → Prop
  | .lparen _ => False
  | .rparen _ => False
  | .line l => l.token ≠ []
  | .lineBlock b => b.token ≠ []
  | .commentBlock _ => True

theorem ne_setComments (x : Expr) (c : Comments) (h : StmtNE x) : StmtNE (x.setComments c) := by
  cases x <;> first | exact h | trivial

theorem parseLineBlockLoop_token : ∀ (fuel : Nat) (i : Input) (x : LineBlock) (ls : List Line) (cs : List Comment) (b : LineBlock) (i' : Input),
    parseLineBlockLoop fuel i x ls cs = .ok (b, i') → b.token = x.token := by
  intro fuel
  induction fuel with
  | zero => intro i x ls cs b i' h; simp [parseLineBlockLoop] at h
  | succ n ih =>
    intro i x ls cs b i' h
    unfold parseLineBlockLoop at h
    split at h
    · cases h1 : lex i with
      | error e1 => simp [h1, bind, Except.bind] at h
      | ok v => simp only [h1, bind, Except.bind] at h; exact ih _ _ _ _ _ _ h
    · cases h1 : lex i with
      | error e1 => simp [h1, bind, Except.bind] at h
      | ok v => simp only [h1, bind, Except.bind] at h; exact ih _ _ _ _ _ _ h
    · cases h1 : lex i with
      | error e1 => simp [h1, bind, Except.bind] at h
      | ok v => simp only [h1, bind, Except.bind] at h; exact ih _ _ _ _ _ _ h
    · cases h
    · cases h1 : lex i with
      | error e1 => simp [h1, bind, Except.bind] at h
      | ok v =>
        simp only [h1, bind, Except.bind] at h
        split at h
        · cases h
        · cases h2 : lex v.2 with
          | error e2 => simp [h2] at h
          | ok w =>
            simp only [h2, Except.ok.injEq, Prod.mk.injEq] at h
            obtain ⟨rfl, _⟩ := h
            rfl
    · cases h1 : parseLine (n + 1) i with
      | error e1 => simp [h1, bind, Except.bind] at h
      | ok v => simp only [h1, bind, Except.bind] at h; exact ih _ _ _ _ _ _ h

theorem parseStmtLoop_ne : ∀ (fuel : Nat) (i : Input) (s e : Position) (ts : List Bytes) (x : Expr) (i' : Input),
    parseStmtLoop fuel i s e ts = .ok (x, i') → ts ≠ [] → StmtNE x := by
  intro fuel
  induction fuel with
  | zero => intro i s e ts x i' h; simp [parseStmtLoop] at h
  | succ n ih =>
    intro i s e ts x i' h hts
    have hrev : ts.reverse ≠ [] := by simpa using hts
    unfold parseStmtLoop at h
    cases h1 : lex i with
    | error e1 => simp [h1, bind, Except.bind] at h
    | ok v =>
      simp only [h1, bind, Except.bind] at h
      split at h
      · simp only [Except.ok.injEq, Prod.mk.injEq] at h
        obtain ⟨rfl, _⟩ := h
        exact hrev
      · split at h
        · split at h
          · unfold parseLineBlock at h
            split at h
            · cases h
            · rename_i w hw
              simp only [Except.ok.injEq, Prod.mk.injEq] at h
              obtain ⟨rfl, _⟩ := h
              show w.1.token ≠ []
              rw [parseLineBlockLoop_token _ _ _ _ _ w.1 w.2 (by rw [hw])]
              exact hrev
          · split at h
            · cases h2 : lex v.2 with
              | error e2 => simp [h2] at h
              | ok w =>
                simp only [h2] at h
                split at h
                · cases h3 : lex w.2 with
                  | error e3 => simp [h3] at h
                  | ok u =>
                    simp only [h3, Except.ok.injEq, Prod.mk.injEq] at h
                    obtain ⟨rfl, _⟩ := h
                    exact hrev
                · exact ih _ _ _ _ _ _ h (by simp)
            · exact ih _ _ _ _ _ _ h (by simp)
        · exact ih _ _ _ _ _ _ h (by simp)

theorem parseStmt_ne {fuel : Nat} {i : Input} {x : Expr} {i' : Input} (h : parseStmt fuel i = .ok (x, i')) : StmtNE x := by
  unfold parseStmt at h
  cases h1 : lex i with
  | error e1 => simp [h1, bind, Except.bind] at h
  | ok v =>
    simp only [h1, bind, Except.bind] at h
    exact parseStmtLoop_ne _ _ _ _ _ _ _ h (by simp)

theorem parseFileLoop_ne : ∀ (fuel : Nat) (i : Input) (stmtsRev : List Expr) (cb : Option CommentBlock)
    (stmts : List Expr) (i' : Input), parseFileLoop fuel i stmtsRev cb = .ok (stmts, i') →
    (∀ x ∈ stmtsRev, StmtNE x) → ∀ x ∈ stmts, StmtNE x := by
  intro fuel
  induction fuel with
  | zero => intro i sr cb stmts i' h; simp [parseFileLoop] at h
  | succ n ih =>
    intro i sr cb stmts i' h hsr
    have hcons : ∀ y, StmtNE y → ∀ x ∈ y :: sr, StmtNE x := by
      intro y hy x hx
      rcases List.mem_cons.1 hx with rfl | hx
      · exact hy
      · exact hsr x hx
    unfold parseFileLoop at h
    split at h
    · cases h1 : lex i with
      | error e1 => simp [h1, bind, Except.bind] at h
      | ok v =>
        simp only [h1, bind, Except.bind] at h
        split at h
        · exact ih _ _ _ _ _ h (hcons (.commentBlock _) trivial)
        · exact ih _ _ _ _ _ h hsr
    · cases h1 : lex i with
      | error e1 => simp [h1, bind, Except.bind] at h
      | ok v =>
        simp only [h1, bind, Except.bind] at h
        exact ih _ _ _ _ _ h hsr
    · split at h
      · simp only [Except.ok.injEq, Prod.mk.injEq] at h
        obtain ⟨rfl, _⟩ := h
        intro x hx
        exact hcons (.commentBlock _) trivial x (List.mem_reverse.1 hx)
      · simp only [Except.ok.injEq, Prod.mk.injEq] at h
        obtain ⟨rfl, _⟩ := h
        intro x hx
        exact hsr x (List.mem_reverse.1 hx)
    · cases hp : parseStmt (n + 1) i with
      | error e1 => simp [hp, bind, Except.bind] at h
      | ok v =>
        have hf := parseStmt_ne (show parseStmt (n + 1) i = .ok (v.1, v.2) by rw [hp])
        simp only [hp, bind, Except.bind] at h
        split at h
        · exact ih _ _ _ _ _ h (hcons _ (ne_setComments _ _ hf))
        · exact ih _ _ _ _ _ h (hcons _ hf)

theorem parseFile_ne {data : Bytes} {stmts : List Expr} {i' : Input} (h : parseFile data = .ok (stmts, i')) :
    ∀ x ∈ stmts, StmtNE x := by
  unfold parseFile at h
  cases hr : readToken (newInput data) with
  | error e => simp [hr, bind, Except.bind] at h
  | ok i0 =>
    simp only [hr, bind, Except.bind] at h
    exact parseFileLoop_ne _ _ _ _ _ _ h (by intro x hx; cases hx)

theorem preStmt_ne (s : Expr) (line : List Comment) (h : StmtNE s) : StmtNE (preStmt s line).1 := by
  cases s with
  | lineBlock b => unfold preStmt; exact h
  | line x => simpa [preStmt, Expr.setComments, StmtNE] using h
  | commentBlock x => simp [preStmt, Expr.setComments, StmtNE]
  | lparen x => exact h.elim
  | rparen x => exact h.elim

theorem postStmt_ne (s : Expr) (suf : List Comment) (h : StmtNE s) : StmtNE (postStmt s suf).1 := by
  cases s with
  | lineBlock b => unfold postStmt; exact h
  | line x => simpa [postStmt, Expr.setComments, StmtNE] using h
  | commentBlock x => simp [postStmt, Expr.setComments, StmtNE]
  | lparen x => exact h.elim
  | rparen x => exact h.elim

theorem preStmts_ne : ∀ (ss : List Expr) (line : List Comment), (∀ x ∈ ss, StmtNE x) →
    ∀ x ∈ (preStmts ss line).1, StmtNE x := by
  intro ss
  induction ss with
  | nil => intro line _ x hx; simp [preStmts] at hx
  | cons s rest ih =>
    intro line h x hx
    unfold preStmts at hx
    simp only [List.mem_cons] at hx
    rcases hx with rfl | hx
    · exact preStmt_ne _ _ (h s List.mem_cons_self)
    · exact ih _ (fun y hy => h y (List.mem_cons_of_mem _ hy)) x hx

theorem postStmtsRev_ne : ∀ (ss : List Expr) (suf : List Comment), (∀ x ∈ ss, StmtNE x) →
    ∀ x ∈ (postStmtsRev ss suf).1, StmtNE x := by
  intro ss
  induction ss with
  | nil => intro line _ x hx; simp [postStmtsRev] at hx
  | cons s rest ih =>
    intro line h x hx
    unfold postStmtsRev at hx
    simp only [List.mem_cons] at hx
    rcases hx with rfl | hx
    · exact postStmt_ne _ _ (h s List.mem_cons_self)
    · exact ih _ (fun y hy => h y (List.mem_cons_of_mem _ hy)) x hx

theorem assignComments_ne (f : FileSyntax) (cs : List Comment) (h : ∀ x ∈ f.stmts, StmtNE x) :
    ∀ x ∈ (assignComments f cs).stmts, StmtNE x := by
  unfold assignComments
  simp only
  intro x hx
  refine postStmtsRev_ne _ _ ?_ x (List.mem_reverse.1 hx)
  intro y hy
  exact preStmts_ne _ _ h y (List.mem_reverse.1 hy)

/-- **the statements of a parsed tree are comment blocks, lines with a token and line blocks with a token** -/
theorem parse_ne {name data : Bytes} {t : FileSyntax} (h : parse name data = .ok t) : ∀ x ∈ t.stmts, StmtNE x := by
  unfold parse at h
  cases hp : parseFile data with
  | error e => simp [hp, bind, Except.bind] at h
  | ok v =>
    simp only [hp, bind, Except.bind, Except.ok.injEq] at h
    subst h
    exact assignComments_ne _ _ (parseFile_ne (show parseFile data = .ok (v.1, v.2) by rw [hp]))

end ModVerif.Tie.FnRuleAddJ
