/-
  Composition of the FnEdit ties, part C (agent edit-session): a whole operation list.  `Drv.GenEdit.runOps` against the
  model's `Edit.runOps Edit.applyMod`, by induction over the list on `FnEditSessionB.applyOp_out`.

  * `StepOK fuel e op`: what one step needs — fuel, `ScalarsLive`, `InTree` (for SetRequireSeparateIndirect);
  * `RunOK fuel e ops`: `StepOK` in every state the MODEL run passes through (the shape of `Edit.RunValidLive`);
  * `RunRel`: the correspondence of session results (done / panic at an operation / bad operation);
  * `runOps_rel`: the correspondence, from any represented state;
  * `FuelOK` (the fuel part of `RunOK` alone), `runOK_of_valid`: under the model invariant `Edit.P.Inv` and
    `Edit.RunValidLive` the other parts of `RunOK` hold by themselves; `fuelOKB`: a sound Boolean test.
-/
import ModVerif.Proofs.TieFnEditSessionB
set_option linter.unusedSimpArgs false
set_option linter.unusedVariables false
namespace ModVerif.Tie.FnEditSessionC
open ModVerif ModVerif.GoRt ModVerif.Generated.Edit ModVerif.Tie.FnEditRep ModVerif.Tie.FnEditSessionA ModVerif.Tie.FnEditSessionB
open ModVerif.Modfile.Edit (EFile EditErr Want applyMod SessionResult)
open ModVerif.Drv.GenEdit (applyOp opNameD Run)
open ModVerif.Tie.FnEditSetQ (InTree)

/-- what one step of the driver needs in the model state `e` -/
structure StepOK (fuel : Nat) (e : EFile) (op : EditSpec.Op) : Prop where
  fuel : stepFuel e op ≤ fuel
  scalars : ScalarsLive e
  inTree : ∀ w, op = .setRequireSeparateIndirect w → InTree e

/-- `StepOK` in every state of the model run -/
def RunOK (fuel : Nat) : EFile → List EditSpec.Op → Prop
  | _, [] => True
  | e, op :: ops =>
    StepOK fuel e op ∧
      (∀ e', applyMod e (opM op) = some (.ok e') → RunOK fuel e' ops) ∧
      (∀ err, applyMod e (opM op) = some (.error err) → err.isReturned = true → RunOK fuel e ops)

/-- correspondence of session results; `i` is the index of the first operation of `ops` in the whole session -/
def RunRel (fp : Int) (ops : List EditSpec.Op) (i : Nat) : SessionResult EFile → Run → Prop
  | .done e' res, r => ∃ h', r = .done h' res ∧ RepF h' fp e'
  | .panic j, r => ∃ op, i ≤ j ∧ ops[j - i]? = some op ∧ r = .panic (opNameD op)
  | .badOp, r => r = .badOp

theorem RunRel.shift {fp : Int} {op : EditSpec.Op} {ops : List EditSpec.Op} {i : Nat} {x : SessionResult EFile} {r : Run}
    (h : RunRel fp ops (i + 1) x r) : RunRel fp (op :: ops) i x r := by
  cases x with
  | done e' res => exact h
  | badOp => exact h
  | panic j =>
    obtain ⟨o, h1, h2, h3⟩ := h
    refine ⟨o, by omega, ?_, h3⟩
    have : j - i = (j - (i + 1)) + 1 := by omega
    rw [this, List.getElem?_cons_succ]
    exact h2

/-- **`Drv.GenEdit.runOps` against the model's `Edit.runOps Edit.applyMod`**: same per-operation results, the final heap
    represents the final model state; a model panic at operation `j` is the driver's panic at that operation; from any
    represented state whose model run satisfies `RunOK` -/
theorem runOps_rel (fuel : Nat) (fp : Int) : ∀ (ops : List EditSpec.Op) (h : Heap) (e : EFile) (acc : List Bool) (i : Nat),
    RepF h fp e → RunOK fuel e ops →
    RunRel fp ops i (Modfile.Edit.runOps applyMod e (ops.map opM) acc i) (Drv.GenEdit.runOps fuel fp h ops acc)
  | [], h, e, acc, i, R, _ => ⟨h, rfl, R⟩
  | op :: ops, h, e, acc, i, R, hok => by
    obtain ⟨hstep, hnext, hret⟩ := hok
    have O := applyOp_out R op hstep.scalars hstep.inTree fuel hstep.fuel
    simp only [List.map_cons, Modfile.Edit.runOps, Drv.GenEdit.runOps]
    cases hx : applyMod e (opM op) with
    | none =>
      rw [hx] at O
      simp only [Out] at O
      simp only [O]
      exact rfl
    | some x =>
      cases x with
      | ok e' =>
        rw [hx] at O
        obtain ⟨h', h1, R'⟩ := O
        simp only [h1]
        exact (runOps_rel fuel fp ops h' e' (true :: acc) (i + 1) R' (hnext e' hx)).shift
      | error err =>
        rw [hx] at O
        rcases O with ⟨hr, h1⟩ | ⟨hr, h1⟩
        · simp only [h1, hr, if_true]
          exact (runOps_rel fuel fp ops h e (false :: acc) (i + 1) R (hret err hx hr)).shift
        · simp only [h1, hr, Bool.false_eq_true, if_false]
          exact ⟨op, Nat.le_refl _, by simp, rfl⟩

/-! ### the fuel part alone -/

/-- the fuel dominates the demand of every step of the model run -/
def FuelOK (fuel : Nat) : EFile → List EditSpec.Op → Prop
  | _, [] => True
  | e, op :: ops =>
    stepFuel e op ≤ fuel ∧
      (∀ e', applyMod e (opM op) = some (.ok e') → FuelOK fuel e' ops) ∧
      (∀ err, applyMod e (opM op) = some (.error err) → err.isReturned = true → FuelOK fuel e ops)

/-- under the model invariant and the validity of the arguments, fuel is all that is left to ask for -/
theorem runOK_of_valid (fuel : Nat) : ∀ (ops : List EditSpec.Op) (e : EFile), Modfile.Edit.P.Inv e →
    Modfile.Edit.RunValidLive e (ops.map opM) → FuelOK fuel e ops → RunOK fuel e ops
  | [], _, _, _, _ => trivial
  | op :: ops, e, hi, hv, hf => by
    obtain ⟨hargs, hvn, hvr⟩ := hv
    obtain ⟨hf1, hfn, hfr⟩ := hf
    refine ⟨⟨hf1, scalarsLive_of_Inv hi, ?_⟩, ?_, ?_⟩
    · intro w hw
      subst hw
      exact inTree_of_Inv_live hi hargs.2
    · intro e' hx
      exact runOK_of_valid fuel ops e' (Modfile.Edit.P.applyMod_inv_all e e' _ hargs hi hx) (hvn e' hx) (hfn e' hx)
    · intro err hx hr
      exact runOK_of_valid fuel ops e hi (hvr err hx hr) (hfr err hx hr)

/-- a Boolean test of `FuelOK` (it follows the model run) -/
def fuelOKB (fuel : Nat) : EFile → List EditSpec.Op → Bool
  | _, [] => true
  | e, op :: ops =>
    decide (stepFuel e op ≤ fuel) &&
      (match applyMod e (opM op) with
       | some (.ok e') => fuelOKB fuel e' ops
       | some (.error err) => if err.isReturned then fuelOKB fuel e ops else true
       | none => true)

theorem fuelOKB_sound (fuel : Nat) : ∀ (ops : List EditSpec.Op) (e : EFile), fuelOKB fuel e ops = true → FuelOK fuel e ops
  | [], _, _ => trivial
  | op :: ops, e, h => by
    simp only [fuelOKB, Bool.and_eq_true, decide_eq_true_eq] at h
    refine ⟨h.1, ?_, ?_⟩
    · intro e' hx
      have h2 := h.2
      rw [hx] at h2
      exact fuelOKB_sound fuel ops e' h2
    · intro err hx hr
      have h2 := h.2
      rw [hx] at h2
      simp only [hr, if_true] at h2
      exact fuelOKB_sound fuel ops e h2

/-- a valid session from a state satisfying the invariant: the driver's run completes (no `.panic`, no `.badOp`), with the
    model's results, in a heap that represents the model's final state, which satisfies the invariant again -/
theorem runOps_valid (fuel : Nat) (fp : Int) (ops : List EditSpec.Op) (h : Heap) (e : EFile) (R : RepF h fp e)
    (hi : Modfile.Edit.P.Inv e) (hv : Modfile.Edit.RunValidLive e (ops.map opM))
    (hm : ∀ op ∈ ops.map opM, Modfile.Edit.IsModOp op) (hf : FuelOK fuel e ops) :
    ∃ e' res h', Modfile.Edit.runOps applyMod e (ops.map opM) [] 0 = .done e' res ∧
      Drv.GenEdit.runOps fuel fp h ops [] = .done h' res ∧ RepF h' fp e' ∧ Modfile.Edit.P.Inv e' := by
  obtain ⟨e', res, hrun, hi'⟩ := Modfile.Edit.P.runOps_total_live (ops.map opM) e [] 0 hv hm hi
  have hrel := runOps_rel fuel fp ops h e [] 0 R (runOK_of_valid fuel ops e hi hv hf)
  rw [hrun] at hrel
  obtain ⟨h', h1, R'⟩ := hrel
  exact ⟨e', res, h', hrun, h1, R', hi'⟩

end ModVerif.Tie.FnEditSessionC
