/-
  C02 stage 3, part j: the trees the parser emits are well-shaped (`WFStmts`), for every input —
  line level, statement level (top-level lines, block headers, the empty block).
-/
import ModVerif.Proofs.ModfileFmtClass
import ModVerif.Proofs.ModfileFmtParse3
namespace ModVerif.Proofs.ModfileFmtEmits
open ModVerif ModVerif.Modfile ModVerif.Proofs.ModfileLex
open ModVerif.Proofs.ModfileFmtLex ModVerif.Proofs.ModfileFmtLine ModVerif.Proofs.ModfileFmtStream
open ModVerif.Proofs.ModfileFmtTree ModVerif.Proofs.ModfileFmtClass ModVerif.Proofs.ModfileFmtParse

/-! ### the states the parser sees -/

/-- an end-of-line or end-of-input kind, or a whole-line comment -/
def EolKind (k : TokKind) : Prop := k = .punct 10 ∨ k = .eolComment ∨ k = .comment ∨ k = .eof

structure G (i : Input) : Prop where
  lok : LexOK i.token.kind i.token.text
  inv : Inv i
  used : ∀ t, TokOK i.token.kind t → Used i
  eol : EolKind i.token.kind → AtEOL i
  sfx : ∀ c ∈ i.commentsRev, c.suffix = true

theorem G.setId {i : Input} (h : G i) (n : Nat) : G { i with nextId := n } :=
  ⟨h.lok, h.inv.setId n, fun t ht => (h.used t ht).setId n, fun hk => (h.eol hk).setId n, h.sfx⟩

theorem G.step {j i : Input} (hj : G j) (h : readToken j = .ok i) :
    G i ∧ ((∃ t, TokOK j.token.kind t) → i.token.kind ≠ .comment) ∧ (EolKind j.token.kind → i.token.kind ≠ .eolComment) := by
  obtain ⟨h1, h2, h3⟩ := readToken_class j i h hj.inv
  obtain ⟨h4, h5⟩ := readToken_eol j i h
  exact ⟨⟨lex_emits_LexOK j i h, h1, h3, h4, readToken_comments j i h hj.sfx⟩, fun ⟨t, ht⟩ => h2 (hj.used t ht),
    fun hk => h5 (hj.eol hk)⟩

theorem G.init {data : Bytes} {i : Input} (h : readToken (newInput data) = .ok i) : G i ∧ i.token.kind ≠ .eolComment := by
  obtain ⟨h1, h2, h3⟩ := readToken_class _ i h (inv_newInput data)
  obtain ⟨h4, h5⟩ := readToken_eol _ i h
  refine ⟨⟨lex_emits_LexOK _ i h, h1, h3, h4, readToken_comments _ i h (by intro c hc; simp [newInput] at hc)⟩,
    h5 (Or.inl ?_)⟩
  exact ⟨[], ⟨rfl, by simp, fun h => absurd rfl h⟩⟩

theorem lex_inv {j i : Input} {tok : Token} (h : Modfile.lex j = .ok (tok, i)) : tok = j.token ∧ readToken j = .ok i := by
  unfold Modfile.lex at h
  cases hr : readToken j with
  | error e => simp [hr, bind, Except.bind] at h
  | ok i2 =>
    simp only [hr, bind, Except.bind, Except.ok.injEq, Prod.mk.injEq] at h
    exact ⟨h.1.symm, by rw [h.2]⟩

theorem lexOK_tok {k : TokKind} {t : Bytes} (h : LexOK k t) (he : k.isEOL = false) (hc : k ≠ .comment) : TokOK k t := by
  cases h with
  | eof => cases he
  | newline => cases he
  | comment t h => exact absurd rfl hc
  | eolComment t h => cases he
  | tok k t h => exact h

theorem isEOL_eolKind {k : TokKind} (h : k.isEOL = true) : EolKind k := by
  cases k with
  | eof => exact Or.inr (Or.inr (Or.inr rfl))
  | eolComment => exact Or.inr (Or.inl rfl)
  | punct c =>
    simp only [TokKind.isEOL, beq_iff_eq] at h
    subst h
    exact Or.inl rfl
  | _ => cases h

/-- the state at the beginning of a statement or block item: no end-of-line comment is pending -/
def Top (i : Input) : Prop := G i ∧ i.token.kind ≠ .eolComment

/-- the state in the middle of a line: no whole-line comment is pending -/
def Mid (i : Input) : Prop := G i ∧ i.token.kind ≠ .comment

/-- `lex` at a line token -/
theorem G.lex_tok {j i : Input} {tok : Token} (hj : G j) (h : Modfile.lex j = .ok (tok, i))
    (hk : TokOK j.token.kind j.token.text) : tok = j.token ∧ Mid i := by
  obtain ⟨h1, h2⟩ := lex_inv h
  obtain ⟨hg, hc, _⟩ := hj.step h2
  exact ⟨h1, hg, hc ⟨_, hk⟩⟩

/-- `lex` at an end-of-line token -/
theorem G.lex_eol {j i : Input} {tok : Token} (hj : G j) (h : Modfile.lex j = .ok (tok, i))
    (hk : EolKind j.token.kind) : tok = j.token ∧ Top i := by
  obtain ⟨h1, h2⟩ := lex_inv h
  obtain ⟨hg, _, he⟩ := hj.step h2
  exact ⟨h1, hg, he hk⟩

theorem Top.setId {i : Input} (h : Top i) (n : Nat) : Top { i with nextId := n } := ⟨h.1.setId n, h.2⟩

/-! ### token lines -/

theorem parseLineLoop_emits : ∀ (fuel : Nat) (i : Input) (s e : Position) (acc : List Bytes) (l : Line) (i' : Input),
    Mid i → parseLineLoop fuel i s e acc = .ok (l, i') →
    ∃ ts, l.token = acc.reverse ++ ts ∧ (∀ t ∈ ts, TokText t) ∧ l.comments = {} ∧ l.inBlock = true ∧ Top i' := by
  intro fuel
  induction fuel with
  | zero => intro i s e acc l i' _ h; simp [parseLineLoop] at h
  | succ n ih =>
    intro i s e acc l i' hm h
    unfold parseLineLoop at h
    cases hl : lex i with
    | error err => simp [hl, bind, Except.bind] at h
    | ok v =>
      obtain ⟨tok, i1⟩ := v
      simp only [hl, bind, Except.bind] at h
      by_cases he : tok.kind.isEOL = true
      · simp only [he, if_true, Except.ok.injEq, Prod.mk.injEq] at h
        obtain ⟨rfl, rfl⟩ := h
        obtain ⟨htok, _⟩ := lex_inv hl
        obtain ⟨_, htop⟩ := hm.1.lex_eol hl (isEOL_eolKind (by rw [← htok]; exact he))
        exact ⟨[], by simp, by simp, rfl, rfl, htop.setId _⟩
      · have he' : tok.kind.isEOL = false := by simpa using he
        simp only [he', Bool.false_eq_true, if_false] at h
        obtain ⟨htok, _⟩ := lex_inv hl
        have hk : TokOK i.token.kind i.token.text :=
          lexOK_tok hm.1.lok (by rw [← htok]; exact he') hm.2
        obtain ⟨_, hmid⟩ := hm.1.lex_tok hl hk
        obtain ⟨ts, h1, h2, h3, h4, h5⟩ := ih i1 s tok.endPos (tok.text :: acc) l i' hmid h
        refine ⟨tok.text :: ts, by rw [h1]; simp, ?_, h3, h4, h5⟩
        intro t ht
        rcases List.mem_cons.1 ht with rfl | ht
        · rw [htok]; exact tokOK_tokText hk
        · exact h2 t ht

theorem parseLine_emits (fuel : Nat) (i : Input) (l : Line) (i' : Input) (hg : G i)
    (hk : TokOK i.token.kind i.token.text) (h : parseLine fuel i = .ok (l, i')) :
    ∃ ts, l.token = i.token.text :: ts ∧ (∀ t ∈ l.token, TokText t) ∧ l.comments = {} ∧ l.inBlock = true ∧ Top i' := by
  unfold parseLine at h
  cases hl : lex i with
  | error err => simp [hl, bind, Except.bind] at h
  | ok v =>
    obtain ⟨tok, i1⟩ := v
    simp only [hl, bind, Except.bind] at h
    obtain ⟨htok, hmid⟩ := hg.lex_tok hl hk
    have he : tok.kind.isEOL = false := by rw [htok]; exact tokOK_not_eol hk
    simp only [he, Bool.false_eq_true, if_false] at h
    obtain ⟨ts, h1, h2, h3, h4, h5⟩ := parseLineLoop_emits fuel i1 tok.pos tok.endPos [tok.text] l i' hmid h
    refine ⟨ts, by rw [h1, htok]; simp, ?_, h3, h4, h5⟩
    intro t ht
    rw [h1] at ht
    simp only [List.reverse_cons, List.reverse_nil, List.nil_append, List.singleton_append, List.mem_cons] at ht
    rcases ht with rfl | ht
    · rw [htok]; exact tokOK_tokText hk
    · exact h2 t ht

/-! ### accumulating comments and lines of a block -/

/-- may a blank-line placeholder follow the comment list `cs` (which itself started with `a`)? -/
def nextAllow (a : Bool) (cs : List Comment) : Bool :=
  match cs.getLast? with
  | none => a
  | some c => !c.token.isEmpty

theorem nextAllow_cons (a : Bool) (c0 : Comment) (cs : List Comment) :
    nextAllow a (c0 :: cs) = nextAllow (!c0.token.isEmpty) cs := by
  cases cs with
  | nil => simp [nextAllow]
  | cons c1 cs =>
    simp only [nextAllow, List.getLast?_cons_cons]
    cases h : (c1 :: cs).getLast? with
    | none => simp at h
    | some c => rfl

theorem blkBeforeOK_snoc : ∀ (cs : List Comment) (a : Bool) (c : Comment), BlkBeforeOK a cs →
    (if c.token.isEmpty then nextAllow a cs = true ∧ c.suffix = false else c.suffix = false ∧ CommentOK c.token) →
    BlkBeforeOK a (cs ++ [c]) := by
  intro cs
  induction cs with
  | nil =>
    intro a c _ hc
    simp only [List.nil_append]
    unfold BlkBeforeOK
    split
    · rename_i he
      simp only [he, if_true, nextAllow, List.getLast?_nil] at hc
      exact ⟨hc.1, hc.2, trivial⟩
    · rename_i he
      simp only [he, Bool.false_eq_true, if_false] at hc
      exact ⟨hc.1, hc.2, trivial⟩
  | cons c0 cs ih =>
    intro a c h hc
    rw [nextAllow_cons] at hc
    simp only [List.cons_append]
    unfold BlkBeforeOK at h ⊢
    split
    · rename_i he
      simp only [he, if_true] at h
      have : (!c0.token.isEmpty) = false := by simp [he]
      rw [this] at hc
      exact ⟨h.1, h.2.1, ih false c h.2.2 hc⟩
    · rename_i he
      simp only [he, Bool.false_eq_true, if_false] at h
      have : (!c0.token.isEmpty) = true := by simpa using he
      rw [this] at hc
      exact ⟨h.1, h.2.1, ih true c h.2.2 hc⟩

theorem allowOf_eq (linesRev : List Line) (crev : List Comment) :
    allowOf linesRev crev = nextAllow (!linesRev.isEmpty) crev.reverse := by
  cases crev with
  | nil => simp [allowOf, nextAllow]
  | cons c r => simp [allowOf, nextAllow]

theorem wfBlkLines_snoc : ∀ (ls : List Line) (a : Bool) (l : Line), WFBlkLines a ls →
    WFBlkLine (if ls.isEmpty then a else true) l → WFBlkLines a (ls ++ [l]) := by
  intro ls
  induction ls with
  | nil => intro a l _ hl; exact ⟨by simpa using hl, trivial⟩
  | cons l0 ls ih =>
    intro a l h hl
    refine ⟨h.1, ih true l h.2 ?_⟩
    simp only [List.isEmpty_cons, Bool.false_eq_true, if_false] at hl
    cases ls <;> simpa using hl

/-- the accumulators of the block loop are well-shaped so far -/
def AccOK (linesRev : List Line) (crev : List Comment) : Prop :=
  WFBlkLines false linesRev.reverse ∧ BlkBeforeOK (!linesRev.isEmpty) crev.reverse

theorem lexOK_comment {t : Bytes} (h : LexOK .comment t) : CommentOK t := by
  cases h with
  | comment t h => exact h
  | tok k t h => cases h

theorem commentOK_ne {t : Bytes} (h : CommentOK t) : t.isEmpty = false := by
  cases t with
  | nil => simp [CommentOK, isPrefixOfB] at h
  | cons _ _ => rfl

/-- the lexer state when the block loop takes its default branch: a line token other than `)` -/
theorem blk_default_tok {i : Input} (hg : G i) (h1 : i.token.kind ≠ .eolComment) (h2 : i.token.kind ≠ .punct 10)
    (h3 : i.token.kind ≠ .comment) (h4 : i.token.kind ≠ .eof) (h5 : i.token.kind ≠ .punct 41) :
    TokOK i.token.kind i.token.text ∧ i.token.text ≠ [41] := by
  have hk : TokOK i.token.kind i.token.text := by
    have := hg.lok
    generalize i.token.kind = k at this h1 h2 h3 h4 h5
    generalize i.token.text = t at this
    cases this with
    | eof => exact absurd rfl h4
    | newline => exact absurd rfl h2
    | comment t h => exact absurd rfl h3
    | eolComment t h => exact absurd rfl h1
    | tok k t h => exact h
  exact ⟨hk, fun ht => h5 ((tokOK_punct_iff hk 41 (by decide)).2 ht)⟩

theorem parseLineBlockLoop_emits : ∀ (fuel : Nat) (i : Input) (x : LineBlock) (linesRev : List Line)
    (crev : List Comment) (b : LineBlock) (i' : Input), G i → AccOK linesRev crev →
    parseLineBlockLoop fuel i x linesRev crev = .ok (b, i') →
    Top i' ∧ b.token = x.token ∧ b.comments = x.comments ∧ b.lparen = x.lparen ∧ WFBlkLines false b.lines ∧
      BlkBeforeOK (!b.lines.isEmpty) b.rparen.comments.before ∧ b.rparen.comments.suffix = [] ∧
      b.rparen.comments.after = [] := by
  intro fuel
  induction fuel with
  | zero => intro i x linesRev crev b i' _ _ h; simp [parseLineBlockLoop] at h
  | succ n ih =>
    intro i x linesRev crev b i' hg hacc h
    by_cases hk10 : i.token.kind = .punct 10
    · -- blank line
      cases hl : lex i with
      | error err =>
        unfold parseLineBlockLoop at h
        simp [Input.peek, hk10, hl, bind, Except.bind] at h
      | ok v =>
        obtain ⟨tok, i1⟩ := v
        obtain ⟨htok, htop⟩ := hg.lex_eol hl (Or.inl hk10)
        subst htok
        rw [blk_step_blank i i1 x linesRev crev n hk10 hl] at h
        refine ih i1 x linesRev _ b i' htop.1 ?_ h
        by_cases ha : allowOf linesRev crev = true
        · simp only [ha, if_true]
          refine ⟨hacc.1, ?_⟩
          simp only [List.reverse_cons]
          apply blkBeforeOK_snoc _ _ _ hacc.2
          have : (({} : Comment)).token.isEmpty = true := rfl
          simp only [this, if_true]
          exact ⟨by rw [← allowOf_eq]; exact ha, trivial⟩
        · simp only [ha, Bool.false_eq_true, if_false]
          exact hacc
    by_cases hkc : i.token.kind = .comment
    · -- whole-line comment
      cases hl : lex i with
      | error err =>
        unfold parseLineBlockLoop at h
        simp [Input.peek, hkc, hl, bind, Except.bind] at h
      | ok v =>
        obtain ⟨tok, i1⟩ := v
        obtain ⟨htok, htop⟩ := hg.lex_eol hl (Or.inr (Or.inr (Or.inl hkc)))
        subst htok
        rw [blk_step_comment i i1 x linesRev crev n hkc hl] at h
        have hok : CommentOK i.token.text := by
          have := hg.lok
          rw [hkc] at this
          exact lexOK_comment this
        refine ih i1 x linesRev _ b i' htop.1 ?_ h
        refine ⟨hacc.1, ?_⟩
        simp only [List.reverse_cons]
        apply blkBeforeOK_snoc _ _ _ hacc.2
        simp only [commentOK_ne hok, Bool.false_eq_true, if_false]
        exact ⟨trivial, hok⟩
    unfold parseLineBlockLoop at h
    simp only [Input.peek] at h
    split at h
    · -- end-of-line comment: skipped
      rename_i hk
      cases hl : lex i with
      | error err => simp [hl, bind, Except.bind] at h
      | ok v =>
        obtain ⟨tok, i1⟩ := v
        simp only [hl, bind, Except.bind] at h
        obtain ⟨_, htop⟩ := hg.lex_eol hl (Or.inr (Or.inl hk))
        exact ih i1 x linesRev crev b i' htop.1 hacc h
    · rename_i hk; exact absurd hk hk10
    · rename_i hk; exact absurd hk hkc
    · cases h
    · -- closing parenthesis
      rename_i hk
      cases hl : lex i with
      | error err => simp [hl, bind, Except.bind] at h
      | ok v =>
        obtain ⟨rparen, i1⟩ := v
        simp only [hl, bind, Except.bind] at h
        have hk' : TokOK i.token.kind i.token.text := by
          have := hg.lok
          rw [hk] at this ⊢
          cases this with
          | tok k t h => exact h
        obtain ⟨_, hmid⟩ := hg.lex_tok hl hk'
        by_cases he : i1.token.kind.isEOL = true
        · simp only [he, Bool.not_true, Bool.false_eq_true, if_false] at h
          cases hl2 : lex i1 with
          | error err => simp [hl2] at h
          | ok v2 =>
            obtain ⟨tok2, i2⟩ := v2
            simp only [hl2, Except.ok.injEq, Prod.mk.injEq] at h
            obtain ⟨rfl, rfl⟩ := h
            obtain ⟨_, htop⟩ := hmid.1.lex_eol hl2 (isEOL_eolKind he)
            refine ⟨htop, rfl, rfl, rfl, hacc.1, ?_, rfl, rfl⟩
            simpa using hacc.2
        · simp [he] at h
    · -- a line
      rename_i h1 h2 h3 h4 h5
      obtain ⟨hk, hne41⟩ := blk_default_tok hg h1 h2 h3 h4 h5
      cases hp : parseLine (n + 1) i with
      | error err => simp [hp, bind, Except.bind] at h
      | ok v =>
        obtain ⟨l0, i1⟩ := v
        simp only [hp, bind, Except.bind] at h
        obtain ⟨ts, hl0t, hl0tok, hl0c, hl0b, htop⟩ := parseLine_emits (n + 1) i l0 i1 hg hk hp
        refine ih i1 x _ [] b i' htop.1 ?_ h
        refine ⟨?_, trivial⟩
        simp only [List.reverse_cons]
        apply wfBlkLines_snoc _ _ _ hacc.1
        have hallow : (if linesRev.reverse.isEmpty then false else true) = !linesRev.isEmpty := by
          cases linesRev <;> simp
        rw [hallow]
        exact ⟨by simp [hl0t], hl0tok, by simp [hl0t, hne41], by simpa using hacc.2, by simp [hl0c], by simp [hl0c], hl0b⟩

end ModVerif.Proofs.ModfileFmtEmits
