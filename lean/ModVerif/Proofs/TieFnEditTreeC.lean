/-
  Helper lemmas for Tie/FnEditTree.lean, part C: the two facts about `strings.Fields` that `Require.setIndirect(false)`
  rests on, for EVERY byte string (ill-formed UTF-8 included), on the `GoStrings` model:
  (a) `trimSpace_of_fields_single`: `fields z = [w] → trimSpace z = w` — through the converse of the backward-decoder
      lemmas of Proofs/ModfileFmtTrimBase.lean (`decodeLast_of_decode`: `DecodeLastRune` finds a well-formed sequence that
      ends the string), `fields_cons_decomp` (the first field, after leading white space) and the `trimSpace` algebra;
  (b) `index_of_field`: a field of `x` occurs in every string that ends with `x`.
  With them `indirect_index`: a comment that `isIndirect` accepts and that is not `// indirect` after trimming contains
  `indirect;` — so Go's `tok[strings.Index(tok, "indirect;")+9:]` is the model's, and `Require_setIndirect_full` has no
  side condition.
-/
import ModVerif.Proofs.EditMarkerFields
import ModVerif.Proofs.TieFnEditTreeA
set_option linter.unusedSimpArgs false
namespace ModVerif.Tie.FnEditTreeC
open ModVerif ModVerif.Modfile ModVerif.GoStrings ModVerif.Modfile.Edit
open ModVerif.Proofs.ModfileLex ModVerif.Proofs.ModfileFmtUtf8 ModVerif.Proofs.ModfileFmtTrim ModVerif.Proofs.ModfileEol

theorem runeStart_iff (b : UInt8) : runeStart b = true ↔ ¬ (0x80 ≤ b.toNat ∧ b.toNat ≤ 0xBF) := by
  unfold runeStart
  have := b.toNat_lt
  simp only [bne_iff_ne, ne_eq]
  omega

theorem isCont_iff (b : UInt8) : Utf8.isCont b = true ↔ (0x80 ≤ b.toNat ∧ b.toNat ≤ 0xBF) := by
  simp [Utf8.isCont]

theorem decode2 {b0 b1 : UInt8} {r : Nat} (hd : Utf8.decode [b0, b1] = some (r, 2)) :
    0xC2 ≤ b0.toNat ∧ b0.toNat < 0xE0 ∧ Utf8.isCont b1 = true := by
  have h1 : ¬ b0.toNat < 0x80 := fun h => by simp [Utf8.decode, h] at hd
  have h2 : ¬ b0.toNat < 0xC2 := fun h => by simp [Utf8.decode, h1, h] at hd
  by_cases h3 : b0.toNat < 0xE0
  · simp [Utf8.decode, h1, h2, h3] at hd
    exact ⟨by omega, h3, hd.1⟩
  · by_cases h4 : b0.toNat < 0xF0
    · simp [Utf8.decode, h1, h2, h3, h4] at hd
    · by_cases h5 : b0.toNat < 0xF5 <;> simp [Utf8.decode, h1, h2, h3, h4, h5] at hd

theorem decode3 {b0 b1 b2 : UInt8} {r : Nat} (hd : Utf8.decode [b0, b1, b2] = some (r, 3)) :
    0xE0 ≤ b0.toNat ∧ Utf8.isCont b1 = true ∧ Utf8.isCont b2 = true := by
  have h1 : ¬ b0.toNat < 0x80 := fun h => by simp [Utf8.decode, h] at hd
  have h2 : ¬ b0.toNat < 0xC2 := fun h => by simp [Utf8.decode, h1, h] at hd
  have h3 : ¬ b0.toNat < 0xE0 := fun h => by simp [Utf8.decode, h1, h2, h] at hd
  by_cases h4 : b0.toNat < 0xF0
  · simp [Utf8.decode, h1, h2, h3, h4] at hd
    refine ⟨by omega, ?_, hd.1.2⟩
    have := hd.1.1
    rw [isCont_iff]
    split at this
    · simp [Utf8.inRange] at this; omega
    · split at this <;> (simp [Utf8.inRange] at this; omega)
  · by_cases h5 : b0.toNat < 0xF5 <;> simp [Utf8.decode, h1, h2, h3, h4, h5] at hd

theorem decode4 {b0 b1 b2 b3 : UInt8} {r : Nat} (hd : Utf8.decode [b0, b1, b2, b3] = some (r, 4)) :
    0xF0 ≤ b0.toNat ∧ Utf8.isCont b1 = true ∧ Utf8.isCont b2 = true ∧ Utf8.isCont b3 = true := by
  have h1 : ¬ b0.toNat < 0x80 := fun h => by simp [Utf8.decode, h] at hd
  have h2 : ¬ b0.toNat < 0xC2 := fun h => by simp [Utf8.decode, h1, h] at hd
  have h3 : ¬ b0.toNat < 0xE0 := fun h => by simp [Utf8.decode, h1, h2, h] at hd
  have h4 : ¬ b0.toNat < 0xF0 := fun h => by simp [Utf8.decode, h1, h2, h3, h] at hd
  by_cases h5 : b0.toNat < 0xF5
  · simp [Utf8.decode, h1, h2, h3, h4, h5] at hd
    refine ⟨by omega, ?_, hd.1.1.2, hd.1.2⟩
    have := hd.1.1.1
    rw [isCont_iff]
    split at this
    · simp [Utf8.inRange] at this; omega
    · split at this <;> (simp [Utf8.inRange] at this; omega)
  · simp [Utf8.decode, h1, h2, h3, h4, h5] at hd

theorem decode_le4 {s : Bytes} {r w : Nat} (hd : Utf8.decode s = some (r, w)) : w ≤ 4 := by
  cases s with
  | nil => simp [Utf8.decode] at hd
  | cons b0 rest =>
    by_cases h1 : b0.toNat < 0x80
    · simp [Utf8.decode, h1] at hd; omega
    by_cases h2 : b0.toNat < 0xC2
    · simp [Utf8.decode, h1, h2] at hd
    by_cases h3 : b0.toNat < 0xE0
    · rcases rest with _ | ⟨b1, t⟩ <;> simp [Utf8.decode, h1, h2, h3] at hd
      omega
    by_cases h4 : b0.toNat < 0xF0
    · rcases rest with _ | ⟨b1, _ | ⟨b2, t⟩⟩ <;> simp [Utf8.decode, h1, h2, h3, h4] at hd
      omega
    by_cases h5 : b0.toNat < 0xF5
    · rcases rest with _ | ⟨b1, _ | ⟨b2, _ | ⟨b3, t⟩⟩⟩ <;> simp [Utf8.decode, h1, h2, h3, h4, h5] at hd
      omega
    · simp [Utf8.decode, h1, h2, h3, h4, h5] at hd

/-- the backward decoder finds a well-formed sequence that ends the string -/
theorem decodeLast_of_decode {seg : Bytes} {r : Nat} (hd : Utf8.decode seg = some (r, seg.length)) (rest : Bytes) :
    decodeLastRuneRev (seg.reverse ++ rest) = (r, seg.length) := by
  rcases seg with _ | ⟨b0, _ | ⟨b1, _ | ⟨b2, _ | ⟨b3, _ | ⟨b4, t⟩⟩⟩⟩⟩
  · simp [Utf8.decode] at hd
  · by_cases h0 : b0.toNat < 0x80
    · simp [Utf8.decode, h0] at hd
      subst hd
      simp [decodeLastRuneRev, h0]
    · by_cases h2 : b0.toNat < 0xC2
      · simp [Utf8.decode, h0, h2] at hd
      · by_cases h3 : b0.toNat < 0xE0
        · simp [Utf8.decode, h0, h2, h3] at hd
        · by_cases h4 : b0.toNat < 0xF0
          · simp [Utf8.decode, h0, h2, h3, h4] at hd
          · by_cases h5 : b0.toNat < 0xF5 <;> simp [Utf8.decode, h0, h2, h3, h4, h5] at hd
  · obtain ⟨h1, h2, h3⟩ := decode2 hd
    have hc := (isCont_iff b1).1 h3
    have hn : ¬ b1.toNat < 128 := by omega
    have hs : runeStart b0 = true := (runeStart_iff b0).2 (by omega)
    have hdr : Utf8.decodeRune [b0, b1] = (r, 2) := by unfold Utf8.decodeRune; rw [hd]; rfl
    rcases rest with _ | ⟨x, _ | ⟨y, t⟩⟩ <;> simp [decodeLastRuneRev, hn, hs, hdr]
  · obtain ⟨h1, h2, h3⟩ := decode3 hd
    have hc1 := (isCont_iff b1).1 h2
    have hc2 := (isCont_iff b2).1 h3
    have hn : ¬ b2.toNat < 128 := by omega
    have hs1 : runeStart b1 = false := by
      cases h : runeStart b1 with
      | false => rfl
      | true => exact absurd hc1 ((runeStart_iff b1).1 h)
    have hs : runeStart b0 = true := (runeStart_iff b0).2 (by omega)
    have hdr : Utf8.decodeRune [b0, b1, b2] = (r, 3) := by unfold Utf8.decodeRune; rw [hd]; rfl
    rcases rest with _ | ⟨x, t⟩ <;> simp [decodeLastRuneRev, hn, hs, hs1, hdr]
  · obtain ⟨h1, h2, h3, h4⟩ := decode4 hd
    have hc1 := (isCont_iff b1).1 h2
    have hc2 := (isCont_iff b2).1 h3
    have hc3 := (isCont_iff b3).1 h4
    have hn : ¬ b3.toNat < 128 := by omega
    have hs1 : runeStart b1 = false := by
      cases h : runeStart b1 with
      | false => rfl
      | true => exact absurd hc1 ((runeStart_iff b1).1 h)
    have hs2 : runeStart b2 = false := by
      cases h : runeStart b2 with
      | false => rfl
      | true => exact absurd hc2 ((runeStart_iff b2).1 h)
    have hs : runeStart b0 = true := (runeStart_iff b0).2 (by omega)
    have hdr : Utf8.decodeRune [b0, b1, b2, b3] = (r, 4) := by unfold Utf8.decodeRune; rw [hd]; rfl
    simp [decodeLastRuneRev, hn, hs, hs1, hs2, hdr]
  · have := decode_le4 hd
    simp at this

/-! ### a trailing run of white-space encodings is seen by the backward decoder -/

theorem spaceSeq_last_seg {d : Bytes} (h : SpaceSeq d) (hne : d ≠ []) :
    ∃ d' seg r, d = d' ++ seg ∧ Utf8.decode seg = some (r, seg.length) ∧ UnicodePrint.isSpace r = true := by
  induction h with
  | nil => exact absurd rfl hne
  | cons seg t r hd hs ht ih =>
    by_cases htn : t = []
    · subst htn
      exact ⟨[], seg, r, by simp, hd, hs⟩
    · obtain ⟨t', seg', r', he, hd', hs'⟩ := ih htn
      exact ⟨seg ++ t', seg', r', by rw [he, List.append_assoc], hd', hs'⟩

theorem spaceSeq_last_space {d : Bytes} (h : SpaceSeq d) (hne : d ≠ []) (x : Bytes) :
    UnicodePrint.isSpace (decodeLastRuneRev (x ++ d).reverse).1 = true := by
  obtain ⟨d', seg, r, he, hd, hs⟩ := spaceSeq_last_seg h hne
  rw [he, ← List.append_assoc, List.reverse_append, decodeLast_of_decode hd]
  exact hs

theorem spaceSeq_first_space_append {a : Bytes} (h : SpaceSeq a) (ha : a ≠ []) (rest : Bytes) :
    UnicodePrint.isSpace (Utf8.decodeRune (a ++ rest)).1 = true := by
  cases h with
  | nil => exact absurd rfl ha
  | cons seg t r hd hs ht =>
    have := decode_take hd (t ++ rest)
    rw [List.take_length] at this
    unfold Utf8.decodeRune
    rw [List.append_assoc, this]
    exact hs

/-! ### the first field of `strings.Fields` -/

theorem fields_drop_space (s : Bytes) (hne : s ≠ []) (hs : UnicodePrint.isSpace (Utf8.decodeRune s).1 = true) :
    fields s = fields (s.drop (Utf8.decodeRune s).2) := by
  obtain ⟨c, t, rfl⟩ := List.exists_cons_of_ne_nil hne
  have hw := decodeRune_width (c :: t) (by simp)
  unfold fields
  rw [fieldsAux_cons]
  simp only [hs, if_true, List.isEmpty_nil]
  rw [fieldsAux_eq_fields _ _ (by simp only [List.length_drop, List.length_cons]; omega)]
  rfl

/-- in a word: the current field is completed by a prefix `u` of the input, the rest is split on its own -/
theorem fieldsAux_word' : ∀ (fuel : Nat) (s cur : Bytes), s.length < fuel →
    (cur ≠ [] ∨ (s ≠ [] ∧ UnicodePrint.isSpace (Utf8.decodeRune s).1 = false)) →
    ∃ u rest, s = u ++ rest ∧ fieldsAux fuel s cur [] = (cur.reverse ++ u) :: fields rest ∧ cur.reverse ++ u ≠ [] := by
  intro fuel
  induction fuel with
  | zero => intro s cur h; omega
  | succ n ih =>
    intro s cur hlt hc
    cases s with
    | nil =>
      have hcur : cur ≠ [] := by
        rcases hc with h | h
        · exact h
        · exact absurd rfl h.1
      refine ⟨[], [], rfl, ?_, by simpa using hcur⟩
      rw [fieldsAux_nil]
      have : cur.isEmpty = false := by cases cur <;> simp_all
      simp [this, fields_nil]
    | cons c t =>
      have hw := decodeRune_width (c :: t) (by simp)
      rw [fieldsAux_cons]
      by_cases hsp : UnicodePrint.isSpace (Utf8.decodeRune (c :: t)).1 = true
      · have hcur : cur ≠ [] := by
          rcases hc with h | h
          · exact h
          · rw [h.2] at hsp; cases hsp
        have hce : cur.isEmpty = false := by cases cur <;> simp_all
        simp only [hsp, if_true, hce, Bool.false_eq_true, if_false]
        refine ⟨[], c :: t, rfl, ?_, by simpa using hcur⟩
        rw [fieldsAux_acc, fieldsAux_eq_fields _ _ (by simp only [List.length_drop, List.length_cons] at hlt ⊢; omega),
          ← fields_drop_space (c :: t) (by simp) hsp]
        simp
      · simp only [hsp, Bool.false_eq_true, if_false]
        have hlen : ((c :: t).drop (Utf8.decodeRune (c :: t)).2).length < n := by
          simp only [List.length_drop, List.length_cons] at hlt ⊢; omega
        have hne : ((c :: t).take (Utf8.decodeRune (c :: t)).2).reverse ++ cur ≠ [] := by
          intro h
          have h1 := (List.append_eq_nil_iff.1 h).1
          have : ((c :: t).take (Utf8.decodeRune (c :: t)).2).length = 0 := by
            rw [← List.length_reverse, h1]; rfl
          simp only [List.length_take, List.length_cons] at this
          omega
        obtain ⟨u', rest, he, hf, hn⟩ := ih _ _ hlen (Or.inl hne)
        refine ⟨(c :: t).take (Utf8.decodeRune (c :: t)).2 ++ u', rest, ?_, ?_, ?_⟩
        · rw [List.append_assoc, ← he, List.take_append_drop]
        · rw [hf]; simp
        · simpa using hn

/-- ★ the first field: after leading white space, a maximal piece `w` of the string, and `Fields` of what follows -/
theorem fields_cons_decomp {s w : Bytes} {ws : List Bytes} (h : fields s = w :: ws) :
    ∃ a b, s = a ++ w ++ b ∧ SpaceSeq a ∧ fields b = ws ∧ w ≠ [] := by
  obtain ⟨p, hp, heq, hcase⟩ := trimLeftSpace_cases s
  have hf : fields s = fields (trimLeftSpace s) := by
    conv => lhs; rw [heq]
    exact fields_spaceSeq_append p _ hp
  rcases hcase with h0 | hns
  · rw [hf, h0, fields_nil] at h; cases h
  · have hne : trimLeftSpace s ≠ [] := by
      intro h0; rw [hf, h0, fields_nil] at h; cases h
    obtain ⟨u, rest, he, hfa, hn⟩ := fieldsAux_word' ((trimLeftSpace s).length + 1) (trimLeftSpace s) [] (by omega)
      (Or.inr ⟨hne, hns⟩)
    have : fields (trimLeftSpace s) = u :: fields rest := by
      unfold fields at hfa ⊢; simpa using hfa
    rw [hf, this] at h
    simp only [List.cons.injEq] at h
    obtain ⟨rfl, rfl⟩ := h
    refine ⟨p, rest, ?_, hp, rfl, by simpa using hn⟩
    rw [List.append_assoc, ← he]; exact heq

/-- ★ (a) a string with exactly one field trims to that field -/
theorem trimSpace_of_fields_single {z w : Bytes} (h : fields z = [w]) : trimSpace z = w := by
  have hy : fields (trimSpace z) = [w] := by rw [fields_trimSpace]; exact h
  have hne : trimSpace z ≠ [] := by
    intro h0; rw [h0, fields_nil] at hy; cases hy
  obtain ⟨a, b, he, ha, hb, _⟩ := fields_cons_decomp hy
  have hbs : SpaceSeq b := (trimSpace_eq_nil_iff b).1 ((trimSpace_eq_nil_iff_fields b).2 hb)
  have ha0 : a = [] := by
    apply Classical.byContradiction
    intro hane
    have h1 := spaceSeq_first_space_append ha hane (w ++ b)
    rw [← List.append_assoc, ← he, trimSpace_first_rune z hne] at h1
    cases h1
  have hb0 : b = [] := by
    apply Classical.byContradiction
    intro hbne
    have h1 := spaceSeq_last_space hbs hbne (a ++ w)
    rw [← he, trimSpace_last_rune z hne] at h1
    cases h1
  rw [he, ha0, hb0]; simp

/-! ### a field occurs in the string -/

theorem isPrefixOfB_append_self : ∀ (w b : Bytes), isPrefixOfB w (w ++ b) = true
  | [], b => by cases b <;> rfl
  | c :: w, b => by simp [isPrefixOfB, isPrefixOfB_append_self w b]

theorem indexAux_infix (w b : Bytes) : ∀ (a : Bytes) (k : Nat), (GoStrings.indexAux w (a ++ w ++ b) k).isSome = true
  | [], k => by
    cases hwb : w ++ b with
    | nil =>
      have hw : w = [] := (List.append_eq_nil_iff.1 hwb).1
      have hb : b = [] := (List.append_eq_nil_iff.1 hwb).2
      simp [GoStrings.indexAux, hw, hb]
    | cons c t =>
      simp only [List.nil_append, hwb, GoStrings.indexAux]
      rw [← hwb, isPrefixOfB_append_self]; rfl
  | c :: a, k => by
    simp only [List.cons_append, GoStrings.indexAux]
    split
    · rfl
    · have := indexAux_infix w b a (k + 1)
      simpa using this

/-- ★ (b) a field of `x` occurs in every string that ends with `x` -/
theorem index_of_field {x w : Bytes} {ws : List Bytes} (h : fields x = w :: ws) (pre : Bytes) :
    (GoStrings.index (pre ++ x) w).isSome = true := by
  obtain ⟨a, b, he, _, _, _⟩ := fields_cons_decomp h
  unfold GoStrings.index
  have : pre ++ x = (pre ++ a) ++ w ++ b := by rw [he]; simp
  rw [this]
  exact indexAux_infix w b (pre ++ a) 0

/-- what `Require.setIndirect(false)` needs of a marked comment: it is `// indirect` after trimming, or `indirect;` occurs -/
theorem indirect_index (tok : Bytes)
    (hI : (match fields (trimPrefix tok [47, 47]) with
      | [f0] => f0 == B "indirect" | f0 :: _ :: _ => f0 == B "indirect;" | [] => false) = true)
    (hne : trimSpace (trimPrefix tok [47, 47]) ≠ B "indirect") : (GoStrings.index tok (B "indirect;")).isSome = true := by
  have hpre : ∃ pre, tok = pre ++ trimPrefix tok [47, 47] := by
    unfold trimPrefix
    split
    · exact ⟨tok.take 2, by simp⟩
    · exact ⟨[], rfl⟩
  obtain ⟨pre, hp⟩ := hpre
  rcases hf : fields (trimPrefix tok [47, 47]) with _ | ⟨a, _ | ⟨b, t⟩⟩
  · rw [hf] at hI; cases hI
  · rw [hf] at hI
    simp only [beq_iff_eq] at hI
    subst hI
    exact absurd (trimSpace_of_fields_single hf) hne
  · rw [hf] at hI
    simp only [beq_iff_eq] at hI
    subst hI
    rw [hp]
    exact index_of_field hf pre


/-- the closed form (`FnEditSetB.IndirectIdxOK`): for every line that `isIndirect` accepts whose first end-of-line
    comment is not exactly `// indirect`, that comment contains `indirect;` -/
theorem indirectIdx_all : ∀ l : Modfile.Line, Modfile.isIndirect l = true → ∀ com rest, l.comments.suffix = com :: rest →
    GoStrings.trimSpace (GoStrings.trimPrefix com.token [47, 47]) ≠ B "indirect" →
    (GoStrings.index com.token (B "indirect;")).isSome :=
  fun l hI com rest hs hne => indirect_index com.token (by rw [Modfile.isIndirect, hs] at hI; exact hI) hne

open ModVerif.GoRt ModVerif.Generated.Edit ModVerif.Tie.FnEditRep in
/-- `Require.setIndirect` on all inputs -/
theorem Require_setIndirect_full {h : Heap} {r : Int} {rq : Modfile.Require} {l : Modfile.Line} (ind : Bool)
    (hr : heapGet h.requires r = .ok (requireG rq)) (hg : heapGet h.lines (rq.lineId : Int) = .ok (lineG l)) :
    Require_setIndirect r ind h =
      .ok ((), { setLineH h (rq.lineId : Int) (Modfile.Edit.setIndirectLine ind l) with
                   requires := h.requires.set (r.toNat - 1) (requireG { rq with indirect := ind }) }) :=
  Tie.FnEditTreeA.Require_setIndirect_eq ind hr hg (fun _ hI com rest hs hne =>
    indirect_index com.token (by rw [Modfile.isIndirect, hs] at hI; exact hI) hne)

end ModVerif.Tie.FnEditTreeC
