/-
  Byte-offset consistency of lexed tokens (the part of `pos_consistent` proved so far).

  `Inv data i`: the lexer state `i` is a split of the input `data` (consumed ++ remaining), its
  position's byte offset is the number of consumed bytes, and the bytes of the token being scanned are
  the last consumed bytes, starting at the token's recorded byte offset.  Every lexer step preserves
  it; `readToken` therefore always yields a token whose text is found in the input at `token.pos.byte`
  and which ends at `token.endPos.byte`.
-/
import ModVerif.Model.Modfile.Lex
import ModVerif.Proofs.ModfileLex
namespace ModVerif.Proofs.ModfilePos
open ModVerif ModVerif.Modfile ModVerif.Proofs.ModfileLex

structure Inv (data : Bytes) (i : Input) : Prop where
  split : i.consumedRev.reverse ++ i.remaining = data
  byte : i.pos.byte = i.consumedRev.length
  tok : ∃ pre, i.consumedRev = i.tokRev ++ pre ∧ pre.length = i.token.pos.byte

theorem inv_newInput (data : Bytes) : Inv data (newInput data) :=
  ⟨rfl, rfl, ⟨[], rfl, rfl⟩⟩

theorem inv_readRune {data : Bytes} {i i' : Input} {r : Nat} (hi : Inv data i) (h : readRune i = .ok (r, i')) :
    Inv data i' := by
  unfold readRune at h
  split at h
  · cases h
  · rename_i a t hrem
    have hw := decodeRune_width i.remaining (by rw [hrem]; simp)
    simp only [Except.ok.injEq, Prod.mk.injEq] at h
    obtain ⟨_, rfl⟩ := h
    obtain ⟨pre, hpre, hlen⟩ := hi.tok
    refine ⟨?_, ?_, ⟨pre, ?_, hlen⟩⟩
    · simp only [List.reverse_append, List.reverse_reverse, List.append_assoc, List.take_append_drop]
      exact hi.split
    · have : (List.take (Utf8.decodeRune i.remaining).2 i.remaining).length = (Utf8.decodeRune i.remaining).2 := by
        rw [List.length_take]; omega
      split <;> simp [hi.byte, this] <;> omega
    · simp only [hpre, List.append_assoc]

theorem inv_startToken {data : Bytes} {i : Input} (hi : Inv data i) : Inv data (startToken i) :=
  ⟨hi.split, hi.byte, ⟨i.consumedRev, rfl, hi.byte.symm⟩⟩

theorem inv_endToken {data : Bytes} {i : Input} (k : TokKind) (hi : Inv data i) : Inv data (endToken k i) :=
  ⟨hi.split, hi.byte, hi.tok⟩

/-! ### the loops preserve any predicate that `readRune` preserves -/

section pres
variable {P : Input → Prop} (hP : ∀ i r i', P i → readRune i = .ok (r, i') → P i')
include hP

theorem skipSpaces_pres : ∀ (fuel : Nat) (i i' : Input), P i → skipSpaces fuel i = .ok i' → P i' := by
  intro fuel
  induction fuel with
  | zero => intro i i' _ h; simp [skipSpaces] at h
  | succ n ih =>
    intro i i' hp h
    unfold skipSpaces at h
    split at h
    · cases h; exact hp
    · simp only at h
      split at h
      · cases h1 : readRune i with
        | error e => simp [h1, bind, Except.bind] at h
        | ok v =>
          simp only [h1, bind, Except.bind] at h
          exact ih v.2 i' (hP i v.1 v.2 hp (by rw [h1])) h
      · cases h; exact hp

theorem consumeLine_pres : ∀ (fuel : Nat) (i i' : Input), P i → consumeLine fuel i = .ok i' → P i' := by
  intro fuel
  induction fuel with
  | zero => intro i i' _ h; simp [consumeLine] at h
  | succ n ih =>
    intro i i' hp h
    unfold consumeLine at h
    split at h
    · cases h; exact hp
    · cases h1 : readRune i with
      | error e => simp [h1, bind, Except.bind] at h
      | ok v =>
        simp only [h1, bind, Except.bind] at h
        have hv := hP i v.1 v.2 hp (by rw [h1])
        split at h
        · cases h; exact hv
        · exact ih v.2 i' hv h

theorem readString_pres (q : Nat) : ∀ (fuel : Nat) (i i' : Input), P i → readString q fuel i = .ok i' → P i' := by
  intro fuel
  induction fuel with
  | zero => intro i i' _ h; simp [readString] at h
  | succ n ih =>
    intro i i' hp h
    unfold readString at h
    split at h
    · cases h
    · split at h
      · cases h
      · cases h1 : readRune i with
        | error e => simp [h1, bind, Except.bind] at h
        | ok v =>
          simp only [h1, bind, Except.bind] at h
          have hv := hP i v.1 v.2 hp (by rw [h1])
          split at h
          · cases h; exact hv
          · split at h
            · split at h
              · cases h
              · cases h2 : readRune v.2 with
                | error e => simp [h2] at h
                | ok w =>
                  simp only [h2] at h
                  exact ih w.2 i' (hP v.2 w.1 w.2 hv (by rw [h2])) h
            · exact ih v.2 i' hv h

theorem readIdent_pres : ∀ (fuel : Nat) (i i' : Input), P i → readIdent fuel i = .ok i' → P i' := by
  intro fuel
  induction fuel with
  | zero => intro i i' _ h; simp [readIdent] at h
  | succ n ih =>
    intro i i' hp h
    unfold readIdent at h
    split at h
    · split at h
      · cases h; exact hp
      · split at h
        · cases h
        · cases h1 : readRune i with
          | error e => simp [h1, bind, Except.bind] at h
          | ok v =>
            simp only [h1, bind, Except.bind] at h
            exact ih v.2 i' (hP i v.1 v.2 hp (by rw [h1])) h
    · cases h; exact hp

end pres

end ModVerif.Proofs.ModfilePos

namespace ModVerif.Proofs.ModfilePos
open ModVerif ModVerif.Modfile ModVerif.Proofs.ModfileLex

/-- what holds of the state right after a token has been delivered -/
structure TokOK (data : Bytes) (i : Input) : Prop where
  inv : Inv data i
  text : i.token.text <+: i.tokRev.reverse
  endPos : i.token.endPos = i.pos

theorem tokOK_endToken {data : Bytes} {j : Input} (k : TokKind) (hj : Inv data j) : TokOK data (endToken k j) := by
  refine ⟨inv_endToken k hj, ?_, rfl⟩
  show (if k.isComment then _ else j.tokRev).reverse <+: j.tokRev.reverse
  split
  · split
    · rename_i r h
      rw [h]
      simp only [List.reverse_cons, List.append_assoc]
      exact List.prefix_append _ _
    · rename_i r h
      rw [h]
      simp only [List.reverse_cons]
      exact List.prefix_append _ _
    · exact List.prefix_refl _
  · exact List.prefix_refl _

theorem tokOK_comments {data : Bytes} {i : Input} (c : List Comment) (h : TokOK data i) :
    TokOK data { i with commentsRev := c } :=
  ⟨⟨h.inv.split, h.inv.byte, h.inv.tok⟩, h.text, h.endPos⟩

theorem readComment_tokOK {data : Bytes} {i i' : Input} (hi : Inv data i) (h : readComment i = .ok i') :
    TokOK data i' := by
  unfold readComment at h
  cases h1 : readRune (startToken i) with
  | error e => simp [h1, bind, Except.bind] at h
  | ok v1 =>
    have hv1 := inv_readRune (inv_startToken hi) (show readRune (startToken i) = .ok (v1.1, v1.2) by rw [h1])
    simp only [h1, bind, Except.bind] at h
    cases h2 : readRune v1.2 with
    | error e => simp [h2] at h
    | ok v2 =>
      have hv2 := inv_readRune hv1 (show readRune v1.2 = .ok (v2.1, v2.2) by rw [h2])
      simp only [h2] at h
      cases h3 : consumeLine (v2.2.remaining.length + 1) v2.2 with
      | error e => simp [h3] at h
      | ok v3 =>
        have hv3 := consumeLine_pres (P := Inv data) (fun _ _ _ hp hr => inv_readRune hp hr) _ _ _ hv2 h3
        simp only [h3] at h
        split at h
        · cases h; exact tokOK_endToken _ hv3
        · cases h; exact tokOK_comments _ (tokOK_endToken _ hv3)

/-- `readToken` keeps the state a split of the input and delivers a well-positioned token. -/
theorem readToken_tokOK {data : Bytes} {i i' : Input} (hi : Inv data i) (h : readToken i = .ok i') :
    TokOK data i' := by
  unfold readToken at h
  cases h0 : skipSpaces (i.remaining.length + 1) i with
  | error e => simp [h0, bind, Except.bind] at h
  | ok i0 =>
    have hi0 := skipSpaces_pres (P := Inv data) (fun _ _ _ hp hr => inv_readRune hp hr) _ _ _ hi h0
    simp only [h0, bind, Except.bind] at h
    split at h
    · exact readComment_tokOK hi0 h
    · split at h
      · cases h
      · have hs := inv_startToken hi0
        split at h
        · cases h; exact tokOK_endToken _ hs
        · split at h
          · cases h1 : readRune (startToken i0) with
            | error e => simp [h1] at h
            | ok v1 =>
              have hv1 := inv_readRune hs (show readRune (startToken i0) = .ok (v1.1, v1.2) by rw [h1])
              simp only [h1] at h
              cases h; exact tokOK_endToken _ hv1
          · split at h
            · cases h1 : readRune (startToken i0) with
              | error e => simp [h1] at h
              | ok v1 =>
                have hv1 := inv_readRune hs (show readRune (startToken i0) = .ok (v1.1, v1.2) by rw [h1])
                simp only [h1] at h
                cases h2 : readString (startToken i0).peekRune (v1.2.remaining.length + 1) v1.2 with
                | error e => simp [h2] at h
                | ok v2 =>
                  have hv2 := readString_pres (P := Inv data) (fun _ _ _ hp hr => inv_readRune hp hr) _ _ _ _ hv1 h2
                  simp only [h2] at h
                  cases h; exact tokOK_endToken _ hv2
            · split at h
              · cases h
              · split at h
                · cases h
                · rename_i v2 h2
                  have hv2 := readIdent_pres (P := Inv data) (fun _ _ _ hp hr => inv_readRune hp hr) _ _ _ hs h2
                  cases h; exact tokOK_endToken _ hv2

/-- From `TokOK`: the token text occurs in the input at the token's byte offset, the token ends at
    its recorded end offset, which is the lexer's current offset, and the current offset is the
    number of bytes consumed. -/
theorem tokOK_spec {data : Bytes} {i : Input} (h : TokOK data i) :
    i.token.text <+: data.drop i.token.pos.byte ∧
    i.token.endPos.byte = i.pos.byte ∧
    i.token.pos.byte + i.tokRev.length = i.token.endPos.byte ∧
    data.drop i.pos.byte = i.remaining ∧ i.pos.byte ≤ data.length := by
  obtain ⟨pre, hpre, hlen⟩ := h.inv.tok
  have hd : data = pre.reverse ++ (i.tokRev.reverse ++ i.remaining) := by
    rw [← h.inv.split, hpre]; simp
  have hbyte := h.inv.byte
  refine ⟨?_, by rw [h.endPos], ?_, ?_, ?_⟩
  · have : data.drop i.token.pos.byte = i.tokRev.reverse ++ i.remaining := by
      rw [hd, ← hlen, ← List.length_reverse]
      exact List.drop_left
    rw [this]
    exact List.IsPrefix.trans h.text (List.prefix_append _ _)
  · rw [h.endPos, hbyte, hpre]; simp; omega
  · rw [← h.inv.split, hbyte, ← List.length_reverse]
    exact List.drop_left
  · rw [← h.inv.split, hbyte]; simp

end ModVerif.Proofs.ModfilePos

namespace ModVerif.Proofs.ModfilePos
open ModVerif ModVerif.Modfile

/-- The lexer states the parser can be in: it primes the lexer with `readToken (newInput data)`, calls
    `readToken` (through `lex`) and otherwise only bumps the line-identity counter. -/
inductive Reach (data : Bytes) : Input → Prop
  | start {i : Input} : readToken (newInput data) = .ok i → Reach data i
  | lex {i i' : Input} : Reach data i → readToken i = .ok i' → Reach data i'
  | setId {i : Input} (n : Nat) : Reach data i → Reach data { i with nextId := n }

theorem reach_tokOK {data : Bytes} {i : Input} (h : Reach data i) : TokOK data i := by
  induction h with
  | start h => exact readToken_tokOK (inv_newInput data) h
  | lex _ h ih => exact readToken_tokOK ih.inv h
  | setId n _ ih => exact ⟨⟨ih.inv.split, ih.inv.byte, ih.inv.tok⟩, ih.text, ih.endPos⟩

end ModVerif.Proofs.ModfilePos
