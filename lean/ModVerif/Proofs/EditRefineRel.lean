/-
  EditRefine, part 4 — observational equivalence of abstract files and the congruence of the specification's
  `step` for it.

  Go's map iteration in SetRequire / SetRequireSeparateIndirect / SetUse appends the missing entries in an
  arbitrary order, so the model's typed `require` (`use`) list and the specification's differ by a reordering —
  but only BETWEEN different paths: the entries of one path stand in the same order (`KeyEq`).  `step` only ever
  looks at the entries of one path at a time, so it respects `KeyEq`.  Retraction rationales are compared
  separately (they are where the recorded defects live): `Rel` compares retractions by interval.
-/
import ModVerif.Proofs.EditSpecSet
set_option linter.unusedSimpArgs false
namespace ModVerif.EditSpec
open ModVerif

section keyeq
variable {α : Type}

/-- same entries per key, in the same order -/
def KeyEq (key : α → Bytes) (l1 l2 : List α) : Prop :=
  ∀ k, l1.filter (fun x => key x == k) = l2.filter (fun x => key x == k)

theorem KeyEq.refl (key : α → Bytes) (l : List α) : KeyEq key l l := fun _ => rfl
theorem KeyEq.symm {key : α → Bytes} {l1 l2 : List α} (h : KeyEq key l1 l2) : KeyEq key l2 l1 := fun k => (h k).symm
theorem KeyEq.trans {key : α → Bytes} {l1 l2 l3 : List α} (h1 : KeyEq key l1 l2) (h2 : KeyEq key l2 l3) : KeyEq key l1 l3 :=
  fun k => (h1 k).trans (h2 k)

theorem KeyEq.perm [DecidableEq α] {key : α → Bytes} {l1 l2 : List α} (h : KeyEq key l1 l2) : l1.Perm l2 := by
  apply List.perm_iff_count.2
  intro a
  have h1 : ∀ l : List α, List.count a l = List.count a (l.filter (fun x => key x == key a)) := by
    intro l
    rw [List.count_filter]; simp
  rw [h1 l1, h1 l2, h (key a)]

theorem KeyEq.any {key : α → Bytes} {l1 l2 : List α} (h : KeyEq key l1 l2) (p : Bytes) :
    l1.any (fun x => key x == p) = l2.any (fun x => key x == p) := by
  have h1 : ∀ l : List α, l.any (fun x => key x == p) = !(l.filter (fun x => key x == p)).isEmpty := by
    intro l
    induction l with
    | nil => rfl
    | cons x xs ih =>
      by_cases hx : (key x == p) = true
      · simp [List.filter, hx]
      · simp only [Bool.not_eq_true] at hx; simp [List.filter, hx, ih]
  rw [h1 l1, h1 l2, h p]

theorem KeyEq.append {key : α → Bytes} {l1 l2 m1 m2 : List α} (h : KeyEq key l1 l2) (h' : KeyEq key m1 m2) :
    KeyEq key (l1 ++ m1) (l2 ++ m2) := by
  intro k; simp only [List.filter_append, h k, h' k]

theorem KeyEq.filter {key : α → Bytes} {l1 l2 : List α} (h : KeyEq key l1 l2) (q : α → Bool) :
    KeyEq key (l1.filter q) (l2.filter q) := by
  intro k
  have : ∀ l : List α, (l.filter q).filter (fun x => key x == k) = (l.filter (fun x => key x == k)).filter q := by
    intro l; simp only [List.filter_filter]; congr 1; funext x; exact Bool.and_comm _ _
  rw [this l1, this l2, h k]

theorem KeyEq.dropAll {key : α → Bytes} {l1 l2 : List α} (h : KeyEq key l1 l2) (m : α → Bool) :
    KeyEq key (EditSpec.dropAll m l1) (EditSpec.dropAll m l2) := h.filter _

theorem find?_eq_head?_filter (m : α → Bool) (l : List α) : l.find? m = (l.filter m).head? := by
  induction l with
  | nil => rfl
  | cons x xs ih =>
    rw [List.find?_cons, List.filter_cons]
    by_cases h : m x = true
    · simp only [h, if_true, List.head?_cons]
    · simp only [Bool.not_eq_true] at h; simp only [h, Bool.false_eq_true, if_false, ih]

theorem KeyEq.updFirstDropRest {key : α → Bytes} {l1 l2 : List α} (h : KeyEq key l1 l2) (p : Bytes) (u : α → α)
    (hu : ∀ x, key (u x) = key x) :
    KeyEq key (EditSpec.updFirstDropRest (fun x => key x == p) u l1) (EditSpec.updFirstDropRest (fun x => key x == p) u l2) := by
  intro k
  have hu' : ∀ x, (fun x => key x == p) x = true → (fun x => key x == p) (u x) = true := by
    intro x hx; simp only [hu x]; exact hx
  by_cases hk : k = p
  · subst hk
    rw [updFirstDropRest_matched _ u hu', updFirstDropRest_matched _ u hu', find?_eq_head?_filter, find?_eq_head?_filter, h k]
  · have hsplit : ∀ l : List α, l.filter (fun x => key x == k) = (l.filter (fun y => !(key y == p))).filter (fun x => key x == k) := by
      intro l
      rw [List.filter_filter]
      apply List.filter_congr
      intro x _
      by_cases hx : (key x == k) = true
      · have : key x = k := eq_of_beq hx
        have hne : (key x == p) = false := by
          cases hb : key x == p with
          | false => rfl
          | true => exact absurd ((eq_of_beq hb).symm.trans this).symm hk
        simp [hx, hne]
      · simp only [Bool.not_eq_true] at hx; simp [hx]
    rw [hsplit (EditSpec.updFirstDropRest _ u l1), hsplit (EditSpec.updFirstDropRest _ u l2),
      updFirstDropRest_others _ u hu', updFirstDropRest_others _ u hu', ← hsplit, ← hsplit, h k]

theorem KeyEq.setKeyed {key : α → Bytes} {l1 l2 : List α} (h : KeyEq key l1 l2) (p : Bytes) (u : α → α)
    (hu : ∀ x, key (u x) = key x) (new : α) :
    KeyEq key (EditSpec.setKeyed (fun x => key x == p) u new l1) (EditSpec.setKeyed (fun x => key x == p) u new l2) := by
  unfold EditSpec.setKeyed
  rw [h.any p]
  split
  · exact h.updFirstDropRest p u hu
  · exact h.append (KeyEq.refl _ _)

/-- a permutation of a list with pairwise distinct keys has, per key, the same (at most one) entry -/
theorem filter_key_of_perm {key : α → Bytes} {l want : List α} (hperm : l.Perm want)
    (hW : want.Pairwise (fun a b => key a ≠ key b)) (k : Bytes) :
    l.filter (fun x => key x == k) = want.filter (fun x => key x == k) := by
  have hp := hperm.filter (fun x => key x == k)
  have hlen : (want.filter (fun x => key x == k)).length ≤ 1 := by
    clear hp hperm
    induction want with
    | nil => simp
    | cons w ws ih =>
      rcases List.pairwise_cons.1 hW with ⟨h1, h2⟩
      by_cases hw : (key w == k) = true
      · have : ws.filter (fun x => key x == k) = [] := by
          apply List.filter_eq_nil_iff.2
          intro a ha hka
          exact h1 a ha ((eq_of_beq hw).trans (eq_of_beq hka).symm)
        simp [List.filter, hw, this]
      · simp only [Bool.not_eq_true] at hw
        simp only [List.filter, hw]; exact ih h2
  cases hw : want.filter (fun x => key x == k) with
  | nil => rw [hw] at hp; exact List.Perm.eq_nil hp
  | cons a t =>
    rw [hw] at hp hlen
    have : t = [] := by
      cases t with
      | nil => rfl
      | cons _ _ => simp at hlen
    subst this
    exact List.perm_singleton.1 hp

theorem KeyEq.of_perm {key : α → Bytes} {l1 l2 want : List α} (h1 : l1.Perm want) (h2 : l2.Perm want)
    (hW : want.Pairwise (fun a b => key a ≠ key b)) : KeyEq key l1 l2 :=
  fun k => (filter_key_of_perm h1 hW k).trans (filter_key_of_perm h2 hW k).symm

/-- with distinct wanted keys, "set exactly" leaves per key exactly the wanted entry — whatever was there before -/
theorem setExact_filter_key [DecidableEq α] (key : α → Bytes) (want old : List α)
    (hW : want.Pairwise (fun a b => key a ≠ key b)) (k : Bytes) :
    (setExact key want old).filter (fun x => key x == k) = want.filter (fun x => key x == k) :=
  filter_key_of_perm (setExact_perm key want old hW) hW k

theorem KeyEq.setExact [DecidableEq α] (key : α → Bytes) (want old1 old2 : List α)
    (hW : want.Pairwise (fun a b => key a ≠ key b)) :
    KeyEq key (EditSpec.setExact key want old1) (EditSpec.setExact key want old2) := by
  intro k; rw [setExact_filter_key key want old1 hW, setExact_filter_key key want old2 hW]

end keyeq

/-! ### the relation on abstract files -/

/-- a retraction without its rationale -/
def Retr.interval (r : Retr) : Bytes × Bytes := (r.lo, r.hi)

/-- observational equivalence: scalars and the order-insensitive collections equal; requirements and uses equal per
    path (same order within a path); retractions compared by interval, in order -/
structure Rel (f g : AbsFile) : Prop where
  module : f.module = g.module
  go : f.go = g.go
  toolchain : f.toolchain = g.toolchain
  godebug : f.godebug = g.godebug
  require : KeyEq Req.path f.require g.require
  exclude : f.exclude = g.exclude
  replace : f.replace = g.replace
  retract : f.retract.map Retr.interval = g.retract.map Retr.interval
  tool : f.tool = g.tool
  use : KeyEq id f.use g.use

theorem Rel.refl (f : AbsFile) : Rel f f := ⟨rfl, rfl, rfl, rfl, KeyEq.refl _ _, rfl, rfl, rfl, rfl, KeyEq.refl _ _⟩
theorem Rel.symm {f g : AbsFile} (h : Rel f g) : Rel g f :=
  ⟨h.module.symm, h.go.symm, h.toolchain.symm, h.godebug.symm, h.require.symm, h.exclude.symm, h.replace.symm,
   h.retract.symm, h.tool.symm, h.use.symm⟩
theorem Rel.trans {f g k : AbsFile} (h1 : Rel f g) (h2 : Rel g k) : Rel f k :=
  ⟨h1.module.trans h2.module, h1.go.trans h2.go, h1.toolchain.trans h2.toolchain, h1.godebug.trans h2.godebug,
   h1.require.trans h2.require, h1.exclude.trans h2.exclude, h1.replace.trans h2.replace, h1.retract.trans h2.retract,
   h1.tool.trans h2.tool, h1.use.trans h2.use⟩

/-- `Rel` implies multiset equality of every collection (retractions: of their intervals) -/
theorem Rel.perm {f g : AbsFile} (h : Rel f g) : f.require.Perm g.require ∧ f.use.Perm g.use :=
  ⟨h.require.perm, h.use.perm⟩

theorem Rel.removeDups {f g : AbsFile} (h : Rel f g) : Rel (EditSpec.removeDups f) (EditSpec.removeDups g) := by
  unfold EditSpec.removeDups
  exact ⟨h.module, h.go, h.toolchain, h.godebug, h.require, by simp only [h.exclude], by simp only [h.replace], h.retract,
    by simp only [h.tool], h.use⟩

/-- the arguments a bulk setter needs: pairwise distinct paths -/
def ValidOp : Op → Prop
  | .setRequire want => want.Pairwise (fun a b => a.path ≠ b.path)
  | .setRequireSeparateIndirect want => want.Pairwise (fun a b => a.path ≠ b.path)
  | .setUse want => (want.map Prod.fst).Pairwise (· ≠ ·)
  | _ => True

theorem Rel.stepOk {f g : AbsFile} (h : Rel f g) (V : Validity) (op : Op) : EditSpec.stepOk V f op = EditSpec.stepOk V g op := by
  cases op <;> simp only [EditSpec.stepOk, h.module]

theorem map_interval_dropAll (lo hi : Bytes) (l : List Retr) :
    (dropAll (fun r : Retr => r.lo == lo && r.hi == hi) l).map Retr.interval
      = (l.map Retr.interval).filter (fun p => !(p.1 == lo && p.2 == hi)) := by
  unfold dropAll; rw [List.filter_map]; rfl

/-- **`step` respects observational equivalence.** -/
theorem Rel.step {f g : AbsFile} (h : Rel f g) (V : Validity) (op : Op) (hv : ValidOp op) :
    Rel (EditSpec.step V f op) (EditSpec.step V g op) := by
  cases op with
  | addModule p => simp only [EditSpec.step, EditSpec.stepOk, Bool.not_true, Bool.false_eq_true, if_false]; exact { h with module := rfl }
  | addGo v =>
    simp only [EditSpec.step, EditSpec.stepOk]
    by_cases hV : V.goVersion v = true
    · simp only [hV, Bool.not_true, Bool.false_eq_true, if_false, if_true]
      exact { h with go := rfl }
    · simp only [Bool.not_eq_true] at hV
      simp only [hV, Bool.not_false, Bool.false_eq_true, if_true, if_false]
      exact h
  | dropGo => simp only [EditSpec.step, EditSpec.stepOk, Bool.not_true, Bool.false_eq_true, if_false]; exact { h with go := rfl }
  | addToolchain n =>
    simp only [EditSpec.step, EditSpec.stepOk]
    by_cases hV : V.toolchain n = true
    · simp only [hV, Bool.not_true, Bool.false_eq_true, if_false, if_true]
      exact { h with toolchain := rfl }
    · simp only [Bool.not_eq_true] at hV
      simp only [hV, Bool.not_false, Bool.false_eq_true, if_true, if_false]
      exact h
  | dropToolchain => simp only [EditSpec.step, EditSpec.stepOk, Bool.not_true, Bool.false_eq_true, if_false]; exact { h with toolchain := rfl }
  | addGodebug k v =>
    simp only [EditSpec.step, EditSpec.stepOk, Bool.not_true, Bool.false_eq_true, if_false]
    exact { h with godebug := by simp only [h.godebug] }
  | dropGodebug k =>
    simp only [EditSpec.step, EditSpec.stepOk, Bool.not_true, Bool.false_eq_true, if_false]
    exact { h with godebug := by simp only [h.godebug] }
  | addRequire p v =>
    simp only [EditSpec.step, EditSpec.stepOk, Bool.not_true, Bool.false_eq_true, if_false]
    exact { h with require := h.require.setKeyed p (fun r : Req => { r with vers := v }) (fun _ => rfl) _ }
  | addNewRequire p v i =>
    simp only [EditSpec.step, EditSpec.stepOk, Bool.not_true, Bool.false_eq_true, if_false]
    exact { h with require := h.require.append (KeyEq.refl _ _) }
  | dropRequire p =>
    simp only [EditSpec.step, EditSpec.stepOk, Bool.not_true, Bool.false_eq_true, if_false]
    exact { h with require := h.require.dropAll _ }
  | setRequire want =>
    simp only [EditSpec.step, EditSpec.stepOk, Bool.not_true, Bool.false_eq_true, if_false]
    exact Rel.removeDups { h with require := KeyEq.setExact Req.path want _ _ hv }
  | setRequireSeparateIndirect want =>
    simp only [EditSpec.step, EditSpec.stepOk, Bool.not_true, Bool.false_eq_true, if_false]
    exact Rel.removeDups { h with require := KeyEq.setExact Req.path want _ _ hv }
  | addExclude p v =>
    simp only [EditSpec.step, EditSpec.stepOk, h.exclude]
    by_cases hV : V.version p v = true
    · simp only [hV, Bool.not_true, Bool.false_eq_true, if_false]
      by_cases hc : g.exclude.contains (p, v) = true
      · simp only [hc, if_true]; exact h
      · simp only [Bool.not_eq_true] at hc
        simp only [hc, Bool.false_eq_true, if_false]
        exact { h with exclude := by simp only [h.exclude] }
    · simp only [Bool.not_eq_true] at hV
      simp only [hV, Bool.not_false, if_true]
      exact h
  | dropExclude p v =>
    simp only [EditSpec.step, EditSpec.stepOk, Bool.not_true, Bool.false_eq_true, if_false]
    exact { h with exclude := by simp only [h.exclude] }
  | addReplace a b c d =>
    simp only [EditSpec.step, EditSpec.stepOk, Bool.not_true, Bool.false_eq_true, if_false]
    exact { h with replace := by simp only [h.replace] }
  | dropReplace a b =>
    simp only [EditSpec.step, EditSpec.stepOk, Bool.not_true, Bool.false_eq_true, if_false]
    exact { h with replace := by simp only [h.replace] }
  | addRetract lo hi why =>
    have hok := h.stepOk V (.addRetract lo hi why)
    unfold EditSpec.step
    rw [hok]
    by_cases hV : EditSpec.stepOk V g (.addRetract lo hi why) = true
    · simp only [hV, Bool.not_true, Bool.false_eq_true, if_false]
      exact { h with retract := by simp only [List.map_append, h.retract] }
    · simp only [Bool.not_eq_true] at hV
      simp only [hV, Bool.not_false, if_true]
      exact h
  | dropRetract lo hi =>
    simp only [EditSpec.step, EditSpec.stepOk, Bool.not_true, Bool.false_eq_true, if_false]
    exact { h with retract := by simp only [map_interval_dropAll, h.retract] }
  | addTool p =>
    simp only [EditSpec.step, EditSpec.stepOk, Bool.not_true, Bool.false_eq_true, if_false, h.tool]
    by_cases hV : g.tool.contains p = true
    · simp only [hV, Bool.not_true, Bool.false_eq_true, if_false, if_true]
      exact h
    · simp only [Bool.not_eq_true] at hV
      simp only [hV, Bool.not_false, Bool.false_eq_true, if_true, if_false]
      exact Rel.removeDups { h with tool := by simp only [h.tool] }
  | dropTool p =>
    simp only [EditSpec.step, EditSpec.stepOk, Bool.not_true, Bool.false_eq_true, if_false]
    exact { h with tool := by simp only [h.tool] }
  | sortBlocks => simp only [EditSpec.step, EditSpec.stepOk, Bool.not_true, Bool.false_eq_true, if_false]; exact h.removeDups
  | cleanup => simp only [EditSpec.step, EditSpec.stepOk, Bool.not_true, Bool.false_eq_true, if_false]; exact h
  | addUse d m =>
    simp only [EditSpec.step, EditSpec.stepOk, Bool.not_true, Bool.false_eq_true, if_false]
    exact { h with use := h.use.setKeyed d id (fun _ => rfl) _ }
  | addNewUse d m =>
    simp only [EditSpec.step, EditSpec.stepOk, Bool.not_true, Bool.false_eq_true, if_false]
    exact { h with use := h.use.append (KeyEq.refl _ _) }
  | dropUse d =>
    simp only [EditSpec.step, EditSpec.stepOk, Bool.not_true, Bool.false_eq_true, if_false]
    exact { h with use := h.use.dropAll _ }
  | setUse want =>
    simp only [EditSpec.step, EditSpec.stepOk, Bool.not_true, Bool.false_eq_true, if_false]
    exact Rel.removeDups { h with use := KeyEq.setExact id _ _ _ hv }

theorem Rel.run {f g : AbsFile} (h : Rel f g) (V : Validity) (ops : List Op) (hv : ∀ op ∈ ops, ValidOp op) :
    Rel (EditSpec.run V f ops) (EditSpec.run V g ops) := by
  induction ops generalizing f g with
  | nil => exact h
  | cons op ops ih =>
    exact ih (h.step V op (hv op List.mem_cons_self)) (fun o ho => hv o (List.mem_cons_of_mem _ ho))

theorem Rel.runOk {f g : AbsFile} (h : Rel f g) (V : Validity) (ops : List Op) (hv : ∀ op ∈ ops, ValidOp op) :
    EditSpec.runOk V f ops = EditSpec.runOk V g ops := by
  induction ops generalizing f g with
  | nil => rfl
  | cons op ops ih =>
    simp only [EditSpec.runOk, h.stepOk V op]
    rw [ih (h.step V op (hv op List.mem_cons_self)) (fun o ho => hv o (List.mem_cons_of_mem _ ho))]

end ModVerif.EditSpec
