/-
  EditPanic, part 1 — the tree invariant WITHOUT the indirect-marker clause (`P.Inv`), for C15 `nilDeref_unreachable`.

  `Edit.Inv` says, for a requirement, that the end-of-line comment of its line carries the `// indirect` marker iff the typed
  entry is indirect.  `setIndirect` does not achieve that on a comment whose text after `indirect;` is again a marker (recorded
  finding `C16_violated_indirect_marker_survives`), so `Inv` is preserved by the bulk requirement setters only under
  `NoNestedIndirectMarker`.  The marker plays no role in the Go panics (nil `Syntax` dereference on a cleared entry,
  `ensureBlock` on an unexpected statement): `P.Inv` is `Inv` with the requirement entry weakened to the tokens
  (`P.entRq`), and EVERY go.mod operation preserves it with no hypothesis on the comments.

  All definitions and theorems of this file live in the namespace `ModVerif.Modfile.Edit.P` and shadow their namesakes of
  `ModVerif.Modfile.Edit` (Proofs/EditRefineInv*.lean), whose proofs they re-run on the weaker relation; the generic `Match`
  lemmas (`Match.frame`, `clearSeg`, `updSeg`, `appendSeg`, …) are reused as they are.
  This file: the invariant, the projection `Inv → P.Inv`, every operation but the two bulk requirement setters, no panic.
-/
import ModVerif.Proofs.EditMarkerInv
set_option linter.unusedSimpArgs false
namespace ModVerif.Modfile.Edit.P
open ModVerif ModVerif.Modfile

/-- the requirement entry without the marker clause: the line shows verb, AutoQuoted path and version -/
def entRq (r : Require) : Ent :=
  ⟨r.lineId, fun t _ => t = [B "require", autoQuote r.mod.path, r.mod.version]⟩

def entries (f : File) : List Ent :=
  f.module.toList.map entM ++ (f.go.toList.map entGo ++ (f.toolchain.toList.map entTc ++
  (entsOf liveG entG f.godebug ++ (entsOf liveRq entRq f.require ++ (entsOf liveX entX f.exclude ++
  (entsOf liveRp entRp f.replace ++ (entsOf liveRt entRt f.retract ++ entsOf liveT entT f.tool)))))))

/-- **The tree invariant without the marker clause**: a well-formed tree whose live lines are exactly the renderings
    (tokens) of the live typed entries -/
structure Inv (e : EFile) : Prop where
  tree : TreeWF e.f.syn.stmts e.next
  mtch : Match (entries e.f) (view e.f.syn.stmts)
  tinv : TInv e

/-- every entry's line has at least a verb and one argument -/
theorem entries_acc2 (f : File) : ∀ en ∈ entries f, ∀ t s, en.acc t s → 2 ≤ t.length := by
  intro en hen t s ha
  simp only [entries, List.mem_append, List.mem_map, Option.mem_toList, entsOf, List.mem_filter] at hen
  rcases hen with ⟨x, _, rfl⟩ | ⟨x, _, rfl⟩ | ⟨x, _, rfl⟩ | ⟨x, _, rfl⟩ | ⟨x, _, rfl⟩ | ⟨x, _, rfl⟩ | ⟨x, _, rfl⟩ |
    ⟨x, _, rfl⟩ | ⟨x, _, rfl⟩
  · simp only [entM] at ha; rw [ha]; simp
  · simp only [entGo] at ha; rw [ha]; simp
  · simp only [entTc] at ha; rw [ha]; simp
  · simp only [entG] at ha; rw [ha]; simp
  · simp only [entRq] at ha; rw [ha]; simp
  · simp only [entX] at ha; rw [ha]; simp
  · simp only [entRp, replaceToks] at ha; rw [ha]; simp
  · simp only [entRt] at ha
    rcases ha with ⟨x', h1, _⟩ | ⟨x', y', h1, _⟩ <;> rw [h1] <;> simp
  · simp only [entT] at ha
    rcases ha with ⟨x', h1, _⟩; rw [h1]; simp

theorem Inv.view2 {e : EFile} (h : Inv e) : View2 e.f.syn.stmts := by
  intro v hv
  rcases h.mtch.surj v hv with ⟨en, hen, hid⟩
  rcases h.mtch.cover en hen with ⟨v', hv', hid', hacc⟩
  have : v' = v := view_unique h.tree.nodup hv' hv (hid'.trans hid)
  subst this
  exact entries_acc2 e.f en hen _ _ hacc

theorem Inv.fresh {e : EFile} (h : Inv e) : ∀ en ∈ entries e.f, en.id ≠ e.next := by
  intro en hen
  exact Nat.ne_of_lt (h.mtch.ids_lt h.tree en hen)

def segA_godebug (f : File) : List Ent := f.module.toList.map entM ++ (f.go.toList.map entGo ++ f.toolchain.toList.map entTc)

def segC_godebug (f : File) : List Ent :=
  entsOf liveRq entRq f.require ++ (entsOf liveX entX f.exclude ++ (entsOf liveRp entRp f.replace ++
    (entsOf liveRt entRt f.retract ++ entsOf liveT entT f.tool)))

theorem entries_godebug (f : File) : entries f = segA_godebug f ++ (entsOf liveG entG f.godebug ++ segC_godebug f) := by
  simp [entries, segA_godebug, segC_godebug, List.append_assoc]

def segA_require (f : File) : List Ent := segA_godebug f ++ entsOf liveG entG f.godebug

def segC_require (f : File) : List Ent :=
  entsOf liveX entX f.exclude ++ (entsOf liveRp entRp f.replace ++ (entsOf liveRt entRt f.retract ++ entsOf liveT entT f.tool))

theorem entries_require (f : File) : entries f = segA_require f ++ (entsOf liveRq entRq f.require ++ segC_require f) := by
  simp [entries, segA_require, segA_godebug, segC_require, List.append_assoc]

def segA_exclude (f : File) : List Ent := segA_require f ++ entsOf liveRq entRq f.require

def segC_exclude (f : File) : List Ent :=
  entsOf liveRp entRp f.replace ++ (entsOf liveRt entRt f.retract ++ entsOf liveT entT f.tool)

theorem entries_exclude (f : File) : entries f = segA_exclude f ++ (entsOf liveX entX f.exclude ++ segC_exclude f) := by
  simp [entries, segA_exclude, segA_require, segA_godebug, segC_exclude, List.append_assoc]

def segA_replace (f : File) : List Ent := segA_exclude f ++ entsOf liveX entX f.exclude

def segC_replace (f : File) : List Ent := entsOf liveRt entRt f.retract ++ entsOf liveT entT f.tool

theorem entries_replace (f : File) : entries f = segA_replace f ++ (entsOf liveRp entRp f.replace ++ segC_replace f) := by
  simp [entries, segA_replace, segA_exclude, segA_require, segA_godebug, segC_replace, List.append_assoc]

def segA_retract (f : File) : List Ent := segA_replace f ++ entsOf liveRp entRp f.replace

def segC_retract (f : File) : List Ent := entsOf liveT entT f.tool

theorem entries_retract (f : File) : entries f = segA_retract f ++ (entsOf liveRt entRt f.retract ++ segC_retract f) := by
  simp [entries, segA_retract, segA_replace, segA_exclude, segA_require, segA_godebug, segC_retract, List.append_assoc]

def segA_tool (f : File) : List Ent := segA_retract f ++ entsOf liveRt entRt f.retract

theorem entries_tool (f : File) : entries f = segA_tool f ++ (entsOf liveT entT f.tool ++ []) := by
  simp [entries, segA_tool, segA_retract, segA_replace, segA_exclude, segA_require, segA_godebug, List.append_assoc]

def segC_module (f : File) : List Ent :=
  f.go.toList.map entGo ++ (f.toolchain.toList.map entTc ++ (entsOf liveG entG f.godebug ++ segC_godebug f))

theorem entries_module (f : File) : entries f = [] ++ (entsOf (fun _ => true) entM f.module.toList ++ segC_module f) := by
  simp [entries, segC_module, segC_godebug, entsOf_true, List.append_assoc]

def segA_go (f : File) : List Ent := f.module.toList.map entM

def segC_go (f : File) : List Ent := f.toolchain.toList.map entTc ++ (entsOf liveG entG f.godebug ++ segC_godebug f)

theorem entries_go (f : File) : entries f = segA_go f ++ (entsOf (fun _ => true) entGo f.go.toList ++ segC_go f) := by
  simp [entries, segA_go, segC_go, segC_godebug, entsOf_true, List.append_assoc]

def segA_toolchain (f : File) : List Ent := f.module.toList.map entM ++ f.go.toList.map entGo

def segC_toolchain (f : File) : List Ent := entsOf liveG entG f.godebug ++ segC_godebug f

theorem entries_toolchain (f : File) :
    entries f = segA_toolchain f ++ (entsOf (fun _ => true) entTc f.toolchain.toList ++ segC_toolchain f) := by
  simp [entries, segA_toolchain, segC_toolchain, segC_godebug, entsOf_true, List.append_assoc]

/-! ### the projection -/

/-- the entries of one segment replaced by entries with the same ids that accept at least the same lines -/
theorem Match.weakenSeg {A K K' C : List Ent} {vs : List VLine} (h : Match (A ++ (K ++ C)) vs)
    (hids : K'.map (·.id) = K.map (·.id))
    (hacc : ∀ en' ∈ K', ∃ en ∈ K, en.id = en'.id ∧ ∀ t s, en.acc t s → en'.acc t s) : Match (A ++ (K' ++ C)) vs := by
  refine Match.frame [] h (fun v _ => Iff.rfl) (fun i hi => by cases hi) (by rw [hids]; exact seg_nodup h) ?_ ?_
    (fun v _ hs => by cases hs) ?_
  · intro en' hen'
    left; rw [← hids]; exact List.mem_map.2 ⟨en', hen', rfl⟩
  · intro en' hen'
    rcases hacc en' hen' with ⟨en, hen, hid, hw⟩
    rcases h.cover en (List.mem_append_right _ (List.mem_append_left _ hen)) with ⟨v, hv, hvid, ha⟩
    exact ⟨v, hv, hvid.trans hid, hw _ _ ha⟩
  · intro en hen _
    have : en.id ∈ K'.map (·.id) := by rw [hids]; exact List.mem_map.2 ⟨en, hen, rfl⟩
    rcases List.mem_map.1 this with ⟨en', hen', hid⟩
    exact ⟨en', hen', hid⟩

theorem entries_old (f : File) :
    Edit.entries f = segA_require f ++ (entsOf liveRq Edit.entRq f.require ++ segC_require f) := by
  simp [Edit.entries, segA_require, segA_godebug, segC_require, List.append_assoc]

/-- **the projection**: the full invariant implies the invariant without the marker clause -/
theorem Inv.ofFull {e : EFile} (h : Edit.Inv e) : Inv e := by
  refine ⟨h.tree, ?_, h.tinv⟩
  rw [entries_require]
  refine Match.weakenSeg (K := entsOf liveRq Edit.entRq e.f.require) (by rw [← entries_old]; exact h.mtch) ?_ ?_
  · rw [entsOf_ids (·.lineId) liveRq entRq (fun _ => rfl), entsOf_ids (·.lineId) liveRq Edit.entRq (fun _ => rfl)]
  · intro en' hen'
    rcases (mem_entsOf liveRq entRq).1 hen' with ⟨r, hr, hl, rfl⟩
    exact ⟨Edit.entRq r, (mem_entsOf liveRq Edit.entRq).2 ⟨r, hr, hl, rfl⟩, rfl, fun t s ha => ha.1⟩

/-! ### Drop / Add operations, scalars, retract, Cleanup, SortBlocks, AddTool -/

theorem dropGodebug_inv (e e' : EFile) (k : Bytes) (hk : k ≠ []) (hi : Inv e) (h : dropGodebug e k = .ok e') : Inv e' := by
  have ht := (dropGodebug_abs e e' k hi.tinv h).2
  unfold dropGodebug at h
  simp only [bind, Except.bind] at h
  cases hr : clearAll (fun g : Godebug => g.key == k) (·.lineId) clearedGodebug e.f.godebug with
  | error err => simp [hr] at h
  | ok r =>
    rcases r with ⟨gd', dead⟩
    simp only [hr, pure, Except.pure, Except.ok.injEq] at h
    subst h
    refine ⟨(markAll_spec dead e.f.syn e.next hi.tree).1, ?_, ht⟩
    have := Match.clearSeg (fun g : Godebug => g.key == k) (·.lineId) clearedGodebug liveG entG (fun _ => rfl) rfl
      (fun x hx => ne_nil_of_beq hk hx) hi.tree (by rw [← entries_godebug]; exact hi.mtch) hr
    rw [entries_godebug]; exact this

theorem dropRequire_inv (e e' : EFile) (p : Bytes) (hp : p ≠ []) (hi : Inv e) (h : dropRequire e p = .ok e') : Inv e' := by
  have ht := (dropRequire_abs e e' p hi.tinv h).2
  unfold dropRequire at h
  simp only [bind, Except.bind] at h
  cases hr : clearAll (fun r : Require => r.mod.path == p) (·.lineId) clearedRequire e.f.require with
  | error err => simp [hr] at h
  | ok r =>
    rcases r with ⟨l', dead⟩
    simp only [hr, pure, Except.pure, Except.ok.injEq] at h
    subst h
    refine ⟨(markAll_spec dead e.f.syn e.next hi.tree).1, ?_, ht⟩
    have := Match.clearSeg (fun r : Require => r.mod.path == p) (·.lineId) clearedRequire liveRq entRq (fun _ => rfl) rfl
      (fun x hx => ne_nil_of_beq hp hx) hi.tree (by rw [← entries_require]; exact hi.mtch) hr
    rw [entries_require]; exact this

theorem dropExclude_inv (e e' : EFile) (p v : Bytes) (hp : p ≠ []) (hi : Inv e) (h : dropExclude e p v = .ok e') : Inv e' := by
  have ht := (dropExclude_abs e e' p v hi.tinv h).2
  unfold dropExclude at h
  simp only [bind, Except.bind] at h
  cases hr : clearAll (fun x : Exclude => x.mod.path == p && x.mod.version == v) (·.lineId) clearedExclude e.f.exclude with
  | error err => simp [hr] at h
  | ok r =>
    rcases r with ⟨l', dead⟩
    simp only [hr, pure, Except.pure, Except.ok.injEq] at h
    subst h
    refine ⟨(markAll_spec dead e.f.syn e.next hi.tree).1, ?_, ht⟩
    have := Match.clearSeg (fun x : Exclude => x.mod.path == p && x.mod.version == v) (·.lineId) clearedExclude liveX entX
      (fun _ => rfl) rfl (fun x hx => by simp only [Bool.and_eq_true] at hx; exact ne_nil_of_beq hp hx.1) hi.tree
      (by rw [← entries_exclude]; exact hi.mtch) hr
    rw [entries_exclude]; exact this

theorem dropReplace_inv (e e' : EFile) (op ov : Bytes) (hop : op ≠ []) (hi : Inv e) (h : dropReplace e op ov = .ok e') : Inv e' := by
  have ht := (dropReplace_abs e e' op ov hi.tinv h).2
  unfold dropReplace dropReplaceCore at h
  simp only [bind, Except.bind] at h
  cases hr : clearAll (fun r : Replace => r.old.path == op && r.old.version == ov) (·.lineId) clearedReplace e.f.replace with
  | error err => simp [hr] at h
  | ok r =>
    rcases r with ⟨l', dead⟩
    simp only [hr, pure, Except.pure, Except.ok.injEq] at h
    subst h
    refine ⟨(markAll_spec dead e.f.syn e.next hi.tree).1, ?_, ht⟩
    have := Match.clearSeg (fun r : Replace => r.old.path == op && r.old.version == ov) (·.lineId) clearedReplace liveRp entRp
      (fun _ => rfl) rfl (fun x hx => by simp only [Bool.and_eq_true] at hx; exact ne_nil_of_beq hop hx.1) hi.tree
      (by rw [← entries_replace]; exact hi.mtch) hr
    rw [entries_replace]; exact this

theorem dropRetract_inv (e e' : EFile) (lo hi' : Bytes) (hne : lo ≠ [] ∨ hi' ≠ []) (hi : Inv e)
    (h : dropRetract e { low := lo, high := hi' } = .ok e') : Inv e' := by
  have ht := (dropRetract_abs e e' lo hi' hi.tinv h).2
  unfold dropRetract at h
  simp only [bind, Except.bind] at h
  cases hr : clearAll (fun r : Retract => r.interval == ({ low := lo, high := hi' } : VersionInterval)) (·.lineId) clearedRetract e.f.retract with
  | error err => simp [hr] at h
  | ok r =>
    rcases r with ⟨l', dead⟩
    simp only [hr, pure, Except.pure, Except.ok.injEq] at h
    subst h
    refine ⟨(markAll_spec dead e.f.syn e.next hi.tree).1, ?_, ht⟩
    have := Match.clearSeg (fun r : Retract => r.interval == ({ low := lo, high := hi' } : VersionInterval)) (·.lineId) clearedRetract
      liveRt entRt (fun _ => rfl) rfl
      (fun x hx => by
        have : x.interval = { low := lo, high := hi' } := eq_of_beq hx
        simp only [liveRt, this]
        rcases hne with h1 | h1
        · simp [ne_nil_live h1]
        · simp [ne_nil_live h1])
      hi.tree (by rw [← entries_retract]; exact hi.mtch) hr
    rw [entries_retract]; exact this

theorem dropTool_inv (e e' : EFile) (p : Bytes) (hp : p ≠ []) (hi : Inv e) (h : dropTool e p = .ok e') : Inv e' := by
  have ht := (dropTool_abs e e' p hi.tinv h).2
  unfold dropTool at h
  simp only [bind, Except.bind] at h
  cases hr : clearAll (fun t : Tool => t.path == p) (·.lineId) clearedTool e.f.tool with
  | error err => simp [hr] at h
  | ok r =>
    rcases r with ⟨l', dead⟩
    simp only [hr, pure, Except.pure, Except.ok.injEq] at h
    subst h
    refine ⟨(markAll_spec dead e.f.syn e.next hi.tree).1, ?_, ht⟩
    have := Match.clearSeg (fun t : Tool => t.path == p) (·.lineId) clearedTool liveT entT (fun _ => rfl) rfl
      (fun x hx => ne_nil_of_beq hp hx) hi.tree (by rw [← entries_tool]; exact hi.mtch) hr
    rw [entries_tool]; exact this

theorem addNewRequire_inv (e : EFile) (p v : Bytes) (b : Bool) (hp : p ≠ []) (hi : Inv e) : Inv (addNewRequire e p v b) := by
  rcases addNewRequire_tree e.f.syn e.next p v b hi.tree hi.tinv.pos hi.view2 with ⟨hv, hw⟩
  refine ⟨hw, ?_, (addNewRequire_abs e p v b hp hi.tinv).2.1⟩
  have := Match.appendSeg (·.lineId) liveRq entRq (fun _ => rfl)
    (x := ({ mod := { path := p, version := v }, indirect := b, lineId := e.next } : Require))
    (ne_nil_live hp) [B "require", autoQuote p, v] (sfxAfter b []) rfl
    (by rw [← entries_require]; exact hi.mtch) (by rw [← entries_require]; exact hi.fresh) hv
  show Match (entries (addNewRequire e p v b).f) _
  rw [entries_require]; exact this

theorem addRequire_inv (e e' : EFile) (p v : Bytes) (hp : p ≠ []) (hi : Inv e) (h : addRequire e p v = .ok e') : Inv e' := by
  have ht := (addRequire_abs e e' p v hp hi.tinv h).2
  unfold addRequire at h
  simp only [bind, Except.bind] at h
  cases hr : firstRest (fun r : Require => r.mod.path == p) (·.lineId)
      (fun r => { r with mod := { r.mod with version := v } }) clearedRequire e.f.require true with
  | error err => simp [hr] at h
  | ok r =>
    rcases r with ⟨l', first, dead⟩
    simp only [hr] at h
    cases first with
    | some i =>
      simp only [pure, Except.pure, Except.ok.injEq] at h
      subst h
      refine ⟨(markAll_spec dead _ e.next (hi.tree.updateTokens i _)).1, ?_, ht⟩
      have := Match.updSeg (fun r : Require => r.mod.path == p) (·.lineId)
        (fun r => { r with mod := { r.mod with version := v } }) clearedRequire liveRq entRq (fun _ => rfl) rfl
        (fun x hx => ne_nil_of_beq hp hx) (fun x hx => ne_nil_of_beq hp hx) (fun _ => rfl)
        (B "require") (autoQuote p) [v]
        (fun x hx t0 s ha => by
          simp only [entRq] at ha ⊢
          refine ⟨by rw [ha]; rfl, ?_⟩
          rw [eq_of_beq hx])
        hi.tree (by rw [← entries_require]; exact hi.mtch) hr
      rw [entries_require]; exact this
    | none =>
      simp only [pure, Except.pure, Except.ok.injEq] at h
      subst h
      exact addNewRequire_inv e p v false hp hi

theorem addGodebug_inv (e e' : EFile) (k v : Bytes) (hk : k ≠ []) (hi : Inv e) (h : addGodebug e k v = .ok e') : Inv e' := by
  have ht := (addGodebug_abs e e' k v hk hi.tinv h).2
  unfold addGodebug addGodebugCore at h
  simp only [bind, Except.bind] at h
  cases hr : firstRest (fun g : Godebug => g.key == k) (·.lineId) (fun g => { g with value := v }) clearedGodebug e.f.godebug true with
  | error err => simp [hr] at h
  | ok r =>
    rcases r with ⟨l', first, dead⟩
    simp only [hr] at h
    cases first with
    | some i =>
      simp only [pure, Except.pure, Except.ok.injEq] at h
      subst h
      refine ⟨(markAll_spec dead _ e.next (hi.tree.updateTokens i _)).1, ?_, ht⟩
      have := Match.updSeg (fun g : Godebug => g.key == k) (·.lineId) (fun g => { g with value := v }) clearedGodebug
        liveG entG (fun _ => rfl) rfl
        (fun x hx => ne_nil_of_beq hk hx) (fun x hx => ne_nil_of_beq hk hx) (fun _ => rfl)
        (B "godebug") (k ++ [61] ++ v) []
        (fun x hx t0 s ha => by
          simp only [entG] at ha ⊢
          refine ⟨by rw [ha]; rfl, ?_⟩
          rw [eq_of_beq hx])
        hi.tree (by rw [← entries_godebug]; exact hi.mtch) hr
      rw [entries_godebug]; exact this
    | none =>
      simp only [pure, Except.pure, Except.ok.injEq] at h
      subst h
      rcases firstRest_none _ _ _ _ _ _ _ hr with ⟨_, rfl, _⟩
      rcases addLine_spec e.f.syn none e.next (B "godebug") (k ++ [61] ++ v) [] hi.tree.shape hi.view2 with ⟨p1, p2, p3⟩
      refine ⟨hi.tree.of_added hi.tinv.pos p2 p3, ?_, ht⟩
      have := Match.appendSeg (·.lineId) liveG entG (fun _ => rfl)
        (x := ({ key := k, value := v, lineId := e.next } : Godebug))
        (ne_nil_live hk) [B "godebug", k ++ [61] ++ v] [] rfl
        (by rw [← entries_godebug]; exact hi.mtch) (by rw [← entries_godebug]; exact hi.fresh) p1
      rw [entries_godebug]; exact this

theorem addReplace_inv (e e' : EFile) (op ov np nv : Bytes) (hop : op ≠ []) (hi : Inv e)
    (h : addReplace e op ov np nv = .ok e') : Inv e' := by
  have ht := (addReplace_abs e e' op ov np nv hop hi.tinv h).2
  unfold addReplace addReplaceCore at h
  simp only [bind, Except.bind] at h
  rw [replaceToks_eq] at h
  cases hr : firstRest (fun r : Replace => r.old.path == op && (ov.isEmpty || r.old.version == ov)) (·.lineId)
      (fun r => { r with old := { path := op, version := ov }, new := { path := np, version := nv } }) clearedReplace e.f.replace true with
  | error err => simp [hr] at h
  | ok r =>
    rcases r with ⟨l', first, dead⟩
    simp only [hr] at h
    have hml : ∀ x : Replace, (x.old.path == op && (ov.isEmpty || x.old.version == ov)) = true → liveRp x = true := by
      intro x hx
      simp only [Bool.and_eq_true] at hx
      exact ne_nil_of_beq hop hx.1
    cases first with
    | some i =>
      simp only [pure, Except.pure, Except.ok.injEq] at h
      subst h
      refine ⟨(markAll_spec dead _ e.next (hi.tree.updateTokens i _)).1, ?_, ht⟩
      have := Match.updSeg (fun r : Replace => r.old.path == op && (ov.isEmpty || r.old.version == ov)) (·.lineId)
        (fun r => { r with old := { path := op, version := ov }, new := { path := np, version := nv } }) clearedReplace
        liveRp entRp (fun _ => rfl) rfl hml (fun x _ => ne_nil_live hop) (fun _ => rfl)
        (B "replace") (autoQuote op) ((if ov.isEmpty then [] else [ov]) ++ [B "=>", autoQuote np] ++ (if nv.isEmpty then [] else [nv]))
        (fun x hx t0 s ha => by
          simp only [entRp] at ha ⊢
          refine ⟨by rw [ha]; simp [replaceToks], ?_⟩
          simp [replaceToks])
        hi.tree (by rw [← entries_replace]; exact hi.mtch) hr
      rw [entries_replace]; exact this
    | none =>
      simp only [pure, Except.pure, Except.ok.injEq] at h
      subst h
      rcases firstRest_none _ _ _ _ _ _ _ hr with ⟨_, rfl, _⟩
      rcases addLinePtr_spec e.f.syn (lastWith (fun r : Replace => r.old.path == op) (·.lineId) e.f.replace none) e.next
        (B "replace") (autoQuote op) ((if ov.isEmpty then [] else [ov]) ++ [B "=>", autoQuote np] ++ (if nv.isEmpty then [] else [nv]))
        hi.tree.shape hi.view2 with ⟨p1, p2, p3⟩
      refine ⟨hi.tree.of_added hi.tinv.pos p2 p3, ?_, ht⟩
      have := Match.appendSeg (·.lineId) liveRp entRp (fun _ => rfl)
        (x := ({ old := { path := op, version := ov }, new := { path := np, version := nv }, lineId := e.next } : Replace))
        (ne_nil_live hop) _ [] (by simp [entRp, replaceToks])
        (by rw [← entries_replace]; exact hi.mtch) (by rw [← entries_replace]; exact hi.fresh) p1
      rw [entries_replace]; exact this

theorem addExclude_inv (e e' : EFile) (p v : Bytes) (hp : p ≠ []) (hi : Inv e) (h : addExclude e p v = .ok e') : Inv e' := by
  have ht := ((addExclude_abs e p v hp hi.tinv).1 e' h).2.2
  unfold addExclude at h
  split at h
  · cases h
  · split at h
    · simp only [Except.ok.injEq] at h; subst h; exact hi
    · simp only [Except.ok.injEq] at h; subst h
      rcases addLinePtr_spec e.f.syn (lastWith (fun x : Exclude => x.mod.path == p) (·.lineId) e.f.exclude none) e.next
        (B "exclude") (autoQuote p) [v] hi.tree.shape hi.view2 with ⟨p1, p2, p3⟩
      refine ⟨hi.tree.of_added hi.tinv.pos p2 p3, ?_, ht⟩
      have := Match.appendSeg (·.lineId) liveX entX (fun _ => rfl)
        (x := ({ mod := { path := p, version := v }, lineId := e.next } : Exclude))
        (ne_nil_live hp) [B "exclude", autoQuote p, v] [] rfl
        (by rw [← entries_exclude]; exact hi.mtch) (by rw [← entries_exclude]; exact hi.fresh) p1
      rw [entries_exclude]; exact this

theorem addModuleStmt_inv (e : EFile) (p : Bytes) (hi : Inv e) : Inv (addModuleStmt e p) := by
  have ht := (addModuleStmt_abs e p hi.tinv).2
  have hm0 := hi.mtch
  rw [entries_module] at hm0
  unfold addModuleStmt at ht ⊢
  cases hm : e.f.module with
  | none =>
    simp only [hm] at ht ⊢
    rw [hm] at hm0
    rcases addLine_spec e.f.syn none e.next (B "module") (autoQuote p) [] hi.tree.shape hi.view2 with ⟨p1, p2, p3⟩
    refine ⟨hi.tree.of_added hi.tinv.pos p2 p3, ?_, ht⟩
    have := Match.appendSeg (·.lineId) (fun _ => true) entM (fun _ => rfl) (L := [])
      (x := ({ mod := { path := p }, lineId := e.next } : Module)) rfl [B "module", autoQuote p] [] rfl hm0
      (by have := hi.fresh; rw [entries_module, hm] at this; exact this) p1
    rw [entries_module]; exact this
  | some m =>
    simp only [hm] at ht ⊢
    rw [hm] at hm0
    refine ⟨hi.tree.updateTokens _ _, ?_, ht⟩
    have := Match.updOne (en := entM m) (en' := entM { m with mod := { m.mod with path := p } }) hi.tree hm0 rfl
      (B "module") (autoQuote p) [] (fun t0 s ha => by simp only [entM] at ha ⊢; exact ⟨by rw [ha]; rfl, trivial⟩)
    rw [entries_module]; exact this

theorem addGoStmt_inv (e e' : EFile) (v : Bytes) (hi : Inv e) (h : addGoStmt e v = .ok e') : Inv e' := by
  have ht := ((addGoStmt_abs e v hi.tinv).1 e' h).2.2
  have hm0 := hi.mtch
  rw [entries_go] at hm0
  unfold addGoStmt at h
  split at h
  · cases h
  · cases hg : e.f.go with
    | none =>
      simp only [hg, Except.ok.injEq] at h
      subst h
      rw [hg] at hm0
      rcases addLine_spec e.f.syn (e.f.module.map (·.lineId)) e.next (B "go") v [] hi.tree.shape hi.view2 with ⟨p1, p2, p3⟩
      refine ⟨hi.tree.of_added hi.tinv.pos p2 p3, ?_, ht⟩
      have := Match.appendSeg (·.lineId) (fun _ => true) entGo (fun _ => rfl) (L := [])
        (x := ({ version := v, lineId := e.next } : Go)) rfl [B "go", v] [] rfl hm0
        (by have := hi.fresh; rw [entries_go, hg] at this; exact this) p1
      rw [entries_go]; exact this
    | some g =>
      simp only [hg, Except.ok.injEq] at h
      subst h
      rw [hg] at hm0
      refine ⟨hi.tree.updateTokens _ _, ?_, ht⟩
      have := Match.updOne (en := entGo g) (en' := entGo { g with version := v }) hi.tree hm0 rfl
        (B "go") v [] (fun t0 s ha => by simp only [entGo] at ha ⊢; exact ⟨by rw [ha]; rfl, trivial⟩)
      rw [entries_go]; exact this

theorem addToolchainStmt_inv (e e' : EFile) (n : Bytes) (hi : Inv e) (h : addToolchainStmt e n = .ok e') : Inv e' := by
  have ht := ((addToolchainStmt_abs e n hi.tinv).1 e' h).2.2
  have hm0 := hi.mtch
  rw [entries_toolchain] at hm0
  unfold addToolchainStmt at h
  split at h
  · cases h
  · cases hg : e.f.toolchain with
    | none =>
      simp only [hg, Except.ok.injEq] at h
      subst h
      rw [hg] at hm0
      rcases addLine_spec e.f.syn (match e.f.go with | some g => some g.lineId | none => e.f.module.map (·.lineId)) e.next
        (B "toolchain") n [] hi.tree.shape hi.view2 with ⟨p1, p2, p3⟩
      refine ⟨hi.tree.of_added hi.tinv.pos p2 p3, ?_, ht⟩
      have := Match.appendSeg (·.lineId) (fun _ => true) entTc (fun _ => rfl) (L := [])
        (x := ({ name := n, lineId := e.next } : Toolchain)) rfl [B "toolchain", n] [] rfl hm0
        (by have := hi.fresh; rw [entries_toolchain, hg] at this; exact this) p1
      rw [entries_toolchain]; exact this
    | some g =>
      simp only [hg, Except.ok.injEq] at h
      subst h
      rw [hg] at hm0
      refine ⟨hi.tree.updateTokens _ _, ?_, ht⟩
      have := Match.updOne (en := entTc g) (en' := entTc { g with name := n }) hi.tree hm0 rfl
        (B "toolchain") n [] (fun t0 s ha => by simp only [entTc] at ha ⊢; exact ⟨by rw [ha]; rfl, trivial⟩)
      rw [entries_toolchain]; exact this

theorem dropGoStmt_inv (e : EFile) (hi : Inv e) : Inv (dropGoStmt e) := by
  have ht := (dropGoStmt_abs e hi.tinv).2
  have hm0 := hi.mtch
  rw [entries_go] at hm0
  unfold dropGoStmt at ht ⊢
  cases hg : e.f.go with
  | none => simp only [hg]; exact hi
  | some g =>
    simp only [hg] at ht ⊢
    rw [hg] at hm0
    refine ⟨hi.tree.markRemoved _, ?_, ht⟩
    have := Match.dropOne (en := entGo g) hi.tree hm0
    rw [entries_go]; exact this

theorem dropToolchainStmt_inv (e : EFile) (hi : Inv e) : Inv (dropToolchainStmt e) := by
  have ht := (dropToolchainStmt_abs e hi.tinv).2
  have hm0 := hi.mtch
  rw [entries_toolchain] at hm0
  unfold dropToolchainStmt at ht ⊢
  cases hg : e.f.toolchain with
  | none => simp only [hg]; exact hi
  | some g =>
    simp only [hg] at ht ⊢
    rw [hg] at hm0
    refine ⟨hi.tree.markRemoved _, ?_, ht⟩
    have := Match.dropOne (en := entTc g) hi.tree hm0
    rw [entries_toolchain]; exact this

theorem addRetract_inv (e e' : EFile) (vi : VersionInterval) (why : Bytes) (hi : Inv e)
    (h : addRetract e vi why = .ok e') : Inv e' := by
  have ht := ((addRetract_abs e vi why hi.tinv).1 e' h).2.2
  have hok := ((addRetract_abs e vi why hi.tinv).1 e' h).1
  rw [addRetract_eq] at h
  unfold addRetractP at h
  simp only [Bool.and_eq_true] at hok
  simp only [hok.1, hok.2, Bool.not_true, Bool.false_eq_true, if_false, Except.ok.injEq] at h
  subst h
  have hlive := checkCanonicalVersion_ne_nil hok.2
  -- the two token shapes
  have key : ∀ (verb t : Bytes) (rest : List Bytes), (entRt { interval := vi, rationale := [], lineId := e.next }).acc (verb :: t :: rest) [] →
      ∀ rat, Inv ⟨{ e.f with
        retract := e.f.retract ++ [{ interval := vi, rationale := rat, lineId := e.next }],
        syn := (addLine e.f.syn none (verb :: t :: rest) e.next).updateLine e.next fun l =>
          { l with comments := { l.comments with before := l.comments.before ++
            (if why.isEmpty then [] else (splitOn 10 why).map fun line => { token := B "// " ++ line }) } } }, e.next + 1⟩ →
      True := fun _ _ _ _ _ _ => trivial
  clear key
  have build : ∀ (verb t : Bytes) (rest : List Bytes) (rat : Bytes),
      (entRt { interval := vi, rationale := rat, lineId := e.next }).acc (verb :: t :: rest) [] →
      TreeWF ((addLine e.f.syn none (verb :: t :: rest) e.next).updateLine e.next fun l =>
          { l with comments := { l.comments with before := l.comments.before ++
            (if why.isEmpty then [] else (splitOn 10 why).map fun line => { token := B "// " ++ line }) } }).stmts (e.next + 1) ∧
      Match (entries { e.f with
          retract := e.f.retract ++ [{ interval := vi, rationale := rat, lineId := e.next }],
          syn := (addLine e.f.syn none (verb :: t :: rest) e.next).updateLine e.next fun l =>
            { l with comments := { l.comments with before := l.comments.before ++
              (if why.isEmpty then [] else (splitOn 10 why).map fun line => { token := B "// " ++ line }) } } })
        (view ((addLine e.f.syn none (verb :: t :: rest) e.next).updateLine e.next fun l =>
          { l with comments := { l.comments with before := l.comments.before ++
            (if why.isEmpty then [] else (splitOn 10 why).map fun line => { token := B "// " ++ line }) } }).stmts) := by
    intro verb t rest rat hacc
    rcases addLine_spec e.f.syn none e.next verb t rest hi.tree.shape hi.view2 with ⟨p1, p2, p3⟩
    have hw1 := hi.tree.of_added hi.tinv.pos p2 p3
    refine ⟨hw1.updateLine e.next _ (fun _ => rfl) (fun _ => rfl), ?_⟩
    have hv := view_updateLine_suffix (addLine e.f.syn none (verb :: t :: rest) e.next) e.next
      (fun l => { l with comments := { l.comments with before := l.comments.before ++
        (if why.isEmpty then [] else (splitOn 10 why).map fun line => { token := B "// " ++ line }) } }) (fun s => s)
      hw1.nodup (fun _ => rfl) (fun _ => rfl) (fun _ => rfl)
    rw [hv]
    have hsame : ((view (addLine e.f.syn none (verb :: t :: rest) e.next).stmts).map fun v =>
        if v.id == e.next then { v with suffix := v.suffix } else v) = view (addLine e.f.syn none (verb :: t :: rest) e.next).stmts := by
      calc _ = (view (addLine e.f.syn none (verb :: t :: rest) e.next).stmts).map (fun v => v) := by
            apply List.map_congr_left; intro v _; split <;> rfl
        _ = _ := by simp
    rw [hsame]
    have := Match.appendSeg (·.lineId) liveRt entRt (fun _ => rfl)
      (x := ({ interval := vi, rationale := rat, lineId := e.next } : Retract))
      (by simp [liveRt, hlive]) (verb :: t :: rest) [] hacc
      (by rw [← entries_retract]; exact hi.mtch) (by rw [← entries_retract]; exact hi.fresh) p1
    rw [entries_retract]; exact this
  by_cases hlh : (vi.low == vi.high) = true
  · simp only [hlh, if_true]
    rcases build (B "retract") (autoQuote vi.low) [] _ (Or.inl ⟨_, rfl, Or.inr rfl, eq_of_beq hlh⟩) with ⟨h1, h2⟩
    simp only [hlh, if_true] at ht
    exact ⟨h1, h2, ht⟩
  · simp only [hlh, Bool.false_eq_true, if_false]
    rcases build (B "retract") [91] [autoQuote vi.low, [44], autoQuote vi.high, [93]] _
      (Or.inr ⟨_, _, rfl, Or.inr rfl, Or.inr rfl⟩) with ⟨h1, h2⟩
    simp only [hlh, Bool.false_eq_true, if_false] at ht
    exact ⟨h1, h2, ht⟩

theorem cleanup_inv (e : EFile) (hi : Inv e) : Inv (cleanup e) := by
  rcases cleanupStmts_spec e.f.syn.stmts hi.tree.shape with ⟨c1, c2, c3⟩
  refine ⟨hi.tree.of_sublist c2 c3, ?_, (cleanup_abs e hi.tinv).2⟩
  show Match (entries (cleanup e).f) (view (cleanupStmts e.f.syn.stmts))
  rw [c1]
  have : entries (cleanup e).f = entries e.f := by
    simp only [entries, cleanup]
    have h1 : entsOf liveG entG (e.f.godebug.filter fun x => !x.key.isEmpty) = entsOf liveG entG e.f.godebug :=
      entsOf_filter_live liveG entG e.f.godebug
    have h2 : entsOf liveRq entRq (e.f.require.filter fun x => !x.mod.path.isEmpty) = entsOf liveRq entRq e.f.require :=
      entsOf_filter_live liveRq entRq e.f.require
    have h3 : entsOf liveX entX (e.f.exclude.filter fun x => !x.mod.path.isEmpty) = entsOf liveX entX e.f.exclude :=
      entsOf_filter_live liveX entX e.f.exclude
    have h4 : entsOf liveRp entRp (e.f.replace.filter fun x => !x.old.path.isEmpty) = entsOf liveRp entRp e.f.replace :=
      entsOf_filter_live liveRp entRp e.f.replace
    have h5 : entsOf liveRt entRt (e.f.retract.filter fun r => !r.interval.low.isEmpty || !r.interval.high.isEmpty)
        = entsOf liveRt entRt e.f.retract := entsOf_filter_live liveRt entRt e.f.retract
    have h6 : entsOf liveT entT (e.f.tool.filter fun x => !x.path.isEmpty) = entsOf liveT entT e.f.tool :=
      entsOf_filter_live liveT entT e.f.tool
    rw [h1, h2, h3, h4, h5, h6]
  rw [this]; exact hi.mtch

theorem sortBlocks_inv (e : EFile) (hi : Inv e) : Inv (sortBlocks e) := by
  have ht := (sortBlocks_abs e hi.tinv).2
  rcases sortBlocks_eq e with ⟨sem, heq⟩
  rw [heq] at ht ⊢
  rcases dropKilled_spec (kill3 e.f) e.f.syn.stmts hi.tree.shape with ⟨d1, d2, d3⟩
  rcases sortStmts_spec sem false _ d3 with ⟨s1, s2, s3⟩
  have hw2 := hi.tree.of_sublist d2 d3
  refine ⟨hw2.of_perm s2 s3, ?_, ht⟩
  refine Match.perm ?_ s1
  rw [d1]
  -- disjointness of the exclude / replace / tool ids
  rcases List.nodup_append.1 hi.tinv.nodup with ⟨_, ndRT, disX⟩
  rcases List.nodup_append.1 ndRT with ⟨_, _, disRT⟩
  have hm := hi.mtch
  -- an entry's id is not the nil id
  have hpos : ∀ en ∈ entries e.f, en.id ≠ 0 := by
    intro en hen
    rcases hm.cover en hen with ⟨v, hv, hid, _⟩
    rw [← hid]; exact hi.tree.pos _ (view_id_mem_treeIds hv)
  -- ids in the kill list belong to exclude / replace / tool entries
  have hXk : ∀ x ∈ e.f.exclude, liveX x = true → (kill3 e.f).contains x.lineId = (kill1 e.f).contains x.lineId := by
    intro x hx hl
    have h1 : x.lineId ∉ killEarlier e.f.replace :=
      kill_disjoint hi.tinv.wfR hi.tinv.wfX (fun a ha b hb => (disX b hb a (List.mem_append_left _ ha)).symm)
        (fun i hi' => killEarlier_subset _ i hi') x hx hl
    have h2 : x.lineId ∉ killLater (fun t : Tool => t.path) (·.lineId) e.f.tool [] :=
      kill_disjoint hi.tinv.wfT hi.tinv.wfX (fun a ha b hb => (disX b hb a (List.mem_append_right _ ha)).symm)
        (fun i hi' => killLater_subset _ _ _ _ i hi') x hx hl
    simp only [kill3, kill2, List.contains_append]
    have e1 : (killEarlier e.f.replace).contains x.lineId = false := by simpa using h1
    have e2 : (killLater (fun t : Tool => t.path) (·.lineId) e.f.tool []).contains x.lineId = false := by simpa using h2
    rw [e1, e2]; simp
  have hRk : ∀ r ∈ e.f.replace, liveRp r = true → (kill3 e.f).contains r.lineId = (kill2 e.f).contains r.lineId := by
    intro r hr hl
    have h2 : r.lineId ∉ killLater (fun t : Tool => t.path) (·.lineId) e.f.tool [] :=
      kill_disjoint hi.tinv.wfT hi.tinv.wfR (fun a ha b hb => (disRT b hb a ha).symm)
        (fun i hi' => killLater_subset _ _ _ _ i hi') r hr hl
    simp only [kill3, List.contains_append]
    have e2 : (killLater (fun t : Tool => t.path) (·.lineId) e.f.tool []).contains r.lineId = false := by simpa using h2
    rw [e2]; simp
  -- entries outside the three lists are never killed
  have hother : ∀ en, (en ∈ segA_exclude e.f ∨ en ∈ entsOf liveRt entRt e.f.retract) → (kill3 e.f).contains en.id = false := by
    intro en hen
    have henE : en ∈ entries e.f := by
      rw [entries_exclude]
      rcases hen with h | h
      · exact List.mem_append_left _ h
      · exact List.mem_append_right _ (List.mem_append_right _ (by
          simp only [segC_exclude, List.mem_append]; exact Or.inr (Or.inl h)))
    cases hc : (kill3 e.f).contains en.id with
    | false => rfl
    | true =>
      exfalso
      have hmem : en.id ∈ kill3 e.f := by simpa using hc
      rcases kill3_src e.f _ hmem with ⟨z, hz, hzid⟩ | ⟨z, hz, hzid⟩ | ⟨z, hz, hzid⟩
      · have hlz : liveX z = true := by
          cases hl : liveX z with
          | true => rfl
          | false => exact absurd (hzid ▸ (hi.tinv.wfX z hz).2 hl) (hpos en henE)
        have := seg_disjoint (by rw [← entries_exclude]; exact hm) (en := en) (en' := entX z)
          (by rcases hen with h | h
              · exact Or.inl h
              · exact Or.inr (by simp only [segC_exclude, List.mem_append]; exact Or.inr (Or.inl h)))
          ((mem_entsOf liveX entX).2 ⟨z, hz, hlz, rfl⟩)
        exact this hzid.symm
      · have hlz : liveRp z = true := by
          cases hl : liveRp z with
          | true => rfl
          | false => exact absurd (hzid ▸ (hi.tinv.wfR z hz).2 hl) (hpos en henE)
        have := seg_disjoint (by rw [← entries_replace]; exact hm) (en := en) (en' := entRp z)
          (by rcases hen with h | h
              · exact Or.inl (by simp only [segA_replace, List.mem_append]; exact Or.inl h)
              · exact Or.inr (by simp only [segC_replace, List.mem_append]; exact Or.inl h))
          ((mem_entsOf liveRp entRp).2 ⟨z, hz, hlz, rfl⟩)
        exact this hzid.symm
      · have hlz : liveT z = true := by
          cases hl : liveT z with
          | true => rfl
          | false => exact absurd (hzid ▸ (hi.tinv.wfT z hz).2 hl) (hpos en henE)
        have := seg_disjoint (by rw [← entries_tool]; exact hm) (en := en) (en' := entT z)
          (by rcases hen with h | h
              · exact Or.inl (by simp only [segA_tool, segA_retract, segA_replace, List.mem_append]; exact Or.inl (Or.inl (Or.inl h)))
              · exact Or.inl (by simp only [segA_tool, List.mem_append]; exact Or.inr h))
          ((mem_entsOf liveT entT).2 ⟨z, hz, hlz, rfl⟩)
        exact this hzid.symm
  -- the entries after SortBlocks are the entries that were not killed
  have hent : entries { e.f with
      exclude := e.f.exclude.filter (fun x => !(kill1 e.f).contains x.lineId),
      replace := e.f.replace.filter (fun x => !(kill2 e.f).contains x.lineId),
      tool := e.f.tool.filter (fun t => !(kill3 e.f).contains t.lineId),
      syn := { e.f.syn with stmts := sortStmts sem false (dropKilled (kill3 e.f) e.f.syn.stmts) } }
      = (entries e.f).filter (fun en => !(kill3 e.f).contains en.id) := by
    rw [entries_exclude, entries_exclude]
    simp only [List.filter_append]
    have hA : (segA_exclude e.f).filter (fun en => !(kill3 e.f).contains en.id) = segA_exclude e.f := by
      apply List.filter_eq_self.2
      intro en hen; rw [hother en (Or.inl hen)]; rfl
    have hRt : (entsOf liveRt entRt e.f.retract).filter (fun en => !(kill3 e.f).contains en.id) = entsOf liveRt entRt e.f.retract := by
      apply List.filter_eq_self.2
      intro en hen; rw [hother en (Or.inr hen)]; rfl
    have hX : entsOf liveX entX (e.f.exclude.filter (fun x => !(kill1 e.f).contains x.lineId))
        = (entsOf liveX entX e.f.exclude).filter (fun en => !(kill3 e.f).contains en.id) := by
      unfold entsOf
      rw [List.filter_map, List.filter_filter, List.filter_filter]
      congr 1
      apply List.filter_congr
      intro x hx
      simp only [Function.comp, entX]
      by_cases hl : liveX x = true
      · rw [hXk x hx hl, hl]; simp
      · simp only [Bool.not_eq_true] at hl; simp [hl]
    have hR : entsOf liveRp entRp (e.f.replace.filter (fun x => !(kill2 e.f).contains x.lineId))
        = (entsOf liveRp entRp e.f.replace).filter (fun en => !(kill3 e.f).contains en.id) := by
      unfold entsOf
      rw [List.filter_map, List.filter_filter, List.filter_filter]
      congr 1
      apply List.filter_congr
      intro x hx
      simp only [Function.comp, entRp]
      by_cases hl : liveRp x = true
      · rw [hRk x hx hl, hl]; simp
      · simp only [Bool.not_eq_true] at hl; simp [hl]
    have hT : entsOf liveT entT (e.f.tool.filter (fun t => !(kill3 e.f).contains t.lineId))
        = (entsOf liveT entT e.f.tool).filter (fun en => !(kill3 e.f).contains en.id) := by
      unfold entsOf
      rw [List.filter_map, List.filter_filter, List.filter_filter]
      congr 1
      apply List.filter_congr
      intro x _
      simp only [Function.comp, entT]
      exact Bool.and_comm _ _
    simp only [segC_exclude, List.filter_append, hA, hRt, ← hX, ← hR, ← hT]
    rfl
  rw [hent]
  exact hm.filter (kill3 e.f)

theorem addTool_inv (e : EFile) (p : Bytes) (hp : p ≠ []) (hi : Inv e) : Inv (addTool e p) := by
  unfold addTool
  split
  · exact hi
  · apply sortBlocks_inv
    rcases addLine_spec e.f.syn none e.next (B "tool") p [] hi.tree.shape hi.view2 with ⟨p1, p2, p3⟩
    have hmid : TInv (⟨{ e.f with tool := e.f.tool ++ [{ path := p, lineId := e.next }], syn := addLine e.f.syn none [B "tool", p] e.next }, e.next + 1⟩ : EFile) := by
      have hti := hi.tinv
      refine TInv.of_sublist_fresh hti hti.wfX hti.wfR
        (IdWF_append _ _ hti.wfT (IdWF_single _ _ _ (ne_nil_live hp) (Nat.ne_of_gt hti.pos))) _ (List.Sublist.refl _) ?_ (Nat.lt_succ_self _)
      simp only [idsOf, liveIds_append]
      have : liveIds liveT (·.lineId) [({ path := p, lineId := e.next } : Tool)] = [e.next] := by
        simp [liveIds, liveT, ne_nil_live hp]
      rw [this, ← List.append_assoc, ← List.append_assoc]
      exact (List.perm_middle).trans (by simp)
    refine ⟨hi.tree.of_added hi.tinv.pos p2 p3, ?_, hmid⟩
    have := Match.appendSeg (·.lineId) liveT entT (fun _ => rfl)
      (x := ({ path := p, lineId := e.next } : Tool))
      (ne_nil_live hp) [B "tool", p] [] ⟨p, rfl, Or.inl rfl⟩
      (by rw [← entries_tool]; exact hi.mtch) (by rw [← entries_tool]; exact hi.fresh) p1
    rw [entries_tool]; exact this

/-! ### one operation; no panic -/

/-- one operation preserves the invariant -/
theorem applyMod_inv (e e' : EFile) (op : Op) (hv : ValidArgsT op) (hi : Inv e) (h : applyMod e op = some (.ok e')) : Inv e' := by
  cases op with
  | addModule p => simp only [applyMod, Option.some.injEq, Except.ok.injEq] at h; subst h; exact addModuleStmt_inv e p hi
  | addGo v => simp only [applyMod, Option.some.injEq] at h; exact addGoStmt_inv e e' v hi h
  | dropGo => simp only [applyMod, Option.some.injEq, Except.ok.injEq] at h; subst h; exact dropGoStmt_inv e hi
  | addToolchain n => simp only [applyMod, Option.some.injEq] at h; exact addToolchainStmt_inv e e' n hi h
  | dropToolchain => simp only [applyMod, Option.some.injEq, Except.ok.injEq] at h; subst h; exact dropToolchainStmt_inv e hi
  | addGodebug k v => simp only [applyMod, Option.some.injEq] at h; exact addGodebug_inv e e' k v hv hi h
  | dropGodebug k => simp only [applyMod, Option.some.injEq] at h; exact dropGodebug_inv e e' k hv hi h
  | addRequire p v => simp only [applyMod, Option.some.injEq] at h; exact addRequire_inv e e' p v hv hi h
  | addNewRequire p v i =>
    simp only [applyMod, Option.some.injEq, Except.ok.injEq] at h; subst h; exact addNewRequire_inv e p v i hv hi
  | dropRequire p => simp only [applyMod, Option.some.injEq] at h; exact dropRequire_inv e e' p hv hi h
  | setRequire w r => exact absurd hv (by simp [ValidArgsT])
  | setRequireSeparateIndirect w r => exact absurd hv (by simp [ValidArgsT])
  | addExclude p v => simp only [applyMod, Option.some.injEq] at h; exact addExclude_inv e e' p v hv hi h
  | dropExclude p v => simp only [applyMod, Option.some.injEq] at h; exact dropExclude_inv e e' p v hv hi h
  | addReplace a b c d => simp only [applyMod, Option.some.injEq] at h; exact addReplace_inv e e' a b c d hv hi h
  | dropReplace a b => simp only [applyMod, Option.some.injEq] at h; exact dropReplace_inv e e' a b hv hi h
  | addRetract lo hi' why => simp only [applyMod, Option.some.injEq] at h; exact addRetract_inv e e' _ why hi h
  | dropRetract lo hi' => simp only [applyMod, Option.some.injEq] at h; exact dropRetract_inv e e' lo hi' hv hi h
  | addTool p => simp only [applyMod, Option.some.injEq, Except.ok.injEq] at h; subst h; exact addTool_inv e p hv hi
  | dropTool p => simp only [applyMod, Option.some.injEq] at h; exact dropTool_inv e e' p hv hi h
  | sortBlocks => simp only [applyMod, Option.some.injEq, Except.ok.injEq] at h; subst h; exact sortBlocks_inv e hi
  | cleanup => simp only [applyMod, Option.some.injEq, Except.ok.injEq] at h; subst h; exact cleanup_inv e hi
  | addUse d m => simp [applyMod] at h
  | addNewUse d m => simp [applyMod] at h
  | dropUse d => simp [applyMod] at h
  | setUse w rev => simp [applyMod] at h

/-- with the invariant, an entry of the `entries` list has a real line id -/
theorem Inv.entry_id_pos {e : EFile} (hi : Inv e) : ∀ en ∈ entries e.f, en.id ≠ 0 := by
  intro en hen
  rcases hi.mtch.cover en hen with ⟨v, hv, hid, _⟩
  rw [← hid]; exact hi.tree.pos _ (view_id_mem_treeIds hv)

theorem Inv.godebug_pos {e : EFile} (hi : Inv e) : ∀ x ∈ e.f.godebug, liveG x = true → x.lineId ≠ 0 := fun x hx hl =>
  hi.entry_id_pos (entG x) (by rw [entries_godebug]; exact List.mem_append_right _ (List.mem_append_left _ ((mem_entsOf liveG entG).2 ⟨x, hx, hl, rfl⟩)))

theorem Inv.require_pos {e : EFile} (hi : Inv e) : ∀ x ∈ e.f.require, liveRq x = true → x.lineId ≠ 0 := fun x hx hl =>
  hi.entry_id_pos (entRq x) (by rw [entries_require]; exact List.mem_append_right _ (List.mem_append_left _ ((mem_entsOf liveRq entRq).2 ⟨x, hx, hl, rfl⟩)))

theorem Inv.exclude_pos {e : EFile} (hi : Inv e) : ∀ x ∈ e.f.exclude, liveX x = true → x.lineId ≠ 0 := fun x hx hl =>
  hi.entry_id_pos (entX x) (by rw [entries_exclude]; exact List.mem_append_right _ (List.mem_append_left _ ((mem_entsOf liveX entX).2 ⟨x, hx, hl, rfl⟩)))

theorem Inv.replace_pos {e : EFile} (hi : Inv e) : ∀ x ∈ e.f.replace, liveRp x = true → x.lineId ≠ 0 := fun x hx hl =>
  hi.entry_id_pos (entRp x) (by rw [entries_replace]; exact List.mem_append_right _ (List.mem_append_left _ ((mem_entsOf liveRp entRp).2 ⟨x, hx, hl, rfl⟩)))

theorem Inv.retract_pos {e : EFile} (hi : Inv e) : ∀ x ∈ e.f.retract, liveRt x = true → x.lineId ≠ 0 := fun x hx hl =>
  hi.entry_id_pos (entRt x) (by rw [entries_retract]; exact List.mem_append_right _ (List.mem_append_left _ ((mem_entsOf liveRt entRt).2 ⟨x, hx, hl, rfl⟩)))

theorem Inv.tool_pos {e : EFile} (hi : Inv e) : ∀ x ∈ e.f.tool, liveT x = true → x.lineId ≠ 0 := fun x hx hl =>
  hi.entry_id_pos (entT x) (by rw [entries_tool]; exact List.mem_append_right _ (List.mem_append_left _ ((mem_entsOf liveT entT).2 ⟨x, hx, hl, rfl⟩)))

/-- **no panic**: every operation covered by the tree-level theorem terminates normally on a state satisfying the
    invariant -/
theorem applyMod_noPanic (e : EFile) (op : Op) (hv : ValidArgsT op) (hi : Inv e)
    (hmod : ∀ a b, op ≠ .addUse a b) (hmod2 : ∀ a b, op ≠ .addNewUse a b) (hmod3 : ∀ a, op ≠ .dropUse a)
    (hmod4 : ∀ a b, op ≠ .setUse a b) : NoPanic (applyMod e op) := by
  cases op with
  | addModule p => exact NoPanic.ok _
  | addGo v =>
    simp only [applyMod, addGoStmt]
    split
    · exact ⟨_, rfl, fun err h => by cases h; rfl⟩
    · split <;> exact NoPanic.ok _
  | dropGo => exact NoPanic.ok _
  | addToolchain n =>
    simp only [applyMod, addToolchainStmt]
    split
    · exact ⟨_, rfl, fun err h => by cases h; rfl⟩
    · split <;> exact NoPanic.ok _
  | dropToolchain => exact NoPanic.ok _
  | addGodebug k v =>
    simp only [applyMod, addGodebug, addGodebugCore, bind, Except.bind]
    rcases firstRest_total (fun g : Godebug => g.key == k) (·.lineId) (fun g => { g with value := v }) clearedGodebug e.f.godebug
      (fun x hx hm => hi.godebug_pos x hx (ne_nil_of_beq hv hm)) true with ⟨⟨l', first, dead⟩, hr⟩
    simp only [hr]
    cases first <;> exact NoPanic.ok _
  | dropGodebug k =>
    simp only [applyMod, dropGodebug, bind, Except.bind]
    rcases clearAll_total (fun g : Godebug => g.key == k) (·.lineId) clearedGodebug e.f.godebug
      (fun x hx hm => hi.godebug_pos x hx (ne_nil_of_beq hv hm)) with ⟨⟨l', dead⟩, hr⟩
    simp only [hr]; exact NoPanic.ok _
  | addRequire p v =>
    simp only [applyMod, addRequire, bind, Except.bind]
    rcases firstRest_total (fun r : Require => r.mod.path == p) (·.lineId)
      (fun r => { r with mod := { r.mod with version := v } }) clearedRequire e.f.require
      (fun x hx hm => hi.require_pos x hx (ne_nil_of_beq hv hm)) true with ⟨⟨l', first, dead⟩, hr⟩
    simp only [hr]
    cases first <;> exact NoPanic.ok _
  | addNewRequire p v i => exact NoPanic.ok _
  | dropRequire p =>
    simp only [applyMod, dropRequire, bind, Except.bind]
    rcases clearAll_total (fun r : Require => r.mod.path == p) (·.lineId) clearedRequire e.f.require
      (fun x hx hm => hi.require_pos x hx (ne_nil_of_beq hv hm)) with ⟨⟨l', dead⟩, hr⟩
    simp only [hr]; exact NoPanic.ok _
  | setRequire w r => exact absurd hv (by simp [ValidArgsT])
  | setRequireSeparateIndirect w r => exact absurd hv (by simp [ValidArgsT])
  | addExclude p v =>
    simp only [applyMod, addExclude]
    split
    · exact ⟨_, rfl, fun err h => by cases h; rfl⟩
    · split <;> exact NoPanic.ok _
  | dropExclude p v =>
    simp only [applyMod, dropExclude, bind, Except.bind]
    rcases clearAll_total (fun x : Exclude => x.mod.path == p && x.mod.version == v) (·.lineId) clearedExclude e.f.exclude
      (fun x hx hm => hi.exclude_pos x hx (by simp only [Bool.and_eq_true] at hm; exact ne_nil_of_beq hv hm.1)) with ⟨⟨l', dead⟩, hr⟩
    simp only [hr]; exact NoPanic.ok _
  | addReplace a b c d =>
    simp only [applyMod, addReplace, addReplaceCore, bind, Except.bind]
    rcases firstRest_total (fun r : Replace => r.old.path == a && (b.isEmpty || r.old.version == b)) (·.lineId)
      (fun r => { r with old := { path := a, version := b }, new := { path := c, version := d } }) clearedReplace e.f.replace
      (fun x hx hm => hi.replace_pos x hx (by simp only [Bool.and_eq_true] at hm; exact ne_nil_of_beq hv hm.1)) true
      with ⟨⟨l', first, dead⟩, hr⟩
    simp only [hr]
    cases first <;> exact NoPanic.ok _
  | dropReplace a b =>
    simp only [applyMod, dropReplace, dropReplaceCore, bind, Except.bind]
    rcases clearAll_total (fun r : Replace => r.old.path == a && r.old.version == b) (·.lineId) clearedReplace e.f.replace
      (fun x hx hm => hi.replace_pos x hx (by simp only [Bool.and_eq_true] at hm; exact ne_nil_of_beq hv hm.1)) with ⟨⟨l', dead⟩, hr⟩
    simp only [hr]; exact NoPanic.ok _
  | addRetract lo hi' why =>
    simp only [applyMod]
    rw [addRetract_eq]
    unfold addRetractP
    split
    · exact ⟨_, rfl, fun err h => by cases h; rfl⟩
    · split
      · exact ⟨_, rfl, fun err h => by cases h; rfl⟩
      · exact NoPanic.ok _
  | dropRetract lo hi' =>
    simp only [applyMod, dropRetract, bind, Except.bind]
    rcases clearAll_total (fun r : Retract => r.interval == ({ low := lo, high := hi' } : VersionInterval)) (·.lineId) clearedRetract e.f.retract
      (fun x hx hm => hi.retract_pos x hx (by
        have : x.interval = { low := lo, high := hi' } := eq_of_beq hm
        simp only [liveRt, this]
        rcases hv with h1 | h1
        · simp [ne_nil_live h1]
        · simp [ne_nil_live h1])) with ⟨⟨l', dead⟩, hr⟩
    simp only [hr]; exact NoPanic.ok _
  | addTool p => exact NoPanic.ok _
  | dropTool p =>
    simp only [applyMod, dropTool, bind, Except.bind]
    rcases clearAll_total (fun t : Tool => t.path == p) (·.lineId) clearedTool e.f.tool
      (fun x hx hm => hi.tool_pos x hx (ne_nil_of_beq hv hm)) with ⟨⟨l', dead⟩, hr⟩
    simp only [hr]; exact NoPanic.ok _
  | sortBlocks => exact NoPanic.ok _
  | cleanup => exact NoPanic.ok _
  | addUse d m => exact absurd rfl (hmod d m)
  | addNewUse d m => exact absurd rfl (hmod2 d m)
  | dropUse d => exact absurd rfl (hmod3 d)
  | setUse w rev => exact absurd rfl (hmod4 w rev)

theorem applyMod_noPanic' (e : EFile) (op : Op) (hv : ValidArgsT op) (hm : IsModOp op) (hi : Inv e) : NoPanic (applyMod e op) := by
  apply applyMod_noPanic e op hv hi <;> intros <;> intro h <;> subst h <;> exact hm

end ModVerif.Modfile.Edit.P
