/-
  Helper lemmas for Tie/FnEditSet.lean (the bulk setters `File.SetRequire` / `File.SetRequireSeparateIndirect` of the
  regenerated edit operations, Generated/FnEdit.lean): cursor lemmas for `for … range` loops, the request list
  (`ReqArgs`: the `[]*Require` argument as pointers to allocated `Require` objects ↔ the model's `List Want`), the local
  map `need` of SetRequire as the embedding `needG` of the model's association list, loop 1 of SetRequire = `needMap true`.
-/
import ModVerif.Proofs.TieFnEditRep
import ModVerif.Proofs.TieFnEditTreeA
set_option linter.unusedSimpArgs false
set_option linter.unusedVariables false
namespace ModVerif.Tie.FnEditSetA
open ModVerif ModVerif.GoRt ModVerif.Generated.Edit ModVerif.Tie.FnEditRep
open ModVerif.Modfile.Edit (Want needMap)

/-! ### cursors -/

theorem idxL_cursor {α : Type} (pre : List α) (x : α) (rest : List α) :
    idxL (pre ++ x :: rest) (pre.length : Int) = .ok x := by
  have : ¬ ((pre.length : Int) < 0) := by omega
  simp [idxL, this, pure, Except.pure]

theorem lt_len_cursor {α : Type} (pre : List α) (x : α) (rest : List α) :
    ((pre.length : Int) < len (pre ++ x :: rest)) := by
  simp [len_eq]; omega

theorem not_lt_len_end {α : Type} (pre : List α) : ¬ ((pre.length : Int) < len (pre ++ ([] : List α))) := by
  simp [len_eq]

theorem cursor_succ {α : Type} (pre : List α) (x : α) : ((pre.length : Int) + 1) = ((pre ++ [x]).length : Int) := by
  simp

/-! ### the request -/

/-- the `*Require` argument `p` carries the data of the wanted requirement `w` (its `Syntax` is not looked at) -/
def ReqArg (objs : List Require) (p : Int) (w : Want) : Prop :=
  ∃ o, heapGet objs p = .ok o ∧ o.Mod.Path = w.path ∧ o.Mod.Version = w.vers ∧ o.Indirect = w.indirect

/-- the `[]*Require` argument of the bulk setters ↔ the model's request -/
def ReqArgs (objs : List Require) : List Int → List Want → Prop
  | [], [] => True
  | p :: ps, w :: ws => ReqArg objs p w ∧ ReqArgs objs ps ws
  | _, _ => False

theorem ReqArgs.length {objs : List Require} : ∀ {ps : List Int} {ws : List Want}, ReqArgs objs ps ws → ps.length = ws.length
  | [], [], _ => rfl
  | _ :: _, _ :: _, r => by simp [ReqArgs.length r.2]
  | [], _ :: _, r => r.elim
  | _ :: _, [], r => r.elim

/-! ### the map `need` of SetRequire -/

def elemG (w : Want) : Bytes × ReqElem := (w.path, { version := w.vers, indirect := w.indirect })

/-- the association list of the model as the generated code's map (insertion order) -/
def needG (acc : List Want) : List (Bytes × ReqElem) := acc.map elemG

theorem find_needG (acc : List Want) (k : Bytes) :
    (needG acc).find? (fun p => decide (p.1 = k)) = (acc.find? (·.path == k)).map elemG := by
  induction acc with
  | nil => rfl
  | cons a t ih =>
    simp only [needG, List.map_cons, List.find?_cons] at ih ⊢
    by_cases e : a.path = k
    · simp [elemG, e]
    · have : (a.path == k) = false := by simpa using e
      simp only [elemG, e, decide_false, this]
      exact ih

theorem mapGet_needG (acc : List Want) (k : Bytes) (z : ReqElem) :
    mapGet (needG acc) k z = match acc.find? (·.path == k) with
      | some w => (({ version := w.vers, indirect := w.indirect } : ReqElem), true)
      | none => (z, false) := by
  unfold mapGet
  rw [find_needG]
  cases acc.find? (·.path == k) <;> rfl

theorem mapSet_needG (acc : List Want) (w : Want) :
    mapSet (needG acc) w.path ({ version := w.vers, indirect := w.indirect } : ReqElem) =
      needG (match acc.find? (·.path == w.path) with
        | some _ => acc.map fun a => if a.path == w.path then w else a
        | none => acc ++ [w]) := by
  unfold mapSet
  rw [find_needG]
  cases h : acc.find? (·.path == w.path) with
  | none => simp [needG, elemG]
  | some v =>
    simp only [Option.map_some, Option.isSome_some, if_true, needG, List.map_map]
    apply List.map_congr_left
    intro a _
    by_cases e : a.path = w.path <;> simp [elemG, e]

theorem mapDelete_needG (acc : List Want) (k : Bytes) :
    mapDelete (needG acc) k = needG (acc.filter (·.path != k)) := by
  unfold mapDelete needG
  rw [List.filter_map]
  congr 1
  apply List.filter_congr
  intro a _
  by_cases e : a.path = k <;> simp [elemG, Function.comp, e]

theorem needG_length (acc : List Want) : (needG acc).length = acc.length := by simp [needG]

/-! ### loop 1 of SetRequire: `needMap true` -/

theorem loop1_sim (isPrint : Int → Bool) (quote : Bytes → Bytes) (h : Heap) :
    ∀ (rest : List Want) (ps pre rx : List Int) (ri : Int) (acc : List Want) (fuel : Nat),
      rx = pre ++ ps → ri = (pre.length : Int) → ReqArgs h.requires ps rest → rest.length < fuel →
      File_SetRequire_loop1 isPrint quote rx h fuel ri (needG acc) =
        match needMap true rest acc with
        | .ok need => .ok (len rx, needG need)
        | .error _ => .error .panic
  | [], [], pre, rx, ri, acc, fuel + 1, hrx, hri, _, _ => by
    subst hrx hri
    have := not_lt_len_end pre
    simp [File_SetRequire_loop1, this, pure, Except.pure, needMap, len_eq]
  | w :: ws, p :: ps, pre, rx, ri, acc, fuel + 1, hrx, hri, hr, hf => by
    obtain ⟨⟨o, ho, h1, h2, h3⟩, hr'⟩ := hr
    have ih := fun acc' => loop1_sim isPrint quote h ws ps (pre ++ [p]) rx (ri + 1) acc' fuel (by simp [hrx])
      (by simp [hri]) hr' (by simp at hf; omega)
    subst hrx hri
    simp only [File_SetRequire_loop1, lt_len_cursor, decide_true, if_true, idxL_cursor, bind, Except.bind, ho, h1, h2, h3,
      mapGet_needG, pure, Except.pure]
    unfold needMap
    cases hfind : acc.find? (·.path == w.path) with
    | none =>
      simp only [Bool.false_eq_true, if_false]
      rw [mapSet_needG, hfind]
      exact ih _
    | some prev =>
      simp only [if_true, Bool.true_and]
      by_cases e : prev.vers = w.vers
      · have e' : (prev.vers != w.vers) = false := by simp [e]
        simp only [e, decide_true, Bool.not_true, Bool.false_eq_true, if_false, e']
        rw [mapSet_needG, hfind]
        have := ih (List.map (fun a => if (a.path == w.path) = true then w else a) acc)
        simpa [e] using this
      · have e' : (prev.vers != w.vers) = true := by simp [e]
        simp only [e, decide_false, Bool.not_false, if_true, e']
        rfl
  | [], _ :: _, _, _, _, _, _, _, _, hr, _ => hr.elim
  | _ :: _, [], _, _, _, _, _, _, _, hr, _ => hr.elim

end ModVerif.Tie.FnEditSetA
