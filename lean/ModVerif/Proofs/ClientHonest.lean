/-
  Helper lemmas for Props/C01.lean (`honest_never_fails`): the sequential client (Model/Client.lean) against the honest
  environment — an honest server for the log `D`, a persistent cache that returns what was written to it (and initially
  holds only honest files), a configuration file that is updated by compare-and-swap.  No collision-freedom hypothesis.
  Composition of C09 (`treeHash_eq_mth`, `store_get`, codecs) and C10 (`honest_reads_true`, `trueTile_stable`, tile paths).
-/
import ModVerif.Proofs.ClientAuth
namespace ModVerif.Client
open ModVerif ModVerif.Tlog ModVerif.Tile

set_option linter.unusedSectionVars false
set_option linter.unusedVariables false

/-! ### bytes ↔ hashes -/

theorem chunksF_fuel2 (size : Nat) (hs : 0 < size) : ∀ (f g : Nat) (d : Bytes), d.length ≤ f → d.length ≤ g →
    chunksF size f d = chunksF size g d := by
  intro f
  induction f with
  | zero =>
    intro g d h _
    have : d = [] := List.eq_nil_of_length_eq_zero (by omega)
    subst this
    cases g <;> rfl
  | succ f ih =>
    intro g d h hg
    cases d with
    | nil => cases g <;> rfl
    | cons x xs =>
      cases g with
      | zero => simp at hg
      | succ g =>
        simp only [chunksF, List.isEmpty_cons, Bool.false_eq_true, if_false]
        congr 1
        have hl : ((x :: xs).drop size).length ≤ xs.length := by
          simp only [List.length_drop, List.length_cons]; omega
        simp only [List.length_cons] at h hg
        exact ih g _ (by omega) (by omega)

theorem chunksF_fuel (size : Nat) (hs : 0 < size) (f : Nat) (d : Bytes) (h : d.length ≤ f) :
    chunksF size f d = chunksF size d.length d :=
  chunksF_fuel2 size hs f d.length d h (Nat.le_refl _)

theorem chunks_nil (size : Nat) : chunks size [] = [] := rfl

theorem chunks_cons (size : Nat) (hs : 0 < size) (d : Bytes) (hd : d ≠ []) :
    chunks size d = d.take size :: chunks size (d.drop size) := by
  cases d with
  | nil => exact absurd rfl hd
  | cons x xs =>
    unfold chunks
    simp only [List.length_cons, chunksF, List.isEmpty_cons, Bool.false_eq_true, if_false]
    congr 1
    exact chunksF_fuel size hs _ _ (by simp only [List.length_drop, List.length_cons]; omega)

/-- the first `k` chunks are the chunks of the first `k * size` bytes -/
theorem chunks_take (size : Nat) (hs : 0 < size) : ∀ (k : Nat) (d : Bytes),
    chunks size (d.take (k * size)) = (chunks size d).take k := by
  intro k
  induction k with
  | zero => intro d; simp [chunks_nil]
  | succ k ih =>
    intro d
    by_cases hd : d = []
    · subst hd; simp [chunks_nil]
    · have hne : d.take ((k + 1) * size) ≠ [] := by
        cases d with
        | nil => exact absurd rfl hd
        | cons x xs =>
          have : (k + 1) * size = ((k + 1) * size - 1) + 1 := by
            have : 0 < (k + 1) * size := Nat.mul_pos (by omega) hs
            omega
          rw [this]; simp
      rw [chunks_cons size hs _ hne, chunks_cons size hs d hd, List.take_succ_cons]
      congr 1
      · rw [List.take_take]
        congr 1
        have : size ≤ (k + 1) * size := Nat.le_mul_of_pos_left _ (by omega)
        omega
      · rw [List.drop_take]
        have : (k + 1) * size - size = k * size := by rw [Nat.add_mul]; omega
        rw [this]
        exact ih _

theorem decodeTile_take {H : Type} (P : Params H) (hs : 0 < P.hashSize) (k : Nat) (d : Bytes) :
    decodeTile P (d.take (k * P.hashSize)) = (decodeTile P d).take k := by
  unfold decodeTile
  rw [chunks_take _ hs, List.map_take]

/-- `data[:len(data)/full.W*tile.W]` of a full tile file of the right length -/
theorem cutFull_eq (d : Bytes) (size fullW tw : Nat) (hf : 0 < fullW) (hl : d.length = fullW * size) :
    cutFull d fullW tw = d.take (tw * size) := by
  unfold cutFull
  rw [hl, Nat.mul_div_cancel_left _ hf, Nat.mul_comm]

/-! ### the true tile of a prefix width -/

theorem mapM_take {α β : Type} (f : α → Option β) : ∀ (l : List α) (r : List β) (k : Nat), l.mapM f = some r →
    (l.take k).mapM f = some (r.take k) := by
  intro l
  induction l with
  | nil =>
    intro r k h
    simp only [List.mapM_nil] at h
    cases h; simp
  | cons a l ih =>
    intro r k h
    rw [List.mapM_cons] at h
    cases hf : f a with
    | none => simp [hf] at h
    | some b =>
      cases hl : l.mapM f with
      | none => simp [hf, hl] at h
      | some bs =>
        simp only [hf, hl] at h
        have : r = b :: bs := by simpa using h.symm
        subst this
        cases k with
        | zero => simp
        | succ k =>
          rw [List.take_succ_cons, List.mapM_cons, hf, ih bs k hl]
          rfl

theorem mapM_length' {α β : Type} (f : α → Option β) : ∀ (l : List α) (r : List β), l.mapM f = some r → r.length = l.length := by
  intro l
  induction l with
  | nil => intro r h; simp only [List.mapM_nil] at h; cases h; rfl
  | cons a l ih =>
    intro r h
    rw [List.mapM_cons] at h
    cases hf : f a with
    | none => simp [hf] at h
    | some b =>
      cases hl : l.mapM f with
      | none => simp [hf, hl] at h
      | some bs =>
        simp only [hf, hl] at h
        have : r = b :: bs := by simpa using h.symm
        subst this
        simp [ih bs hl]

/-- a narrower tile at the same coordinates is the prefix of the wider one -/
theorem trueTile_prefix {H : Type} (st : List H) (t : Tile) (w : Nat) (hw : 0 < w) (hle : w ≤ 2 ^ t.h) (x : List H)
    (hfull : trueTile st { t with w := 2 ^ t.h } = some x) :
    trueTile st { t with w := w } = some (x.take w) := by
  have h2 : (2 ^ t.h == 0) = false := by
    have := Nat.two_pow_pos t.h
    simp
  have hw0 : (w == 0) = false := by simp; omega
  unfold trueTile readTileData at hfull ⊢
  simp only [h2, hw0, Bool.false_eq_true, if_false] at hfull ⊢
  unfold readChecked storeReader at hfull ⊢
  cases hm : ((List.range (2 ^ t.h)).map fun i => storedHashIndex (t.h * t.l) ((t.n <<< t.h) + i)).mapM (st[·]?) with
  | none => simp [hm] at hfull
  | some r =>
    have hlen := mapM_length' _ _ _ hm
    simp only [hm, hlen, bne_self_eq_false, Bool.false_eq_true, if_false] at hfull
    cases hfull
    have hpre : ((List.range w).map fun i => storedHashIndex (t.h * t.l) ((t.n <<< t.h) + i)) =
        (((List.range (2 ^ t.h)).map fun i => storedHashIndex (t.h * t.l) ((t.n <<< t.h) + i))).take w := by
      rw [← List.map_take, List.take_range, Nat.min_eq_left hle]
    rw [hpre, mapM_take _ _ _ w hm]
    simp only [List.length_take, List.length_map, List.length_range, hlen]
    simp

/-! ### cache keys -/

/-- a tile whose path determines it (`Props.C10.tilePath_injective`) -/
def ValidTile (t : Tile) : Prop :=
  (1 ≤ t.h ∧ t.h ≤ 30) ∧ (1 ≤ t.w ∧ t.w ≤ 2 ^ t.h) ∧ t.n < 2 ^ 63 ∧ t.l < 2 ^ 63 ∧ t.data = false

theorem tileCacheKey_inj (name : Bytes) (t u : Tile) (ht : ValidTile t) (hu : ValidTile u)
    (h : tileCacheKey name t = tileCacheKey name u) : t = u := by
  unfold tileCacheKey at h
  have h1 := List.append_cancel_left h
  exact Props.C10.tilePath_injective t u ht.1 ht.2.1 ht.2.2.1 ht.2.2.2.1 (fun hd => by rw [ht.2.2.2.2] at hd; cases hd)
    hu.1 hu.2.1 hu.2.2.1 hu.2.2.2.1 (fun hd => by rw [hu.2.2.2.2] at hd; cases hd) h1

theorem B_tile : B "tile/" = [116, 105, 108, 101, 47] := by decide +kernel
theorem B_lookup : B "/lookup/" = [47, 108, 111, 111, 107, 117, 112, 47] := by decide +kernel

/-- a lookup file is never a tile file -/
theorem lookupFile_ne_tileKey (name rest : Bytes) (t : Tile) : name ++ (B "/lookup/" ++ rest) ≠ tileCacheKey name t := by
  intro h
  unfold tileCacheKey tilePath at h
  rw [List.append_assoc] at h
  have h1 := List.append_cancel_left h
  rw [B_lookup, B_tile] at h1
  simp at h1

theorem full_valid (t : Tile) (ht : ValidTile t) : ValidTile { t with w := 2 ^ t.h } :=
  ⟨ht.1, ⟨Nat.two_pow_pos _, Nat.le_refl _⟩, ht.2.2.1, ht.2.2.2.1, ht.2.2.2.2⟩

/-! ### planned tiles -/

/-- every tile `ReadHashes` plans for a tree of `n < 2^62` records with tile height `1 ≤ h ≤ 30` is valid and lies inside
    the tree -/
theorem planned_tile (h n : Nat) (h1 : 1 ≤ h) (h2 : h ≤ 30) (hn : n < 2 ^ 62) (idx : List Nat) (p : Plan)
    (hp : plan h n idx = .ok p) (t : Tile) (ht : t ∈ p.tiles) :
    ValidTile t ∧ t.h = h ∧ t.n * 2 ^ t.h + t.w ≤ TileAuth.cnt t.h n t.l := by
  have hidx := TileAuth.plan_ok_lt h n idx p hp
  obtain ⟨cs, p', hp', ok⟩ := TileAuth.plan_spec h n (by omega) (by omega) (TileAuth.split_valid n hn) idx
    (TileAuth.hidx_of_lt n hn idx hidx)
  rw [hp] at hp'; cases hp'
  obtain ⟨L, k, e, hlt⟩ := ok.inv.std t ht
  have hf := TileAuth.stdTile_fields (N := n) h L k hlt
  rw [← e] at hf
  obtain ⟨f1, f2, f3, f4, f5⟩ := hf
  have hpow := Nat.two_pow_pos h
  have hcnt : TileAuth.cnt h n L ≤ n := Nat.div_le_self _ _
  have hk : k < 2 ^ 63 := by
    have : k * 1 ≤ k * 2 ^ h := Nat.mul_le_mul_left _ hpow
    have : (2:Nat) ^ 62 < 2 ^ 63 := by decide
    omega
  have hL : L < 2 ^ 63 := by
    have hpos : 0 < TileAuth.cnt h n L := by omega
    have := TileAuth.cnt_pos_level h n L (by omega) hpos
    have hlog : n.log2 < 62 := by
      by_cases hn0 : n = 0
      · subst hn0; simp
      · exact (Nat.log2_lt hn0).mpr hn
    have : (62:Nat) < 2 ^ 63 := by decide
    omega
  refine ⟨⟨⟨by omega, by omega⟩, ⟨by rw [f4]; omega, by rw [f4, f1]; omega⟩, by rw [f3]; exact hk, by rw [f2]; exact hL, f5⟩,
    f1, ?_⟩
  rw [f1, f2, f3, f4]
  omega

/-! ### the honest world -/

section
variable {H : Type} [DecidableEq H]

/-- state of the honest environment: the cache files (latest write first) and the stored latest tree head -/
structure HState where
  cache : List (Bytes × Bytes)
  latest : Bytes

/-- the honest side: the key file, its verifier, the server's answers and the record number it has for a lookup path -/
structure Server where
  keyFile : Bytes
  v : Note.Verifier
  serve : Bytes → Option Bytes
  index : Bytes → Option Nat

/-- `ClientOps` of the honest world: a persistent cache, a compare-and-swap configuration file, the server -/
def honestEnv (S : Server) : Env HState :=
  { readRemote := fun s p => (S.serve p, s)
    readCache := fun s f => (s.cache.lookup f, s)
    readConfig := fun s f =>
      if f = B "key" then (some S.keyFile, s)
      else if f = latestFile S.v.name then (some s.latest, s) else (none, s)
    writeCache := fun s f d => { s with cache := (f, d) :: s.cache }
    writeConfig := fun s f old new =>
      if f = latestFile S.v.name ∧ s.latest = old then (.ok, { s with latest := new }) else (.conflict, s)
    securityError := fun s _ => s }

/-- `msg` is a signed tree head of size `n` of the log `D` -/
def Signed (P : Params H) (D : List Bytes) (S : Server) (msg : Bytes) (n : Nat) : Prop :=
  openTree P [S.v] msg = .ok ⟨n, rootAt P D n⟩ ∧ n ≤ D.length

/-- `d` is an honest answer to the lookup path `p`: record `id` of `D` with its number, followed by a signed head that
    contains it; `id` is the number the server has for `p` (if it has one) -/
def HonestLookup (P : Params H) (D : List Bytes) (S : Server) (p d : Bytes) : Prop :=
  ∃ (id n : Nat) (head text : Bytes), id < n ∧ Signed P D S head n ∧ D[id]? = some text ∧
    TlogNote.parseRecord d = some ((id : Int), text, head) ∧ ∀ id', S.index p = some id' → id' = id

/-- `d` is the file of the true tile `t` -/
def TrueBytes (P : Params H) (stN : List H) (t : Tile) (d : Bytes) : Prop :=
  trueTile stN t = some (decodeTile P d) ∧ d.length = t.w * P.hashSize

/-- an honest cache file -/
def HonestFile (P : Params H) (D : List Bytes) (S : Server) (stN : List H) (f d : Bytes) : Prop :=
  (∃ t, ValidTile t ∧ f = tileCacheKey S.v.name t ∧ TrueBytes P stN t d) ∨
  (∃ rest, f = S.v.name ++ (B "/lookup/" ++ rest) ∧ HonestLookup P D S (B "/lookup/" ++ rest) d)

/-- the honest world for the log `D` (whose store is `stN`) -/
structure Honest (P : Params H) (D : List Bytes) (S : Server) (stN : List H) : Prop where
  hN : D.length < 2 ^ 62
  hst : buildStore P.leaf P.node D = .ok stN
  hh : tileHeight P ≤ 30
  hsz : 0 < P.hashSize
  hret : 1 ≤ P.retries
  hkey : Note.NewVerifier P.sha P.edVerify (GoStrings.trimSpace S.keyFile) = .ok S.v
  tiles : ∀ t x, ValidTile t → trueTile stN t = some x →
    ∃ d, S.serve (tileRemotePath t) = some d ∧ decodeTile P d = x ∧ d.length = t.w * P.hashSize
  lookups : ∀ rest id, S.index (B "/lookup/" ++ rest) = some id →
    ∃ d, S.serve (B "/lookup/" ++ rest) = some d ∧ HonestLookup P D S (B "/lookup/" ++ rest) d
  unknown : ∀ rest, S.index (B "/lookup/" ++ rest) = none → S.serve (B "/lookup/" ++ rest) = none

/-- the invariant of the honest run -/
structure HW (P : Params H) (D : List Bytes) (S : Server) (stN : List H) (w : World HState H) : Prop where
  latest : ∃ n, n ≤ D.length ∧ w.c.latest = ⟨n, rootAt P D n⟩ ∧ (n ≠ 0 → Signed P D S w.c.latestMsg n)
  cfg : w.s.latest = [] ∨ ∃ m, Signed P D S w.s.latest m
  cache : ∀ f d, w.s.cache.lookup f = some d → HonestFile P D S stN f d
  tileCache : ∀ t r, w.c.tileCache.lookup t = some r → ∃ d, r = .ok d ∧ TrueBytes P stN t d
  record : ∀ rest r, w.c.record.lookup (S.v.name ++ (B "/lookup/" ++ rest)) = some r →
    (∃ d, r = .ok d ∧ HonestLookup P D S (B "/lookup/" ++ rest) d) ∨
    ((∃ e, r = .error e) ∧ S.index (B "/lookup/" ++ rest) = none)

/-- frame of the operations below `mergeLatestMem` -/
structure HLow (w w' : World HState H) : Prop where
  verifiers : w'.c.verifiers = w.c.verifiers
  name : w'.c.name = w.c.name
  record : w'.c.record = w.c.record
  inited : w'.c.inited = w.c.inited
  latest : w'.c.latest = w.c.latest
  latestMsg : w'.c.latestMsg = w.c.latestMsg
  cfg : w'.s.latest = w.s.latest

theorem HLow.refl (w : World HState H) : HLow w w := ⟨rfl, rfl, rfl, rfl, rfl, rfl, rfl⟩

theorem HLow.trans {w1 w2 w3 : World HState H} (a : HLow w1 w2) (b : HLow w2 w3) : HLow w1 w3 :=
  ⟨b.verifiers.trans a.verifiers, b.name.trans a.name, b.record.trans a.record, b.inited.trans a.inited,
   b.latest.trans a.latest, b.latestMsg.trans a.latestMsg, b.cfg.trans a.cfg⟩

/-- changing only the trace, `tileSaved` and (consistently) the tile cache keeps the invariant -/
theorem HW.of_eq {P : Params H} {D : List Bytes} {S : Server} {stN : List H} {w w' : World HState H}
    (hw : HW P D S stN w) (l : HLow w w') (hs : w'.s.cache = w.s.cache)
    (htc : ∀ t r, w'.c.tileCache.lookup t = some r → ∃ d, r = .ok d ∧ TrueBytes P stN t d) : HW P D S stN w' :=
  ⟨by rw [l.latest, l.latestMsg]; exact hw.latest, by rw [l.cfg]; exact hw.cfg, by rw [hs]; exact hw.cache, htc,
   by rw [l.record]; exact hw.record⟩

/-- reading the cache file of a valid tile in the honest world gives the true tile -/
theorem cache_tile {P : Params H} {D : List Bytes} {S : Server} {stN : List H} {w : World HState H}
    (hw : HW P D S stN w) (t : Tile) (ht : ValidTile t) (d : Bytes)
    (h : w.s.cache.lookup (tileCacheKey S.v.name t) = some d) : TrueBytes P stN t d := by
  rcases hw.cache _ _ h with ⟨u, hu, hk, hb⟩ | ⟨rest, hk, _⟩
  · have := tileCacheKey_inj _ t u ht hu hk
    subst this; exact hb
  · exact absurd hk.symm (lookupFile_ne_tileKey _ _ _)

/-- `readTileWork` in the honest world: the true tile, from the cache (the tile itself or the full tile) or the server -/
theorem readTileWork_honest (P : Params H) (D : List Bytes) (S : Server) (stN : List H) (hon : Honest P D S stN)
    (w : World HState H) (hw : HW P D S stN w) (hname : w.c.name = S.v.name) (t : Tile) (ht : ValidTile t)
    (x : List H) (hx : trueTile stN t = some x) :
    ∃ d, (readTileWork (honestEnv S) w t).1 = .ok d ∧ TrueBytes P stN t d ∧
      HLow w (readTileWork (honestEnv S) w t).2 ∧ (readTileWork (honestEnv S) w t).2.s = w.s ∧
      (readTileWork (honestEnv S) w t).2.c.tileCache = w.c.tileCache := by
  generalize hr : readTileWork (honestEnv S) w t = r
  simp only [readTileWork, readCache, readRemote, honestEnv, markTileSaved, hname] at hr
  cases h1 : w.s.cache.lookup (tileCacheKey S.v.name t) with
  | some d =>
    rw [h1] at hr; simp only at hr; subst hr
    exact ⟨d, rfl, cache_tile hw t ht d h1, (by constructor <;> first | rfl | exact hname.symm), rfl, rfl⟩
  | none =>
    rw [h1] at hr; simp only at hr
    by_cases hfull : (t != { t with w := 2 ^ t.h }) = true
    · simp only [hfull, if_true] at hr
      cases h2 : w.s.cache.lookup (tileCacheKey S.v.name { t with w := 2 ^ t.h }) with
      | some d =>
        rw [h2] at hr; simp only at hr; subst hr
        have hb := cache_tile hw _ (full_valid t ht) d h2
        have hcut := cutFull_eq d P.hashSize (2 ^ t.h) t.w (Nat.two_pow_pos _) hb.2
        refine ⟨_, rfl, ?_, (by constructor <;> first | rfl | exact hname.symm), rfl, rfl⟩
        rw [hcut]
        have hp := trueTile_prefix stN t t.w ht.2.1.1 ht.2.1.2 _ hb.1
        have ht' : ({ t with w := t.w } : Tile) = t := rfl
        rw [ht'] at hp
        refine ⟨by rw [decodeTile_take P hon.hsz]; exact hp, ?_⟩
        rw [List.length_take, hb.2]
        have := Nat.mul_le_mul_right P.hashSize ht.2.1.2
        simp only
        omega
      | none =>
        rw [h2] at hr; simp only at hr
        obtain ⟨d, hd1, hd2, hd3⟩ := hon.tiles t x ht hx
        rw [hd1] at hr; simp only at hr; subst hr
        exact ⟨d, rfl, ⟨by rw [hd2]; exact hx, hd3⟩, (by constructor <;> first | rfl | exact hname.symm), rfl, rfl⟩
    · simp only [hfull, Bool.false_eq_true, if_false] at hr
      obtain ⟨d, hd1, hd2, hd3⟩ := hon.tiles t x ht hx
      rw [hd1] at hr; simp only at hr; subst hr
      exact ⟨d, rfl, ⟨by rw [hd2]; exact hx, hd3⟩, (by constructor <;> first | rfl | exact hname.symm), rfl, rfl⟩

/-- pointwise relation of two lists -/
inductive Rel2 {α β : Type} (R : α → β → Prop) : List α → List β → Prop
  | nil : Rel2 R [] []
  | cons {a b l r} : R a b → Rel2 R l r → Rel2 R (a :: l) (b :: r)

theorem lookup_cons_tile {β : Type} (t u : Tile) (b : β) (l : List (Tile × β)) :
    ((t, b) :: l).lookup u = if u = t then some b else l.lookup u := by
  simp only [List.lookup]
  by_cases h : u = t
  · subst h; simp
  · have : (u == t) = false := by simpa using h
    simp [this, h]

/-- `readTile` in the honest world -/
theorem readTile_honest (P : Params H) (D : List Bytes) (S : Server) (stN : List H) (hon : Honest P D S stN)
    (w : World HState H) (hw : HW P D S stN w) (hname : w.c.name = S.v.name) (t : Tile) (ht : ValidTile t)
    (x : List H) (hx : trueTile stN t = some x) :
    ∃ d, (readTile (honestEnv S) w t).1 = .ok d ∧ TrueBytes P stN t d ∧
      HW P D S stN (readTile (honestEnv S) w t).2 ∧ HLow w (readTile (honestEnv S) w t).2 := by
  generalize hr : readTile (honestEnv S) w t = r
  simp only [readTile] at hr
  cases hc : w.c.tileCache.lookup t with
  | some res =>
    rw [hc] at hr; simp only at hr; subst hr
    obtain ⟨d, hd, hb⟩ := hw.tileCache t res hc
    exact ⟨d, hd, hb, hw, HLow.refl w⟩
  | none =>
    rw [hc] at hr; simp only at hr; subst hr
    obtain ⟨d, h1, h2, h3, h4, h5⟩ := readTileWork_honest P D S stN hon w hw hname t ht x hx
    have hl : HLow w ({ (readTileWork (honestEnv S) w t).2 with
        c := { (readTileWork (honestEnv S) w t).2.c with
          tileCache := (t, (readTileWork (honestEnv S) w t).1) :: (readTileWork (honestEnv S) w t).2.c.tileCache } } : World HState H) :=
      ⟨h3.verifiers, h3.name, h3.record, h3.inited, h3.latest, h3.latestMsg, h3.cfg⟩
    refine ⟨d, h1, h2, hw.of_eq hl (by simp only; rw [h4]) ?_, hl⟩
    intro u r hu
    simp only at hu
    rw [lookup_cons_tile, h5] at hu
    by_cases hut : u = t
    · rw [if_pos hut] at hu
      cases hu
      subst hut
      exact ⟨d, h1, h2⟩
    · rw [if_neg hut] at hu
      exact hw.tileCache u r hu

/-- all planned tiles, one after the other -/
theorem readTilesAll_honest (P : Params H) (D : List Bytes) (S : Server) (stN : List H) (hon : Honest P D S stN) :
    ∀ (tiles : List Tile) (w : World HState H), HW P D S stN w → w.c.name = S.v.name →
      (∀ t ∈ tiles, ValidTile t ∧ ∃ x, trueTile stN t = some x) →
      ∃ datas, (readTiles (honestEnv S) w tiles).1 = .ok datas ∧ Rel2 (TrueBytes P stN) tiles datas ∧
        HW P D S stN (readTiles (honestEnv S) w tiles).2 ∧ HLow w (readTiles (honestEnv S) w tiles).2 := by
  intro tiles
  induction tiles with
  | nil => intro w hw _ _; exact ⟨[], rfl, Rel2.nil, hw, HLow.refl w⟩
  | cons t ts ih =>
    intro w hw hname hall
    obtain ⟨ht, x, hx⟩ := hall t (List.mem_cons_self ..)
    obtain ⟨d, h1, h2, h3, h4⟩ := readTile_honest P D S stN hon w hw hname t ht x hx
    obtain ⟨ds, g1, g2, g3, g4⟩ := ih _ h3 (by rw [h4.name]; exact hname) (fun u hu => hall u (List.mem_cons_of_mem _ hu))
    refine ⟨d :: ds, ?_, Rel2.cons h2 g2, g3, h4.trans g4⟩
    simp only [readTiles, readTilesAll] at g1 ⊢
    rw [h1]
    simp only [firstError, g1]

/-- `SaveTiles` of true tiles keeps the cache honest -/
theorem saveTiles_honest (P : Params H) (D : List Bytes) (S : Server) (stN : List H) :
    ∀ (l : List (Tile × Bytes)) (w : World HState H), HW P D S stN w → w.c.name = S.v.name →
      (∀ td ∈ l, ValidTile td.1 ∧ TrueBytes P stN td.1 td.2) →
      HW P D S stN (saveTiles (honestEnv S) w l) ∧ HLow w (saveTiles (honestEnv S) w l) := by
  intro l
  induction l with
  | nil => intro w hw _ _; exact ⟨hw, HLow.refl w⟩
  | cons td rest ih =>
    intro w hw hname hall
    obtain ⟨t, d⟩ := td
    have hrest : ∀ td ∈ rest, ValidTile td.1 ∧ TrueBytes P stN td.1 td.2 := fun td h => hall td (List.mem_cons_of_mem _ h)
    unfold saveTiles
    split
    · exact ih w hw hname hrest
    · obtain ⟨hv, hb⟩ := hall (t, d) (List.mem_cons_self ..)
      have hl : HLow w (writeCache (honestEnv S) (markTileSaved w t) (tileCacheKey w.c.name t) d) :=
        ⟨rfl, rfl, rfl, rfl, rfl, rfl, rfl⟩
      have hw' : HW P D S stN (writeCache (honestEnv S) (markTileSaved w t) (tileCacheKey w.c.name t) d) := by
        refine ⟨hw.latest, hw.cfg, ?_, hw.tileCache, hw.record⟩
        intro f d' hf
        simp only [writeCache, honestEnv, markTileSaved, List.lookup] at hf
        split at hf
        · cases hf
          rename_i heq
          have : f = tileCacheKey w.c.name t := by simpa using heq
          subst this
          exact Or.inl ⟨t, hv, by rw [hname], hb⟩
        · exact hw.cache f d' hf
      obtain ⟨a, b⟩ := ih _ hw' (by rw [hl.name]; exact hname) hrest
      exact ⟨a, hl.trans b⟩

theorem forall₂_zip {α β : Type} (R : α → β → Prop) : ∀ (l : List α) (r : List β), Rel2 R l r →
    l.length = r.length ∧ ∀ ab ∈ l.zip r, R ab.1 ab.2 := by
  intro l r h
  induction h with
  | nil => simp
  | cons hab _ ih =>
    refine ⟨by simp [ih.1], ?_⟩
    intro ab hmem
    simp only [List.zip_cons_cons, List.mem_cons] at hmem
    rcases hmem with e | e
    · subst e; exact hab
    · exact ih.2 ab e

theorem forall₂_get {α β : Type} (R : α → β → Prop) : ∀ (l : List α) (r : List β), Rel2 R l r →
    ∀ (i : Nat) (a : α) (b : β), l[i]? = some a → r[i]? = some b → R a b := by
  intro l r h
  induction h with
  | nil => intro i a b h; simp at h
  | cons hab _ ih =>
    intro i a b h1 h2
    cases i with
    | zero => simp at h1 h2; subst h1 h2; exact hab
    | succ k => simp at h1 h2; exact ih k a b h1 h2

theorem bytesWidthsOk_of {P : Params H} {stN : List H} : ∀ (tiles : List Tile) (ds : List Bytes),
    Rel2 (TrueBytes P stN) tiles ds → bytesWidthsOk P.hashSize tiles ds = true := by
  intro tiles ds h
  induction h with
  | nil => rfl
  | cons hab _ ih => simp [bytesWidthsOk, hab.2, ih]

/-- ★ `ReadHashes` in the honest world, on a head of `D`: the true stored hashes -/
theorem readHashes_honest (P : Params H) (D : List Bytes) (S : Server) (stN : List H) (hon : Honest P D S stN)
    (w : World HState H) (hw : HW P D S stN w) (hname : w.c.name = S.v.name) (n : Nat) (hn0 : 0 < n) (hn : n ≤ D.length)
    (idx : List Nat) (hidx : ∀ x ∈ idx, x < storedHashIndex 0 n) :
    ∃ hs stn, (readHashes P (honestEnv S) w ⟨n, rootAt P D n⟩ idx).1 = .ok hs ∧
      buildStore P.leaf P.node (D.take n) = .ok stn ∧ idx.mapM (stn[·]?) = some hs ∧
      HW P D S stN (readHashes P (honestEnv S) w ⟨n, rootAt P D n⟩ idx).2 ∧
      HLow w (readHashes P (honestEnv S) w ⟨n, rootAt P D n⟩ idx).2 := by
  have hN := hon.hN
  obtain ⟨stn, hstn⟩ := store_exists P D hN n
  have hlen : (D.take n).length = n := by rw [List.length_take]; exact Nat.min_eq_left hn
  have h64 : (2:Nat) ^ 62 < 2 ^ 64 := by decide
  have hokn := TlogStore.storeOK_of_buildStore P.leaf P.node P.empty (D.take n) (by rw [hlen]; omega) stn hstn
  have hokN := TlogStore.storeOK_of_buildStore P.leaf P.node P.empty D (by omega) stN hon.hst
  obtain ⟨p, data, hs, hp, hdata, hhs, hsaved, hres⟩ := Props.C10.honest_reads_true P.leaf P.node P.empty (D.take n) stn hstn
    (by rw [hlen]; omega) (by rw [hlen]; exact hn0) (tileHeight P) (tileHeight_pos P) hon.hh idx (by rw [hlen]; exact hidx)
  rw [hlen] at hp hsaved hres
  have hroot : RFC6962.mth P.node P.empty ((D.take n).map P.leaf) = rootAt P D n := rfl
  rw [hroot] at hsaved hres
  -- every planned tile is valid, inside the tree, and has the same true content in the full log
  have hdl := mapM_length' _ _ _ hdata
  have htiles : ∀ t ∈ p.tiles, ValidTile t ∧ ∃ x, trueTile stN t = some x := by
    intro t ht
    obtain ⟨hv, _, hin⟩ := planned_tile (tileHeight P) n (tileHeight_pos P) hon.hh (by omega) idx p hp t ht
    obtain ⟨i, hi, hti⟩ := List.mem_iff_getElem.mp ht
    have hx := (TileAuth.mapM_option_get _ _ _ hdata).2 i t (by rw [List.getElem?_eq_getElem hi, hti])
    obtain ⟨x, _, hx⟩ := hx
    have hstab := TileAuth.trueTile_stable P.leaf P.node P.empty D stN stn hokN hN n hn hokn t hv.2.1.1 hin
    exact ⟨hv, x, by rw [← hstab]; exact hx⟩
  obtain ⟨datas, hrd, hf2, hw1, hl1⟩ := readTilesAll_honest P D S stN hon p.tiles w hw hname htiles
  obtain ⟨hlen2, hzip⟩ := forall₂_zip _ _ _ hf2
  -- the fetched table decodes to the true tiles of the first n records
  have hdec : datas.map (decodeTile P) = data := by
    apply List.ext_getElem?
    intro i
    by_cases hi : i < p.tiles.length
    · have hi2 : i < datas.length := by omega
      have hi3 : i < data.length := by omega
      have hti : p.tiles[i]? = some p.tiles[i] := List.getElem?_eq_getElem hi
      have hb := forall₂_get _ _ _ hf2 i _ _ hti (List.getElem?_eq_getElem hi2)
      obtain ⟨x, hx1, hx2⟩ := (TileAuth.mapM_option_get _ _ _ hdata).2 i _ hti
      obtain ⟨hv, _, hin⟩ := planned_tile (tileHeight P) n (tileHeight_pos P) hon.hh (by omega) idx p hp _ (List.getElem_mem hi)
      have hstab := TileAuth.trueTile_stable P.leaf P.node P.empty D stN stn hokN hN n hn hokn _ hv.2.1.1 hin
      rw [hstab, hb.1] at hx2
      simp only [List.getElem?_map, List.getElem?_eq_getElem hi2, Option.map_some]
      rw [hx1]
      exact congrArg some (Option.some.inj hx2)
    · have h1 : datas.length ≤ i := by omega
      have h2 : data.length ≤ i := by omega
      simp [h1, h2]
  have hnd := (Props.C10.plan_parents_first (tileHeight P) n (tileHeight_pos P) (by omega) idx p hp).2.2.1
  -- the table lookup is the honest server of the first n records on the planned tiles
  have hcongr := TileAuth.readHashes_congr P.node n (rootAt P D n) (tileHeight P) idx
    (fun t => (p.tiles.zip (datas.map (decodeTile P))).lookup t) (trueTile stn) (by
      intro p' hp' t ht
      rw [hp] at hp'; cases hp'
      obtain ⟨i, hi, hti⟩ := List.mem_iff_getElem.mp ht
      have hti' : p.tiles[i]? = some t := by rw [List.getElem?_eq_getElem hi, hti]
      obtain ⟨x, hx1, hx2⟩ := (TileAuth.mapM_option_get _ _ _ hdata).2 i t hti'
      rw [hx2, hdec]
      exact lookup_zip_get p.tiles data hnd i t x hti' hx1)
  generalize hr : readHashes P (honestEnv S) w ⟨n, rootAt P D n⟩ idx = r
  simp only [readHashes, hp] at hr
  have hstx : p.stx.isEmpty = false := by
    cases hse : p.stx.isEmpty with
    | false => rfl
    | true =>
      have := (Tile.plan_stx_nil (tileHeight P) n idx p hp (by simpa using hse)).1
      omega
  simp only [hstx, Bool.false_eq_true, if_false, hrd, bytesWidthsOk_of _ _ hf2, Bool.not_true, hcongr, hsaved, hres] at hr
  subst hr
  obtain ⟨hw2, hl2⟩ := saveTiles_honest P D S stN (p.tiles.zip datas) _ hw1 (by rw [hl1.name]; exact hname) (by
    intro td htd
    exact ⟨(htiles td.1 (List.of_mem_zip htd).1).1, hzip td htd⟩)
  exact ⟨hs, stn, rfl, hstn, hhs, hw2, hl1.trans hl2⟩

/-- `TreeHash(m, thr)` through the tiles of a head of `D`, honest world -/
theorem treeHashVia_honest (P : Params H) (D : List Bytes) (S : Server) (stN : List H) (hon : Honest P D S stN)
    (w : World HState H) (hw : HW P D S stN w) (hname : w.c.name = S.v.name) (m n : Nat) (hm : m ≤ n) (hn : n ≤ D.length) :
    (treeHashVia P (honestEnv S) w m ⟨n, rootAt P D n⟩).1 = .ok (rootAt P D m) ∧
      HW P D S stN (treeHashVia P (honestEnv S) w m ⟨n, rootAt P D n⟩).2 ∧
      HLow w (treeHashVia P (honestEnv S) w m ⟨n, rootAt P D n⟩).2 := by
  have hN := hon.hN
  generalize hr : treeHashVia P (honestEnv S) w m ⟨n, rootAt P D n⟩ = r
  simp only [treeHashVia] at hr
  by_cases h0 : (m == 0) = true
  · rw [if_pos h0] at hr; subst hr
    have : m = 0 := by simpa using h0
    subst this
    exact ⟨by rw [rootAt_zero], hw, HLow.refl w⟩
  · rw [if_neg h0] at hr
    have hm0 : m ≠ 0 := by simpa using h0
    have h63 : (2:Nat) ^ 62 < 2 ^ 63 := by decide
    obtain ⟨cs, hsub, _, hcov⟩ := Props.C09.subTreeIndex_spec 0 m (Nat.zero_le _) (TlogStore.aligned_zero m) (by omega)
    rw [hsub] at hr; simp only at hr
    have hidx : ∀ x ∈ cs.map (fun c => storedHashIndex c.1 c.2), x < storedHashIndex 0 n := by
      intro x hx
      obtain ⟨c, hc, rfl⟩ := List.mem_map.mp hx
      have hb := TlogStore.cover_bound cs 0 m hcov c hc
      rw [Tlog.storedHashIndex_zero_eq]
      exact TileAuth.idx_lt_S n c.1 c.2 (by omega)
    obtain ⟨hs, stn, h1, hstn, hmap, hw1, hl1⟩ := readHashes_honest P D S stN hon w hw hname n (by omega) hn _ hidx
    rw [h1] at hr; simp only at hr; subst hr
    refine ⟨?_, hw1, hl1⟩
    have hlen : (D.take n).length = n := by rw [List.length_take]; exact Nat.min_eq_left hn
    have h64 : (2:Nat) ^ 62 < 2 ^ 64 := by decide
    have hth := Props.C09.treeHash_eq_mth P.leaf P.node P.empty (D.take n) (by rw [hlen]; omega) stn hstn m
      (by rw [hlen]; exact hm) (by omega)
    rw [treeHash_reader_congr P.node P.empty m _ (storeReader stn) (fun _ => some hs) hsub
      (by simp only [storeReader]; exact hmap)] at hth
    simp only
    rw [hth, rootAt_take P D m n hm]
    rfl

/-- `checkTrees` of two heads of `D`, honest world: no fork, no error -/
theorem checkTrees_honest (P : Params H) (D : List Bytes) (S : Server) (stN : List H) (hon : Honest P D S stN)
    (w : World HState H) (hw : HW P D S stN w) (hname : w.c.name = S.v.name) (m n : Nat) (hm : m ≤ n) (hn : n ≤ D.length)
    (o1 o2 : Bytes) :
    (checkTrees P (honestEnv S) w ⟨m, rootAt P D m⟩ o1 ⟨n, rootAt P D n⟩ o2).1 = .ok () ∧
      HW P D S stN (checkTrees P (honestEnv S) w ⟨m, rootAt P D m⟩ o1 ⟨n, rootAt P D n⟩ o2).2 ∧
      HLow w (checkTrees P (honestEnv S) w ⟨m, rootAt P D m⟩ o1 ⟨n, rootAt P D n⟩ o2).2 := by
  obtain ⟨h1, h2, h3⟩ := treeHashVia_honest P D S stN hon w hw hname m n hm hn
  generalize hr : checkTrees P (honestEnv S) w ⟨m, rootAt P D m⟩ o1 ⟨n, rootAt P D n⟩ o2 = r
  simp only [checkTrees, h1, if_true] at hr
  subst hr
  exact ⟨rfl, h2, h3⟩

/-- frame of `mergeLatest` in the honest world -/
structure HMid (w w' : World HState H) : Prop where
  verifiers : w'.c.verifiers = w.c.verifiers
  name : w'.c.name = w.c.name
  record : w'.c.record = w.c.record
  inited : w'.c.inited = w.c.inited
  mono : w.c.latest.n ≤ w'.c.latest.n

theorem HLow.mid' {w w' : World HState H} (l : HLow w w') : HMid w w' :=
  ⟨l.verifiers, l.name, l.record, l.inited, by rw [l.latest]; exact Nat.le_refl _⟩

theorem HMid.trans {w1 w2 w3 : World HState H} (a : HMid w1 w2) (b : HMid w2 w3) : HMid w1 w3 :=
  ⟨b.verifiers.trans a.verifiers, b.name.trans a.name, b.record.trans a.record, b.inited.trans a.inited,
   Nat.le_trans a.mono b.mono⟩

theorem openTree_nil (P : Params H) (vs : List Note.Verifier) : ∀ hd, openTree P vs [] ≠ .ok hd := by
  intro hd h
  simp [openTree, Note.Open, Note.validMsg, Note.runesOf, Note.lastIndexOf, Note.sigSplit] at h

theorem signed_ne_nil {P : Params H} {D : List Bytes} {S : Server} {msg : Bytes} {n : Nat} (h : Signed P D S msg n) :
    msg.isEmpty = false := by
  cases msg with
  | nil => exact absurd h.1 (openTree_nil P _ _)
  | cons x xs => rfl

/-- `mergeLatestMem` of the empty message or a signed head of `D`, honest world -/
theorem mergeLatestMem_honest (P : Params H) (D : List Bytes) (S : Server) (stN : List H) (hon : Honest P D S stN)
    (w : World HState H) (hw : HW P D S stN w) (hname : w.c.name = S.v.name) (hvs : w.c.verifiers = [S.v])
    (msg : Bytes) (hmsg : msg = [] ∨ ∃ m, Signed P D S msg m) :
    ∃ wh, (mergeLatestMem P (honestEnv S) w msg).1 = .ok wh ∧
      HW P D S stN (mergeLatestMem P (honestEnv S) w msg).2 ∧ HMid w (mergeLatestMem P (honestEnv S) w msg).2 ∧
      (mergeLatestMem P (honestEnv S) w msg).2.s.latest = w.s.latest ∧
      (∀ m, Signed P D S msg m → m ≤ (mergeLatestMem P (honestEnv S) w msg).2.c.latest.n) ∧
      (wh = .past → (mergeLatestMem P (honestEnv S) w msg).2.c.latest.n ≠ 0) := by
  obtain ⟨n, hn, hlat, hlm⟩ := hw.latest
  generalize hr : mergeLatestMem P (honestEnv S) w msg = r
  simp only [mergeLatestMem] at hr
  rcases hmsg with hnil | ⟨m, hs⟩
  · subst hnil
    simp only [List.isEmpty_nil, if_true] at hr
    subst hr
    refine ⟨_, rfl, hw, (HLow.refl w).mid', rfl, ?_, ?_⟩
    · intro m hm; exact absurd hm.1 (openTree_nil P _ _)
    · intro h
      simp only at h ⊢
      intro h0
      rw [h0] at h
      simp at h
  · rw [signed_ne_nil hs] at hr
    simp only [Bool.false_eq_true, if_false, hvs, hs.1] at hr
    have hsame : ∀ m', Signed P D S msg m' → m' = m := by
      intro m' hs'
      have := hs'.1.symm.trans hs.1
      simp only [Except.ok.injEq, Head.mk.injEq] at this
      exact this.1
    by_cases hle : m ≤ w.c.latest.n
    · rw [if_pos hle] at hr
      rw [hlat] at hr hle
      obtain ⟨h1, h2, h3⟩ := checkTrees_honest P D S stN hon w hw hname m n hle hn msg w.c.latestMsg
      rw [h1] at hr; simp only at hr; subst hr
      refine ⟨_, rfl, h2, h3.mid', h3.cfg, ?_, ?_⟩
      · intro m' hs'
        rw [hsame m' hs']
        simp only
        rw [h3.latest, hlat]; exact hle
      · intro hp
        simp only at hp ⊢
        rw [h3.latest, hlat]
        simp only
        split at hp
        · omega
        · cases hp
    · rw [if_neg hle] at hr
      rw [hlat] at hr hle
      simp only at hle
      obtain ⟨h1, h2, h3⟩ := checkTrees_honest P D S stN hon w hw hname n m (by omega) hs.2 w.c.latestMsg msg
      rw [h1] at hr; simp only at hr; subst hr
      refine ⟨_, rfl, ⟨⟨m, hs.2, rfl, fun _ => hs⟩, h2.cfg, h2.cache, h2.tileCache, h2.record⟩,
        ⟨h3.verifiers, h3.name, h3.record, h3.inited, by rw [hlat]; simp only; omega⟩, h3.cfg, ?_, ?_⟩
      · intro m' hs'
        rw [hsame m' hs']
        exact Nat.le_refl _
      · intro hp; cases hp

theorem B_latest : B "/latest" = [47, 108, 97, 116, 101, 115, 116] := by decide +kernel
theorem B_key : B "key" = [107, 101, 121] := by decide +kernel

theorem latestFile_ne_key (name : Bytes) : latestFile name ≠ B "key" := by
  intro h
  have := congrArg List.length h
  rw [latestFile, B_latest, B_key] at this
  simp at this

/-- `WriteConfig(name/latest, old, new)` with `old` the stored value: the compare-and-swap succeeds -/
theorem writeConfig_cas (S : Server) (x : World HState H) (old new : Bytes) (h : x.s.latest = old) :
    writeConfig (honestEnv S) x (latestFile S.v.name) old new =
      (.ok, { s := { x.s with latest := new }, c := x.c,
              tr := x.tr ++ [.writeConfig (latestFile S.v.name) old new .ok] }) := by
  simp only [writeConfig, honestEnv, h, and_self, if_true]

/-- the configuration loop of `mergeLatest`, honest world: one round (no write conflict) -/
theorem mergeLatestLoop_honest (P : Params H) (D : List Bytes) (S : Server) (stN : List H) (hon : Honest P D S stN)
    (f : Nat) (w : World HState H) (hw : HW P D S stN w) (hname : w.c.name = S.v.name) (hvs : w.c.verifiers = [S.v]) :
    (mergeLatestLoop P (honestEnv S) (f + 1) w).1 = .ok () ∧
      HW P D S stN (mergeLatestLoop P (honestEnv S) (f + 1) w).2 ∧ HMid w (mergeLatestLoop P (honestEnv S) (f + 1) w).2 := by
  generalize hr : mergeLatestLoop P (honestEnv S) (f + 1) w = r
  simp only [mergeLatestLoop] at hr
  -- ReadConfig(name/latest) returns the stored head
  have hrc : readConfig (honestEnv S) w (latestFile w.c.name) =
      (some w.s.latest, { w with tr := w.tr ++ [.read .config (latestFile w.c.name) true] }) := by
    simp only [readConfig, honestEnv, hname, latestFile_ne_key, if_false, if_true, Option.isSome_some]
  rw [hrc] at hr; simp only at hr
  have hw0 : HW P D S stN ({ w with tr := w.tr ++ [.read .config (latestFile w.c.name) true] } : World HState H) :=
    ⟨hw.latest, hw.cfg, hw.cache, hw.tileCache, hw.record⟩
  have hl0 : HLow w ({ w with tr := w.tr ++ [.read .config (latestFile w.c.name) true] } : World HState H) :=
    ⟨rfl, rfl, rfl, rfl, rfl, rfl, rfl⟩
  obtain ⟨wh, h1, h2, h3, h4, _, h6⟩ := mergeLatestMem_honest P D S stN hon _ hw0 hname hvs w.s.latest hw.cfg
  rw [h1] at hr; simp only at hr
  by_cases hp : (wh != When.past) = true
  · rw [if_pos hp] at hr; subst hr; exact ⟨rfl, h2, hl0.mid'.trans h3⟩
  · rw [if_neg hp] at hr
    have hwp : wh = .past := by simpa using hp
    have hn0 := h6 hwp
    obtain ⟨n, hn, hlat, hlm⟩ := h2.latest
    have hname2 : (mergeLatestMem P (honestEnv S) ({ w with tr := w.tr ++ [.read .config (latestFile w.c.name) true] } : World HState H)
        w.s.latest).2.c.name = S.v.name := by rw [h3.name]; exact hname
    -- WriteConfig is a compare-and-swap on the value just read: it succeeds
    rw [hname2, writeConfig_cas S _ _ _ h4] at hr
    simp only at hr; subst hr
    have hn' : n ≠ 0 := by rw [hlat] at hn0; exact hn0
    exact ⟨rfl, ⟨⟨n, hn, hlat, hlm⟩, Or.inr ⟨n, hlm hn'⟩, h2.cache, h2.tileCache, h2.record⟩,
      (hl0.mid'.trans h3).trans ⟨rfl, rfl, rfl, rfl, Nat.le_refl _⟩⟩

/-- `mergeLatest`, honest world -/
theorem mergeLatest_honest (P : Params H) (D : List Bytes) (S : Server) (stN : List H) (hon : Honest P D S stN)
    (w : World HState H) (hw : HW P D S stN w) (hname : w.c.name = S.v.name) (hvs : w.c.verifiers = [S.v])
    (msg : Bytes) (hmsg : msg = [] ∨ ∃ m, Signed P D S msg m) :
    (mergeLatest P (honestEnv S) w msg).1 = .ok () ∧
      HW P D S stN (mergeLatest P (honestEnv S) w msg).2 ∧ HMid w (mergeLatest P (honestEnv S) w msg).2 ∧
      (∀ m, Signed P D S msg m → m ≤ (mergeLatest P (honestEnv S) w msg).2.c.latest.n) := by
  obtain ⟨wh, h1, h2, h3, _, h5, _⟩ := mergeLatestMem_honest P D S stN hon w hw hname hvs msg hmsg
  generalize hr : mergeLatest P (honestEnv S) w msg = r
  simp only [mergeLatest, h1] at hr
  by_cases hf : (wh != When.future) = true
  · rw [if_pos hf] at hr; subst hr; exact ⟨rfl, h2, h3, h5⟩
  · rw [if_neg hf] at hr; subst hr
    obtain ⟨k, hk⟩ : ∃ k, P.retries = k + 1 := ⟨P.retries - 1, by have := hon.hret; omega⟩
    rw [hk]
    obtain ⟨g1, g2, g3⟩ := mergeLatestLoop_honest P D S stN hon k _ h2 (by rw [h3.name]; exact hname)
      (by rw [h3.verifiers]; exact hvs)
    exact ⟨g1, g2, h3.trans g3, fun m hm => Nat.le_trans (h5 m hm) g3.mono⟩

/-- `initWork`, honest world: initialisation succeeds -/
theorem initWork_honest (P : Params H) (D : List Bytes) (S : Server) (stN : List H) (hon : Honest P D S stN)
    (w : World HState H) (hw : HW P D S stN w) :
    HW P D S stN (initWork P (honestEnv S) w) ∧ (initWork P (honestEnv S) w).c.inited = some none ∧
      (initWork P (honestEnv S) w).c.verifiers = [S.v] ∧ (initWork P (honestEnv S) w).c.name = S.v.name ∧
      (initWork P (honestEnv S) w).c.record = w.c.record := by
  generalize hr : initWork P (honestEnv S) w = r
  simp only [initWork] at hr
  have hrk : readConfig (honestEnv S) w (B "key") =
      (some S.keyFile, { w with tr := w.tr ++ [.read .config (B "key") true] }) := by
    simp only [readConfig, honestEnv, if_true, Option.isSome_some]
  rw [hrk] at hr; simp only [hon.hkey] at hr
  have hrl : ∀ (c1 : Client H) (tr1 : List Effect), readConfig (honestEnv S) (World.mk w.s c1 tr1) (latestFile S.v.name) =
      (some w.s.latest, World.mk w.s c1 (tr1 ++ [.read .config (latestFile S.v.name) true])) := by
    intro c1 tr1
    simp only [readConfig, honestEnv, latestFile_ne_key, if_false, if_true, Option.isSome_some]
  rw [hrl] at hr; simp only at hr
  have hw1 : ∀ tr1, HW P D S stN (World.mk w.s ({ w.c with verifiers := [S.v], name := S.v.name } : Client H) tr1) :=
    fun _ => ⟨hw.latest, hw.cfg, hw.cache, hw.tileCache, hw.record⟩
  obtain ⟨g1, g2, g3, _⟩ := mergeLatest_honest P D S stN hon _ (hw1 _) rfl rfl w.s.latest hw.cfg
  rw [g1] at hr; simp only at hr; subst hr
  exact ⟨⟨g2.latest, g2.cfg, g2.cache, g2.tileCache, g2.record⟩, rfl, g3.verifiers, g3.name, g3.record⟩

/-- `checkRecord` of a genuine record below the head, honest world -/
theorem checkRecord_honest (P : Params H) (D : List Bytes) (S : Server) (stN : List H) (hon : Honest P D S stN)
    (w : World HState H) (hw : HW P D S stN w) (hname : w.c.name = S.v.name) (id : Nat) (text : Bytes)
    (hid : id < w.c.latest.n) (htext : D[id]? = some text) :
    (checkRecord P (honestEnv S) w (id : Int) text).1 = .ok () ∧
      HW P D S stN (checkRecord P (honestEnv S) w (id : Int) text).2 ∧
      HLow w (checkRecord P (honestEnv S) w (id : Int) text).2 := by
  obtain ⟨n, hn, hlat, _⟩ := hw.latest
  have hN := hon.hN
  rw [hlat] at hid
  simp only at hid
  generalize hr : checkRecord P (honestEnv S) w (id : Int) text = r
  simp only [checkRecord] at hr
  rw [hlat] at hr
  have h1 : ¬ ((id : Int) ≥ ((n : Nat) : Int)) := by omega
  have h2 : ¬ ((id : Int) < 0) := by omega
  simp only [h1, h2, if_false, Int.toNat_natCast] at hr
  have hidx : ∀ x ∈ [storedHashIndex 0 id], x < storedHashIndex 0 n := by
    intro x hx
    simp only [List.mem_singleton] at hx
    subst hx
    rw [Tlog.storedHashIndex_zero_eq n]
    exact TileAuth.idx_lt_S n 0 id (by omega)
  obtain ⟨hs, stn, g1, hstn, hmap, g2, g3⟩ := readHashes_honest P D S stN hon w hw hname n (by omega) hn _ hidx
  rw [g1] at hr; simp only at hr
  obtain ⟨b, hb, hbs⟩ := mapM_single _ _ _ hmap
  subst hbs
  simp only at hr
  have hlen : (D.take n).length = n := by rw [List.length_take]; exact Nat.min_eq_left hn
  have h64 : (2:Nat) ^ 62 < 2 ^ 64 := by decide
  have hget := Props.C09.store_get P.leaf P.node P.empty (D.take n) (by rw [hlen]; omega) stn hstn 0 id (by rw [hlen]; omega)
  rw [hb] at hget
  have hjl : id < ((D.take n).map P.leaf).length := by rw [List.length_map, hlen]; exact hid
  rw [TlogStore.leavesOf_zero _ _ hjl] at hget
  simp only [TlogStore.mth_singleton, Option.some.injEq] at hget
  have hidD : id < D.length := by omega
  have htx : D[id] = text := by
    rw [List.getElem?_eq_getElem hidD] at htext
    exact Option.some.inj htext
  have hbt : b = P.leaf text := by
    rw [hget]
    simp [List.getElem_take, htx]
  rw [if_pos hbt] at hr
  subst hr
  exact ⟨rfl, g2, g3⟩

/-- the validation part of `lookupWork` on an honest response, honest world -/
theorem lookupValidate_honest (P : Params H) (D : List Bytes) (S : Server) (stN : List H) (hon : Honest P D S stN)
    (w : World HState H) (hw : HW P D S stN w) (hname : w.c.name = S.v.name) (hvs : w.c.verifiers = [S.v])
    (rest data : Bytes) (hd : HonestLookup P D S (B "/lookup/" ++ rest) data) (wc : Bool)
    (r : Except Err Bytes × World HState H)
    (hr : (match TlogNote.parseRecord data with
      | none => (Except.error Err.recordSyntax, w)
      | some (id, text, treeMsg) =>
        match (mergeLatest P (honestEnv S) w treeMsg).1 with
        | .error e => (.error e, (mergeLatest P (honestEnv S) w treeMsg).2)
        | .ok () =>
          match (checkRecord P (honestEnv S) (mergeLatest P (honestEnv S) w treeMsg).2 id text).1 with
          | .error e => (.error e, (checkRecord P (honestEnv S) (mergeLatest P (honestEnv S) w treeMsg).2 id text).2)
          | .ok () =>
            (.ok data, if wc then writeCache (honestEnv S) (checkRecord P (honestEnv S) (mergeLatest P (honestEnv S) w treeMsg).2 id text).2
                (S.v.name ++ (B "/lookup/" ++ rest)) data
              else (checkRecord P (honestEnv S) (mergeLatest P (honestEnv S) w treeMsg).2 id text).2)) = r) :
    r.1 = .ok data ∧ HW P D S stN r.2 ∧ HMid w r.2 := by
  obtain ⟨id, n, head, text, hidn, hsig, htext, hparse, _⟩ := hd
  rw [hparse] at hr; simp only at hr
  obtain ⟨g1, g2, g3, g4⟩ := mergeLatest_honest P D S stN hon w hw hname hvs head (Or.inr ⟨n, hsig⟩)
  rw [g1] at hr; simp only at hr
  have hname2 : (mergeLatest P (honestEnv S) w head).2.c.name = S.v.name := by rw [g3.name]; exact hname
  obtain ⟨k1, k2, k3⟩ := checkRecord_honest P D S stN hon _ g2 hname2 id text (by have := g4 n hsig; omega) htext
  rw [k1] at hr; simp only at hr
  cases wc with
  | false =>
    simp only [Bool.false_eq_true, if_false] at hr; subst hr
    exact ⟨rfl, k2, g3.trans k3.mid'⟩
  | true =>
    simp only [if_true] at hr; subst hr
    refine ⟨rfl, ⟨k2.latest, k2.cfg, ?_, k2.tileCache, k2.record⟩,
      (g3.trans k3.mid').trans ⟨rfl, rfl, rfl, rfl, Nat.le_refl _⟩⟩
    intro f d' hf
    simp only [writeCache, honestEnv, List.lookup] at hf
    split at hf
    · cases hf
      rename_i heq
      have : f = S.v.name ++ (B "/lookup/" ++ rest) := by simpa using heq
      subst this
      exact Or.inr ⟨rest, rfl, ⟨id, n, head, text, hidn, hsig, htext, hparse, by assumption⟩⟩
    · exact k2.cache f d' hf

/-- the function `Lookup` passes to `c.record.Do`, honest world -/
theorem lookupWork_honest (P : Params H) (D : List Bytes) (S : Server) (stN : List H) (hon : Honest P D S stN)
    (w : World HState H) (hw : HW P D S stN w) (hname : w.c.name = S.v.name) (hvs : w.c.verifiers = [S.v]) (rest : Bytes) :
    HW P D S stN (lookupWork P (honestEnv S) w (S.v.name ++ (B "/lookup/" ++ rest)) (B "/lookup/" ++ rest)).2 ∧
    HMid w (lookupWork P (honestEnv S) w (S.v.name ++ (B "/lookup/" ++ rest)) (B "/lookup/" ++ rest)).2 ∧
    ((∃ d, (lookupWork P (honestEnv S) w (S.v.name ++ (B "/lookup/" ++ rest)) (B "/lookup/" ++ rest)).1 = .ok d ∧
        HonestLookup P D S (B "/lookup/" ++ rest) d) ∨
     ((∃ e, (lookupWork P (honestEnv S) w (S.v.name ++ (B "/lookup/" ++ rest)) (B "/lookup/" ++ rest)).1 = .error e) ∧
        S.index (B "/lookup/" ++ rest) = none)) := by
  generalize hr : lookupWork P (honestEnv S) w (S.v.name ++ (B "/lookup/" ++ rest)) (B "/lookup/" ++ rest) = r
  simp only [lookupWork] at hr
  have hrc : ∀ x : World HState H, readCache (honestEnv S) x (S.v.name ++ (B "/lookup/" ++ rest)) =
      (x.s.cache.lookup (S.v.name ++ (B "/lookup/" ++ rest)),
        World.mk x.s x.c (x.tr ++ [.read .cache (S.v.name ++ (B "/lookup/" ++ rest))
          (x.s.cache.lookup (S.v.name ++ (B "/lookup/" ++ rest))).isSome])) := fun x => rfl
  have hrr : ∀ x : World HState H, readRemote (honestEnv S) x (B "/lookup/" ++ rest) =
      (S.serve (B "/lookup/" ++ rest),
        World.mk x.s x.c (x.tr ++ [.read .remote (B "/lookup/" ++ rest) (S.serve (B "/lookup/" ++ rest)).isSome])) := fun x => rfl
  rw [hrc] at hr; simp only at hr
  have hwt : ∀ tr1, HW P D S stN (World.mk w.s w.c tr1) := fun _ => ⟨hw.latest, hw.cfg, hw.cache, hw.tileCache, hw.record⟩
  have hmt : ∀ tr1, HMid w (World.mk w.s w.c tr1) := fun _ => ⟨rfl, rfl, rfl, rfl, Nat.le_refl _⟩
  cases hc : w.s.cache.lookup (S.v.name ++ (B "/lookup/" ++ rest)) with
  | some data =>
    rw [hc] at hr; simp only at hr
    have hd : HonestLookup P D S (B "/lookup/" ++ rest) data := by
      rcases hw.cache _ _ hc with ⟨t, _, hk, _⟩ | ⟨rest', hk, hl⟩
      · exact absurd hk (lookupFile_ne_tileKey _ _ _)
      · have := List.append_cancel_left (List.append_cancel_left hk)
        subst this; exact hl
    obtain ⟨a, b, c⟩ := lookupValidate_honest P D S stN hon (World.mk w.s w.c _) (hwt _) (by exact hname) (by exact hvs) rest data hd false r hr
    exact ⟨b, (hmt _).trans c, Or.inl ⟨data, a, hd⟩⟩
  | none =>
    rw [hc, hrr] at hr; simp only at hr
    cases hidx : S.index (B "/lookup/" ++ rest) with
    | none =>
      rw [hon.unknown rest hidx] at hr; simp only at hr; subst hr
      exact ⟨hwt _, hmt _, Or.inr ⟨⟨_, rfl⟩, rfl⟩⟩
    | some id =>
      obtain ⟨data, hsv, hd⟩ := hon.lookups rest id hidx
      rw [hsv] at hr; simp only at hr
      obtain ⟨a, b, c⟩ := lookupValidate_honest P D S stN hon (World.mk w.s w.c _) (hwt _) (by exact hname) (by exact hvs) rest data hd true r hr
      exact ⟨b, (hmt _).trans c, Or.inl ⟨data, a, hd⟩⟩

/-- the honest-run invariant between two calls of `Lookup` -/
structure HI (P : Params H) (D : List Bytes) (S : Server) (stN : List H) (w : World HState H) : Prop where
  hw : HW P D S stN w
  ready : w.c.inited = none ∨ (w.c.inited = some none ∧ w.c.verifiers = [S.v] ∧ w.c.name = S.v.name)

theorem lookup_cons_bytes {β : Type} (f g : Bytes) (b : β) (l : List (Bytes × β)) :
    ((f, b) :: l).lookup g = if g = f then some b else l.lookup g := by
  simp only [List.lookup]
  by_cases h : g = f
  · subst h; simp
  · have : (g == f) = false := by simpa using h
    simp [this, h]

/-- ★ one `Lookup` in the honest world: the invariant is kept, and a lookup of a module the server has a record for
    (not excluded by GONOSUMDB, escapable) returns exactly the lines, with the prefix `path vers `, of an honest
    response for it -/
theorem lookup_honest (P : Params H) (D : List Bytes) (S : Server) (stN : List H) (hon : Honest P D S stN)
    (w : World HState H) (hi : HI P D S stN w) (path vers : Bytes) :
    HI P D S stN (lookup P (honestEnv S) w path vers).2 ∧
    ∀ epath evers id, Module.matchPrefixPatterns P.glob P.nosumdb path = false →
      Module.escapePath path = .ok epath → Module.escapeVersion P.isLetter (trimGoMod vers) = .ok evers →
      S.index (B "/lookup/" ++ (epath ++ ([64] ++ evers))) = some id →
      ∃ d, HonestLookup P D S (B "/lookup/" ++ (epath ++ ([64] ++ evers))) d ∧
        (lookup P (honestEnv S) w path vers).1 = .ok (filterLines (path ++ [32] ++ vers ++ [32]) d) := by
  generalize hr : lookup P (honestEnv S) w path vers = r
  simp only [lookup] at hr
  by_cases hskip : Module.matchPrefixPatterns P.glob P.nosumdb path = true
  · rw [if_pos hskip] at hr; subst hr
    exact ⟨hi, by intro _ _ _ h; rw [hskip] at h; cases h⟩
  · rw [if_neg hskip] at hr
    -- initialisation succeeds (or has succeeded)
    have hinit : HW P D S stN (init P (honestEnv S) w) ∧ (init P (honestEnv S) w).c.inited = some none ∧
        (init P (honestEnv S) w).c.verifiers = [S.v] ∧ (init P (honestEnv S) w).c.name = S.v.name := by
      unfold init
      rcases hi.ready with h0 | ⟨h1, h2, h3⟩
      · rw [h0]; simp only
        obtain ⟨a, b, c, d, _⟩ := initWork_honest P D S stN hon w hi.hw
        exact ⟨a, b, c, d⟩
      · rw [h1]; simp only; exact ⟨hi.hw, h1, h2, h3⟩
    obtain ⟨hw1, hin1, hvs1, hname1⟩ := hinit
    have hi1 : HI P D S stN (init P (honestEnv S) w) := ⟨hw1, Or.inr ⟨hin1, hvs1, hname1⟩⟩
    rw [hin1] at hr; simp only at hr
    cases hep : Module.escapePath path with
    | error e =>
      rw [hep] at hr; simp only at hr; subst hr
      exact ⟨hi1, by intro _ _ _ _ h; cases h⟩
    | ok epath =>
      rw [hep] at hr; simp only at hr
      cases hev : Module.escapeVersion P.isLetter (trimGoMod vers) with
      | error e =>
        rw [hev] at hr; simp only at hr; subst hr
        exact ⟨hi1, by intro _ _ _ _ _ h; cases h⟩
      | ok evers =>
        rw [hev] at hr; simp only at hr
        have hrp : B "/lookup/" ++ epath ++ [64] ++ evers = B "/lookup/" ++ (epath ++ ([64] ++ evers)) := by
          simp only [List.append_assoc]
        rw [hrp, hname1] at hr
        cases hlk : (init P (honestEnv S) w).c.record.lookup (S.v.name ++ (B "/lookup/" ++ (epath ++ ([64] ++ evers)))) with
        | some res =>
          rw [hlk] at hr; simp only at hr
          rcases hw1.record _ res hlk with ⟨d, hd1, hd2⟩ | ⟨⟨e, he⟩, hnone⟩
          · subst hd1; simp only at hr; subst hr
            refine ⟨hi1, ?_⟩
            intro ep ev id _ h1 h2 _
            cases h1; cases h2
            exact ⟨d, hd2, rfl⟩
          · subst he; simp only at hr; subst hr
            refine ⟨hi1, ?_⟩
            intro ep ev id _ h1 h2 h3
            cases h1; cases h2
            rw [hnone] at h3; cases h3
        | none =>
          rw [hlk] at hr; simp only at hr
          obtain ⟨g1, g2, g3⟩ := lookupWork_honest P D S stN hon _ hw1 hname1 hvs1 (epath ++ ([64] ++ evers))
          -- the result is recorded in c.record
          have hrec : ∀ (res : Except Err Bytes),
              ((∃ d, res = .ok d ∧ HonestLookup P D S (B "/lookup/" ++ (epath ++ ([64] ++ evers))) d) ∨
                ((∃ e, res = .error e) ∧ S.index (B "/lookup/" ++ (epath ++ ([64] ++ evers))) = none)) →
              ∀ (x : World HState H), HW P D S stN x →
              HW P D S stN (World.mk x.s { x.c with record := (S.v.name ++ (B "/lookup/" ++ (epath ++ ([64] ++ evers))), res) :: x.c.record } x.tr) := by
            intro res hres x hx
            refine ⟨hx.latest, hx.cfg, hx.cache, hx.tileCache, ?_⟩
            intro rest' r' hl'
            simp only at hl'
            rw [lookup_cons_bytes] at hl'
            split at hl'
            · rename_i heq
              cases hl'
              have := List.append_cancel_left (List.append_cancel_left heq)
              subst this
              exact hres
            · exact hx.record rest' r' hl'
          rcases g3 with ⟨d, hd1, hd2⟩ | ⟨⟨e, he⟩, hnone⟩
          · rw [hd1] at hr; simp only at hr; subst hr
            refine ⟨⟨hrec _ (Or.inl ⟨d, rfl, hd2⟩) _ g1, Or.inr ⟨by simp only; rw [g2.inited]; exact hin1,
              by simp only; rw [g2.verifiers]; exact hvs1, by simp only; rw [g2.name]; exact hname1⟩⟩, ?_⟩
            intro ep ev id _ h1 h2 _
            cases h1; cases h2
            exact ⟨d, hd2, rfl⟩
          · rw [he] at hr; simp only at hr; subst hr
            refine ⟨⟨hrec _ (Or.inr ⟨⟨e, rfl⟩, hnone⟩) _ g1, Or.inr ⟨by simp only; rw [g2.inited]; exact hin1,
              by simp only; rw [g2.verifiers]; exact hvs1, by simp only; rw [g2.name]; exact hname1⟩⟩, ?_⟩
            intro ep ev id _ h1 h2 h3
            cases h1; cases h2
            rw [hnone] at h3; cases h3

/-- the honest initial state: the stored head is empty or a signed head of `D`, every cache file is honest -/
def HonestState (P : Params H) (D : List Bytes) (S : Server) (stN : List H) (s : HState) : Prop :=
  (s.latest = [] ∨ ∃ m, Signed P D S s.latest m) ∧ ∀ f d, s.cache.lookup f = some d → HonestFile P D S stN f d

theorem hi_newClient (P : Params H) (D : List Bytes) (S : Server) (stN : List H) (s : HState)
    (hs : HonestState P D S stN s) : HI P D S stN ⟨s, newClient P, []⟩ :=
  ⟨⟨⟨0, Nat.zero_le _, by simp [newClient, rootAt_zero], fun h => absurd rfl h⟩, hs.1, hs.2,
    by intro t r h; simp [newClient] at h, by intro rest r h; simp [newClient] at h⟩, Or.inl rfl⟩

theorem hi_runLookups (P : Params H) (D : List Bytes) (S : Server) (stN : List H) (hon : Honest P D S stN) :
    ∀ (qs : List (Bytes × Bytes)) (w : World HState H), HI P D S stN w → HI P D S stN (runLookups P (honestEnv S) w qs) := by
  intro qs
  induction qs with
  | nil => intro w h; exact h
  | cons q qs ih => intro w h; exact ih _ (lookup_honest P D S stN hon w h q.1 q.2).1

end

/-! ### helpers for the non-vacuity instance of Props/C01.lean (a log of one record) -/

theorem storedHashIndex_eq_zero (l k : Nat) (h : storedHashIndex l k = 0) : l = 0 ∧ k = 0 := by
  have h1 := Props.C09.split_storedHashIndex l k (by rw [h]; decide)
  rw [h] at h1
  have h2 : splitStoredHashIndex 0 = .ok (0, 0) := by decide +kernel
  rw [h2] at h1
  simp only [Except.ok.injEq, Prod.mk.injEq] at h1
  exact ⟨h1.1.symm, h1.2.symm⟩

/-- in the log of one record the only valid tiles that exist are the width-1 tiles at level 0, number 0 -/
theorem trueTile_single (a : UInt8) (t : Tile) (ht : ValidTile t) (x : List UInt8) (h : trueTile [a] t = some x) :
    x = [a] ∧ t.w = 1 := by
  have hw0 : (t.w == 0) = false := by have := ht.2.1.1; simp; omega
  unfold trueTile readTileData at h
  simp only [hw0, Bool.false_eq_true, if_false] at h
  unfold readChecked storeReader at h
  cases hm : ((List.range t.w).map fun i => storedHashIndex (t.h * t.l) ((t.n <<< t.h) + i)).mapM ([a][·]?) with
  | none => simp [hm] at h
  | some r =>
    have hlen := mapM_length' _ _ _ hm
    simp only [hm, hlen, bne_self_eq_false, Bool.false_eq_true, if_false] at h
    cases h
    have hget := (TileAuth.mapM_option_get _ _ _ hm).2
    have hw1 : t.w = 1 := by
      apply Nat.le_antisymm _ ht.2.1.1
      apply Nat.le_of_not_lt
      intro h2
      obtain ⟨b, _, hb⟩ := hget 1 (storedHashIndex (t.h * t.l) ((t.n <<< t.h) + 1))
        (by simp [List.getElem?_map, List.getElem?_range h2])
      have hz : storedHashIndex (t.h * t.l) ((t.n <<< t.h) + 1) = 0 := by
        cases hi : storedHashIndex (t.h * t.l) ((t.n <<< t.h) + 1) with
        | zero => rfl
        | succ j => rw [hi] at hb; simp at hb
      have := (storedHashIndex_eq_zero _ _ hz).2
      exact Nat.succ_ne_zero _ this
    refine ⟨?_, hw1⟩
    rw [hw1] at hm
    obtain ⟨b, hb1, hb2⟩ := mapM_single _ _ _ (by simpa using hm)
    have hz : storedHashIndex (t.h * t.l) (t.n <<< t.h) = 0 := by
      cases hi : storedHashIndex (t.h * t.l) (t.n <<< t.h) with
      | zero => rfl
      | succ j => rw [hi] at hb1; simp at hb1
    rw [hz] at hb1
    simp at hb1
    rw [hb2, ← hb1]

theorem isPrefixOfB_append (a b : Bytes) : isPrefixOfB a (a ++ b) = true := by
  induction a with
  | nil => simp [isPrefixOfB]
  | cons x xs ih => simp [isPrefixOfB, ih]


end ModVerif.Client
