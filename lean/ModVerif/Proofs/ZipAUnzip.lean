/-
  C05 `create_unzip`: the archive `create` produces extracts without error, and the extracted tree is
  exactly its entries (= the valid files, `create_entries`) with their contents.  Uses the general
  extraction theorems of Proofs/ZipBUnzip.lean (C12) on the instance `create_checkZip` provides.
-/
import ModVerif.Spec.ZipSpec
import ModVerif.Proofs.ZipACreate
import ModVerif.Proofs.ZipBUnzip
namespace ModVerif.Proofs.ZipA
open ModVerif ModVerif.PathClean ModVerif.Zip ModVerif.ZipSpec ModVerif.Proofs.Zip ModVerif.Proofs.ZipB

/-- `create` writes no directory entry and no entry for the prefix alone: nothing is skipped on extraction -/
theorem create_fileEntries (E : Env) (mpath mvers : Bytes) (files : List FileInfo) (es : List Entry)
    (h : create E mpath mvers files = .ok es) : fileEntries (zipPrefix mpath mvers) es = es := by
  obtain ⟨_, _, hes, hadd⟩ := create_ok E mpath mvers files es h
  obtain ⟨hv1, _⟩ := checkFilesSt_validFiles E (goVers files) files
  have hinv := (checkFilesSt_validInv E (goVers files) files).nameOK
  unfold fileEntries
  apply List.filter_eq_self.mpr
  intro e he
  rw [hes] at he
  obtain ⟨f, hf, rfl⟩ := List.mem_map.mp he
  have ok := zok_of_nameOK E (goVers files) files f (hv1 f hf).1 (hinv f hf) (hadd f hf).2
  have hdrop : (zipPrefix mpath mvers ++ f.path).drop (zipPrefix mpath mvers).length = f.path :=
    List.drop_left' rfl
  have hne : (f.path == []) = false := by simpa using ok.ne
  simp [skipEntry, entryOf, hdrop, hne, ok.noSlash]

theorem create_honest (E : Env) (mpath mvers : Bytes) (files : List FileInfo) (es : List Entry)
    (h : create E mpath mvers files = .ok es) : HonestEntries es := by
  obtain ⟨_, _, hes, _⟩ := create_ok E mpath mvers files es h
  intro e he
  rw [hes] at he
  obtain ⟨f, _, rfl⟩ := List.mem_map.mp he
  rfl

/-- C05 `create_unzip` -/
theorem create_unzip (E : Env) (hE : CfpSound E.cfp) (dir : Bytes)
    (hdir : dir = [] ∨ pathClean dir = dir ∨ ([46, 46] : Bytes) ∉ splitOn 47 dir) (t : Target)
    (ht : t = .missing ∨ t = .emptyDir) (mpath mvers : Bytes) (files : List FileInfo) (es : List Entry)
    (zipSize : Nat) (h : create E mpath mvers files = .ok es) (hz : zipSize ≤ MaxZipFile) :
    (unzip E dir t mpath mvers zipSize es).err = none ∧
    (unzip E dir t mpath mvers zipSize es).effects =
      .mkdirAll dir :: es.flatMap (fun e =>
        [.mkdirAll (pathDir (dstOf dir (zipPrefix mpath mvers) e)),
         .createExcl (dstOf dir (zipPrefix mpath mvers) e) (some e.content)]) ∧
    createdFiles (unzip E dir t mpath mvers zipSize es).effects = es.map (dstOf dir (zipPrefix mpath mvers)) ∧
    (es.map (dstOf dir (zipPrefix mpath mvers))).Nodup := by
  obtain ⟨cf, hck, _, _, _, herr⟩ := create_checkZip E mpath mvers files es zipSize h hz
  have hsane : DirSane dir := by
    rcases hdir with rfl | hd | hd
    · exact dirSane_nil
    · exact dirSane_clean hd
    · exact dirSane_noDotDot hd
  have hacc := unzip_accepts E hE dir hsane t mpath mvers zipSize es cf ht
    (create_honest E mpath mvers files es h) hck herr
  have hok : (unzip E dir t mpath mvers zipSize es).err = none := by rw [hacc]
  obtain ⟨x1, x2, x3⟩ := unzip_exact E dir t mpath mvers zipSize es hok
  rw [create_fileEntries E mpath mvers files es h] at x1 x2 x3
  exact ⟨hok, x1, x2, x3⟩

end ModVerif.Proofs.ZipA
