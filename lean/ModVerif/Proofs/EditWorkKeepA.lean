/-
  EditWork, part 1 — **C08 `untouched_lines_survive` for go.work sessions**: what each go.work operation does to the lines
  that existed before it (`OpKeepsW`), one operation (`applyWork_untouched`) and whole sessions
  (`untouched_lines_survive_work`), SetUse included.  Same primitives as for go.mod (Proofs/EditMoreKeep{A,B}.lean);
  `workAddGoStmt` / `workAddToolchainStmt` place their line by index (`keeps_insertAt`).
-/
import ModVerif.Proofs.EditMoreKeepF
import ModVerif.Proofs.EditRefineInvWork
set_option linter.unusedSimpArgs false
namespace ModVerif.Modfile.Edit
open ModVerif ModVerif.Modfile

/-- the directive lines a go.work operation names, by their tokens (all `use` lines for SetUse, which may remove any) -/
def TargetsW : Op → List Bytes → Prop
  | .addGo _, t => t.head? = some (B "go")
  | .dropGo, t => t.head? = some (B "go")
  | .addToolchain _, t => t.head? = some (B "toolchain")
  | .dropToolchain, t => t.head? = some (B "toolchain")
  | .addGodebug k _, t => ∃ v, t = [B "godebug", k ++ [61] ++ v]
  | .dropGodebug k, t => ∃ v, t = [B "godebug", k ++ [61] ++ v]
  | .addUse d _, t => t = [B "use", autoQuote d]
  | .dropUse d, t => t = [B "use", autoQuote d]
  | .setUse _ _, t => t.head? = some (B "use")
  | .addReplace op _ _ _, t => ∃ r : Replace, r.old.path = op ∧ t = replaceToks r
  | .dropReplace op ov, t => ∃ r : Replace, r.old.path = op ∧ r.old.version = ov ∧ t = replaceToks r
  | _, _ => False

/-- the go.work operations that end with SortBlocks (de-duplication of replacements: `killEarlier`) -/
def SortsW : Op → Bool
  | .sortBlocks => true
  | .setUse _ _ => true
  | _ => false

/-- what one go.work operation does to the lines that existed before it -/
def OpKeepsW (e e' : EWork) (op : Op) : Prop :=
  ∃ S : List Nat, KeepsBelow e.next S e.f.syn.stmts e'.f.syn.stmts ∧
    ∀ i ∈ S, (SortsW op = true ∧ i ∈ killEarlier e.f.replace) ∨
      ∃ en ∈ entriesW e.f, en.id = i ∧ ∀ t s, en.acc t s → TargetsW op t

theorem OpKeepsW.nil {e e' : EWork} {op : Op} (h : Keeps [] e.f.syn.stmts e'.f.syn.stmts) : OpKeepsW e e' op :=
  ⟨[], h.below _, fun _ hi' => by cases hi'⟩

theorem OpKeepsW.one {e e' : EWork} {op : Op} (en : Ent) (hen : en ∈ entriesW e.f) (h : Keeps [en.id] e.f.syn.stmts e'.f.syn.stmts)
    (ht : ∀ t s, en.acc t s → TargetsW op t) : OpKeepsW e e' op :=
  ⟨[en.id], h.below _, fun _ hi => Or.inr ⟨en, hen, (List.mem_singleton.1 hi).symm, ht⟩⟩

theorem OpKeepsW.of_src {e e' : EWork} {op : Op} {α : Type} (S : List Nat) (L : List α) (m : α → Bool) (id : α → Nat)
    (mk : α → Ent) (hk : Keeps S e.f.syn.stmts e'.f.syn.stmts) (hmk : ∀ x, (mk x).id = id x)
    (hmem : ∀ x ∈ L, m x = true → mk x ∈ entriesW e.f) (hsrc : ∀ d ∈ S, ∃ x ∈ L, m x = true ∧ id x = d)
    (ht : ∀ x, m x = true → ∀ t s, (mk x).acc t s → TargetsW op t) : OpKeepsW e e' op := by
  refine ⟨S, hk.below _, ?_⟩
  intro i hi
  rcases hsrc i hi with ⟨x, hx, hmx, hid⟩
  exact Or.inr ⟨mk x, hmem x hx hmx, by rw [hmk, hid], ht x hmx⟩

theorem mem_entriesW_go {f : WorkFile} {g : Go} (h : f.go = some g) : entGo g ∈ entriesW f := by
  simp [entriesW, h]
theorem mem_entriesW_toolchain {f : WorkFile} {g : Toolchain} (h : f.toolchain = some g) : entTc g ∈ entriesW f := by
  simp [entriesW, h]
theorem mem_entriesW_godebug {f : WorkFile} {g : Godebug} (h : g ∈ f.godebug) (hl : liveG g = true) : entG g ∈ entriesW f := by
  rw [entriesW_gd]
  exact List.mem_append_right _ (List.mem_append_left _ ((mem_entsOf liveG entG).2 ⟨g, h, hl, rfl⟩))
theorem mem_entriesW_use {f : WorkFile} {g : Use} (h : g ∈ f.use) (hl : liveU g = true) : entU g ∈ entriesW f := by
  rw [entriesW_use]
  exact List.mem_append_right _ (List.mem_append_left _ ((mem_entsOf liveU entU).2 ⟨g, h, hl, rfl⟩))
theorem mem_entriesW_replace {f : WorkFile} {g : Replace} (h : g ∈ f.replace) (hl : liveRp g = true) : entRp g ∈ entriesW f := by
  rw [entriesW_rp]
  exact List.mem_append_right _ (List.mem_append_left _ ((mem_entsOf liveRp entRp).2 ⟨g, h, hl, rfl⟩))

/-! ### the invariant, on lines with comments -/

theorem InvW.acc_of_id {e : EWork} (hi : InvW e) {x : XLine} (hx : x ∈ viewX e.f.syn.stmts) {en : Ent} (hen : en ∈ entriesW e.f)
    (hid : en.id = x.id) : en.acc x.toks x.suffix := by
  rcases hi.mtch.cover en hen with ⟨v, hv, hvid, hacc⟩
  have : v = ⟨x.id, x.toks, x.suffix⟩ := view_unique hi.tree.nodup hv (view_of_viewX hx) (hvid.trans hid)
  rw [this] at hacc; exact hacc

theorem InvW.x_lt {e : EWork} (hi : InvW e) {x : XLine} (hx : x ∈ viewX e.f.syn.stmts) : x.id < e.next :=
  hi.tree.lt _ (viewX_id_mem hx)

/-! ### scalars: `go`, `toolchain` -/

theorem workAddGo_keeps (e e' : EWork) (v : Bytes) (h : workAddGoStmt e v = .ok e') : OpKeepsW e e' (.addGo v) := by
  unfold workAddGoStmt at h
  split at h
  · cases h
  · cases hg : e.f.go with
    | none =>
      simp only [hg, Except.ok.injEq] at h; subst h
      exact OpKeepsW.nil (keeps_insertAt _ _ _)
    | some g =>
      simp only [hg, Except.ok.injEq] at h; subst h
      refine OpKeepsW.one (entGo g) (mem_entriesW_go hg) (keeps_updateTokens _ _ _) ?_
      intro t s h; simp only [entGo] at h; rw [h]; rfl

theorem workDropGo_keeps (e : EWork) : OpKeepsW e (workDropGoStmt e) .dropGo := by
  unfold workDropGoStmt
  cases hg : e.f.go with
  | none => exact OpKeepsW.nil (Keeps.refl _ _)
  | some g =>
    refine OpKeepsW.one (entGo g) (mem_entriesW_go hg) (keeps_markRemoved _ _) ?_
    intro t s h; simp only [entGo] at h; rw [h]; rfl

theorem workAddToolchain_keeps (e e' : EWork) (v : Bytes) (h : workAddToolchainStmt e v = .ok e') :
    OpKeepsW e e' (.addToolchain v) := by
  unfold workAddToolchainStmt at h
  split at h
  · cases h
  · cases hg : e.f.toolchain with
    | none =>
      simp only [hg, Except.ok.injEq] at h; subst h
      exact OpKeepsW.nil (keeps_insertAt _ _ _)
    | some g =>
      simp only [hg, Except.ok.injEq] at h; subst h
      refine OpKeepsW.one (entTc g) (mem_entriesW_toolchain hg) (keeps_updateTokens _ _ _) ?_
      intro t s h; simp only [entTc] at h; rw [h]; rfl

theorem workDropToolchain_keeps (e : EWork) : OpKeepsW e (workDropToolchainStmt e) .dropToolchain := by
  unfold workDropToolchainStmt
  cases hg : e.f.toolchain with
  | none => exact OpKeepsW.nil (Keeps.refl _ _)
  | some g =>
    refine OpKeepsW.one (entTc g) (mem_entriesW_toolchain hg) (keeps_markRemoved _ _) ?_
    intro t s h; simp only [entTc] at h; rw [h]; rfl

/-! ### godebug, use, replace -/

theorem workAddGodebug_keeps (e e' : EWork) (k v : Bytes) (hk : k ≠ []) (hi : InvW e) (h : workAddGodebug e k v = .ok e') :
    OpKeepsW e e' (.addGodebug k v) := by
  unfold workAddGodebug addGodebugCore at h
  simp only [bind, Except.bind] at h
  cases hr : firstRest (fun g : Godebug => g.key == k) (·.lineId) (fun g => { g with value := v }) clearedGodebug e.f.godebug true with
  | error err => simp [hr] at h
  | ok r =>
    rcases r with ⟨gd', first, dead⟩
    simp only [hr] at h
    rcases firstRest_src _ _ _ _ _ _ _ _ _ hr with ⟨s1, s2⟩
    cases first with
    | none =>
      simp only [pure, Except.pure, Except.ok.injEq] at h; subst h
      exact OpKeepsW.nil (keeps_addLine _ _ _ _ hi.view2)
    | some i =>
      simp only [pure, Except.pure, Except.ok.injEq] at h; subst h
      refine OpKeepsW.of_src ([i] ++ dead) e.f.godebug (fun g : Godebug => g.key == k) (·.lineId) entG
        ((keeps_updateTokens _ _ _).trans (keeps_markAll _ _)) (fun _ => rfl)
        (fun x hx hm => mem_entriesW_godebug hx (ne_nil_of_beq hk hm)) ?_ ?_
      · intro d hd
        rcases List.mem_append.1 hd with hd | hd
        · rw [List.mem_singleton.1 hd]; exact s2 i rfl
        · exact s1 d hd
      · intro x hm t s hacc
        simp only [entG] at hacc
        exact ⟨x.value, by rw [hacc, eq_of_beq hm]⟩

theorem workDropGodebug_keeps (e e' : EWork) (k : Bytes) (hk : k ≠ []) (h : workDropGodebug e k = .ok e') :
    OpKeepsW e e' (.dropGodebug k) := by
  unfold workDropGodebug at h
  simp only [bind, Except.bind] at h
  cases hr : clearAll (fun g : Godebug => g.key == k) (·.lineId) clearedGodebug e.f.godebug with
  | error err => simp [hr] at h
  | ok r =>
    rcases r with ⟨gd', dead⟩
    simp only [hr, pure, Except.pure, Except.ok.injEq] at h; subst h
    refine OpKeepsW.of_src dead e.f.godebug (fun g : Godebug => g.key == k) (·.lineId) entG (keeps_markAll _ _) (fun _ => rfl)
      (fun x hx hm => mem_entriesW_godebug hx (ne_nil_of_beq hk hm)) (clearAll_src _ _ _ _ _ _ hr) ?_
    intro x hm t s hacc
    simp only [entG] at hacc
    exact ⟨x.value, by rw [hacc, eq_of_beq hm]⟩

theorem addNewUse_keepsNil (e : EWork) (d m : Bytes) (hi : InvW e) : Keeps [] e.f.syn.stmts (addNewUse e d m).f.syn.stmts :=
  keeps_addLine e.f.syn none [B "use", autoQuote d] e.next hi.view2

theorem addUse_keeps (e e' : EWork) (d m : Bytes) (hd : d ≠ []) (hi : InvW e) (h : addUse e d m = .ok e') :
    OpKeepsW e e' (.addUse d m) := by
  unfold addUse at h
  simp only [bind, Except.bind] at h
  cases hr : firstRest (fun u : Use => u.path == d) (·.lineId) (fun u => { u with modulePath := m }) clearedUse e.f.use true with
  | error err => simp [hr] at h
  | ok r =>
    rcases r with ⟨us', first, dead⟩
    simp only [hr] at h
    rcases firstRest_src _ _ _ _ _ _ _ _ _ hr with ⟨s1, s2⟩
    cases first with
    | none =>
      simp only [pure, Except.pure, Except.ok.injEq] at h; subst h
      exact OpKeepsW.nil (addNewUse_keepsNil e d m hi)
    | some i =>
      simp only [pure, Except.pure, Except.ok.injEq] at h; subst h
      refine OpKeepsW.of_src ([i] ++ dead) e.f.use (fun u : Use => u.path == d) (·.lineId) entU
        ((keeps_updateTokens _ _ _).trans (keeps_markAll _ _)) (fun _ => rfl)
        (fun x hx hm => mem_entriesW_use hx (ne_nil_of_beq hd hm)) ?_ ?_
      · intro j hj
        rcases List.mem_append.1 hj with hj | hj
        · rw [List.mem_singleton.1 hj]; exact s2 i rfl
        · exact s1 j hj
      · intro x hm t s hacc
        simp only [entU] at hacc
        show t = _
        rw [hacc, eq_of_beq hm]

theorem dropUse_keeps (e e' : EWork) (d : Bytes) (hd : d ≠ []) (h : dropUse e d = .ok e') : OpKeepsW e e' (.dropUse d) := by
  unfold dropUse at h
  simp only [bind, Except.bind] at h
  cases hr : clearAll (fun u : Use => u.path == d) (·.lineId) clearedUse e.f.use with
  | error err => simp [hr] at h
  | ok r =>
    rcases r with ⟨l', dead⟩
    simp only [hr, pure, Except.pure, Except.ok.injEq] at h; subst h
    refine OpKeepsW.of_src dead e.f.use (fun u : Use => u.path == d) (·.lineId) entU (keeps_markAll _ _) (fun _ => rfl)
      (fun x hx hm => mem_entriesW_use hx (ne_nil_of_beq hd hm)) (clearAll_src _ _ _ _ _ _ hr) ?_
    intro x hm t s hacc
    simp only [entU] at hacc
    show t = _
    rw [hacc, eq_of_beq hm]

theorem workAddReplace_keeps (e e' : EWork) (op ov np nv : Bytes) (hop : op ≠ []) (hi : InvW e)
    (h : workAddReplace e op ov np nv = .ok e') : OpKeepsW e e' (.addReplace op ov np nv) := by
  unfold workAddReplace addReplaceCore at h
  simp only [bind, Except.bind] at h
  cases hr : firstRest (fun r : Replace => r.old.path == op && (ov.isEmpty || r.old.version == ov)) (·.lineId)
      (fun r => { r with old := { path := op, version := ov }, new := { path := np, version := nv } }) clearedReplace e.f.replace true with
  | error err => simp [hr] at h
  | ok r =>
    rcases r with ⟨rp', first, dead⟩
    simp only [hr] at h
    rcases firstRest_src _ _ _ _ _ _ _ _ _ hr with ⟨s1, s2⟩
    cases first with
    | none =>
      simp only [pure, Except.pure, Except.ok.injEq] at h; subst h
      exact OpKeepsW.nil (keeps_addLinePtr _ _ _ _ hi.view2)
    | some i =>
      simp only [pure, Except.pure, Except.ok.injEq] at h; subst h
      refine OpKeepsW.of_src ([i] ++ dead) e.f.replace (fun r : Replace => r.old.path == op && (ov.isEmpty || r.old.version == ov))
        (·.lineId) entRp ((keeps_updateTokens _ _ _).trans (keeps_markAll _ _)) (fun _ => rfl)
        (fun x hx hm => mem_entriesW_replace hx (by simp only [Bool.and_eq_true] at hm; exact ne_nil_of_beq hop hm.1)) ?_ ?_
      · intro d hd
        rcases List.mem_append.1 hd with hd | hd
        · rw [List.mem_singleton.1 hd]; exact s2 i rfl
        · exact s1 d hd
      · intro x hm t s hacc
        simp only [Bool.and_eq_true] at hm
        simp only [entRp] at hacc
        exact ⟨x, eq_of_beq hm.1, hacc⟩

theorem workDropReplace_keeps (e e' : EWork) (op ov : Bytes) (hop : op ≠ []) (h : workDropReplace e op ov = .ok e') :
    OpKeepsW e e' (.dropReplace op ov) := by
  unfold workDropReplace dropReplaceCore at h
  simp only [bind, Except.bind] at h
  cases hr : clearAll (fun r : Replace => r.old.path == op && r.old.version == ov) (·.lineId) clearedReplace e.f.replace with
  | error err => simp [hr] at h
  | ok r =>
    rcases r with ⟨l', dead⟩
    simp only [hr, pure, Except.pure, Except.ok.injEq] at h; subst h
    refine OpKeepsW.of_src dead e.f.replace (fun r : Replace => r.old.path == op && r.old.version == ov) (·.lineId) entRp
      (keeps_markAll _ _) (fun _ => rfl)
      (fun x hx hm => mem_entriesW_replace hx (by simp only [Bool.and_eq_true] at hm; exact ne_nil_of_beq hop hm.1))
      (clearAll_src _ _ _ _ _ _ hr) ?_
    intro x hm t s hacc
    simp only [Bool.and_eq_true] at hm
    simp only [entRp] at hacc
    exact ⟨x, eq_of_beq hm.1, eq_of_beq hm.2, hacc⟩

/-! ### SortBlocks, Cleanup -/

theorem workSortBlocks_syn (e : EWork) :
    (workSortBlocks e).f.syn.stmts = sortStmts false true (dropKilled (killEarlier e.f.replace) e.f.syn.stmts) := by
  simp [workSortBlocks, Edit.removeDups]

/-- WorkFile.SortBlocks removes only the lines of earlier replacements of the same module (`killEarlier`) -/
theorem keeps_workSortBlocks (e : EWork) : Keeps (killEarlier e.f.replace) e.f.syn.stmts (workSortBlocks e).f.syn.stmts := by
  rw [workSortBlocks_syn]
  have := (keeps_dropKilled (killEarlier e.f.replace) e.f.syn.stmts).trans (keeps_sortStmts false true _)
  simpa using this

theorem workSortBlocks_keeps (e : EWork) : OpKeepsW e (workSortBlocks e) .sortBlocks :=
  ⟨killEarlier e.f.replace, (keeps_workSortBlocks e).below _, fun _ hi => Or.inl ⟨rfl, hi⟩⟩

theorem workCleanup_keeps (e : EWork) (op : Op) : OpKeepsW e (workCleanup e) op := OpKeepsW.nil (keeps_cleanupStmts _)

/-! ### SetUse -/

theorem setUseLoop_keeps (us : List Use) : ∀ (need : List (Bytes × Bytes)) (syn : FileSyntax) (us' : List Use)
    (need' : List (Bytes × Bytes)) (syn' : FileSyntax), setUseLoop us need syn = .ok (us', need', syn') →
    Keeps (us.map (·.lineId)) syn.stmts syn'.stmts := by
  induction us with
  | nil =>
    intro need syn us' need' syn' h
    simp only [setUseLoop, Except.ok.injEq, Prod.mk.injEq] at h
    rcases h with ⟨_, _, rfl⟩
    exact Keeps.refl _ _
  | cons d ds ih =>
    intro need syn us' need' syn' h
    unfold setUseLoop at h
    cases hf : need.find? (fun a => a.1 == d.path) with
    | some w =>
      simp only [hf, bind, Except.bind] at h
      cases hr : setUseLoop ds (need.filter (fun a => a.1 != d.path)) syn with
      | error err => simp [hr] at h
      | ok res =>
        rcases res with ⟨ds'', need'', syn''⟩
        simp only [hr, pure, Except.pure, Except.ok.injEq, Prod.mk.injEq] at h
        rcases h with ⟨_, _, rfl⟩
        exact (ih _ _ _ _ _ hr).mono (fun i hi => by simp only [List.map_cons]; exact List.mem_cons_of_mem _ hi)
    | none =>
      simp only [hf, bind, Except.bind] at h
      cases hd : deref d.lineId with
      | error err => simp [hd] at h
      | ok i =>
        have hi : i = d.lineId := by unfold deref at hd; split at hd <;> simp at hd; exact hd.symm
        subst hi
        simp only [hd] at h
        cases hr : setUseLoop ds need (markRemoved syn d.lineId) with
        | error err => simp [hr] at h
        | ok res =>
          rcases res with ⟨ds'', need'', syn''⟩
          simp only [hr, pure, Except.pure, Except.ok.injEq, Prod.mk.injEq] at h
          rcases h with ⟨_, _, rfl⟩
          have := (keeps_markRemoved syn d.lineId).trans (ih _ _ _ _ _ hr)
          simpa using this

theorem foldl_addNewUse_keeps (ws : List (Bytes × Bytes)) : ∀ e : EWork, InvW e → (∀ w ∈ ws, w.1 ≠ []) →
    Keeps [] e.f.syn.stmts (ws.foldl (fun e w => addNewUse e w.1 w.2) e).f.syn.stmts := by
  induction ws with
  | nil => intro e _ _; exact Keeps.refl _ _
  | cons w ws ih =>
    intro e hi hne
    simp only [List.foldl_cons]
    have h1 := addNewUse_keepsNil e w.1 w.2 hi
    have h2 := ih _ (addNewUse_inv e w.1 w.2 (hne w List.mem_cons_self) hi) (fun x hx => hne x (List.mem_cons_of_mem _ hx))
    have := h1.trans h2
    simpa using this

theorem foldl_addNewUse_replace (ws : List (Bytes × Bytes)) : ∀ e : EWork,
    (ws.foldl (fun e w => addNewUse e w.1 w.2) e).f.replace = e.f.replace := by
  induction ws with
  | nil => intro e; rfl
  | cons w ws ih => intro e; simp only [List.foldl_cons]; rw [ih]; rfl

theorem setUse_keeps (e e' : EWork) (dirs : List (Bytes × Bytes)) (perm : List (Bytes × Bytes) → List (Bytes × Bytes))
    (hperm : ∀ l, (perm l).Perm l) (hg : GoodUse dirs) (hi : InvW e) (hlive : ∀ u ∈ e.f.use, liveU u = true)
    (h : setUse e dirs perm = .ok e') (rev : Bool) : OpKeepsW e e' (.setUse dirs rev) := by
  unfold setUse at h
  rw [useNeedMap_distinct dirs [] (by simpa using hg.1)] at h
  simp only [bind, Except.bind, List.nil_append] at h
  cases hr : setUseLoop e.f.use dirs e.f.syn with
  | error err => simp [hr] at h
  | ok res =>
    rcases res with ⟨us, need', syn'⟩
    simp only [hr, pure, Except.pure, Except.ok.injEq] at h
    subst h
    rcases setUseLoop_abs _ _ _ _ _ _ hg hr with ⟨_, hsub⟩
    rcases setUseLoop_inv (A := wA_use e.f) (C := wC_use e.f) e.next e.f.use [] dirs e.f.syn us need' syn'
      hlive hi.tree (by simp only [List.nil_append]; rw [← entriesW_use]; exact hi.mtch) hr with ⟨hw', hm'⟩
    have hi1 : InvW (⟨{ e.f with use := us, syn := syn' }, e.next⟩ : EWork) := by
      refine ⟨hw', ?_, hi.winv.of_same rfl (Nat.le_refl _)⟩
      simp only [List.nil_append] at hm'
      rw [entriesW_use]; exact hm'
    have hne : ∀ w ∈ perm need', w.1 ≠ [] := fun w hw => hg.2 w (hsub.subset ((hperm need').subset hw))
    have k1 := setUseLoop_keeps _ _ _ _ _ _ hr
    have k2 := foldl_addNewUse_keeps (perm need') _ hi1 hne
    have k3 := keeps_workSortBlocks ((perm need').foldl (fun e w => addNewUse e w.1 w.2)
      (⟨{ e.f with use := us, syn := syn' }, e.next⟩ : EWork))
    rw [foldl_addNewUse_replace] at k3
    refine ⟨e.f.use.map (·.lineId) ++ killEarlier e.f.replace, ?_, ?_⟩
    · have := (k1.trans k2).trans k3
      exact (this.below _).mono (by simp)
    · intro i hi'
      rcases List.mem_append.1 hi' with h1 | h1
      · rcases List.mem_map.1 h1 with ⟨u, hu, rfl⟩
        refine Or.inr ⟨entU u, mem_entriesW_use hu (hlive u hu), rfl, ?_⟩
        intro t s hacc
        simp only [entU] at hacc
        show t.head? = _
        rw [hacc]; rfl
      · exact Or.inl ⟨rfl, h1⟩

/-! ### every go.work operation -/

/-- validity of a go.work operation's arguments in a given state: as `ValidArgsW`, and for SetUse distinct non-empty
    directories and every typed `use` live (a Cleanup has just run) -/
def ValidArgsWAll (e : EWork) : Op → Prop
  | .setUse w _ => GoodUse w ∧ ∀ u ∈ e.f.use, liveU u = true
  | op => ValidArgsW op

/-- **one operation preserves the go.work invariant — every go.work operation, SetUse included** -/
theorem applyWork_inv_all (e e' : EWork) (op : Op) (hv : ValidArgsWAll e op) (hi : InvW e) (h : applyWork e op = some (.ok e')) :
    InvW e' := by
  cases op with
  | setUse w r =>
    simp only [applyWork, Option.some.injEq] at h
    exact setUse_inv e e' w (permOf r) (permOf_perm r) hv.1 hi hv.2 h
  | addGo v => exact applyWork_inv e e' _ (by simpa [ValidArgsWAll] using hv) hi h
  | dropGo => exact applyWork_inv e e' _ (by simpa [ValidArgsWAll] using hv) hi h
  | addToolchain n => exact applyWork_inv e e' _ (by simpa [ValidArgsWAll] using hv) hi h
  | dropToolchain => exact applyWork_inv e e' _ (by simpa [ValidArgsWAll] using hv) hi h
  | addGodebug k v => exact applyWork_inv e e' _ (by simpa [ValidArgsWAll] using hv) hi h
  | dropGodebug k => exact applyWork_inv e e' _ (by simpa [ValidArgsWAll] using hv) hi h
  | addUse d m => exact applyWork_inv e e' _ (by simpa [ValidArgsWAll] using hv) hi h
  | addNewUse d m => exact applyWork_inv e e' _ (by simpa [ValidArgsWAll] using hv) hi h
  | dropUse d => exact applyWork_inv e e' _ (by simpa [ValidArgsWAll] using hv) hi h
  | addReplace a b c d => exact applyWork_inv e e' _ (by simpa [ValidArgsWAll] using hv) hi h
  | dropReplace a b => exact applyWork_inv e e' _ (by simpa [ValidArgsWAll] using hv) hi h
  | sortBlocks => exact applyWork_inv e e' _ (by simpa [ValidArgsWAll] using hv) hi h
  | cleanup => exact applyWork_inv e e' _ (by simpa [ValidArgsWAll] using hv) hi h
  | addModule p => simp [applyWork] at h
  | addRequire p v => simp [applyWork] at h
  | addNewRequire p v i => simp [applyWork] at h
  | dropRequire p => simp [applyWork] at h
  | setRequire w r => simp [applyWork] at h
  | setRequireSeparateIndirect w r => simp [applyWork] at h
  | addExclude p v => simp [applyWork] at h
  | dropExclude p v => simp [applyWork] at h
  | addRetract a b c => simp [applyWork] at h
  | dropRetract a b => simp [applyWork] at h
  | addTool p => simp [applyWork] at h
  | dropTool p => simp [applyWork] at h

/-- every go.work operation, on the lines that existed before it -/
theorem applyWork_opKeeps (e e' : EWork) (op : Op) (hv : ValidArgsWAll e op) (hi : InvW e) (h : applyWork e op = some (.ok e')) :
    OpKeepsW e e' op := by
  cases op with
  | addGo v => simp only [applyWork, Option.some.injEq] at h; exact workAddGo_keeps e e' v h
  | dropGo => simp only [applyWork, Option.some.injEq, Except.ok.injEq] at h; subst h; exact workDropGo_keeps e
  | addToolchain n => simp only [applyWork, Option.some.injEq] at h; exact workAddToolchain_keeps e e' n h
  | dropToolchain => simp only [applyWork, Option.some.injEq, Except.ok.injEq] at h; subst h; exact workDropToolchain_keeps e
  | addGodebug k v => simp only [applyWork, Option.some.injEq] at h; exact workAddGodebug_keeps e e' k v hv hi h
  | dropGodebug k => simp only [applyWork, Option.some.injEq] at h; exact workDropGodebug_keeps e e' k hv h
  | addUse d m => simp only [applyWork, Option.some.injEq] at h; exact addUse_keeps e e' d m hv hi h
  | addNewUse d m =>
    simp only [applyWork, Option.some.injEq, Except.ok.injEq] at h; subst h; exact OpKeepsW.nil (addNewUse_keepsNil e d m hi)
  | dropUse d => simp only [applyWork, Option.some.injEq] at h; exact dropUse_keeps e e' d hv h
  | setUse w r =>
    simp only [applyWork, Option.some.injEq] at h
    exact setUse_keeps e e' w (permOf r) (permOf_perm r) hv.1 hi hv.2 h r
  | addReplace a b c d => simp only [applyWork, Option.some.injEq] at h; exact workAddReplace_keeps e e' a b c d hv hi h
  | dropReplace a b => simp only [applyWork, Option.some.injEq] at h; exact workDropReplace_keeps e e' a b hv h
  | sortBlocks => simp only [applyWork, Option.some.injEq, Except.ok.injEq] at h; subst h; exact workSortBlocks_keeps e
  | cleanup => simp only [applyWork, Option.some.injEq, Except.ok.injEq] at h; subst h; exact workCleanup_keeps e _
  | addModule p => simp [applyWork] at h
  | addRequire p v => simp [applyWork] at h
  | addNewRequire p v i => simp [applyWork] at h
  | dropRequire p => simp [applyWork] at h
  | setRequire w r => simp [applyWork] at h
  | setRequireSeparateIndirect w r => simp [applyWork] at h
  | addExclude p v => simp [applyWork] at h
  | dropExclude p v => simp [applyWork] at h
  | addRetract a b c => simp [applyWork] at h
  | dropRetract a b => simp [applyWork] at h
  | addTool p => simp [applyWork] at h
  | dropTool p => simp [applyWork] at h

/-- **one go.work operation leaves every line it does not name as it is** -/
theorem applyWork_untouched (e e' : EWork) (op : Op) (hv : ValidArgsWAll e op) (hi : InvW e) (h : applyWork e op = some (.ok e'))
    (x : XLine) (hx : x ∈ viewX e.f.syn.stmts) (hnt : ¬TargetsW op x.toks)
    (hk : SortsW op = true → x.id ∉ killEarlier e.f.replace) :
    ∃ x' ∈ viewX e'.f.syn.stmts, x.le x' := by
  rcases applyWork_opKeeps e e' op hv hi h with ⟨S, hS, hsrc⟩
  refine hS x hx (hi.x_lt hx) ?_
  intro hs
  rcases hsrc _ hs with ⟨h1, h2⟩ | ⟨en, hen, hid, ht⟩
  · exact hk h1 h2
  · exact hnt (ht _ _ (hi.acc_of_id hx hen hid))

/-! ### sessions -/

/-- every operation of the session has valid arguments in the state in which it runs -/
def RunValidW : EWork → List Op → Prop
  | _, [] => True
  | e, op :: ops =>
    ValidArgsWAll e op ∧
      (∀ e', applyWork e op = some (.ok e') → RunValidW e' ops) ∧
      (∀ err, applyWork e op = some (.error err) → err.isReturned = true → RunValidW e ops)

/-- along a go.work session: no operation names the line (by its tokens), no SortBlocks removes it as a duplicate -/
def SparedW (toks : List Bytes) (id : Nat) : EWork → List Op → Prop
  | _, [] => True
  | e, op :: ops =>
    ¬TargetsW op toks ∧ (SortsW op = true → id ∉ killEarlier e.f.replace) ∧
      (∀ e', applyWork e op = some (.ok e') → SparedW toks id e' ops) ∧
      (∀ err, applyWork e op = some (.error err) → err.isReturned = true → SparedW toks id e ops)

theorem runOpsWork_inv_all (ops : List Op) : ∀ (e : EWork) (res0 : List Bool) (i : Nat) (e' : EWork) (res : List Bool),
    RunValidW e ops → InvW e → runOps applyWork e ops res0 i = .done e' res → InvW e' := by
  induction ops with
  | nil =>
    intro e res0 i e' res _ hi h
    simp only [runOps, SessionResult.done.injEq] at h
    rw [← h.1]; exact hi
  | cons op ops ih =>
    intro e res0 i e' res hv hi h
    unfold runOps at h
    cases ha : applyWork e op with
    | none => simp [ha] at h
    | some r =>
      cases r with
      | ok e1 =>
        simp only [ha] at h
        exact ih e1 _ _ e' res (hv.2.1 e1 ha) (applyWork_inv_all e e1 op hv.1 hi ha) h
      | error err =>
        simp only [ha] at h
        by_cases hr : err.isReturned = true
        · simp only [hr, if_true] at h
          exact ih e _ _ e' res (hv.2.2 err ha hr) hi h
        · simp only [Bool.not_eq_true] at hr
          simp [hr] at h

theorem runOpsWork_untouched (ops : List Op) : ∀ (e : EWork) (res0 : List Bool) (i : Nat) (e' : EWork) (res : List Bool),
    RunValidW e ops → InvW e → runOps applyWork e ops res0 i = .done e' res →
    ∀ x ∈ viewX e.f.syn.stmts, SparedW x.toks x.id e ops → ∃ x' ∈ viewX e'.f.syn.stmts, x.le x' := by
  induction ops with
  | nil =>
    intro e res0 i e' res _ _ h x hx _
    simp only [runOps, SessionResult.done.injEq] at h
    rw [← h.1]; exact ⟨x, hx, x.le_refl⟩
  | cons op ops ih =>
    intro e res0 i e' res hv hi h x hx hsp
    unfold runOps at h
    cases ha : applyWork e op with
    | none => simp [ha] at h
    | some r =>
      cases r with
      | ok e1 =>
        simp only [ha] at h
        rcases applyWork_untouched e e1 op hv.1 hi ha x hx hsp.1 hsp.2.1 with ⟨y, hy, hxy⟩
        have hsp1 : SparedW y.toks y.id e1 ops := by rw [hxy.1, hxy.2.1]; exact hsp.2.2.1 e1 ha
        rcases ih e1 _ _ e' res (hv.2.1 e1 ha) (applyWork_inv_all e e1 op hv.1 hi ha) h y hy hsp1 with ⟨z, hz, hyz⟩
        exact ⟨z, hz, XLine.le_trans hxy hyz⟩
      | error err =>
        simp only [ha] at h
        by_cases hr : err.isReturned = true
        · simp only [hr, if_true] at h
          exact ih e _ _ e' res (hv.2.2 err ha hr) hi h x hx (hsp.2.2.2 err ha hr)
        · simp only [Bool.not_eq_true] at hr
          simp [hr] at h

/-- **C08 `untouched_lines_survive`, go.work.**  In a session of go.work operations (SetUse included) with valid arguments
    from a state satisfying the invariant, a directive line that no operation names and that no SortBlocks removes as a
    duplicate replacement (`SparedW`) is still in the tree after the final Cleanup: same line id, same full tokens, and its
    `Before` and `Suffix` comments are sublists of the final ones. -/
theorem untouched_lines_survive_work (e e' : EWork) (ops : List Op) (res : List Bool) (hi : InvW e) (hv : RunValidW e ops)
    (h : runOps applyWork e ops [] 0 = .done e' res) (x : XLine) (hx : x ∈ viewX e.f.syn.stmts)
    (hsp : SparedW x.toks x.id e ops) :
    ∃ x' ∈ viewX (workCleanup e').f.syn.stmts, x'.id = x.id ∧ x'.toks = x.toks ∧ x.before.Sublist x'.before ∧
      x.suffix.Sublist x'.suffix := by
  rcases runOpsWork_untouched ops e [] 0 e' res hv hi h x hx hsp with ⟨y, hy, hxy⟩
  rcases keeps_cleanupStmts e'.f.syn.stmts y hy (by simp) with ⟨z, hz, hyz⟩
  exact ⟨z, hz, XLine.le_trans hxy hyz⟩

end ModVerif.Modfile.Edit
