/-
  Inductive invariant of the parCache machine (helper for Props/C14.lean).
-/
import ModVerif.Model.ParCache
namespace ModVerif.ParCache
variable {V : Type}

/-- program counters at which the caller holds the entry's mutex -/
def inCS (p : PC) : Prop := p = .loadDone2 ∨ p = .runF ∨ p = .storeDone ∨ p = .unlock

structure Inv (key : Nat → Nat) (s : St V) : Prop where
  runs_le : ∀ k, s.runs k ≤ 1
  done_ran : ∀ k, (s.entry k).done = true → s.runs k = 1 ∧ (s.entry k).result = s.ran k ∧ (s.ran k).isSome = true
  notdone_runner : ∀ k, s.runs k = 1 → (s.entry k).done = false → ∃ i, key i = k ∧ s.pc i = .storeDone
  cs_locked : ∀ i, inCS (s.pc i) → (s.entry (key i)).locked = true
  cs_unique : ∀ i j, inCS (s.pc i) → inCS (s.pc j) → key i = key j → i = j
  runF_fresh : ∀ i, s.pc i = .runF → (s.entry (key i)).done = false ∧ s.runs (key i) = 0
  store_st : ∀ i, s.pc i = .storeDone → s.runs (key i) = 1 ∧ (s.entry (key i)).done = false ∧
      (s.entry (key i)).result = s.ran (key i) ∧ (s.ran (key i)).isSome = true
  after_done : ∀ i, (s.pc i = .unlock ∨ s.pc i = .ret) → (s.entry (key i)).done = true
  returned_ok : ∀ i, s.pc i = .returned → s.got i = s.ran (key i) ∧ (s.ran (key i)).isSome = true ∧ s.runs (key i) = 1
  present : ∀ i, s.pc i ≠ .idle → s.pc i ≠ .load → s.pc i ≠ .loadOrStore → (s.entry (key i)).present = true
  absent : ∀ k, (s.entry k).present = false → s.runs k = 0 ∧ (s.entry k).done = false ∧ (s.entry k).locked = false
  ran_none : ∀ k, s.runs k = 0 → s.ran k = none

theorem inv_init (key : Nat → Nat) : Inv key (init V) := by
  constructor <;> simp [init, inCS]

theorem inv_step_idle (key : Nat → Nat) (fval : Nat → V) (s s' : St V) (i : Nat)
    (hI : Inv key s) (hpc : s.pc i = .idle) (h : step key fval s i = some s') : Inv key s' := by
  obtain ⟨h1, h2, h3, h4, h5, h6, h7, h8, h9, h10, h11, h12⟩ := hI
  unfold step at h
  simp only [hpc] at h
  simp at h; subst h
  constructor <;> simp only [inCS] at * <;> grind (splits := 40) (ematch := 20) (instances := 5000) [upd]

theorem inv_step_load (key : Nat → Nat) (fval : Nat → V) (s s' : St V) (i : Nat)
    (hI : Inv key s) (hpc : s.pc i = .load) (h : step key fval s i = some s') : Inv key s' := by
  obtain ⟨h1, h2, h3, h4, h5, h6, h7, h8, h9, h10, h11, h12⟩ := hI
  unfold step at h
  simp only [hpc] at h
  simp at h; subst h
  by_cases hp : (s.entry (key i)).present = true <;> simp only [hp, if_true] <;>
  constructor <;> simp only [inCS] at * <;> grind (splits := 40) (ematch := 20) (instances := 5000) [upd]

theorem inv_step_loadOrStore (key : Nat → Nat) (fval : Nat → V) (s s' : St V) (i : Nat)
    (hI : Inv key s) (hpc : s.pc i = .loadOrStore) (h : step key fval s i = some s') : Inv key s' := by
  obtain ⟨h1, h2, h3, h4, h5, h6, h7, h8, h9, h10, h11, h12⟩ := hI
  unfold step at h
  simp only [hpc] at h
  by_cases hp : (s.entry (key i)).present = true <;> simp [hp] at h <;> subst h <;>
  constructor <;> simp only [inCS] at * <;> grind (splits := 40) (ematch := 20) (instances := 5000) [upd]

theorem inv_step_loadDone1 (key : Nat → Nat) (fval : Nat → V) (s s' : St V) (i : Nat)
    (hI : Inv key s) (hpc : s.pc i = .loadDone1) (h : step key fval s i = some s') : Inv key s' := by
  obtain ⟨h1, h2, h3, h4, h5, h6, h7, h8, h9, h10, h11, h12⟩ := hI
  unfold step at h
  simp only [hpc] at h
  simp at h; subst h
  by_cases hd : (s.entry (key i)).done = true <;> simp only [hd, if_true] <;>
  constructor <;> simp only [inCS] at * <;> grind (splits := 40) (ematch := 20) (instances := 5000) [upd]

theorem inv_step_lock (key : Nat → Nat) (fval : Nat → V) (s s' : St V) (i : Nat)
    (hI : Inv key s) (hpc : s.pc i = .lock) (h : step key fval s i = some s') : Inv key s' := by
  obtain ⟨h1, h2, h3, h4, h5, h6, h7, h8, h9, h10, h11, h12⟩ := hI
  unfold step at h
  simp only [hpc] at h
  by_cases hl : (s.entry (key i)).locked = true <;> simp [hl] at h
  subst h
  constructor <;> simp only [inCS] at * <;> grind (splits := 40) (ematch := 20) (instances := 5000) [upd]

theorem inv_step_loadDone2 (key : Nat → Nat) (fval : Nat → V) (s s' : St V) (i : Nat)
    (hI : Inv key s) (hpc : s.pc i = .loadDone2) (h : step key fval s i = some s') : Inv key s' := by
  obtain ⟨h1, h2, h3, h4, h5, h6, h7, h8, h9, h10, h11, h12⟩ := hI
  unfold step at h
  simp only [hpc] at h
  simp at h; subst h
  by_cases hd : (s.entry (key i)).done = true <;> simp only [hd, if_true] <;>
  constructor <;> simp only [inCS] at * <;> grind (splits := 40) (ematch := 20) (instances := 5000) [upd]

theorem inv_step_runF (key : Nat → Nat) (fval : Nat → V) (s s' : St V) (i : Nat)
    (hI : Inv key s) (hpc : s.pc i = .runF) (h : step key fval s i = some s') : Inv key s' := by
  obtain ⟨h1, h2, h3, h4, h5, h6, h7, h8, h9, h10, h11, h12⟩ := hI
  unfold step at h
  simp only [hpc] at h
  simp at h; subst h
  have hfresh := h6 i hpc
  cases hr : s.ran (key i) <;> simp only [] <;>
  constructor <;> simp only [inCS] at * <;> grind (splits := 40) (ematch := 20) (instances := 5000) [upd]

theorem inv_step_storeDone (key : Nat → Nat) (fval : Nat → V) (s s' : St V) (i : Nat)
    (hI : Inv key s) (hpc : s.pc i = .storeDone) (h : step key fval s i = some s') : Inv key s' := by
  obtain ⟨h1, h2, h3, h4, h5, h6, h7, h8, h9, h10, h11, h12⟩ := hI
  unfold step at h
  simp only [hpc] at h
  simp at h; subst h
  constructor <;> simp only [inCS] at * <;> grind (splits := 40) (ematch := 20) (instances := 5000) [upd]

theorem inv_step_unlock (key : Nat → Nat) (fval : Nat → V) (s s' : St V) (i : Nat)
    (hI : Inv key s) (hpc : s.pc i = .unlock) (h : step key fval s i = some s') : Inv key s' := by
  obtain ⟨h1, h2, h3, h4, h5, h6, h7, h8, h9, h10, h11, h12⟩ := hI
  unfold step at h
  simp only [hpc] at h
  simp at h; subst h
  constructor <;> simp only [inCS] at * <;> grind (splits := 40) (ematch := 20) (instances := 5000) [upd]

theorem inv_step_ret (key : Nat → Nat) (fval : Nat → V) (s s' : St V) (i : Nat)
    (hI : Inv key s) (hpc : s.pc i = .ret) (h : step key fval s i = some s') : Inv key s' := by
  obtain ⟨h1, h2, h3, h4, h5, h6, h7, h8, h9, h10, h11, h12⟩ := hI
  unfold step at h
  simp only [hpc] at h
  simp at h; subst h
  constructor <;> simp only [inCS] at * <;> grind (splits := 40) (ematch := 20) (instances := 5000) [upd]

theorem inv_step (key : Nat → Nat) (fval : Nat → V) (s s' : St V) (i : Nat)
    (hI : Inv key s) (h : step key fval s i = some s') : Inv key s' := by
  cases hpc : s.pc i
  case idle => exact inv_step_idle key fval s s' i hI hpc h
  case load => exact inv_step_load key fval s s' i hI hpc h
  case loadOrStore => exact inv_step_loadOrStore key fval s s' i hI hpc h
  case loadDone1 => exact inv_step_loadDone1 key fval s s' i hI hpc h
  case lock => exact inv_step_lock key fval s s' i hI hpc h
  case loadDone2 => exact inv_step_loadDone2 key fval s s' i hI hpc h
  case runF => exact inv_step_runF key fval s s' i hI hpc h
  case storeDone => exact inv_step_storeDone key fval s s' i hI hpc h
  case unlock => exact inv_step_unlock key fval s s' i hI hpc h
  case ret => exact inv_step_ret key fval s s' i hI hpc h
  case returned => unfold step at h; simp [hpc] at h

theorem inv_reachable (key : Nat → Nat) (fval : Nat → V) (s : St V) (h : Reachable key fval s) : Inv key s := by
  induction h with
  | init => exact inv_init key
  | step i _ hs ih => exact inv_step key fval _ _ i ih hs

end ModVerif.ParCache
