/-
  C02, clause 3 with a version fixer and retract directives — the frame of `File.add` lifted to statements:
  the directive layer on a statement that is not a `retract` line / block does not read `file.retract`.
-/
import ModVerif.Proofs.ModfileFmtRet4b
namespace ModVerif.Proofs.ModfileFmtRet
open ModVerif ModVerif.Modfile ModVerif.Proofs.ModfileC20
open ModVerif.Proofs.ModfileFmtDir ModVerif.Proofs.ModfileEol ModVerif.Proofs.ModfileFmtTree

/-- one iteration of `addStmts` -/
def stepStmt (fix : Option Fixer) (strict : Bool) (st : AddState) (x : Expr) : AddState × Expr :=
  match x with
  | .line l =>
    match l.token with
    | verb :: args =>
      ((File.add st none l verb args fix strict).1, .line { l with token := verb :: (File.add st none l verb args fix strict).2 })
    | [] => (st, x)
  | .lineBlock b =>
    match b.token with
    | [verb] =>
      if verbIn verb blockVerbs then
        ((addBlockLines b.comments verb fix strict st b.lines).1,
          .lineBlock { b with lines := (addBlockLines b.comments verb fix strict st b.lines).2 })
      else (if strict then st.err b.start .unknownBlock else st, x)
    | _ => (if strict then st.err b.start .unknownBlock else st, x)
  | _ => (st, x)

theorem addStmts_cons (fix : Option Fixer) (strict : Bool) (st : AddState) (x : Expr) (xs : List Expr) :
    addStmts fix strict st (x :: xs) =
      ((addStmts fix strict (stepStmt fix strict st x).1 xs).1,
        (stepStmt fix strict st x).2 :: (addStmts fix strict (stepStmt fix strict st x).1 xs).2) := by
  cases x with
  | line l =>
    cases l with
    | mk id comments start token inBlock «end» =>
      cases token with
      | nil => rfl
      | cons verb args => rfl
  | lineBlock b =>
    cases b with
    | mk comments start lparen token lines rparen =>
      rcases token with _ | ⟨v, _ | ⟨v2, r⟩⟩
      · rfl
      · cases hvb : verbIn v blockVerbs <;> simp [addStmts, stepStmt, hvb]
      · rfl
  | commentBlock c => rfl
  | lparen p => rfl
  | rparen p => rfl

/-- a `retract` line or a `retract` block -/
def isRetStmt : Expr → Bool
  | .line l => l.token.head? == some (B "retract")
  | .lineBlock b => b.token == [B "retract"]
  | _ => false

theorem addBlockLines_withRet (R : List Retract) (block : Comments) (verb : Bytes) (fix : Option Fixer) (strict : Bool)
    (hv : (verb == B "retract") = false) :
    ∀ (ls : List Line) (st : AddState), addBlockLines block verb fix strict (withRet R st) ls =
      (withRet R (addBlockLines block verb fix strict st ls).1, (addBlockLines block verb fix strict st ls).2) := by
  intro ls
  induction ls with
  | nil => intro st; rfl
  | cons l ls ih =>
    intro st
    simp only [addBlockLines]
    rw [add_withRet R st (some block) l verb l.token fix strict hv]
    simp only [ih]

theorem err_withRet (R : List Retract) (st : AddState) (p : Position) (k : RuleErrKind) :
    (withRet R st).err p k = withRet R (st.err p k) := rfl

/-- ★ one iteration of the statement loop on a statement other than a `retract` line / block commutes with replacing
    the list of retractions -/
theorem stepStmt_withRet (R : List Retract) (fix : Option Fixer) (strict : Bool) (st : AddState) (x : Expr)
    (hx : isRetStmt x = false) :
    stepStmt fix strict (withRet R st) x = (withRet R (stepStmt fix strict st x).1, (stepStmt fix strict st x).2) := by
  cases x with
  | line l =>
    cases l with
    | mk id comments start token inBlock «end» =>
      cases token with
      | nil => rfl
      | cons verb args =>
        have hv : (verb == B "retract") = false := by
          cases hb : verb == B "retract" with
          | false => rfl
          | true =>
            have : verb = B "retract" := by simpa using hb
            subst this
            simp [isRetStmt] at hx
        simp only [stepStmt, add_withRet R st none _ verb args fix strict hv]
  | lineBlock b =>
    cases b with
    | mk comments start lparen token lines rparen =>
      rcases token with _ | ⟨verb, _ | ⟨v2, r⟩⟩
      · cases strict <;> rfl
      · have hv : (verb == B "retract") = false := by
          cases hb : verb == B "retract" with
          | false => rfl
          | true =>
            have : verb = B "retract" := by simpa using hb
            subst this
            simp [isRetStmt] at hx
        cases hvb : verbIn verb blockVerbs with
        | true => simp [stepStmt, hvb, addBlockLines_withRet R comments verb fix strict hv]
        | false => cases strict <;> simp [stepStmt, hvb, err_withRet]
      · cases strict <;> rfl
  | commentBlock c => rfl
  | lparen p => rfl
  | rparen p => rfl

/-- ★ `addStmts_withRet`: the directive layer over statements none of which is a `retract` line / block does not read
    `file.retract` — same rewritten statements, same final state up to that list -/
theorem addStmts_withRet (R : List Retract) (fix : Option Fixer) (strict : Bool) :
    ∀ (xs : List Expr) (st : AddState), (∀ x ∈ xs, isRetStmt x = false) →
    addStmts fix strict (withRet R st) xs =
      (withRet R (addStmts fix strict st xs).1, (addStmts fix strict st xs).2) := by
  intro xs
  induction xs with
  | nil => intro st _; rfl
  | cons x xs ih =>
    intro st h
    rw [addStmts_cons, addStmts_cons, stepStmt_withRet R fix strict st x (h x (by simp))]
    simp only [ih _ (fun y hy => h y (by simp [hy]))]

theorem addStmts_single (fix : Option Fixer) (strict : Bool) (st : AddState) (x : Expr) :
    addStmts fix strict st [x] = ((stepStmt fix strict st x).1, [(stepStmt fix strict st x).2]) := by
  rw [addStmts_cons]; rfl

/-- ★ `second_run_nonretract_fixpoint` — the first run on ONE statement that is not a `retract` line / block, from ANY
    state (its retractions may be the unfixed ones `File.add` records before `fixRetract`): if the step reports no
    error and the state after it is well-formed apart from its retractions, the rewritten statement has the printable
    shape, and every statement equal to it up to positions / trimmed comments is a FIXPOINT of the directive layer
    (no error, no rewritten token) from every state that simulates the state before the step with its retractions
    removed, ending in a state that simulates the state after the step with its retractions removed.  (With
    `stepStmt_withRet` on the primed side this is the non-retract half of the second run.) -/
theorem second_run_nonretract_fixpoint (fix : Option Fixer) (hfix : ModfileFmtDir.FixOK fix) (hne : FixNE fix)
    (st : AddState) (x : Expr) (hx : isRetStmt x = false)
    (he : (stepStmt fix true st x).1.errsRev = [])
    (hwf : WellFormed (withRet [] (stepStmt fix true st x).1).file) (hw : EWFStmt x) (hnl : NlOK x) :
    EWFStmt (stepStmt fix true st x).2 ∧ NlOK (stepStmt fix true st x).2 ∧
    WellFormed (withRet [] st).file ∧ st.errsRev = [] ∧
    ∀ (st' : AddState) (x' : Expr), ModfileFmtDir.Sim (withRet [] st) st' →
      eraseExpr x' = normExprE (stepStmt fix true st x).2 →
      ∃ st1', addStmts fix true st' [x'] = (st1', [x']) ∧
        ModfileFmtDir.Sim (withRet [] (stepStmt fix true st x).1) st1' := by
  have hrun : addStmts fix true (withRet [] st) [x] =
      (withRet [] (stepStmt fix true st x).1, [(stepStmt fix true st x).2]) := by
    rw [addStmts_single, stepStmt_withRet [] fix true st x hx]
  obtain ⟨h1, h2, h3, h4, h5⟩ := addStmts_replayE fix hfix hne [x] _ _ _ hrun he hwf
    (fun s hs => by simp at hs; subst hs; exact hw) (fun s hs => by simp at hs; subst hs; exact hnl)
  refine ⟨h1 _ (by simp), h2 _ (by simp), h3, h4, ?_⟩
  intro st' x' hsim hrel
  exact h5 st' [x'] hsim (by simp [hrel])

end ModVerif.Proofs.ModfileFmtRet
