/-
  C20 `lax_ignores_unknown` at the level of input bytes, lexer half: the lexer run on `x` embedded in a
  context `pre ++ x ++ suf` is the run on `x` with every position shifted, provided `pre` is a sequence of
  complete lines and the lexer has not yet consumed the last newline of `x` (or `suf = []`).
-/
import ModVerif.Proofs.ModfileC20AppendDefs
import ModVerif.Proofs.ModfileC20Lex
namespace ModVerif.Proofs.ModfileC20Append
open ModVerif ModVerif.Modfile ModVerif.Proofs.ModfileLex ModVerif.Proofs.ModfilePos ModVerif.Proofs.ModfileC20Utf8 ModVerif.Proofs.ModfileC20

def shT (s : Sh) (t : Token) : Token := { t with pos := shP s t.pos, endPos := shP s t.endPos }

/-! ### byte facts -/

theorem getLast?_drop' {α : Type} (l : List α) (n : Nat) (h : l.drop n ≠ []) : (l.drop n).getLast? = l.getLast? := by
  conv => rhs; rw [← List.take_append_drop n l]
  rw [List.getLast?_append]
  cases hd : (l.drop n).getLast? with
  | none => rw [List.getLast?_eq_none_iff] at hd; exact absurd hd h
  | some x => simp

/-- a rune never extends over a newline byte -/
theorem decodeRune_side (r suf : Bytes) (hl : r.getLast? = some 10) :
    Utf8.decodeRune (r ++ suf) = Utf8.decodeRune r := by
  have hne : r ≠ [] := by intro h; simp [h] at hl
  apply (decodeRune_prefix _).symm
  match r, hne with
  | b0 :: rest, _ =>
    rcases decodeRune_cases b0 (rest ++ suf) with ⟨_, heq⟩ | ⟨_, _, hall⟩
    · rw [List.cons_append, heq]; simp
    · rw [List.cons_append]
      refine Nat.le_of_not_lt fun hlt => ?_
      have hmem : (10 : UInt8) ∈ (b0 :: (rest ++ suf)).take (Utf8.decodeRune (b0 :: (rest ++ suf))).2 := by
        rw [← List.cons_append, List.take_append]
        apply List.mem_append_left
        have hE : List.take (Utf8.decodeRune (b0 :: rest ++ suf)).snd (b0 :: rest) = b0 :: rest :=
          List.take_of_length_le (Nat.le_of_lt hlt)
        rw [hE]
        exact List.mem_of_getLast? hl
      have := hall _ hmem
      exact absurd this (by decide)

theorem isPrefix2_side (c1 c2 : UInt8) (r suf : Bytes) (h1 : c1 ≠ 10) (h2 : c2 ≠ 10) (hl : r.getLast? = some 10) :
    isPrefixOfB [c1, c2] (r ++ suf) = isPrefixOfB [c1, c2] r := by
  match r with
  | [] => simp at hl
  | [x] =>
    simp at hl; subst hl
    cases suf with
    | nil => rfl
    | cons y ys =>
      simp only [List.cons_append, List.nil_append, isPrefixOfB, Bool.and_true, Bool.and_false]
      simp [h1]
  | x :: y :: t => simp [isPrefixOfB]

section sim
variable (s : Sh) (pre suf : Bytes)

structure RW (i j : Input) : Prop where
  rem : j.remaining = i.remaining ++ suf
  con : j.consumedRev = i.consumedRev ++ pre.reverse
  pos : j.pos = shP s i.pos
  com : j.commentsRev = i.commentsRev
  nid : j.nextId = i.nextId + s.dn

/-- inside a token -/
structure RS (i j : Input) : Prop extends RW s pre suf i j where
  tr : j.tokRev = i.tokRev
  tp : j.token.pos = shP s i.token.pos

/-- after a token -/
structure RT (i j : Input) : Prop extends RW s pre suf i j where
  tr : j.tokRev = i.tokRev
  tok : j.token = shT s i.token

def Side (i : Input) : Prop := suf = [] ∨ i.remaining.getLast? = some 10

variable {s pre suf}

theorem Side.eof {i j : Input} (hs : Side suf i) (h : RW s pre suf i j) : j.eof = i.eof := by
  unfold Input.eof
  rw [h.rem]
  rcases hs with h0 | hl
  · simp [h0]
  · cases hr : i.remaining with
    | nil => simp [hr] at hl
    | cons a t => simp

theorem Side.peekRune {i j : Input} (hs : Side suf i) (h : RW s pre suf i j) : j.peekRune = i.peekRune := by
  unfold Input.peekRune
  rw [h.rem]
  rcases hs with h0 | hl
  · simp [h0]
  · cases hr : i.remaining with
    | nil => simp [hr] at hl
    | cons a t =>
      rw [hr] at hl
      simp only [List.cons_append]
      have := decodeRune_side (a :: t) suf hl
      rw [List.cons_append] at this
      rw [this]

theorem Side.peekPrefix {i j : Input} (hs : Side suf i) (h : RW s pre suf i j) (c1 c2 : UInt8) (h1 : c1 ≠ 10) (h2 : c2 ≠ 10) :
    j.peekPrefix [c1, c2] = i.peekPrefix [c1, c2] := by
  unfold Input.peekPrefix
  rw [h.rem]
  rcases hs with h0 | hl
  · simp [h0]
  · exact isPrefix2_side c1 c2 _ _ h1 h2 hl

/-- what `readRune` does to the side condition -/
theorem readRune_side {i i' : Input} {r : Nat} (hs : Side suf i) (h : readRune i = .ok (r, i')) :
    (r ≠ 10 → Side suf i') ∧ (Side suf i' ∨ i'.remaining = []) := by
  rcases hs with h0 | hl
  · exact ⟨fun _ => Or.inl h0, Or.inl (Or.inl h0)⟩
  · unfold readRune at h
    cases hr : i.remaining with
    | nil => simp [hr] at hl
    | cons a t =>
      rw [hr] at h hl
      simp only [Except.ok.injEq, Prod.mk.injEq] at h
      obtain ⟨h1, h2⟩ := h
      subst h2
      simp only
      have key : (a :: t).drop (Utf8.decodeRune (a :: t)).2 ≠ [] →
          ((a :: t).drop (Utf8.decodeRune (a :: t)).2).getLast? = some 10 := by
        intro hne; rw [getLast?_drop' _ _ hne]; exact hl
      constructor
      · intro hr10
        refine Or.inr (key ?_)
        intro hnil
        have hall := decodeRune_ne_newline (s := a :: t) (by simp) (by rw [h1]; exact hr10)
        have htake : (a :: t).take (Utf8.decodeRune (a :: t)).2 = a :: t := by
          have := List.take_append_drop (Utf8.decodeRune (a :: t)).2 (a :: t)
          rw [hnil, List.append_nil] at this; exact this
        rw [htake] at hall
        exact hall 10 (List.mem_of_getLast? hl) rfl
      · by_cases hnil : (a :: t).drop (Utf8.decodeRune (a :: t)).2 = []
        · exact Or.inr hnil
        · exact Or.inl (Or.inr (key hnil))

theorem readRune_rw {i i' j : Input} {r : Nat} (hs : Side suf i) (h : RW s pre suf i j)
    (hr : readRune i = .ok (r, i')) :
    ∃ j', readRune j = .ok (r, j') ∧ RW s pre suf i' j' ∧ (j.tokRev = i.tokRev → j'.tokRev = i'.tokRev) ∧
      j'.token = j.token ∧ i'.token = i.token := by
  unfold readRune at hr ⊢
  cases hrem : i.remaining with
  | nil => simp [hrem] at hr
  | cons a t =>
    have hd : Utf8.decodeRune j.remaining = Utf8.decodeRune (a :: t) := by
      rw [h.rem, hrem]
      rcases hs with h0 | hl
      · simp [h0]
      · rw [hrem] at hl; exact decodeRune_side _ _ hl
    have hw := decodeRune_width (a :: t) (by simp)
    rw [hrem] at hr
    simp only [Except.ok.injEq, Prod.mk.injEq] at hr
    obtain ⟨h1, h2⟩ := hr
    subst h2
    have hjr : j.remaining = a :: (t ++ suf) := by rw [h.rem, hrem]; rfl
    rw [hjr]
    simp only
    rw [← hjr, hd]
    subst h1
    refine ⟨_, rfl, ?_, ?_, rfl, trivial⟩
    · constructor
      · simp only; rw [h.rem, hrem, List.drop_append_of_le_length hw.2]
      · simp only; rw [h.rem, hrem, h.con, List.take_append_of_le_length hw.2, List.append_assoc]
      · simp only [h.pos, shP]
        split <;> simp <;> omega
      · exact h.com
      · exact h.nid
    · intro ht
      simp only; rw [h.rem, hrem, List.take_append_of_le_length hw.2, ht]

theorem readRune_rs {i i' j : Input} {r : Nat} (hs : Side suf i) (h : RS s pre suf i j)
    (hr : readRune i = .ok (r, i')) : ∃ j', readRune j = .ok (r, j') ∧ RS s pre suf i' j' := by
  obtain ⟨j', hj, hw, ht, htj, hti⟩ := readRune_rw hs h.toRW hr
  exact ⟨j', hj, ⟨hw, ht h.tr, by rw [htj, hti]; exact h.tp⟩⟩

theorem readRune_peek {i i' : Input} {r : Nat} (hr : readRune i = .ok (r, i')) : r = i.peekRune := by
  unfold readRune at hr
  unfold Input.peekRune
  cases hrem : i.remaining with
  | nil => simp [hrem] at hr
  | cons a t =>
    rw [hrem] at hr
    simp only [Except.ok.injEq, Prod.mk.injEq] at hr
    exact hr.1.symm

theorem skipSpaces_sim : ∀ (fuel : Nat) (i j i' : Input), Side suf i → RW s pre suf i j →
    skipSpaces fuel i = .ok i' → ∃ j', skipSpaces fuel j = .ok j' ∧ RW s pre suf i' j' ∧ Side suf i' := by
  intro fuel
  induction fuel with
  | zero => intro i j i' _ _ h; simp [skipSpaces] at h
  | succ n ih =>
    intro i j i' hs h hr
    unfold skipSpaces at hr ⊢
    rw [hs.eof h, hs.peekRune h]
    by_cases he : i.eof = true
    · simp only [he, if_true] at hr ⊢
      cases hr
      exact ⟨j, rfl, h, hs⟩
    · simp only [he] at hr ⊢
      by_cases hc : (i.peekRune == 32 || i.peekRune == 9 || i.peekRune == 13) = true
      · simp only [hc, if_true, Bool.false_eq_true, if_false] at hr ⊢
        cases hrr : readRune i with
        | error e => simp [hrr, bind, Except.bind] at hr
        | ok v =>
          obtain ⟨r, i1⟩ := v
          simp only [hrr, bind, Except.bind] at hr
          obtain ⟨j1, hj1, hrw1, _⟩ := readRune_rw hs h hrr
          have hr10 : r ≠ 10 := by
            rw [readRune_peek hrr]; intro h10; rw [h10] at hc; simp at hc
          have hs1 := (readRune_side hs hrr).1 hr10
          simp only [hj1, bind, Except.bind]
          exact ih i1 j1 i' hs1 hrw1 hr
      · simp only [hc, Bool.false_eq_true, if_false] at hr ⊢
        cases hr
        exact ⟨j, rfl, h, hs⟩

theorem isIdent_10 : isIdent 10 = false := by decide +kernel

theorem readIdent_sim : ∀ (fuel : Nat) (i j i' : Input), Side suf i → RS s pre suf i j →
    readIdent fuel i = .ok i' → ∃ j', readIdent fuel j = .ok j' ∧ RS s pre suf i' j' ∧ Side suf i' := by
  intro fuel
  induction fuel with
  | zero => intro i j i' _ _ h; simp [readIdent] at h
  | succ n ih =>
    intro i j i' hs h hr
    unfold readIdent at hr ⊢
    rw [hs.peekRune h.toRW, hs.peekPrefix h.toRW 47 47 (by decide) (by decide),
      hs.peekPrefix h.toRW 47 42 (by decide) (by decide)]
    by_cases hc : isIdent i.peekRune = true
    · simp only [hc, if_true] at hr ⊢
      by_cases h1 : i.peekPrefix [47, 47] = true
      · simp only [h1, if_true] at hr ⊢
        cases hr
        exact ⟨j, rfl, h, hs⟩
      · simp only [h1, Bool.false_eq_true, if_false] at hr ⊢
        by_cases h2 : i.peekPrefix [47, 42] = true
        · simp [h2] at hr
        · simp only [h2, Bool.false_eq_true, if_false] at hr ⊢
          cases hrr : readRune i with
          | error e => simp [hrr, bind, Except.bind] at hr
          | ok v =>
            obtain ⟨r, i1⟩ := v
            simp only [hrr, bind, Except.bind] at hr
            obtain ⟨j1, hj1, hrs1⟩ := readRune_rs hs h hrr
            have hr10 : r ≠ 10 := by
              rw [readRune_peek hrr]; intro h10; rw [h10, isIdent_10] at hc; cases hc
            have hs1 := (readRune_side hs hrr).1 hr10
            simp only [hj1, bind, Except.bind]
            exact ih i1 j1 i' hs1 hrs1 hr
    · simp only [hc, Bool.false_eq_true, if_false] at hr ⊢
      cases hr
      exact ⟨j, rfl, h, hs⟩

theorem side_of_ok {i : Input} (hsuf : suf ≠ []) (h : Side suf i ∨ i.remaining = [])
    (hne : i.remaining ≠ []) : Side suf i := by
  rcases h with h | h
  · exact h
  · exact absurd h hne

theorem readString_sim (q : Nat) (hq : q ≠ 10) : ∀ (fuel : Nat) (i j i' : Input), Side suf i → RS s pre suf i j →
    readString q fuel i = .ok i' → ∃ j', readString q fuel j = .ok j' ∧ RS s pre suf i' j' ∧ Side suf i' := by
  intro fuel
  induction fuel with
  | zero => intro i j i' _ _ h; simp [readString] at h
  | succ n ih =>
    intro i j i' hs h hr
    unfold readString at hr ⊢
    rw [hs.peekRune h.toRW, hs.eof h.toRW]
    by_cases he : i.eof = true
    · simp [he] at hr
    · simp only [he, Bool.false_eq_true, if_false] at hr ⊢
      by_cases hn : (i.peekRune == 10) = true
      · simp [hn] at hr
      · simp only [hn, Bool.false_eq_true, if_false] at hr ⊢
        cases hrr : readRune i with
        | error e => simp [hrr, bind, Except.bind] at hr
        | ok v =>
          obtain ⟨c, i1⟩ := v
          simp only [hrr, bind, Except.bind] at hr
          obtain ⟨j1, hj1, hrs1⟩ := readRune_rs hs h hrr
          have hc10 : c ≠ 10 := by
            rw [readRune_peek hrr]; intro h10; rw [h10] at hn; simp at hn
          have hs1 := (readRune_side hs hrr).1 hc10
          simp only [hj1, bind, Except.bind]
          by_cases hcq : (c == q) = true
          · simp only [hcq, if_true] at hr ⊢
            cases hr
            exact ⟨j1, rfl, hrs1, hs1⟩
          · simp only [hcq, Bool.false_eq_true, if_false] at hr ⊢
            by_cases hesc : (c == 92 && q != 96) = true
            · simp only [hesc, if_true] at hr ⊢
              rw [hs1.eof hrs1.toRW]
              by_cases he1 : i1.eof = true
              · simp [he1] at hr
              · simp only [he1, Bool.false_eq_true, if_false] at hr ⊢
                cases hrr2 : readRune i1 with
                | error e => simp [hrr2, bind, Except.bind] at hr
                | ok v2 =>
                  obtain ⟨c2, i2⟩ := v2
                  simp only [hrr2, bind, Except.bind] at hr
                  obtain ⟨j2, hj2, hrs2⟩ := readRune_rs hs1 hrs1 hrr2
                  simp only [hj2, bind, Except.bind]
                  have hs2 : Side suf i2 := by
                    rcases (readRune_side hs1 hrr2).2 with h2 | h2
                    · exact h2
                    · exfalso
                      cases n with
                      | zero => simp [readString] at hr
                      | succ m =>
                        unfold readString at hr
                        have : i2.eof = true := by simp [Input.eof, h2]
                        simp [this] at hr
                  exact ih i2 j2 i' hs2 hrs2 hr
            · simp only [hesc, Bool.false_eq_true, if_false] at hr ⊢
              exact ih i1 j1 i' hs1 hrs1 hr

theorem skipSpaces_fuel : ∀ (fuel k : Nat) (i i' : Input), skipSpaces fuel i = .ok i' → skipSpaces (fuel + k) i = .ok i' := by
  intro fuel
  induction fuel with
  | zero => intro k i i' h; simp [skipSpaces] at h
  | succ n ih =>
    intro k i i' h
    rw [show n + 1 + k = (n + k) + 1 by omega]
    unfold skipSpaces at h ⊢
    by_cases he : i.eof = true
    · simp only [he, if_true] at h ⊢; exact h
    · simp only [he] at h ⊢
      by_cases hc : (i.peekRune == 32 || i.peekRune == 9 || i.peekRune == 13) = true
      · simp only [hc, if_true, Bool.false_eq_true, if_false] at h ⊢
        cases hrr : readRune i with
        | error e => simp [hrr, bind, Except.bind] at h
        | ok v =>
          simp only [hrr, bind, Except.bind] at h ⊢
          exact ih k _ _ h
      · simp only [hc, Bool.false_eq_true, if_false] at h ⊢; exact h

theorem readIdent_fuel : ∀ (fuel k : Nat) (i i' : Input), readIdent fuel i = .ok i' → readIdent (fuel + k) i = .ok i' := by
  intro fuel
  induction fuel with
  | zero => intro k i i' h; simp [readIdent] at h
  | succ n ih =>
    intro k i i' h
    rw [show n + 1 + k = (n + k) + 1 by omega]
    unfold readIdent at h ⊢
    split
    · rename_i hc
      simp only [hc, if_true] at h
      split
      · rename_i h1; simpa [h1] using h
      · rename_i h1
        simp only [h1] at h
        split
        · rename_i h2; simp [h2] at h
        · rename_i h2
          simp only [h2] at h
          cases hrr : readRune i with
          | error e => simp [hrr, bind, Except.bind] at h
          | ok v =>
            simp only [hrr, bind, Except.bind] at h ⊢
            exact ih k _ _ h
    · rename_i hc
      simpa [hc] using h

theorem readString_fuel (q : Nat) : ∀ (fuel k : Nat) (i i' : Input), readString q fuel i = .ok i' →
    readString q (fuel + k) i = .ok i' := by
  intro fuel
  induction fuel with
  | zero => intro k i i' h; simp [readString] at h
  | succ n ih =>
    intro k i i' h
    rw [show n + 1 + k = (n + k) + 1 by omega]
    unfold readString at h ⊢
    split
    · rename_i he; simp [he] at h
    · rename_i he
      simp only [he] at h
      split
      · rename_i hn; simp [hn] at h
      · rename_i hn
        simp only [hn] at h
        cases hrr : readRune i with
        | error e => simp [hrr, bind, Except.bind] at h
        | ok v =>
          simp only [hrr, bind, Except.bind] at h ⊢
          split
          · rename_i hcq; simpa [hcq] using h
          · rename_i hcq
            simp only [hcq] at h
            split
            · rename_i hesc
              simp only [hesc, if_true] at h
              split
              · rename_i he1; simp [he1] at h
              · rename_i he1
                simp only [he1] at h
                cases hrr2 : readRune v.2 with
                | error e => simp [hrr2] at h
                | ok v2 =>
                  simp only [hrr2] at h ⊢
                  exact ih k _ _ h
            · rename_i hesc
              simp only [hesc] at h
              exact ih k _ _ h

theorem noSS_peek {D : Bytes} {i : Input} (hD : NoSS D) (hi : LInv0 D i) : i.peekPrefix [47, 47] = false := by
  cases hp : i.peekPrefix [47, 47] with
  | false => rfl
  | true =>
    exfalso
    apply hD
    unfold Input.peekPrefix at hp
    have hsp := hi.base.split
    match hr : i.remaining, hp with
    | x :: y :: t, hp =>
      simp only [isPrefixOfB, Bool.and_true, Bool.and_eq_true, beq_iff_eq] at hp
      refine ⟨i.consumedRev.reverse, t, ?_⟩
      rw [← hsp, hr, ← hp.1, ← hp.2]; simp
    | [], hp => simp [isPrefixOfB] at hp
    | [x], hp => simp [isPrefixOfB] at hp

theorem startToken_rs {i j : Input} (h : RW s pre suf i j) : RS s pre suf (startToken i) (startToken j) :=
  ⟨⟨h.rem, h.con, h.pos, h.com, h.nid⟩, rfl, h.pos⟩

theorem endToken_rt {i j : Input} (k : TokKind) (hk : k.isComment = false) (h : RS s pre suf i j) :
    RT s pre suf (endToken k i) (endToken k j) := by
  unfold endToken
  simp only [hk, Bool.false_eq_true, if_false]
  exact ⟨⟨h.rem, h.con, h.pos, h.com, h.nid⟩, h.tr, by simp only [shT, h.tp, h.pos, h.tr]⟩

/-- one token in context -/
theorem readToken_sim {D : Bytes} {i j i' : Input} (hD : NoSS D) (hi : LInv0 D i) (hs : Side suf i)
    (h : RW s pre suf i j) (hr : readToken i = .ok i') :
    ∃ j', readToken j = .ok j' ∧ RT s pre suf i' j' ∧ i'.token.kind.isComment = false ∧
      (Side suf i' ∨ (i'.remaining = [] ∧ i'.token.kind = .punct 10)) := by
  have hR0 : ∀ i r i', LInv0 D i → readRune i = .ok (r, i') → LInv0 D i' := fun _ _ _ hp hr => linv0_readRune hp hr
  have hQ0 : ∀ i, LInv0 D i → PosOK D i.pos := fun _ hp => hp.cur
  have h0 := skipSpaces_res hR0 hQ0 (i.remaining.length + 1) i hi
  unfold readToken at hr ⊢
  have hlen : j.remaining.length + 1 = (i.remaining.length + 1) + suf.length := by rw [h.rem]; simp; omega
  cases hsk : skipSpaces (i.remaining.length + 1) i with
  | error e => simp [hsk, bind, Except.bind] at hr
  | ok i1 =>
    rw [hsk] at h0
    simp only [hsk, bind, Except.bind] at hr
    obtain ⟨j1, hj1, hw1, hs1⟩ := skipSpaces_sim (i.remaining.length + 1) i j i1 hs h hsk
    have hj1' : skipSpaces (j.remaining.length + 1) j = .ok j1 := by
      rw [hlen]; exact skipSpaces_fuel _ _ _ _ hj1
    simp only [hj1', bind, Except.bind]
    have hp1 := noSS_peek hD h0
    rw [hs1.peekPrefix hw1 47 47 (by decide) (by decide), hs1.peekPrefix hw1 47 42 (by decide) (by decide),
      hs1.eof hw1]
    simp only [hp1, Bool.and_false, Bool.false_eq_true, if_false] at hr ⊢
    by_cases hbc : (!i1.eof && i1.peekPrefix [47, 42]) = true
    · simp [hbc] at hr
    · simp only [hbc, Bool.false_eq_true, if_false] at hr ⊢
      have hst := startToken_rs hw1
      have hss : Side suf (startToken i1) := hs1
      have hse : (startToken j1).eof = (startToken i1).eof := hss.eof hst.toRW
      have hsp : (startToken j1).peekRune = (startToken i1).peekRune := hss.peekRune hst.toRW
      rw [hse, hsp]
      by_cases he : (startToken i1).eof = true
      · simp only [he, if_true] at hr ⊢
        cases hr
        refine ⟨_, rfl, endToken_rt _ rfl hst, rfl, ?_⟩
        rcases hs1 with h0' | hl
        · exact Or.inl (Or.inl h0')
        · exfalso
          have : i1.remaining = [] := by
            have := he; simp only [Input.eof, startToken, List.isEmpty_iff] at this; exact this
          rw [this] at hl; simp at hl
      · simp only [he, Bool.false_eq_true, if_false] at hr ⊢
        by_cases hpu : isPunct (startToken i1).peekRune = true
        · simp only [hpu, if_true] at hr ⊢
          cases hrr : readRune (startToken i1) with
          | error e => simp [hrr] at hr
          | ok v =>
            obtain ⟨r, i2⟩ := v
            simp only [hrr] at hr
            cases hr
            obtain ⟨j2, hj2, hrs2⟩ := readRune_rs hss hst hrr
            simp only [hj2]
            refine ⟨_, rfl, endToken_rt _ rfl hrs2, rfl, ?_⟩
            have hrp := readRune_peek hrr
            have hsd := readRune_side hss hrr
            by_cases h10 : r = 10
            · rcases hsd.2 with h2 | h2
              · exact Or.inl h2
              · refine Or.inr ⟨h2, ?_⟩
                show TokKind.punct (UInt8.ofNat (startToken i1).peekRune) = .punct 10
                rw [← hrp, h10]; rfl
            · exact Or.inl (hsd.1 h10)
        · simp only [hpu, Bool.false_eq_true, if_false] at hr ⊢
          by_cases hq : quoteRunes.contains (startToken i1).peekRune = true
          · simp only [hq, if_true] at hr ⊢
            have hq10 : (startToken i1).peekRune ≠ 10 := by
              intro h10; rw [h10] at hq; simp [quoteRunes] at hq
            cases hrr : readRune (startToken i1) with
            | error e => simp [hrr] at hr
            | ok v =>
              obtain ⟨r, i2⟩ := v
              simp only [hrr] at hr
              obtain ⟨j2, hj2, hrs2⟩ := readRune_rs hss hst hrr
              have hs2 := (readRune_side hss hrr).1 (by rw [readRune_peek hrr]; exact hq10)
              simp only [hj2]
              cases hrs : readString (startToken i1).peekRune (i2.remaining.length + 1) i2 with
              | error e => simp [hrs] at hr
              | ok i3 =>
                simp only [hrs] at hr
                cases hr
                obtain ⟨j3, hj3, hrs3, hs3⟩ := readString_sim _ hq10 _ i2 j2 i3 hs2 hrs2 hrs
                have hlen2 : j2.remaining.length + 1 = (i2.remaining.length + 1) + suf.length := by
                  rw [hrs2.rem]; simp; omega
                rw [hlen2, readString_fuel _ _ _ _ _ hj3]
                exact ⟨_, rfl, endToken_rt _ rfl hrs3, rfl, Or.inl hs3⟩
          · simp only [hq, Bool.false_eq_true, if_false] at hr ⊢
            by_cases hid : isIdent (startToken i1).peekRune = true
            · simp only [hid, Bool.not_true, Bool.false_eq_true, if_false] at hr ⊢
              split at hr
              · cases hr
              · rename_i i3 hv
                have hri : readIdent ((startToken i1).remaining.length + 1) (startToken i1) = .ok i3 := hv
                cases hr
                obtain ⟨j3, hj3, hrs3, hs3⟩ := readIdent_sim _ (startToken i1) (startToken j1) i3 hss hst hri
                have hlen2 : (startToken j1).remaining.length + 1 = ((startToken i1).remaining.length + 1) + suf.length := by
                  rw [hst.rem]; simp; omega
                rw [hlen2, readIdent_fuel _ _ _ _ hj3]
                exact ⟨_, rfl, endToken_rt _ rfl hrs3, rfl, Or.inl hs3⟩
            · simp [hid] at hr

end sim
end ModVerif.Proofs.ModfileC20Append
