/-
  Helper lemmas for Tie/FnEditSort.lean (part C): `File_removeDups` / `WorkFile_removeDups` on a represented heap.
-/
import ModVerif.Proofs.TieFnEditSortB
set_option linter.unusedSimpArgs false
set_option linter.unusedVariables false
namespace ModVerif.Tie.FnEditSortC
open ModVerif ModVerif.GoRt ModVerif.Generated.Edit ModVerif.Tie.FnEditRep ModVerif.Tie.FnEditSortA ModVerif.Tie.FnEditSortB
open ModVerif.Modfile.Edit (treeIds dropKilled killLater killEarlier removeDups EFile EWork)

/-! ### model side -/

theorem treeIds_dropKilled (kl : List Nat) : ∀ ss : List Modfile.Expr, (treeIds (dropKilled kl ss)).Sublist (treeIds ss)
  | [] => List.Sublist.refl _
  | s :: ss => by
    have ih := treeIds_dropKilled kl ss
    rw [Modfile.Edit.treeIds_cons s ss]
    cases s with
    | line l =>
      simp only [dropKilled]
      split
      · exact List.Sublist.trans ih (List.sublist_append_right _ _)
      · rw [Modfile.Edit.treeIds_cons]; exact List.Sublist.append (List.Sublist.refl _) ih
    | lineBlock b =>
      simp only [dropKilled]
      split
      · exact List.Sublist.trans ih (List.sublist_append_right _ _)
      · rw [Modfile.Edit.treeIds_cons, Modfile.Edit.treeIds_block, Modfile.Edit.treeIds_block]
        exact List.Sublist.append (List.Sublist.map _ List.filter_sublist) ih
    | commentBlock c =>
      simp only [dropKilled]; rw [Modfile.Edit.treeIds_cons]; exact List.Sublist.append (List.Sublist.refl _) ih
    | lparen c =>
      simp only [dropKilled]; rw [Modfile.Edit.treeIds_cons]; exact List.Sublist.append (List.Sublist.refl _) ih
    | rparen c =>
      simp only [dropKilled]; rw [Modfile.Edit.treeIds_cons]; exact List.Sublist.append (List.Sublist.refl _) ih

theorem BlockTokOK_dropKilled (kl : List Nat) : ∀ ss : List Modfile.Expr, BlockTokOK ss → BlockTokOK (dropKilled kl ss)
  | [], h => h
  | s :: ss, h => by
    have ih := BlockTokOK_dropKilled kl ss (fun b hb => h b (List.mem_cons_of_mem _ hb))
    cases s with
    | line l =>
      simp only [dropKilled]
      split
      · exact ih
      · intro b hb; rcases List.mem_cons.1 hb with hb | hb
        · cases hb
        · exact ih b hb
    | lineBlock b0 =>
      simp only [dropKilled]
      split
      · exact ih
      · intro b hb; rcases List.mem_cons.1 hb with hb | hb
        · simp only [Modfile.Expr.lineBlock.injEq] at hb; subst hb; exact h b0 List.mem_cons_self
        · exact ih b hb
    | commentBlock c =>
      simp only [dropKilled]
      intro b hb; rcases List.mem_cons.1 hb with hb | hb
      · cases hb
      · exact ih b hb
    | lparen c =>
      simp only [dropKilled]
      intro b hb; rcases List.mem_cons.1 hb with hb | hb
      · cases hb
      · exact ih b hb
    | rparen c =>
      simp only [dropKilled]
      intro b hb; rcases List.mem_cons.1 hb with hb | hb
      · cases hb
      · exact ih b hb

/-- the kill sets of `removeDups` on a go.mod -/
def k1 (e : EFile) : List Nat := killLater (fun x : Modfile.Exclude => x.mod) (·.lineId) e.f.exclude []
def k2 (e : EFile) : List Nat := k1 e ++ killEarlier e.f.replace
def k3 (e : EFile) : List Nat := k2 e ++ killLater (fun t : Modfile.Tool => t.path) (·.lineId) e.f.tool []

/-- `f.removeDups()` on the model (the first line of the model's `sortBlocks`) -/
def removeDupsE (e : EFile) : EFile :=
  let r := removeDups e.f.syn (some e.f.exclude) e.f.replace (some e.f.tool)
  { e with f := { e.f with exclude := r.2.1.getD [], replace := r.2.2.1, tool := r.2.2.2.getD [], syn := r.1 } }

theorem removeDupsE_eq (e : EFile) : removeDupsE e =
    { e with f := { e.f with
        exclude := e.f.exclude.filter (fun x => !(k1 e).contains x.lineId)
        replace := e.f.replace.filter (fun x => !(k2 e).contains x.lineId)
        tool := e.f.tool.filter (fun x => !(k3 e).contains x.lineId)
        syn := { e.f.syn with stmts := dropKilled (k3 e) e.f.syn.stmts } } } := rfl

/-- fuel measure of `removeDups` -/
def dupsSize (e : EFile) : Nat := e.f.exclude.length + e.f.replace.length + e.f.tool.length + nodes e.f.syn.stmts

/-! ### the loops on a represented heap -/

theorem loop1_run {h : Heap} {zs : List (Int × Modfile.Exclude)} {nl : Nat} (hz : ZEnts h.excludes excludeG (·.lineId) nl zs)
    (f : Int) (fuel : Nat) (hf : zs.length < fuel) :
    ∃ km hv, File_removeDups_loop1 (zs.map (·.1)) f h fuel 0 [] [] = .ok (len (zs.map (·.1)), km, hv) ∧
      KillRel km (killLater (fun x : Modfile.Exclude => x.mod) (·.lineId) (zs.map (·.2)) []) := by
  rw [loop1_eq]
  obtain ⟨km, hv, e1, e2⟩ := seenLoopG_spec mvG (fun a b => mvG_inj)
    (fun x => do let t ← heapGet h.excludes x; pure (t.Mod, t.Syntax)) (fun x : Modfile.Exclude => x.mod) (·.lineId)
    zs [] (zs.map (·.1)) 0 fuel [] [] [] [] (by simp) rfl hf
    (fun z hzm => by simp [(hz z hzm).1, bind, Except.bind, pure, Except.pure]) KillRel.nil (SeenRel.nil _)
  exact ⟨km, hv, e1, by simpa using e2⟩

theorem loop5_run {h : Heap} {zs : List (Int × Modfile.Tool)} {nl : Nat} (hz : ZEnts h.tools toolG (·.lineId) nl zs)
    (f : Int) (fuel : Nat) (hf : zs.length < fuel) {km0 : List (Int × Bool)} {kl0 : List Nat} (hK : KillRel km0 kl0) :
    ∃ km hv, File_removeDups_loop5 (zs.map (·.1)) f h fuel 0 km0 [] = .ok (len (zs.map (·.1)), km, hv) ∧
      KillRel km (kl0 ++ killLater (fun x : Modfile.Tool => x.path) (·.lineId) (zs.map (·.2)) []) := by
  rw [loop5_eq]
  exact seenLoopG_spec (fun b : Bytes => b) (fun a b e => e)
    (fun x => do let t ← heapGet h.tools x; pure (t.Path, t.Syntax)) (fun x : Modfile.Tool => x.path) (·.lineId)
    zs [] (zs.map (·.1)) 0 fuel km0 [] kl0 [] (by simp) rfl hf
    (fun z hzm => by simp [(hz z hzm).1, bind, Except.bind, pure, Except.pure]) hK (SeenRel.nil _)

theorem backLoop_run {h : Heap} {zs : List (Int × Modfile.Replace)} {nl : Nat} (hz : ZEnts h.replaces replaceG (·.lineId) nl zs)
    (fuel : Nat) (hf : zs.length < fuel) {km0 : List (Int × Bool)} {kl0 : List Nat} (hK : KillRel km0 kl0) :
    ∃ km hv, seenBackLoopG (fun x => do let t ← heapGet h.replaces x; pure (t.Old, t.Syntax)) (zs.map (·.1)) fuel km0 []
        (len (zs.map (·.1)) - 1) = .ok (km, hv, -1) ∧
      KillRel km (kl0 ++ killEarlier (zs.map (·.2))) := by
  obtain ⟨km, hv, e1, e2⟩ := seenBackLoopG_spec (fun x => do let t ← heapGet h.replaces x; pure (t.Old, t.Syntax))
    zs.reverse [] (zs.map (·.1)) (len (zs.map (·.1)) - 1) fuel km0 [] kl0 (by simp) (by simp [len_eq]) (by simpa using hf)
    (fun z hzm => by simp [(hz z (List.mem_reverse.1 hzm)).1, bind, Except.bind, pure, Except.pure])
    (by simpa [killEarlier] using hK) (SeenRel.nil _)
  exact ⟨km, hv, e1, by simpa using e2⟩

theorem filter_run {α β : Type} (objs : List α) (g : β → α) (syn : α → Int) (id : β → Nat) (hsyn : ∀ x, syn (g x) = (id x : Int))
    {nl : Nat} {zs : List (Int × β)} (hz : ZEnts objs g id nl zs)
    (fuel : Nat) (hf : zs.length < fuel) {km : List (Int × Bool)} {kl : List Nat} (hK : KillRel km kl) :
    filterLoopG (fun x => do let t ← heapGet objs x; pure (!(mapGet km (syn t) false).1)) (zs.map (·.1)) fuel 0 [] =
      .ok (len (zs.map (·.1)), (zs.filter (fun z => !kl.contains (id z.2))).map (·.1)) :=
  filterLoopG_zip _ (fun x => !kl.contains (id x)) zs fuel hf
    (fun z hzm => by simp [(hz z hzm).1, bind, Except.bind, pure, Except.pure, hsyn, hK (id z.2)])

theorem mods_set_get {l : List File} {p : Int} {o : File} (ho : heapGet l p = .ok o) (v : File) :
    heapGet (l.set (p.toNat - 1) v) p = .ok v := heapGet_listSet_same v ho

theorem bind_ok {α β : Type} {x : M α} {a : α} (f : α → M β) (h : x = .ok a) : (x >>= f) = f a := by rw [h]; rfl

/-- one step of a `do` block whose first action is known -/
macro "step " h:term : tactic => `(tactic| (rw [bind_ok _ $h]; try dsimp only))

/-- **`File.removeDups` on a represented heap is the model's `removeDups`** -/
theorem File_removeDups_sim {h : Heap} {fp : Int} {e : EFile} (R : RepF h fp e) (fuel : Nat) (hf : dupsSize e < fuel) :
    ∃ h', File_removeDups fuel fp h = .ok ((), h') ∧ RepF h' fp (removeDupsE e) := by
  obtain ⟨o, ho, R⟩ := R
  obtain ⟨zex, hex1, hex2, hex3⟩ := REntsL.toZip R.exclude.rel
  obtain ⟨zrp, hrp1, hrp2, hrp3⟩ := REntsL.toZip R.replace.rel
  obtain ⟨ztl, htl1, htl2, htl3⟩ := REntsL.toZip R.tool.rel
  obtain ⟨es, Rs⟩ := R.syn
  have hfe : zex.length < fuel := by
    have : zex.length = e.f.exclude.length := by rw [hex2]; simp
    unfold dupsSize at hf; omega
  have hfr : zrp.length < fuel := by
    have : zrp.length = e.f.replace.length := by rw [hrp2]; simp
    unfold dupsSize at hf; omega
  have hft : ztl.length < fuel := by
    have : ztl.length = e.f.tool.length := by rw [htl2]; simp
    unfold dupsSize at hf; omega
  have hfs : nodes e.f.syn.stmts < fuel := by unfold dupsSize at hf; omega
  unfold File_removeDups
  step ho
  step ho
  -- loops 1, 2
  obtain ⟨km1, hv1, l1, K1⟩ := loop1_run hex3 fp fuel hfe
  rw [← hex2] at K1
  rw [← hex1] at l1
  step l1
  have l2 := filter_run h.excludes excludeG (·.Syntax) (·.lineId) (fun _ => rfl) hex3 fuel hfe K1
  obtain ⟨excl, hexcl⟩ : ∃ x, x = (zex.filter (fun z => !(k1 e).contains z.2.lineId)).map (·.1) := ⟨_, rfl⟩
  rw [show killLater (fun x : Modfile.Exclude => x.mod) (·.lineId) e.f.exclude [] = k1 e from rfl, ← hexcl, ← hex1] at l2
  step ho
  rw [loop2_eq]
  step l2
  step ho
  step (heapSet_of_get _ ho)
  step (mods_set_get ho _)
  -- loops 3, 4
  rw [loop3_eq fp _ _ (mods_set_get ho _)]
  dsimp only
  obtain ⟨km2, hv2, l3, K2⟩ := backLoop_run hrp3 fuel hfr K1
  rw [← hrp2] at K2
  rw [← hrp1] at l3
  step l3
  step (mods_set_get ho _)
  rw [loop4_eq]
  dsimp only
  have l4 := filter_run h.replaces replaceG (·.Syntax) (·.lineId) (fun _ => rfl) hrp3 fuel hfr K2
  obtain ⟨repl, hrepl⟩ : ∃ x, x = (zrp.filter (fun z => !(k2 e).contains z.2.lineId)).map (·.1) := ⟨_, rfl⟩
  rw [show killLater (fun x : Modfile.Exclude => x.mod) (·.lineId) e.f.exclude [] ++ killEarlier e.f.replace = k2 e from rfl,
    ← hrepl, ← hrp1] at l4
  step l4
  step (mods_set_get ho _)
  step (heapSet_listSet_same ho _ _)
  step (mods_set_get ho _)
  -- loops 5, 6
  obtain ⟨km3, hv3, l5, K3⟩ :=
    loop5_run (h := { h with mods := h.mods.set (fp.toNat - 1) ({ o with Exclude := excl, Replace := repl } : File) })
      htl3 fp fuel hft K2
  rw [← htl2] at K3
  rw [← htl1] at l5
  step l5
  step (mods_set_get ho _)
  rw [loop6_eq]
  dsimp only
  have l6 := filter_run h.tools toolG (·.Syntax) (·.lineId) (fun _ => rfl) htl3 fuel hft K3
  obtain ⟨ntool, hntool⟩ : ∃ x, x = (ztl.filter (fun z => !(k3 e).contains z.2.lineId)).map (·.1) := ⟨_, rfl⟩
  rw [show killLater (fun x : Modfile.Exclude => x.mod) (·.lineId) e.f.exclude [] ++ killEarlier e.f.replace ++
    killLater (fun x : Modfile.Tool => x.path) (·.lineId) e.f.tool [] = k3 e from rfl, ← hntool, ← htl1] at l6
  step l6
  step (mods_set_get ho _)
  step (heapSet_listSet_same ho _ _)
  step Rs.file
  rw [fileG_Stmt]
  -- loop 7
  obtain ⟨o3, ho3⟩ : ∃ x : File, x = { o with Exclude := excl, Replace := repl, Tool := ntool } := ⟨_, rfl⟩
  obtain ⟨h3, hh3⟩ : ∃ x : Heap, x = { h with mods := h.mods.set (fp.toNat - 1) o3 } := ⟨_, rfl⟩
  have rs3 : RStmts h3 es e.f.syn.stmts := by
    rw [hh3]; refine RStmts.mono (h := h) ?_ ?_ ?_ Rs.stmts <;> exact fun _ _ x => x
  obtain ⟨bl', es', l7, b1, b2, b3, b4⟩ := loop7_spec o.Syntax km3 (k3 e) K3 es e.f.syn.stmts [] es 0 fuel h3 [] rfl rfl hfs rs3 Rs.nodupB
  rw [hh3, ho3] at l7 b3
  step l7
  step Rs.file
  step (heapSet_of_get _ Rs.file)
  refine ⟨_, rfl, ?_⟩
  rw [removeDupsE_eq]
  refine ⟨_, mods_set_get ho _, ?_⟩
  exact {
    syn := ⟨es', heapGet_listSet_same _ Rs.file,
      by refine RStmts.mono ?_ ?_ ?_ b3 <;> exact fun _ _ x => x,
      Rs.nodupB.sublist b4, Rs.nodupL.sublist (treeIds_dropKilled _ _)⟩
    tok := BlockTokOK_dropKilled _ _ R.tok
    linesG := R.linesG
    next := R.next
    module := R.module
    go := R.go
    toolchain := R.toolchain
    godebug := R.godebug
    require := R.require
    retract := R.retract
    exclude := by
      show REnts h.excludes excludeG (·.lineId) h.lines.length excl (e.f.exclude.filter _)
      rw [hexcl, hex2]; exact REnts.filterZip hex3 (by rw [← hex1]; exact R.exclude.nodup) (fun x => !(k1 e).contains x.lineId)
    replace := by
      show REnts h.replaces replaceG (·.lineId) h.lines.length repl (e.f.replace.filter _)
      rw [hrepl, hrp2]; exact REnts.filterZip hrp3 (by rw [← hrp1]; exact R.replace.nodup) (fun x => !(k2 e).contains x.lineId)
    tool := by
      show REnts h.tools toolG (·.lineId) h.lines.length ntool (e.f.tool.filter _)
      rw [hntool, htl2]; exact REnts.filterZip htl3 (by rw [← htl1]; exact R.tool.nodup) (fun x => !(k3 e).contains x.lineId) }

/-! ### go.work -/

theorem wloop3_eq (rx : List Expr) (syn : Int) (kill : List (Int × Bool)) :
    ∀ (fuel : Nat) (ri : Int) (world : Heap) (stmts : List Expr),
      WorkFile_removeDups_loop3 rx syn kill fuel ri world stmts = File_removeDups_loop7 rx syn kill fuel ri world stmts := by
  intro fuel
  induction fuel with
  | zero => intro ri world stmts; rfl
  | succ n ih =>
    intro ri world stmts
    simp only [WorkFile_removeDups_loop3, File_removeDups_loop7, ih, wloop4_eq, loop8_eq]

def wk (e : EWork) : List Nat := killEarlier e.f.replace

/-- `f.removeDups()` on the go.work model (the first line of the model's `workSortBlocks`) -/
def workRemoveDupsE (e : EWork) : EWork :=
  let r := removeDups e.f.syn none e.f.replace none
  { e with f := { e.f with replace := r.2.2.1, syn := r.1 } }

theorem workRemoveDupsE_eq (e : EWork) : workRemoveDupsE e =
    { e with f := { e.f with
        replace := e.f.replace.filter (fun x => !(wk e).contains x.lineId)
        syn := { e.f.syn with stmts := dropKilled (wk e) e.f.syn.stmts } } } := rfl

def workDupsSize (e : EWork) : Nat := e.f.replace.length + nodes e.f.syn.stmts

theorem works_set_get {l : List WorkFile} {p : Int} {o : WorkFile} (ho : heapGet l p = .ok o) (v : WorkFile) :
    heapGet (l.set (p.toNat - 1) v) p = .ok v := heapGet_listSet_same v ho

/-- **`WorkFile.removeDups` on a represented heap is the model's `removeDups`** -/
theorem WorkFile_removeDups_sim {h : Heap} {fp : Int} {e : EWork} (R : RepW h fp e) (fuel : Nat) (hf : workDupsSize e < fuel) :
    ∃ h', WorkFile_removeDups fuel fp h = .ok ((), h') ∧ RepW h' fp (workRemoveDupsE e) := by
  obtain ⟨o, ho, R⟩ := R
  obtain ⟨zrp, hrp1, hrp2, hrp3⟩ := REntsL.toZip R.replace.rel
  obtain ⟨es, Rs⟩ := R.syn
  have hfr : zrp.length < fuel := by
    have : zrp.length = e.f.replace.length := by rw [hrp2]; simp
    unfold workDupsSize at hf; omega
  have hfs : nodes e.f.syn.stmts < fuel := by unfold workDupsSize at hf; omega
  unfold WorkFile_removeDups
  step ho
  step ho
  rw [wloop1_eq fp _ _ ho]
  obtain ⟨km2, hv2, l3, K2⟩ := backLoop_run hrp3 fuel hfr KillRel.nil
  rw [← hrp2] at K2
  rw [← hrp1] at l3
  step l3
  step ho
  rw [wloop2_eq]
  have l4 := filter_run h.replaces replaceG (·.Syntax) (·.lineId) (fun _ => rfl) hrp3 fuel hfr K2
  obtain ⟨repl, hrepl⟩ : ∃ x, x = (zrp.filter (fun z => !(wk e).contains z.2.lineId)).map (·.1) := ⟨_, rfl⟩
  rw [show ([] : List Nat) ++ killEarlier e.f.replace = wk e from rfl] at l4 K2
  rw [← hrepl, ← hrp1] at l4
  step l4
  step ho
  step (heapSet_of_get _ ho)
  step Rs.file
  rw [fileG_Stmt, wloop3_eq]
  obtain ⟨o3, ho3⟩ : ∃ x : WorkFile, x = { o with Replace := repl } := ⟨_, rfl⟩
  obtain ⟨h3, hh3⟩ : ∃ x : Heap, x = { h with works := h.works.set (fp.toNat - 1) o3 } := ⟨_, rfl⟩
  have rs3 : RStmts h3 es e.f.syn.stmts := by
    rw [hh3]; refine RStmts.mono (h := h) ?_ ?_ ?_ Rs.stmts <;> exact fun _ _ x => x
  obtain ⟨bl', es', l7, b1, b2, b3, b4⟩ := loop7_spec o.Syntax km2 (wk e) K2 es e.f.syn.stmts [] es 0 fuel h3 [] rfl rfl hfs rs3 Rs.nodupB
  rw [hh3, ho3] at l7 b3
  step l7
  step Rs.file
  step (heapSet_of_get _ Rs.file)
  refine ⟨_, rfl, ?_⟩
  rw [workRemoveDupsE_eq]
  refine ⟨_, works_set_get ho _, ?_⟩
  exact {
    syn := ⟨es', heapGet_listSet_same _ Rs.file,
      by refine RStmts.mono ?_ ?_ ?_ b3 <;> exact fun _ _ x => x,
      Rs.nodupB.sublist b4, Rs.nodupL.sublist (treeIds_dropKilled _ _)⟩
    tok := BlockTokOK_dropKilled _ _ R.tok
    linesG := R.linesG
    next := R.next
    go := R.go
    toolchain := R.toolchain
    godebug := R.godebug
    use := R.use
    replace := by
      show REnts h.replaces replaceG (·.lineId) h.lines.length repl (e.f.replace.filter _)
      rw [hrepl, hrp2]; exact REnts.filterZip hrp3 (by rw [← hrp1]; exact R.replace.nodup) (fun x => !(wk e).contains x.lineId) }

end ModVerif.Tie.FnEditSortC
