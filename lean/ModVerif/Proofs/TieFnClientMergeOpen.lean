/-
  Tie proofs, sumdb/client.go (merge unit): `note.Open(msg, c.verifiers)` followed by `tlog.ParseTree(note.Text)` as
  `mergeLatestMem` calls them, against the model's `openTree`.
  * `Open_congr`: the regenerated `note.Open` depends on the verifier table only through its answers for 32-bit key hashes and
    not on the text of an `UnknownVerifierError` (the client's table `verifiersOf` = `note.VerifierList(v)` of the regenerated
    code and the table `knownG (Note.VerifierList …)` of the `note.Open` tie differ exactly there);
  * `ParseTree_ofBytes`: `tlog.ParseTree` for an arbitrary hash type through the byte-string instance of its tie;
  * the ONE base64 decoder of the client's environment serves both (Proofs/TieFnClientMergeB64.lean);
  * `errAbs` of the two `fmt.Errorf("reading tree…")` texts is `.note`.
-/
import ModVerif.Proofs.TieFnClientRep
import ModVerif.Proofs.TieFnClientMergeB64
import ModVerif.Proofs.TieFnClientMergeLen
import ModVerif.Tie.FnTlogNote
import ModVerif.Tie.FnNote
namespace ModVerif.TieFnClientMerge
open ModVerif ModVerif.GoRt ModVerif.Generated.Note ModVerif.TieFnNote ModVerif.TieFnClientRep

def U32 (h : Int) : Prop := 0 ≤ h ∧ h < 4294967296

def KEq (k1 k2 : Bytes → Int → (GV × Option String)) : Prop :=
  ∀ name hash, U32 hash → k1 name hash = k2 name hash ∨
    (errIs "UnknownVerifierError" (k1 name hash).2 = true ∧ errIs "UnknownVerifierError" (k2 name hash).2 = true)

theorem beUint32_range (b : Bytes) (h : Int) (hb : beUint32 b = .ok h) : U32 h := by
  unfold beUint32 at hb
  split at hb
  · rename_i a b c d _
    simp only [pure, Except.pure] at hb
    injection hb with hb
    subst hb
    have := a.toNat_lt; have := b.toNat_lt; have := c.toNat_lt; have := d.toNat_lt
    constructor
    · exact Int.natCast_nonneg _
    · show ((((a.toNat * 256 + b.toNat) * 256 + c.toNat) * 256 + d.toNat : Nat) : Int) < 4294967296
      omega
  · cases hb

theorem bind_congr' {α β : Type} (x : M α) (f g : α → M β) (h : ∀ a, x = .ok a → f a = g a) : (x >>= f) = (x >>= g) := by
  cases x with
  | error e => rfl
  | ok a => exact h a rfl

theorem ite_congr' {α : Type} (c : Prop) [Decidable c] (a a' b b' : α) (h1 : c → a = a') (h2 : ¬ c → b = b') :
    (if c then a else b) = (if c then a' else b') := by
  by_cases h : c
  · simp only [h, if_true]; exact h1 h
  · simp only [h, if_false]; exact h2 h

theorem Open_loop2_congr (b64dec : Bytes → (Bytes × Option String)) (isSpace : Int → Bool)
    (k1 k2 : Bytes → Int → (GV × Option String)) (hk : KEq k1 k2) (text : Bytes) :
    ∀ fuel sigs numSig su n seen, Open_loop2 b64dec isSpace k1 text fuel sigs numSig su n seen =
      Open_loop2 b64dec isSpace k2 text fuel sigs numSig su n seen := by
  intro fuel
  induction fuel with
  | zero => intro sigs numSig su n seen; rfl
  | succ f ih =>
    intro sigs numSig su n seen
    rw [Open_loop2, Open_loop2]
    refine ite_congr' _ _ _ _ _ (fun _ => ?_) (fun _ => rfl)
    refine bind_congr' _ _ _ (fun line _ => ?_)
    refine bind_congr' _ _ _ (fun sigs' _ => ?_)
    refine ite_congr' _ _ _ _ _ (fun _ => rfl) (fun _ => ?_)
    refine bind_congr' _ _ _ (fun line' _ => ?_)
    refine bind_congr' _ _ _ (fun t13 _ => ?_)
    obtain ⟨name, b64⟩ := t13
    show (match b64dec b64 with | (sig, err) => _) = (match b64dec b64 with | (sig, err) => _)
    generalize b64dec b64 = sr
    obtain ⟨sig, err⟩ := sr
    show (if _ then _ else _) = (if _ then _ else _)
    refine ite_congr' _ _ _ _ _ (fun _ => rfl) (fun _ => ?_)
    refine bind_congr' _ _ _ (fun t14 _ => ?_)
    refine bind_congr' _ _ _ (fun hash hh => ?_)
    refine bind_congr' _ _ _ (fun sig' _ => ?_)
    refine ite_congr' _ _ _ _ _ (fun _ => rfl) (fun _ => ?_)
    have hr := beUint32_range _ _ hh
    simp only [ih]
    rcases hk name hash hr with heq | ⟨h1, h2⟩
    · rw [heq]
    · generalize k1 name hash = r1 at h1
      generalize k2 name hash = r2 at h2
      obtain ⟨v1, e1⟩ := r1
      obtain ⟨v2, e2⟩ := r2
      simp only at h1 h2
      simp only [h1, h2, if_true]

/-- `note.Open` depends on the verifier table only through the answers for 32-bit key hashes, and not on the text of an
    `UnknownVerifierError` -/
theorem Open_congr (b64dec : Bytes → (Bytes × Option String)) (isSpace : Int → Bool)
    (k1 k2 : Bytes → Int → (GV × Option String)) (hk : KEq k1 k2) (fuel : Nat) (msg : Bytes) :
    Generated.Note.Open b64dec isSpace fuel msg k1 = Generated.Note.Open b64dec isSpace fuel msg k2 := by
  unfold Generated.Note.Open
  simp only [Open_loop2_congr b64dec isSpace k1 k2 hk]

/-! ### the client's verifier table -/

theorem errIs_unknown_bare : errIs "UnknownVerifierError" (some "UnknownVerifierError") = true := by decide

theorem hash_eq_iff (h : UInt32) (hash : Int) (hr : U32 hash) :
    hash = Int.ofNat h.toNat ↔ h = UInt32.ofNat hash.toNat := by
  obtain ⟨h0, h1⟩ := hr
  constructor
  · intro e
    subst e
    simp
  · intro e
    have : h.toNat = hash.toNat := by
      rw [e, UInt32.toNat_ofNat']
      apply Nat.mod_eq_of_lt
      show hash.toNat < 2 ^ 32
      omega
    rw [this]
    simp only [Int.ofNat_eq_natCast]
    omega

/-- `verifiersOf vs` (the regenerated `note.VerifierList(v)`) answers as the model's `Note.VerifierList vs` -/
theorem keq_verifiersOf (vs : List Note.Verifier) (hv : vs.length ≤ 1) :
    KEq (verifiersOf vs) (knownG (Note.VerifierList vs)) := by
  intro name hash hr
  match vs, hv with
  | [], _ =>
    right
    refine ⟨errIs_unknown_bare, ?_⟩
    simp only [knownG, Note.VerifierList, List.filter_nil]
    exact errIs_unknown _ _
  | [v], _ =>
    simp only [verifiersOf, Generated.SumdbClient.verifierList1, knownG, Note.VerifierList, toGV]
    by_cases hm : name = v.name ∧ hash = Int.ofNat v.hash.toNat
    · left
      have h2 : v.hash = UInt32.ofNat hash.toNat := (hash_eq_iff v.hash hash hr).1 hm.2
      have hf : List.filter (fun x => x.name == name && x.hash == UInt32.ofNat hash.toNat) [v] = [v] := by
        simp [List.filter, hm.1, ← h2]
      have hc : (name = v.name ∧ hash = Int.ofNat v.hash.toNat) = True := eq_true hm
      simp only [hc, if_true, hf]
    · right
      have hf : List.filter (fun x => x.name == name && x.hash == UInt32.ofNat hash.toNat) [v] = [] := by
        simp only [List.filter_cons, List.filter_nil]
        split
        · rename_i hc
          simp only [Bool.and_eq_true, beq_iff_eq] at hc
          exact absurd ⟨hc.1.symm, (hash_eq_iff v.hash hash hr).2 hc.2⟩ hm
        · rfl
      have hc : (name = v.name ∧ hash = Int.ofNat v.hash.toNat) = False := eq_false hm
      simp only [hc, if_false, hf]
      exact ⟨errIs_unknown_bare, errIs_unknown _ _⟩
  | _ :: _ :: _, h => simp at h

/-- ★ `note.Open(msg, c.verifiers)` as the client calls it -/
theorem noteOpenX_eq {σ H : Type} (P : Client.Params H) (E : Client.Env σ) (vs : List Note.Verifier) (hv : vs.length ≤ 1)
    (msg : Bytes) (fuel : Nat) (hf : msg.length + 1 ≤ fuel) :
    Generated.SumdbClient.noteOpenX (envOf P E) fuel msg (verifiersOf vs) =
      .ok (embedOpen (Note.Open msg (Note.VerifierList vs))) := by
  unfold Generated.SumdbClient.noteOpenX
  show Generated.Note.Open b64decI isSpaceI fuel msg (verifiersOf vs) = _
  rw [Open_congr b64decI isSpaceI _ _ (keq_verifiersOf vs hv), Tie.FnNote.Open_tie msg _ fuel hf]

theorem embedErr_isNone (e : Note.OpenErr) : (embedErr e).2.isNone = false := by
  cases e <;> rfl

/-! ### the error texts -/

theorem toList_lit_note : "reading tree note: %v\nnote:\n%s|".toList =
    ['r','e','a','d','i','n','g',' ','t','r','e','e',' ','n','o','t','e',':',' ','%','v','\n','n','o','t','e',':','\n','%','s','|'] := by
  decide

theorem toList_lit_tree : "reading tree: %v\ntree:\n%s|".toList =
    ['r','e','a','d','i','n','g',' ','t','r','e','e',':',' ','%','v','\n','t','r','e','e',':','\n','%','s','|'] := by
  decide

theorem errAbsL_note (f : Nat) (rest : List Char) :
    errAbsL f ("reading tree note: %v\nnote:\n%s|".toList ++ rest) = .note := by
  rw [toList_lit_note]
  have hs : stripPass (['r','e','a','d','i','n','g',' ','t','r','e','e',' ','n','o','t','e',':',' ','%','v','\n','n','o','t','e',':','\n','%','s','|'] ++ rest) = none := by
    simp [stripPass, passLits]
  have hc : classify (['r','e','a','d','i','n','g',' ','t','r','e','e',' ','n','o','t','e',':',' ','%','v','\n','n','o','t','e',':','\n','%','s','|'] ++ rest) = .note := by
    simp [classify, List.isPrefixOf]
  cases f with
  | zero => exact hc
  | succ f => simp only [errAbsL, hs, hc]

theorem errAbsL_tree (f : Nat) (rest : List Char) :
    errAbsL f ("reading tree: %v\ntree:\n%s|".toList ++ rest) = .note := by
  rw [toList_lit_tree]
  have hs : stripPass (['r','e','a','d','i','n','g',' ','t','r','e','e',':',' ','%','v','\n','t','r','e','e',':','\n','%','s','|'] ++ rest) = none := by
    simp [stripPass, passLits]
  have hc : classify (['r','e','a','d','i','n','g',' ','t','r','e','e',':',' ','%','v','\n','t','r','e','e',':','\n','%','s','|'] ++ rest) = .note := by
    simp [classify, List.isPrefixOf]
  cases f with
  | zero => exact hc
  | succ f => simp only [errAbsL, hs, hc]

/-- `fmt.Errorf("reading tree note: %v\nnote:\n%s", err, msg)` is the model's `.note` -/
theorem repErr_note (g : Option String) : RepErr (wrapErr "reading tree note: %v\nnote:\n%s" g) .note := by
  refine ⟨_, rfl, ?_⟩
  unfold errAbs
  have : ("reading tree note: %v\nnote:\n%s" ++ "|" ++ g.getD "").toList =
      "reading tree note: %v\nnote:\n%s|".toList ++ (g.getD "").toList := by
    simp only [String.toList_append]
    have : "reading tree note: %v\nnote:\n%s".toList ++ "|".toList = "reading tree note: %v\nnote:\n%s|".toList := by decide
    rw [this]
  rw [this]
  exact errAbsL_note _ _

/-- `fmt.Errorf("reading tree: %v\ntree:\n%s", err, note.Text)` is the model's `.note` -/
theorem repErr_tree (g : Option String) : RepErr (wrapErr "reading tree: %v\ntree:\n%s" g) .note := by
  refine ⟨_, rfl, ?_⟩
  unfold errAbs
  have : ("reading tree: %v\ntree:\n%s" ++ "|" ++ g.getD "").toList =
      "reading tree: %v\ntree:\n%s|".toList ++ (g.getD "").toList := by
    simp only [String.toList_append]
    have : "reading tree: %v\ntree:\n%s".toList ++ "|".toList = "reading tree: %v\ntree:\n%s|".toList := by decide
    rw [this]
  rw [this]
  exact errAbsL_tree _ _

section
variable {H : Type} [DecidableEq H] [Inhabited H]

/-- a `ParseTree` result over byte-string hashes as a result over `H` -/
def liftTree (ofBytes : Bytes → H) (r : Generated.TlogNote.Tree Bytes × Option String) : Generated.TlogNote.Tree H × Option String :=
  match r.2 with
  | none => ({ N := r.1.N, Hash := ofBytes r.1.Hash }, none)
  | some s => (default, some s)

theorem ParseTree_ofBytes (b64 : Bytes → Bytes × Option String) (ofBytes : Bytes → H) (text : Bytes) :
    Generated.TlogNote.ParseTree b64 ofBytes text =
      (Generated.TlogNote.ParseTree (H := Bytes) b64 id text >>= fun r => pure (liftTree ofBytes r)) := by
  unfold Generated.TlogNote.ParseTree
  split
  · rfl
  · simp only [bind, Except.bind]
    cases idxL (splitN text [10] 4) 1 with
    | error e => rfl
    | ok t1 =>
      simp only []
      generalize parseInt t1 10 64 = pr
      obtain ⟨n, err⟩ := pr
      simp only []
      split
      · rfl
      · rename_i t3 ht3
        cases t3 with
        | true => rfl
        | false =>
          simp only [Bool.false_eq_true, if_false]
          cases idxL (splitN text [10] 4) 2 with
          | error e => rfl
          | ok v =>
            simp only []
            split <;> rfl

theorem b64decI_eq : TieFnNote.b64decI = TieFnTlogNote.b64decI := by
  funext s
  unfold TieFnNote.b64decI TieFnTlogNote.b64decI
  rw [decodeStd_eq_b64dec]
  cases B64.b64dec s <;> rfl

/-- ★ `tlog.ParseTree` as the client calls it -/
theorem parseTreeX_eq {σ : Type} (P : Client.Params H) (E : Client.Env σ) (text : Bytes) :
    Generated.SumdbClient.parseTreeX (envOf P E) text =
      .ok (match TlogNote.parseTree text with
        | some t => (({ N := t.n, Hash := P.dec t.hash } : Generated.Tile.Tree H), none)
        | none => (default, some "errMalformedTree")) := by
  unfold Generated.SumdbClient.parseTreeX
  have h1 : (envOf P E).b64dec = TieFnTlogNote.b64decI := b64decI_eq
  have h2 : (envOf P E).ofBytes = P.dec := rfl
  rw [h1, h2, ParseTree_ofBytes, Tie.FnTlogNote.ParseTree_tie]
  cases TlogNote.parseTree text with
  | none => rfl
  | some t => rfl

end
end ModVerif.TieFnClientMerge
