/-
  C07 `open_ok_iff`: the signature loop of Open run forward over ARBITRARY well-formed signature lines
  (generalising `openLoop_forward`, which handles the lines Sign writes), the matching backward facts,
  and the resulting exact characterisation of `Open msg known = .ok n`.
-/
import ModVerif.Proofs.NoteRoundtrip
namespace ModVerif.Note
open ModVerif ModVerif.B64

/-- the lookup of a line's key answers "unknown", or "found" with a verifier of exactly that name and hash -/
def LookOK (known : Verifiers) (p : SigLine) : Prop :=
  known p.name p.hash = .unknown ∨ ∃ k, known p.name p.hash = .found k ∧ k.name = p.name ∧ k.hash = p.hash

/-- the FIRST line of every known key (not already in `seen`) carries a signature its verifier accepts over `text` -/
def FirstVerified (known : Verifiers) (text : Bytes) (seen : List (Bytes × UInt32)) (ps : List SigLine) : Prop :=
  ∀ p ∈ dedupFrom (fun p : SigLine => (p.name, p.hash)) seen (ps.filter (isKnown known)),
    ∃ k, known p.name p.hash = .found k ∧ k.verify text p.sig = true

theorem parseAll_cons {line : Bytes} {rest : List Bytes} {ps : List SigLine} (h : parseAll (line :: rest) = some ps) :
    ∃ p ps', parseSigLine line = some p ∧ parseAll rest = some ps' ∧ ps = p :: ps' := by
  simp only [parseAll] at h
  split at h
  · rename_i p ps' hp hps
    simp only [Option.some.injEq] at h
    exact ⟨p, ps', hp, hps, h.symm⟩
  · cases h

/-- the signature loop, forward, over arbitrary parsed lines -/
theorem openLoop_forward_gen {known : Verifiers} {text : Bytes} :
    ∀ (ls : List Bytes) (ps : List SigLine) (st : LoopState),
      parseAll ls = some ps → st.numSig + ps.length ≤ maxSigs →
      (∀ p ∈ ps, LookOK known p) → FirstVerified known text st.seen ps →
      ∃ st', openLoop known text ls st = .ok st' ∧
        st'.sigs = st.sigs ++
          (dedupFrom (fun p : SigLine => (p.name, p.hash)) st.seen (ps.filter (isKnown known))).map SigLine.toSig ∧
        st'.unverifiedSigs = st.unverifiedSigs ++
          (dedupFrom (fun p : SigLine => p.line) st.seenUnverified (ps.filter (isUnknown known))).map SigLine.toSig
  | [], ps, st, hps, _, _, _ => by
    simp only [parseAll, Option.some.injEq] at hps
    subst hps
    exact ⟨st, by simp [openLoop], by simp [dedupFrom], by simp [dedupFrom]⟩
  | line :: rest, ps, st, hps, hlen, hlook, hfirst => by
    obtain ⟨p, ps', hp, hps', rfl⟩ := parseAll_cons hps
    simp only [List.length_cons] at hlen
    have hn : ¬ st.numSig + 1 > maxSigs := by omega
    have hlook' : ∀ q ∈ ps', LookOK known q := fun q hq => hlook q (List.mem_cons_of_mem _ hq)
    simp only [openLoop, openStep, hp, hn, ↓reduceIte]
    rcases hlook p List.mem_cons_self with hu | ⟨k, hk, hkn, hkh⟩
    · have h1 : isKnown known p = false := by simp [isKnown, hu]
      have h2 : isUnknown known p = true := by simp [isUnknown, hu]
      have hfirst' : FirstVerified known text st.seen ps' := by
        intro q hq; apply hfirst q; simpa [List.filter_cons, h1] using hq
      simp only [hu, List.filter_cons, h1, h2, Bool.false_eq_true, ↓reduceIte]
      by_cases hc : p.line ∈ st.seenUnverified
      · have hc' : st.seenUnverified.contains p.line = true := by simpa using hc
        simp only [hc', ↓reduceIte]
        obtain ⟨st', hl, hs, hu'⟩ := openLoop_forward_gen rest ps' { st with numSig := st.numSig + 1 } hps'
          (by simp; omega) hlook' hfirst'
        exact ⟨st', hl, by simpa using hs, by simpa [dedupFrom, hc] using hu'⟩
      · have hc' : st.seenUnverified.contains p.line = false := by simpa using hc
        simp only [hc', Bool.false_eq_true, ↓reduceIte]
        obtain ⟨st', hl, hs, hu'⟩ := openLoop_forward_gen rest ps'
          { st with numSig := st.numSig + 1, seenUnverified := p.line :: st.seenUnverified,
                    unverifiedSigs := st.unverifiedSigs ++ [p.toSig] }
          hps' (by simp; omega) hlook' hfirst'
        exact ⟨st', hl, by simpa using hs, by simpa [dedupFrom, hc] using hu'⟩
    · have h1 : isKnown known p = true := by simp [isKnown, hk]
      have h2 : isUnknown known p = false := by simp [isUnknown, hk]
      simp only [hk, hkn, hkh, bne_self_eq_false, Bool.or_self, Bool.false_eq_true, ↓reduceIte,
        List.filter_cons, h1, h2]
      by_cases hc : (p.name, p.hash) ∈ st.seen
      · have hc' : st.seen.contains (p.name, p.hash) = true := by simpa using hc
        have hfirst' : FirstVerified known text st.seen ps' := by
          intro q hq; apply hfirst q; simpa [h1, dedupFrom, hc] using hq
        simp only [hc', ↓reduceIte]
        obtain ⟨st', hl, hs, hu'⟩ := openLoop_forward_gen rest ps' { st with numSig := st.numSig + 1 } hps'
          (by simp; omega) hlook' hfirst'
        exact ⟨st', hl, by simpa [dedupFrom, hc] using hs, by simpa using hu'⟩
      · have hc' : st.seen.contains (p.name, p.hash) = false := by simpa using hc
        have hver : k.verify text p.sig = true := by
          obtain ⟨k', hk', hv⟩ := hfirst p (by simp [h1, dedupFrom, hc])
          rw [hk] at hk'
          simp only [Lookup.found.injEq] at hk'
          subst hk'; exact hv
        have hfirst' : FirstVerified known text ((p.name, p.hash) :: st.seen) ps' := by
          intro q hq; apply hfirst q
          simp only [List.filter_cons, h1, ↓reduceIte, dedupFrom, hc]
          exact List.mem_cons_of_mem _ hq
        simp only [hc', Bool.false_eq_true, ↓reduceIte, hver, Bool.not_true]
        obtain ⟨st', hl, hs, hu'⟩ := openLoop_forward_gen rest ps'
          { st with numSig := st.numSig + 1, seen := (p.name, p.hash) :: st.seen, sigs := st.sigs ++ [p.toSig] }
          hps' (by simp; omega) hlook' hfirst'
        exact ⟨st', hl, by simpa [dedupFrom, hc] using hs, by simpa using hu'⟩

/-- what a successful loop says about lookups and verification (the facts `openLoop_partition` does not record) -/
theorem openLoop_backward_extra {known : Verifiers} {text : Bytes} :
    ∀ (ls : List Bytes) (st st' : LoopState), openLoop known text ls st = .ok st' →
      ∀ ps, parseAll ls = some ps → (∀ p ∈ ps, LookOK known p) ∧ FirstVerified known text st.seen ps
  | [], st, st', _, ps, hps => by
    simp only [parseAll, Option.some.injEq] at hps
    subst hps
    exact ⟨by simp, by intro p hp; simp [dedupFrom] at hp⟩
  | line :: rest, st, st', h, ps, hps => by
    obtain ⟨p, ps', hp, hps', rfl⟩ := parseAll_cons hps
    obtain ⟨st1, h1, h2⟩ := openLoop_cons_ok h
    obtain ⟨ih1, ih2⟩ := openLoop_backward_extra rest st1 st' h2 ps' hps'
    obtain ⟨p0, hp0, _, _, hcase⟩ := openStep_ok h1
    rw [hp] at hp0
    simp only [Option.some.injEq] at hp0
    subst hp0
    rcases hcase with ⟨hu, hseen, _, _⟩ | ⟨v, hv, hvn, hvh, _, _, hcase⟩
    · have hk : isKnown known p = false := by simp [isKnown, hu]
      refine ⟨?_, ?_⟩
      · intro q hq
        rcases List.mem_cons.mp hq with rfl | hq
        · exact Or.inl hu
        · exact ih1 q hq
      · intro q hq
        rw [hseen] at ih2
        apply ih2 q
        simpa [List.filter_cons, hk] using hq
    · have hk : isKnown known p = true := by simp [isKnown, hv]
      refine ⟨?_, ?_⟩
      · intro q hq
        rcases List.mem_cons.mp hq with rfl | hq
        · exact Or.inr ⟨v, hv, hvn, hvh⟩
        · exact ih1 q hq
      · rcases hcase with ⟨hin, hseen, _⟩ | ⟨hnin, hver, hseen, _⟩
        · intro q hq
          rw [hseen] at ih2
          apply ih2 q
          simpa [List.filter_cons, hk, dedupFrom, hin] using hq
        · intro q hq
          rw [hseen] at ih2
          simp only [List.filter_cons, hk, ↓reduceIte, dedupFrom, hnin, List.mem_cons] at hq
          rcases hq with rfl | hq
          · exact ⟨v, hv, hver⟩
          · exact ih2 q hq

/-- `Open` returns the note `n` exactly when: the message is valid UTF-8 without control characters, it splits at
    its last blank line into a text and a non-empty block ending in a newline, every line of the block is a
    well-formed signature line, there are at most 100, every lookup answers "unknown" or "found" with matching name
    and hash, the first line of every known key verifies over the text, at least one key is known — and `n` is the
    text with the partition of the lines described by `open_partition`. -/
theorem Open_ok_iff {msg : Bytes} {known : Verifiers} {n : Note} :
    Open msg known = .ok n ↔
      validMsg msg = true ∧ ∃ split ps, lastIndexOf sigSplit msg = some split ∧
        msg.drop (split + 2) ≠ [] ∧ (msg.drop (split + 2)).getLast? = some 10 ∧
        parseAll (sigLines (msg.drop (split + 2))) = some ps ∧ ps.length ≤ maxSigs ∧
        (∀ p ∈ ps, LookOK known p) ∧ FirstVerified known (msg.take (split + 1)) [] ps ∧
        (∃ p ∈ ps, isKnown known p = true) ∧
        n = ⟨msg.take (split + 1),
          (dedupFrom (fun p : SigLine => (p.name, p.hash)) [] (ps.filter (isKnown known))).map SigLine.toSig,
          (dedupFrom (fun p : SigLine => p.line) [] (ps.filter (isUnknown known))).map SigLine.toSig⟩ := by
  constructor
  · intro h
    obtain ⟨split, st, hv, hs, ht, hne, hlast, hl, hsig, hunv, hsne⟩ := Open_ok h
    obtain ⟨ps, hps, hlen, _, h1, h2⟩ := openLoop_partition _ _ _ hl
    obtain ⟨hlook, hfirst⟩ := openLoop_backward_extra _ _ _ hl ps hps
    rw [ht] at hfirst
    refine ⟨hv, split, ps, hs, hne, hlast, hps, by simpa using hlen, hlook, hfirst, ?_, ?_⟩
    · rw [h1] at hsne
      simp only [List.nil_append, ne_eq, List.map_eq_nil_iff] at hsne
      have : ps.filter (isKnown known) ≠ [] := by
        intro e; rw [e] at hsne; exact hsne (by simp [dedupFrom])
      obtain ⟨p, hp⟩ := List.exists_mem_of_ne_nil _ this
      obtain ⟨hp1, hp2⟩ := List.mem_filter.mp hp
      exact ⟨p, hp1, hp2⟩
    · cases n with
      | mk text sigs unv =>
        simp only at ht hsig hunv
        rw [ht, hsig, hunv, h1, h2]
        simp
  · rintro ⟨hv, split, ps, hs, hne, hlast, hps, hlen, hlook, hfirst, ⟨p, hp, hpk⟩, rfl⟩
    obtain ⟨st', hl, hsig, hunv⟩ := openLoop_forward_gen (known := known) (text := msg.take (split + 1))
      _ ps {} hps (by show 0 + ps.length ≤ maxSigs; omega) hlook hfirst
    have hkne : ps.filter (isKnown known) ≠ [] := by
      intro e
      have : p ∈ ps.filter (isKnown known) := List.mem_filter.mpr ⟨hp, hpk⟩
      rw [e] at this; cases this
    have hsne : st'.sigs ≠ [] := by
      rw [hsig]
      simp only [List.nil_append, ne_eq, List.map_eq_nil_iff]
      exact dedupFrom_nil_ne_nil _ hkne
    rw [Open_intro hv hs hne hlast hl hsne, hsig, hunv]
    simp

end ModVerif.Note
