/-
  Tie helpers for PseudoVersion / ZeroPseudoVersion / IsZeroPseudoVersion of module/pseudo.go.

  `time.Time` is the translator's abstract type `T`; `fmtTime t layout` stands for `t.UTC().Format(layout)`.
  The hand model takes the formatted stamp `ts` directly, so every statement carries the hypothesis
  `fmtTime t "20060102150405" = ts` (for ZeroPseudoVersion: the zero value `default : T` formats to the
  model's `zeroTimestamp`).
-/
import ModVerif.Generated.FnModule
import ModVerif.Model.Pseudo
import ModVerif.Proofs.GoRtLemmas
import ModVerif.Proofs.GoRtLemmasPseudo
import ModVerif.Proofs.PseudoSemver
import ModVerif.Proofs.TieFnPseudoDec
import ModVerif.Proofs.TieFnPseudoParse
import ModVerif.Tie.FnSemver
namespace ModVerif.TieFnPseudo
open ModVerif ModVerif.GoRt ModVerif.GoRtPseudo

/-- PseudoVersionTimestampFormat = "20060102150405" as the translator writes it -/
def layout : Bytes := [50, 48, 48, 54, 48, 49, 48, 50, 49, 53, 48, 52, 48, 53]

/-- a string result of the model in the generated code's monad; the only error the string-building
    functions of the model produce is `.panic` -/
def bytesOut : Except Pseudo.Err Bytes → M Bytes
  | .ok r => .ok r
  | .error _ => .error .panic

/-- Canonical adds at most ".0.0" -/
theorem canonical_length_le (v : Bytes) : (Semver.canonical v).length ≤ v.length + 4 := by
  unfold Semver.canonical
  cases h : Semver.parse v with
  | none => simp
  | some p =>
    obtain ⟨_, _, _, _, _, hc⟩ := Proofs.Pseudo.parse_inv h
    simp only
    split
    · simp only [List.length_take]; omega
    · split
      · rcases hc with ⟨_, _, _, _, _, h5⟩ | ⟨_, _, _, _, h5⟩ | ⟨_, h5⟩ <;> simp [h5]
      · omega

/-- PseudoVersion after the `major == ""` test (the translator's join function `k9`) -/
def pvRest {T : Type} (fmtTime : T → Bytes → Bytes) (fuel : Nat) (older : Bytes) (t : T) (rev : Bytes)
    (major : Bytes) : M Bytes := do
    let segment := ((fmtTime t ([50, 48, 48, 54, 48, 49, 48, 50, 49, 53, 48, 52, 48, 53] : Bytes)) ++ ([45] : Bytes) ++ rev)
    let t1 ← (ModVerif.Generated.Semver.Build fuel older)
    let build := t1
    let t2 ← (ModVerif.Generated.Semver.Canonical fuel older)
    let older := t2
    if (decide (older = ([] : Bytes))) then (pure ((major ++ ([46, 48, 46, 48, 45] : Bytes)) ++ segment)) else (do
      let t3 ← (ModVerif.Generated.Semver.Prerelease fuel older)
      if (!decide (t3 = ([] : Bytes))) then (pure (((older ++ ([46, 48, 46] : Bytes)) ++ segment) ++ build)) else (do
        let i := ((lastIndex older ([46] : Bytes)) + (1 : Int))
        let t4 ← sliceTo older i
        let a5 := t4
        let t6 ← sliceFrom older i
        let a7 := t6
        let v := a5
        let patch := a7
        let t8 ← (Generated.Module.incDecimal fuel patch)
        pure ((((v ++ t8) ++ ([45, 48, 46] : Bytes)) ++ segment) ++ build)))

theorem PseudoVersion_unfold {T : Type} [DecidableEq T] [Inhabited T] (fmtTime : T → Bytes → Bytes) (fuel : Nat)
    (major older : Bytes) (t : T) (rev : Bytes) :
    Generated.Module.PseudoVersion fmtTime fuel major older t rev =
      if (decide (major = ([] : Bytes))) then pvRest fmtTime fuel older t rev ([118, 48] : Bytes)
      else pvRest fmtTime fuel older t rev major := by
  unfold Generated.Module.PseudoVersion pvRest
  rfl

/-- the model's pseudoVersion after the `major == ""` test -/
def pvRestModel (older ts rev major : Bytes) : Except Pseudo.Err Bytes :=
  let segment := ts ++ [45] ++ rev
  let build := Semver.build older
  let older := Semver.canonical older
  if older.isEmpty then .ok (major ++ ([46, 48, 46, 48, 45] : Bytes) ++ segment)
  else if !(Semver.prerelease older).isEmpty then .ok (older ++ ([46, 48, 46] : Bytes) ++ segment ++ build)
  else
    let (v, patch) := match Pseudo.splitLast 46 older with
      | none => (([] : Bytes), older)
      | some (a, b) => (a ++ [46], b)
    match Pseudo.incDecimal patch with
    | none => .error .panic
    | some p => .ok (v ++ p ++ ([45, 48, 46] : Bytes) ++ segment ++ build)

theorem pseudoVersion_model_unfold (major older ts rev : Bytes) :
    Pseudo.pseudoVersion major older ts rev =
      pvRestModel older ts rev (if major.isEmpty then ([118, 48] : Bytes) else major) := rfl

theorem pvRest_ok {T : Type} (fmtTime : T → Bytes → Bytes) (t : T) (ts : Bytes)
    (hts : fmtTime t layout = ts) (older rev major : Bytes) (fuel : Nat) (hf : 2 * older.length + 8 ≤ fuel) :
    pvRest fmtTime fuel older t rev major = bytesOut (pvRestModel older ts rev major) := by
  unfold pvRest pvRestModel
  have hl : fmtTime t ([50, 48, 48, 54, 48, 49, 48, 50, 49, 53, 48, 52, 48, 53] : Bytes) = ts := hts
  have hcl := canonical_length_le older
  rw [hl, Tie.FnSemver.Build_tie older fuel (by omega), Tie.FnSemver.Canonical_tie older fuel (by omega)]
  simp only [bind_ok]
  generalize hc : Semver.canonical older = c at hcl
  by_cases hce : c = []
  · simp [hce, bytesOut]
  · have hce' : c.isEmpty = false := by simpa using hce
    simp only [hce, decide_false, Bool.false_eq_true, if_false, hce']
    rw [Tie.FnSemver.Prerelease_tie c fuel (by omega), bind_ok]
    by_cases hpe : Semver.prerelease c = []
    · simp only [hpe, decide_true, Bool.not_true, Bool.false_eq_true, if_false, List.isEmpty_nil]
      rcases last_cases 46 c with ⟨_, hi, hs⟩ | ⟨a, b, e, _, hi, hs, _, _⟩
      · -- no '.': i = 0, v = "", patch = older
        have h0 : ((-1 : Int) + 1) = 0 := by omega
        have hz : sliceTo c 0 = .ok [] := by
          have := sliceTo_natCast (v := c) (k := 0) (by omega)
          simpa using this
        simp only [hi, hs, h0, hz, sliceFrom_zero, bind_ok]
        rw [incDecimal_ok c fuel (by omega)]
        cases Pseudo.incDecimal c <;> simp [optM, bytesOut]
      · have hbl : b.length + 1 ≤ fuel := by
          have : b.length ≤ c.length := by rw [e]; simp; omega
          omega
        simp only [hi, hs]
        rw [e, sliceTo_split_succ, sliceFrom_split_succ]
        simp only [bind_ok]
        rw [incDecimal_ok b fuel hbl]
        cases Pseudo.incDecimal b <;> simp [optM, bytesOut]
    · have hpe' : (Semver.prerelease c).isEmpty = false := by simpa using hpe
      simp [hpe, hpe', bytesOut]

theorem PseudoVersion_ok {T : Type} [DecidableEq T] [Inhabited T] (fmtTime : T → Bytes → Bytes) (t : T) (ts : Bytes)
    (hts : fmtTime t layout = ts) (major older rev : Bytes) (fuel : Nat) (hf : 2 * older.length + 8 ≤ fuel) :
    Generated.Module.PseudoVersion fmtTime fuel major older t rev =
      bytesOut (Pseudo.pseudoVersion major older ts rev) := by
  rw [PseudoVersion_unfold, pseudoVersion_model_unfold]
  by_cases hm : major = []
  · subst hm
    simp only [decide_true, if_true, List.isEmpty_nil]
    exact pvRest_ok fmtTime t ts hts older rev _ fuel hf
  · have hm' : major.isEmpty = false := by simpa using hm
    simp only [hm, decide_false, Bool.false_eq_true, if_false, hm']
    exact pvRest_ok fmtTime t ts hts older rev _ fuel hf

/-! ### ZeroPseudoVersion: older = "", so no loop runs and any fuel will do -/

theorem pvRest_nil {T : Type} (fmtTime : T → Bytes → Bytes) (t : T) (ts : Bytes)
    (hts : fmtTime t layout = ts) (rev major : Bytes) (fuel : Nat) :
    pvRest fmtTime fuel [] t rev major = .ok (major ++ ([46, 48, 46, 48, 45] : Bytes) ++ (ts ++ [45] ++ rev)) := by
  unfold pvRest
  have hl : fmtTime t ([50, 48, 48, 54, 48, 49, 48, 50, 49, 53, 48, 52, 48, 53] : Bytes) = ts := hts
  rw [hl, Tie.FnSemver.Build_tie [] fuel (by simp), Tie.FnSemver.Canonical_tie [] fuel (by simp)]
  have hc : Semver.canonical [] = [] := rfl
  simp [hc]

theorem pvRestModel_nil (ts rev major : Bytes) :
    pvRestModel [] ts rev major = .ok (major ++ ([46, 48, 46, 48, 45] : Bytes) ++ (ts ++ [45] ++ rev)) := rfl

/-- the value of the model's zeroPseudoVersion (it never fails) -/
def zeroPV (major : Bytes) : Bytes :=
  (if major.isEmpty then ([118, 48] : Bytes) else major) ++ ([46, 48, 46, 48, 45] : Bytes) ++
    (Pseudo.zeroTimestamp ++ [45] ++ ([48, 48, 48, 48, 48, 48, 48, 48, 48, 48, 48, 48] : Bytes))

theorem zeroPseudoVersion_model (major : Bytes) : Pseudo.zeroPseudoVersion major = .ok (zeroPV major) := rfl

theorem ZeroPseudoVersion_ok {T : Type} [DecidableEq T] [Inhabited T] (fmtTime : T → Bytes → Bytes)
    (hz : fmtTime (default : T) layout = Pseudo.zeroTimestamp) (major : Bytes) (fuel : Nat) :
    Generated.Module.ZeroPseudoVersion fmtTime fuel major = .ok (zeroPV major) := by
  unfold Generated.Module.ZeroPseudoVersion
  rw [PseudoVersion_unfold]
  by_cases hm : major = []
  · subst hm
    simp only [decide_true, if_true]
    rw [pvRest_nil fmtTime default _ hz]; rfl
  · have hm' : major.isEmpty = false := by simpa using hm
    simp only [hm, decide_false, Bool.false_eq_true, if_false]
    rw [pvRest_nil fmtTime default _ hz]
    simp [zeroPV, hm']

theorem IsZeroPseudoVersion_ok {T : Type} [DecidableEq T] [Inhabited T] (fmtTime : T → Bytes → Bytes)
    (hz : fmtTime (default : T) layout = Pseudo.zeroTimestamp) (v : Bytes) (fuel : Nat) (hf : 2 * v.length ≤ fuel) :
    Generated.Module.IsZeroPseudoVersion fmtTime fuel v = .ok (Pseudo.isZeroPseudoVersion v) := by
  unfold Generated.Module.IsZeroPseudoVersion Pseudo.isZeroPseudoVersion
  rw [Tie.FnSemver.Major_tie v fuel hf, bind_ok, ZeroPseudoVersion_ok fmtTime hz, zeroPseudoVersion_model]
  simp only [bind_ok, pure_eq_ok]
  congr 1
  by_cases h : v = zeroPV (Semver.major v)
  · simp [← h]
  · have hb : (v == zeroPV (Semver.major v)) = false := by simpa using h
    simp [h, hb]

end ModVerif.TieFnPseudo
