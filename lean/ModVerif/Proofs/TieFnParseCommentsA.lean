/-
  Helper lemmas for Tie/FnParseComments.lean, part A: `Position.add`, the six `Span` methods and the interface dispatch
  `x.Span()`, `reverseComments`.
-/
import ModVerif.Proofs.TieFnParseHeap
set_option linter.unusedSimpArgs false
set_option linter.unusedVariables false
namespace ModVerif.TieFnParseComments
open ModVerif ModVerif.GoRt ModVerif.Generated ModVerif.Generated.Parse ModVerif.Tie.FnParseHeap

/-! ### Position.add -/

/-- `Position.add(")")`: one single-byte rune that is not a newline -/
theorem Position_add_rparen (p : Modfile.Position) : Position_add (posG p) [41] = .ok (posG p.add1) := by
  have hc : count ([41] : Bytes) [10] = 0 := by decide
  have hr : runeCount ([41] : Bytes) = 1 := by decide
  simp [Position_add, hc, hr, posG, Modfile.Position.add1, len_eq]

/-- pairs of positions -/
def spanG (s : Modfile.Position × Modfile.Position) : Position × Position := (posG s.1, posG s.2)

/-! ### the Span methods -/

/-- `x.Span()` on an interface value: the dispatch the translator emits (same text as in the loops of assignComments) -/
def Expr_Span (fuel : Nat) (x : Expr) (world : Heap) : M ((Position × Position) × Heap) :=
  (match x with
        | Expr.CommentBlock dp => (do
        let t10 ← (CommentBlock_Span dp world)
        let (wr11, world) := t10
        pure (wr11, world))
        | Expr.LParen dp => (do
        let t12 ← (LParen_Span dp world)
        let (wr13, world) := t12
        pure (wr13, world))
        | Expr.RParen dp => (do
        let t14 ← (RParen_Span dp world)
        let (wr15, world) := t14
        pure (wr15, world))
        | Expr.Line dp => (do
        let t16 ← (Line_Span dp world)
        let (wr17, world) := t16
        pure (wr17, world))
        | Expr.LineBlock dp => (do
        let t18 ← (LineBlock_Span dp world)
        let (wr19, world) := t18
        pure (wr19, world))
        | Expr.FileSyntax dp => (do
        let t20 ← (FileSyntax_Span fuel dp world)
        let (wr21, world) := t20
        pure (wr21, world))
        | Expr.nil => throw Err.panic : M ((Position × Position) × Heap))

theorem Span_CommentBlock {h : Heap} {p : Int} {c : Modfile.CommentBlock} (hg : heapGet h.cbs p = .ok (cbG c))
    (fuel : Nat) : Expr_Span fuel (.CommentBlock p) h = .ok (spanG (Modfile.Expr.commentBlock c).span, h) := by
  simp [Expr_Span, CommentBlock_Span, hg, cbG, spanG, Modfile.Expr.span]

theorem Span_Line {h : Heap} {p : Int} {l : Modfile.Line} (hg : heapGet h.lines p = .ok (lineG l))
    (fuel : Nat) : Expr_Span fuel (.Line p) h = .ok (spanG (Modfile.Expr.line l).span, h) := by
  simp [Expr_Span, Line_Span, hg, lineG, spanG, Modfile.Expr.span]

theorem Span_LineBlock {h : Heap} {p : Int} {b : Modfile.LineBlock} {ps : List Int}
    (hg : heapGet h.blocks p = .ok (blockG b ps)) (fuel : Nat) :
    Expr_Span fuel (.LineBlock p) h = .ok (spanG (Modfile.Expr.lineBlock b).span, h) := by
  simp [Expr_Span, LineBlock_Span, hg, blockG, rparenG, Position_add_rparen, spanG, Modfile.Expr.span]

theorem Span_LParen {h : Heap} {p : Int} {b : Modfile.LineBlock} {ps : List Int}
    (hg : heapGet h.blocks p = .ok (blockG b ps)) (fuel : Nat) :
    Expr_Span fuel (.LParen p) h = .ok (spanG (Modfile.Expr.lparen b.lparen).span, h) := by
  simp [Expr_Span, LParen_Span, hg, blockG, lparenG, Position_add_rparen, spanG, Modfile.Expr.span]

theorem Span_RParen {h : Heap} {p : Int} {b : Modfile.LineBlock} {ps : List Int}
    (hg : heapGet h.blocks p = .ok (blockG b ps)) (fuel : Nat) :
    Expr_Span fuel (.RParen p) h = .ok (spanG (Modfile.Expr.rparen b.rparen).span, h) := by
  simp [Expr_Span, RParen_Span, hg, blockG, rparenG, Position_add_rparen, spanG, Modfile.Expr.span]

/-- the span of a reified statement -/
theorem Span_stmt {h : Heap} {e : Expr} {s : Modfile.Expr} (hr : RExpr h e s) (fuel : Nat) :
    Expr_Span fuel e h = .ok (spanG s.span, h) := by
  cases e <;> cases s <;> simp only [RExpr] at hr
  · exact Span_CommentBlock hr fuel
  · exact Span_Line hr.1 fuel
  · obtain ⟨ps, hb, _⟩ := hr; exact Span_LineBlock hb fuel


theorem FileSyntax_Span_unfold (fuel : Nat) (x : Int) (world : Heap) :
    FileSyntax_Span (fuel + 1) x world = (do
      let t1 ← heapGet world.files x
      if (decide ((len (t1.Stmt)) = (0 : Int))) then (pure (((default : Position), (default : Position)), world)) else (do
        let t2 ← heapGet world.files x
        let t3 ← idxL (t2.Stmt) (0 : Int)
        let (dr16, world) ← Expr_Span fuel t3 world
        let (start, _) := dr16
        let t17 ← heapGet world.files x
        let t18 ← heapGet world.files x
        let t19 ← idxL (t17.Stmt) ((len (t18.Stmt)) - (1 : Int))
        let (dr32, world) ← Expr_Span fuel t19 world
        let (_, end_) := dr32
        pure ((start, end_), world))) := rfl

theorem RStmts_getLast {h : Heap} : ∀ {es : List Expr} {ss : List Modfile.Expr}, RStmts h es ss → es ≠ [] →
    ∃ eL sL, es.getLast? = some eL ∧ ss.getLast? = some sL ∧ RExpr h eL sL
  | [], _, _, hne => absurd rfl hne
  | [e], [s], hr, _ => ⟨e, s, rfl, rfl, by simpa using hr⟩
  | [e], _ :: _ :: _, hr, _ => by simp at hr
  | e :: e2 :: es, [], hr, _ => by simp at hr
  | e :: e2 :: es, [s], hr, _ => by simp at hr
  | e :: e2 :: es, s :: s2 :: ss, hr, _ => by
    simp only [RStmts_cons] at hr
    obtain ⟨eL, sL, h1, h2, h3⟩ := RStmts_getLast (es := e2 :: es) (ss := s2 :: ss) (by simpa using hr.2) (by simp)
    exact ⟨eL, sL, by simpa [List.getLast?_cons_cons] using h1, by simpa [List.getLast?_cons_cons] using h2, h3⟩
  | [e], [], hr, _ => by simp at hr

theorem idxL_last {α : Type} {l : List α} {a : α} (h : l.getLast? = some a) : idxL l (len l - 1) = .ok a := by
  have hne : l ≠ [] := by intro e; subst e; simp at h
  have hl : 0 < l.length := List.length_pos_iff.2 hne
  have e1 : len l - 1 = ((l.length - 1 : Nat) : Int) := by simp [len_eq]; omega
  rw [e1, idxL_natCast (by omega)]
  rw [List.getLast?_eq_getElem?] at h
  have := List.getElem?_eq_some_iff.1 h
  obtain ⟨_, h2⟩ := this
  simp [h2]

/-- `FileSyntax.Span`: start of the first statement, end of the last one; two zero positions for an empty file -/
theorem FileSyntax_Span_eq {h : Heap} {p : Int} {f : Modfile.FileSyntax} (hr : RFile h p f) (fuel : Nat) :
    FileSyntax_Span (fuel + 1) p h = .ok (spanG f.span, h) := by
  obtain ⟨es, hf, hs⟩ := hr
  rw [FileSyntax_Span_unfold]
  simp only [hf, bind_ok, fileG]
  cases es with
  | nil =>
    cases hss : f.stmts with
    | nil => simp [Modfile.FileSyntax.span, hss, spanG]
    | cons s ss => rw [hss] at hs; simp at hs
  | cons e es =>
    cases hss : f.stmts with
    | nil => rw [hss] at hs; simp at hs
    | cons s ss =>
      rw [hss] at hs
      have hs0 := hs
      simp only [RStmts_cons] at hs
      obtain ⟨eL, sL, h1, h2, h3⟩ := RStmts_getLast hs0 (by simp)
      have hne : ¬ (len (e :: es) = 0) := by simp [len_eq]; omega
      have hi0 : idxL (e :: es) 0 = .ok e := by
        have := idxL_natCast (v := e :: es) (k := 0) (by simp)
        simpa using this
      simp only [hne, decide_false, Bool.false_eq_true, if_false, hi0, bind_ok, Span_stmt hs.1, idxL_last h1,
        Span_stmt h3, pure_eq_ok, hf, fileG]
      simp [Modfile.FileSyntax.span, hss, h2, spanG]

theorem Span_FileSyntax {h : Heap} {p : Int} {f : Modfile.FileSyntax} (hr : RFile h p f) (fuel : Nat) :
    Expr_Span (fuel + 1) (.FileSyntax p) h = .ok (spanG f.span, h) := by
  simp [Expr_Span, FileSyntax_Span_eq hr]


/-! ### reverseComments -/

theorem idxL_append_mid {α : Type} (a : List α) (x : α) (r : List α) {i : Int} (hi : i = len a) :
    idxL (a ++ x :: r) i = .ok x := by
  subst hi
  rw [len_eq, idxL_natCast (by simp)]
  simp

theorem setIdxL_append_mid {α : Type} (a : List α) (x y : α) (r : List α) {i : Int} (hi : i = len a) :
    setIdxL (a ++ x :: r) i y = .ok (a ++ y :: r) := by
  subst hi
  unfold setIdxL
  have : (0 : Int) ≤ len a ∧ len a < len (a ++ x :: r) := by simp [len_eq]; omega
  rw [if_pos this]
  simp only [len_eq, Int.toNat_natCast]
  rw [List.set_append_right _ _ (Nat.le_refl _)]
  simp

theorem reverseComments_loop1_eq : ∀ (fuel : Nat) (a mid b : List Comment) (i j : Int), mid.length + 1 ≤ fuel →
    i = len a → j = len a + len mid - 1 →
    ∃ i' j', reverseComments_loop1 fuel (a ++ mid ++ b) i j = .ok (a ++ mid.reverse ++ b, i', j')
  | 0, _, _, _, _, _, hf, _, _ => by omega
  | fuel + 1, a, mid, b, i, j, hf, hi, hj => by
    unfold reverseComments_loop1
    rcases mid with _ | ⟨x, _ | ⟨y0, m0⟩⟩
    · have : ¬ (i < j) := by simp only [len_eq, List.length_cons, List.length_append, List.length_nil] at hi hj ⊢; omega
      simp [this]
    · have : ¬ (i < j) := by simp only [len_eq, List.length_cons, List.length_append, List.length_nil] at hi hj ⊢; omega
      simp [this]
    ·
      obtain ⟨m', y, hm⟩ : ∃ m' y, y0 :: m0 = m' ++ [y] := by
        rcases List.eq_nil_or_concat (y0 :: m0) with h | ⟨L, b, h⟩
        · cases h
        · exact ⟨L, b, by simpa using h⟩
      rw [hm] at hf hj ⊢
      have hlt : i < j := by simp only [len_eq, List.length_cons, List.length_append, List.length_nil] at hi hj ⊢; omega
      simp only [hlt, decide_true, if_true]
      have e1 : a ++ (x :: (m' ++ [y])) ++ b = (a ++ x :: m') ++ y :: b := by simp
      have hj1 : j = len (a ++ x :: m') := by simp only [len_eq, List.length_cons, List.length_append, List.length_nil] at hi hj ⊢; omega
      have g1 : idxL (a ++ (x :: (m' ++ [y])) ++ b) j = .ok y := by rw [e1]; exact idxL_append_mid _ _ _ hj1
      have e2 : a ++ (x :: (m' ++ [y])) ++ b = a ++ x :: (m' ++ y :: b) := by simp
      have g2 : idxL (a ++ (x :: (m' ++ [y])) ++ b) i = .ok x := by rw [e2]; exact idxL_append_mid _ _ _ hi
      have g3 : setIdxL (a ++ (x :: (m' ++ [y])) ++ b) i y = .ok (a ++ y :: (m' ++ y :: b)) := by
        rw [e2]; exact setIdxL_append_mid _ _ _ _ hi
      have e3 : a ++ y :: (m' ++ y :: b) = (a ++ y :: m') ++ y :: b := by simp
      have hj2 : j = len (a ++ y :: m') := by simp only [len_eq, List.length_cons, List.length_append, List.length_nil] at hi hj ⊢; omega
      have g4 : setIdxL (a ++ y :: (m' ++ y :: b)) j x = .ok ((a ++ y :: m') ++ x :: b) := by
        rw [e3]; exact setIdxL_append_mid _ _ _ _ hj2
      simp only [g1, g2, g3, g4, bind_ok]
      have e4 : (a ++ y :: m') ++ x :: b = (a ++ [y]) ++ m' ++ (x :: b) := by simp
      rw [e4]
      obtain ⟨i', j', hh⟩ := reverseComments_loop1_eq fuel (a ++ [y]) m' (x :: b) (i + 1) (j - 1)
        (by simp at hf; omega) (by simp only [len_eq, List.length_cons, List.length_append, List.length_nil] at hi hj ⊢; omega) (by simp only [len_eq, List.length_cons, List.length_append, List.length_nil] at hi hj ⊢; omega)
      exact ⟨i', j', by rw [hh]; simp⟩

/-- `reverseComments`: the in-place swap loop is list reversal -/
theorem reverseComments_eq (fuel : Nat) (l : List Comment) (hf : l.length + 1 ≤ fuel) :
    reverseComments fuel l = .ok ((), l.reverse) := by
  obtain ⟨i', j', hh⟩ := reverseComments_loop1_eq fuel [] l [] 0 (len l - 1) hf (by simp) (by simp)
  simp only [List.nil_append, List.append_nil] at hh
  simp [reverseComments, hh]

end ModVerif.TieFnParseComments
