/-
  C02, end-of-line comments on the SOURCE text, part f: a purely byte-level sufficient condition for
  `NoMultiLineToken`: the input contains no backslash immediately followed by a newline byte.

  Only a double-quoted string can contain a newline byte, and only directly after a backslash
  (`StrBody`: `readString` rejects a bare newline and lets a backslash escape any next rune); identifiers,
  punctuation and `//` texts never contain one (`LexOK`).  Every token text is an infix of the input.
-/
import ModVerif.Proofs.ModfileSrcTok
import ModVerif.Proofs.ModfileFmtClass
namespace ModVerif.Proofs.ModfileSrc
open ModVerif ModVerif.Modfile ModVerif.Proofs.ModfileLex
open ModVerif.Proofs.ModfileFmtLex ModVerif.Proofs.ModfileFmtTok ModVerif.Proofs.ModfileFmtClass
open ModVerif.Proofs.ModfilePos ModVerif.Proofs.ModfileC20 ModVerif.Proofs.ModfileC20Utf8

/-- the input contains no backslash immediately followed by a newline -/
def NoBackslashNewline (x : Bytes) : Prop := ¬ ([92, 10] <:+: x)

instance (x : Bytes) : Decidable (NoBackslashNewline x) := by
  unfold NoBackslashNewline
  infer_instance

theorem infix_of_drop {a : Bytes} {n : Nat} {p : Bytes} (h : p <:+: a.drop n) : p <:+: a :=
  h.trans (List.drop_suffix n a).isInfix

theorem mem_take_or_drop {a : Bytes} {n : Nat} {b : UInt8} (h : b ∈ a) : b ∈ a.take n ∨ b ∈ a.drop n := by
  rw [← List.take_append_drop n a] at h
  exact List.mem_append.1 h

/-- a newline byte inside the body of a quoted string directly follows a backslash -/
theorem strBody_nl {q : Nat} {a : Bytes} (h : StrBody q a) (hm : (10 : UInt8) ∈ a) : [92, 10] <:+: a := by
  induction h with
  | @close a hne hnl hq hend =>
    exfalso
    rcases mem_take_or_drop (n := (Utf8.decodeRune a).2) hm with h1 | h1
    · exact decodeRune_ne_newline hne hnl 10 h1 rfl
    · rw [hend] at h1; cases h1
  | @esc a hne hnl hq hbs hraw hne2 hrest ih =>
    -- the first rune is the single byte `\`
    match a, hne with
    | b0 :: rest, _ =>
      rcases decodeRune_cases b0 rest with ⟨hlt, heq⟩ | ⟨hge, hr, _⟩
      · rw [heq] at hbs hrest hne2 ih
        simp only [List.drop_succ_cons, List.drop_zero] at hrest hne2 ih
        have hb0 : b0 = 92 := by
          apply UInt8.toNat_inj.1
          simpa using hbs
        subst hb0
        by_cases h10 : (Utf8.decodeRune rest).1 = 10
        · have := decodeRune_eq_newline hne2 h10
          have hr : rest = [10] ++ rest.drop (Utf8.decodeRune rest).2 := by
            rw [← this, List.take_append_drop]
          rw [hr]
          exact ⟨[], rest.drop (Utf8.decodeRune rest).2, by simp⟩
        · have hm' : (10 : UInt8) ∈ rest := by
            rcases List.mem_cons.1 hm with h | h
            · cases h
            · exact h
          rcases mem_take_or_drop (n := (Utf8.decodeRune rest).2) hm' with h1 | h1
          · exact absurd rfl (decodeRune_ne_newline hne2 h10 10 h1)
          · exact (infix_of_drop (ih h1)).trans (List.suffix_cons _ _).isInfix
      · rw [hbs] at hr
        omega
  | @other a hne hnl hq hno hrest ih =>
    rcases mem_take_or_drop (n := (Utf8.decodeRune a).2) hm with h1 | h1
    · exact absurd rfl (decodeRune_ne_newline hne hnl 10 h1)
    · exact infix_of_drop (ih h1)

/-- a newline byte inside a token other than the newline token directly follows a backslash -/
theorem lexOK_nl {k : TokKind} {t : Bytes} (h : LexOK k t) (hk : k ≠ .punct 10) (hm : (10 : UInt8) ∈ t) :
    [92, 10] <:+: t := by
  cases h with
  | eof => cases hm
  | newline => exact absurd rfl hk
  | comment t h => exact absurd hm h.2
  | eolComment t h => exact absurd hm h.2
  | tok k t h =>
    cases h with
    | punct c hc =>
      exfalso
      simp only [List.mem_singleton] at hm
      subst hm
      revert hc; decide
    | string q a hq hb =>
      rcases List.mem_cons.1 hm with h | h
      · exfalso
        subst h
        rcases hq with hq | hq <;> cases hq
      · exact (strBody_nl hb h).trans (List.suffix_cons _ _).isInfix
    | ident a hne hb hnq => exact absurd hm (identBody_no_newline hb)

/-- every token of the stream is the pending token of a state the lexer reaches in one `readToken` step -/
theorem mem_lexAll {data : Bytes} : ∀ (f : Nat) (i : Input) (t : Token),
    (∀ i', readToken i = .ok i' → Reach data i') → t ∈ lexAll f i →
    ∃ j j', readToken j = .ok j' ∧ Reach data j' ∧ t = j'.token := by
  intro f
  induction f with
  | zero => intro i t _ ht; cases ht
  | succ f ih =>
    intro i t hreach ht
    cases hr : readToken i with
    | error e => simp [lexAll, hr] at ht
    | ok i' =>
      rw [lexAll_succ_ok hr] at ht
      rcases List.mem_cons.1 ht with rfl | ht
      · exact ⟨i, i', hr, hreach i' hr, rfl⟩
      · split at ht
        · cases ht
        · exact ih i' t (fun i'' h'' => Reach.lex (hreach i' hr) h'') ht

/-- ★ an input without backslash-newline has no token that spans two source lines -/
theorem noMultiLineToken_of_noBackslashNewline {x : Bytes} (h : NoBackslashNewline x) : NoMultiLineToken x := by
  intro t ht hk hm
  obtain ⟨j, j', hr, hreach, rfl⟩ := mem_lexAll (data := x) _ _ t (fun i' h' => Reach.start h') ht
  have hinf := lexOK_nl (lex_emits_LexOK j j' hr) hk hm
  have hpre := (reach_tokOK2 hreach).facts.start.2
  exact h (infix_of_drop (hinf.trans hpre.isInfix))

end ModVerif.Proofs.ModfileSrc
