/-
  Helper lemmas for Tie/FnParse.lean, part C: `input.parseStmt` (a line, a block `verb ( … )`, an empty block `verb ( )`,
  or parens in the middle of a line) against the model's `parseStmtLoop` / `parseStmt`.  The model RETURNS the statement;
  the Go code appends it to `in.file.Stmt` (the file object at the pointer `f = in.file`).
-/
import ModVerif.Proofs.TieFnParseLoopsB
set_option linter.unusedSimpArgs false
set_option linter.unusedVariables false
namespace ModVerif.TieFnParse
open ModVerif ModVerif.GoRt ModVerif.Modfile ModVerif.TieFnLex
open ModVerif.Tie.FnParseHeap
open ModVerif.Proofs.ModfileParse (m Good lex_spec)
open ModVerif.Drv.LexOps.G (isPrintI isSpaceI)
open ModVerif.Drv.LexOps.M (kindCode)

variable {f : Int} {pre post : List Generated.Parse.Expr}

/-- the statement parseStmt appends is a freshly allocated line or a freshly allocated block -/
def NewStmt (h h' : Generated.Parse.Heap) (ex : Generated.Parse.Expr) : Prop :=
  (ex = .Line ((h.lines.length + 1 : Nat) : Int) ∧ h'.blocks = h.blocks) ∨
  (ex = .LineBlock ((h.blocks.length + 1 : Nat) : Int) ∧ h'.blocks.length = h.blocks.length + 1)

/-- the model's loop body with `==` on token kinds as equalities -/
theorem parseStmtLoop_succ (n : Nat) (i : Input) (start «end» : Position) (tokensRev : List Bytes) :
    parseStmtLoop (n + 1) i start «end» tokensRev = (do
      let (tok, i) ← lex i
      if tok.kind.isEOL then
        .ok (.line { id := i.nextId, start := start, token := tokensRev.reverse, «end» := «end» },
             { i with nextId := i.nextId + 1 })
      else if tok.kind = .punct 40 then
        if i.peek.isEOL then do
          let (b, i) ← parseLineBlock (n + 1) i start tokensRev.reverse tok
          .ok (.lineBlock b, i)
        else if i.peek = .punct 41 then do
          let (rparen, i) ← lex i
          if i.peek.isEOL then do
            let (_, i) ← lex i
            .ok (.lineBlock { start := start, token := tokensRev.reverse,
                              lparen := { pos := tok.pos }, rparen := { pos := rparen.pos } }, i)
          else
            parseStmtLoop n i start «end» (rparen.text :: tok.text :: tokensRev)
        else
          parseStmtLoop n i start «end» (tok.text :: tokensRev)
      else parseStmtLoop n i start tok.endPos (tok.text :: tokensRev)) := by
  conv => lhs; unfold parseStmtLoop
  simp only [beq_iff_eq]

theorem blockG_empty (s : Position) (ts : List Bytes) (lp rp : Token) :
    ({ (default : Generated.Parse.LineBlock) with Start := posG s, Token := ts, LParen := ({ (default : Generated.Parse.LParen) with Pos := ((tokG lp).pos) } : Generated.Parse.LParen), RParen := ({ (default : Generated.Parse.RParen) with Pos := ((tokG rp).pos) } : Generated.Parse.RParen) } : Generated.Parse.LineBlock) =
      blockG { start := s, token := ts, lparen := { pos := lp.pos }, rparen := { pos := rp.pos } } [] := rfl

theorem lineG_stmt (id : Nat) (s e : Position) (ts : List Bytes) :
    ({ (default : Generated.Parse.Line) with Start := posG s, Token := ts, End := posG e } : Generated.Parse.Line) =
      lineG { id := id, start := s, token := ts, «end» := e } := rfl

theorem RLines_files (h : Generated.Parse.Heap) (fl : List Generated.Parse.FileSyntax) (ps : List Int) (ls : List Line) :
    RLines { h with files := fl } ps ls ↔ RLines h ps ls :=
  RLines_congr (h := h) (h' := { h with files := fl }) rfl

theorem idx_pred (n : Nat) : ((n + 1 : Nat) : Int).toNat - 1 = n := by omega

theorem parseStmt_loop_sim : ∀ (fm : Nat) (i : Input) (s e : Position) (ts : List Bytes), WF i → m i < fm →
    ∀ (fg : Nat), m i + 7 ≤ fg → ∀ (h : Generated.Parse.Heap) (fo : Generated.Parse.FileSyntax),
    heapGet h.files f = .ok fo → h.lines.length = i.nextId →
    match parseStmtLoop fm i s e ts with
    | .ok (x, i') => ∃ h' ex,
        Generated.Parse.input_parseStmt_loop1 isPrintI isSpaceI (posG s) fg (embP f pre post i) h ts.reverse (posG e) =
          .ok (.ret (((), embP f pre post i'), h')) ∧ WF i' ∧
        h'.cbs = h.cbs ∧ h.lines <+: h'.lines ∧ h.blocks <+: h'.blocks ∧
        h'.files = h.files.set (f.toNat - 1) { fo with Stmt := fo.Stmt ++ [ex] } ∧
        RExpr h' ex x ∧ h'.lines.length = i'.nextId ∧ NewStmt h h' ex
    | .error _ =>
        Generated.Parse.input_parseStmt_loop1 isPrintI isSpaceI (posG s) fg (embP f pre post i) h ts.reverse (posG e) =
          .error .panic := by
  intro fm
  induction fm with
  | zero => intro i _ _ _ _ hm; omega
  | succ n ih =>
    intro i s e ts hw hm fg hfg h fo hfo hn
    obtain ⟨g, rfl⟩ : ∃ g, fg = g + 1 := ⟨fg - 1, by omega⟩
    rw [parseStmtLoop_succ]
    unfold Generated.Parse.input_parseStmt_loop1
    rcases lex_step (f := f) (pre := pre) (post := post) i hw g (by omega) with
      ⟨j, hM, hG, hwj, hle, hlt, hid⟩ | ⟨e1, hM, hG⟩
    case inr => simp only [hM, hG, bind_error, ebind_error]
    simp only [hM, hG, bind_ok, ebind_ok, isEOL_tokG]
    cases hk : i.token.kind.isEOL with
    | true =>
      simp only [if_true]
      dsimp (config := { instances := true }) only [embP_file]
      rw [lineG_stmt j.nextId]
      simp only [hfo, bind_ok, heapAlloc_fst, heapAlloc_snd, heapSet_of_get _ hfo, pure_eq_ok, embP_nextId]
      refine ⟨_, _, rfl, hwj, rfl, List.prefix_append _ _, List.prefix_refl _, rfl, ?_, ?_, Or.inl ⟨rfl, rfl⟩⟩
      · show RLine _ _ _
        exact ⟨heapGet_alloc_new _ _, by show _ = ((j.nextId + 1 : Nat) : Int); rw [hid, hn]⟩
      · show (h.lines ++ [_]).length = j.nextId + 1
        rw [hid, ← hn]; simp
    | false =>
      simp only [Bool.false_eq_true, if_false]
      have hlt' := hlt (Proofs.ModfileParse.not_eof_of_not_isEOL hk)
      have hrec : ∀ (j2 : Input) (e' : Position) (ts' : List Bytes), WF j2 → m j2 ≤ m j → j2.nextId = i.nextId →
          match parseStmtLoop n j2 s e' ts' with
          | .ok (x, i') => ∃ h' ex,
              Generated.Parse.input_parseStmt_loop1 isPrintI isSpaceI (posG s) g (embP f pre post j2) h ts'.reverse (posG e') =
                .ok (.ret (((), embP f pre post i'), h')) ∧ WF i' ∧
              h'.cbs = h.cbs ∧ h.lines <+: h'.lines ∧ h.blocks <+: h'.blocks ∧
              h'.files = h.files.set (f.toNat - 1) { fo with Stmt := fo.Stmt ++ [ex] } ∧
              RExpr h' ex x ∧ h'.lines.length = i'.nextId ∧ NewStmt h h' ex
          | .error _ =>
              Generated.Parse.input_parseStmt_loop1 isPrintI isSpaceI (posG s) g (embP f pre post j2) h ts'.reverse (posG e') =
                .error .panic := by
        intro j2 e' ts' hw2 hm2 hid2
        exact ih j2 s e' ts' hw2 (by omega) g (by omega) h fo hfo (by rw [hid2]; exact hn)
      simp only [show (tokG i.token).kind = kindCode i.token.kind from rfl, dk_40]
      by_cases h40 : i.token.kind = .punct 40
      · simp only [h40, decide_true, if_true]
        dsimp (config := { instances := true }) only [embP_peek]
        simp only [isEOL_code, dk_41]
        cases hk2 : j.peek.isEOL with
        | true =>
          simp only [if_true]
          dsimp (config := { instances := true }) only [embP_file]
          simp only [hfo, bind_ok]
          have key := parseLineBlock_sim (f := f) (pre := pre) (post := post) (n + 1) j s ts.reverse i.token hwj (by omega)
            g (by omega) h (by rw [hid]; exact hn)
          generalize hpb : parseLineBlock (n + 1) j s ts.reverse i.token = r at key ⊢
          cases r with
          | error e2 => simp only [key, bind_error, ebind_error]
          | ok p =>
            obtain ⟨b, i2⟩ := p
            obtain ⟨h1, ps1, hG1, hw2, hc1, hf1, hpl1, hbl1, hrl1, hnl1⟩ := key
            have hfo1 : heapGet h1.files f = .ok fo := by rw [hf1]; exact hfo
            simp only [hG1, bind_ok, ebind_ok, embP_file, hfo1, heapSet_of_get _ hfo1, pure_eq_ok]
            refine ⟨_, _, rfl, hw2, hc1, hpl1, ?_, ?_, ?_, hnl1, Or.inr ⟨rfl, ?_⟩⟩
            · show h.blocks <+: h1.blocks
              rw [hbl1]; exact List.prefix_append _ _
            · show h1.files.set _ _ = _
              rw [hf1]
            · show ∃ ps, heapGet h1.blocks _ = .ok (blockG b ps) ∧ RLines _ ps b.lines
              refine ⟨ps1, ?_, (RLines_files h1 _ _ _).2 hrl1⟩
              rw [hbl1]; exact heapGet_alloc_new _ _
            · show h1.blocks.length = _
              rw [hbl1]; simp
        | false =>
          simp only [Bool.false_eq_true, if_false]
          by_cases h41 : j.peek = .punct 41
          · simp only [h41, decide_true, if_true]
            rcases lex_step (f := f) (pre := pre) (post := post) j hwj g (by omega) with
              ⟨j2, hM2, hG2, hwj2, hle2, hlt2, hid2⟩ | ⟨e2, hM2, hG2⟩
            case inr => simp only [hM2, hG2, bind_error, ebind_error]
            simp only [hM2, hG2, bind_ok, ebind_ok]
            dsimp (config := { instances := true }) only [embP_peek]
            simp only [isEOL_code]
            cases hk3 : j2.peek.isEOL with
            | true =>
              simp only [if_true]
              rcases lex_step (f := f) (pre := pre) (post := post) j2 hwj2 g (by omega) with
                ⟨j3, hM3, hG3, hwj3, hle3, hlt3, hid3⟩ | ⟨e3, hM3, hG3⟩
              case inr => simp only [hM3, hG3, bind_error, ebind_error]
              simp only [hM3, hG3, bind_ok, ebind_ok]
              dsimp (config := { instances := true }) only [embP_file]
              rw [blockG_empty]
              simp only [hfo, bind_ok, heapAlloc_fst, heapAlloc_snd, heapSet_of_get _ hfo, pure_eq_ok]
              refine ⟨_, _, rfl, hwj3, rfl, List.prefix_refl _, List.prefix_append _ _, rfl, ?_, ?_, Or.inr ⟨rfl, ?_⟩⟩
              · show ∃ ps, heapGet (h.blocks ++ [_]) _ = .ok (blockG _ ps) ∧ RLines _ ps []
                exact ⟨[], heapGet_alloc_new _ _, trivial⟩
              · show h.lines.length = j3.nextId
                rw [hid3, hid2, hid]; exact hn
              · show (h.blocks ++ [_]).length = _
                simp
            | false =>
              simp only [Bool.false_eq_true, if_false]
              have := hrec j2 e (j.token.text :: i.token.text :: ts) hwj2 hle2 (by rw [hid2, hid])
              simp only [List.reverse_cons, List.append_assoc, List.cons_append, List.nil_append] at this
              exact this
          · simp only [h41, decide_false, Bool.false_eq_true, if_false]
            have := hrec j e (i.token.text :: ts) hwj (Nat.le_refl _) hid
            simp only [List.reverse_cons] at this
            exact this
      · simp only [h40, decide_false, Bool.false_eq_true, if_false]
        have := hrec j i.token.endPos (i.token.text :: ts) hwj (Nat.le_refl _) hid
        simp only [List.reverse_cons] at this
        exact this

theorem parseStmt_sim (fm : Nat) (i : Input) (hw : WF i) (hm : m i < fm) (fg : Nat) (hfg : m i + 7 ≤ fg)
    (h : Generated.Parse.Heap) (fo : Generated.Parse.FileSyntax) (hfo : heapGet h.files f = .ok fo)
    (hn : h.lines.length = i.nextId) :
    match parseStmt fm i with
    | .ok (x, i') => ∃ h' ex,
        Generated.Parse.input_parseStmt isPrintI isSpaceI fg (embP f pre post i) h = .ok (((), embP f pre post i'), h') ∧
        WF i' ∧ h'.cbs = h.cbs ∧ h.lines <+: h'.lines ∧ h.blocks <+: h'.blocks ∧
        h'.files = h.files.set (f.toNat - 1) { fo with Stmt := fo.Stmt ++ [ex] } ∧
        RExpr h' ex x ∧ h'.lines.length = i'.nextId ∧ NewStmt h h' ex
    | .error _ => Generated.Parse.input_parseStmt isPrintI isSpaceI fg (embP f pre post i) h = .error .panic := by
  unfold parseStmt Generated.Parse.input_parseStmt
  rcases lex_step (f := f) (pre := pre) (post := post) i hw fg (by omega) with
    ⟨j, hM, hG, hwj, hle, hlt, hid⟩ | ⟨e1, hM, hG⟩
  case inr => simp only [hM, hG, bind_error, ebind_error]
  simp only [hM, hG, bind_ok, ebind_ok]
  have key := parseStmt_loop_sim (f := f) (pre := pre) (post := post) fm j i.token.pos i.token.endPos [i.token.text] hwj
    (by omega) fg (by omega) h fo hfo (by rw [hid]; exact hn)
  simp only [List.reverse_cons, List.reverse_nil, List.nil_append] at key
  generalize hrec : parseStmtLoop fm j i.token.pos i.token.endPos [i.token.text] = r at key ⊢
  cases r with
  | error e =>
    simp only [tokG] at key ⊢
    simp only [key, bind_error]
  | ok p =>
    obtain ⟨x, i2⟩ := p
    obtain ⟨h', ex, hG', rest⟩ := key
    refine ⟨h', ex, ?_, rest⟩
    simp only [tokG] at hG' ⊢
    simp only [hG', bind_ok, pure_eq_ok]

end ModVerif.TieFnParse
